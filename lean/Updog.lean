/-
Root module: the executable parts (models, specs, oracle components). Proof and property modules are separate
compilation units (several helper files reuse lemma names, so no single module imports all of them); the library's
`globs` in lakefile.toml make `lake build` compile and check every module under Updog/.
-/
import Updog.Basic.Bytes
import Updog.Basic.XXHash
import Updog.Generated
import Updog.Oracle.Idx
import Updog.Oracle.Lru
import Updog.Oracle.Parse
import Updog.Oracle.Fs
