import Updog.Basic.Bytes
import Updog.Basic.XXHash
import Updog.Model.Index
import Updog.Spec.Sat
import Updog.Props.C01
