import Updog.Basic.Bytes
import Updog.Basic.XXHash
import Updog.Generated
import Updog.Oracle.Idx
import Updog.Oracle.Lru
import Updog.Oracle.Parse
import Updog.Oracle.Fs
