/-
The readable specification of C01/C02/C05: which rows satisfy an expression, the total count,
and SQL GROUP BY with COUNT(*) > 0.
-/
import Updog.Model.Index
namespace Updog

mutual
/-- a row satisfies column=value iff it was added with that value for that column -/
def sat (r : Row) : Expr → Bool
  | .eq c v => r.contains (c, v)
  | .not e => !sat r e
  | .and es => satAll r es
  | .or es => satAny r es
def satAll (r : Row) : List Expr → Bool
  | [] => true
  | e :: es => sat r e && satAll r es
def satAny (r : Row) : List Expr → Bool
  | [] => false
  | e :: es => sat r e || satAny r es
end

def specCount (rows : List Row) (e : Expr) : Nat := (rows.filter (sat · e)).length

mutual
def Expr.columns : Expr → List Bytes
  | .eq c _ => [c]
  | .not e => e.columns
  | .and es => Expr.columnsList es
  | .or es => Expr.columnsList es
def Expr.columnsList : List Expr → List Bytes
  | [] => []
  | e :: es => e.columns ++ Expr.columnsList es
end

mutual
def Expr.pairs : Expr → List (Bytes × Bytes)
  | .eq c v => [(c, v)]
  | .not e => e.pairs
  | .and es => Expr.pairsList es
  | .or es => Expr.pairsList es
def Expr.pairsList : List Expr → List (Bytes × Bytes)
  | [] => []
  | e :: es => e.pairs ++ Expr.pairsList es
end

mutual
/-- every AND/OR has at least one operand -/
def Expr.arityPos : Expr → Bool
  | .eq _ _ => true
  | .not e => e.arityPos
  | .and es => !es.isEmpty && Expr.arityPosList es
  | .or es => !es.isEmpty && Expr.arityPosList es
def Expr.arityPosList : List Expr → Bool
  | [] => true
  | e :: es => e.arityPos && Expr.arityPosList es
end

def columnsOf (rows : List Row) : List Bytes := rows.flatMap (·.map (·.1))
def pairsOf (rows : List Row) : List (Bytes × Bytes) := rows.flatMap id

/-- distinct values of column `c`, byte-wise ascending -/
def sortedDistinct (rows : List Row) (c : Bytes) : List Bytes :=
  ((pairsOf rows).filterMap fun kv => if kv.1 == c then some kv.2 else none).eraseDups.mergeSort
    (fun a b => bytesLe a b)

def rowMatches (r : Row) (t : Fields) : Bool := t.all r.contains

def groupCount (rows : List Row) (e : Expr) (t : Fields) : Nat :=
  (rows.filter fun r => sat r e && rowMatches r t).length

/-- lexicographic product, first column most significant -/
def product : List (Bytes × List Bytes) → List Fields
  | [] => [[]]
  | (c, vs) :: rest => vs.flatMap fun v => (product rest).map fun t => (c, v) :: t

/-- SELECT cols, COUNT(*) WHERE e GROUP BY cols HAVING COUNT(*) > 0 ORDER BY cols;
    `none` if a listed column occurs in no row -/
def specGroups (rows : List Row) (e : Expr) (cols : List Bytes) : Option (List (Fields × Nat)) :=
  if cols.any (fun c => !(columnsOf rows).contains c) then none
  else if cols.isEmpty then some []
  else some ((product (cols.map fun c => (c, sortedDistinct rows c))).filterMap fun t =>
    let n := groupCount rows e t
    if n = 0 then none else some (t, n))

def specSchema (rows : List Row) : List (Bytes × List Bytes) :=
  ((columnsOf rows).eraseDups.mergeSort (fun a b => bytesLe a b)).map fun c => (c, sortedDistinct rows c)

/-- the whole observable answer of a query, by the specification -/
def specExecute (rows : List Row) (q : Query) : Option Result :=
  if (q.expr.columns.any fun c => !(columnsOf rows).contains c) then none else
  match specGroups rows q.expr q.groupBy with
  | none => none
  | some gs => some ⟨specCount rows q.expr, gs⟩

end Updog
