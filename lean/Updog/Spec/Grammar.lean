/-
The documented query grammar (the EBNF comment at the top of internal/queryparser/queryparser.go)
as inductive relations on token lists.

    query       ::= expr [ ';' field-list ]
    expr        ::= simple-expr | and-expr | or-expr
    simple-expr ::= grouped-expr | not-expr | comparison
    grouped-expr::= '(' expr ')'
    and-expr    ::= simple-expr { '&' simple-expr }
    or-expr     ::= simple-expr { '|' simple-expr }
    not-expr    ::= '^' simple-expr
    comparison  ::= field '=' ( value | placeholder )
    field-list  ::= field { ',' field }

Reading conventions, made explicit here because the EBNF alone is ambiguous:

* MAXIMAL MUNCH.  `expr ::= simple-expr | and-expr | or-expr` is ambiguous as written (a lone
  simple-expr is also an and-expr and an or-expr with zero repetitions, and `{ ... }` may stop
  anywhere).  The reading fixed here (and implemented by the parser) is greedy: a repetition
  `{ sep simple-expr }` never stops while the next token is `sep`, and a lone simple-expr is an
  `expr` only if it is NOT followed by `&` or `|`.  With this reading every token list has at most
  one derivation (`Updog.C09.grammar_unambiguous`).
* An and-expr / or-expr with n ≥ 2 operands denotes ONE n-ary node `PExpr.and [e₁,…,eₙ]`
  (`PExpr.or`) with the operands in source order; with n = 1 it is the operand itself.
* Parentheses only group: `'(' expr ')'` denotes the tree of the inner `expr`.
* A placeholder `$n` is accepted only for `1 ≤ n ≤ 2147483647` (`decodePlaceholder` maps
  everything else to 0 and the parser rejects values `< 1`).
* A sentence is a whole token stream: it must end with the single `eof` item.

Lexical level (`value ::= '"' { string-character } '"'`,
`string-character ::= any-character-except-quote | """"`): `StrBody b` says that the byte string `b`
is a sequence of string-characters, i.e. every quote (byte 34) in it is doubled.

Each relation `X ts v r` reads: "a phrase of syntactic category `X` at the front of the token list
`ts` denotes `v` and leaves the remaining tokens `r`".
-/
import Updog.Model.Parser
namespace Updog
namespace Grammar

/-- `{ string-character }`: a sequence of non-quote bytes and doubled quotes -/
inductive StrBody : Bytes → Prop
  | nil : StrBody []
  | char {x : UInt8} {b : Bytes} (hx : x ≠ 34) (h : StrBody b) : StrBody (x :: b)
  | quote {b : Bytes} (h : StrBody b) : StrBody (34 :: 34 :: b)

mutual
/-- simple-expr ::= grouped-expr | not-expr | comparison -/
inductive Simple : List Tok → PExpr → List Tok → Prop
  /-- comparison ::= field '=' value -/
  | cmpValue (c body : Bytes) (r : List Tok) :
      Simple (.field c :: .eq :: .value body :: r) (.eq c (unescape body) 0) r
  /-- comparison ::= field '=' placeholder   (placeholder number must be ≥ 1) -/
  | cmpPlaceholder (c ds : Bytes) (r : List Tok) (h : 1 ≤ decodePlaceholder ds) :
      Simple (.field c :: .eq :: .placeholder ds :: r) (.eq c [] (decodePlaceholder ds)) r
  /-- not-expr ::= '^' simple-expr -/
  | not {ts : List Tok} {e : PExpr} {r : List Tok} (h : Simple ts e r) :
      Simple (.not :: ts) (.not e) r
  /-- grouped-expr ::= '(' expr ')'   (denotes the inner tree) -/
  | group {ts : List Tok} {e : PExpr} {r : List Tok} (h : Expr ts e (.rparen :: r)) :
      Simple (.lparen :: ts) e r

/-- `simple-expr { sep simple-expr }`, greedy: it stops only where the next token is not `sep` -/
inductive Chain : Tok → List Tok → List PExpr → List Tok → Prop
  | last {sep : Tok} {ts : List Tok} {e : PExpr} {r : List Tok}
      (h : Simple ts e r) (hstop : r.head? ≠ some sep) : Chain sep ts [e] r
  | more {sep : Tok} {ts : List Tok} {e : PExpr} {r : List Tok} {es : List PExpr} {r' : List Tok}
      (h : Simple ts e (sep :: r)) (hc : Chain sep r es r') : Chain sep ts (e :: es) r'

/-- expr ::= simple-expr | and-expr | or-expr   (maximal munch) -/
inductive Expr : List Tok → PExpr → List Tok → Prop
  /-- a lone simple-expr, not followed by `&` or `|` -/
  | single {ts : List Tok} {e : PExpr} {r : List Tok} (h : Simple ts e r)
      (hand : r.head? ≠ some .and) (hor : r.head? ≠ some .or) : Expr ts e r
  /-- and-expr with ≥ 2 operands: ONE n-ary node -/
  | and {ts : List Tok} {e : PExpr} {r : List Tok} {es : List PExpr} {r' : List Tok}
      (h : Simple ts e (.and :: r)) (hc : Chain .and r es r') : Expr ts (.and (e :: es)) r'
  /-- or-expr with ≥ 2 operands: ONE n-ary node -/
  | or {ts : List Tok} {e : PExpr} {r : List Tok} {es : List PExpr} {r' : List Tok}
      (h : Simple ts e (.or :: r)) (hc : Chain .or r es r') : Expr ts (.or (e :: es)) r'
end

/-- `p` is, by itself, a complete simple-expr denoting `e` (whatever follows it) -/
def SimplePhrase (p : List Tok) (e : PExpr) : Prop := ∀ r, Simple (p ++ r) e r

mutual
/-- every `and` / `or` node of the tree has at least two operands -/
def nary2 : PExpr → Bool
  | .eq _ _ _ => true
  | .not e => nary2 e
  | .and es => decide (2 ≤ es.length) && nary2List es
  | .or es => decide (2 ≤ es.length) && nary2List es
def nary2List : List PExpr → Bool
  | [] => true
  | e :: es => nary2 e && nary2List es
end

/-- `{ ',' field }`, greedy -/
inductive FieldsRest : List Tok → List Bytes → List Tok → Prop
  | done {r : List Tok} (hstop : r.head? ≠ some .comma) : FieldsRest r [] r
  | more {c : Bytes} {ts : List Tok} {fs : List Bytes} {r : List Tok}
      (h : FieldsRest ts fs r) : FieldsRest (.comma :: .field c :: ts) (c :: fs) r

/-- field-list ::= field { ',' field } -/
inductive FieldList : List Tok → List Bytes → List Tok → Prop
  | mk {c : Bytes} {ts : List Tok} {fs : List Bytes} {r : List Tok}
      (h : FieldsRest ts fs r) : FieldList (.field c :: ts) (c :: fs) r

/-- query ::= expr [ ';' field-list ]   followed by the end of input -/
inductive Sentence : List Tok → PQuery → Prop
  | plain {ts : List Tok} {e : PExpr} (h : Expr ts e [.eof]) : Sentence ts ⟨e, []⟩
  | grouped {ts : List Tok} {e : PExpr} {fts : List Tok} {fields : List Bytes}
      (h : Expr ts e (.semi :: fts)) (hf : FieldList fts fields [.eof]) : Sentence ts ⟨e, fields⟩

end Grammar
end Updog
