/-
Model of writer_big.go (`BigIndexWriter.AddRow`, `BigIndexWriter.Flush`) and of the transaction
structure of `IndexWriter.WriteToBoltDatabase` (writer.go).

The temp bucket is a *set* of 12-byte keys `be64(valueIdx) ‖ be32(rowID)` (values are empty);
a bolt cursor iterates the keys in bytewise ascending order. `Flush` walks the cursor, collects
the row ids of every run of equal value indexes into one bitmap and puts the bitmap into the data
bucket; `I` and `S` are put afterwards and the single output transaction is committed.
-/
import Updog.Model.Index
import Updog.Model.Open
namespace Updog

/-- bolt `Put` on the data bucket: replaces the value of an existing key, otherwise adds the key -/
def ValMap.put (m : ValMap) (h : UInt64) (b : Nat) : ValMap :=
  match m with
  | [] => [(h, b)]
  | (k, b') :: rest => if k == h then (k, b) :: rest else (k, b') :: ValMap.put rest h b

/-! ### BigIndexWriter.AddRow -/

structure BigWriter where
  schema : Schema := []
  /-- key set of the temp bucket (duplicate free; the order of the list is irrelevant, the cursor sorts) -/
  temp : List Bytes := []
  next : Nat := 0

/-- `bucket.Put(key, []byte{})` on the temp bucket: add the key if it is absent -/
def insertKey (t : List Bytes) (k : Bytes) : List Bytes := if t.contains k then t else t ++ [k]

/-- the 12-byte temp key -/
def tempKey (valueIdx rowID : Nat) : Bytes := be64 valueIdx ++ be32 rowID

section
variable (H : Bytes → UInt64)

/-- body of the `for k, v := range values` loop -/
def BigWriter.addPair (i : Nat) (w : BigWriter) (kv : Bytes × Bytes) : BigWriter :=
  let h := H (encodePair kv.1 kv.2)
  { w with schema := w.schema.add kv.1 kv.2 h, temp := insertKey w.temp (tempKey h.toNat i) }

/-- `AddRow`: returns the new state; the returned row id is `w.next`.
    (The periodic commit of the temp transaction does not change the key set.) -/
def BigWriter.addRow (w : BigWriter) (r : Row) : BigWriter :=
  let w' := r.foldl (BigWriter.addPair H w.next) w
  { w' with next := w.next + 1 }

def BigWriter.addRows (w : BigWriter) (rows : List Row) : BigWriter := rows.foldl (BigWriter.addRow H) w

end

/-! ### BigIndexWriter.Flush -/

/-- cursor order of a bolt bucket: bytewise ascending -/
def sortKeys (ks : List Bytes) : List Bytes := ks.mergeSort bytesLe

/-- loop state of `Flush`: `currentValueIdx`, `bm` (`none` = Go's `nil`), and the data bucket -/
structure WalkState where
  cur : Nat := 0
  bm : Option Nat := none
  out : ValMap := []

/-- `if bm != nil { dataBucket.Put('V' ‖ be64(currentValueIdx), bm.ToBytes()) }` -/
def WalkState.emit (s : WalkState) : ValMap :=
  match s.bm with
  | none => s.out
  | some b => s.out.put s.cur.toUInt64 b

/-- one iteration of the cursor loop on key `k` -/
def walkStep (s : WalkState) (k : Bytes) : WalkState :=
  let valueIdx := beDecode (k.take 8)
  let rowID := beDecode (k.drop 8)
  let s' : WalkState :=
    if s.bm.isNone || s.cur != valueIdx then { cur := valueIdx, bm := some 0, out := s.emit } else s
  { s' with bm := some (setBit (s'.bm.getD 0) rowID) }

/-- the cursor loop followed by "write last bitmap to data bucket" -/
def walk (ks : List Bytes) : ValMap := (ks.foldl walkStep {}).emit

/-- `Flush` without the key length check: (data bucket values, schema `S`, counter `I`) -/
def BigWriter.flushCore (w : BigWriter) : ValMap × Schema × Nat :=
  (walk (sortKeys w.temp), w.schema, w.next)

/-- `Flush`: a temp key whose length is not 12 makes it return an error -/
def BigWriter.flush (w : BigWriter) : Outcome (ValMap × Schema × Nat) :=
  if w.temp.all (·.length == 12) then .ok w.flushCore else .error

/-- result of adding all rows to a fresh big writer and flushing -/
def BigWriter.image (H : Bytes → UInt64) (rows : List Row) : ValMap × Schema × Nat :=
  (BigWriter.addRows H {} rows).flushCore

/-! ### transactions on the output database -/

/-- a `Put` on the data bucket -/
inductive BoltPut where
  | val (k : UInt64) (b : Nat)      -- 'V' ‖ be64(k) ↦ bitmap
  | schema (s : Schema)             -- 'S'
  | counter (n : Nat)               -- 'I'
  deriving Repr, DecidableEq

abbrev Tx := List BoltPut

/-- committed content of the output file -/
structure BoltImage where
  bucket : Bool := false
  vals : ValMap := []
  schema : Option Schema := none
  counter : Option Nat := none

def BoltImage.hasHeader (img : BoltImage) : Bool := img.schema.isSome && img.counter.isSome

def BoltImage.applyPut (img : BoltImage) : BoltPut → BoltImage
  | .val k b => { img with vals := img.vals.put k b }
  | .schema s => { img with schema := some s }
  | .counter n => { img with counter := some n }

/-- commit of one transaction: every writer transaction has (created or looked up) the data bucket -/
def BoltImage.applyTx (img : BoltImage) (tx : Tx) : BoltImage :=
  tx.foldl BoltImage.applyPut { img with bucket := true }

/-- the image after the first `k` transactions of `txs` have been committed (crash after the k-th commit) -/
def imageAfter (txs : List Tx) (k : Nat) : BoltImage := (txs.take k).foldl BoltImage.applyTx {}

/-- what `OpenIndex` sees (bitmaps produced by `ToBytes` are decodable) -/
def stateOf (img : BoltImage) : FileState :=
  .bolt img.bucket (if img.schema.isSome then .good else .missing)
    (if img.counter.isSome then .good else .missing) true

/-- loop state of `WriteToBoltDatabase`: open transaction, `i`, committed transactions -/
structure BatchState where
  cur : Tx := []
  i : Nat := 0
  done : List Tx := []

/-- body of `for k, v := range idx.values` with `batch` in place of the constant 1000 -/
def batchStep (batch : Nat) (st : BatchState) (kv : UInt64 × Nat) : BatchState :=
  let cur := st.cur ++ [BoltPut.val kv.1 kv.2]
  let i := st.i + 1
  if i % batch == 0 then { cur := [], i := i, done := st.done ++ [cur] } else { cur := cur, i := i, done := st.done }

/-- `WriteToBoltDatabase`: `perm` is the Go map iteration order of `idx.values`;
    the header is put into the transaction that is open after the loop, which is committed last -/
def writeTxs (schema : Schema) (next : Nat) (perm : ValMap) (batch : Nat) : List Tx :=
  let st := perm.foldl (batchStep batch) {}
  st.done ++ [st.cur ++ [BoltPut.schema schema, BoltPut.counter next]]

/-- `BigIndexWriter.Flush` on the output database: one transaction. Inside a transaction only the net
    effect of the puts is observable; `walk` already computes the net effect on the value keys. -/
def BigWriter.flushTxs (w : BigWriter) : List Tx :=
  [(w.flushCore.1.map fun kb => BoltPut.val kb.1 kb.2) ++ [BoltPut.counter w.next, BoltPut.schema w.schema]]

end Updog
