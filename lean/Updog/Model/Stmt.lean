/-
Model of statement execution in driver/driver.go on a file connection:

* `fileStmt.query(values)`: `if n := numInput(stmt.q); len(values) < n { return error }`, then
  `ReplacePlaceholders` on a clone, `convert.ToQuery`, `idx.Execute`, `newRows`;
* `fileConn.QueryContext(query, args)`: `prepare(query)` (= `ParseQuery`, an error if the text is rejected)
  followed by `stmt.query(values)`.

The regenerated Go function `Gen.stmtQuery` is shown to have exactly this shape (`bind`, then conversion,
`Execute`, `newRows`; the error "expected %d arguments, got %d" exactly when `bind` fails, nothing executed) in
`Props/Gen/Walk.lean` (`stmtQuery_eq`), with `Execute` as a parameter; here `Execute` is the model's `execute`.
The value list built from `driver.NamedValue`s (`queryContextValues`) is also treated there; here `values` is
that list.

Besides the outcome the functions return the list of queries that were handed to `Index.Execute`
(the "execution trace"), so that "fails before any execution" is a statement about the model.
-/
import Updog.Model.Rows
namespace Updog

section
variable (H : Bytes → UInt64)

/-- `fileStmt.query(values)`: the outcome and the queries handed to `Index.Execute` -/
def stmtQuery (ix : Index) (q : PQuery) (values : List Bytes) : Outcome Rows × List Query :=
  match bind q values with
  | .ok b =>
    match execute H ix (toQuery b) with
    | some r => (.ok (newRows r b.groupBy), [toQuery b])
    | none => (.error, [toQuery b])
  | .error => (.error, [])
  | .panic => (.panic, [])
  | .hang => (.hang, [])

/-- `fileConn.QueryContext(text, values)`: prepare, then query -/
def queryText (ix : Index) (text : Bytes) (values : List Bytes) : Outcome Rows × List Query :=
  match parseQuery text with
  | none => (.error, [])
  | some q => stmtQuery H ix q values

end
end Updog
