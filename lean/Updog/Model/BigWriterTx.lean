/-
Model of writer_big.go with the temporary database's TRANSACTIONS made explicit
(`Model/BigWriter.lean` keeps one key set `temp` and abstracts the periodic commit away).

Go code modelled (writer_big.go):

* `NewBigIndexWriter` creates the bucket "temp" in `tempDB` (one committed, empty transaction) and opens the write
  transaction `tempTx`.  State `{}` below: nothing committed, nothing pending, counter 0.
* `AddRow` (mutex held for the whole body, so one call is one atomic step):
    rowID := idx.nextRowID;  defer idx.nextRowID++
    for k, v := range values { valueIdx := schema.add(k, v); tempTx.Bucket("temp").Put(be64(valueIdx) ‖ be32(rowID), {}) }
    if rowID > 0 && rowID%1000 == 0 { tempTx.Commit(); tempTx = tempDB.Begin(true) }
    return rowID
  The test uses the id of THIS call (the counter before the increment): the first commit happens inside the call that
  returns 1000, i.e. the 1001st call.
* `Flush`: `tempTx.Commit()`, then a READ-ONLY transaction on `tempDB` — it sees committed data only — whose cursor
  walks the bucket in key order; the bitmaps, `I` and `S` go into one transaction on the output database (that part
  is `walk` / `BigWriter.flushTxs` of `Model/BigWriter.lean`, reused unchanged).
* `Close`: `tempTx.Rollback()` — the pending puts are dropped, `tempDB` keeps what was committed.  The same holds when
  the process dies: bolt's commit is atomic, so the file holds exactly the committed keys.

Representation.  A bolt bucket is a key SET (B+tree, cursor order = bytewise ascending).  As in `Model/BigWriter.lean`
it is kept as a duplicate-free list in first-insertion order; only `sortKeys` of it is ever observed
(`Updog.flushTx_order_irrelevant` in `Proofs/C18Big.lean`: the walk depends on the key set only).
The bucket a write transaction sees is `committed ∪ pending`; `pending` holds the keys the open transaction added that
are not committed yet (values are always empty, so a `Put` of an existing key changes nothing).

Deviations from the Go code (all shared with `Model/BigWriter.lean`):
* `nextRowID` is a `Nat`; Go's `uint32` wraps after 2^32 rows (the theorems that need it assume `rows.length ≤ 2^32`;
  `be32` truncates exactly like `PutUint32(key[8:], rowID)` does).
* I/O errors of `Put` / `Commit` / `Begin` are not modelled (on such an error Go returns early, but the deferred increment
  still runs, so an id is skipped).
* `Flush` is not protected by the mutex in Go; here it is a separate step that runs after the calls of the schedule.
-/
import Updog.Model.BigWriter
namespace Updog

structure BigWriterTx where
  schema : Schema := []
  /-- key set of bucket "temp" as committed in `tempDB` (what a read-only transaction, a crash or `Close` sees) -/
  committed : List Bytes := []
  /-- keys added by the open write transaction `tempTx` that are not committed yet -/
  pending : List Bytes := []
  next : Nat := 0
  /-- number of `tempTx.Commit()` calls so far (the commit log, as a counter) -/
  commits : Nat := 0

/-- the bucket as the open write transaction sees it -/
def BigWriterTx.visible (st : BigWriterTx) : List Bytes := st.committed ++ st.pending

/-- `tempTx.Bucket("temp").Put(key, []byte{})`: adds the key to the transaction unless the bucket already has it -/
def BigWriterTx.put (st : BigWriterTx) (k : Bytes) : BigWriterTx :=
  if st.visible.contains k then st else { st with pending := st.pending ++ [k] }

/-- `tempTx.Commit(); tempTx = tempDB.Begin(true)`: the pending keys become committed, the new transaction is empty -/
def BigWriterTx.commit (st : BigWriterTx) : BigWriterTx :=
  { st with committed := st.committed ++ st.pending, pending := [], commits := st.commits + 1 }

/-- `tempTx.Rollback()` (`Close`), or the process dies: the pending keys are gone -/
def BigWriterTx.abandon (st : BigWriterTx) : BigWriterTx := { st with pending := [] }

section
variable (H : Bytes → UInt64)

/-- body of the `for k, v := range values` loop for row id `i` -/
def BigWriterTx.addPair (i : Nat) (st : BigWriterTx) (kv : Bytes × Bytes) : BigWriterTx :=
  let h := H (encodePair kv.1 kv.2)
  { st.put (tempKey h.toNat i) with schema := st.schema.add kv.1 kv.2 h }

/-- the commit test of `AddRow`, on the id of the current call -/
def commitsAt (rowID : Nat) : Bool := decide (rowID > 0) && rowID % 1000 == 0

/-- `AddRow`: (returned row id, new state) -/
def addRowTx (st : BigWriterTx) (r : Row) : Nat × BigWriterTx :=
  let rowID := st.next
  let st1 := r.foldl (BigWriterTx.addPair H rowID) st
  let st2 := if commitsAt rowID then st1.commit else st1
  (rowID, { st2 with next := rowID + 1 })

/-- the state after a sequence of `AddRow` calls -/
def addRowsTx (st : BigWriterTx) (rows : List Row) : BigWriterTx := rows.foldl (fun s r => (addRowTx H s r).2) st

/-- The calls of a schedule, each tagged with its goroutine, executed one after the other (each `AddRow` is atomic
    because it holds the mutex for its whole body): the ids the calls return, in call order, and the final state. -/
def runCallsBigTx (st : BigWriterTx) : List (Nat × Row) → List Nat × BigWriterTx
  | [] => ([], st)
  | c :: cs =>
    let res := addRowTx H st c.2
    let out := runCallsBigTx res.2 cs
    (res.1 :: out.1, out.2)

end

/-- `Flush` without the key length check: commit, then walk the COMMITTED bucket (read-only transaction):
    (data bucket values, schema `S`, counter `I`) -/
def flushTx (st : BigWriterTx) : ValMap × Schema × Nat :=
  let st' := st.commit
  (walk (sortKeys st'.committed), st'.schema, st'.next)

/-- `Flush`: a committed temp key whose length is not 12 makes it return an error -/
def flushTxChecked (st : BigWriterTx) : Outcome (ValMap × Schema × Nat) :=
  if st.commit.committed.all (·.length == 12) then .ok (flushTx st) else .error

/-- what a `Flush`-like walk would read from `tempDB` of a writer that was abandoned (crash / `Close`) -/
def abandonedWalk (st : BigWriterTx) : ValMap := walk (sortKeys st.abandon.committed)

/-- the state of `Model/BigWriter.lean` this state stands for: the bucket as the writer sees it -/
def BigWriterTx.toBig (st : BigWriterTx) : BigWriter := { schema := st.schema, temp := st.visible, next := st.next }

end Updog
