/-
Total, executable versions of the fast helper functions of the compiled oracle (`Updog/Oracle/Idx.lean`):
population count of a big `Nat` by divide and conquer, bit set from an array of row ids, and `Execute`
with the fast population count. They are proved equal to the model's definitions (`popcount`, `setBit`,
`execute` in `Updog/Model/Index.lean`) in `Updog/Proofs/FastBits.lean` / `Updog/Props/OracleFast.lean`.
Core only, no `partial`.
-/
import Updog.Model.Index
namespace Updog

/-! ### population count -/

/-- number of set bits of every byte value -/
def popTable8 : Array Nat := #[
    0, 1, 1, 2, 1, 2, 2, 3, 1, 2, 2, 3, 2, 3, 3, 4, 1, 2, 2, 3, 2, 3, 3, 4, 2, 3, 3, 4, 3, 4, 4, 5,
    1, 2, 2, 3, 2, 3, 3, 4, 2, 3, 3, 4, 3, 4, 4, 5, 2, 3, 3, 4, 3, 4, 4, 5, 3, 4, 4, 5, 4, 5, 5, 6,
    1, 2, 2, 3, 2, 3, 3, 4, 2, 3, 3, 4, 3, 4, 4, 5, 2, 3, 3, 4, 3, 4, 4, 5, 3, 4, 4, 5, 4, 5, 5, 6,
    2, 3, 3, 4, 3, 4, 4, 5, 3, 4, 4, 5, 4, 5, 5, 6, 3, 4, 4, 5, 4, 5, 5, 6, 4, 5, 5, 6, 5, 6, 6, 7,
    1, 2, 2, 3, 2, 3, 3, 4, 2, 3, 3, 4, 3, 4, 4, 5, 2, 3, 3, 4, 3, 4, 4, 5, 3, 4, 4, 5, 4, 5, 5, 6,
    2, 3, 3, 4, 3, 4, 4, 5, 3, 4, 4, 5, 4, 5, 5, 6, 3, 4, 4, 5, 4, 5, 5, 6, 4, 5, 5, 6, 5, 6, 6, 7,
    2, 3, 3, 4, 3, 4, 4, 5, 3, 4, 4, 5, 4, 5, 5, 6, 3, 4, 4, 5, 4, 5, 5, 6, 4, 5, 5, 6, 5, 6, 6, 7,
    3, 4, 4, 5, 4, 5, 5, 6, 4, 5, 5, 6, 5, 6, 6, 7, 4, 5, 5, 6, 5, 6, 6, 7, 5, 6, 6, 7, 6, 7, 7, 8]

/-- population count of the low byte of `x` (table lookup) -/
@[inline] def popByte (x : UInt64) : Nat := popTable8.getD (x &&& 0xff).toNat 0

/-- population count of a 64-bit word: eight byte-table lookups -/
def popcount64 (x : UInt64) : Nat :=
  popByte x + popByte (x >>> 8) + popByte (x >>> 16) + popByte (x >>> 24) +
  popByte (x >>> 32) + popByte (x >>> 40) + popByte (x >>> 48) + popByte (x >>> 56)

/-- divide and conquer with explicit fuel (one unit per halving; `popcountFast` supplies enough) -/
def popcountFastAux : Nat → Nat → Nat
  | 0, n => popcount64 n.toUInt64
  | fuel + 1, n =>
    if n < 18446744073709551616 then popcount64 n.toUInt64
    else
      let k := (Nat.log2 n + 1) / 2
      popcountFastAux fuel (n >>> k) + popcountFastAux fuel (n &&& ((1 <<< k) - 1))

/-- population count of a big `Nat`: below `2^64` one word count, otherwise split the bit string in the middle -/
def popcountFast (n : Nat) : Nat := popcountFastAux (Nat.log2 n + 1) n

/-! ### bit set from row ids -/

/-- the simple specification: set the bits one after the other -/
def natOfIdsSpec (ids : List Nat) : Nat := ids.foldl setBit 0

/-- OR of `1 <<< ids[j]` for `lo ≤ j < hi`, divide and conquer (balanced, so the big operands are few) -/
def natOfIdsRange (ids : Array Nat) (lo hi : Nat) : Nat :=
  if hi ≤ lo then 0
  else if hi = lo + 1 then 1 <<< ids[lo]!
  else
    let mid := (lo + hi) / 2
    natOfIdsRange ids lo mid ||| natOfIdsRange ids mid hi
termination_by hi - lo
decreasing_by all_goals omega

/-- bit set from an array of row ids -/
def natOfIdsArray (ids : Array Nat) : Nat := natOfIdsRange ids 0 ids.size

/-- bit set from a list of row ids -/
def natOfIds (ids : List Nat) : Nat := natOfIdsArray ids.toArray

/-! ### `Execute` with the fast population count -/

section
variable (H : Bytes → UInt64)

/-- `refine` with the emptiness test `r = 0` instead of `popcount r = 0` -/
def refineFast (ix : Index) (gbf : GBField) (rgs : List (Fields × Nat)) : List (Fields × Nat) :=
  rgs.flatMap fun rg => gbf.values.filterMap fun v =>
    match ix.getCol v.2 with
    | none => none
    | some vbm =>
      let r := rg.2 &&& vbm
      if r = 0 then none else some (rg.1 ++ [(gbf.col, v.1)], r)

def groupByFast (ix : Index) (fields : List GBField) (result : Nat) : List (Fields × Nat) :=
  if fields.isEmpty then [] else
  (fields.foldl (fun rgs gbf => refineFast ix gbf rgs) [([], result)]).map fun rg => (rg.1, popcountFast rg.2)

/-- `execute` with `popcountFast` for the counts and `r = 0` as the emptiness test of the group-by refinement -/
def executeFast (ix : Index) (q : Query) : Option Result :=
  match populateGroupBy ix.schema q.groupBy with
  | none => none
  | some fields =>
    match eval H ix q.expr with
    | none => none
    | some bm => some ⟨popcountFast bm, groupByFast ix fields bm⟩

end
end Updog
