/-
Rune-level model of the lexer of internal/queryparser/queryparser.go.

The Go lexer never looks at single bytes: `l.next()` calls `utf8.DecodeRuneInString(l.input[l.pos:])`,
advances `l.pos` by the WIDTH of the decoded rune and returns the RUNE VALUE; every decision
(`lexText`'s switch, `acceptRun(valid)`, the quote scanning of `lexValue`) is taken on rune values.
This file mirrors that code step by step on top of `decodeRune` (the model of `utf8.DecodeRune` in
`Updog.Model.Create`).  The lexer state `(input, start, pos)` is represented by the not yet consumed
suffix `input[pos:]`; a state function returns the consumed bytes `input[start:pos]` where Go emits them.

`Updog.Model.Parser.lexAll` is the byte-level model of the same code; `Updog.Props.C09Runes` proves
`lexAllR s = lexAll s` for every byte string `s` (valid UTF-8 or not).

All recursive functions are structurally recursive on a fuel argument so that they evaluate in the
kernel; the fuel handed in by the callers is the length of the remaining input, which is enough because
a decoded rune on non-empty input has width ≥ 1.
-/
import Updog.Model.Parser
import Updog.Model.Create
namespace Updog

/-- `strings.ContainsRune("\r\n\t ", r)` -/
def isSpaceRune (r : Nat) : Bool := r == 32 || r == 10 || r == 13 || r == 9
/-- `(r >= 'a' && r <= 'z') || (r >= 'A' && r <= 'Z')` -/
def isAlphaRune (r : Nat) : Bool := (97 ≤ r && r ≤ 122) || (65 ≤ r && r ≤ 90)
/-- `strings.ContainsRune("0123456789", r)` -/
def isDigitRune (r : Nat) : Bool := 48 ≤ r && r ≤ 57
/-- `strings.ContainsRune("0123456789abc…zABC…Z_", r)` -/
def isFieldRune (r : Nat) : Bool := isDigitRune r || isAlphaRune r || r == 95

/-- `l.acceptRun(valid)`: `for strings.ContainsRune(valid, l.next()) {}; l.backup()`.
    Returns (the bytes consumed by the run, the remaining input).  At the end of the input `l.next()`
    returns `eof = -1`, which no `valid` string contains, so the run stops there. -/
def acceptRunR (valid : Nat → Bool) : Nat → Bytes → Bytes × Bytes
  | _, [] => ([], [])
  | 0, s => ([], s)
  | fuel + 1, b :: rest =>
    let rw := decodeRune (b :: rest)                 -- l.next(): rune rw.1, width rw.2
    if valid rw.1 then
      let cr := acceptRunR valid fuel ((b :: rest).drop rw.2)
      ((b :: rest).take rw.2 ++ cr.1, cr.2)
    else ([], b :: rest)                             -- l.backup()

/-- the loop of `lexValue` after the opening quote has been consumed:
    `for r = l.next(); r != eof; r = l.next() { if r == '"' { r = l.peek(); if r != '"' { break }; l.next() } }`.
    Result: (the consumed bytes up to but excluding the closing quote, the input after the closing quote);
    `none` = the loop ran into `eof` ("unterminated string"). -/
def scanStrR : Nat → Bytes → Option (Bytes × Bytes)
  | _, [] => none                                    -- l.next() = eof, seenFinalQuote = false
  | 0, _ => none                                     -- out of fuel (unreachable with fuel ≥ length)
  | fuel + 1, b :: rest =>
    let rw := decodeRune (b :: rest)                 -- r = l.next()
    let consumed := (b :: rest).take rw.2
    let after := (b :: rest).drop rw.2
    if rw.1 == 34 then
      match after with                               -- r = l.peek()
      | [] => some ([], [])                          -- peek = eof ≠ '"': final quote
      | c :: rest' =>
        let rw' := decodeRune (c :: rest')
        if rw'.1 == 34 then                          -- escaped quote: l.next(), go on
          (scanStrR fuel ((c :: rest').drop rw'.2)).map fun br =>
            (consumed ++ (c :: rest').take rw'.2 ++ br.1, br.2)
        else some ([], c :: rest')                   -- final quote
    else (scanStrR fuel after).map fun br => (consumed ++ br.1, br.2)

/-- `lexText` together with the state functions it dispatches to (`lexField`, `lexValue`,
    `lexPlaceholder`); the result is the list of items sent on the channel. -/
def lexTextR : Nat → Bytes → List Tok
  | _, [] => [.eof]                                  -- l.peek() = eof
  | 0, _ => [.error]                                 -- out of fuel (unreachable with fuel ≥ length)
  | fuel + 1, b :: rest =>
    let s := b :: rest
    let rw := decodeRune s                           -- r = l.peek()
    let r := rw.1
    let after := s.drop rw.2                         -- the input after one l.next()
    if isSpaceRune r then lexTextR fuel (acceptRunR isSpaceRune s.length s).2
    else if r == 40 then .lparen :: lexTextR fuel after
    else if r == 41 then .rparen :: lexTextR fuel after
    else if r == 38 then .and :: lexTextR fuel after
    else if r == 124 then .or :: lexTextR fuel after
    else if r == 94 then .not :: lexTextR fuel after
    else if r == 44 then .comma :: lexTextR fuel after
    else if r == 59 then .semi :: lexTextR fuel after
    else if r == 61 then .eq :: lexTextR fuel after
    else if isAlphaRune r then
      -- lexField: acceptRun over the field alphabet from the current position
      let cr := acceptRunR isFieldRune s.length s
      .field cr.1 :: lexTextR fuel cr.2
    else if r == 34 then
      -- lexValue: l.next() re-reads the quote, then the scanning loop
      match scanStrR after.length after with
      | none => [.error]
      | some (body, rest') => .value body :: lexTextR fuel rest'
    else if r == 36 then
      -- lexPlaceholder: l.next() re-reads `$`, then acceptRun("0123456789")
      let cr := acceptRunR isDigitRune after.length after
      .placeholder cr.1 :: lexTextR fuel cr.2
    else [.error]                                    -- "unknown token"

/-- the items the lexer goroutine emits, computed rune by rune -/
def lexAllR (s : Bytes) : List Tok := lexTextR s.length s

end Updog
