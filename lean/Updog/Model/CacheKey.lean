/-
Model of the `cacheKey()` methods of query.go: Merkle-style keys
`key(node) = H(tag ‖ be64(key child₁) ‖ … ‖ be64(key childₙ))`, with a distinct tag per node kind.
-/
import Updog.Model.Index
namespace Updog

def tagEqual : UInt8 := 69  -- 'E'
def tagNot : UInt8 := 78    -- 'N'
def tagAnd : UInt8 := 65    -- 'A'
def tagOr : UInt8 := 79     -- 'O'

section
variable (H : Bytes → UInt64)

/-- `mixCacheKey(tag, keys...)` -/
def mixKey (tag : UInt8) (keys : List UInt64) : UInt64 :=
  H (tag :: keys.flatMap fun k => be64 k.toNat)

mutual
def cacheKey : Expr → UInt64
  | .eq c v => mixKey H tagEqual [H (encodePair c v)]
  | .not e => mixKey H tagNot [cacheKey e]
  | .and es => mixKey H tagAnd (cacheKeys es)
  | .or es => mixKey H tagOr (cacheKeys es)
def cacheKeys : List Expr → List UInt64
  | [] => []
  | e :: es => cacheKey e :: cacheKeys es
end

end
end Updog
