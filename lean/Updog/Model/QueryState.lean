/-
The hidden state of a `*Query` value (query.go): `groupByFields`, filled by `populateGroupBy` during Execute.
-/
import Updog.Model.Index
namespace Updog

structure QueryState where
  expr : Expr
  groupBy : List Bytes
  /-- `groupByFields`, whatever earlier executions (on whatever index) left there -/
  hidden : List GBField

section
variable (H : Bytes → UInt64)

/-- `Index.Execute(q)` including its effect on the Query value: `populateGroupBy` first resets the hidden list,
    then appends the resolved columns; on an unknown column the columns resolved so far stay behind. -/
def populateGroupByQ (s : Schema) (cols : List Bytes) (acc : List GBField) : Option (List GBField) × List GBField :=
  match cols with
  | [] => (some acc, acc)
  | c :: cs =>
    match s.col c with
    | none => (none, acc)
    | some vs => populateGroupByQ s cs (acc ++ [⟨c, sortVals vs⟩])

def executeQ (ix : Index) (q : QueryState) : Option Result × QueryState :=
  match populateGroupByQ ix.schema q.groupBy [] with   -- `q.groupByFields = nil` first
  | (none, left) => (none, { q with hidden := left })
  | (some fields, left) =>
    match eval H ix q.expr with
    | none => (none, { q with hidden := left })
    | some bm => (some ⟨popcount bm, Updog.groupBy ix fields bm⟩, { q with hidden := left })

end
end Updog
