/-
Model of internal/queryparser/queryparser.go: byte-level lexer (all state functions) and the
one-token-lookahead recursive-descent parser, plus `decodeString` / `decodePlaceholder`.
The lexer goroutine + channel is modelled as the list of items it would emit; the parser consumes a
prefix of that list (how many items it pulls is `pulled`, used for the "lexer is drained" statement).
-/
import Updog.Basic.Bytes
namespace Updog

/-- protobuf query expression as the parser builds it (all members set) -/
inductive PExpr where
  | eq (col val : Bytes) (ph : Nat)     -- ph = 0: literal value; ph ≥ 1: placeholder $ph
  | not (e : PExpr)
  | and (es : List PExpr)
  | or (es : List PExpr)
  deriving Repr, Inhabited

structure PQuery where
  expr : PExpr
  groupBy : List Bytes
  deriving Repr, Inhabited

inductive Tok where
  | lparen | rparen | and | or | not | eq | comma | semi
  | field (s : Bytes)
  | value (body : Bytes)        -- the text between the outer quotes, still escaped
  | placeholder (digits : Bytes) -- the digits after `$`
  | eof
  | error
  deriving Repr, DecidableEq, Inhabited

def isSpace (c : UInt8) : Bool := c == 32 || c == 10 || c == 13 || c == 9
def isAlpha (c : UInt8) : Bool := (97 ≤ c && c ≤ 122) || (65 ≤ c && c ≤ 90)
def isDigit (c : UInt8) : Bool := 48 ≤ c && c ≤ 57
def isFieldChar (c : UInt8) : Bool := isDigit c || isAlpha c || c == 95

/-- `lexValue` after the opening quote: the escaped body and the rest after the closing quote;
    `none` = input ends before the closing quote -/
def scanStr : Bytes → Option (Bytes × Bytes)
  | [] => none
  | 34 :: 34 :: r => (scanStr r).map fun br => (34 :: 34 :: br.1, br.2)
  | 34 :: r => some ([], r)
  | x :: r => (scanStr r).map fun br => (x :: br.1, br.2)

theorem scanStr_length {s b r : Bytes} (h : scanStr s = some (b, r)) : r.length < s.length := by
  induction s using scanStr.induct generalizing b r with
  | case1 => simp [scanStr] at h
  | case2 r' ih =>
    simp only [scanStr, Option.map_eq_some_iff] at h
    obtain ⟨⟨b', r''⟩, h1, h2⟩ := h
    have := ih h1
    simp only [Prod.mk.injEq] at h2
    obtain ⟨_, rfl⟩ := h2
    simp; omega
  | case3 r' hne =>
    rw [scanStr] at h
    · simp at h; obtain ⟨_, rfl⟩ := h; simp
    · exact hne
  | case4 x r' h1 h2 ih =>
    rw [scanStr] at h
    · simp only [Option.map_eq_some_iff] at h
      obtain ⟨⟨b', r''⟩, h3, h4⟩ := h
      have := ih h3
      simp only [Prod.mk.injEq] at h4
      obtain ⟨_, rfl⟩ := h4
      simp; omega
    · exact h1
    · exact h2

/-- the items the lexer goroutine emits for an input: `lexText` and the state functions it calls.
    Always ends with exactly one `eof` or `error` item. -/
def lexAll : Bytes → List Tok
  | [] => [.eof]
  | c :: rest =>
    if isSpace c then lexAll (rest.dropWhile isSpace)
    else if c == 40 then .lparen :: lexAll rest
    else if c == 41 then .rparen :: lexAll rest
    else if c == 38 then .and :: lexAll rest
    else if c == 124 then .or :: lexAll rest
    else if c == 94 then .not :: lexAll rest
    else if c == 44 then .comma :: lexAll rest
    else if c == 59 then .semi :: lexAll rest
    else if c == 61 then .eq :: lexAll rest
    else if isAlpha c then .field (c :: rest.takeWhile isFieldChar) :: lexAll (rest.dropWhile isFieldChar)
    else if c == 34 then
      match h : scanStr rest with
      | none => [.error]        -- unterminated string
      | some (body, rest') =>
        have : rest'.length < rest.length := scanStr_length h
        .value body :: lexAll rest'
    else if c == 36 then .placeholder (rest.takeWhile isDigit) :: lexAll (rest.dropWhile isDigit)
    else [.error]
termination_by b => b.length
decreasing_by
  all_goals simp_wf
  all_goals first
    | omega
    | (have := (List.dropWhile_sublist isSpace (l := rest)).length_le; omega)
    | (have := (List.dropWhile_sublist isFieldChar (l := rest)).length_le; omega)
    | (have := (List.dropWhile_sublist isDigit (l := rest)).length_le; omega)

/-- `strings.ReplaceAll(s, "\"\"", "\"")` -/
def unescape : Bytes → Bytes
  | 34 :: 34 :: r => 34 :: unescape r
  | x :: r => x :: unescape r
  | [] => []

def digitsVal (ds : Bytes) : Nat := ds.foldl (fun acc d => acc * 10 + (d.toNat - 48)) 0

/-- `decodePlaceholder`: `strconv.ParseInt(s[1:], 10, 32)`; 0 on no digits or out of range -/
def decodePlaceholder (ds : Bytes) : Nat :=
  if ds.isEmpty then 0 else
  let n := digitsVal ds
  if n > 2147483647 then 0 else n

mutual
/-- `parseSimpleExpr` (with `parseGroupedExpr`, `parseComparison` inlined); fuel-structured -/
def parseSimple : Nat → List Tok → Option (PExpr × List Tok)
  | 0, _ => none
  | f + 1, .lparen :: ts =>
    match parseExpr f ts with
    | some (e, .rparen :: r) => some (e, r)
    | _ => none
  | f + 1, .not :: ts =>
    match parseSimple f ts with
    | some (e, r) => some (.not e, r)
    | none => none
  | _ + 1, .field c :: .eq :: .value body :: ts => some (.eq c (unescape body) 0, ts)
  | _ + 1, .field c :: .eq :: .placeholder ds :: ts =>
    if decodePlaceholder ds < 1 then none else some (.eq c [] (decodePlaceholder ds), ts)
  | _ + 1, _ => none
/-- `parseExpr` -/
def parseExpr : Nat → List Tok → Option (PExpr × List Tok)
  | 0, _ => none
  | f + 1, ts =>
    match parseSimple f ts with
    | none => none
    | some (e, .and :: r) =>
      match parseChain f .and r with
      | some (es, r') => some (.and (e :: es), r')
      | none => none
    | some (e, .or :: r) =>
      match parseChain f .or r with
      | some (es, r') => some (.or (e :: es), r')
      | none => none
    | some (e, r) => some (e, r)
/-- the loop of `parseAndExpr` / `parseOrExpr` after one separator has been consumed -/
def parseChain : Nat → Tok → List Tok → Option (List PExpr × List Tok)
  | 0, _, _ => none
  | f + 1, sep, ts =>
    match parseSimple f ts with
    | none => none
    | some (e, t :: r) =>
      if t = sep then (parseChain f sep r).map fun er => (e :: er.1, er.2)
      else some ([e], t :: r)
    | some (e, []) => some ([e], [])
end

/-- `parseFieldList` after the first field: `{ ',' field }` -/
def parseFieldsRest : List Tok → Option (List Bytes × List Tok)
  | .comma :: .field c :: ts => (parseFieldsRest ts).map fun fr => (c :: fr.1, fr.2)
  | .comma :: _ => none
  | ts => some ([], ts)

def parseFieldList : List Tok → Option (List Bytes × List Tok)
  | .field c :: ts => (parseFieldsRest ts).map fun fr => (c :: fr.1, fr.2)
  | _ => none

/-- `parser.parse`: expr [ ';' field-list ] then end of input -/
def parseToks (ts : List Tok) : Option PQuery :=
  match parseExpr (ts.length + 1) ts with
  | none => none
  | some (e, .semi :: r) =>
    match parseFieldList r with
    | some (fs, [.eof]) => some ⟨e, fs⟩
    | _ => none
  | some (e, [.eof]) => some ⟨e, []⟩
  | some _ => none

/-- `ParseQuery` -/
def parseQuery (s : Bytes) : Option PQuery := parseToks (lexAll s)

end Updog
