/-
Model of writer.go / types.go / index.go / query.go (without the result cache, see Model/Cache.lean):
rows, expressions, the in-memory writer, the opened index, eval, group-by, Execute.
Bitmaps are finite sets of row ids represented as a `Nat` bit set.
`H` is the hash `getValueIndex` is built on (xxhash64 in the oracle, a parameter in proofs).
-/
import Updog.Basic.Bytes
namespace Updog

/-- a row as passed to `AddRow` (a Go map; the list order is the map iteration order) -/
abbrev Row := List (Bytes × Bytes)

inductive Expr where
  | eq (c v : Bytes)
  | not (e : Expr)
  | and (es : List Expr)
  | or (es : List Expr)
  deriving Repr, Inhabited

/-- `append(append([]byte(k), 0), []byte(v)...)` -/
def encodePair (c v : Bytes) : Bytes := c ++ 0 :: v

/-! ### bit sets -/

def setBit (b i : Nat) : Nat := b ||| (1 <<< i)

def popcount (n : Nat) : Nat := if h : n = 0 then 0 else n % 2 + popcount (n / 2)
decreasing_by omega

/-- `roaring.Flip(bm, 0, n)` -/
def flip (n b : Nat) : Nat := b ^^^ (2 ^ n - 1)

/-- `roaring.FastAnd(elems...)`: no operand → empty bitmap, one → clone -/
def andAll : List Nat → Nat
  | [] => 0
  | b :: bs => bs.foldl (· &&& ·) b

/-- `roaring.FastOr(elems...)` -/
def orAll (bs : List Nat) : Nat := bs.foldl (· ||| ·) 0

/-! ### schema (types.go) -/

/-- column → (value → value index); lists are in insertion order and duplicate free (Go maps) -/
abbrev Schema := List (Bytes × List (Bytes × UInt64))

def addVal (vs : List (Bytes × UInt64)) (v : Bytes) (h : UInt64) : List (Bytes × UInt64) :=
  if vs.any (·.1 == v) then vs else vs ++ [(v, h)]

def Schema.add (s : Schema) (k v : Bytes) (h : UInt64) : Schema :=
  match s with
  | [] => [(k, [(v, h)])]
  | (k', vs) :: rest => if k' == k then (k', addVal vs v h) :: rest else (k', vs) :: Schema.add rest k v h

def Schema.col (s : Schema) (c : Bytes) : Option (List (Bytes × UInt64)) :=
  match s with
  | [] => none
  | (k, vs) :: rest => if k == c then some vs else Schema.col rest c

/-! ### writer (writer.go) -/

abbrev ValMap := List (UInt64 × Nat)

def ValMap.get (m : ValMap) (h : UInt64) : Option Nat :=
  match m with
  | [] => none
  | (k, b) :: rest => if k == h then some b else ValMap.get rest h

/-- `getValueBitmap(valueIdx).Add(rowID)` -/
def ValMap.addBit (m : ValMap) (h : UInt64) (i : Nat) : ValMap :=
  match m with
  | [] => [(h, setBit 0 i)]
  | (k, b) :: rest => if k == h then (k, setBit b i) :: rest else (k, b) :: ValMap.addBit rest h i

structure Writer where
  schema : Schema := []
  vals : ValMap := []
  next : Nat := 0

section
variable (H : Bytes → UInt64)

def Writer.addPair (i : Nat) (w : Writer) (kv : Bytes × Bytes) : Writer :=
  let h := H (encodePair kv.1 kv.2)
  { w with schema := w.schema.add kv.1 kv.2 h, vals := w.vals.addBit h i }

/-- `AddRow`: returns the new state; the returned row id is `w.next` -/
def Writer.addRow (w : Writer) (r : Row) : Writer :=
  let w' := r.foldl (Writer.addPair H w.next) w
  { w' with next := w.next + 1 }

def Writer.addRows (w : Writer) (rows : List Row) : Writer := rows.foldl (Writer.addRow H) w

/-! ### opened index (index.go) and evaluation (query.go) -/

structure Index where
  schema : Schema
  next : Nat
  /-- `values.GetCol`: `none` = no such key (on-demand: decode error; preloaded: nil) -/
  getCol : UInt64 → Option Nat

/-- the index obtained by `Flush` + `OpenIndex` (either getter) -/
def Writer.toIndex (w : Writer) : Index :=
  { schema := w.schema, next := w.next, getCol := w.vals.get }

mutual
/-- `Expression.eval` without cache; `none` = error -/
def eval (ix : Index) : Expr → Option Nat
  | .eq c v =>
    match ix.schema.col c with
    | none => none
    | some _ => some ((ix.getCol (H (encodePair c v))).getD 0)
  | .not e => (eval ix e).map (flip ix.next)
  | .and es => (evalList ix es).map andAll
  | .or es => (evalList ix es).map orAll
def evalList (ix : Index) : List Expr → Option (List Nat)
  | [] => some []
  | e :: es =>
    match eval ix e with
    | none => none
    | some b => (evalList ix es).map (b :: ·)
end

structure GBField where
  col : Bytes
  values : List (Bytes × UInt64)

/-- `sort.Slice(gb.Values, by Value <)` -/
def sortVals (vs : List (Bytes × UInt64)) : List (Bytes × UInt64) :=
  vs.mergeSort (fun a b => bytesLe a.1 b.1)

def populateGroupBy (s : Schema) : List Bytes → Option (List GBField)
  | [] => some []
  | c :: cs =>
    match s.col c with
    | none => none
    | some vs => (populateGroupBy s cs).map (⟨c, sortVals vs⟩ :: ·)

abbrev Fields := List (Bytes × Bytes)

/-- one iteration of the outer loop of `Query.groupBy` -/
def refine (ix : Index) (gbf : GBField) (rgs : List (Fields × Nat)) : List (Fields × Nat) :=
  rgs.flatMap fun rg => gbf.values.filterMap fun v =>
    match ix.getCol v.2 with
    | none => none
    | some vbm =>
      let r := rg.2 &&& vbm
      if popcount r = 0 then none else some (rg.1 ++ [(gbf.col, v.1)], r)

def groupBy (ix : Index) (fields : List GBField) (result : Nat) : List (Fields × Nat) :=
  if fields.isEmpty then [] else
  (fields.foldl (fun rgs gbf => refine ix gbf rgs) [([], result)]).map fun rg => (rg.1, popcount rg.2)

structure Query where
  expr : Expr
  groupBy : List Bytes

structure Result where
  count : Nat
  groups : List (Fields × Nat)
  deriving Repr, DecidableEq

/-- `Index.Execute`. `stale` is the hidden `groupByFields` left in the `Query` by earlier executions;
    the code resets it before resolving the group-by list, so it is ignored. -/
def execute (ix : Index) (q : Query) (stale : List GBField := []) : Option Result :=
  let _ := stale
  match populateGroupBy ix.schema q.groupBy with
  | none => none
  | some fields =>
    match eval H ix q.expr with
    | none => none
    | some bm => some ⟨popcount bm, Updog.groupBy ix fields bm⟩

/-- `GetSchema`: columns sorted, values sorted -/
def getSchema (ix : Index) : List (Bytes × List Bytes) :=
  (ix.schema.map fun cv => (cv.1, (sortVals cv.2).map (·.1))).mergeSort (fun a b => bytesLe a.1 b.1)

end
end Updog
