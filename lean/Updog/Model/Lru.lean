/-
Model of cache.go: LRUCache as a pure state machine.
`items` is the recency list (`container/list`), front = most recently used; the `entries` map is the
key → element lookup on that list. A bitmap is represented by an opaque id, its `GetSizeInBytes()` by `size`.
-/
namespace Updog

structure Item where
  key : Nat
  size : Nat
  bm : Nat
  deriving DecidableEq, Repr

structure Lru where
  items : List Item := []
  cur : Nat := 0
  max : Nat
  /-- `lruCacheItemSize + listElementSize` -/
  ovh : Nat
  gets : Nat := 0
  puts : Nat := 0
  hits : Nat := 0
  misses : Nat := 0
  deriving Repr

/-- `for c.curSize > c.maxSize && c.lruList.Len() > 0 { remove Back }` -/
def evict (ovh max : Nat) (items : List Item) (cur : Nat) : List Item × Nat :=
  if h : cur > max ∧ items ≠ [] then
    evict ovh max items.dropLast (cur - ((items.getLast h.2).size + ovh))
  else (items, cur)
termination_by items.length
decreasing_by
  have := h.2
  cases items with
  | nil => contradiction
  | cons a t => simp

def Lru.get (c : Lru) (k : Nat) : Lru × Option Nat :=
  match c.items.find? (·.key == k) with
  | none => ({ c with gets := c.gets + 1, misses := c.misses + 1 }, none)
  | some it =>
    ({ c with gets := c.gets + 1, hits := c.hits + 1, items := it :: c.items.filter (·.key != k) }, some it.bm)

def Lru.put (c : Lru) (k bm size : Nat) : Lru :=
  match c.items.find? (·.key == k) with
  | some it =>
    -- existing key: move to front, replace the bitmap, re-account its size, then enforce the bound
    let r := evict c.ovh c.max (⟨k, size, bm⟩ :: c.items.filter (·.key != k)) (c.cur - it.size + size)
    { c with puts := c.puts + 1, items := r.1, cur := r.2 }
  | none =>
    let r := evict c.ovh c.max (⟨k, size, bm⟩ :: c.items) (c.cur + size + c.ovh)
    { c with puts := c.puts + 1, items := r.1, cur := r.2 }

inductive LruOp where
  | get (k : Nat)
  | put (k bm size : Nat)
  deriving Repr

/-- one step; the output is the `Get` answer (`none` for a miss and for every `Put`) -/
def Lru.step (c : Lru) : LruOp → Lru × Option Nat
  | .get k => c.get k
  | .put k bm size => (c.put k bm size, none)

def Lru.run (c : Lru) : List LruOp → Lru × List (Option Nat)
  | [] => (c, [])
  | op :: ops =>
    let (c', o) := c.step op
    let (c'', os) := c'.run ops
    (c'', o :: os)

end Updog
