/-
The row counter as the code has it (writer.go, writer_big.go, index.go): `nextRowID uint32`.

* `AddRow` returns `idx.nextRowID` and then runs `idx.nextRowID++` — `uint32` arithmetic, wraps from 2^32-1 to 0;
* the row id goes into the bitmaps as a `uint32` (`bm.Add(rowID)`) and into the big writer's temp key as
  `binary.BigEndian.PutUint32(key[8:], rowID)`;
* `Flush` persists the counter under key `'I'` as the 4 bytes `binary.BigEndian.PutUint32(buf, idx.nextRowID)`;
* `OpenIndex` reads it back with `binary.BigEndian.Uint32` and uses it as the universe size of `NOT`.

`Model/Index.lean` and `Model/BigWriter.lean` keep the counter as an unbounded `Nat`. This file models the 32-bit
counter next to them; `Props/C05Counter.lean` proves that the two agree exactly when `FitsCounter rows`
(fewer than 2^32 rows) and shows what goes wrong at 2^32 rows.
-/
import Updog.Model.BigWriter
namespace Updog

/-- the data set fits the 32-bit row counter: after the last `AddRow` the counter `rows.length` is still a `uint32` -/
def FitsCounter (rows : List Row) : Prop := rows.length < 2 ^ 32

instance (rows : List Row) : Decidable (FitsCounter rows) := inferInstanceAs (Decidable (rows.length < 2 ^ 32))

/-- `binary.BigEndian.PutUint32(rowIDbuf[:], idx.nextRowID)`: the 4 bytes stored under `'I'` -/
def counterBytes (n : UInt32) : Bytes := be32 n.toNat

/-- `binary.BigEndian.Uint32(rowsItem)` on the 4 stored bytes -/
def counterOfBytes (b : Bytes) : UInt32 := (beDecode b).toUInt32

/-- what is in the output file after `Flush`: the bitmaps under `'V'…`, the schema `'S'`, the 4 counter bytes `'I'` -/
abbrev Persisted := ValMap × Schema × Bytes

/-- the index `OpenIndex` builds from the file: schema, `nextRowID` decoded from the 4 bytes, `GetCol` on the bitmaps -/
def Persisted.open (p : Persisted) : Index :=
  { schema := p.2.1, next := (counterOfBytes p.2.2).toNat, getCol := p.1.get }

/-! ### in-memory writer -/

structure Writer32 where
  schema : Schema := []
  vals : ValMap := []
  next : UInt32 := 0

section
variable (H : Bytes → UInt64)

/-- loop body of `AddRow`: `bm.Add(rowID)` with the `uint32` row id -/
def Writer32.addPair (rowID : UInt32) (w : Writer32) (kv : Bytes × Bytes) : Writer32 :=
  let h := H (encodePair kv.1 kv.2)
  { w with schema := w.schema.add kv.1 kv.2 h, vals := w.vals.addBit h rowID.toNat }

/-- `AddRow`: the new state (counter incremented in `uint32`) and the returned row id -/
def Writer32.addRow (w : Writer32) (r : Row) : Writer32 × UInt32 :=
  let w' := r.foldl (Writer32.addPair H w.next) w
  ({ w' with next := w.next + 1 }, w.next)

def Writer32.addRows (w : Writer32) (rows : List Row) : Writer32 := rows.foldl (fun w r => (Writer32.addRow H w r).1) w

/-- the ids the successive `AddRow` calls return -/
def Writer32.addRowsIds (w : Writer32) : List Row → List UInt32
  | [] => []
  | r :: rs => (Writer32.addRow H w r).2 :: Writer32.addRowsIds (Writer32.addRow H w r).1 rs

/-- `Flush` / `WriteToBoltDatabase` -/
def Writer32.persist (w : Writer32) : Persisted := (w.vals, w.schema, counterBytes w.next)

/-- add all rows to a fresh writer and flush -/
def Writer32.image (rows : List Row) : Persisted := (Writer32.addRows H {} rows).persist

/-! ### big writer -/

structure BigWriter32 where
  schema : Schema := []
  temp : List Bytes := []
  next : UInt32 := 0

/-- loop body of `BigIndexWriter.AddRow`: `PutUint64(key[:8], valueIdx); PutUint32(key[8:], rowID)` -/
def BigWriter32.addPair (rowID : UInt32) (w : BigWriter32) (kv : Bytes × Bytes) : BigWriter32 :=
  let h := H (encodePair kv.1 kv.2)
  { w with schema := w.schema.add kv.1 kv.2 h, temp := insertKey w.temp (tempKey h.toNat rowID.toNat) }

def BigWriter32.addRow (w : BigWriter32) (r : Row) : BigWriter32 × UInt32 :=
  let w' := r.foldl (BigWriter32.addPair H w.next) w
  ({ w' with next := w.next + 1 }, w.next)

def BigWriter32.addRows (w : BigWriter32) (rows : List Row) : BigWriter32 :=
  rows.foldl (fun w r => (BigWriter32.addRow H w r).1) w

def BigWriter32.addRowsIds (w : BigWriter32) : List Row → List UInt32
  | [] => []
  | r :: rs => (BigWriter32.addRow H w r).2 :: BigWriter32.addRowsIds (BigWriter32.addRow H w r).1 rs

/-- `BigIndexWriter.Flush` (without the key-length check, as `BigWriter.flushCore`) -/
def BigWriter32.persist (w : BigWriter32) : Persisted := (walk (sortKeys w.temp), w.schema, counterBytes w.next)

def BigWriter32.image (rows : List Row) : Persisted := (BigWriter32.addRows H {} rows).persist

end
end Updog
