/-
Model of internal/queryparser/queryformatter.go (`QueryToString`) and walk.go
(`Walk`, `ReplacePlaceholders`) plus `numInput` of driver/driver.go.
-/
import Updog.Model.Parser
namespace Updog

def natDigits (n : Nat) : Bytes := (toString n).toUTF8.toList

/-- `formatString`: `"` ++ ReplaceAll(s, `"`, `""`) ++ `"` -/
def quoteValue (v : Bytes) : Bytes := 34 :: (v.flatMap fun c => if c == 34 then [34, 34] else [c]) ++ [34]

def isAnd : PExpr → Bool | .and _ => true | _ => false
def isOr : PExpr → Bool | .or _ => true | _ => false

def parens (b : Bool) (s : Bytes) : Bytes := if b then [40, 32] ++ s ++ [32, 41] else s

mutual
/-- `exprToString` -/
def fmtExpr : PExpr → Bytes
  | .eq c v ph => if ph > 0 then c ++ [32, 61, 32, 36] ++ natDigits ph else c ++ [32, 61, 32] ++ quoteValue v
  | .not e => [94, 32] ++ parens (isAnd e || isOr e) (fmtExpr e)
  | .and es => fmtAnd es
  | .or es => fmtOr es
/-- operands of AND joined by ` & `; OR operands parenthesised -/
def fmtAnd : List PExpr → Bytes
  | [] => []
  | [e] => parens (isOr e) (fmtExpr e)
  | e :: es => parens (isOr e) (fmtExpr e) ++ [32, 38, 32] ++ fmtAnd es
/-- operands of OR joined by ` | `; AND operands parenthesised -/
def fmtOr : List PExpr → Bytes
  | [] => []
  | [e] => parens (isAnd e) (fmtExpr e)
  | e :: es => parens (isAnd e) (fmtExpr e) ++ [32, 124, 32] ++ fmtOr es
end

def joinFields : List Bytes → Bytes
  | [] => []
  | [f] => f
  | f :: fs => f ++ [44, 32] ++ joinFields fs

/-- `QueryToString` -/
def fmtQuery (q : PQuery) : Bytes :=
  fmtExpr q.expr ++ (if q.groupBy.isEmpty then [] else [32, 59, 32] ++ joinFields q.groupBy)

/-! ### placeholders -/

mutual
/-- highest placeholder number (`numInput`) -/
def maxPh : PExpr → Nat
  | .eq _ _ ph => ph
  | .not e => maxPh e
  | .and es => maxPhList es
  | .or es => maxPhList es
def maxPhList : List PExpr → Nat
  | [] => 0
  | e :: es => max (maxPh e) (maxPhList es)
end

mutual
/-- `ReplacePlaceholders` on a clone: `$n` becomes the n-th argument, nothing else changes.
    Total: callers check `maxPh ≤ args.length` first (see `bind`). -/
def subst (args : List Bytes) : PExpr → PExpr
  | .eq c v ph => if ph > 0 then .eq c (args.getD (ph - 1) []) 0 else .eq c v 0
  | .not e => .not (subst args e)
  | .and es => .and (substList args es)
  | .or es => .or (substList args es)
def substList (args : List Bytes) : List PExpr → List PExpr
  | [] => []
  | e :: es => subst args e :: substList args es
end

/-- statement execution in the driver: too few arguments → error (never an index panic) -/
def bind (q : PQuery) (args : List Bytes) : Outcome PQuery :=
  if maxPh q.expr > args.length then .error else .ok ⟨subst args q.expr, q.groupBy⟩

end Updog
