/-
Explicit model of the advisory file lock behind `OpenIndex` / `Index.Close` (index.go) and the read-write opens of the
writers (writer.go `WriteToBoltDatabase`, cmd/updog/create.go), on top of `Updog/Model/Open.lean`.

`Model/Open.lean` only says, per call, "the lock is still held afterwards" (`(openIndex fs o).2`); `closeIndex` is constant.
Here the lock is state: a list of holders (one per open bbolt file description), handles with identities, an
`idx.db == nil` table, and histories of open / close events.

What bbolt v1.4.0 does (db.go `Open`, bolt_unix.go `flock`, db.go `close`), as used by this code base:

* `bbolt.Open(path, mode, {ReadOnly: true, …})` opens the file and takes `flock(fd, LOCK_SH|LOCK_NB)`;
  `bbolt.Open(path, mode, {…})` (read-write) takes `flock(fd, LOCK_EX|LOCK_NB)`. On `EWOULDBLOCK` it sleeps 50 ms and
  retries; with `Timeout == 0` (never set in this code base) it retries forever: outcome `.hang`.
* flock locks belong to the open file description: every `bbolt.Open` opens the file anew, so a second open in the SAME
  process conflicts exactly like one from another process. Shared locks are compatible with each other, an exclusive
  lock is compatible with nothing.
* if anything fails after the lock was taken (not a bolt file, …) `Open` calls `db.close()` itself before returning the error.
* `db.Close()` releases the lock (read-write: `funlock`; read-only: by closing the descriptor); a second `db.Close()`
  returns nil (`if !db.opened { return nil }`).
* index.go: `OpenIndex` = read-only `bbolt.Open` with `O_CREATE` stripped, then `OpenIndexFromBoltDatabase`, which calls
  `db.Close()` on both failing paths (validation, failing option) and returns `(nil, err)`.
  `Index.Close`: `if idx.db == nil { return nil }; err := idx.db.Close(); idx.db = nil; return err`.

Deviations / abstractions (also listed at the definitions):

 D1 `.hang` is a result of the attempt; the state is unchanged and the history goes on (the blocked caller is
    a goroutine / process that never gets any further, or is killed). A blocked flock that is granted later, after
    the conflicting holder went away, is not modelled: with `Timeout == 0` and a holder that stays, it never returns.
 D2 one path, one inode: `setFile` changes the content in place. Unlinking or renaming a file that is still
    open (the lock then lives on the old inode) is not modelled.
 D3 `Index.Close` returns `idx.db.Close()`'s error; the model returns nil always. For a read-only database the only
    sources are `munmap` and `file.Close()`; in both cases the descriptor is gone afterwards or was never valid, and
    `idx.db = nil` is executed anyway, so the effect on the lock state and on later calls is as modelled.
    `db.Close()` also waits for open transactions (`db.rwlock`, `db.mmaplock`): a Close during a query waits for it;
    no transactions here.
 D4 `close` of a handle id that was never returned is a no-op. In Go there is no such value: a failed `OpenIndex`
    returns a nil `*Index`, and `(*Index)(nil).Close()` is a nil-pointer dereference (panic), not a no-op.
 D5 a failed attempt uses up a handle id (the `*bbolt.DB` existed for a moment), so `next` grows; nothing else changes.
 D6 `openRW` on `.notBolt`: bbolt initialises an empty file and rejects garbage (releasing the lock); the class
    `.notBolt` does not distinguish the two and the model grants the lock. Only the blocking behaviour is used below.
 D7 `Index.Close` and the query methods are not synchronised with each other beyond `idx.mtx` (Close does not take it);
    races between Close and a running query are outside this model.
-/
import Updog.Model.Open
namespace Updog

/-- `LOCK_SH` (read-only `bbolt.Open`) or `LOCK_EX` (read-write `bbolt.Open`) -/
inductive LockMode where
  | shared | exclusive
  deriving Repr, DecidableEq

/-- identity of an open database handle (a `*bbolt.DB` / the `*Index` that owns it) -/
abbrev HandleId := Nat
/-- operating-system process; irrelevant for conflicts (flock is per open file description) but recorded -/
abbrev ProcId := Nat

/-- one granted flock: the open file description of handle `id`, opened by process `proc` -/
structure Holder where
  id : HandleId
  proc : ProcId
  mode : LockMode
  deriving Repr, DecidableEq

/-- the index file, who holds a flock on it, which `*Index` values still have `idx.db != nil`, and the next handle id -/
structure LockState where
  fs : FileState
  /-- granted flocks, oldest first -/
  holders : List Holder := []
  /-- handles of `*Index` values whose field `db` is non-nil (set by `OpenIndexFromBoltDatabase`, cleared by `Close`) -/
  live : List HandleId := []
  /-- fresh handle id -/
  next : HandleId := 0
  deriving Repr, DecidableEq

/-- a file nobody has open -/
def LockState.unlocked (fs : FileState) (next : HandleId := 0) : LockState := { fs := fs, next := next }

/-- would `flock(fd, mode|LOCK_NB)` succeed? A shared request iff there is no exclusive holder; an exclusive request iff
    there is no holder at all. The requester's process plays no role. -/
def compatible (m : LockMode) (hs : List Holder) : Bool :=
  match m with
  | .shared => hs.all fun x => x.mode != .exclusive
  | .exclusive => hs.isEmpty

/-- handle `h` holds a flock -/
def LockState.holds (st : LockState) (h : HandleId) : Bool := st.holders.any fun x => x.id == h

/-- the flock of handle `h` is dropped (`db.Close()`, or `bbolt.Open` cleaning up after itself) -/
def release (hs : List Holder) (h : HandleId) : List Holder := hs.filter fun x => x.id != h

/-- the flock was granted to a new handle `st.next` -/
def LockState.acquire (st : LockState) (proc : ProcId) (m : LockMode) : LockState :=
  { st with holders := st.holders ++ [{ id := st.next, proc := proc, mode := m }], next := st.next + 1 }

/-- **`OpenIndex(file, opts...)`** by process `proc`.
    Blocked by a writer: `.hang`, nothing changes (D1). Otherwise the shared lock is taken by a new handle, and
    `openIndex st.fs opts` (Model/Open.lean) decides the rest: its first component is the outcome, its second component
    says whether the lock is kept. If it is not kept (`db.Close()` on the failing paths of `OpenIndexFromBoltDatabase`,
    `bbolt.Open`'s own clean-up for `.absent` / `.notBolt`) the handle's lock is released again.
    Only a successful call returns the handle and enters it into `live` (`idx.db = db`). -/
def openRO (st : LockState) (proc : ProcId) (opts : OpenOpts) : Outcome HandleId × LockState :=
  if !compatible .shared st.holders then (.hang, st)
  else
    let h := st.next
    let got := st.acquire proc .shared
    let r := openIndex st.fs opts
    let kept : LockState := if r.2 then got else { got with holders := release got.holders h }
    match r.1 with
    | .ok () => (.ok h, { kept with live := kept.live ++ [h] })
    | .error => (.error, kept)
    | .panic => (.panic, kept)
    | .hang => (.hang, kept)

/-- **a read-write `bbolt.Open`** of the file by process `proc` (no `O_EXCL`; for example the harness' probe, the `bbolt`
    command line tool, or `create --big`'s temporary database): blocked iff there is any holder. Otherwise the exclusive
    lock is taken by a new handle. bbolt creates and initialises an absent file (bucket-less bolt file); other
    contents stay (D6). The handle is a bare `*bbolt.DB`, not an `*Index`: `live` is untouched. -/
def openRW (st : LockState) (proc : ProcId) : Outcome HandleId × LockState :=
  if !compatible .exclusive st.holders then (.hang, st)
  else
    let got := st.acquire proc .exclusive
    (.ok st.next, { got with fs := if st.fs = .absent then .bolt false .missing .missing true else st.fs })

/-- **the writers of this code base** (`WriteToBoltDatabase`, `updog create`): read-write `bbolt.Open` with
    `FailIfFileExists`, i.e. `O_EXCL`. `os.OpenFile` fails with `EEXIST` on an existing path *before* any flock is
    attempted: an error, never a hang, and no lock is touched. On an absent path it is `openRW`. -/
def openCreate (st : LockState) (proc : ProcId) : Outcome HandleId × LockState :=
  if st.fs != .absent then (.error, st) else openRW st proc

/-- **`(*Index).Close()`** on the index with handle `h`: `idx.db == nil` (already closed; D4: never opened) returns nil and
    does nothing; otherwise `idx.db.Close()` drops the flock of that handle and `idx.db = nil`. Returns nil (D3). -/
def close (st : LockState) (h : HandleId) : Outcome Unit × LockState :=
  if !st.live.contains h then (.ok (), st)
  else (.ok (), { st with holders := release st.holders h, live := st.live.filter fun x => x != h })

/-- **`(*bbolt.DB).Close()`** on a writer's database handle `h`: drops that handle's exclusive flock; on a database that
    is already closed bbolt returns nil and does nothing (`if !db.opened`). Index handles are not affected. -/
def closeRW (st : LockState) (h : HandleId) : Outcome Unit × LockState :=
  (.ok (), { st with holders := st.holders.filter fun x => !(x.id == h && x.mode == .exclusive) })

/-! ### histories -/

/-- what happens to the file, in program / wall-clock order -/
inductive Ev where
  | openRO (proc : ProcId) (opts : OpenOpts)
  | openRW (proc : ProcId)
  | openCreate (proc : ProcId)
  | close (h : HandleId)
  | closeRW (h : HandleId)
  /-- the content of the file changes in place between two attempts (repaired, damaged, removed; D2) -/
  | setFile (fs : FileState)
  deriving Repr, DecidableEq

/-- what the caller sees -/
inductive Res where
  | handle (h : HandleId)    -- an open returned this handle and a nil error
  | error                    -- an open returned (nil, err)
  | panic
  | hang                     -- an open never returned
  | done                     -- a close returned nil / the file was changed
  deriving Repr, DecidableEq

def Res.ofOpen : Outcome HandleId → Res
  | .ok h => .handle h | .error => .error | .panic => .panic | .hang => .hang

def step (st : LockState) : Ev → Res × LockState
  | .openRO p o => (Res.ofOpen (openRO st p o).1, (openRO st p o).2)
  | .openRW p => (Res.ofOpen (openRW st p).1, (openRW st p).2)
  | .openCreate p => (Res.ofOpen (openCreate st p).1, (openCreate st p).2)
  | .close h => (.done, (close st h).2)
  | .closeRW h => (.done, (closeRW st h).2)
  | .setFile fs => (.done, { st with fs := fs })

/-- a whole history: the final state and the result of every event -/
def run : LockState → List Ev → LockState × List Res
  | st, [] => (st, [])
  | st, e :: es => ((run (step st e).2 es).1, (step st e).1 :: (run (step st e).2 es).2)

/-- only `OpenIndex`, `Index.Close` and content changes: a history without writers -/
def Ev.isReader : Ev → Bool
  | .openRO _ _ | .close _ | .setFile _ => true
  | _ => false

/-- bookkeeping of one event and its result: a successful `OpenIndex` adds its handle, `Close(h)` removes `h` -/
def trackStep (acc : List HandleId) (e : Ev) (r : Res) : List HandleId :=
  match e, r with
  | .openRO _ _, .handle h => acc ++ [h]
  | .close h, _ => acc.filter fun x => x != h
  | _, _ => acc

/-- the handles opened successfully and not closed since, read off the events and their results
    (`acc`: those open at the start), oldest first -/
def openHandlesFrom (acc : List HandleId) : List Ev → List Res → List HandleId
  | e :: es, r :: rs => openHandlesFrom (trackStep acc e r) es rs
  | _, _ => acc

/-- … for a history that starts with nothing open -/
def openHandles (es : List Ev) (rs : List Res) : List HandleId := openHandlesFrom [] es rs

/-- invariants of every reachable state: handle ids in use are below `next` and pairwise different;
    an index is `live` exactly if its handle holds a shared lock -/
structure LockState.WF (st : LockState) : Prop where
  fresh : ∀ x ∈ st.holders, x.id < st.next
  nodup : (st.holders.map (·.id)).Nodup
  live_eq : st.live = (st.holders.filter fun x => x.mode == .shared).map (·.id)

end Updog
