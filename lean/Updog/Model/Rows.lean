/-
Model of driver/driver.go `newRows` + the `rows` accessors, and of the gRPC service loop
(cmd/updog/server.go `Query`) with internal/convert.
-/
import Updog.Model.Index
import Updog.Model.Formatter
namespace Updog

inductive Cell where
  | text (b : Bytes)
  | int (n : Nat)
  deriving Repr, DecidableEq

structure Rows where
  cols : List Bytes
  types : List String
  rows : List (List Cell)
  deriving Repr, DecidableEq

def countCol : Bytes := [99, 111, 117, 110, 116]  -- "count"

/-- `newRows(result, groupBy)`: with a group-by clause one row per group (no group → no row),
    without exactly one row holding the total count -/
def newRows (res : Result) (groupBy : List Bytes) : Rows :=
  { cols := groupBy ++ [countCol],
    types := groupBy.map (fun _ => "TEXT") ++ ["BIGINT"],
    rows := if groupBy.length > 0 then res.groups.map fun g => g.1.map (fun cv => Cell.text cv.2) ++ [Cell.int g.2]
            else [[Cell.int res.count]] }

mutual
/-- `convert.toExpr` on a fully populated tree -/
def toExpr : PExpr → Expr
  | .eq c v _ => .eq c v
  | .not e => .not (toExpr e)
  | .and es => .and (toExprs es)
  | .or es => .or (toExprs es)
def toExprs : List PExpr → List Expr
  | [] => []
  | e :: es => toExpr e :: toExprs es
end

def toQuery (q : PQuery) : Query := ⟨toExpr q.expr, q.groupBy⟩

end Updog
