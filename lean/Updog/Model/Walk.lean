/-
Model of internal/queryparser/walk.go: `Walk` (pre-order traversal with early termination) and the two callbacks
built on it — `numInput` (driver.go) and the placeholder replacement of `ReplacePlaceholders`.
`Formatter.lean` defines `maxPh` / `subst` directly; here they are derived from `walk` as the Go code does, and
Props/C11Walk.lean proves the two views equal.
-/
import Updog.Model.Formatter
namespace Updog

mutual
/-- `walk(e, f)`: call `f` on the node; stop everything as soon as `f` returns false. Returns (continue?, visited nodes
    in visiting order). -/
def walkNodes (f : PExpr → Bool) : PExpr → Bool × List PExpr
  | e@(.eq _ _ _) => (f e, [e])
  | e@(.not c) =>
    if f e then
      let r := walkNodes f c
      (r.1, e :: r.2)
    else (false, [e])
  | e@(.and cs) =>
    if f e then
      let r := walkList f cs
      (r.1, e :: r.2)
    else (false, [e])
  | e@(.or cs) =>
    if f e then
      let r := walkList f cs
      (r.1, e :: r.2)
    else (false, [e])
def walkList (f : PExpr → Bool) : List PExpr → Bool × List PExpr
  | [] => (true, [])
  | c :: cs =>
    let r := walkNodes f c
    if r.1 then
      let rs := walkList f cs
      (rs.1, r.2 ++ rs.2)
    else (false, r.2)
end

/-- `v.Eq.Placeholder` of a comparison node -/
def phOf : PExpr → Option Nat
  | .eq _ _ ph => some ph
  | _ => none

/-- the placeholder numbers seen by a full walk (callback always returns true), in visiting order -/
def walkPlaceholders (e : PExpr) : List Nat := (walkNodes (fun _ => true) e).2.filterMap phOf

/-- `numInput`: the callback keeps the maximum of `v.Eq.Placeholder` over all visited comparison nodes -/
def numInputW (e : PExpr) : Nat := (walkPlaceholders e).foldl max 0

end Updog
