/-
Decision model of the `updog create` command (cmd/updog/create.go `createCmd`; cmd/updog/main.go turns a returned
error into `os.Exit(1)`).  What the command does to the CSV *content* is `Model/Create.lean`; this file models the
control flow: which step fails, what has happened to the output file by then, and whether the process terminates.
The steps are executed in the order of the Go code.
-/
namespace Updog

/-- what the environment decides -/
structure CreateIn where
  /-- the first `r.Read()` succeeds (the header line is readable: file not empty, no quote error in line 1) -/
  headerOk : Bool
  /-- `encoding/csv` returns no error before EOF: header readable, every record has the header's field count
      (`FieldsPerRecord = 0` → `ErrFieldCount` otherwise), no quote errors -/
  csvOk : Bool
  /-- a file exists at `cfg.outputFile` before the command runs -/
  outputExists : Bool
  /-- `--big`: `BigIndexWriter` instead of `IndexWriter` -/
  big : Bool
  deriving DecidableEq, Repr

/-- the whole input is a well-formed CSV (`csvOk` is only meaningful together with `headerOk`) -/
def CreateIn.wellFormed (i : CreateIn) : Bool := i.headerOk && i.csvOk

/-- the two design decisions of the code that the properties depend on -/
structure CreateImpl where
  /-- the output is opened with `openfile.Options{FailIfFileExists: true}` (O_CREAT|O_EXCL) -/
  excl : Bool
  /-- big mode: `defer idx.Close()` rolls the temp write transaction back before `tempDB.Close()` runs -/
  rollbackOnAbandon : Bool

/-- the code as it is (after fix 72e7103) -/
def CreateImpl.repaired : CreateImpl := ⟨true, true⟩

structure CreateOut where
  /-- process exit status (`main`: `os.Exit(1)` on error, 0 otherwise); meaningless when `terminates = false` -/
  exitStatus : Nat
  /-- a file that existed before at the output path was opened for writing / modified -/
  existingOutputTouched : Bool
  /-- at the end the output path holds a complete index of the CSV, written by this run -/
  outputIsCompleteIndex : Bool
  /-- the process exits (`false` = hang: a deferred `Close` blocks forever) -/
  terminates : Bool
  deriving DecidableEq, Repr

/-- a run, with the extra observation of the (allowed) empty output file left behind -/
structure CreateRun extends CreateOut where
  /-- the run created a new file at the output path and did not complete it (an empty bbolt file stays) -/
  newIncompleteOutputLeft : Bool
  deriving DecidableEq, Repr

/-- `bbolt.Open(outputFile, …)`: `(opened, existingTouched)`.  With O_EXCL an existing file makes the open fail
    without touching it; without, bbolt opens (and later writes into) the existing file. -/
def openOutput (impl : CreateImpl) (outputExists : Bool) : Bool × Bool :=
  if outputExists then (if impl.excl then (false, false) else (true, true)) else (true, false)

/-- big mode, the deferred calls in LIFO order: `idx.Close()` (rolls the temp write transaction back, if the code
    has it), `db.Close()`, `tempDB.Close()`.  `tempDB.Close()` waits for an open write transaction forever.
    Result: the process gets past the defers. -/
def bigDefersReturn (impl : CreateImpl) (tempTxOpen : Bool) : Bool :=
  let tempTxOpen := if impl.rollbackOnAbandon then false else tempTxOpen
  !tempTxOpen

def createRun (impl : CreateImpl) (i : CreateIn) : CreateRun :=
  -- `header, err := r.Read()` → "failed to read input file header"; nothing else has happened yet
  if !i.headerOk then ⟨⟨1, false, false, true⟩, false⟩ else
  if i.big then
    -- `os.CreateTemp`, `bbolt.Open(tempFile)`, then the OUTPUT is opened — before any record is read
    let (opened, touched) := openOutput impl i.outputExists
    -- "failed to open output file": defers are `tempDB.Close()` (no transaction yet) and `os.Remove(temp)`
    if !opened then ⟨⟨1, touched, false, true⟩, false⟩ else
    -- `NewBigIndexWriter` begins the write transaction `tempTx` on `tempDB`; `defer idx.Close()`
    -- record loop: the first malformed record → "failed to read record"
    if !i.csvOk then
      -- returns with `tempTx` still open; the new, empty output file stays behind
      ⟨⟨1, touched, false, bigDefersReturn impl true⟩, !i.outputExists⟩
    else
      -- `Flush` commits `tempTx` (sets it to nil) and writes the index; then the defers run with no open transaction
      ⟨⟨0, touched, !touched, bigDefersReturn impl false⟩, false⟩
  else
    -- `NewIndexWriter(outputFile)` touches nothing; record loop in memory
    if !i.csvOk then ⟨⟨1, false, false, true⟩, false⟩ else
    -- `Flush`: only now `bbolt.Open(outputFile, …)`
    let (opened, touched) := openOutput impl i.outputExists
    if !opened then ⟨⟨1, touched, false, true⟩, false⟩ else
    ⟨⟨0, touched, !touched, true⟩, false⟩

/-- the command as it is -/
def createCmd (i : CreateIn) : CreateOut := (createRun .repaired i).toCreateOut

end Updog
