/-
Model of the result cache in query.go / cache.go: the `eval` methods *with* the cache (`evalC`), `Execute`
with the cache (`executeC`), the two cache implementations behind one interface, and a resumable-program
view (`Prog`) in which every `Get` / `Put` is one atomic step (both hold the cache mutex for their whole
body), so that arbitrary interleavings of concurrent queries can be enumerated (`runSched`).
Core only, executable.
-/
import Updog.Model.CacheKey
import Updog.Model.Lru
namespace Updog

/-- the `Cache` interface of cache.go over an explicit state: `Get` may change the state (recency, metrics) -/
structure CacheImpl (σ : Type) where
  get : σ → UInt64 → σ × Option Nat
  put : σ → UInt64 → Nat → σ

/-- `nullCache`: always a miss, `Put` is ignored -/
def nullCacheImpl : CacheImpl Unit where
  get := fun s _ => (s, none)
  put := fun s _ _ => s

/-- `LRUCache`; `sz` is `bm.GetSizeInBytes()` -/
def lruCacheImpl (sz : Nat → Nat) : CacheImpl Lru where
  get := fun c k => Lru.get c k.toNat
  put := fun c k bm => Lru.put c k.toNat bm (sz bm)

section
variable (H : Bytes → UInt64) {σ : Type} (C : CacheImpl σ) (ix : Index)

/-- The pattern shared by all four `eval` methods:
    `bm, ok := cache.Get(key); if ok { return bm }; bm, err := compute(); if err != nil { return err };
     cache.Put(key, bm); return bm`. -/
def withCache (key : UInt64) (s : σ) (compute : σ → σ × Option Nat) : σ × Option Nat :=
  let r := C.get s key
  match r.2 with
  | some bm => (r.1, some bm)
  | none =>
    let r2 := compute r.1
    match r2.2 with
    | none => (r2.1, none)
    | some bm => (C.put r2.1 key bm, some bm)

mutual
/-- `Expression.eval` with the cache; returns the new cache state and the bitmap (`none` = error).
    EQUAL checks the schema before touching the cache; NOT/AND/OR ask the cache before evaluating any child. -/
def evalC : σ → Expr → σ × Option Nat
  | s, .eq c v =>
    match ix.schema.col c with
    | none => (s, none)
    | some _ =>
      withCache C (cacheKey H (.eq c v)) s fun s1 => (s1, some ((ix.getCol (H (encodePair c v))).getD 0))
  | s, .not e =>
    withCache C (cacheKey H (.not e)) s fun s1 =>
      let r := evalC s1 e
      (r.1, r.2.map (flip ix.next))
  | s, .and es =>
    withCache C (cacheKey H (.and es)) s fun s1 =>
      let r := evalListC s1 es
      (r.1, r.2.map andAll)
  | s, .or es =>
    withCache C (cacheKey H (.or es)) s fun s1 =>
      let r := evalListC s1 es
      (r.1, r.2.map orAll)
/-- the `for _, e := range e.Exprs` loop: left to right, the first error aborts -/
def evalListC : σ → List Expr → σ × Option (List Nat)
  | s, [] => (s, some [])
  | s, e :: es =>
    let r := evalC s e
    match r.2 with
    | none => (r.1, none)
    | some b =>
      let r2 := evalListC r.1 es
      (r2.1, r2.2.map (b :: ·))
end

/-- `Index.Execute` with the cache -/
def executeC (s : σ) (q : Query) : σ × Option Result :=
  match populateGroupBy ix.schema q.groupBy with
  | none => (s, none)
  | some fields =>
    let r := evalC H C ix s q.expr
    match r.2 with
    | none => (r.1, none)
    | some bm => (r.1, some ⟨popcount bm, Updog.groupBy ix fields bm⟩)

/-- a history of queries executed one after the other on one cache -/
def executeAllC : σ → List Query → σ × List (Option Result)
  | s, [] => (s, [])
  | s, q :: qs =>
    let r := executeC H C ix s q
    let r2 := executeAllC r.1 qs
    (r2.1, r.2 :: r2.2)

/-! ### resumable programs -/

/-- What a goroutine evaluating an expression still has to do, as a sequence of atomic cache operations. -/
inductive Prog where
  | done (r : Option Nat)
  | get (k : UInt64) (cont : Option Nat → Prog)
  | put (k : UInt64) (bm : Nat) (next : Prog)

/-- `withCache` in continuation-passing style -/
def withCacheK (key : UInt64) (compute : (Option Nat → Prog) → Prog) (k : Option Nat → Prog) : Prog :=
  .get key fun
    | some bm => k (some bm)
    | none => compute fun
      | none => k none
      | some bm => .put key bm (k (some bm))

mutual
def evalK : Expr → (Option Nat → Prog) → Prog
  | .eq c v, k =>
    match ix.schema.col c with
    | none => k none
    | some _ =>
      withCacheK (cacheKey H (.eq c v)) (fun k' => k' (some ((ix.getCol (H (encodePair c v))).getD 0))) k
  | .not e, k =>
    withCacheK (cacheKey H (.not e)) (fun k' => evalK e fun a => k' (a.map (flip ix.next))) k
  | .and es, k =>
    withCacheK (cacheKey H (.and es)) (fun k' => evalListK es fun a => k' (a.map andAll)) k
  | .or es, k =>
    withCacheK (cacheKey H (.or es)) (fun k' => evalListK es fun a => k' (a.map orAll)) k
def evalListK : List Expr → (Option (List Nat) → Prog) → Prog
  | [], k => k (some [])
  | e :: es, k =>
    evalK e fun
      | none => k none
      | some b => evalListK es fun a => k (a.map (b :: ·))
end

/-- the program of the goroutine that evaluates `e` -/
def evalProg (e : Expr) : Prog := evalK H ix e .done

/-- run a program to completion without interruption -/
def runProg : σ → Prog → σ × Option Nat
  | s, .done r => (s, r)
  | s, .get k cont =>
    let r := C.get s k
    runProg r.1 (cont r.2)
  | s, .put k bm next => runProg (C.put s k bm) next

/-- exactly one atomic step (one `Get` or one `Put`); a finished program stays as it is -/
def Prog.step (s : σ) : Prog → σ × Prog
  | .done r => (s, .done r)
  | .get k cont =>
    let r := C.get s k
    (r.1, cont r.2)
  | .put k bm next => (C.put s k bm, next)

/-- The scheduler: `sched` lists which goroutine performs the next atomic step. Indexes of goroutines that do not
    exist, and steps of finished goroutines, are no-ops. -/
def runSched (s : σ) (progs : List Prog) : List Nat → σ × List Prog
  | [] => (s, progs)
  | i :: sched =>
    match progs[i]? with
    | none => runSched s progs sched
    | some p =>
      let r := p.step C s
      runSched r.1 (progs.set i r.2) sched

def Prog.isDone : Prog → Bool
  | .done _ => true
  | _ => false

def Prog.result? : Prog → Option (Option Nat)
  | .done r => some r
  | _ => none

end
end Updog
