/-
Model of internal/convert (`toExpr` on wire-level trees with optional members), the incomplete-tree
check of `Execute`, and the batch loop of cmd/updog/server.go.
-/
import Updog.Model.Rows
namespace Updog

/-- an expression as it can arrive from the wire: any message member may be unset -/
inductive WExpr where
  | eq (c v : Bytes)
  | not (e : Option WExpr)      -- `not.expr` may be missing
  | and (es : List WExpr)
  | or (es : List WExpr)
  | unset                       -- Expression without a value
  deriving Repr, Inhabited

mutual
/-- `convert.toExpr` followed by the completeness check of `Execute`:
    `none` = the tree has a missing member (Execute returns an error) -/
def WExpr.complete : WExpr → Option Expr
  | .eq c v => some (.eq c v)
  | .not none => none
  | .not (some e) => (WExpr.complete e).map Expr.not
  | .and es => (WExpr.completeList es).map Expr.and
  | .or es => (WExpr.completeList es).map Expr.or
  | .unset => none
def WExpr.completeList : List WExpr → Option (List Expr)
  | [] => some []
  | e :: es =>
    match WExpr.complete e with
    | none => none
    | some x => (WExpr.completeList es).map (x :: ·)
end

structure WQuery where
  id : Int
  expr : Option WExpr
  groupBy : List Bytes

/-- protobuf `Result` message -/
structure PResult where
  queryId : Int
  totalCount : Nat
  groups : List (List (Bytes × Bytes) × Nat)
  deriving Repr, DecidableEq

/-- `convert.ToProtobufResult` -/
def toProtobufResult (r : Result) (qid : Int) : PResult :=
  { queryId := qid, totalCount := r.count, groups := r.groups.map fun g => (g.1.map fun f => (f.1, f.2), g.2) }

/-- `convert.ToResult` -/
def toResult (p : PResult) : Result :=
  { count := p.totalCount, groups := p.groups.map fun g => (g.1.map fun f => (f.1, f.2), g.2) }

section
variable (H : Bytes → UInt64)

/-- one query of a request: `ToQuery` + `Execute`; never panics -/
def serverExecute (ix : Index) (q : WQuery) : Outcome Result :=
  match q.expr with
  | none => .error
  | some w =>
    match w.complete with
    | none => .error
    | some e =>
      match execute H ix ⟨e, q.groupBy⟩ with
      | none => .error
      | some r => .ok r

/-- `server.Query`: one result per query in request order, id defaulting to the 1-based position,
    the first failing query fails the whole call -/
def serverQuery (ix : Index) (qs : List WQuery) (pos : Nat := 1) : Outcome (List (Int × Result)) :=
  match qs with
  | [] => .ok []
  | q :: rest =>
    match serverExecute H ix q with
    | .ok r =>
      match serverQuery ix rest (pos + 1) with
      | .ok rs => .ok ((if q.id = 0 then (pos : Int) else q.id, r) :: rs)
      | o => o
    | .error => .error
    | .panic => .panic
    | .hang => .hang

end
end Updog
