/-
Model of the two column getters of index.go (`onDemandColGetter`, `preloadedColGetter` / `newPreloadedColGetter`)
and of the two places that consume `idx.values.GetCol`: `ExprEqual.eval` and the inner loop of `Query.groupBy`
(query.go).  `Model/Index.lean` abstracts both getters into `Index.getCol : UInt64 → Option Nat`; this file models
what is below that abstraction, `Props/C01Getters.lean` proves that the abstraction is what both getters induce.
-/
import Updog.Model.Index
namespace Updog

/-- The `v`-prefixed keys of bucket `data` of an index file, in cursor order: value index ↦ stored bytes, where the
    bytes are represented by what `roaring.Bitmap.FromBuffer` makes of them: `some b` = decodes to bitmap `b`,
    `none` = `FromBuffer` returns an error.  A key that is not in the list is absent from the bucket.
    (bbolt keys are unique: see `Image.KeysDistinct`.) -/
abbrev Image := List (UInt64 × Option Nat)

/-- `bucket.Get(key)`: `none` = absent (Go: nil slice) -/
def Image.get : Image → UInt64 → Option (Option Nat)
  | [], _ => none
  | (k, v) :: rest, h => if k == h then some v else Image.get rest h

def Image.keys (img : Image) : List UInt64 := img.map (·.1)

/-- bbolt buckets hold every key once -/
def Image.KeysDistinct (img : Image) : Prop := img.keys.Nodup

/-- every stored value is a decodable bitmap -/
def Image.AllDecodable (img : Image) : Prop := ∀ p ∈ img, p.2.isSome = true

/-- the image `Flush` writes for the writer's `values` map (`v.ToBytes()` always decodes back) -/
def imageOf (m : ValMap) : Image := m.map fun kb => (kb.1, some kb.2)

/-- `onDemandColGetter.GetCol`: `bm.FromBuffer(bucket.Get(key))`; an absent key gives `FromBuffer(nil)`, which
    fails like an undecodable value → `(nil, err)` -/
def onDemandGet (img : Image) (h : UInt64) : Except Unit Nat :=
  match img.get h with
  | some (some b) => .ok b
  | _ => .error ()

/-- the loop of `newPreloadedColGetter`: `cg.values[key] = bm` for every key; the first undecodable value aborts -/
def preloadFold : Image → (UInt64 → Option Nat) → Option (UInt64 → Option Nat)
  | [], m => some m
  | (_, none) :: _, _ => none
  | (k, some b) :: rest, m => preloadFold rest (fun h => if h == k then some b else m h)

/-- `newPreloadedColGetter`: `none` = it returns an error (so `WithPreloadedData`, hence `OpenIndex`, fails);
    `some g` = the Go map `cg.values`; `preloadedColGetter.GetCol key` is `(cg.values[key], nil)`, and
    `g key = none` is Go's nil pointer for an absent key -/
def preloadOpen (img : Image) : Option (UInt64 → Option Nat) := preloadFold img (fun _ => none)

/-- Go's `(*roaring.Bitmap, error)` as returned by `colGetter.GetCol`:
    `.error ()` = `err != nil`, `.ok none` = `(nil, nil)`, `.ok (some b)` = a bitmap -/
abbrev GetColAnswer := Except Unit (Option Nat)

def onDemandAnswer (img : Image) (h : UInt64) : GetColAnswer := (onDemandGet img h).map some
def preloadedAnswer (g : UInt64 → Option Nat) (h : UInt64) : GetColAnswer := .ok (g h)

/-- `ExprEqual.eval` after the cache miss: `if err != nil || bm == nil { bm = roaring.New() }` -/
def eqLeaf : GetColAnswer → Nat
  | .ok (some b) => b
  | _ => 0

/-! ### the inner loop of `Query.groupBy` -/

/-- what one iteration `for _, v := range gbf.Values` does -/
inductive GBOut where
  /-- `continue` (error from `GetCol`, or empty intersection) -/
  | skip
  /-- a new result group with this bitmap is appended -/
  | keep (r : Nat)
  /-- `roaring.And(rg.result, nil)` dereferences the nil pointer -/
  | panic
  deriving DecidableEq, Repr

/-- `vbm, err := GetCol(v.Idx); if err != nil { continue }; result := roaring.And(rg.result, vbm);
    if result.GetCardinality() == 0 { continue }` — note: no nil check -/
def gbStep (a : GetColAnswer) (x : Nat) : GBOut :=
  match a with
  | .error _ => .skip
  | .ok none => .panic
  | .ok (some vbm) => let r := x &&& vbm; if popcount r = 0 then .skip else .keep r

/-- the loop over `gbf.Values` for one result group; `none` = the goroutine panicked -/
def innerG (step : Nat → UInt64 → GBOut) (col : Bytes) (rg : Fields × Nat) :
    List (Bytes × UInt64) → Option (List (Fields × Nat))
  | [] => some []
  | v :: vs =>
    match step rg.2 v.2 with
    | .panic => none
    | .skip => innerG step col rg vs
    | .keep r => (innerG step col rg vs).map ((rg.1 ++ [(col, v.1)], r) :: ·)

/-- one iteration of the outer loop of `Query.groupBy` (all result groups × all values) over a concrete getter -/
def refineG (step : Nat → UInt64 → GBOut) (gbf : GBField) : List (Fields × Nat) → Option (List (Fields × Nat))
  | [] => some []
  | rg :: rgs =>
    match innerG step gbf.col rg gbf.values with
    | none => none
    | some l => (refineG step gbf rgs).map (l ++ ·)

def stepOnDemand (img : Image) (x : Nat) (h : UInt64) : GBOut := gbStep (onDemandAnswer img h) x
def stepPreloaded (g : UInt64 → Option Nat) (x : Nat) (h : UInt64) : GBOut := gbStep (preloadedAnswer g h) x

/-- the `Index` of `Model/Index.lean` over an image: `getCol` forgets why there is no bitmap -/
def Image.toIndex (img : Image) (schema : Schema) (next : Nat) : Index :=
  { schema := schema, next := next, getCol := fun h => (img.get h).join }

end Updog
