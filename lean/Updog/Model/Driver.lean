/-
Model of the sql driver's per-process connection cache (driver/driver.go: `openFile`, `fileConn.Close`,
queries on a connection) together with the file locks taken by `OpenIndex` (read-only bbolt open = shared flock).
Each operation is one atomic step: `openFile` runs lookup, OpenIndex and insertion under one mutex, and
`fileConn.Close` runs under the same mutex (facts `openFileOneCriticalSection`, `connCloseRemovesEntry`).
The Go map `fileConnCache` is a finite map; it is modelled by its reference-count function
(`refs k = 0` ⇔ no entry for `k`: the last Close deletes the entry).
-/
import Updog.Basic.Bytes
namespace Updog

/-- cache key: (file, option string) -/
structure DKey where
  file : Nat
  opts : Nat
  deriving DecidableEq, Repr

structure Drv where
  refs : DKey → Nat

def Drv.empty : Drv := ⟨fun _ => 0⟩

def Drv.set (d : Drv) (k : DKey) (n : Nat) : Drv := ⟨fun k' => if k' = k then n else d.refs k'⟩

/-- a (shared) lock is held on `file` iff some cached connection is open on it -/
def Drv.locked (d : Drv) (file : Nat) : Prop := ∃ opts, d.refs ⟨file, opts⟩ > 0

inductive DrvOp where
  | open (k : DKey)      -- driver.Open (sql.Open + first use, or another pooled connection)
  | query (k : DKey)     -- a query on a connection obtained from `open k`
  | close (k : DKey)     -- Close of one connection obtained from `open k`
  deriving Repr

/-- one atomic driver step. `valid file` = the file is a complete index.
    A shared lock never blocks another shared lock, so `open` has no `.hang` outcome;
    a query on a connection whose entry is gone would dereference a nil index: `.panic`. -/
def Drv.step (valid : Nat → Bool) (d : Drv) : DrvOp → Drv × Outcome Unit
  | .open k =>
    if d.refs k > 0 then (d.set k (d.refs k + 1), .ok ())
    else if valid k.file then (d.set k 1, .ok ())
    else (d, .error)
  | .query k => if d.refs k > 0 then (d, .ok ()) else (d, .panic)
  | .close k => (d.set k (d.refs k - 1), .ok ())

def Drv.run (valid : Nat → Bool) (d : Drv) : List DrvOp → Drv × List (Outcome Unit)
  | [] => (d, [])
  | op :: ops =>
    let r := d.step valid op
    let rs := Drv.run valid r.1 ops
    (rs.1, r.2 :: rs.2)

end Updog
