/-
Model of internal/openfile/openfile.go: the flag rewriting handed to bbolt, over POSIX open(2) flag words,
and the part of open(2) the properties rely on.
-/
import Updog.Basic.Bytes
namespace Updog

def O_RDONLY : Nat := 0
def O_RDWR : Nat := 2
def O_CREAT : Nat := 0x40
def O_EXCL : Nat := 0x80

/-- `FailIfFileExists`: `flags | os.O_EXCL` -/
def failIfExistsFlags (flags : Nat) : Nat := flags ||| O_EXCL
/-- `FailIfFileDoesntExist`: `flags &^ os.O_CREATE` -/
def mustExistFlags (flags : Nat) : Nat := flags &&& (flags ^^^ O_CREAT)

def hasFlag (flags f : Nat) : Bool := flags &&& f == f

/-- what open(2) does to the directory entry / file contents, as far as these flags decide it (POSIX):
    returns (succeeds, file exists afterwards, an existing file may be written through the descriptor) -/
def posixOpen (existsBefore : Bool) (flags : Nat) : Bool × Bool × Bool :=
  if existsBefore then
    if hasFlag flags O_CREAT && hasFlag flags O_EXCL then (false, true, false)   -- EEXIST, nothing touched
    else (true, true, flags &&& 3 != O_RDONLY)
  else
    if hasFlag flags O_CREAT then (true, true, true) else (false, false, false)   -- ENOENT, not created

/-- bbolt passes O_RDWR|O_CREATE for a writable database and O_RDONLY for `ReadOnly: true` -/
def boltWriteFlags : Nat := O_RDWR ||| O_CREAT
def boltReadOnlyFlags : Nat := O_RDONLY

end Updog
