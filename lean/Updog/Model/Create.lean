/-
Model of cmd/updog/create.go: header normalisation (`strings.ToLower` + `strings.Map`, rune by rune with
Go's UTF-8 decoding rules) and the record → row mapping.
-/
import Updog.Model.Index
namespace Updog

/-- Go's `utf8.DecodeRune` on the head of a byte string: (rune, width); invalid encodings (including
    overlong forms, surrogates and values above U+10FFFF) give (U+FFFD, 1) -/
def decodeRune : Bytes → Nat × Nat
  | [] => (0xFFFD, 0)
  | b0 :: rest =>
    let x := b0.toNat
    if x < 0x80 then (x, 1)
    else if x < 0xC2 then (0xFFFD, 1)
    else if x < 0xE0 then
      match rest with
      | b1 :: _ => if 0x80 ≤ b1.toNat ∧ b1.toNat ≤ 0xBF then ((x - 0xC0) * 64 + (b1.toNat - 0x80), 2) else (0xFFFD, 1)
      | _ => (0xFFFD, 1)
    else if x < 0xF0 then
      match rest with
      | b1 :: b2 :: _ =>
        let lo := if x = 0xE0 then 0xA0 else 0x80
        let hi := if x = 0xED then 0x9F else 0xBF
        if lo ≤ b1.toNat ∧ b1.toNat ≤ hi ∧ 0x80 ≤ b2.toNat ∧ b2.toNat ≤ 0xBF then
          ((x - 0xE0) * 4096 + (b1.toNat - 0x80) * 64 + (b2.toNat - 0x80), 3)
        else (0xFFFD, 1)
      | _ => (0xFFFD, 1)
    else if x < 0xF5 then
      match rest with
      | b1 :: b2 :: b3 :: _ =>
        let lo := if x = 0xF0 then 0x90 else 0x80
        let hi := if x = 0xF4 then 0x8F else 0xBF
        if lo ≤ b1.toNat ∧ b1.toNat ≤ hi ∧ 0x80 ≤ b2.toNat ∧ b2.toNat ≤ 0xBF ∧ 0x80 ≤ b3.toNat ∧ b3.toNat ≤ 0xBF then
          ((x - 0xF0) * 262144 + (b1.toNat - 0x80) * 4096 + (b2.toNat - 0x80) * 64 + (b3.toNat - 0x80), 4)
        else (0xFFFD, 1)
      | _ => (0xFFFD, 1)
    else (0xFFFD, 1)

/-- one rune of the header after `unicode.ToLower` and the mapping function of `normalizeHeader`:
    a–z kept, A–Z lower-cased, the two non-ASCII runes whose lower case is ASCII (U+0130 → i, U+212A → k),
    everything else `_` -/
def normRune (r : Nat) : UInt8 :=
  if 97 ≤ r ∧ r ≤ 122 then r.toUInt8
  else if 65 ≤ r ∧ r ≤ 90 then (r + 32).toUInt8
  else if r = 0x130 then 105
  else if r = 0x212A then 107
  else 95

def normalizeAux : Nat → Bytes → Bytes
  | 0, _ => []
  | _, [] => []
  | fuel + 1, b :: rest =>
    let rw := decodeRune (b :: rest)
    normRune rw.1 :: normalizeAux fuel ((b :: rest).drop rw.2)

/-- `normalizeHeader` for one header field -/
def normalizeHeader (h : Bytes) : Bytes := normalizeAux h.length h

/-- the row `createCmd` builds from a record: `values[header[i]] = record[i]` (later duplicates of a
    column name overwrite earlier ones, as in a Go map) -/
def recordRow (header : List Bytes) (record : List Bytes) : Row :=
  (header.zip record).foldl (fun row kv => (row.filter (·.1 != kv.1)) ++ [kv]) []

def createRows (header : List Bytes) (records : List (List Bytes)) : List Row :=
  records.map (recordRow (header.map normalizeHeader))

end Updog
