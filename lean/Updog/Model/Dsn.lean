/-
Model of the option handling of driver/driver.go `openFile` (after `url.Parse`, which is trusted):
which index options a file DSN selects and which connection-cache key it gets.
-/
import Updog.Model.Parser
namespace Updog

/-- `optValues.Get(name)` for the three options the driver looks at (`none` = absent; `Get` returns "" then) -/
structure DsnOpts where
  preload : Option Bytes := none
  lrucache : Option Bytes := none
  lrucachesize : Option Bytes := none

def bTrue : Bytes := [116, 114, 117, 101]  -- "true"

/-- `strconv.ParseUint(s, 10, 64)`: non-empty, decimal digits only, at most 2^64-1 -/
def parseUint64 (s : Bytes) : Option Nat :=
  if s.isEmpty || !s.all isDigit then none
  else if digitsVal s > 18446744073709551615 then none else some (digitsVal s)

structure FileConfig where
  preload : Bool
  cacheSize : Option Nat      -- `some n`: an LRU cache of n bytes
  keyOpts : Bytes             -- the option part of the connection-cache key
  deriving DecidableEq, Repr

def sPreload : Bytes := [59, 112, 114, 101, 108, 111, 97, 100, 61, 116, 114, 117, 101]            -- ";preload=true"
def sLru : Bytes := [59, 108, 114, 117, 99, 97, 99, 104, 101, 61, 116, 114, 117, 101]              -- ";lrucache=true"
def sLruSize : Bytes := [59, 108, 114, 117, 99, 97, 99, 104, 101, 115, 105, 122, 101, 61]          -- ";lrucachesize="

/-- `openFile`'s option handling: `.error` = "invalid lrucachesize" -/
def dsnConfig (o : DsnOpts) : Outcome FileConfig :=
  let pre := o.preload == some bTrue
  let k1 : Bytes := if pre then sPreload else []
  if o.lrucache == some bTrue then
    match parseUint64 (o.lrucachesize.getD []) with
    | none => .error
    | some n => .ok ⟨pre, some n, k1 ++ sLru ++ sLruSize ++ o.lrucachesize.getD []⟩
  else .ok ⟨pre, none, k1⟩

end Updog
