/-
Model of OpenIndex / OpenIndexFromBoltDatabase / Close (index.go) on abstract file states, and of the
transaction prefixes a crash during index creation can leave behind (writer.go, writer_big.go).
-/
import Updog.Model.Index
namespace Updog

inductive Blob where
  | good | missing | bad
  deriving Repr, DecidableEq

inductive Counter where
  | good | missing | malformed   -- 4 bytes | absent | any other length
  deriving Repr, DecidableEq

/-- what is on disk at a path -/
inductive FileState where
  | absent
  | notBolt                       -- arbitrary bytes or an empty file: rejected by bbolt itself (read-only open)
  | bolt (bucket : Bool) (s : Blob) (i : Counter) (vAllDecodable : Bool)
  deriving Repr, DecidableEq

structure OpenOpts where
  preload : Bool
  deriving Repr, DecidableEq

/-- outcome of `OpenIndex` together with "the file lock is still held afterwards" -/
def openIndex (fs : FileState) (o : OpenOpts) : Outcome Unit × Bool :=
  match fs with
  | .absent => (.error, false)              -- O_CREATE is stripped: the path is not created
  | .notBolt => (.error, false)
  | .bolt bucket s i vok =>
    if !bucket then (.error, false)         -- db.Close() on the error path
    else if s != .good then (.error, false)
    else if i != .good then (.error, false)
    else if o.preload && !vok then (.error, false)   -- failing option: db.Close()
    else (.ok (), true)

/-- `Close` releases the lock; calling it again is a no-op -/
def closeIndex (held : Bool) : Bool := let _ := held; false

/-! ### crash prefixes of the in-memory writer (WriteToBoltDatabase)

The values are written in batches of `batch` per transaction; the schema and the row counter are
written in the *last* transaction. `k` committed transactions out of `n` leave the header only if `k = n`. -/

/-- file state after `k` of the `n ≥ 1` transactions of a flush have been committed -/
def prefixState (n k : Nat) : FileState :=
  if k = 0 then .bolt false .missing .missing true          -- bbolt initialised the file, no bucket yet
  else if k < n then .bolt true .missing .missing true      -- some bitmaps, no header
  else .bolt true .good .good true

end Updog
