/-
Models of the ORIGINAL (pre-repair) behaviour of the code, one small "mutant" per `fix:` commit of /repo.
Each definition is the current model (`Updog/Model/*.lean`, which describes the REPAIRED code) changed exactly
where the repair changed the Go code; everything else is reused. Definitions only, core only, executable.
The negation witnesses (original violates / repaired is fine) are in `Updog/Props/Witnesses.lean`.
-/
import Updog.Model.Cache
import Updog.Model.BigWriter
import Updog.Model.Parser
import Updog.Model.Formatter
import Updog.Model.QueryState
import Updog.Model.Rows
import Updog.Model.Driver
import Updog.Model.Server
namespace Updog

/-! ### 1. cache keys (8a6a8ef): XOR of rotated operand keys -/

def maskNot : UInt64 := 0x87A9CD14CAEB50EB
def maskAnd : UInt64 := 0xF9F1F5ADCB67A077
def maskOr : UInt64 := 0xBFB85A99B03E78E7

/-- `bits.RotateLeft64(x, 1)` -/
def rotl1 (x : UInt64) : UInt64 := (x <<< 1) ||| (x >>> 63)

/-- `key := mask; for _, e := range e.Exprs { key = key ^ bits.RotateLeft64(e.cacheKey(), 1) }` -/
def xorKeys (mask : UInt64) (ks : List UInt64) : UInt64 := ks.foldl (fun key k => key ^^^ rotl1 k) mask

mutual
/-- the original `cacheKey()` methods -/
def cacheKeyOrig (H : Bytes → UInt64) : Expr → UInt64
  | .eq c v => H (encodePair c v)
  | .not e => rotl1 (cacheKeyOrig H e) ^^^ maskNot
  | .and es => xorKeys maskAnd (cacheKeysOrig H es)
  | .or es => xorKeys maskOr (cacheKeysOrig H es)
def cacheKeysOrig (H : Bytes → UInt64) : List Expr → List UInt64
  | [] => []
  | e :: es => cacheKeyOrig H e :: cacheKeysOrig H es
end

/-- a plain map as result cache (never evicts): the simplest lawful `Cache` -/
def mapCacheImpl : CacheImpl (List (UInt64 × Nat)) where
  get := fun s k => (s, (s.find? (·.1 == k)).map (·.2))
  put := fun s k bm => (k, bm) :: s.filter (·.1 != k)

section
variable (H : Bytes → UInt64) (key : Expr → UInt64) {σ : Type} (C : CacheImpl σ) (ix : Index)

mutual
/-- `Updog.evalC` with the key function as a parameter (`evalCK (cacheKey H) = evalC H`, proved in Witnesses);
    the original code is `evalCK (cacheKeyOrig H)` -/
def evalCK : σ → Expr → σ × Option Nat
  | s, .eq c v =>
    match ix.schema.col c with
    | none => (s, none)
    | some _ => withCache C (key (.eq c v)) s fun s1 => (s1, some ((ix.getCol (H (encodePair c v))).getD 0))
  | s, .not e =>
    withCache C (key (.not e)) s fun s1 =>
      let r := evalCK s1 e
      (r.1, r.2.map (flip ix.next))
  | s, .and es =>
    withCache C (key (.and es)) s fun s1 =>
      let r := evalListCK s1 es
      (r.1, r.2.map andAll)
  | s, .or es =>
    withCache C (key (.or es)) s fun s1 =>
      let r := evalListCK s1 es
      (r.1, r.2.map orAll)
def evalListCK : σ → List Expr → σ × Option (List Nat)
  | s, [] => (s, some [])
  | s, e :: es =>
    let r := evalCK s e
    match r.2 with
    | none => (r.1, none)
    | some b =>
      let r2 := evalListCK r.1 es
      (r2.1, r2.2.map (b :: ·))
end

/-- a history of expressions evaluated one after the other on one cache; the answers are the COUNTS -/
def countsCK : σ → List Expr → List (Option Nat)
  | _, [] => []
  | s, e :: es =>
    let r := evalCK H key C ix s e
    r.2.map popcount :: countsCK r.1 es

end

/-! ### 2. LRU overwrite (e2a88c0): `Put` on an existing key returned without re-accounting / evicting -/

/-- original `Put`: `MoveToFront; item.bm = bm; return` — `item.size` and `curSize` keep the OLD size -/
def Lru.putOrig (c : Lru) (k bm size : Nat) : Lru :=
  match c.items.find? (·.key == k) with
  | some it => { c with puts := c.puts + 1, items := ⟨k, it.size, bm⟩ :: c.items.filter (·.key != k) }
  | none => c.put k bm size

/-- the bytes really held by the cached bitmaps (`sz` = `GetSizeInBytes` of a bitmap id) -/
def Lru.resident (sz : Nat → Nat) (c : Lru) : Nat := (c.items.map fun it => sz it.bm).sum

/-! ### 3. writer header placement (70554fc): schema and counter in the FIRST transaction -/

/-- original `WriteToBoltDatabase`: the header puts open the first transaction -/
def writeTxsOrig (schema : Schema) (next : Nat) (perm : ValMap) (batch : Nat) : List Tx :=
  let st := perm.foldl (batchStep batch) { cur := [BoltPut.schema schema, BoltPut.counter next] }
  st.done ++ [st.cur]

/-! ### 4. parser (4f73f54, ffa2b0d, 1e650ea, 4ba8bbd) -/

/-- (a) original `parser.parse`: no end-of-input check after the expression / the field list -/
def parseToksNoEof (ts : List Tok) : Option PQuery :=
  match parseExpr (ts.length + 1) ts with
  | none => none
  | some (e, .semi :: r) =>
    match parseFieldList r with
    | some (fs, _) => some ⟨e, fs⟩
    | none => none
  | some (e, _) => some ⟨e, []⟩

/-- (b) original lexer: `lexAll` except that a string still open at the end of the input emits NO item; the
    pending text ends up in the EOF item -/
def lexAllOrig : Bytes → List Tok
  | [] => [.eof]
  | c :: rest =>
    if isSpace c then lexAllOrig (rest.dropWhile isSpace)
    else if c == 40 then .lparen :: lexAllOrig rest
    else if c == 41 then .rparen :: lexAllOrig rest
    else if c == 38 then .and :: lexAllOrig rest
    else if c == 124 then .or :: lexAllOrig rest
    else if c == 94 then .not :: lexAllOrig rest
    else if c == 44 then .comma :: lexAllOrig rest
    else if c == 59 then .semi :: lexAllOrig rest
    else if c == 61 then .eq :: lexAllOrig rest
    else if isAlpha c then .field (c :: rest.takeWhile isFieldChar) :: lexAllOrig (rest.dropWhile isFieldChar)
    else if c == 34 then
      match h : scanStr rest with
      | none => [.eof]          -- ORIGINAL: unterminated string swallowed
      | some (body, rest') =>
        have : rest'.length < rest.length := scanStr_length h
        .value body :: lexAllOrig rest'
    else if c == 36 then .placeholder (rest.takeWhile isDigit) :: lexAllOrig (rest.dropWhile isDigit)
    else [.error]
termination_by b => b.length
decreasing_by
  all_goals simp_wf
  all_goals first
    | omega
    | (have := (List.dropWhile_sublist isSpace (l := rest)).length_le; omega)
    | (have := (List.dropWhile_sublist isFieldChar (l := rest)).length_le; omega)
    | (have := (List.dropWhile_sublist isDigit (l := rest)).length_le; omega)

/-- `ParseQuery` with the original lexer (and the repaired parser, EOF check included) -/
def parseQueryLexOrig (s : Bytes) : Option PQuery := parseToks (lexAllOrig s)

/-- `strconv.Atoi` with the error ignored: the value, saturated at `math.MaxInt64` -/
def atoiSat (ds : Bytes) : Nat := min (digitsVal ds) (2 ^ 63 - 1)

/-- Go's `int32(i)` for `i ≥ 0`: keep the low 32 bits, read as two's complement -/
def toInt32 (n : Nat) : Int := ((n + 2 ^ 31) % 2 ^ 32 : Nat) - (2 ^ 31 : Int)

/-- (c) original placeholder handling in `parseComparison`: `i := Atoi(digits)`, reject `i < 1`, then store
    `int32(i)` in the protobuf field. `none` = rejected. -/
def placeholderOrig (ds : Bytes) : Option Int :=
  if ds.isEmpty then none else
  let i := atoiSat ds
  if i < 1 then none else some (toInt32 i)

/-- (d) how many items the PARSER itself receives from the lexer channel before `parse` returns. Exact on the path
    "expression read, next item is neither `;` nor end of input" (the EOF check peeks that item, `errorf` takes it);
    elsewhere the trivial upper bound `ts.length`. -/
def parserPulled (ts : List Tok) : Nat :=
  match parseExpr (ts.length + 1) ts with
  | some (_, t :: r) => if t = .semi ∨ t = .eof then ts.length else ts.length - r.length
  | _ => ts.length

/-- original `ParseQuery`: nobody receives the remaining items — the lexer goroutine blocks on the next send -/
def unreadOrig (ts : List Tok) : Nat := ts.length - parserPulled ts

/-- repaired `ParseQuery`: the deferred `drain` receives whatever the parser did not -/
def unreadRepaired (ts : List Tok) : Nat := ts.length - (parserPulled ts + (ts.length - parserPulled ts))

/-! ### 5. group-by (5db3b87, 0467227) -/

/-- (a) original `Execute`: `populateGroupBy` appends to whatever `groupByFields` already holds -/
def executeQOrig (H : Bytes → UInt64) (ix : Index) (q : QueryState) : Option Result × QueryState :=
  match populateGroupByQ ix.schema q.groupBy q.hidden with   -- ORIGINAL: no reset
  | (none, left) => (none, { q with hidden := left })
  | (some fields, left) =>
    match eval H ix q.expr with
    | none => (none, { q with hidden := left })
    | some bm => (some ⟨popcount bm, Updog.groupBy ix fields bm⟩, { q with hidden := left })

/-- a Go slice header: backing array (index into the heap), length, capacity -/
structure Slice where
  arr : Nat
  len : Nat
  cap : Nat
  deriving Repr, DecidableEq

/-- the backing arrays allocated so far; the length of an array is its capacity -/
abbrev Heap := List (List (Bytes × Bytes))

/-- `s[0:len]` -/
def Heap.read (h : Heap) (s : Slice) : Fields := (h.getD s.arr []).take s.len

/-- Go's `append(s, x)`: in place when there is spare capacity, otherwise a new array of doubled capacity
    (1 for the nil slice; exact for `[]ResultField` up to 8 elements) with the old elements copied -/
def goAppend (h : Heap) (s : Slice) (x : Bytes × Bytes) : Heap × Slice :=
  if s.len < s.cap then (h.set s.arr ((h.getD s.arr []).set s.len x), { s with len := s.len + 1 })
  else
    let cap' := if s.cap = 0 then 1 else 2 * s.cap
    (h ++ [h.read s ++ [x] ++ List.replicate (cap' - s.len - 1) ([], [])], ⟨h.length, s.len + 1, cap'⟩)

/-- (b) one iteration of the outer loop of the original `Query.groupBy`:
    `fields: append(rg.fields, ResultField{…})` directly on the parent's slice -/
def refineOrig (ix : Index) (gbf : GBField) (st : Heap × List (Slice × Nat)) : Heap × List (Slice × Nat) :=
  st.2.foldl (fun acc rg => gbf.values.foldl (fun acc v =>
    match ix.getCol v.2 with
    | none => acc
    | some vbm =>
      let r := rg.2 &&& vbm
      if popcount r = 0 then acc else
        let a := goAppend acc.1 rg.1 (gbf.col, v.1)
        (a.1, acc.2 ++ [(a.2, r)])) acc) (st.1, [])

/-- original `Query.groupBy`; the field lists are read when the final result is built -/
def groupByOrig (ix : Index) (fields : List GBField) (result : Nat) : List (Fields × Nat) :=
  if fields.isEmpty then [] else
  let st := fields.foldl (fun st gbf => refineOrig ix gbf st) ([], [(⟨0, 0, 0⟩, result)])
  st.2.map fun rg => (st.1.read rg.1, popcount rg.2)

/-! ### 6. driver (6025f99, 2ab91ba, 08da9c3, cac1b90) -/

/-- (a) original `stmt.query`: no argument-count check; `ReplacePlaceholders` indexes `values[n-1]` -/
def bindOrig (q : PQuery) (args : List Bytes) : Outcome PQuery :=
  if maxPh q.expr > args.length then .panic else .ok ⟨subst args q.expr, q.groupBy⟩

/-- (b) original `newRows`: decides on `len(result.Groups)` -/
def newRowsOrig (res : Result) (groupBy : List Bytes) : Rows :=
  { cols := groupBy ++ [countCol],
    types := groupBy.map (fun _ => "TEXT") ++ ["BIGINT"],
    rows := if res.groups.length > 0 then res.groups.map fun g => g.1.map (fun cv => Cell.text cv.2) ++ [Cell.int g.2]
            else [[Cell.int res.count]] }

/-- (c) a cached `fileConn` of the original driver: reference count and "`idx` is not nil" -/
structure OConn where
  refs : Nat
  live : Bool
  deriving Repr, DecidableEq

/-- original connection cache: entries are never removed -/
structure DrvOrig where
  conns : DKey → Option OConn

def DrvOrig.empty : DrvOrig := ⟨fun _ => none⟩

def DrvOrig.set (d : DrvOrig) (k : DKey) (c : OConn) : DrvOrig := ⟨fun k' => if k' = k then some c else d.conns k'⟩

/-- one driver step of the original code (sequential use). `Close`: `if refs.Add(-1) <= 0 { idx = nil; … }`, the
    entry stays; `open` on an existing entry is a cache hit whatever became of its index. -/
def DrvOrig.step (valid : Nat → Bool) (d : DrvOrig) : DrvOp → DrvOrig × Outcome Unit
  | .open k =>
    match d.conns k with
    | some c => (d.set k { c with refs := c.refs + 1 }, .ok ())
    | none => if valid k.file then (d.set k ⟨1, true⟩, .ok ()) else (d, .error)
  | .query k =>
    match d.conns k with
    | some ⟨_, true⟩ => (d, .ok ())
    | _ => (d, .panic)                      -- nil index dereferenced
  | .close k =>
    match d.conns k with
    | some c =>
      if c.refs ≤ 1 then (d.set k ⟨c.refs - 1, false⟩, if c.live then .ok () else .panic)  -- `idx.Close()`, nil the 2nd time
      else (d.set k { c with refs := c.refs - 1 }, .ok ())
    | none => (d, .ok ())

def DrvOrig.run (valid : Nat → Bool) (d : DrvOrig) : List DrvOp → DrvOrig × List (Outcome Unit)
  | [] => (d, [])
  | op :: ops =>
    let r := d.step valid op
    let rs := DrvOrig.run valid r.1 ops
    (rs.1, r.2 :: rs.2)

/-- where a goroutine executing the original `openFile` is: before the lookup (`RLock`), before `OpenIndex`
    (no lock), before the insertion (`Lock`), or returned -/
inductive OpenPc where
  | lookup | openIdx | insert | done
  deriving Repr, DecidableEq

/-- shared state of concurrent `openFile` calls: the connection cache and who holds the file locks -/
structure OpenSys where
  cached : DKey → Bool
  /-- number of bbolt handles open on a file (each holds the flock) -/
  flock : Nat → Nat

def OpenSys.empty : OpenSys := ⟨fun _ => false, fun _ => 0⟩

/-- one critical section of one goroutine. `excl` = `OpenIndex` takes bbolt's EXCLUSIVE flock (before cac1b90):
    while another handle is open on the file, `OpenIndex` blocks — the goroutine makes no progress. -/
def openStep (excl : Bool) (s : OpenSys) (k : DKey) : OpenPc → OpenSys × OpenPc
  | .lookup => if s.cached k then (s, .done) else (s, .openIdx)
  | .openIdx =>
    if excl && decide (s.flock k.file > 0) then (s, .openIdx)
    else ({ s with flock := fun f => if f = k.file then s.flock f + 1 else s.flock f }, .insert)
  | .insert => ({ s with cached := fun k' => if k' = k then true else s.cached k' }, .done)
  | .done => (s, .done)

/-- goroutines calling `openFile(key)`, interleaved at critical-section granularity by `sched`.
    The repaired `openFile` holds one mutex for all three sections: its schedules are those in which the three
    steps of a goroutine are contiguous. -/
def runOpens (excl : Bool) (s : OpenSys) (gs : List (DKey × OpenPc)) : List Nat → OpenSys × List (DKey × OpenPc)
  | [] => (s, gs)
  | i :: sched =>
    match gs[i]? with
    | none => runOpens excl s gs sched
    | some g =>
      let r := openStep excl s g.1 g.2
      runOpens excl r.1 (gs.set i (g.1, r.2)) sched

/-! ### 7. open (2112911, 983938d) -/

/-- original `OpenIndexFromBoltDatabase`: no nil-bucket check, no length check on the row counter.
    `ctrLen` is the real length of the counter value when it is `.malformed` (≠ 4).
    (A missing schema was already reported as an error: gob decoding of the empty value fails.)
    A panic inside `db.View` leaves the database open. -/
def openIndexOrig (fs : FileState) (ctrLen : Nat) (o : OpenOpts) : Outcome Unit × Bool :=
  match fs with
  | .absent => (.error, false)
  | .notBolt => (.error, false)
  | .bolt bucket s i vok =>
    if !bucket then (.panic, true)                                 -- `bucket.Get` on the nil bucket
    else if s != .good then (.error, false)
    else if i == .missing || (i == .malformed && ctrLen < 4) then (.panic, true)   -- `BigEndian.Uint32` out of range
    else if o.preload && !vok then (.error, false)                 -- (≥ 5 bytes: the first four are used silently)
    else (.ok (), true)

/-- original option loop: a failing option returns the error without `db.Close()` -/
def openIndexLeak (fs : FileState) (o : OpenOpts) : Outcome Unit × Bool :=
  match fs with
  | .bolt true .good .good false => if o.preload then (.error, true) else openIndex fs o
  | _ => openIndex fs o

/-! ### 8. server (b3a7fa1): nil members dereferenced -/

mutual
/-- the tree holds a NOT without operand: `toExpr(v.Not.Expr)` dereferences the nil message inside `convert` -/
def WExpr.nilNot : WExpr → Bool
  | .not none => true
  | .not (some e) => WExpr.nilNot e
  | .and es => WExpr.nilNotList es
  | .or es => WExpr.nilNotList es
  | _ => false
def WExpr.nilNotList : List WExpr → Bool
  | [] => false
  | e :: es => WExpr.nilNot e || WExpr.nilNotList es
end

/-- original `ToQuery` + `Execute`: no validation. A missing expression or NOT operand panics in `convert`;
    an expression without value becomes a nil `Expression`, on which `cacheKey`/`eval` panic — after
    `populateGroupBy` has had the chance to report an unknown group-by column. -/
def serverExecuteOrig (H : Bytes → UInt64) (ix : Index) (q : WQuery) : Outcome Result :=
  match q.expr with
  | none => .panic
  | some w =>
    match w.complete with
    | none =>
      if w.nilNot then .panic
      else match populateGroupBy ix.schema q.groupBy with
        | none => .error
        | some _ => .panic
    | some e =>
      match execute H ix ⟨e, q.groupBy⟩ with
      | none => .error
      | some r => .ok r

/-! ### 9. big writer (4e9f82a): the cursor walk allocates a bitmap only when the value index changes -/

/-- original loop body: guard `currentValueIdx != valueIdx` only; `bm.Add` on the nil bitmap panics -/
def walkStepOrig (s : Outcome WalkState) (k : Bytes) : Outcome WalkState :=
  s.bind fun s =>
    let valueIdx := beDecode (k.take 8)
    let rowID := beDecode (k.drop 8)
    let s' : WalkState := if s.cur != valueIdx then { cur := valueIdx, bm := some 0, out := s.emit } else s
    match s'.bm with
    | none => .panic
    | some b => .ok { s' with bm := some (setBit b rowID) }

def walkOrig (ks : List Bytes) : Outcome ValMap := (ks.foldl walkStepOrig (.ok {})).map WalkState.emit

/-- original `Flush` (the key length check is unchanged) -/
def BigWriter.flushOrig (w : BigWriter) : Outcome (ValMap × Schema × Nat) :=
  if w.temp.all (·.length == 12) then (walkOrig (sortKeys w.temp)).map fun v => (v, w.schema, w.next) else .error

/-! ### 9b. `updog create --big` (72e7103): the original command is `createRun ⟨true, false⟩` of Model/CreateCmd.lean
(no `defer idx.Close()`), see `Updog.C19.unrepaired_hangs`.

### 10. LRU mutex (d0a4588): the original `Get`/`Put` did not lock. The defect is a data race in the Go memory
model (concurrent map writes, torn list updates); it has no value-level description — at the granularity of this
model every `Get`/`Put` is one atomic step, which is exactly what the mutex provides. No mutant. -/

end Updog
