/-
Helper lemmas about the file-lock model `Updog/Model/OpenLock.lean` (used by `Updog/Props/C15Lock.lean`).
-/
import Updog.Model.OpenLock
namespace Updog.OpenLock
open Updog

/-! ### `openIndex` has two shapes -/

theorem openIndex_cases (fs : FileState) (o : OpenOpts) :
    openIndex fs o = (.ok (), true) ∨ openIndex fs o = (.error, false) := by
  cases fs with
  | absent => exact .inr rfl
  | notBolt => exact .inr rfl
  | bolt b s i v =>
    cases o with | mk p =>
    cases b <;> cases s <;> cases i <;> cases v <;> cases p <;> simp [openIndex]

theorem openIndex_ok_of_fst {fs : FileState} {o : OpenOpts} (h : (openIndex fs o).1 = .ok ()) :
    openIndex fs o = (.ok (), true) := by
  rcases openIndex_cases fs o with h' | h' <;> rw [h'] at h ⊢ <;> simp_all

theorem openIndex_error_of_fst {fs : FileState} {o : OpenOpts} (h : (openIndex fs o).1 = .error) :
    openIndex fs o = (.error, false) := by
  rcases openIndex_cases fs o with h' | h' <;> rw [h'] at h ⊢ <;> simp_all

theorem openIndex_snd_iff (fs : FileState) (o : OpenOpts) :
    (openIndex fs o).2 = true ↔ (openIndex fs o).1 = .ok () := by
  rcases openIndex_cases fs o with h' | h' <;> rw [h'] <;> simp

/-! ### compatibility -/

/-- every holder is a reader -/
def NoExcl (st : LockState) : Prop := ∀ x ∈ st.holders, x.mode = .shared

theorem compatible_shared_iff (hs : List Holder) :
    compatible .shared hs = true ↔ ∀ x ∈ hs, x.mode = .shared := by
  simp only [compatible, List.all_eq_true, bne_iff_ne, ne_eq]
  constructor
  · intro h x hx; have := h x hx; cases hm : x.mode <;> simp_all
  · intro h x hx; rw [h x hx]; simp

theorem compatible_shared_false_iff (hs : List Holder) :
    compatible .shared hs = false ↔ ∃ x ∈ hs, x.mode = .exclusive := by
  rw [← Bool.not_eq_true, compatible_shared_iff]
  constructor
  · intro h
    apply Classical.byContradiction
    intro hc
    apply h
    intro x hx
    cases hm : x.mode
    · rfl
    · exact absurd ⟨x, hx, hm⟩ hc
  · rintro ⟨x, hx, hm⟩ h
    rw [h x hx] at hm; cases hm

theorem compatible_exclusive_iff (hs : List Holder) : compatible .exclusive hs = true ↔ hs = [] := by
  simp [compatible]

/-! ### release -/

theorem release_append_fresh (hs : List Holder) (n : HandleId) (p : ProcId) (m : LockMode)
    (hf : ∀ x ∈ hs, x.id < n) : release (hs ++ [{ id := n, proc := p, mode := m }]) n = hs := by
  simp only [release, List.filter_append, List.filter_cons, List.filter_nil, bne_self_eq_false, Bool.false_eq_true,
    if_false, List.append_nil]
  rw [List.filter_eq_self]
  intro x hx
  simp only [bne_iff_ne, ne_eq]
  exact Nat.ne_of_lt (hf x hx)

theorem release_append_self (hs : List Holder) (n : HandleId) (p : ProcId) (m : LockMode) :
    release (hs ++ [{ id := n, proc := p, mode := m }]) n = release hs n := by
  simp [release, List.filter_append]

theorem holds_release (hs : List Holder) (h : HandleId) : (release hs h).any (fun x => x.id == h) = false := by
  simp [release, List.any_filter]

theorem map_id_release (hs : List Holder) (h : HandleId) :
    (release hs h).map (·.id) = (hs.map (·.id)).filter fun x => x != h := by
  simp only [release, List.filter_map]; rfl

/-! ### the three shapes of `openRO` -/

theorem openRO_blocked {st : LockState} {p : ProcId} {o : OpenOpts} (hb : compatible .shared st.holders = false) :
    openRO st p o = (.hang, st) := by
  simp [openRO, hb]

theorem openRO_ok {st : LockState} {p : ProcId} {o : OpenOpts} (hc : compatible .shared st.holders = true)
    (ho : openIndex st.fs o = (.ok (), true)) :
    openRO st p o = (.ok st.next,
      { st with holders := st.holders ++ [{ id := st.next, proc := p, mode := .shared }], live := st.live ++ [st.next],
                next := st.next + 1 }) := by
  simp [openRO, hc, ho, LockState.acquire]

theorem openRO_error {st : LockState} {p : ProcId} {o : OpenOpts} (hc : compatible .shared st.holders = true)
    (ho : openIndex st.fs o = (.error, false)) :
    openRO st p o = (.error, { st with holders := release st.holders st.next, next := st.next + 1 }) := by
  simp [openRO, hc, ho, LockState.acquire, release_append_self]

theorem openRO_fs (st : LockState) (p : ProcId) (o : OpenOpts) : (openRO st p o).2.fs = st.fs := by
  by_cases hc : compatible .shared st.holders = true
  · rcases openIndex_cases st.fs o with ho | ho
    · rw [openRO_ok hc ho]
    · rw [openRO_error hc ho]
  · rw [openRO_blocked (by simpa using hc)]

/-! ### well-formedness is preserved -/

theorem _root_.Updog.LockState.WF.unlocked (fs : FileState) (n : HandleId) : (LockState.unlocked fs n).WF :=
  ⟨by simp [LockState.unlocked], by simp [LockState.unlocked], by simp [LockState.unlocked]⟩

theorem nodup_release {hs : List Holder} (h : HandleId) (hn : (hs.map (·.id)).Nodup) :
    ((release hs h).map (·.id)).Nodup :=
  hn.sublist (List.Sublist.map _ List.filter_sublist)

theorem _root_.Updog.LockState.WF.acquire {st : LockState} (w : st.WF) (p : ProcId) :
    ((st.holders ++ [({ id := st.next, proc := p, mode := .shared } : Holder)]).map (·.id)).Nodup := by
  rw [List.map_append, List.nodup_append]
  refine ⟨w.nodup, by simp, ?_⟩
  intro a ha b hb
  simp only [List.map_cons, List.map_nil, List.mem_singleton] at hb
  obtain ⟨x, hx, rfl⟩ := List.mem_map.mp ha
  subst hb
  exact Nat.ne_of_lt (w.fresh x hx)

theorem _root_.Updog.LockState.WF.openRO {st : LockState} (w : st.WF) (p : ProcId) (o : OpenOpts) : (openRO st p o).2.WF := by
  by_cases hc : compatible .shared st.holders = true
  · rcases openIndex_cases st.fs o with ho | ho
    · rw [openRO_ok hc ho]
      refine ⟨?_, w.acquire p, ?_⟩
      · intro x hx
        simp only [List.mem_append, List.mem_singleton] at hx
        rcases hx with hx | rfl
        · exact Nat.lt_succ_of_lt (w.fresh x hx)
        · exact Nat.lt_succ_self _
      · simp [List.filter_append, w.live_eq]
    · rw [openRO_error hc ho, release, List.filter_eq_self.mpr]
      · exact ⟨fun x hx => Nat.lt_succ_of_lt (w.fresh x hx), w.nodup, w.live_eq⟩
      · intro x hx; simp only [bne_iff_ne, ne_eq]; exact Nat.ne_of_lt (w.fresh x hx)
  · rw [openRO_blocked (by simpa using hc)]; exact w

theorem openRW_blocked {st : LockState} {p : ProcId} (hb : st.holders ≠ []) : openRW st p = (.hang, st) := by
  have : compatible .exclusive st.holders = false := by
    rw [← Bool.not_eq_true, compatible_exclusive_iff]; exact hb
  simp [Updog.openRW, this]

theorem openRW_ok {st : LockState} {p : ProcId} (he : st.holders = []) :
    openRW st p = (.ok st.next,
      { st with fs := if st.fs = .absent then .bolt false .missing .missing true else st.fs,
                holders := [{ id := st.next, proc := p, mode := .exclusive }], next := st.next + 1 }) := by
  simp [Updog.openRW, LockState.acquire, he, compatible]

theorem _root_.Updog.LockState.WF.openRW {st : LockState} (w : st.WF) (p : ProcId) : (openRW st p).2.WF := by
  by_cases he : st.holders = []
  · rw [openRW_ok he]
    refine ⟨by simp, by simp, ?_⟩
    have := w.live_eq
    simp only [he] at this
    simpa using this
  · rw [openRW_blocked he]; exact w

theorem _root_.Updog.LockState.WF.openCreate {st : LockState} (w : st.WF) (p : ProcId) : (openCreate st p).2.WF := by
  unfold Updog.openCreate
  split
  · exact w
  · exact w.openRW p

theorem live_filter_release (hs : List Holder) (h : HandleId) :
    List.filter (fun x => x != h) ((hs.filter fun x => x.mode == .shared).map (·.id))
      = ((release hs h).filter fun x => x.mode == .shared).map (·.id) := by
  simp only [release, List.filter_map, List.filter_filter]
  congr 1
  apply List.filter_congr
  intro x _
  simp [Bool.and_comm]

theorem _root_.Updog.LockState.WF.close {st : LockState} (w : st.WF) (h : HandleId) : (close st h).2.WF := by
  unfold Updog.close
  split
  · exact w
  · refine ⟨?_, nodup_release h w.nodup, ?_⟩
    · intro x hx
      exact w.fresh x (List.mem_filter.mp hx).1
    · simp only [w.live_eq]
      exact live_filter_release st.holders h

theorem _root_.Updog.LockState.WF.closeRW {st : LockState} (w : st.WF) (h : HandleId) : (closeRW st h).2.WF := by
  refine ⟨?_, w.nodup.sublist (List.Sublist.map _ List.filter_sublist), ?_⟩
  · intro x hx
    exact w.fresh x (List.mem_filter.mp hx).1
  · simp only [Updog.closeRW, w.live_eq, List.filter_filter]
    congr 1
    apply List.filter_congr
    intro x _
    cases x.mode <;> simp

theorem _root_.Updog.LockState.WF.step {st : LockState} (w : st.WF) (e : Ev) : (step st e).2.WF := by
  cases e with
  | openRO p o => exact w.openRO p o
  | openRW p => exact w.openRW p
  | openCreate p => exact w.openCreate p
  | close h => exact w.close h
  | closeRW h => exact w.closeRW h
  | setFile fs => exact ⟨w.fresh, w.nodup, w.live_eq⟩

theorem _root_.Updog.LockState.WF.run {st : LockState} (w : st.WF) (es : List Ev) : (run st es).1.WF := by
  induction es generalizing st with
  | nil => exact w
  | cons e es ih => exact ih (w.step e)

/-! ### histories -/

theorem run_append (st : LockState) (es₁ es₂ : List Ev) :
    run st (es₁ ++ es₂) = ((run (run st es₁).1 es₂).1, (run st es₁).2 ++ (run (run st es₁).1 es₂).2) := by
  induction es₁ generalizing st with
  | nil => rfl
  | cons e es ih => simp only [List.cons_append, run, ih]

theorem run_length (st : LockState) (es : List Ev) : (run st es).2.length = es.length := by
  induction es generalizing st with
  | nil => rfl
  | cons e es ih => simp only [run, List.length_cons, ih]

theorem openHandlesFrom_append (acc : List HandleId) (es₁ es₂ : List Ev) (rs₁ rs₂ : List Res)
    (hl : rs₁.length = es₁.length) :
    openHandlesFrom acc (es₁ ++ es₂) (rs₁ ++ rs₂) = openHandlesFrom (openHandlesFrom acc es₁ rs₁) es₂ rs₂ := by
  induction es₁ generalizing acc rs₁ with
  | nil =>
    cases rs₁ with
    | nil => cases es₂ <;> cases rs₂ <;> rfl
    | cons _ _ => simp at hl
  | cons e es ih =>
    cases rs₁ with
    | nil => simp at hl
    | cons r rs =>
      simp only [List.length_cons, Nat.add_right_cancel_iff] at hl
      simp only [List.cons_append, openHandlesFrom, ih _ _ hl]

/-- a state in which the live indexes are exactly the holders, all of them readers -/
theorem live_eq_ids {st : LockState} (w : st.WF) (hn : NoExcl st) : st.live = st.holders.map (·.id) := by
  rw [w.live_eq, List.filter_eq_self.mpr]
  intro x hx
  simp [hn x hx]

/-- one reader event: nobody blocks, no writer appears, and the holders follow the bookkeeping `trackStep` -/
theorem reader_step {st : LockState} (w : st.WF) (hn : NoExcl st) (e : Ev) (he : e.isReader = true) :
    (step st e).1 ≠ .hang ∧ NoExcl (step st e).2 ∧
    (step st e).2.holders.map (·.id) = trackStep (st.holders.map (·.id)) e (step st e).1 := by
  have hc : compatible .shared st.holders = true := (compatible_shared_iff _).mpr hn
  cases e with
  | openRO p o =>
    simp only [step]
    rcases openIndex_cases st.fs o with ho | ho
    · rw [openRO_ok hc ho]
      refine ⟨by simp [Res.ofOpen], ?_, by simp [Res.ofOpen, trackStep]⟩
      intro x hx
      simp only [List.mem_append, List.mem_singleton] at hx
      rcases hx with hx | rfl
      · exact hn x hx
      · rfl
    · rw [openRO_error hc ho]
      refine ⟨by simp [Res.ofOpen], ?_, ?_⟩
      · intro x hx; exact hn x (List.mem_filter.mp hx).1
      · simp only [Res.ofOpen, trackStep, release]
        rw [List.filter_eq_self.mpr]
        intro x hx; simp only [bne_iff_ne, ne_eq]; exact Nat.ne_of_lt (w.fresh x hx)
  | close h =>
    simp only [step, trackStep]
    refine ⟨by simp, ?_, ?_⟩
    · unfold Updog.close
      split
      · exact hn
      · intro x hx; exact hn x (List.mem_filter.mp hx).1
    · unfold Updog.close
      split
      · rename_i hh
        rw [live_eq_ids w hn] at hh
        symm
        rw [List.filter_eq_self]
        intro x hx
        simp only [bne_iff_ne, ne_eq]
        rintro rfl
        simp [hx] at hh
      · exact map_id_release st.holders h
  | setFile fs => exact ⟨by simp [step], hn, rfl⟩
  | openRW p => simp [Ev.isReader] at he
  | openCreate p => simp [Ev.isReader] at he
  | closeRW h => simp [Ev.isReader] at he

/-- **key invariant** of reader histories: no event blocks, no writer appears, and the holders at the end are exactly
    the handles opened successfully and not closed since (`openHandlesFrom`), in order, all with a shared lock -/
theorem reader_run {st : LockState} (w : st.WF) (hn : NoExcl st) (es : List Ev) (he : es.all Ev.isReader = true) :
    (∀ r ∈ (run st es).2, r ≠ .hang) ∧ NoExcl (run st es).1 ∧
    (run st es).1.holders.map (·.id) = openHandlesFrom (st.holders.map (·.id)) es (run st es).2 := by
  induction es generalizing st with
  | nil => exact ⟨by simp [run], hn, rfl⟩
  | cons e es ih =>
    simp only [List.all_cons, Bool.and_eq_true] at he
    obtain ⟨s1, s2, s3⟩ := reader_step w hn e he.1
    obtain ⟨i1, i2, i3⟩ := ih (w.step e) s2 he.2
    refine ⟨?_, i2, ?_⟩
    · intro r hr
      simp only [run, List.mem_cons] at hr
      rcases hr with rfl | hr
      · exact s1
      · exact i1 r hr
    · simp only [run, openHandlesFrom]
      rw [i3, s3]

/-! ### `Close` -/

theorem close_snd_of_not_live {st : LockState} {h : HandleId} (hh : st.live.contains h = false) :
    close st h = (.ok (), st) := by
  unfold Updog.close; rw [hh]; rfl

theorem close_snd_of_live {st : LockState} {h : HandleId} (hh : st.live.contains h = true) :
    close st h = (.ok (), { st with holders := release st.holders h, live := st.live.filter fun x => x != h }) := by
  unfold Updog.close; rw [hh]; rfl

theorem not_live_after_close (st : LockState) (h : HandleId) : (close st h).2.live.contains h = false := by
  unfold Updog.close
  split
  · rename_i hh; simpa using hh
  · simp

/-! ### what `openRO` means in terms of `Model/Open.lean`, and what a failed attempt leaves behind -/

/-- unblocked `openRO`, seen through "outcome, does the new handle hold the lock" = `openIndex` -/
theorem openRO_abstract {st : LockState} (p : ProcId) (o : OpenOpts) (hc : compatible .shared st.holders = true) :
    ((openRO st p o).1.map (fun _ => ()), (openRO st p o).2.holds st.next) = openIndex st.fs o := by
  rcases openIndex_cases st.fs o with ho | ho
  · rw [openRO_ok hc ho, ho]; simp [Outcome.map, LockState.holds]
  · rw [openRO_error hc ho, ho]
    simp only [Outcome.map, LockState.holds, holds_release]

/-- a failed attempt leaves the state as it was, except that a handle id is used up -/
theorem failed_open_state {st : LockState} (w : st.WF) {p : ProcId} {o : OpenOpts} (h : (openRO st p o).1 = .error) :
    (openRO st p o).2 = { st with next := st.next + 1 } := by
  by_cases hc : compatible .shared st.holders = true
  · rcases openIndex_cases st.fs o with ho | ho
    · rw [openRO_ok hc ho] at h; cases h
    · rw [openRO_error hc ho, release, List.filter_eq_self.mpr]
      intro x hx; simp only [bne_iff_ne, ne_eq]; exact Nat.ne_of_lt (w.fresh x hx)
  · rw [openRO_blocked (by simpa using hc)] at h; cases h

theorem openRO_outcome {st : LockState} (p : ProcId) (o : OpenOpts) (hc : compatible .shared st.holders = true) :
    (openRO st p o).1 = (openIndex st.fs o).1.map fun _ => st.next := by
  rcases openIndex_cases st.fs o with ho | ho
  · rw [openRO_ok hc ho, ho]; rfl
  · rw [openRO_error hc ho, ho]; rfl

/-- closing a list of handles removes exactly these from the holders -/
theorem run_closes {st : LockState} (w : st.WF) (hn : NoExcl st) (l : List HandleId) :
    NoExcl (run st (l.map Ev.close)).1 ∧
    (run st (l.map Ev.close)).1.holders.map (·.id) = (st.holders.map (·.id)).filter fun x => !l.contains x := by
  induction l generalizing st with
  | nil => exact ⟨hn, by simp only [List.map_nil, run]; symm; rw [List.filter_eq_self]; intros; rfl⟩
  | cons h l ih =>
    obtain ⟨_, s2, s3⟩ := reader_step w hn (.close h) rfl
    obtain ⟨i1, i2⟩ := ih (w.step _) s2
    refine ⟨i1, ?_⟩
    simp only [List.map_cons, run]
    rw [i2, s3]
    simp only [trackStep, List.filter_filter]
    apply List.filter_congr
    intro x _
    simp only [List.contains_cons, Bool.not_or, bne]
    rw [Bool.and_comm]

end Updog.OpenLock
