/-
Helper lemmas for Props/C05Counter.lean: the writers with the 32-bit row counter (Model/Counter32.lean) against the
writers with the unbounded counter (Model/Index.lean, Model/BigWriter.lean).
-/
import Updog.Model.Counter32
import Updog.Proofs.BigWriter
namespace Updog

theorem toNat_succ32 (n : UInt32) : (n + 1).toNat = (n.toNat + 1) % 4294967296 := by
  rw [UInt32.toNat_add]; rfl

theorem toNat_succ32_of_lt (n : UInt32) (h : n.toNat + 1 < 2 ^ 32) : (n + 1).toNat = n.toNat + 1 := by
  rw [toNat_succ32]; exact Nat.mod_eq_of_lt h

/-- the 4 persisted bytes decode (as a number) to the counter -/
theorem beDecode_counterBytes (n : UInt32) : beDecode (counterBytes n) = n.toNat := by
  unfold counterBytes
  exact be32_roundtrip n.toNat n.toNat_lt

theorem counterOfBytes_counterBytes (n : UInt32) : counterOfBytes (counterBytes n) = n := by
  unfold counterOfBytes
  rw [beDecode_counterBytes]
  exact UInt32.ofNat_toNat

section
variable (H : Bytes → UInt64)

/-! ### in-memory writer -/

/-- the unbounded-counter state a 32-bit state stands for -/
def Writer32.abs (w : Writer32) : Writer := { schema := w.schema, vals := w.vals, next := w.next.toNat }

theorem fold32_abs (id : UInt32) (r : Row) (w : Writer32) :
    (r.foldl (Writer32.addPair H id) w).abs = r.foldl (Writer.addPair H id.toNat) w.abs := by
  induction r generalizing w with
  | nil => rfl
  | cons kv r ih => simp only [List.foldl]; rw [ih]; rfl

theorem fold32_next (id : UInt32) (r : Row) (w : Writer32) : (r.foldl (Writer32.addPair H id) w).next = w.next := by
  induction r generalizing w with
  | nil => rfl
  | cons kv r ih => simp only [List.foldl]; rw [ih]; rfl

/-- one `AddRow`: the bitmaps and the schema are those of the unbounded model, whatever the counter is -/
theorem addRow32_schema_vals (w : Writer32) (r : Row) :
    (Writer32.addRow H w r).1.schema = (Writer.addRow H w.abs r).schema ∧
    (Writer32.addRow H w r).1.vals = (Writer.addRow H w.abs r).vals := by
  have h := fold32_abs H w.next r w
  simp only [Writer32.addRow, Writer.addRow]
  exact ⟨congrArg Writer.schema h, congrArg Writer.vals h⟩

theorem addRow32_next (w : Writer32) (r : Row) : (Writer32.addRow H w r).1.next = w.next + 1 := rfl
theorem addRow32_id (w : Writer32) (r : Row) : (Writer32.addRow H w r).2 = w.next := rfl

/-- … and with room for the increment the whole state is -/
theorem addRow32_abs (w : Writer32) (r : Row) (h : w.next.toNat + 1 < 2 ^ 32) :
    (Writer32.addRow H w r).1.abs = Writer.addRow H w.abs r := by
  obtain ⟨h1, h2⟩ := addRow32_schema_vals H w r
  have h3 : (Writer32.addRow H w r).1.next.toNat = (Writer.addRow H w.abs r).next := by
    rw [addRow32_next, toNat_succ32_of_lt _ h]; rfl
  show Writer.mk _ _ _ = _
  rw [h1, h2, h3]

theorem addRows32_cons (w : Writer32) (r : Row) (rs : List Row) :
    Writer32.addRows H w (r :: rs) = Writer32.addRows H (Writer32.addRow H w r).1 rs := rfl

theorem addRows_cons (w : Writer) (r : Row) (rs : List Row) :
    Writer.addRows H w (r :: rs) = Writer.addRows H (Writer.addRow H w r) rs := rfl

/-- the counter after any number of rows: `uint32` arithmetic -/
theorem addRows32_next (w : Writer32) (rows : List Row) :
    (Writer32.addRows H w rows).next.toNat = (w.next.toNat + rows.length) % 4294967296 := by
  induction rows generalizing w with
  | nil =>
    have := w.next.toNat_lt
    simp only [Writer32.addRows, List.foldl, List.length_nil, Nat.add_zero]
    omega
  | cons r rs ih =>
    rw [addRows32_cons, ih, addRow32_next, toNat_succ32, List.length_cons]
    omega

/-- with fewer than 2^32 rows in total the 32-bit writer IS the unbounded writer -/
theorem addRows32_abs (w : Writer32) (rows : List Row) (h : w.next.toNat + rows.length < 2 ^ 32) :
    (Writer32.addRows H w rows).abs = Writer.addRows H w.abs rows := by
  induction rows generalizing w with
  | nil => rfl
  | cons r rs ih =>
    simp only [List.length_cons] at h
    have h1 : w.next.toNat + 1 < 2 ^ 32 := by omega
    rw [addRows32_cons, addRows_cons, ← addRow32_abs H w r h1]
    apply ih
    rw [addRow32_next, toNat_succ32_of_lt _ h1]
    omega

theorem addRows32_snoc (w : Writer32) (rows : List Row) (r : Row) :
    Writer32.addRows H w (rows ++ [r]) = (Writer32.addRow H (Writer32.addRows H w rows) r).1 := by
  simp [Writer32.addRows, List.foldl_append]

theorem addRows_snoc (w : Writer) (rows : List Row) (r : Row) :
    Writer.addRows H w (rows ++ [r]) = Writer.addRow H (Writer.addRows H w rows) r := by
  simp [Writer.addRows, List.foldl_append]

/-- with AT MOST 2^32 rows the bitmaps and the schema are still those of the unbounded writer (all row ids fit) -/
theorem addRows32_schema_vals (w : Writer32) (rows : List Row) (h : w.next.toNat + rows.length ≤ 2 ^ 32) :
    (Writer32.addRows H w rows).schema = (Writer.addRows H w.abs rows).schema ∧
    (Writer32.addRows H w rows).vals = (Writer.addRows H w.abs rows).vals := by
  rcases List.eq_nil_or_concat rows with rfl | ⟨init, r, rfl⟩
  · exact ⟨rfl, rfl⟩
  · simp only [List.concat_eq_append, List.length_append, List.length_cons, List.length_nil] at h
    rw [List.concat_eq_append, addRows32_snoc, addRows_snoc, ← addRows32_abs H w init (by omega)]
    exact addRow32_schema_vals H _ r

/-- the ids returned by the successive `AddRow` calls, as numbers, are those of the unbounded model -/
theorem addRowsIds32_toNat (w : Writer32) (rows : List Row) (h : w.next.toNat + rows.length ≤ 2 ^ 32) :
    (Writer32.addRowsIds H w rows).map (·.toNat) = Writer.addRowsIds H w.abs rows := by
  induction rows generalizing w with
  | nil => rfl
  | cons r rs ih =>
    simp only [Writer32.addRowsIds, Writer.addRowsIds, List.map_cons, addRow32_id]
    congr 1
    cases rs with
    | nil => rfl
    | cons r2 rs2 =>
      simp only [List.length_cons] at h
      have h1 : w.next.toNat + 1 < 2 ^ 32 := by omega
      rw [← addRow32_abs H w r h1]
      apply ih
      rw [addRow32_next, toNat_succ32_of_lt _ h1]
      simp only [List.length_cons]
      omega

/-! ### big writer -/

def BigWriter32.abs (w : BigWriter32) : BigWriter := { schema := w.schema, temp := w.temp, next := w.next.toNat }

theorem bigFold32_abs (id : UInt32) (r : Row) (w : BigWriter32) :
    (r.foldl (BigWriter32.addPair H id) w).abs = r.foldl (BigWriter.addPair H id.toNat) w.abs := by
  induction r generalizing w with
  | nil => rfl
  | cons kv r ih => simp only [List.foldl]; rw [ih]; rfl

theorem bigAddRow32_schema_temp (w : BigWriter32) (r : Row) :
    (BigWriter32.addRow H w r).1.schema = (BigWriter.addRow H w.abs r).schema ∧
    (BigWriter32.addRow H w r).1.temp = (BigWriter.addRow H w.abs r).temp := by
  have h := bigFold32_abs H w.next r w
  simp only [BigWriter32.addRow, BigWriter.addRow]
  exact ⟨congrArg BigWriter.schema h, congrArg BigWriter.temp h⟩

theorem bigAddRow32_next (w : BigWriter32) (r : Row) : (BigWriter32.addRow H w r).1.next = w.next + 1 := rfl
theorem bigAddRow32_id (w : BigWriter32) (r : Row) : (BigWriter32.addRow H w r).2 = w.next := rfl

theorem bigAddRow32_abs (w : BigWriter32) (r : Row) (h : w.next.toNat + 1 < 2 ^ 32) :
    (BigWriter32.addRow H w r).1.abs = BigWriter.addRow H w.abs r := by
  obtain ⟨h1, h2⟩ := bigAddRow32_schema_temp H w r
  have h3 : (BigWriter32.addRow H w r).1.next.toNat = (BigWriter.addRow H w.abs r).next := by
    rw [bigAddRow32_next, toNat_succ32_of_lt _ h]; rfl
  show BigWriter.mk _ _ _ = _
  rw [h1, h2, h3]

theorem bigAddRows32_cons (w : BigWriter32) (r : Row) (rs : List Row) :
    BigWriter32.addRows H w (r :: rs) = BigWriter32.addRows H (BigWriter32.addRow H w r).1 rs := rfl

theorem bigAddRows_cons (w : BigWriter) (r : Row) (rs : List Row) :
    BigWriter.addRows H w (r :: rs) = BigWriter.addRows H (BigWriter.addRow H w r) rs := rfl

theorem bigAddRows32_next (w : BigWriter32) (rows : List Row) :
    (BigWriter32.addRows H w rows).next.toNat = (w.next.toNat + rows.length) % 4294967296 := by
  induction rows generalizing w with
  | nil =>
    have := w.next.toNat_lt
    simp only [BigWriter32.addRows, List.foldl, List.length_nil, Nat.add_zero]
    omega
  | cons r rs ih =>
    rw [bigAddRows32_cons, ih, bigAddRow32_next, toNat_succ32, List.length_cons]
    omega

theorem bigAddRows32_abs (w : BigWriter32) (rows : List Row) (h : w.next.toNat + rows.length < 2 ^ 32) :
    (BigWriter32.addRows H w rows).abs = BigWriter.addRows H w.abs rows := by
  induction rows generalizing w with
  | nil => rfl
  | cons r rs ih =>
    simp only [List.length_cons] at h
    have h1 : w.next.toNat + 1 < 2 ^ 32 := by omega
    rw [bigAddRows32_cons, bigAddRows_cons, ← bigAddRow32_abs H w r h1]
    apply ih
    rw [bigAddRow32_next, toNat_succ32_of_lt _ h1]
    omega

theorem bigAddRows32_snoc (w : BigWriter32) (rows : List Row) (r : Row) :
    BigWriter32.addRows H w (rows ++ [r]) = (BigWriter32.addRow H (BigWriter32.addRows H w rows) r).1 := by
  simp [BigWriter32.addRows, List.foldl_append]

theorem bigAddRows_snoc (w : BigWriter) (rows : List Row) (r : Row) :
    BigWriter.addRows H w (rows ++ [r]) = BigWriter.addRow H (BigWriter.addRows H w rows) r := by
  simp [BigWriter.addRows, List.foldl_append]

theorem bigAddRows32_schema_temp (w : BigWriter32) (rows : List Row) (h : w.next.toNat + rows.length ≤ 2 ^ 32) :
    (BigWriter32.addRows H w rows).schema = (BigWriter.addRows H w.abs rows).schema ∧
    (BigWriter32.addRows H w rows).temp = (BigWriter.addRows H w.abs rows).temp := by
  rcases List.eq_nil_or_concat rows with rfl | ⟨init, r, rfl⟩
  · exact ⟨rfl, rfl⟩
  · simp only [List.concat_eq_append, List.length_append, List.length_cons, List.length_nil] at h
    rw [List.concat_eq_append, bigAddRows32_snoc, bigAddRows_snoc, ← bigAddRows32_abs H w init (by omega)]
    exact bigAddRow32_schema_temp H _ r

theorem bigAddRowsIds32_toNat (w : BigWriter32) (rows : List Row) (h : w.next.toNat + rows.length ≤ 2 ^ 32) :
    (BigWriter32.addRowsIds H w rows).map (·.toNat) = BigWriter.addRowsIds H w.abs rows := by
  induction rows generalizing w with
  | nil => rfl
  | cons r rs ih =>
    simp only [BigWriter32.addRowsIds, BigWriter.addRowsIds, List.map_cons, bigAddRow32_id]
    congr 1
    cases rs with
    | nil => rfl
    | cons r2 rs2 =>
      simp only [List.length_cons] at h
      have h1 : w.next.toNat + 1 < 2 ^ 32 := by omega
      rw [← bigAddRow32_abs H w r h1]
      apply ih
      rw [bigAddRow32_next, toNat_succ32_of_lt _ h1]
      simp only [List.length_cons]
      omega

end

/-! ### `NOT` over an empty universe -/

theorem flip_zero (b : Nat) : flip 0 b = b := by simp [flip]

end Updog
