/-
The generated `bigIndexWriterAddRow` (writer_big.go) against the TRANSACTION model `addRowTx` (Model/BigWriterTx.lean):
besides what `GenBigT3.lean` shows (schema, the bucket the writer sees, the counter), the generated call commits the
temporary database exactly when the model does, and what is then committed in the bolt model is the model's committed
bucket.  The proof follows `GenBigT3.lean` step by step and additionally tracks `bolt.committed` and `bolt.commits`.
-/
import Updog.Proofs.GenBigT3
import Updog.Proofs.C18Big
set_option linter.unusedSimpArgs false
namespace Updog.GeneratedEq
open Updog.Go.T3

/-- Go's `rowID > 0 && rowID%1000 == 0` on `uint32` is the model's test on the id as a natural number -/
theorem commitCond_eq (x : UInt32) :
    ((decide (x > (0 : UInt32))) && ((x % (1000 : UInt32)) == (0 : UInt32))) = commitsAt x.toNat := by
  have h1 : (x > (0 : UInt32)) ↔ x.toNat > 0 := by
    show (0 : UInt32) < x ↔ _
    rw [UInt32.lt_iff_toNat_lt]; rfl
  have h2 : ((x % (1000 : UInt32)) == (0 : UInt32)) = (x.toNat % 1000 == 0) := by
    rw [Bool.eq_iff_iff, beq_iff_eq, beq_iff_eq, ← UInt32.toNat_inj, UInt32.toNat_mod]
    rfl
  unfold commitsAt
  rw [h2, decide_eq_decide.mpr h1]

section
variable (H : Bytes → UInt64)

/-- `big_step` of `GenBigT3.lean`, also recording that a `Put` leaves the committed buckets alone -/
theorem big_step_tx (values : List (Bytes × Bytes)) (rowID : UInt32) (bolt : Bolt) (hp : Heap) (idx : BigIndexWriter)
    (d : BucketData) (kv : Bytes × Bytes) (hr : BigReady bolt idx d) (wf : SchemaWF H hp idx.schema)
    (hh : idx.mtx.held = true) :
    ∃ bolt' hp' idx' d', Gen.bigIndexWriterAddRow_loop1 H values rowID (bolt, hp, idx) kv = .next (bolt', hp', idx') ∧
      BigReady bolt' idx' d' ∧ SchemaWF H hp' idx'.schema ∧
      schemaValue hp' idx'.schema = Schema.add (schemaValue hp idx.schema) kv.1 kv.2 (H (encodePair kv.1 kv.2)) ∧
      (∀ k, k ∈ d'.map (·.1) ↔ k = tempKey (H (encodePair kv.1 kv.2)).toNat rowID.toNat ∨ k ∈ d.map (·.1)) ∧
      idx'.nextRowID = idx.nextRowID ∧ idx'.mtx = idx.mtx ∧ idx'.tempTx = idx.tempTx ∧ idx'.tempDB = idx.tempDB ∧
      bolt'.id = bolt.id ∧ bolt'.commits = bolt.commits ∧ bolt'.committed = bolt.committed := by
  obtain ⟨h1, h2, t, h3, h4, h5, h6⟩ := hr
  obtain ⟨bid, bclosed, bcommitted, btx, bnext, bcommits⟩ := bolt
  obtain ⟨tid, twr, tbuckets, tlog⟩ := t
  obtain ⟨imtx, isch, idb, itempDB, itempTx, inext⟩ := idx
  simp only at h1 h2 h3 h4 h5 h6 wf hh
  subst h1 h2 h3 h4 h5
  obtain ⟨s1, s2, s3, s4⟩ := schemaAdd_spec H hp isch kv.1 kv.2 wf
  have hd : ([116, 101, 109, 112] : Bytes) = tempName := rfl
  unfold Gen.bigIndexWriterAddRow_loop1
  simp only [mutexTouch_of_held _ hh]
  generalize Gen.schemaAdd H hp isch kv.1 kv.2 = r at s1 s2 s3 s4 ⊢
  obtain ⟨rhp, rsch, rval⟩ := r
  simp only at s1 s2 s3 s4
  subst s2
  simp only [tempKey_bytes, hd, txBucket_mk, h6, Option.isSome_some, if_true,
    bucketPut_mk _ _ _ _ _ _ _ _ _ _ d h6 (tempKey_nonempty _ _), isErr_none, Bool.false_eq_true, if_false]
  refine ⟨_, _, _, _, rfl, ⟨rfl, rfl, _, rfl, rfl, rfl, bucketsGet_set_same _ _ _⟩, s3, s1, ?_, rfl, rfl, rfl, rfl, rfl, rfl, rfl⟩
  intro k
  exact dataPut_keys d _ _ k

/-- loop invariant: that of `GenBigT3.lean`, and the committed buckets are untouched -/
def BigInvTx (idx0 : BigIndexWriter) (b0 : Bolt) (rowID : UInt32) (w : BigWriter) (done : List (Bytes × Bytes)) (st : BigSt) : Prop :=
  BigInv H idx0 b0 rowID w done st ∧ st.1.committed = b0.committed

theorem big_loop_tx (values rng : List (Bytes × Bytes)) (rowID : UInt32) (bolt : Bolt) (hp : Heap) (idx : BigIndexWriter)
    (w : BigWriter) (h0 : BigInv H idx bolt rowID w [] (bolt, hp, idx)) :
    ∃ st', forRange rng (bolt, hp, idx) (Gen.bigIndexWriterAddRow_loop1 H values rowID) = .next st' ∧
      BigInvTx H idx bolt rowID w rng st' := by
  apply forRange_next (BigInvTx H idx bolt rowID w) _ rng _ ⟨h0, rfl⟩
  intro done x st inv
  obtain ⟨b, h, ix⟩ := st
  obtain ⟨⟨d, i1, i2, i3, i4, i5, ih, i6, i7, i8, i9⟩, i10⟩ := inv
  obtain ⟨b', h', ix', d', e, j1, j2, j3, j4, j5, j6, j7, j8, j9, j10, j11⟩ := big_step_tx H values rowID b h ix d x i1 i2
    (by simp only at i5; rw [i5]; exact ih)
  refine ⟨(b', h', ix'), e, ⟨d', j1, j2, ?_, j5.trans i4, j6.trans i5, ih, j7.trans i6, j8.trans i7, j9.trans i8, j10.trans i9⟩,
    j11.trans i10⟩
  rw [List.foldl_append]
  simp only [List.foldl_cons, List.foldl_nil, BigWriter.addPair, BigRel]
  refine ⟨?_, ?_⟩
  · rw [j3, i3.1]
  · intro k
    rw [j4 k, insertKey_mem, i3.2 k]

/-- The Go state stands for the transaction model's state `st`: the bucket the writer's transaction sees is
    `committed ∪ pending` (`BigRel … st.toBig`), the bucket `temp` COMMITTED in the database holds exactly `st.committed`,
    and the database has performed `c0 + st.commits` commits (`c0` = those before the first `AddRow`: the `Update` of
    `NewBigIndexWriter`). -/
def TxRel (bolt : Bolt) (hp : Heap) (idx : BigIndexWriter) (d : BucketData) (c0 : Nat) (st : BigWriterTx) : Prop :=
  BigRel hp idx d st.toBig ∧
  (∃ dc, bucketsGet bolt.committed tempName = some dc ∧ ∀ k, k ∈ dc.map (·.1) ↔ k ∈ st.committed) ∧
  bolt.commits.length = c0 + st.commits

theorem bigIndexWriterAddRow_tx_spec (bolt : Bolt) (hp : Heap) (idx : BigIndexWriter) (values : List (Bytes × Bytes))
    (d : BucketData) (c0 : Nat) (st : BigWriterTx) (hr : BigReady bolt idx d) (wf : SchemaWF H hp idx.schema)
    (rel : TxRel bolt hp idx d c0 st)
    (hnext : idx.nextRowID.toNat = st.next) (hroom : idx.nextRowID.toNat + 1 < 2 ^ 32)
    (r : Bolt × Heap × BigIndexWriter × UInt32 × Error) (hres : Gen.bigIndexWriterAddRow H bolt hp idx values = r) :
    r.2.2.2 = (idx.nextRowID, nilError) ∧ idx.nextRowID.toNat = (addRowTx H st values).1 ∧
    ∃ d', BigReady r.1 r.2.2.1 d' ∧ SchemaWF H r.2.1 r.2.2.1.schema ∧
      TxRel r.1 r.2.1 r.2.2.1 d' c0 (addRowTx H st values).2 ∧
      r.2.2.1.nextRowID.toNat = (addRowTx H st values).2.next ∧
      (idx.mtx = {} → r.2.2.1.mtx = {}) := by
  obtain ⟨rel1, ⟨dc, rel2, rel3⟩, rel4⟩ := rel
  have h0 : BigInv H { idx with mtx := mutexLock idx.mtx } bolt idx.nextRowID st.toBig [] (bolt, hp, { idx with mtx := mutexLock idx.mtx }) :=
    ⟨d, hr, wf, rel1, rfl, rfl, mutexLock_held _, rfl, rfl, rfl, rfl⟩
  obtain ⟨st', e, inv, icomm⟩ := big_loop_tx H values values idx.nextRowID bolt hp { idx with mtx := mutexLock idx.mtx } st.toBig h0
  unfold Gen.bigIndexWriterAddRow at hres
  simp only [mutexTouch_mutexLock, e] at hres
  obtain ⟨b', h', ix'⟩ := st'
  obtain ⟨d', ⟨k1, k2, t, k3, k4, k5, k6⟩, i2, i3, i4, i5, ih, i6, i7, i8, i9⟩ := inv
  simp only at k1 k2 k3 k4 k5 k6 i2 i3 i4 i5 i6 i7 i8 i9 icomm
  have htouch : mutexTouch ix'.mtx = ix'.mtx := by rw [i5]; exact mutexTouch_mutexLock _
  simp only [htouch] at hres
  have hnx : (ix'.nextRowID + 1).toNat = st.next + 1 := by
    rw [i4, UInt32.toNat_add, ← hnext]
    exact Nat.mod_eq_of_lt hroom
  have hmtx : idx.mtx = {} → mutexUnlock ix'.mtx = {} := by
    intro hm; rw [i5, hm]; rfl
  have hrel : BigRel h' ix' d' (addRowTx H st values).2.toBig := by
    rw [toBig_addRowTx]
    simp only [BigWriter.addRow]
    have : st.toBig.next = idx.nextRowID.toNat := hnext.symm
    rw [this]
    exact i3
  have hcond := commitCond_eq idx.nextRowID
  rw [hnext] at hcond
  by_cases hc : commitsAt st.next = true
  · -- every 1000 rows: commit the temp transaction and begin a new one
    obtain ⟨c1, _, c3⟩ := addRowTx_commit H st values hc
    rw [hc] at hcond
    obtain ⟨bid, bclosed, bcommitted, btx, bnext, bcommits⟩ := b'
    obtain ⟨tid, twr, tbuckets, tlog⟩ := t
    obtain ⟨imtx, isch, idb, itempDB, itempTx, inext⟩ := ix'
    simp only at k1 k2 k3 k4 k5 k6 i2 i3 i4 i5 i6 i7 i8 i9 hnx hmtx hrel htouch hres icomm
    subst k1 k2 k3 k4 k5
    simp only [hcond, if_true, txCommit_mk, isErr_none, Bool.false_eq_true, if_false, verifPoint, dbBegin_mk] at hres
    subst hres
    refine ⟨rfl, hnext, d', ⟨rfl, rfl, _, rfl, rfl, rfl, k6⟩, i2, ⟨hrel, ⟨d', k6, ?_⟩, ?_⟩, hnx, hmtx⟩
    · intro k
      rw [c1, hrel.2 k, toBig_addRowTx]
    · show (bcommits ++ [tlog]).length = _
      rw [c3, List.length_append, List.length_singleton, i9, rel4]
      omega
  · have hc' : commitsAt st.next = false := by simpa using hc
    obtain ⟨c1, c2⟩ := addRowTx_no_commit H st values hc'
    rw [hc'] at hcond
    simp only [hcond, Bool.false_eq_true, if_false] at hres
    subst hres
    refine ⟨rfl, hnext, d', ⟨k1, k2, t, k3, k4, k5, k6⟩, i2, ⟨hrel, ⟨dc, ?_, ?_⟩, ?_⟩, hnx, hmtx⟩
    · show bucketsGet b'.committed tempName = some dc
      rw [icomm]; exact rel2
    · intro k; rw [c1]; exact rel3 k
    · show b'.commits.length = _
      rw [c2, i9]; exact rel4

end
end Updog.GeneratedEq
