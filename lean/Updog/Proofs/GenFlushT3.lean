/-
The generated `writeToBoltDatabase` against the model's `writeTxs` (Model/BigWriter.lean): loop invariant and the
rendering of the model's abstract `Put`s as the bytes the Go code hands to bbolt.
-/
import Updog.GeneratedFns
import Updog.Proofs.GoPreludeT3
import Updog.Model.BigWriter
namespace Updog.GeneratedEq
open Updog.Go.T3

/-- the bucket name `[]byte("data")` -/
def dataName : Bytes := [100, 97, 116, 97]

/-- how `WriteToBoltDatabase` lays out one model-level `Put` in the file: bucket `data`;
    `'V' ‖ big-endian 8-byte value index ↦ bitmap.ToBytes()`, `'S' ↦ gob(schema)`, `'I' ↦ big-endian 4-byte counter` -/
def renderPut (X : Ext) : BoltPut → PutRec
  | .val k b => (dataName, 86 :: be64 k.toNat, X.roaringToBytes b)
  | .schema s => (dataName, [83], X.gobEncode s)
  | .counter n => (dataName, [73], be32 n)

def renderTx (X : Ext) (tx : Tx) : List PutRec := tx.map (renderPut X)

theorem putU64_full (k : UInt64) : bePutUint64 (zeroBytes 8) 0 (Go.len (zeroBytes 8)) k = be64 k.toNat := by
  simp [bePutUint64, zeroBytes, Go.len, blit, be8, be4, be64, be32]

theorem putU32_full (k : UInt32) : bePutUint32 (zeroBytes 4) 0 (Go.len (zeroBytes 4)) k = be32 k.toNat := by
  simp [bePutUint32, zeroBytes, Go.len, blit, be4, be32]

theorem intMod_succ (n : Nat) : (intMod ((n : Int) + 1) 1000 == 0) = ((n + 1) % 1000 == 0) := by
  have h : intMod ((n : Int) + 1) 1000 = (((n + 1) % 1000 : Nat) : Int) := by
    unfold intMod
    rw [Int.tmod_eq_emod_of_nonneg (by omega)]
    omega
  rw [h]
  cases hk : (n + 1) % 1000 with
  | zero => rfl
  | succ m =>
    have h1 : (((m + 1 : Nat) : Int) == 0) = false := by
      have : ¬ ((m + 1 : Nat) : Int) = 0 := by omega
      simpa using this
    rw [h1]
    rfl

/-- loop state of the generated code -/
abbrev FlushSt := Bolt × IndexWriter × TxRef × BucketRef × Int

/-- invariant of the loop over `idx.values`: the model's `BatchState` after the pairs `done`, against the open
    transaction, the committed log and the counter `i` -/
def FlushInv (X : Ext) (hp : Heap) (db : DBRef) (c0 : List (List PutRec)) (idx0 : IndexWriter)
    (done : List (UInt64 × Ptr)) (st : FlushSt) : Prop :=
  ∃ t : TxState,
    st.1.tx = some t ∧ st.1.closed = false ∧ db = some st.1.id ∧ t.writable = true ∧
    (∃ d, bucketsGet t.buckets dataName = some d) ∧
    st.2.2.1 = some t.id ∧ st.2.2.2.1 = some (t.id, dataName) ∧
    t.log = renderTx X ((absVals hp done).foldl (batchStep 1000) {}).cur ∧
    st.1.commits = c0 ++ ((absVals hp done).foldl (batchStep 1000) {}).done.map (renderTx X) ∧
    st.2.2.2.2 = (((absVals hp done).foldl (batchStep 1000) {}).i : Int) ∧
    st.2.1 = idx0

theorem flush_step (X : Ext) (hp : Heap) (db : DBRef) (err : Error) (buf : Bytes) (c0 : List (List PutRec))
    (idx0 : IndexWriter) (done : List (UInt64 × Ptr)) (x : UInt64 × Ptr) (st : FlushSt)
    (inv : FlushInv X hp db c0 idx0 done st) :
    ∃ st', Gen.writeToBoltDatabase_loop1 X hp db err buf st x = .next st' ∧ FlushInv X hp db c0 idx0 (done ++ [x]) st' := by
  obtain ⟨bolt, idx, tx, bucket, i⟩ := st
  obtain ⟨t, h1, h2, h3, h4, ⟨d, h5⟩, h6, h7, h8, h9, h10, h11⟩ := inv
  obtain ⟨bid, bclosed, bcommitted, btx, bnext, bcommits⟩ := bolt
  obtain ⟨tid, twr, tbuckets, tlog⟩ := t
  simp only at h1 h2 h3 h4 h5 h6 h7 h8 h9 h10 h11
  subst h1 h2 h3 h4 h6 h7 h11 h10
  generalize hms : (absVals hp done).foldl (batchStep 1000) {} = ms at h8 h9
  have hms' : (absVals hp (done ++ [x])).foldl (batchStep 1000) {} = batchStep 1000 ms (x.1, bitmapAt hp x.2) := by
    rw [absVals_append, List.foldl_append, hms]; rfl
  have hd : ([100, 97, 116, 97] : Bytes) = dataName := rfl
  have hk : (Gen.keyPrefixValue ++ be64 x.1.toNat).isEmpty = false := rfl
  unfold FlushInv
  rw [hms']
  unfold Gen.writeToBoltDatabase_loop1
  simp only [putU64_full, bitmapToBytes, isErr_none, Bool.false_eq_true, if_false, hd,
    bucketPut_mk _ _ _ _ _ _ _ _ _ _ d h5 hk, intMod_succ]
  by_cases hb : ((ms.i + 1) % 1000 == 0) = true
  · -- the batch is full: commit, begin a new transaction, look the bucket up again
    simp only [hb, if_true, txCommit_mk, isErr_none, Bool.false_eq_true, if_false, verifPoint, dbBegin_mk, txBucket_mk,
      bucketsGet_set_isSome]
    refine ⟨_, rfl, _, rfl, rfl, rfl, rfl, ⟨_, bucketsGet_set_same _ _ _⟩, rfl, rfl, ?_, ?_, ?_, rfl⟩
    · simp [batchStep, hb, renderTx]
    · simp only [batchStep, hb, if_true, h9, h8, List.map_append, List.append_assoc, renderTx, List.map_cons,
        List.map_nil, renderPut]
      rfl
    · simp [batchStep, hb]
  · have hb' : ((ms.i + 1) % 1000 == 0) = false := by simpa using hb
    simp only [hb', Bool.false_eq_true, if_false]
    refine ⟨_, rfl, _, rfl, rfl, rfl, rfl, ⟨_, bucketsGet_set_same _ _ _⟩, rfl, rfl, ?_, ?_, ?_, rfl⟩
    · simp only [batchStep, hb', Bool.false_eq_true, if_false, h8, renderTx, List.map_append, List.map_cons, List.map_nil,
        renderPut]
      rfl
    · simp only [batchStep, hb', Bool.false_eq_true, if_false, h9]
    · simp [batchStep, hb']

theorem flush_loop (X : Ext) (hp : Heap) (db : DBRef) (err : Error) (buf : Bytes) (c0 : List (List PutRec))
    (idx0 : IndexWriter) (rng : List (UInt64 × Ptr)) (init : FlushSt) (h0 : FlushInv X hp db c0 idx0 [] init) :
    ∃ st', forRange rng init (Gen.writeToBoltDatabase_loop1 X hp db err buf) = .next st' ∧
      FlushInv X hp db c0 idx0 rng st' :=
  forRange_next (FlushInv X hp db c0 idx0) _ rng init h0
    (fun done x a h => flush_step X hp db err buf c0 idx0 done x a h)

theorem writeToBoltDatabase_spec (X : Ext) (rng : List (UInt64 × Ptr)) (bolt : Bolt) (hp : Heap) (idx : IndexWriter)
    (db : DBRef) (hdb : db = some bolt.id) (hopen : bolt.closed = false) (hnotx : bolt.tx = none)
    (r : Bolt × Heap × IndexWriter × Error) (hr : Gen.writeToBoltDatabase X rng bolt hp idx db = r) :
    r.2.2.2 = none ∧
    r.1.commits
      = bolt.commits ++ (writeTxs (schemaValue hp idx.schema) idx.nextRowID.toNat (absVals hp rng) 1000).map (renderTx X) ∧
    r.1.tx = none ∧ r.1.closed = false ∧ r.1.id = bolt.id ∧ r.2.1 = hp ∧
    r.2.2.1 = { idx with mtx := mutexUnlock (mutexLock idx.mtx) } := by
  obtain ⟨bid, bclosed, bcommitted, btx, bnext, bcommits⟩ := bolt
  simp only at hdb hopen hnotx
  subst hdb hopen hnotx
  have hd : ([100, 97, 116, 97] : Bytes) = dataName := rfl
  unfold Gen.writeToBoltDatabase at hr
  simp only [dbBegin_mk, isErr_none, Bool.false_eq_true, if_false, optimize, gobEncode, hd,
    txCreateBucket_mk _ _ _ _ _ _ _ dataName rfl, List.nil_append, mutexTouch_mutexLock] at hr
  have h0 : FlushInv X hp (some bid) bcommits { idx with mtx := mutexLock idx.mtx } []
      ({ id := bid, committed := bcommitted,
          tx := some { id := bnext, writable := true,
                       buckets := if (bucketsGet bcommitted dataName).isSome = true then bcommitted
                                  else bucketsSet bcommitted dataName [] },
          nextTx := bnext + 1, commits := bcommits },
        { idx with mtx := mutexLock idx.mtx }, some bnext, some (bnext, dataName), 0) := by
    refine ⟨_, rfl, rfl, rfl, rfl, ?_, rfl, rfl, rfl, by simp [absVals], rfl, rfl⟩
    cases h : bucketsGet bcommitted dataName with
    | none => exact ⟨[], by simp [bucketsGet_set_same]⟩
    | some d => exact ⟨d, by simp [h]⟩
  obtain ⟨st', e, inv⟩ := flush_loop X hp (some bid) none (X.gobEncode (schemaValue hp idx.schema)) bcommits _ rng _ h0
  rw [e] at hr
  obtain ⟨bolt', idx', tx', bucket', i'⟩ := st'
  obtain ⟨t, h1, h2, h3, h4, ⟨d, h5⟩, h6, h7, h8, h9, h10, h11⟩ := inv
  obtain ⟨bid', bclosed', bcommitted', btx', bnext', bcommits'⟩ := bolt'
  obtain ⟨tid, twr, tbuckets, tlog⟩ := t
  simp only at h1 h2 h3 h4 h5 h6 h7 h8 h9 h10 h11
  subst h1 h2 h4 h6 h7 h11 h10
  injection h3 with h3
  subst h3
  have hk1 : Gen.keySchema.isEmpty = false := rfl
  have hk2 : Gen.keyNextRowID.isEmpty = false := rfl
  simp only [bucketPut_mk _ _ _ _ _ _ _ _ _ _ d h5 hk1,
    bucketPut_mk _ _ _ _ _ _ _ _ _ _ _ (bucketsGet_set_same _ _ _) hk2, isErr_none, Bool.false_eq_true, if_false,
    txCommit_mk, verifPoint, putU32_full, mutexTouch_mutexLock] at hr
  subst hr
  refine ⟨rfl, ?_, rfl, rfl, rfl, rfl, rfl⟩
  simp only [h9, h8, writeTxs, List.map_append, List.append_assoc, renderTx, List.map_cons, List.map_nil, renderPut]
  rfl

/-- a toy instance of the external coders, for the examples -/
def toyExt : Ext where
  roaringToBytes b := be32 b
  roaringFromBuffer bs := if bs.length = 4 then some (beDecode bs) else none
  gobEncode s := [s.length.toUInt8]
  gobDecode bs := if bs.length = 1 then some [] else none

end Updog.GeneratedEq
