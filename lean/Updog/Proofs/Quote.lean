/-
Quoting of values: `quoteValue` doubles quotes, `unescape` undoes it, and the lexer's `scanStr`
consumes exactly the quoted text.
-/
import Updog.Model.Formatter
namespace Updog

/-- the text `quoteValue` puts between the outer quotes -/
def escape (v : Bytes) : Bytes := v.flatMap fun c => if c == 34 then [34, 34] else [c]

theorem quoteValue_eq (v : Bytes) : quoteValue v = 34 :: escape v ++ [34] := rfl

@[simp] theorem escape_nil : escape [] = [] := rfl

theorem escape_cons_quote (v : Bytes) : escape (34 :: v) = 34 :: 34 :: escape v := rfl

theorem escape_cons_other {c : UInt8} (h : c ≠ 34) (v : Bytes) : escape (c :: v) = c :: escape v := by
  simp [escape, h]

theorem unescape_escape (v : Bytes) : unescape (escape v) = v := by
  induction v with
  | nil => simp [unescape]
  | cons c v ih =>
    by_cases h : c = 34
    · subst h; rw [escape_cons_quote, unescape, ih]
    · rw [escape_cons_other h, unescape.eq_2 _ _ (fun _ hc _ => h hc), ih]

/-- scanning the escaped body followed by the closing quote stops exactly there, provided the next
    byte is not another quote -/
theorem scanStr_escape (v rest : Bytes) (hrest : ∀ r, rest ≠ 34 :: r) :
    scanStr (escape v ++ 34 :: rest) = some (escape v, rest) := by
  induction v with
  | nil =>
    simp only [escape_nil, List.nil_append]
    exact scanStr.eq_3 _ (fun r hr => hrest r hr)
  | cons c v ih =>
    by_cases h : c = 34
    · subst h; rw [escape_cons_quote]; simp only [List.cons_append]; rw [scanStr, ih]; rfl
    · rw [escape_cons_other h]; simp only [List.cons_append]
      rw [scanStr.eq_4 _ _ (fun _ hc _ => h hc) h, ih]; rfl

end Updog
