/-
Helper lemmas for `Updog/Props/Gen/Compose.lean`: the per-function equivalences of `Updog/Props/Gen/*.lean`
composed with each other. Nothing here discharges a refinement hypothesis with a model-built instance: the getters are
`Gen.onDemandGetCol` / `Gen.preloadedGetCol`, the group-by functions `Gen.Query_populateGroupBy` / `Gen.Query_groupBy`,
the expression knots are tied over the generated method bodies, the file is the one `Gen.indexWriterAddRow` +
`Gen.writeToBoltDatabase` leave behind, the index the one `Gen.openIndexFromBoltDatabase` returns.

 1. the generated getters as query.go sees them (`GetColRefines`)      8. the file after the generated flush (content)
 2. the generated group-by functions (`GroupByRefinesBelow`)            9. generated `AddRow`* + flush: `HoldsWriter`
 3. `Gen.execute` over an arbitrary node type (`execute_view`)         10. the written file queried
 4. `eval` / `cacheKey` / `validateExpr` knots over `Go.Lib.Expression` 11. `Execute` as `(*Result, error)` (server, driver)
 5. the index the generated open returns (`open_ok`, `genIndexEnv`)    12. histories; the generated null cache
 6. `genExecute` = `executeC`                                          13. deciding parser results
 7. files that hold a written index (`HoldsWriter`)                    14. remarks on `Gen.Query_groupBy`
-/
import Updog.Props.Gen.Eval
import Updog.Props.Gen.Open
import Updog.Props.Gen.GroupBy
import Updog.Props.Gen.Lru
import Updog.Props.C01Getters
import Updog.Props.C03
import Updog.Props.Gen.ServerLoop
import Updog.Props.Gen.Walk
import Updog.Props.Gen.ParseQuery
import Updog.Props.Gen.Writer
import Updog.Props.EndToEnd

set_option linter.unusedSimpArgs false
set_option linter.unusedVariables false
namespace Updog.GeneratedEq
open Updog.Go.T3

/-! ### 1. what query.go sees of the generated getters -/

/-- Go's `(*roaring.Bitmap, error)` as query.go's translation reads it (`Go.IndexEnv.getCol`): the bitmap behind the
    pointer (`none` = nil) and whether the error is non-nil -/
def goAnswer (hp : Heap) (p : Ptr) (err : Error) : Option Nat × Bool :=
  (p.map fun a => hp.bitmaps.getD a 0, isErr err)

theorem answerOf_goAnswer (hp : Heap) (p : Ptr) (err : Error) :
    answerOf hp p err = if (goAnswer hp p err).2 then .error () else .ok (goAnswer hp p err).1 := rfl

/-- `idx.values.GetCol(key)` when `idx.values` is the on-demand getter `g` over the database `bolt` -/
def genOnDemandGetter (X : Ext) (bolt : Bolt) (hp : Heap) (g : OnDemandColGetter) (key : UInt64) : Option Nat × Bool :=
  let r := Gen.onDemandGetCol X bolt hp g key
  goAnswer r.2.1 r.2.2.1 r.2.2.2

/-- `idx.values.GetCol(key)` when `idx.values` is the preloaded getter `cg` (its bitmaps live in `hp`) -/
def genPreloadedGetter (hp : Heap) (cg : PreloadedColGetter) (key : UInt64) : Option Nat × Bool :=
  goAnswer hp (Gen.preloadedGetCol cg key).1 (Gen.preloadedGetCol cg key).2

/-- dynamic dispatch of `idx.values.GetCol` over the two implementations (a nil interface: Go panics; here an error) -/
def genGetCol (X : Ext) (bolt : Bolt) (hp : Heap) : ColGetter → UInt64 → Option Nat × Bool
  | .onDemand g => genOnDemandGetter X bolt hp g
  | .preloaded cg => genPreloadedGetter hp cg
  | .nil => fun _ => (none, true)

/-- the model index a bbolt bucket `data` stands for, given the decoded schema and counter -/
def fileIndex (X : Ext) (d : BucketData) (s : SchemaVal) (next : UInt32) : Updog.Index :=
  (imageOfData X d).toIndex s next.toNat

theorem fileIndex_next_lt (X : Ext) (d : BucketData) (s : SchemaVal) (next : UInt32) :
    (fileIndex X d s next).next < 2 ^ 32 := next.toNat_lt

/-- a getter whose answers are the on-demand model's refines the index over the image -/
theorem refines_of_onDemandAnswer (g : UInt64 → Option Nat × Bool) (img : Image) (s : Schema) (n : Nat)
    (h : ∀ k, (if (g k).2 then Except.error () else Except.ok (g k).1 : GetColAnswer) = onDemandAnswer img k) :
    GetColRefines g (img.toIndex s n) := by
  intro k
  have hk := h k
  simp only [onDemandAnswer, onDemandGet, Image.toIndex] at hk ⊢
  cases hg : img.get k with
  | none =>
    rw [hg] at hk
    cases he : (g k).2 <;> simp [he, Except.map] at hk ⊢
  | some o =>
    rw [hg] at hk
    cases o with
    | none => cases he : (g k).2 <;> simp [he, Except.map] at hk ⊢
    | some b =>
      cases he : (g k).2
      · simp only [he, Except.map, Bool.false_eq_true, if_false, Except.ok.injEq] at hk
        simp [hk]
      · simp [he, Except.map] at hk

/-- a getter whose answers are the preloaded model's refines the index over the image -/
theorem refines_of_preloadedAnswer (g : UInt64 → Option Nat × Bool) (img : Image) (s : Schema) (n : Nat)
    (gf : UInt64 → Option Nat) (hgf : preloadOpen img = some gf) (hnd : img.KeysDistinct)
    (h : ∀ k, (if (g k).2 then Except.error () else Except.ok (g k).1 : GetColAnswer) = preloadedAnswer gf k) :
    GetColRefines g (img.toIndex s n) := by
  have hdec : img.AllDecodable := by
    apply Classical.byContradiction
    intro hn
    rw [(C01.preloadOpen_fails_iff img).mpr hn] at hgf
    cases hgf
  rw [C01.preloadOpen_eq img hdec hnd, Option.some.injEq] at hgf
  subst hgf
  intro k
  have hk := h k
  simp only [preloadedAnswer, Image.toIndex] at hk ⊢
  cases he : (g k).2
  · simp only [he, Bool.false_eq_true, if_false, Except.ok.injEq] at hk
    simp [hk]
  · simp [he] at hk

/-- **the generated on-demand getter refines the index of the file**, from every state of the database handle
    (transaction counter `n`, commit log `cs`) and every heap -/
theorem genOnDemandGetter_refines (X : Ext) (i n : Nat) (c : Buckets) (cs : List (List PutRec)) (hp : Heap)
    (d : BucketData) (s : SchemaVal) (next : UInt32)
    (hb : bucketsGet c dataName = some d) (wk : WellKeyed d) (hnil : X.roaringFromBuffer [] = none) :
    GetColRefines (genOnDemandGetter X (idle i n c cs) hp { db := some i }) (fileIndex X d s next) := by
  apply refines_of_onDemandAnswer
  intro k
  have := (onDemandGetCol_eq X i n c cs hp d k hb wk hnil).1
  rw [answerOf_goAnswer] at this
  exact this

/-- the database handle after a call of the on-demand getter is idle again (so the next call is covered too) -/
theorem genOnDemandGetter_idle (X : Ext) (i n : Nat) (c : Buckets) (cs : List (List PutRec)) (hp : Heap)
    (d : BucketData) (key : UInt64)
    (hb : bucketsGet c dataName = some d) (wk : WellKeyed d) (hnil : X.roaringFromBuffer [] = none) :
    (Gen.onDemandGetCol X (idle i n c cs) hp { db := some i } key).1 = idle i (n + 1) c cs :=
  (onDemandGetCol_eq X i n c cs hp d key hb wk hnil).2

/-! keys of the image are distinct in a sorted, well-keyed bucket -/

theorem imageOfData_keys_nodup (X : Ext) (d : BucketData) (hs : SortedData d) (wk : WellKeyed d) :
    (imageOfData X d).KeysDistinct := by
  unfold Image.KeysDistinct Image.keys imageOfData
  rw [List.map_map]
  induction d with
  | nil => simp
  | cons kv rest ih =>
    have hs' := List.pairwise_cons.mp hs
    have ih' := ih hs'.2 (fun q hq => wk q (List.mem_cons_of_mem _ hq))
    by_cases hpre : hasPrefix kv.1 [86] = true
    · simp only [List.filter_cons, hpre, if_true, List.map_cons, List.nodup_cons]
      refine ⟨?_, ih'⟩
      intro hmem
      obtain ⟨q, hq, he⟩ := List.mem_map.mp hmem
      have hq' := List.mem_filter.mp hq
      obtain ⟨h1, e1⟩ := wk kv (by simp) hpre
      obtain ⟨h2, e2⟩ := wk q (List.mem_cons_of_mem _ hq'.1) (by simpa using hq'.2)
      simp only [Function.comp, e1, e2, List.drop_succ_cons, List.drop_zero, beUint64_be64] at he
      have hlt := hs'.1 q hq'.1
      rw [e1, e2, he] at hlt
      rw [Updog.bytesLt_irrefl] at hlt
      cases hlt
    · have hpre' : hasPrefix kv.1 [86] = false := by simpa using hpre
      simp only [List.filter_cons, hpre', Bool.false_eq_true, if_false]
      exact ih'

/-- **the generated preloaded getter refines the index of the file**: when `newPreloadedColGetter` succeeds on a bucket
    in bbolt's key order whose value keys are `'V' ‖ be64`, the getter it returns answers `GetCol` like the model index -/
theorem genPreloadedGetter_refines (X : Ext) (i n : Nat) (c : Buckets) (cs : List (List PutRec)) (hp : Heap)
    (d : BucketData) (s : SchemaVal) (next : UInt32)
    (hb : bucketsGet c dataName = some d) (hs : SortedData d) (wk : WellKeyed d)
    (cg : PreloadedColGetter)
    (hcg : (Gen.newPreloadedColGetter X (idle i n c cs) hp (some i)).2.2.1 = .preloaded cg) :
    GetColRefines (genPreloadedGetter (Gen.newPreloadedColGetter X (idle i n c cs) hp (some i)).2.1 cg)
      (fileIndex X d s next) := by
  have hsp := (newPreloadedColGetter_eq X i n c cs hp d hb hs).2
  cases hpo : preloadOpen (imageOfData X d) with
  | none =>
    rw [hpo] at hsp
    rw [hcg] at hsp
    simp [ColGetter.isNil] at hsp
  | some gf =>
    rw [hpo] at hsp
    obtain ⟨_, cg', e1, e2⟩ := hsp
    rw [hcg] at e1
    injection e1 with e1
    subst e1
    refine refines_of_preloadedAnswer _ _ s next.toNat gf hpo (imageOfData_keys_nodup X d hs wk) ?_
    intro k
    have := preloadedGetCol_eq (Gen.newPreloadedColGetter X (idle i n c cs) hp (some i)).2.1 cg k
    rw [e2, answerOf_goAnswer] at this
    exact this

/-! ### 2. the generated group-by functions as the parameters of `Gen.execute` -/

/-- `q.populateGroupBy(cols, idx.schema)` as `Gen.execute` calls it: the hidden `groupByFields` afterwards, and
    whether the returned error is non-nil -/
def genPop (sch : Gen.schema) (q : List Gen.groupBy) (cols : List Bytes) : List Gen.groupBy × Bool :=
  ((Gen.Query_populateGroupBy q cols sch).2, (Gen.Query_populateGroupBy q cols sch).1.isSome)

/-- `vbm, err := idx.values.GetCol(v.Idx); if err != nil { continue }` as `Gen.Query_groupBy` reads a getter:
    an error is `none`. (A nil bitmap WITHOUT error — the preloaded getter on an absent key — is also `none` here,
    where Go's `roaring.And(rg.result, nil)` would dereference nil: see `genGroupBy_no_nil`.) -/
def errToNone (g : UInt64 → Option Nat × Bool) (k : UInt64) : Option Nat := if (g k).2 then none else (g k).1

theorem errToNone_eq {g : UInt64 → Option Nat × Bool} {ix : Updog.Index} (hg : GetColRefines g ix) :
    errToNone g = ix.getCol := by
  funext k
  have := hg k
  unfold errToNone
  cases he : (g k).2
  · rw [he] at this
    simpa using this
  · rw [he] at this
    simp only [if_true] at this ⊢
    exact this.symm

/-- `q.groupBy(result, idx)` as `Gen.execute` calls it, over the getter `g` -/
def genGrp (g : UInt64 → Option Nat × Bool) (q : List Gen.groupBy) (bm : Nat) : List Gen.ResultGroup :=
  Gen.Query_groupBy (errToNone g) q bm

/-- `GroupByRefines` of Props/Gen/Eval.lean restricted to result bitmaps whose cardinality fits the `uint64` of
    `GetCardinality` — the generated `groupBy` counts with `uint64`, the model with `Nat`, so the unrestricted
    `GroupByRefines` does not hold of the generated function (see `groupBy_eq`). -/
def GroupByRefinesBelow {κ : Type} (ix : Updog.Index) (pop : κ → List Bytes → κ × Bool)
    (grp : κ → Nat → List (Fields × Nat)) : Prop :=
  ∀ q cols, match populateGroupBy ix.schema cols with
    | none => (pop q cols).2 = true
    | some fields => (pop q cols).2 = false ∧
        ∀ bm, popcount bm < 2 ^ 64 → grp (pop q cols).1 bm = Updog.groupBy ix fields bm

theorem GroupByRefines.below {κ : Type} {ix : Updog.Index} {pop : κ → List Bytes → κ × Bool}
    {grp : κ → Nat → List (Fields × Nat)} (h : GroupByRefines ix pop grp) : GroupByRefinesBelow ix pop grp := by
  intro q cols
  have := h q cols
  cases hp : populateGroupBy ix.schema cols with
  | none => rw [hp] at this; exact this
  | some fields => rw [hp] at this; exact ⟨this.1, fun bm _ => this.2 bm⟩

/-- **the generated `populateGroupBy` + `groupBy` refine the model's**, over every getter that refines the index -/
theorem genGroupBy_refines (ix : Updog.Index) (sch : Gen.schema) (hs : schemaOf sch = ix.schema)
    (g : UInt64 → Option Nat × Bool) (hg : GetColRefines g ix) :
    GroupByRefinesBelow ix (genPop sch) (fun q bm => (genGrp g q bm).map groupOf) := by
  intro q cols
  have hp := populateGroupBy_pure q cols sch
  rw [hs] at hp
  rw [← hp]
  unfold popOut genPop
  cases he : (Gen.Query_populateGroupBy q cols sch).1 with
  | some e => simp
  | none =>
    simp only [Option.isSome_none, true_and]
    intro bm hbm
    unfold genGrp
    rw [errToNone_eq hg]
    exact groupBy_eq ix _ bm hbm

/-! ### 3. `Execute` over an arbitrary node type -/

section
variable (H : Bytes → UInt64) {σ : Type} (C : CacheImpl σ) (ix : Updog.Index) (g : UInt64 → Option Nat × Bool)

/-- `Gen.execute` on a node `x` of any type that denotes the model expression `den` (`none`: some operand is nil):
    `validateExpr` rejects exactly the trees without denotation (before anything is evaluated), and on the others
    `Execute` is the model's `executeC`; the group-by functions need to agree with the model only on results whose
    cardinality fits 64 bits. -/
theorem execute_view {ε κ : Type} (pop : κ → List Bytes → κ × Bool) (grp : κ → Nat → List (Fields × Nat))
    (hpop : GroupByRefinesBelow ix pop grp) (validate : ε → Bool) (subEval : ε → σ → σ × Option Nat)
    (x : ε) (cols : List Bytes) (den : Option Expr) (hval : validate x = den.isNone) (stale : κ) (s : σ)
    (hsub : ∀ e, den = some e → subEval x s = evalC H C ix s e)
    (hcard : ∀ e, den = some e → ∀ bm, (evalC H C ix s e).2 = some bm → popcount bm < 2 ^ 64) :
    Gen.execute (indexEnv C ix g) pop validate subEval grp x cols stale s =
      match den with
      | none => (s, none)
      | some e => ((executeC H C ix s ⟨e, cols⟩).1, (executeC H C ix s ⟨e, cols⟩).2.map fun r => (r.count, r.groups)) := by
  have hp := hpop stale cols
  simp only [Gen.execute, executeC, hval]
  cases hd : den with
  | none => cases (pop stale cols).2 <;> simp
  | some e =>
    simp only [Option.isNone_some, Bool.false_eq_true, ↓reduceIte, hsub e hd]
    have hc := hcard e hd
    cases hpg : populateGroupBy ix.schema cols with
    | none =>
      rw [hpg] at hp
      simp [hp]
    | some fields =>
      rw [hpg] at hp
      simp only [hp.1, Bool.false_eq_true, ↓reduceIte]
      generalize evalC H C ix s e = r at hc
      obtain ⟨s1, o⟩ := r
      cases o with
      | none => simp
      | some bm => simp [hp.2 bm (hc bm rfl), Go.bmCardinality_eq]

end

/-- post-processing the groups commutes with `Gen.execute` (it only passes them on) -/
theorem execute_map_groups {σ ε κ γ δ : Type} (idx : Go.IndexEnv σ) (pop : κ → List Bytes → κ × Bool)
    (v : ε → Bool) (f : ε → σ → σ × Option Nat) (grp : κ → Nat → γ) (φ : γ → δ) (x : ε) (cols : List Bytes)
    (q : κ) (s : σ) :
    Gen.execute idx pop v f (fun q bm => φ (grp q bm)) x cols q s =
      ((Gen.execute idx pop v f grp x cols q s).1,
       (Gen.execute idx pop v f grp x cols q s).2.map fun p => (p.1, φ p.2)) := by
  simp only [Gen.execute]
  cases (pop q cols).2 <;> simp only [Bool.false_eq_true, ↓reduceIte, Option.map_none]
  cases v x <;> simp only [Bool.false_eq_true, ↓reduceIte, Option.map_none]
  cases (f x s).2 <;> simp

/-! ### 4. the recursive knots over the Go `Expression` interface (`Go.Lib.Expression`, nil operands included) -/


section congr
variable (H : Bytes → UInt64) {σ : Type} (env : Go.IndexEnv σ)

/-- the generated `eval` bodies use their operands only through `cacheKey()` and `eval(idx)` -/
theorem evalNot_congr {ε ε' : Type} (k : ε → UInt64) (f : ε → σ → σ × Option Nat) (x : ε)
    (k' : ε' → UInt64) (f' : ε' → σ → σ × Option Nat) (x' : ε')
    (hk : k x = k' x') (hf : ∀ s, f x s = f' x' s) (s : σ) :
    Gen.evalNot H env k f x s = Gen.evalNot H env k' f' x' s := by
  simp only [Gen.evalNot, hk, hf]

theorem evalAnd_loop_congr {ε ε' : Type} (k : ε → UInt64) (f : ε → σ → σ × Option Nat)
    (k' : ε' → UInt64) (f' : ε' → σ → σ × Option Nat) (all : List ε) (all' : List ε') (xs : List ε) (xs' : List ε')
    (hf : List.Forall₂ (fun x x' => ∀ s, f x s = f' x' s) xs xs') (s : σ) (acc : List (Option Nat)) :
    Gen.evalAnd_loop H env k f all xs s acc = Gen.evalAnd_loop H env k' f' all' xs' s acc := by
  induction hf generalizing s acc with
  | nil => rfl
  | cons h _ ih =>
    simp only [Gen.evalAnd_loop, h]
    split
    · rfl
    · exact ih _ _

theorem evalOr_loop_congr {ε ε' : Type} (k : ε → UInt64) (f : ε → σ → σ × Option Nat)
    (k' : ε' → UInt64) (f' : ε' → σ → σ × Option Nat) (all : List ε) (all' : List ε') (xs : List ε) (xs' : List ε')
    (hf : List.Forall₂ (fun x x' => ∀ s, f x s = f' x' s) xs xs') (s : σ) (acc : List (Option Nat)) :
    Gen.evalOr_loop H env k f all xs s acc = Gen.evalOr_loop H env k' f' all' xs' s acc := by
  induction hf generalizing s acc with
  | nil => rfl
  | cons h _ ih =>
    simp only [Gen.evalOr_loop, h]
    split
    · rfl
    · exact ih _ _

theorem evalAnd_congr {ε ε' : Type} (k : ε → UInt64) (f : ε → σ → σ × Option Nat)
    (k' : ε' → UInt64) (f' : ε' → σ → σ × Option Nat) (xs : List ε) (xs' : List ε')
    (hk : xs.map k = xs'.map k') (hf : List.Forall₂ (fun x x' => ∀ s, f x s = f' x' s) xs xs') (s : σ) :
    Gen.evalAnd H env k f xs s = Gen.evalAnd H env k' f' xs' s := by
  simp only [Gen.evalAnd, hk, evalAnd_loop_congr H env k f k' f' xs xs' xs xs' hf]

theorem evalOr_congr {ε ε' : Type} (k : ε → UInt64) (f : ε → σ → σ × Option Nat)
    (k' : ε' → UInt64) (f' : ε' → σ → σ × Option Nat) (xs : List ε) (xs' : List ε')
    (hk : xs.map k = xs'.map k') (hf : List.Forall₂ (fun x x' => ∀ s, f x s = f' x' s) xs xs') (s : σ) :
    Gen.evalOr H env k f xs s = Gen.evalOr H env k' f' xs' s := by
  simp only [Gen.evalOr, hk, evalOr_loop_congr H env k f k' f' xs xs' xs xs' hf]

end congr

/-- what `switch v := e.(type)` sees of a value of the `Expression` interface: nil is the `default` case; typed nil
    pointers are not representable in `Go.Lib.Expression` (the translated code never creates them) -/
def libCase : Go.Lib.Expression → Go.ExprCase Go.Lib.Expression
  | .nil => .other
  | .equal _ _ => .equal false
  | .not e => .not false e
  | .and es => .and false es
  | .or es => .or false es

mutual
/-- nesting depth of a library expression (a leaf, also nil, has depth 1) -/
def libDepth : Go.Lib.Expression → Nat
  | .nil => 1
  | .equal _ _ => 1
  | .not e => libDepth e + 1
  | .and es => libDepthL es + 1
  | .or es => libDepthL es + 1
def libDepthL : List Go.Lib.Expression → Nat
  | [] => 0
  | e :: r => max (libDepth e) (libDepthL r)
end

theorem libDepth_le_depthL (es : List Go.Lib.Expression) : ∀ e ∈ es, libDepth e ≤ libDepthL es := by
  induction es with
  | nil => intro e h; cases h
  | cons x r ih =>
    intro e h
    rw [libDepthL]
    rcases List.mem_cons.mp h with rfl | h
    · omega
    · have := ih e h; omega

/-- dynamic dispatch of `cacheKey()` over the generated method bodies, `fuel` levels deep (nil receiver: Go panics) -/
def libKey (H : Bytes → UInt64) : Nat → Go.Lib.Expression → UInt64
  | 0, _ => 0
  | _ + 1, .nil => 0
  | _ + 1, .equal c v => Gen.cacheKeyEqual H c v
  | n + 1, .not e => Gen.cacheKeyNot H (libKey H n e)
  | n + 1, .and es => Gen.cacheKeyAnd H (es.map (libKey H n))
  | n + 1, .or es => Gen.cacheKeyOr H (es.map (libKey H n))

/-- dynamic dispatch of `eval(idx)` over the generated method bodies, `fuel` levels deep (nil receiver: Go panics;
    here an error) -/
def libEval (H : Bytes → UInt64) {σ : Type} (env : Go.IndexEnv σ) : Nat → Go.Lib.Expression → σ → σ × Option Nat
  | 0, _, s => (s, none)
  | _ + 1, .nil, s => (s, none)
  | _ + 1, .equal c v, s => Gen.evalEqual H env c v s
  | n + 1, .not e, s => Gen.evalNot H env (libKey H n) (libEval H env n) e s
  | n + 1, .and es, s => Gen.evalAnd H env (libKey H n) (libEval H env n) es s
  | n + 1, .or es, s => Gen.evalOr H env (libKey H n) (libEval H env n) es s

theorem libCompleteL_forall₂ : ∀ (les : List Go.Lib.Expression) (es : List Expr), libCompleteL les = some es →
    List.Forall₂ (fun le e => libComplete le = some e) les es := by
  intro les
  induction les with
  | nil => intro es h; simp only [libCompleteL, Option.some.injEq] at h; subst h; exact .nil
  | cons le r ih =>
    intro es h
    simp only [libCompleteL] at h
    cases hle : libComplete le with
    | none => simp [hle] at h
    | some e =>
      cases hr : libCompleteL r with
      | none => simp [hle, hr] at h
      | some es' =>
        simp only [hle, hr, Option.map_some, Option.some.injEq] at h
        subst h
        exact .cons hle (ih es' hr)

theorem libComplete_not {le : Go.Lib.Expression} {e : Expr} (h : libComplete (.not le) = some e) :
    ∃ e', libComplete le = some e' ∧ e = .not e' := by
  simp only [libComplete] at h
  cases hle : libComplete le with
  | none => simp [hle] at h
  | some e' => simp only [hle, Option.map_some, Option.some.injEq] at h; exact ⟨e', rfl, h.symm⟩

theorem libComplete_and {les : List Go.Lib.Expression} {e : Expr} (h : libComplete (.and les) = some e) :
    ∃ es, libCompleteL les = some es ∧ e = .and es := by
  simp only [libComplete] at h
  cases hle : libCompleteL les with
  | none => simp [hle] at h
  | some es => simp only [hle, Option.map_some, Option.some.injEq] at h; exact ⟨es, rfl, h.symm⟩

theorem libComplete_or {les : List Go.Lib.Expression} {e : Expr} (h : libComplete (.or les) = some e) :
    ∃ es, libCompleteL les = some es ∧ e = .or es := by
  simp only [libComplete] at h
  cases hle : libCompleteL les with
  | none => simp [hle] at h
  | some es => simp only [hle, Option.map_some, Option.some.injEq] at h; exact ⟨es, rfl, h.symm⟩

section
variable (H : Bytes → UInt64)

theorem libKeys_eq (n : Nat)
    (ih : ∀ le e, libComplete le = some e → libDepth le ≤ n → libKey H n le = cacheKey H e)
    (les : List Go.Lib.Expression) (es : List Expr) (h : List.Forall₂ (fun le e => libComplete le = some e) les es)
    (hd : libDepthL les ≤ n) : les.map (libKey H n) = es.map (cacheKey H) := by
  induction h with
  | nil => rfl
  | cons hle _ ihr =>
    rw [libDepthL] at hd
    simp only [List.map_cons]
    rw [ih _ _ hle (by omega), ihr (by omega)]

/-- with enough fuel the generated `cacheKey()` knot is the model's `cacheKey` of the denoted expression -/
theorem libKey_eq (n : Nat) : ∀ (le : Go.Lib.Expression) (e : Expr), libComplete le = some e → libDepth le ≤ n →
    libKey H n le = cacheKey H e := by
  induction n with
  | zero => intro le e _ hd; cases le <;> simp [libDepth] at hd
  | succ n ih =>
    intro le e hc hd
    cases le with
    | nil => simp [libComplete] at hc
    | equal c v =>
      simp only [libComplete, Option.some.injEq] at hc
      subst hc
      exact cacheKeyEqual_eq H c v
    | not le' =>
      obtain ⟨e', h1, rfl⟩ := libComplete_not hc
      rw [libDepth] at hd
      rw [libKey, ih le' e' h1 (by omega), cacheKeyNot_eq]
    | and les =>
      obtain ⟨es, h1, rfl⟩ := libComplete_and hc
      rw [libDepth] at hd
      rw [libKey, libKeys_eq H n ih les es (libCompleteL_forall₂ les es h1) (by omega), map_cacheKey, cacheKeyAnd_eq]
    | or les =>
      obtain ⟨es, h1, rfl⟩ := libComplete_or hc
      rw [libDepth] at hd
      rw [libKey, libKeys_eq H n ih les es (libCompleteL_forall₂ les es h1) (by omega), map_cacheKey, cacheKeyOr_eq]

variable {σ : Type} (C : CacheImpl σ) (ix : Updog.Index) (g : UInt64 → Option Nat × Bool)

theorem libEvals_eq (n : Nat)
    (ih : ∀ le e, libComplete le = some e → libDepth le ≤ n → ∀ s, libEval H (indexEnv C ix g) n le s = evalC H C ix s e)
    (les : List Go.Lib.Expression) (es : List Expr) (h : List.Forall₂ (fun le e => libComplete le = some e) les es)
    (hd : libDepthL les ≤ n) :
    List.Forall₂ (fun le e => ∀ s, libEval H (indexEnv C ix g) n le s = (fun e s => evalC H C ix s e) e s) les es := by
  induction h with
  | nil => exact .nil
  | cons hle _ ihr =>
    rw [libDepthL] at hd
    exact .cons (ih _ _ hle (by omega)) (ihr (by omega))

/-- **with enough fuel the generated `eval` knot over the `Expression` interface is the model's `evalC`** of the
    denoted expression, for every getter that refines the index -/
theorem libEval_eq (hg : GetColRefines g ix) (hnext : ix.next < 2 ^ 32) (n : Nat) :
    ∀ (le : Go.Lib.Expression) (e : Expr), libComplete le = some e → libDepth le ≤ n →
      ∀ s, libEval H (indexEnv C ix g) n le s = evalC H C ix s e := by
  induction n with
  | zero => intro le e _ hd; cases le <;> simp [libDepth] at hd
  | succ n ih =>
    intro le e hc hd s
    cases le with
    | nil => simp [libComplete] at hc
    | equal c v =>
      simp only [libComplete, Option.some.injEq] at hc
      subst hc
      exact evalEqual_eq H C ix g hg c v s
    | not le' =>
      obtain ⟨e', h1, rfl⟩ := libComplete_not hc
      rw [libDepth] at hd
      rw [libEval, evalNot_congr H _ (libKey H n) (libEval H (indexEnv C ix g) n) le' (cacheKey H)
        (fun e s => evalC H C ix s e) e' (libKey_eq H n le' e' h1 (by omega)) (ih le' e' h1 (by omega))]
      exact evalNot_eq H C ix g hnext _ e' (fun _ => rfl) s
    | and les =>
      obtain ⟨es, h1, rfl⟩ := libComplete_and hc
      rw [libDepth] at hd
      have hf := libCompleteL_forall₂ les es h1
      rw [libEval, evalAnd_congr H _ (libKey H n) (libEval H (indexEnv C ix g) n) (cacheKey H)
        (fun e s => evalC H C ix s e) les es (libKeys_eq H n (libKey_eq H n) les es hf (by omega))
        (libEvals_eq H C ix g n ih les es hf (by omega))]
      exact evalAnd_eq H C ix g _ es (fun _ _ _ => rfl) s
    | or les =>
      obtain ⟨es, h1, rfl⟩ := libComplete_or hc
      rw [libDepth] at hd
      have hf := libCompleteL_forall₂ les es h1
      rw [libEval, evalOr_congr H _ (libKey H n) (libEval H (indexEnv C ix g) n) (cacheKey H)
        (fun e s => evalC H C ix s e) les es (libKeys_eq H n (libKey_eq H n) les es hf (by omega))
        (libEvals_eq H C ix g n ih les es hf (by omega))]
      exact evalOr_eq H C ix g _ es (fun _ _ _ => rfl) s

end

theorem libCompleteL_isNone (les : List Go.Lib.Expression) :
    (libCompleteL les).isNone = les.any (fun le => (libComplete le).isNone) := by
  induction les with
  | nil => simp [libCompleteL]
  | cons le r ih =>
    rw [libCompleteL, List.any_cons, ← ih]
    cases libComplete le <;> cases libCompleteL r <;> simp

/-- **with enough fuel the generated `validateExpr` knot rejects exactly the trees with a nil operand** -/
theorem genValidate_lib (n : Nat) : ∀ (le : Go.Lib.Expression), libDepth le ≤ n →
    genValidate libCase n le = (libComplete le).isNone := by
  induction n with
  | zero => intro le hd; cases le <;> simp [libDepth] at hd
  | succ n ih =>
    intro le hd
    have hany : ∀ les : List Go.Lib.Expression, libDepthL les ≤ n →
        les.any (genValidate libCase n) = (libCompleteL les).isNone := by
      intro les
      induction les with
      | nil => intro _; simp [libCompleteL]
      | cons x r ihr =>
        intro hl
        rw [libDepthL] at hl
        rw [List.any_cons, libCompleteL, ih x (by omega), ihr (by omega)]
        cases libComplete x <;> cases libCompleteL r <;> simp
    rw [genValidate, validateExpr_eq]
    cases le with
    | nil => simp [libCase, libComplete]
    | equal c v => simp [libCase, libComplete]
    | not le' =>
      rw [libDepth] at hd
      simp only [libCase, Bool.false_or, libComplete, ih le' (by omega)]
      cases libComplete le' <;> rfl
    | and les =>
      rw [libDepth] at hd
      simp only [libCase, Bool.false_or, libComplete, hany les (by omega)]
      cases libCompleteL les <;> rfl
    | or les =>
      rw [libDepth] at hd
      simp only [libCase, Bool.false_or, libComplete, hany les (by omega)]
      cases libCompleteL les <;> rfl

/-! model expressions as values of the `Expression` interface -/

mutual
def toLib : Expr → Go.Lib.Expression
  | .eq c v => .equal c v
  | .not e => .not (toLib e)
  | .and es => .and (toLibL es)
  | .or es => .or (toLibL es)
def toLibL : List Expr → List Go.Lib.Expression
  | [] => []
  | e :: r => toLib e :: toLibL r
end

mutual
theorem libComplete_toLib (e : Expr) : libComplete (toLib e) = some e :=
  match e with
  | .eq c v => by simp [toLib, libComplete]
  | .not e => by simp [toLib, libComplete, libComplete_toLib e]
  | .and es => by simp [toLib, libComplete, libCompleteL_toLibL es]
  | .or es => by simp [toLib, libComplete, libCompleteL_toLibL es]
theorem libCompleteL_toLibL (es : List Expr) : libCompleteL (toLibL es) = some es :=
  match es with
  | [] => by simp [toLibL, libCompleteL]
  | e :: r => by simp [toLibL, libCompleteL, libComplete_toLib e, libCompleteL_toLibL r]
end

mutual
theorem libDepth_toLib (e : Expr) : libDepth (toLib e) = exprDepth e :=
  match e with
  | .eq c v => by simp [toLib, libDepth, exprDepth]
  | .not e => by simp [toLib, libDepth, exprDepth, libDepth_toLib e]
  | .and es => by simp [toLib, libDepth, exprDepth, libDepthL_toLibL es]
  | .or es => by simp [toLib, libDepth, exprDepth, libDepthL_toLibL es]
theorem libDepthL_toLibL (es : List Expr) : libDepthL (toLibL es) = exprDepthList es :=
  match es with
  | [] => by simp [toLibL, libDepthL, exprDepthList]
  | e :: r => by simp [toLibL, libDepthL, exprDepthList, libDepth_toLib e, libDepthL_toLibL r]
end

/-! ### 5. the index returned by the generated `OpenIndexFromBoltDatabase`, as query.go sees it -/

/-- a bbolt file that holds an updog index: bucket `data` with a decodable schema `s`, a 4-byte counter `next`, and
    value keys of the form `'V' ‖ be64 valueIndex` -/
structure FileOK (X : Ext) (c : Buckets) (d : BucketData) (s : SchemaVal) (next : UInt32) : Prop where
  bucket : bucketsGet c dataName = some d
  schema : ∃ sb, dataGet d [83] = some sb ∧ X.gobDecode sb = some s
  counter : ∃ cb, dataGet d [73] = some cb ∧ cb.length = 4 ∧ beUint32 cb = next
  wellKeyed : WellKeyed d

/-- `updog.OpenIndex(file)` / `updog.OpenIndex(file, WithPreloadedData())` -/
def openOpts (X : Ext) (preload : Bool) : List IndexOption := if preload then [Gen.withPreloadedData X] else []

/-- the index value the generated open builds -/
def openedIndex (i : Nat) (s : SchemaVal) (next : UInt32) (values : ColGetter) : Go.T3.Index :=
  { schema := some s, nextRowID := next, db := some i, values := values, cache := .nullCache, metrics := .fresh }

theorem open_noPreload_ok (X : Ext) (i n : Nat) (c : Buckets) (cs : List (List PutRec)) (hp : Heap)
    (d : BucketData) (s : SchemaVal) (next : UInt32) (ok : FileOK X c d s next) :
    Gen.openIndexFromBoltDatabase X (idle i n c cs) hp (some i) []
      = (idle i (n + 1) c cs, hp, some (openedIndex i s next (.onDemand { db := some i })), none) := by
  obtain ⟨sb, h2, h3⟩ := ok.schema
  obtain ⟨cb, h4, h5, h6⟩ := ok.counter
  rw [openIndex_noPreload_result X i n c cs hp d sb cb s ok.bucket h2 h3 h4 h5, h6]
  rfl

theorem open_preload_ok (X : Ext) (i n : Nat) (c : Buckets) (cs : List (List PutRec)) (hp : Heap)
    (d : BucketData) (s : SchemaVal) (next : UInt32) (ok : FileOK X c d s next)
    (hs : SortedData d) (hdec : vDecodable X d = true) :
    ∃ cg, (Gen.newPreloadedColGetter X (idle i (n + 1) c cs) hp (some i)).2.2.1 = .preloaded cg ∧
      Gen.openIndexFromBoltDatabase X (idle i n c cs) hp (some i) [Gen.withPreloadedData X]
        = (idle i (n + 2) c cs, (Gen.newPreloadedColGetter X (idle i (n + 1) c cs) hp (some i)).2.1,
           some (openedIndex i s next (.preloaded cg)), none) := by
  obtain ⟨sb, h2, h3⟩ := ok.schema
  obtain ⟨cb, h4, h5, h6⟩ := ok.counter
  have hv := open_view X i n c cs hp [Gen.withPreloadedData X]
  have hok : headerOK X c = true := by simp [headerOK, ok.bucket, blobOf, counterOf, h2, h3, h4, h5]
  simp only [hok, if_true] at hv
  obtain ⟨d', sb', s', cb', g1, g2, g3, g4, _, hr⟩ := hv
  rw [ok.bucket] at g1; injection g1 with g1; subst g1
  rw [h2] at g2; injection g2 with g2; subst g2
  rw [h3] at g3; injection g3 with g3; subst g3
  rw [h4] at g4; injection g4 with g4; subst g4
  have hp' := newPreloaded_spec X i (n + 1) c cs hp d ok.bucket hs
  simp only at hp'
  obtain ⟨q1, q2⟩ := hp'
  have hpo : ∃ gfun, preloadOpen (imageOfData X d) = some gfun := by
    cases hpo : preloadOpen (imageOfData X d) with
    | some gfun => exact ⟨gfun, rfl⟩
    | none =>
      have := (preloadFold_eq_none_iff (imageOfData X d) (fun _ => none)).mp hpo
      rw [← vDecodable_iff] at this
      exact absurd hdec this
  obtain ⟨gfun, hpo⟩ := hpo
  rw [hpo] at q2
  obtain ⟨q3, cg, q4, _⟩ := q2
  refine ⟨cg, q4, ?_⟩
  unfold idle
  rw [hr]
  generalize hg : Gen.newPreloadedColGetter X { id := i, closed := false, committed := c, tx := none, nextTx := n + 1, commits := cs } hp (some i) = g at q1 q3 q4
  obtain ⟨gb, ghp, gcg, gerr⟩ := g
  simp only at q1 q3 q4
  subst q1 q3 q4
  simp only [openTail, forRange, Gen.openIndexFromBoltDatabase_loop1, Gen.withPreloadedData, hg, isErr_none,
    Bool.false_eq_true, if_false, isErr_nilError, ColGetter.isNil, openedIndex, h6, nilError]

/-- **the index the generated open returns refines the model index of the file**, without and with
    `WithPreloadedData()`: it carries the decoded schema and counter, and its getter — dispatched over the generated
    `GetCol` methods — answers like the model index. Preloading needs the bucket in bbolt's key order and every stored
    bitmap decodable (otherwise the open fails, `openIndex_preload_eq`). -/
theorem open_ok (X : Ext) (i n : Nat) (c : Buckets) (cs : List (List PutRec)) (hp : Heap)
    (d : BucketData) (s : SchemaVal) (next : UInt32) (ok : FileOK X c d s next)
    (hnil : X.roaringFromBuffer [] = none) (preload : Bool)
    (hs : preload = true → SortedData d) (hdec : preload = true → vDecodable X d = true) :
    ∃ n' hp' vals, Gen.openIndexFromBoltDatabase X (idle i n c cs) hp (some i) (openOpts X preload)
        = (idle i n' c cs, hp', some (openedIndex i s next vals), none) ∧
      GetColRefines (genGetCol X (idle i n' c cs) hp' vals) (fileIndex X d s next) := by
  cases preload with
  | false =>
    refine ⟨n + 1, hp, _, open_noPreload_ok X i n c cs hp d s next ok, ?_⟩
    exact genOnDemandGetter_refines X i (n + 1) c cs hp d s next ok.bucket ok.wellKeyed hnil
  | true =>
    obtain ⟨cg, hcg, hopen⟩ := open_preload_ok X i n c cs hp d s next ok (hs rfl) (hdec rfl)
    refine ⟨n + 2, _, _, hopen, ?_⟩
    exact genPreloadedGetter_refines X i (n + 1) c cs hp d s next ok.bucket (hs rfl) ok.wellKeyed cg hcg

/-- what the translated methods of query.go see of the `*Index` the generated open returned, with the cache `C` in
    `idx.cache`: `_, ok := idx.schema.Columns[c]`, `idx.values.GetCol` (the generated getters), `idx.nextRowID` -/
def genIndexEnv {σ : Type} (C : CacheImpl σ) (X : Ext) (bolt : Bolt) (hp : Heap) (idx : Go.T3.Index) : Go.IndexEnv σ where
  cacheGet := C.get
  cachePut := C.put
  hasColumn := fun c => (Go.mapLookup (schemaTo (idx.schema.getD [])).Columns c).isSome
  getCol := genGetCol X bolt hp idx.values
  nextRowID := idx.nextRowID

theorem genIndexEnv_eq {σ : Type} (C : CacheImpl σ) (X : Ext) (bolt : Bolt) (hp : Heap) (i : Nat) (d : BucketData)
    (s : SchemaVal) (next : UInt32) (vals : ColGetter) :
    genIndexEnv C X bolt hp (openedIndex i s next vals) = indexEnv C (fileIndex X d s next) (genGetCol X bolt hp vals) := by
  have h1 : ∀ c, (Go.mapLookup (schemaTo s).Columns c).isSome = (Schema.col s c).isSome := by
    intro c
    have := mapLookup_columns (schemaTo s).Columns c
    have e : ((schemaTo s).Columns.map fun cv => (cv.1, cv.2.Values)) = s := schemaOf_schemaTo s
    rw [e] at this
    rw [← this]
    cases Go.mapLookup (schemaTo s).Columns c <;> rfl
  have h2 : UInt32.ofNat next.toNat = next := UInt32.ofNat_toNat
  simp only [genIndexEnv, indexEnv, openedIndex, fileIndex, Image.toIndex, Option.getD_some, h1, h2]

/-! ### 6. `(*Index).Execute`, every part regenerated -/

/-- the library's `Result` (T5 structures) made of what `Gen.execute` returns (T1/T6 structures): the same Go value -/
def libResultOf (r : Nat × List Gen.ResultGroup) : Go.Lib.Result :=
  ⟨r.1.toUInt64, r.2.map fun g => ⟨g.Fields.map fun f => ⟨f.Column, f.Value⟩, g.Count⟩⟩

theorem resultOfGo_libResultOf (r : Nat × List Gen.ResultGroup) (h : r.1 < 2 ^ 64) :
    resultOfGo (libResultOf r) = ⟨r.1, r.2.map groupOf⟩ := by
  simp only [resultOfGo, libResultOf, toNat_toUInt64 _ h, List.map_map, Result.mk.injEq, true_and]
  apply List.map_congr_left
  intro g _
  simp [groupOf, fieldOf, Function.comp_def]

/-- **`(*Index).Execute(q)`, all generated**: the generated `Execute` body run on the index the generated open
    returned (`genIndexEnv`: generated getters), with the generated `populateGroupBy` / `groupBy`, the generated
    `validateExpr` knot and the generated `eval` / `cacheKey` knots tied `libDepth q.Expr` levels deep. `stale` is the
    `groupByFields` left in the query object by earlier executions, `s` the state of the cache. -/
def genExecute (H : Bytes → UInt64) {σ : Type} (C : CacheImpl σ) (X : Ext) (bolt : Bolt) (hp : Heap) (idx : Go.T3.Index)
    (q : Go.Lib.Query) (stale : List Gen.groupBy) (s : σ) : σ × Option (Nat × List Gen.ResultGroup) :=
  Gen.execute (genIndexEnv C X bolt hp idx) (genPop (schemaTo (idx.schema.getD [])))
    (genValidate libCase (libDepth q.Expr)) (libEval H (genIndexEnv C X bolt hp idx) (libDepth q.Expr))
    (genGrp (genIndexEnv C X bolt hp idx).getCol) q.Expr q.GroupBy stale s

/-- the model's view of what `genExecute` returns -/
def execView {σ : Type} (r : σ × Option (Nat × List Gen.ResultGroup)) : σ × Option Result :=
  (r.1, r.2.map fun p => ⟨p.1, p.2.map groupOf⟩)

theorem execView_of_pairs {σ : Type} (a : σ) (o : Option (Nat × List Gen.ResultGroup)) (r : σ × Option Result)
    (h : (a, o.map fun p => (p.1, p.2.map groupOf)) = (r.1, r.2.map fun r => (r.count, r.groups))) :
    (a, o.map fun p => (⟨p.1, p.2.map groupOf⟩ : Result)) = r := by
  obtain ⟨r1, r2⟩ := r
  simp only [Prod.mk.injEq] at h
  obtain ⟨h1, h2⟩ := h
  subst h1
  congr 1
  cases o with
  | none => cases r2 <;> simp_all
  | some p =>
    cases r2 with
    | none => simp at h2
    | some r =>
      obtain ⟨c, gs⟩ := r
      simp only [Option.map_some, Option.some.injEq, Prod.mk.injEq] at h2
      simp [h2.1, h2.2]

/-- **`genExecute` = `executeC`** on the model index of the file, for every cache implementation and state, every
    stale hidden state, every query (nil operands included): a tree with a nil operand is rejected before the cache
    is touched; otherwise the answer and the new cache state are the model's. Remaining precondition: the cardinality
    of the result bitmap fits 64 bits. -/
theorem genExecute_eq (H : Bytes → UInt64) {σ : Type} (C : CacheImpl σ) (X : Ext) (bolt : Bolt) (hp : Heap) (i : Nat)
    (d : BucketData) (s : SchemaVal) (next : UInt32) (vals : ColGetter)
    (hg : GetColRefines (genGetCol X bolt hp vals) (fileIndex X d s next))
    (q : Go.Lib.Query) (stale : List Gen.groupBy) (st : σ)
    (hcard : ∀ e, libComplete q.Expr = some e → ∀ bm, (evalC H C (fileIndex X d s next) st e).2 = some bm →
      popcount bm < 2 ^ 64) :
    execView (genExecute H C X bolt hp (openedIndex i s next vals) q stale st) =
      match libComplete q.Expr with
      | none => (st, none)
      | some e => executeC H C (fileIndex X d s next) st ⟨e, q.GroupBy⟩ := by
  have hv := execute_view H C (fileIndex X d s next) (genGetCol X bolt hp vals)
    (genPop (schemaTo s)) (fun q bm => (genGrp (genGetCol X bolt hp vals) q bm).map groupOf)
    (genGroupBy_refines _ (schemaTo s) (schemaOf_schemaTo s) _ hg)
    (genValidate libCase (libDepth q.Expr))
    (libEval H (indexEnv C (fileIndex X d s next) (genGetCol X bolt hp vals)) (libDepth q.Expr))
    q.Expr q.GroupBy (libComplete q.Expr) (genValidate_lib _ _ (Nat.le_refl _)) stale st
    (fun e he => libEval_eq H C _ _ hg (fileIndex_next_lt X d s next) _ _ e he (Nat.le_refl _) st) hcard
  rw [execute_map_groups] at hv
  unfold execView genExecute
  rw [genIndexEnv_eq C X bolt hp i d s next vals]
  simp only [openedIndex, Option.getD_some, indexEnv_getCol]
  cases hc : libComplete q.Expr with
  | none =>
    rw [hc] at hv
    exact execView_of_pairs _ _ (st, none) hv
  | some e =>
    rw [hc] at hv
    exact execView_of_pairs _ _ _ hv

/-! ### 7. files that hold a written index -/

/-- bucket `data` holds the index of the writer state `w` (what `WriteToBoltDatabase` stores, read back through the
    coders `X`): the gob schema decodes to `w.schema`, the counter is `w.next`, and the value keys are exactly
    `'V' ‖ be64 valueIndex` with the serialised bitmaps of `w.vals` -/
structure HoldsWriter (X : Ext) (d : BucketData) (w : Writer) (next : UInt32) : Prop where
  schema : ∃ sb, dataGet d [83] = some sb ∧ X.gobDecode sb = some w.schema
  counter : ∃ cb, dataGet d [73] = some cb ∧ cb.length = 4 ∧ beUint32 cb = next
  next_eq : next.toNat = w.next
  wellKeyed : WellKeyed d
  values : ∀ k : UInt64, (dataGet d (86 :: be64 k.toNat)).map X.roaringFromBuffer = (w.vals.get k).map some

theorem HoldsWriter.fileOK {X : Ext} {c : Buckets} {d : BucketData} {w : Writer} {next : UInt32}
    (h : HoldsWriter X d w next) (hb : bucketsGet c dataName = some d) : FileOK X c d w.schema next :=
  ⟨hb, h.schema, h.counter, h.wellKeyed⟩

/-- the model index of such a file is `w.toIndex` -/
theorem HoldsWriter.fileIndex_eq {X : Ext} {d : BucketData} {w : Writer} {next : UInt32}
    (h : HoldsWriter X d w next) : fileIndex X d w.schema next = w.toIndex := by
  simp only [fileIndex, Image.toIndex, Writer.toIndex, h.next_eq, Index.mk.injEq, true_and]
  funext k
  rw [get_imageOfData X d h.wellKeyed k, h.values k]
  cases w.vals.get k <;> rfl

theorem dataGet_of_mem_sorted (d : BucketData) (hs : SortedData d) (kv : Bytes × Bytes) (hm : kv ∈ d) :
    dataGet d kv.1 = some kv.2 := by
  induction d with
  | nil => cases hm
  | cons x rest ih =>
    have hs' := List.pairwise_cons.mp hs
    rcases List.mem_cons.mp hm with rfl | hm'
    · simp [dataGet]
    · have hlt := hs'.1 kv hm'
      have hne : ¬ x.1 = kv.1 := Updog.bytesLt_ne hlt
      have : (x.1 == kv.1) = false := by simpa using hne
      obtain ⟨xk, xv⟩ := x
      simp only [dataGet, this, Bool.false_eq_true, if_false]
      exact ih hs'.2 hm'

/-- in bbolt's key order every stored bitmap of such a file decodes, so `WithPreloadedData` succeeds -/
theorem HoldsWriter.vDecodable {X : Ext} {d : BucketData} {w : Writer} {next : UInt32}
    (h : HoldsWriter X d w next) (hs : SortedData d) : vDecodable X d = true := by
  unfold GeneratedEq.vDecodable
  rw [List.all_eq_true]
  intro kv hkv
  have hkv' := List.mem_filter.mp hkv
  obtain ⟨k, hk⟩ := h.wellKeyed kv hkv'.1 hkv'.2
  have hget := dataGet_of_mem_sorted d hs kv hkv'.1
  have hv := h.values k
  rw [← hk, hget] at hv
  cases hw : w.vals.get k with
  | none => rw [hw] at hv; simp at hv
  | some b => rw [hw] at hv; simp only [Option.map_some, Option.some.injEq] at hv; simp [hv]

/-! bitmaps of a written index only hold row ids below the counter -/

section
variable (H : Bytes → UInt64)

theorem rowHas_ge (rows : List Row) (h : UInt64) (i : Nat) (hi : rows.length ≤ i) : rowHas H rows h i = false := by
  unfold rowHas
  rw [List.getElem?_eq_none hi]

mutual
theorem eval_bits_bound (rows : List Row) (e : Expr) (b : Nat)
    (h : eval H (Writer.addRows H {} rows).toIndex e = some b) :
    ∀ i, rows.length ≤ i → b.testBit i = false :=
  match e with
  | .eq c v => by
    intro i hi
    simp only [eval] at h
    split at h
    · cases h
    · simp only [Option.some.injEq] at h
      rw [← h]
      simp only [Writer.toIndex]
      rw [(winv_addRows H rows).vals, rowHas_ge H rows _ i hi]
  | .not e' => by
    intro i hi
    simp only [eval] at h
    cases he : eval H (Writer.addRows H {} rows).toIndex e' with
    | none => rw [he] at h; cases h
    | some b' =>
      rw [he] at h
      simp only [Option.map_some, Option.some.injEq] at h
      rw [← h, testBit_flip, eval_bits_bound rows e' b' he i hi]
      have hn : (Writer.addRows H {} rows).toIndex.next = rows.length := (winv_addRows H rows).next
      have : ¬ i < rows.length := by omega
      simp [hn, this]
  | .and es => by
    intro i hi
    simp only [eval] at h
    cases he : evalList H (Writer.addRows H {} rows).toIndex es with
    | none => rw [he] at h; cases h
    | some bs =>
      rw [he] at h
      simp only [Option.map_some, Option.some.injEq] at h
      rw [← h, testBit_andAll]
      cases bs with
      | nil => simp
      | cons b0 r =>
        have := evalList_bits_bound rows es (b0 :: r) he b0 (by simp) i hi
        simp [this]
  | .or es => by
    intro i hi
    simp only [eval] at h
    cases he : evalList H (Writer.addRows H {} rows).toIndex es with
    | none => rw [he] at h; cases h
    | some bs =>
      rw [he] at h
      simp only [Option.map_some, Option.some.injEq] at h
      rw [← h, testBit_orAll, List.any_eq_false]
      intro x hx
      simp [evalList_bits_bound rows es bs he x hx i hi]
theorem evalList_bits_bound (rows : List Row) (es : List Expr) (bs : List Nat)
    (h : evalList H (Writer.addRows H {} rows).toIndex es = some bs) :
    ∀ b ∈ bs, ∀ i, rows.length ≤ i → b.testBit i = false :=
  match es with
  | [] => by
    simp only [evalList, Option.some.injEq] at h
    subst h
    intro b hb; cases hb
  | e :: r => by
    simp only [evalList] at h
    cases he : eval H (Writer.addRows H {} rows).toIndex e with
    | none => rw [he] at h; simp at h
    | some b0 =>
      rw [he] at h
      simp only at h
      cases hr : evalList H (Writer.addRows H {} rows).toIndex r with
      | none => rw [hr] at h; simp at h
      | some bs' =>
        rw [hr] at h
        simp only [Option.map_some, Option.some.injEq] at h
        subst h
        intro b hb
        rcases List.mem_cons.mp hb with rfl | hb
        · exact eval_bits_bound rows e _ he
        · exact evalList_bits_bound rows r bs' hr b hb
end

theorem countBelow_le (b n : Nat) : countBelow b n ≤ n := by
  unfold countBelow
  exact Nat.le_trans (List.length_filter_le _ _) (by simp)

/-- **every result bitmap of a written index has at most `rows.length` members** (any expression, any hash) -/
theorem eval_popcount_le (rows : List Row) (e : Expr) (b : Nat)
    (h : eval H (Writer.addRows H {} rows).toIndex e = some b) : popcount b ≤ rows.length := by
  have hlt : b < 2 ^ rows.length := lt_two_pow_of_testBit b rows.length (eval_bits_bound H rows e b h)
  rw [popcount_eq_countBelow _ _ hlt]
  exact countBelow_le b rows.length

/-- the null cache is transparent for one query -/
theorem executeC_null (ix : Updog.Index) (q : Query) :
    (executeC H nullCacheImpl ix () q).2 = execute H ix q := by
  have := C03.null_transparent_history H ix [q]
  simpa [executeAllC] using this

theorem evalC_null (ix : Updog.Index) (e : Expr) : (evalC H nullCacheImpl ix () e).2 = eval H ix e := by
  have hall : ∀ s, Sound H ix (subsOf [e]) C03.nullCache_contract s := fun _ _ _ h => h.elim
  exact (evalC_sound (L := C03.nullCache_contract) (fun _ _ _ _ _ _ => hall _) (subsOf_closed _) e
    (subsOf_mem _ e (by simp)) () (hall _)).1

end

/-! ### 8. the file the generated `WriteToBoltDatabase` leaves behind -/

/-- the content of a bucket after the logged `Put`s, in order -/
def replayData (d : BucketData) (puts : List PutRec) : BucketData := puts.foldl (fun d p => dataPut d p.2.1 p.2.2) d

theorem replayData_append (d : BucketData) (a b : List PutRec) :
    replayData d (a ++ b) = replayData (replayData d a) b := by
  simp [replayData, List.foldl_append]

/-- all `Put`s of the model's batch state so far, committed or not -/
def allPuts (ms : BatchState) : Tx := ms.done.flatten ++ ms.cur

theorem batchStep_all (ms : BatchState) (kv : UInt64 × Nat) :
    allPuts (batchStep 1000 ms kv) = allPuts ms ++ [BoltPut.val kv.1 kv.2] := by
  unfold batchStep allPuts
  by_cases hb : ((ms.i + 1) % 1000 == 0) = true
  · simp [hb]
  · have hb' : ((ms.i + 1) % 1000 == 0) = false := by simpa using hb
    simp [hb']

/-- `FlushInv` together with the content of bucket `data` in the open transaction: the content before the call with
    all `Put`s so far applied -/
def FlushInv2 (X : Ext) (hp : Heap) (db : DBRef) (c0 : List (List PutRec)) (idx0 : IndexWriter) (d0 : BucketData)
    (done : List (UInt64 × Ptr)) (st : FlushSt) : Prop :=
  FlushInv X hp db c0 idx0 done st ∧
  ∀ t, st.1.tx = some t →
    bucketsGet t.buckets dataName = some (replayData d0 (renderTx X (allPuts ((absVals hp done).foldl (batchStep 1000) {}))))

theorem flush_step2 (X : Ext) (hp : Heap) (db : DBRef) (err : Error) (buf : Bytes) (c0 : List (List PutRec))
    (idx0 : IndexWriter) (d0 : BucketData) (done : List (UInt64 × Ptr)) (x : UInt64 × Ptr) (st : FlushSt)
    (inv : FlushInv2 X hp db c0 idx0 d0 done st) :
    ∃ st', Gen.writeToBoltDatabase_loop1 X hp db err buf st x = .next st' ∧
      FlushInv2 X hp db c0 idx0 d0 (done ++ [x]) st' := by
  obtain ⟨inv1, inv2⟩ := inv
  obtain ⟨bolt, idx, tx, bucket, i⟩ := st
  obtain ⟨t, h1, h2, h3, h4, ⟨d, h5⟩, h6, h7, h8, h9, h10, h11⟩ := inv1
  obtain ⟨bid, bclosed, bcommitted, btx, bnext, bcommits⟩ := bolt
  obtain ⟨tid, twr, tbuckets, tlog⟩ := t
  simp only at h1 h2 h3 h4 h5 h6 h7 h8 h9 h10 h11
  subst h1 h2 h3 h4 h6 h7 h11 h10
  have hd0 := inv2 _ rfl
  simp only at hd0
  rw [h5] at hd0
  injection hd0 with hd0
  generalize hms : (absVals hp done).foldl (batchStep 1000) {} = ms at h8 h9 hd0
  have hms' : (absVals hp (done ++ [x])).foldl (batchStep 1000) {} = batchStep 1000 ms (x.1, bitmapAt hp x.2) := by
    rw [absVals_append, List.foldl_append, hms]; rfl
  have hd : ([100, 97, 116, 97] : Bytes) = dataName := rfl
  have hk : (Gen.keyPrefixValue ++ be64 x.1.toNat).isEmpty = false := rfl
  have hcontent : dataPut d (Gen.keyPrefixValue ++ be64 x.1.toNat) (X.roaringToBytes (bitmapAt hp x.2))
      = replayData d0 (renderTx X (allPuts (batchStep 1000 ms (x.1, bitmapAt hp x.2)))) := by
    rw [batchStep_all, renderTx, List.map_append, replayData_append, ← renderTx, ← hd0]
    rfl
  unfold FlushInv2 FlushInv
  rw [hms']
  unfold Gen.writeToBoltDatabase_loop1
  simp only [putU64_full, bitmapToBytes, isErr_none, Bool.false_eq_true, if_false, hd,
    bucketPut_mk _ _ _ _ _ _ _ _ _ _ d h5 hk, intMod_succ]
  by_cases hb : ((ms.i + 1) % 1000 == 0) = true
  · simp only [hb, if_true, txCommit_mk, isErr_none, Bool.false_eq_true, if_false, verifPoint, dbBegin_mk, txBucket_mk,
      bucketsGet_set_isSome]
    refine ⟨_, rfl, ⟨_, rfl, rfl, rfl, rfl, ⟨_, bucketsGet_set_same _ _ _⟩, rfl, rfl, ?_, ?_, ?_, rfl⟩, ?_⟩
    · simp [batchStep, hb, renderTx]
    · simp only [batchStep, hb, if_true, h9, h8, List.map_append, List.append_assoc, renderTx, List.map_cons,
        List.map_nil, renderPut]
      rfl
    · simp [batchStep, hb]
    · intro t' ht'
      simp only [Option.some.injEq] at ht'
      subst ht'
      simp only
      rw [bucketsGet_set_same, hcontent]
  · have hb' : ((ms.i + 1) % 1000 == 0) = false := by simpa using hb
    simp only [hb', Bool.false_eq_true, if_false]
    refine ⟨_, rfl, ⟨_, rfl, rfl, rfl, rfl, ⟨_, bucketsGet_set_same _ _ _⟩, rfl, rfl, ?_, ?_, ?_, rfl⟩, ?_⟩
    · simp only [batchStep, hb', Bool.false_eq_true, if_false, h8, renderTx, List.map_append, List.map_cons, List.map_nil,
        renderPut]
      rfl
    · simp only [batchStep, hb', Bool.false_eq_true, if_false, h9]
    · simp [batchStep, hb']
    · intro t' ht'
      simp only [Option.some.injEq] at ht'
      subst ht'
      simp only
      rw [bucketsGet_set_same, hcontent]

theorem flush_loop2 (X : Ext) (hp : Heap) (db : DBRef) (err : Error) (buf : Bytes) (c0 : List (List PutRec))
    (idx0 : IndexWriter) (d0 : BucketData) (rng : List (UInt64 × Ptr)) (init : FlushSt)
    (h0 : FlushInv2 X hp db c0 idx0 d0 [] init) :
    ∃ st', forRange rng init (Gen.writeToBoltDatabase_loop1 X hp db err buf) = .next st' ∧
      FlushInv2 X hp db c0 idx0 d0 rng st' :=
  forRange_next (FlushInv2 X hp db c0 idx0 d0) _ rng init h0
    (fun done x a h => flush_step2 X hp db err buf c0 idx0 d0 done x a h)

theorem bucketsSet_idem (bs : Buckets) (name : Bytes) (d : BucketData) :
    bucketsSet (bucketsSet bs name d) name d = bucketsSet bs name d := by
  induction bs with
  | nil => simp [bucketsSet]
  | cons nd rest ih =>
    obtain ⟨n, d'⟩ := nd
    by_cases h : (n == name) = true
    · simp [bucketsSet, h]
    · have h' : (n == name) = false := by simpa using h
      simp [bucketsSet, h', ih]

theorem bucketsGet_ite (bs : Buckets) (name : Bytes) :
    bucketsGet (if (bucketsGet bs name).isSome = true then bs else bucketsSet bs name []) name
      = some ((bucketsGet bs name).getD []) := by
  cases h : bucketsGet bs name with
  | none => simp [bucketsGet_set_same]
  | some d => simp [h]

/-- **the committed content of bucket `data` after the generated `WriteToBoltDatabase`**: what was there before with
    every `Put` of the model's transactions applied in order (`replayData`); the database stays open and idle -/
theorem writeToBoltDatabase_committed (X : Ext) (rng : List (UInt64 × Ptr)) (i n : Nat) (c : Buckets)
    (cs : List (List PutRec)) (hp : Heap) (idx : IndexWriter) :
    ∃ n' c' cs', (Gen.writeToBoltDatabase X rng (idle i n c cs) hp idx (some i)).1 = idle i n' c' cs' ∧
      bucketsGet c' dataName
        = some (replayData ((bucketsGet c dataName).getD [])
            ((writeTxs (schemaValue hp idx.schema) idx.nextRowID.toNat (absVals hp rng) 1000).flatten.map (renderPut X))) := by
  generalize hr : Gen.writeToBoltDatabase X rng (idle i n c cs) hp idx (some i) = r
  have hd : ([100, 97, 116, 97] : Bytes) = dataName := rfl
  unfold idle at hr
  unfold Gen.writeToBoltDatabase at hr
  simp only [dbBegin_mk, isErr_none, Bool.false_eq_true, if_false, optimize, gobEncode, hd,
    txCreateBucket_mk _ _ _ _ _ _ _ dataName rfl, List.nil_append, mutexTouch_mutexLock] at hr
  have h0 : FlushInv2 X hp (some i) cs { idx with mtx := mutexLock idx.mtx } ((bucketsGet c dataName).getD []) []
      ({ id := i, committed := c,
          tx := some { id := n, writable := true,
                       buckets := if (bucketsGet c dataName).isSome = true then c
                                  else bucketsSet c dataName [] },
          nextTx := n + 1, commits := cs },
        { idx with mtx := mutexLock idx.mtx }, some n, some (n, dataName), 0) := by
    refine ⟨⟨_, rfl, rfl, rfl, rfl, ?_, rfl, rfl, rfl, by simp [absVals], rfl, rfl⟩, ?_⟩
    · exact ⟨_, bucketsGet_ite c dataName⟩
    · intro t ht
      simp only [Option.some.injEq] at ht
      subst ht
      simp only [bucketsGet_ite]
      rfl
  obtain ⟨st', e, inv⟩ := flush_loop2 X hp (some i) none (X.gobEncode (schemaValue hp idx.schema)) cs _
    ((bucketsGet c dataName).getD []) rng _ h0
  rw [e] at hr
  obtain ⟨bolt', idx', tx', bucket', i'⟩ := st'
  obtain ⟨⟨t, h1, h2, h3, h4, ⟨d, h5⟩, h6, h7, h8, h9, h10, h11⟩, inv2⟩ := inv
  obtain ⟨bid', bclosed', bcommitted', btx', bnext', bcommits'⟩ := bolt'
  obtain ⟨tid, twr, tbuckets, tlog⟩ := t
  simp only at h1 h2 h3 h4 h5 h6 h7 h8 h9 h10 h11
  subst h1 h2 h4 h6 h7 h11 h10
  injection h3 with h3
  subst h3
  have hcont := inv2 _ rfl
  simp only at hcont
  rw [h5] at hcont
  injection hcont with hcont
  have hk1 : Gen.keySchema.isEmpty = false := rfl
  have hk2 : Gen.keyNextRowID.isEmpty = false := rfl
  simp only [bucketPut_mk _ _ _ _ _ _ _ _ _ _ d h5 hk1,
    bucketPut_mk _ _ _ _ _ _ _ _ _ _ _ (bucketsGet_set_same _ _ _) hk2, isErr_none, Bool.false_eq_true, if_false,
    txCommit_mk, verifPoint, putU32_full, mutexTouch_mutexLock] at hr
  subst hr
  have hfinal : dataPut (dataPut d Gen.keySchema (X.gobEncode (schemaValue hp idx.schema))) Gen.keyNextRowID
        (be32 idx.nextRowID.toNat)
      = replayData ((bucketsGet c dataName).getD [])
          ((writeTxs (schemaValue hp idx.schema) idx.nextRowID.toNat (absVals hp rng) 1000).flatten.map (renderPut X)) := by
    rw [hcont]
    simp only [writeTxs, allPuts, renderTx, List.flatten_append, List.flatten_cons, List.flatten_nil, List.append_nil,
      List.map_append, List.map_cons, List.map_nil, replayData_append, ← List.append_assoc]
    rfl
  refine ⟨_, _, _, rfl, ?_⟩
  rw [bucketsGet_set_same, hfinal]

/-! pure facts about `dataPut` / `replayData` -/

theorem dataGet_dataPut (d : BucketData) (k v k' : Bytes) :
    dataGet (dataPut d k v) k' = if k == k' then some v else dataGet d k' := by
  induction d with
  | nil => simp [dataPut, dataGet]
  | cons x rest ih =>
    obtain ⟨xk, xv⟩ := x
    by_cases h1 : (xk == k) = true
    · have e : xk = k := by simpa using h1
      subst e
      simp only [dataPut, beq_self_eq_true, if_true, dataGet]
      split <;> rfl
    · have h1' : (xk == k) = false := by simpa using h1
      by_cases h2 : bytesLt k xk = true
      · simp only [dataPut, h1', h2, Bool.false_eq_true, if_false, if_true, dataGet]
      · have h2' : bytesLt k xk = false := by simpa using h2
        simp only [dataPut, h1', h2', Bool.false_eq_true, if_false, dataGet, ih]
        by_cases h3 : (xk == k') = true
        · have e : xk = k' := by simpa using h3
          subst e
          have : (k == xk) = false := by
            have : ¬ k = xk := fun e => by rw [e] at h1'; simp at h1'
            simpa using this
          simp [this]
        · have h3' : (xk == k') = false := by simpa using h3
          simp [h3']

theorem mem_dataPut (d : BucketData) (k v : Bytes) (kv : Bytes × Bytes) (h : kv ∈ dataPut d k v) :
    kv = (k, v) ∨ kv ∈ d := by
  induction d with
  | nil => simp [dataPut] at h; exact Or.inl h
  | cons x rest ih =>
    obtain ⟨xk, xv⟩ := x
    by_cases h1 : (xk == k) = true
    · simp only [dataPut, h1, if_true, List.mem_cons] at h
      rcases h with h | h
      · exact Or.inl h
      · exact Or.inr (List.mem_cons_of_mem _ h)
    · have h1' : (xk == k) = false := by simpa using h1
      by_cases h2 : bytesLt k xk = true
      · simp only [dataPut, h1', h2, Bool.false_eq_true, if_false, if_true, List.mem_cons] at h
        rcases h with h | h | h
        · exact Or.inl h
        · exact Or.inr (by simp [h])
        · exact Or.inr (List.mem_cons_of_mem _ h)
      · have h2' : bytesLt k xk = false := by simpa using h2
        simp only [dataPut, h1', h2', Bool.false_eq_true, if_false, List.mem_cons] at h
        rcases h with h | h
        · exact Or.inr (by simp [h])
        · rcases ih h with h | h
          · exact Or.inl h
          · exact Or.inr (List.mem_cons_of_mem _ h)

/-- `bucket.Put` keeps a bucket in bbolt's key order -/
theorem sorted_dataPut (d : BucketData) (k v : Bytes) (hs : SortedData d) : SortedData (dataPut d k v) := by
  induction d with
  | nil => simp [dataPut, SortedData]
  | cons x rest ih =>
    obtain ⟨xk, xv⟩ := x
    have hs' := List.pairwise_cons.mp hs
    by_cases h1 : (xk == k) = true
    · have e : xk = k := by simpa using h1
      subst e
      simp only [dataPut, beq_self_eq_true, if_true]
      exact List.pairwise_cons.mpr ⟨hs'.1, hs'.2⟩
    · have h1' : (xk == k) = false := by simpa using h1
      have hne : ¬ xk = k := by simpa using h1'
      by_cases h2 : bytesLt k xk = true
      · simp only [dataPut, h1', h2, Bool.false_eq_true, if_false, if_true]
        refine List.pairwise_cons.mpr ⟨?_, hs⟩
        intro q hq
        rcases List.mem_cons.mp hq with rfl | hq
        · exact h2
        · exact Updog.bytesLt_trans h2 (hs'.1 q hq)
      · have h2' : bytesLt k xk = false := by simpa using h2
        have hlt : bytesLt xk k = true := by
          rcases Updog.bytesLt_total hne with h | h
          · exact h
          · rw [h] at h2'; cases h2'
        simp only [dataPut, h1', h2', Bool.false_eq_true, if_false]
        refine List.pairwise_cons.mpr ⟨?_, ih hs'.2⟩
        intro q hq
        rcases mem_dataPut rest k v q hq with rfl | hq
        · exact hlt
        · exact hs'.1 q hq

theorem sorted_replayData (d : BucketData) (puts : List PutRec) (hs : SortedData d) : SortedData (replayData d puts) := by
  induction puts generalizing d with
  | nil => exact hs
  | cons p r ih => exact ih _ (sorted_dataPut d _ _ hs)

/-- the key of a rendered `Put` is a value key `'V' ‖ be64`, or `'S'`, or `'I'` -/
theorem renderPut_key (X : Ext) (p : BoltPut) :
    (∃ h : UInt64, (renderPut X p).2.1 = 86 :: be64 h.toNat) ∨ hasPrefix (renderPut X p).2.1 [86] = false := by
  cases p with
  | val k b => exact Or.inl ⟨k, rfl⟩
  | schema s => exact Or.inr rfl
  | counter n => exact Or.inr rfl

theorem wellKeyed_dataPut (d : BucketData) (k v : Bytes) (wk : WellKeyed d)
    (hk : (∃ h : UInt64, k = 86 :: be64 h.toNat) ∨ hasPrefix k [86] = false) : WellKeyed (dataPut d k v) := by
  intro kv hkv hpre
  rcases mem_dataPut d k v kv hkv with rfl | hkv
  · rcases hk with hk | hk
    · exact hk
    · simp only at hpre; rw [hk] at hpre; cases hpre
  · exact wk kv hkv hpre

theorem wellKeyed_replayData (X : Ext) (d : BucketData) (tx : Tx) (wk : WellKeyed d) :
    WellKeyed (replayData d (tx.map (renderPut X))) := by
  induction tx generalizing d with
  | nil => exact wk
  | cons p r ih => exact ih _ (wellKeyed_dataPut d _ _ wk (renderPut_key X p))

theorem ValMap.get_eq_none_of_not_mem (m : ValMap) (k : UInt64) (h : k ∉ m.map (·.1)) : m.get k = none := by
  induction m with
  | nil => rfl
  | cons x rest ih =>
    obtain ⟨xk, xb⟩ := x
    simp only [List.map_cons, List.mem_cons, not_or] at h
    have : (xk == k) = false := by simpa using fun e => h.1 e.symm
    simp only [ValMap.get, this, Bool.false_eq_true, if_false]
    exact ih h.2

/-- the value keys after the `Put`s of a value map without duplicate keys: the serialised bitmap of the map where it
    has one, the old content elsewhere -/
theorem dataGet_replay_vals (X : Ext) (perm : ValMap) (hnd : (perm.map (·.1)).Nodup) (d : BucketData) (k : UInt64) :
    dataGet (replayData d (perm.map fun kb => renderPut X (.val kb.1 kb.2))) (86 :: be64 k.toNat)
      = match perm.get k with
        | some b => some (X.roaringToBytes b)
        | none => dataGet d (86 :: be64 k.toNat) := by
  induction perm generalizing d with
  | nil => rfl
  | cons x rest ih =>
    obtain ⟨xk, xb⟩ := x
    have hnd' := List.nodup_cons.mp hnd
    simp only [List.map_cons, replayData, List.foldl_cons]
    have := ih hnd'.2 (dataPut d (renderPut X (.val xk xb)).2.1 (renderPut X (.val xk xb)).2.2)
    simp only [replayData] at this
    rw [this]
    simp only [ValMap.get, renderPut, dataGet_dataPut]
    by_cases hk : xk = k
    · subst hk
      have hn : ValMap.get rest xk = none := ValMap.get_eq_none_of_not_mem rest xk (by simpa using hnd'.1)
      simp [hn]
    · have h1 : (xk == k) = false := by simpa using hk
      have h2 : ((86 :: be64 xk.toNat) == (86 :: be64 k.toNat)) = false := by
        have : ¬ be64 xk.toNat = be64 k.toNat := fun e => hk (be64_inj _ _ e)
        simpa using this
      simp only [h1, h2, Bool.false_eq_true, if_false]

theorem allPuts_foldl (perm : ValMap) (ms : BatchState) :
    allPuts (perm.foldl (batchStep 1000) ms) = allPuts ms ++ perm.map fun kb => BoltPut.val kb.1 kb.2 := by
  induction perm generalizing ms with
  | nil => simp
  | cons x rest ih => rw [List.foldl_cons, ih, batchStep_all]; simp

/-- the `Put`s of `WriteToBoltDatabase` in commit order: every bitmap, then the schema, then the counter -/
theorem writeTxs_flatten (s : Schema) (n : Nat) (perm : ValMap) :
    (writeTxs s n perm 1000).flatten = (perm.map fun kb => BoltPut.val kb.1 kb.2) ++ [.schema s, .counter n] := by
  have := allPuts_foldl perm {}
  simp only [allPuts, List.flatten_nil, List.nil_append] at this
  simp only [writeTxs, List.flatten_append, List.flatten_cons, List.flatten_nil, List.append_nil, ← List.append_assoc, this]

theorem beUint32_be32 (n : Nat) (h : n < 2 ^ 32) : (beUint32 (be32 n)).toNat = n := by
  have hl : (be32 n).length = 4 := rfl
  have hd : beNat (be32 n) = n := be32_roundtrip n h
  unfold beUint32
  rw [if_neg (by omega), List.take_of_length_le (by omega), hd]
  simp only [Nat.toUInt32, UInt32.toNat_ofNat']
  exact Nat.mod_eq_of_lt h

/-- **a fresh bucket after the `Put`s of `WriteToBoltDatabase` holds the writer state**, for coders that round-trip,
    any enumeration `perm` of the value map (Go's map order) that looks up like `w.vals`, and a counter below 2^32;
    and it is in bbolt's key order -/
theorem holds_replay (X : Ext) (w : Writer) (perm : ValMap) (next : UInt32)
    (hrt : ∀ b, X.roaringFromBuffer (X.roaringToBytes b) = some b)
    (hgob : X.gobDecode (X.gobEncode w.schema) = some w.schema)
    (hnd : (perm.map (·.1)).Nodup) (hperm : ∀ k, perm.get k = w.vals.get k) (hnext : next.toNat = w.next) :
    HoldsWriter X (replayData [] ((writeTxs w.schema w.next perm 1000).flatten.map (renderPut X))) w next ∧
    SortedData (replayData [] ((writeTxs w.schema w.next perm 1000).flatten.map (renderPut X))) := by
  refine ⟨?_, sorted_replayData _ _ List.Pairwise.nil⟩
  have hwk : WellKeyed (replayData [] ((writeTxs w.schema w.next perm 1000).flatten.map (renderPut X))) :=
    wellKeyed_replayData X [] _ (by intro kv h; cases h)
  rw [writeTxs_flatten] at hwk ⊢
  simp only [List.map_append, List.map_cons, List.map_nil, replayData_append, List.map_map] at hwk ⊢
  generalize hd1 : replayData [] (List.map (renderPut X ∘ fun kb => BoltPut.val kb.1 kb.2) perm) = d1 at hwk ⊢
  have hlt : w.next < 2 ^ 32 := by rw [← hnext]; exact next.toNat_lt
  refine ⟨⟨X.gobEncode w.schema, ?_, hgob⟩, ⟨be32 w.next, ?_, rfl, ?_⟩, hnext, hwk, ?_⟩
  · simp [replayData, renderPut, dataGet_dataPut]
  · simp [replayData, renderPut, dataGet_dataPut]
  · apply UInt32.toNat_inj.mp
    rw [beUint32_be32 _ hlt, hnext]
  · intro k
    have hv := dataGet_replay_vals X perm hnd [] k
    have e : (List.map (renderPut X ∘ fun kb => BoltPut.val kb.1 kb.2) perm)
        = perm.map fun kb => renderPut X (.val kb.1 kb.2) := rfl
    rw [← e, hd1] at hv
    have h83 : (([83] : Bytes) == (86 :: be64 k.toNat)) = false := by simp
    have h73 : (([73] : Bytes) == (86 :: be64 k.toNat)) = false := by simp
    simp only [replayData, renderPut, List.foldl_cons, List.foldl_nil, dataGet_dataPut, h83, h73, Bool.false_eq_true,
      if_false, hv, hperm k]
    cases w.vals.get k with
    | none => simp [dataGet]
    | some b => simp [hrt b]

/-! ### 9. rows added with the generated `AddRow`, flushed with the generated `WriteToBoltDatabase` -/

/-- `for _, r := range rows { w.AddRow(r) }` with the generated `AddRow` (each row is the list of pairs in the order
    `range` over the row map produced them) -/
def genAddRows (H : Bytes → UInt64) (hp : Heap) (idx : IndexWriter) : List Row → Heap × IndexWriter
  | [] => (hp, idx)
  | r :: rest =>
    let a := Gen.indexWriterAddRow H hp idx r
    genAddRows H a.1 a.2.1 rest

theorem writerWF_empty (H : Bytes → UInt64) : WriterWF H {} {} :=
  ⟨⟨PtrsOK.nil _, by intro cv h; cases h⟩, PtrsOK.nil _⟩

/-- **the generated `AddRow` run over a dataset is the model's `Writer.addRows`** (heap invariant kept), as long as the
    row counter stays below 2^32 -/
theorem genAddRows_eq (H : Bytes → UInt64) (rows : List Row) (hp : Heap) (idx : IndexWriter) (wf : WriterWF H hp idx)
    (hroom : idx.nextRowID.toNat + rows.length < 2 ^ 32) :
    absWriter (genAddRows H hp idx rows).1 (genAddRows H hp idx rows).2 = Writer.addRows H (absWriter hp idx) rows ∧
    WriterWF H (genAddRows H hp idx rows).1 (genAddRows H hp idx rows).2 := by
  induction rows generalizing hp idx with
  | nil => exact ⟨rfl, wf⟩
  | cons r rest ih =>
    simp only [List.length_cons] at hroom
    obtain ⟨h1, _, h3, h4, _, _⟩ := indexWriterAddRow_eq H hp idx r wf (by omega)
    have hn : (Gen.indexWriterAddRow H hp idx r).2.1.nextRowID.toNat = idx.nextRowID.toNat + 1 := by
      have := congrArg Writer.next h1
      simpa [absWriter, Writer.addRow] using this
    have := ih (Gen.indexWriterAddRow H hp idx r).1 (Gen.indexWriterAddRow H hp idx r).2.1 h4 (by omega)
    simp only [genAddRows, Writer.addRows, List.foldl_cons]
    rw [h1] at this
    exact this

theorem ValMap.get_eq_some_iff (m : ValMap) (hnd : (m.map (·.1)).Nodup) (k : UInt64) (b : Nat) :
    m.get k = some b ↔ (k, b) ∈ m := by
  induction m with
  | nil => simp [ValMap.get]
  | cons x rest ih =>
    obtain ⟨xk, xb⟩ := x
    have hnd' := List.nodup_cons.mp hnd
    by_cases hk : xk = k
    · subst hk
      simp only [ValMap.get, beq_self_eq_true, if_true, Option.some.injEq, List.mem_cons, Prod.mk.injEq, true_and]
      constructor
      · intro h; exact Or.inl h.symm
      · rintro (h | h)
        · exact h.symm
        · exact absurd (List.mem_map.mpr ⟨(xk, b), h, rfl⟩) hnd'.1
    · have h1 : (xk == k) = false := by simpa using hk
      simp only [ValMap.get, h1, Bool.false_eq_true, if_false, List.mem_cons, Prod.mk.injEq]
      rw [ih hnd'.2]
      constructor
      · exact Or.inr
      · rintro (h | h)
        · exact absurd h.1.symm hk
        · exact h

/-- a Go map enumerated in any order looks up the same -/
theorem ValMap.get_perm (m m' : ValMap) (hp : m.Perm m') (hnd : (m'.map (·.1)).Nodup) (k : UInt64) :
    m.get k = m'.get k := by
  have hnd1 : (m.map (·.1)).Nodup := (hp.map _).nodup_iff.mpr hnd
  apply Option.ext
  intro b
  rw [ValMap.get_eq_some_iff m hnd1, ValMap.get_eq_some_iff m' hnd, hp.mem_iff]

/-- **the file the generated writer leaves behind holds the model writer's index**: rows added with the generated
    `AddRow` to a new writer, flushed with the generated `WriteToBoltDatabase` (any map enumeration `rng`) into a
    database without a bucket `data`: the database is open and idle, its bucket `data` is in key order and holds
    `Writer.addRows H {} rows`. Preconditions: fewer than 2^32 rows, coders that round-trip. -/
theorem gen_written_file (H : Bytes → UInt64) (X : Ext) (rows : List Row) (hlen : rows.length < 2 ^ 32)
    (hrt : ∀ b, X.roaringFromBuffer (X.roaringToBytes b) = some b)
    (hgob : X.gobDecode (X.gobEncode (Writer.addRows H {} rows).schema) = some (Writer.addRows H {} rows).schema)
    (i n : Nat) (c : Buckets) (cs : List (List PutRec)) (hfresh : bucketsGet c dataName = none)
    (rng : List (UInt64 × Ptr)) (hrng : rng.Perm (genAddRows H {} {} rows).2.values) :
    ∃ n' c' cs' d,
      (Gen.writeToBoltDatabase X rng (idle i n c cs) (genAddRows H {} {} rows).1 (genAddRows H {} {} rows).2 (some i)).1
        = idle i n' c' cs' ∧
      bucketsGet c' dataName = some d ∧ SortedData d ∧
      HoldsWriter X d (Writer.addRows H {} rows) (genAddRows H {} {} rows).2.nextRowID := by
  obtain ⟨hw, wf⟩ := genAddRows_eq H rows {} {} (writerWF_empty H) (by simpa using hlen)
  have hw0 : absWriter ({} : Heap) ({} : IndexWriter) = ({} : Writer) := rfl
  rw [hw0] at hw
  generalize hg : genAddRows H {} {} rows = g at hw wf hrng ⊢
  obtain ⟨hp, idx⟩ := g
  simp only at hw wf hrng ⊢
  obtain ⟨n', c', cs', h1, h2⟩ := writeToBoltDatabase_committed X rng i n c cs hp idx
  have hsch : schemaValue hp idx.schema = (Writer.addRows H {} rows).schema := by rw [← hw]; rfl
  have hnx : idx.nextRowID.toNat = (Writer.addRows H {} rows).next := by rw [← hw]; rfl
  have hvals : absVals hp idx.values = (Writer.addRows H {} rows).vals := by rw [← hw]; rfl
  have hnd : ((Writer.addRows H {} rows).vals.map (·.1)).Nodup := by
    have := writer_image_keysDistinct H rows
    rwa [Image.KeysDistinct, imageOf_keys] at this
  have hpm : (absVals hp rng).Perm (Writer.addRows H {} rows).vals := by
    rw [← hvals]; exact absVals_perm hp rng idx.values hrng
  have hnd' : ((absVals hp rng).map (·.1)).Nodup := (hpm.map _).nodup_iff.mpr hnd
  obtain ⟨hh, hs⟩ := holds_replay X (Writer.addRows H {} rows) (absVals hp rng) idx.nextRowID hrt hgob hnd'
    (fun k => ValMap.get_perm _ _ hpm hnd k) hnx
  rw [hfresh, hsch, hnx] at h2
  exact ⟨n', c', cs', _, h1, h2, hs, hh⟩

/-! ### 10. the written file queried: the specification -/

/-- core of the closing theorems: `genExecute` on a file holding the written rows, in a cache state from which the
    cached evaluation / execution of this query is transparent, is the cache-free `execute` of the model -/
theorem genExecute_eq_execute (H : Bytes → UInt64) (X : Ext) (rows : List Row) (bolt : Bolt) (hp : Heap) (i : Nat)
    (d : BucketData) (next : UInt32) (vals : ColGetter)
    (hw : HoldsWriter X d (Writer.addRows H {} rows) next)
    (hg : GetColRefines (genGetCol X bolt hp vals) (fileIndex X d (Writer.addRows H {} rows).schema next))
    (hlen : rows.length < 2 ^ 64)
    {σ : Type} (C : CacheImpl σ) (st : σ) (e : Expr) (cols : List Bytes) (stale : List Gen.groupBy)
    (hte : (evalC H C (Writer.addRows H {} rows).toIndex st e).2 = eval H (Writer.addRows H {} rows).toIndex e) :
    execView (genExecute H C X bolt hp (openedIndex i (Writer.addRows H {} rows).schema next vals)
        ⟨toLib e, cols⟩ stale st) = executeC H C (Writer.addRows H {} rows).toIndex st ⟨e, cols⟩ := by
  have hix := hw.fileIndex_eq
  have hx := genExecute_eq H C X bolt hp i d (Writer.addRows H {} rows).schema next vals hg ⟨toLib e, cols⟩ stale st
    (by
      intro e' he' bm hbm
      simp only [libComplete_toLib, Option.some.injEq] at he'
      subst he'
      rw [hix, hte] at hbm
      exact Nat.lt_of_le_of_lt (eval_popcount_le H rows e bm hbm) hlen)
  simpa only [libComplete_toLib, hix] using hx

/-! ### 11. `Execute` as the server and the driver call it: `(*Result, error)` on the library's types -/

/-- `idx.Execute(q)` for a query object fresh from `convert.ToQuery` (no stale hidden state), in cache state `st`,
    as a Go call returning `(*Result, error)` -/
def genLibExecute (H : Bytes → UInt64) {σ : Type} (C : CacheImpl σ) (X : Ext) (bolt : Bolt) (hp : Heap)
    (idx : Go.T3.Index) (st : σ) (q : Go.Lib.Query) : Except Go.Err5 Go.Lib.Result :=
  match (genExecute H C X bolt hp idx q [] st).2 with
  | none => .error (.ext 2)
  | some r => .ok (libResultOf r)

theorem executeC_count_lt (H : Bytes → UInt64) {σ : Type} (C : CacheImpl σ) (ix : Updog.Index) (st : σ) (q : Query)
    (hcard : ∀ bm, (evalC H C ix st q.expr).2 = some bm → popcount bm < 2 ^ 64) (r : Result)
    (h : (executeC H C ix st q).2 = some r) : r.count < 2 ^ 64 := by
  unfold executeC at h
  cases hp : populateGroupBy ix.schema q.groupBy with
  | none => simp [hp] at h
  | some fields =>
    simp only [hp] at h
    cases he : (evalC H C ix st q.expr).2 with
    | none => simp [he] at h
    | some bm =>
      simp only [he, Option.some.injEq] at h
      rw [← h]
      exact hcard bm he

/-- **one member of a request, executed all-generated, is answered like the model's `serverExecute`**
    (`convert.ToQuery`, completeness check, library execution), from every cache state from which this query's cached
    execution is transparent, if the result's cardinality fits 64 bits -/
theorem genLibExecute_agrees (H : Bytes → UInt64) {σ : Type} (C : CacheImpl σ) (X : Ext) (bolt : Bolt) (hp : Heap)
    (i : Nat) (d : BucketData) (s : SchemaVal) (next : UInt32) (vals : ColGetter)
    (hg : GetColRefines (genGetCol X bolt hp vals) (fileIndex X d s next)) (st : σ) (q : WQuery)
    (htr : ∀ w e, q.expr = some w → w.complete = some e →
      (executeC H C (fileIndex X d s next) st ⟨e, q.groupBy⟩).2 = execute H (fileIndex X d s next) ⟨e, q.groupBy⟩)
    (hcard : ∀ w e, q.expr = some w → w.complete = some e →
      ∀ bm, (evalC H C (fileIndex X d s next) st e).2 = some bm → popcount bm < 2 ^ 64) :
    (toOutcome (genLibExecute H C X bolt hp (openedIndex i s next vals) st (Gen.ToQuery q))).map resultOfGo
      = serverExecute H (fileIndex X d s next) q := by
  have hq := ToQuery_complete q
  have hx := genExecute_eq H C X bolt hp i d s next vals hg (Gen.ToQuery q) [] st (by
    intro e he bm hbm
    rw [hq.1] at he
    cases hw : q.expr with
    | none => rw [hw] at he; cases he
    | some w => rw [hw] at he; exact hcard w e hw he bm hbm)
  rw [hq.1, hq.2] at hx
  unfold genLibExecute serverExecute
  unfold execView at hx
  cases hw : q.expr with
  | none =>
    rw [hw] at hx
    simp only [Prod.mk.injEq] at hx
    cases hr : (genExecute H C X bolt hp (openedIndex i s next vals) (Gen.ToQuery q) [] st).2 with
    | none => rfl
    | some r => rw [hr] at hx; simp at hx
  | some w =>
    rw [hw] at hx
    simp only at hx ⊢
    cases hc : w.complete with
    | none =>
      rw [hc] at hx
      simp only [Prod.mk.injEq] at hx
      cases hr : (genExecute H C X bolt hp (openedIndex i s next vals) (Gen.ToQuery q) [] st).2 with
      | none => rfl
      | some r => rw [hr] at hx; simp at hx
    | some e =>
      rw [hc] at hx
      simp only at hx ⊢
      have h2 := congrArg Prod.snd hx
      simp only at h2
      rw [htr w e hw hc] at h2
      cases hr : (genExecute H C X bolt hp (openedIndex i s next vals) (Gen.ToQuery q) [] st).2 with
      | none =>
        rw [hr] at h2
        simp only [Option.map_none] at h2
        rw [← h2]
        rfl
      | some r =>
        rw [hr] at h2
        simp only [Option.map_some] at h2
        rw [← h2]
        have hlt : r.1 < 2 ^ 64 := by
          have h3 := congrArg Prod.snd hx
          simp only [hr, Option.map_some] at h3
          exact executeC_count_lt H C _ st ⟨e, q.groupBy⟩ (hcard w e hw hc) _ h3.symm
        simp [toOutcome, Outcome.map, resultOfGo_libResultOf r hlt]

mutual
theorem complete_toWire (e : PExpr) : (Go.Parsed.Expression.toWire e).complete = some (toExpr e) :=
  match e with
  | .eq c v ph => by simp [Go.Parsed.Expression.toWire, WExpr.complete, toExpr]
  | .not e => by simp [Go.Parsed.Expression.toWire, WExpr.complete, toExpr, complete_toWire e]
  | .and es => by simp [Go.Parsed.Expression.toWire, WExpr.complete, toExpr, completeList_toWireL es]
  | .or es => by simp [Go.Parsed.Expression.toWire, WExpr.complete, toExpr, completeList_toWireL es]
theorem completeList_toWireL (es : List PExpr) :
    WExpr.completeList (Go.Parsed.Expression.toWireL es) = some (toExprs es) :=
  match es with
  | [] => by simp [Go.Parsed.Expression.toWireL, WExpr.completeList, toExprs]
  | e :: r => by
    simp [Go.Parsed.Expression.toWireL, WExpr.completeList, toExprs, complete_toWire e, completeList_toWireL r]
end

/-- a parsed query handed to `Execute` through `convert.ToQuery` is the model's `toQuery` of it -/
theorem serverExecute_toWire (H : Bytes → UInt64) (ix : Updog.Index) (q : PQuery) :
    serverExecute H ix (Go.Parsed.Query.toWire q) =
      match execute H ix (toQuery q) with
      | some r => .ok r
      | none => .error := by
  simp only [serverExecute, Go.Parsed.Query.toWire, complete_toWire, toQuery]
  cases execute H ix ⟨toExpr q.expr, q.groupBy⟩ <;> rfl

/-! ### 12. histories of queries on one cache; the generated null cache -/

/-- the `nullCache` of cache.go, from its generated methods -/
def genNullCache : CacheImpl Unit where
  get := fun s k => (s, absRes (Gen.nullCacheGet k))
  put := fun _ k bm => Gen.nullCachePut k bm

theorem genNullCache_eq : genNullCache = nullCacheImpl := rfl

/-- queries (each a query object with its own stale hidden state) executed one after the other on one cache with the
    all-generated `Execute` -/
def genExecuteAll (H : Bytes → UInt64) {σ : Type} (C : CacheImpl σ) (X : Ext) (bolt : Bolt) (hp : Heap)
    (idx : Go.T3.Index) : List (Go.Lib.Query × List Gen.groupBy) → σ → σ × List (Option Result)
  | [], s => (s, [])
  | p :: r, s =>
    let a := execView (genExecute H C X bolt hp idx p.1 p.2 s)
    let b := genExecuteAll H C X bolt hp idx r a.1
    (b.1, a.2 :: b.2)

/-- a history of well-formed queries through the all-generated `Execute` and a lawful cache, from a sound state, is the
    model's `executeAllC` -/
theorem genExecuteAll_eq (H : Bytes → UInt64) (X : Ext) (rows : List Row) (bolt : Bolt) (hp : Heap) (i : Nat)
    (d : BucketData) (next : UInt32) (vals : ColGetter)
    (hw : HoldsWriter X d (Writer.addRows H {} rows) next)
    (hg : GetColRefines (genGetCol X bolt hp vals) (fileIndex X d (Writer.addRows H {} rows).schema next))
    (hlen : rows.length < 2 ^ 64)
    {σ : Type} {C : CacheImpl σ} (L : CacheLaws C) {U : List Expr} (hU : SubClosed U)
    (hkey : KeyOK H (Writer.addRows H {} rows).toIndex U) :
    ∀ (qs : List (Query × List Gen.groupBy)) (st : σ), Sound H (Writer.addRows H {} rows).toIndex U L st →
      (∀ p ∈ qs, p.1.expr ∈ U) →
      genExecuteAll H C X bolt hp (openedIndex i (Writer.addRows H {} rows).schema next vals)
          (qs.map fun p => (⟨toLib p.1.expr, p.1.groupBy⟩, p.2)) st
        = executeAllC H C (Writer.addRows H {} rows).toIndex st (qs.map (·.1)) := by
  intro qs
  induction qs with
  | nil => intro st _ _; rfl
  | cons p r ih =>
    intro st hst hq
    obtain ⟨⟨e, cols⟩, stale⟩ := p
    have he : e ∈ U := hq (⟨e, cols⟩, stale) (List.mem_cons_self ..)
    have h1 := genExecute_eq_execute H X rows bolt hp i d next vals hw hg hlen C st e cols stale
      (C03.cache_transparent L hU hkey st hst e he).1
    have hs' := (C03.execute_transparent L hU hkey st hst ⟨e, cols⟩ he).2
    simp only [List.map_cons, genExecuteAll, executeAllC, h1]
    rw [ih _ hs' (fun p hp => hq p (List.mem_cons_of_mem _ hp))]

/-! ### 13. deciding what the generated parser returned (`PExpr` has no `DecidableEq`) -/

mutual
def peq : PExpr → PExpr → Bool
  | .eq c v p, .eq c' v' p' => c == c' && v == v' && p == p'
  | .not e, .not e' => peq e e'
  | .and es, .and es' => peqL es es'
  | .or es, .or es' => peqL es es'
  | _, _ => false
def peqL : List PExpr → List PExpr → Bool
  | [], [] => true
  | e :: r, e' :: r' => peq e e' && peqL r r'
  | _, _ => false
end

mutual
theorem peq_sound (a b : PExpr) (h : peq a b = true) : a = b :=
  match a, b with
  | .eq c v p, .eq c' v' p' => by simp only [peq, Bool.and_eq_true, beq_iff_eq] at h; rw [h.1.1, h.1.2, h.2]
  | .not e, .not e' => by rw [peq] at h; rw [peq_sound e e' h]
  | .and es, .and es' => by rw [peq] at h; rw [peqL_sound es es' h]
  | .or es, .or es' => by rw [peq] at h; rw [peqL_sound es es' h]
  | .eq _ _ _, .not _ => by simp [peq] at h
  | .eq _ _ _, .and _ => by simp [peq] at h
  | .eq _ _ _, .or _ => by simp [peq] at h
  | .not _, .eq _ _ _ => by simp [peq] at h
  | .not _, .and _ => by simp [peq] at h
  | .not _, .or _ => by simp [peq] at h
  | .and _, .eq _ _ _ => by simp [peq] at h
  | .and _, .not _ => by simp [peq] at h
  | .and _, .or _ => by simp [peq] at h
  | .or _, .eq _ _ _ => by simp [peq] at h
  | .or _, .not _ => by simp [peq] at h
  | .or _, .and _ => by simp [peq] at h
theorem peqL_sound (a b : List PExpr) (h : peqL a b = true) : a = b :=
  match a, b with
  | [], [] => rfl
  | e :: r, e' :: r' => by
    simp only [peqL, Bool.and_eq_true] at h
    rw [peq_sound e e' h.1, peqL_sound r r' h.2]
  | [], _ :: _ => by simp [peqL] at h
  | _ :: _, [] => by simp [peqL] at h
end

/-- the generated parser returned the query `q` (checkable by evaluation) -/
theorem parse_ok_of_check (fuel : Nat) (text : Bytes) (q : PQuery)
    (h : ((Gen.ParseQuery fuel text).toOption.map fun r => peq r.expr q.expr && r.groupBy == q.groupBy) = some true) :
    Gen.ParseQuery fuel text = .ok q := by
  cases hr : Gen.ParseQuery fuel text with
  | error e => rw [hr] at h; simp [Except.toOption] at h
  | ok r =>
    rw [hr] at h
    simp only [Except.toOption, Option.map_some, Option.some.injEq, Bool.and_eq_true, beq_iff_eq] at h
    obtain ⟨re, rg⟩ := r
    obtain ⟨qe, qg⟩ := q
    simp only at h
    rw [peq_sound re qe h.1, h.2]

/-! ### 14. two remarks on `Gen.Query_groupBy`: the `uint64` count, and the nil bitmap it never meets -/

theorem popcount_ones (n : Nat) : popcount (2 ^ n - 1) = n := by
  have hlt : 2 ^ n - 1 < 2 ^ n := by have := Nat.two_pow_pos n; omega
  rw [popcount_eq_countBelow n _ hlt]
  unfold countBelow
  rw [List.filter_eq_self.mpr]
  · simp
  · intro i hi
    rw [Nat.testBit_two_pow_sub_one]
    simpa using hi

/-- the unrestricted `GroupByRefines` of Props/Gen/Eval.lean does NOT hold of the generated group-by functions -/
theorem groupByRefines_unbounded_false :
    ∃ (ix : Updog.Index) (sch : Gen.schema) (g : UInt64 → Option Nat × Bool),
      schemaOf sch = ix.schema ∧ GetColRefines g ix ∧
      ¬ GroupByRefines ix (genPop sch) (fun q bm => (genGrp g q bm).map groupOf) := by
  obtain ⟨B, hB⟩ : ∃ B, popcount B = 2 ^ 64 := ⟨2 ^ (2 ^ 64) - 1, popcount_ones _⟩
  refine ⟨⟨[([97], [([120], 0)])], 0, fun _ => some B⟩, schemaTo [([97], [([120], 0)])], fun _ => (some B, false),
    schemaOf_schemaTo _, fun k => by simp, ?_⟩
  intro h
  have h1 := h [] [[97]]
  have hp : populateGroupBy [([97], [([120], (0 : UInt64))])] [[97]] = some [⟨[97], sortVals [([120], 0)]⟩] := by
    simp [populateGroupBy, Schema.col]
  simp only [hp] at h1
  have h2 := h1.2 B
  have hcard : Go.bmCard B = 0 := by
    unfold Go.bmCard
    rw [Go.bmPopcount_eq, hB]
    rfl
  have hsort : sortVals [([120], (0 : UInt64))] = [([120], 0)] := by simp [sortVals]
  have hgen : (genGrp (fun _ => (some B, false)) (genPop (schemaTo [([97], [([120], (0 : UInt64))])]) [] [[97]]).1 B) = [] := by
    have hq : (genPop (schemaTo [([97], [([120], (0 : UInt64))])]) [] [[97]]).1 = [⟨[97], [⟨[120], 0⟩]⟩] := by decide
    rw [hq]
    simp [genGrp, Gen.Query_groupBy, errToNone, Go.len, Go.bmAnd, hcard]
  rw [hgen] at h2
  simp [Updog.groupBy, refine, hsort, hB] at h2


/-- **the group-by loop never meets a nil bitmap on a written file.** `Gen.Query_groupBy` is handed the getter with
    "error" folded to `none` (`errToNone`), which also hides the case `(nil, nil)` — the preloaded getter on an absent
    key — where Go's `roaring.And(rg.result, nil)` would dereference nil. On a file that holds written rows the case does
    not arise: every value of every resolved group-by field has a bitmap, so a getter that refines the index returns
    a non-nil pointer whenever it returns no error. -/
theorem genGroupBy_no_nil (H : Bytes → UInt64) (X : Ext) (rows : List Row) (d : BucketData) (next : UInt32)
    (hw : HoldsWriter X d (Writer.addRows H {} rows) next) (g : UInt64 → Option Nat × Bool)
    (hg : GetColRefines g (fileIndex X d (Writer.addRows H {} rows).schema next))
    (cols : List Bytes) (fields : List GBField)
    (hf : populateGroupBy (Writer.addRows H {} rows).schema cols = some fields) :
    ∀ gbf ∈ fields, ∀ v ∈ gbf.values, (g v.2).2 = false → (g v.2).1.isSome = true := by
  intro gbf hgbf v hv herr
  obtain ⟨b, hb⟩ := populateGroupBy_present H rows cols fields hf gbf hgbf v hv
  have hk := hg v.2
  rw [herr, hw.fileIndex_eq] at hk
  simp only [Bool.false_eq_true, if_false, Writer.toIndex] at hk
  rw [hk, hb]
  rfl

end Updog.GeneratedEq
