/-
The generated `bigIndexWriterAddRow` (writer_big.go) against `BigWriter.addRow` (Model/BigWriter.lean): the temp bucket
as a key set, the 12-byte key layout, the periodic commit.
-/
import Updog.Proofs.GenWriterT3
import Updog.Model.BigWriter
set_option linter.unusedSimpArgs false
namespace Updog.GeneratedEq
open Updog.Go.T3

/-- the bucket name `[]byte("temp")` -/
def tempName : Bytes := [116, 101, 109, 112]

/-- `key[:8] = be64(valueIdx)`, `key[8:] = be32(rowID)`: the model's `tempKey` -/
theorem tempKey_bytes (v : UInt64) (r : UInt32) :
    bePutUint32 (bePutUint64 (zeroBytes 12) 0 8 v) 8 (Go.len (bePutUint64 (zeroBytes 12) 0 8 v)) r = tempKey v.toNat r.toNat := by
  simp [bePutUint64, bePutUint32, zeroBytes, Go.len, blit, be8, be4, tempKey, be64, be32]

theorem tempKey_nonempty (a b : Nat) : (tempKey a b).isEmpty = false := rfl

theorem dataPut_keys (d : BucketData) (k v k' : Bytes) :
    k' ∈ (dataPut d k v).map (·.1) ↔ k' = k ∨ k' ∈ d.map (·.1) := by
  induction d with
  | nil => simp [dataPut]
  | cons kv rest ih =>
    obtain ⟨k0, v0⟩ := kv
    by_cases h1 : k0 = k
    · subst h1; simp [dataPut]
    · have h1' : (k0 == k) = false := by simpa using h1
      by_cases h2 : bytesLt k k0 = true
      · simp [dataPut, h1', h2]
      · have h2' : bytesLt k k0 = false := by simpa using h2
        simp only [dataPut, h1', h2', Bool.false_eq_true, if_false, List.map_cons, List.mem_cons, ih]
        constructor
        · rintro (h | h | h)
          · exact Or.inr (Or.inl h)
          · exact Or.inl h
          · exact Or.inr (Or.inr h)
        · rintro (h | h | h)
          · exact Or.inr (Or.inl h)
          · exact Or.inl h
          · exact Or.inr (Or.inr h)

theorem insertKey_mem (t : List Bytes) (k k' : Bytes) : k' ∈ insertKey t k ↔ k' = k ∨ k' ∈ t := by
  unfold insertKey
  by_cases h : t.contains k = true
  · rw [if_pos h]
    have : k ∈ t := by simpa using h
    constructor
    · exact Or.inr
    · rintro (e | e)
      · rw [e]; exact this
      · exact e
  · rw [if_neg h]
    simp [or_comm]

section
variable (H : Bytes → UInt64)

/-- the temporary database as `AddRow` needs it: open, with the writer's transaction open and writable on it, the
    bucket `temp` holding `d` -/
def BigReady (bolt : Bolt) (idx : BigIndexWriter) (d : BucketData) : Prop :=
  bolt.closed = false ∧ idx.tempDB = some bolt.id ∧
  ∃ t, bolt.tx = some t ∧ idx.tempTx = some t.id ∧ t.writable = true ∧ bucketsGet t.buckets tempName = some d

abbrev BigSt := Bolt × Heap × BigIndexWriter

theorem big_step (values : List (Bytes × Bytes)) (rowID : UInt32) (bolt : Bolt) (hp : Heap) (idx : BigIndexWriter)
    (d : BucketData) (kv : Bytes × Bytes) (hr : BigReady bolt idx d) (wf : SchemaWF H hp idx.schema)
    (hh : idx.mtx.held = true) :
    ∃ bolt' hp' idx' d', Gen.bigIndexWriterAddRow_loop1 H values rowID (bolt, hp, idx) kv = .next (bolt', hp', idx') ∧
      BigReady bolt' idx' d' ∧ SchemaWF H hp' idx'.schema ∧
      schemaValue hp' idx'.schema = Schema.add (schemaValue hp idx.schema) kv.1 kv.2 (H (encodePair kv.1 kv.2)) ∧
      (∀ k, k ∈ d'.map (·.1) ↔ k = tempKey (H (encodePair kv.1 kv.2)).toNat rowID.toNat ∨ k ∈ d.map (·.1)) ∧
      idx'.nextRowID = idx.nextRowID ∧ idx'.mtx = idx.mtx ∧ idx'.tempTx = idx.tempTx ∧ idx'.tempDB = idx.tempDB ∧
      bolt'.id = bolt.id ∧ bolt'.commits = bolt.commits := by
  obtain ⟨h1, h2, t, h3, h4, h5, h6⟩ := hr
  obtain ⟨bid, bclosed, bcommitted, btx, bnext, bcommits⟩ := bolt
  obtain ⟨tid, twr, tbuckets, tlog⟩ := t
  obtain ⟨imtx, isch, idb, itempDB, itempTx, inext⟩ := idx
  simp only at h1 h2 h3 h4 h5 h6 wf hh
  subst h1 h2 h3 h4 h5
  obtain ⟨s1, s2, s3, s4⟩ := schemaAdd_spec H hp isch kv.1 kv.2 wf
  have hd : ([116, 101, 109, 112] : Bytes) = tempName := rfl
  unfold Gen.bigIndexWriterAddRow_loop1
  simp only [mutexTouch_of_held _ hh]
  generalize Gen.schemaAdd H hp isch kv.1 kv.2 = r at s1 s2 s3 s4 ⊢
  obtain ⟨rhp, rsch, rval⟩ := r
  simp only at s1 s2 s3 s4
  subst s2
  simp only [tempKey_bytes, hd, txBucket_mk, h6, Option.isSome_some, if_true,
    bucketPut_mk _ _ _ _ _ _ _ _ _ _ d h6 (tempKey_nonempty _ _), isErr_none, Bool.false_eq_true, if_false]
  refine ⟨_, _, _, _, rfl, ⟨rfl, rfl, _, rfl, rfl, rfl, bucketsGet_set_same _ _ _⟩, s3, s1, ?_, rfl, rfl, rfl, rfl, rfl, rfl⟩
  intro k
  exact dataPut_keys d _ _ k

/-- the model state a `BigIndexWriter` with temp bucket content `d` stands for (the counter is stated separately) -/
def BigRel (hp : Heap) (idx : BigIndexWriter) (d : BucketData) (w : BigWriter) : Prop :=
  schemaValue hp idx.schema = w.schema ∧ ∀ k, k ∈ d.map (·.1) ↔ k ∈ w.temp

/-- loop invariant of `AddRow` after the pairs `done` -/
def BigInv (idx0 : BigIndexWriter) (b0 : Bolt) (rowID : UInt32) (w : BigWriter) (done : List (Bytes × Bytes)) (st : BigSt) : Prop :=
  ∃ d, BigReady st.1 st.2.2 d ∧ SchemaWF H st.2.1 st.2.2.schema ∧
    BigRel st.2.1 st.2.2 d (done.foldl (BigWriter.addPair H rowID.toNat) w) ∧
    st.2.2.nextRowID = idx0.nextRowID ∧ st.2.2.mtx = idx0.mtx ∧ idx0.mtx.held = true ∧ st.2.2.tempTx = idx0.tempTx ∧ st.2.2.tempDB = idx0.tempDB ∧
    st.1.id = b0.id ∧ st.1.commits = b0.commits

theorem big_loop (values rng : List (Bytes × Bytes)) (rowID : UInt32) (bolt : Bolt) (hp : Heap) (idx : BigIndexWriter)
    (w : BigWriter) (h0 : BigInv H idx bolt rowID w [] (bolt, hp, idx)) :
    ∃ st', forRange rng (bolt, hp, idx) (Gen.bigIndexWriterAddRow_loop1 H values rowID) = .next st' ∧
      BigInv H idx bolt rowID w rng st' := by
  apply forRange_next (BigInv H idx bolt rowID w) _ rng _ h0
  intro done x st inv
  obtain ⟨b, h, ix⟩ := st
  obtain ⟨d, i1, i2, i3, i4, i5, ih, i6, i7, i8, i9⟩ := inv
  obtain ⟨b', h', ix', d', e, j1, j2, j3, j4, j5, j6, j7, j8, j9, j10⟩ := big_step H values rowID b h ix d x i1 i2
    (by simp only at i5; rw [i5]; exact ih)
  refine ⟨(b', h', ix'), e, d', j1, j2, ?_, j5.trans i4, j6.trans i5, ih, j7.trans i6, j8.trans i7, j9.trans i8, j10.trans i9⟩
  rw [List.foldl_append]
  simp only [List.foldl_cons, List.foldl_nil, BigWriter.addPair, BigRel]
  refine ⟨?_, ?_⟩
  · rw [j3, i3.1]
  · intro k
    rw [j4 k, insertKey_mem, i3.2 k]

theorem bigIndexWriterAddRow_spec (bolt : Bolt) (hp : Heap) (idx : BigIndexWriter) (values : List (Bytes × Bytes))
    (d : BucketData) (w : BigWriter) (hr : BigReady bolt idx d) (wf : SchemaWF H hp idx.schema) (rel : BigRel hp idx d w)
    (hnext : idx.nextRowID.toNat = w.next) (hroom : idx.nextRowID.toNat + 1 < 2 ^ 32)
    (r : Bolt × Heap × BigIndexWriter × UInt32 × Error) (hres : Gen.bigIndexWriterAddRow H bolt hp idx values = r) :
    r.2.2.2 = (idx.nextRowID, nilError) ∧
    ∃ d', BigReady r.1 r.2.2.1 d' ∧ SchemaWF H r.2.1 r.2.2.1.schema ∧
      BigRel r.2.1 r.2.2.1 d' (BigWriter.addRow H w values) ∧
      r.2.2.1.nextRowID.toNat = (BigWriter.addRow H w values).next ∧
      (idx.mtx = {} → r.2.2.1.mtx = {}) := by
  have h0 : BigInv H { idx with mtx := mutexLock idx.mtx } bolt idx.nextRowID w [] (bolt, hp, { idx with mtx := mutexLock idx.mtx }) :=
    ⟨d, hr, wf, rel, rfl, rfl, mutexLock_held _, rfl, rfl, rfl, rfl⟩
  obtain ⟨st', e, inv⟩ := big_loop H values values idx.nextRowID bolt hp { idx with mtx := mutexLock idx.mtx } w h0
  unfold Gen.bigIndexWriterAddRow at hres
  simp only [mutexTouch_mutexLock, e] at hres
  obtain ⟨b', h', ix'⟩ := st'
  obtain ⟨d', ⟨k1, k2, t, k3, k4, k5, k6⟩, i2, i3, i4, i5, ih, i6, i7, i8, i9⟩ := inv
  simp only at k1 k2 k3 k4 k5 k6 i2 i3 i4 i5 i6 i7 i8 i9
  have htouch : mutexTouch ix'.mtx = ix'.mtx := by rw [i5]; exact mutexTouch_mutexLock _
  simp only [htouch] at hres
  have hnx : (ix'.nextRowID + 1).toNat = w.next + 1 := by
    rw [i4, UInt32.toNat_add, ← hnext]
    exact Nat.mod_eq_of_lt hroom
  have hmtx : idx.mtx = {} → mutexUnlock ix'.mtx = {} := by
    intro hm; rw [i5, hm]; rfl
  have hrel : BigRel h' ix' d' (BigWriter.addRow H w values) := by
    simp only [BigWriter.addRow, ← hnext]
    exact i3
  by_cases hc : ((decide (idx.nextRowID > 0)) && (idx.nextRowID % 1000 == 0)) = true
  · -- every 1000 rows: commit the temp transaction and begin a new one
    obtain ⟨bid, bclosed, bcommitted, btx, bnext, bcommits⟩ := b'
    obtain ⟨tid, twr, tbuckets, tlog⟩ := t
    obtain ⟨imtx, isch, idb, itempDB, itempTx, inext⟩ := ix'
    simp only at k1 k2 k3 k4 k5 k6 i2 i3 i4 i5 i6 i7 i8 i9 hnx hmtx hrel htouch hres
    subst k1 k2 k3 k4 k5
    simp only [hc, if_true, txCommit_mk, isErr_none, Bool.false_eq_true, if_false, verifPoint, dbBegin_mk] at hres
    subst hres
    refine ⟨rfl, d', ⟨rfl, rfl, _, rfl, rfl, rfl, k6⟩, i2, hrel, ?_, hmtx⟩
    simp only [BigWriter.addRow]
    exact hnx
  · have hc' : ((decide (idx.nextRowID > 0)) && (idx.nextRowID % 1000 == 0)) = false := by simpa using hc
    simp only [hc', Bool.false_eq_true, if_false] at hres
    subst hres
    refine ⟨rfl, d', ⟨k1, k2, t, k3, k4, k5, k6⟩, i2, hrel, ?_, hmtx⟩
    simp only [BigWriter.addRow]
    exact hnx

end
end Updog.GeneratedEq
