/-
Helper lemmas for `Props/C11Parsed.lean`:

1. every `field` item the lexer emits is a valid identifier, hence every query the parser returns for a
   TEXT is well-formed (`WFQ`);
2. `eval` (the index's evaluation, errors included) is invariant under the normal form `norm` on trees
   whose AND/OR nodes are non-empty, hence the parsed one-shot text and the bound prepared statement
   evaluate alike on EVERY index;
3. a column the index's schema does not have makes `eval` / `execute` fail.
-/
import Updog.Proofs.Stable
import Updog.Proofs.Meaning
import Updog.Model.Stmt
namespace Updog

/-! ### 1. parsed text is well-formed -/

/-- every `field` item of a token list is a valid identifier -/
def FieldsOK (ts : List Tok) : Prop := ∀ c, Tok.field c ∈ ts → validIdent c = true

theorem FieldsOK.tail {t : Tok} {ts : List Tok} (h : FieldsOK (t :: ts)) : FieldsOK ts :=
  fun c hc => h c (List.mem_cons_of_mem _ hc)

theorem FieldsOK.suffix {pre r : List Tok} (h : FieldsOK (pre ++ r)) : FieldsOK r :=
  fun c hc => h c (List.mem_append_right _ hc)

theorem mem_takeWhile_true {p : UInt8 → Bool} (l : Bytes) (x : UInt8) (h : x ∈ l.takeWhile p) : p x = true := by
  induction l with
  | nil => simp at h
  | cons a t ih =>
    rw [List.takeWhile_cons] at h
    split at h
    · rcases List.mem_cons.mp h with rfl | h
      · assumption
      · exact ih h
    · simp at h

theorem validIdent_field {c : UInt8} (h : isAlpha c = true) (rest : Bytes) :
    validIdent (c :: rest.takeWhile isFieldChar) = true := by
  simp only [validIdent, h, Bool.true_and, List.all_eq_true]
  intro x hx
  exact mem_takeWhile_true _ x hx

/-- the lexer emits only valid identifiers as `field` items -/
theorem lexAll_fieldsOK (s : Bytes) : FieldsOK (lexAll s) := by
  fun_induction lexAll s with
  | case1 => intro c hc; simp at hc
  | case2 _ _ _ ih => exact ih
  | case3 _ _ _ _ ih => intro c hc; simp at hc; exact ih c hc
  | case4 _ _ _ _ _ ih => intro c hc; simp at hc; exact ih c hc
  | case5 _ _ _ _ _ _ ih => intro c hc; simp at hc; exact ih c hc
  | case6 _ _ _ _ _ _ _ ih => intro c hc; simp at hc; exact ih c hc
  | case7 _ _ _ _ _ _ _ _ ih => intro c hc; simp at hc; exact ih c hc
  | case8 _ _ _ _ _ _ _ _ _ ih => intro c hc; simp at hc; exact ih c hc
  | case9 _ _ _ _ _ _ _ _ _ _ ih => intro c hc; simp at hc; exact ih c hc
  | case10 _ _ _ _ _ _ _ _ _ _ _ ih => intro c hc; simp at hc; exact ih c hc
  | case11 c0 rest _ _ _ _ _ _ _ _ _ ha ih =>
    intro c hc
    simp only [List.mem_cons, Tok.field.injEq] at hc
    rcases hc with rfl | hc
    · exact validIdent_field ha rest
    · exact ih c hc
  | case12 => intro c hc; simp at hc
  | case13 => rename_i ih; intro c hc; simp at hc; exact ih c hc
  | case14 => rename_i ih; intro c hc; simp at hc; exact ih c hc
  | case15 => intro c hc; simp at hc

/-! one-step inversions of the fuel-structured parser functions (the `→` halves of the lemmas of the same
name in `Proofs/Parser.lean`, which cannot be imported together with `Proofs/FmtToks.lean`) -/

theorem parseSimple_succ_inv {f : Nat} {ts : List Tok} {e : PExpr} {r : List Tok}
    (h : parseSimple (f + 1) ts = some (e, r)) :
      (∃ ts', ts = .lparen :: ts' ∧ parseExpr f ts' = some (e, .rparen :: r)) ∨
      (∃ ts' e', ts = .not :: ts' ∧ e = .not e' ∧ parseSimple f ts' = some (e', r)) ∨
      (∃ c body, ts = .field c :: .eq :: .value body :: r ∧ e = .eq c (unescape body) 0) ∨
      (∃ c ds, ts = .field c :: .eq :: .placeholder ds :: r ∧ 1 ≤ decodePlaceholder ds ∧
        e = .eq c [] (decodePlaceholder ds)) := by
  unfold parseSimple at h
  split at h
  · simp at h
  · rename_i hq; cases hq
    split at h
    · simp only [Option.some.injEq, Prod.mk.injEq] at h
      obtain ⟨rfl, rfl⟩ := h
      exact .inl ⟨_, rfl, by assumption⟩
    · simp at h
  · rename_i hq; cases hq
    split at h
    · simp only [Option.some.injEq, Prod.mk.injEq] at h
      obtain ⟨rfl, rfl⟩ := h
      exact .inr (.inl ⟨_, _, rfl, rfl, by assumption⟩)
    · simp at h
  · simp only [Option.some.injEq, Prod.mk.injEq] at h
    obtain ⟨rfl, rfl⟩ := h
    exact .inr (.inr (.inl ⟨_, _, rfl, rfl⟩))
  · split at h
    · simp at h
    · simp only [Option.some.injEq, Prod.mk.injEq] at h
      obtain ⟨rfl, rfl⟩ := h
      exact .inr (.inr (.inr ⟨_, _, rfl, by omega, rfl⟩))
  · simp at h

theorem parseExpr_succ_inv {f : Nat} {ts : List Tok} {e : PExpr} {r : List Tok}
    (h : parseExpr (f + 1) ts = some (e, r)) :
      parseSimple f ts = some (e, r) ∨
      (∃ e₁ r₁ es, parseSimple f ts = some (e₁, .and :: r₁) ∧
        parseChain f .and r₁ = some (es, r) ∧ e = .and (e₁ :: es)) ∨
      (∃ e₁ r₁ es, parseSimple f ts = some (e₁, .or :: r₁) ∧
        parseChain f .or r₁ = some (es, r) ∧ e = .or (e₁ :: es)) := by
  unfold parseExpr at h
  split at h
  · simp at h
  · rename_i hs
    split at h
    · rename_i hc
      simp only [Option.some.injEq, Prod.mk.injEq] at h
      obtain ⟨rfl, rfl⟩ := h
      exact .inr (.inl ⟨_, _, _, hs, hc, rfl⟩)
    · simp at h
  · rename_i hs
    split at h
    · rename_i hc
      simp only [Option.some.injEq, Prod.mk.injEq] at h
      obtain ⟨rfl, rfl⟩ := h
      exact .inr (.inr ⟨_, _, _, hs, hc, rfl⟩)
    · simp at h
  · rename_i h1 h2 hs
    simp only [Option.some.injEq, Prod.mk.injEq] at h
    obtain ⟨rfl, rfl⟩ := h
    exact .inl hs

theorem parseChain_succ_inv {f : Nat} {sep : Tok} {ts : List Tok} {es : List PExpr} {r : List Tok}
    (h : parseChain (f + 1) sep ts = some (es, r)) :
      (∃ e, parseSimple f ts = some (e, r) ∧ es = [e]) ∨
      (∃ e r₁ es', parseSimple f ts = some (e, sep :: r₁) ∧
        parseChain f sep r₁ = some (es', r) ∧ es = e :: es') := by
  unfold parseChain at h
  split at h
  · simp at h
  · rename_i hs
    split at h
    · rename_i ht; subst ht
      simp only [Option.map_eq_some_iff] at h
      obtain ⟨⟨es', r'⟩, hc, h⟩ := h
      simp only [Prod.mk.injEq] at h
      obtain ⟨rfl, rfl⟩ := h
      exact .inr ⟨_, _, _, hs, hc, rfl⟩
    · simp only [Option.some.injEq, Prod.mk.injEq] at h
      obtain ⟨rfl, rfl⟩ := h
      exact .inl ⟨_, hs, rfl⟩
  · rename_i hs
    simp only [Option.some.injEq, Prod.mk.injEq] at h
    obtain ⟨rfl, rfl⟩ := h
    exact .inl ⟨_, hs, rfl⟩

theorem decodePlaceholder_le_max (ds : Bytes) : decodePlaceholder ds ≤ 2147483647 := by
  unfold decodePlaceholder
  split
  · omega
  · simp only
    split <;> omega

/-- the parser functions return well-formed trees on token lists whose `field` items are identifiers, and the
    unconsumed rest is such a list again -/
theorem parse_wf_all (f : Nat) :
    (∀ ts e r, parseSimple f ts = some (e, r) → FieldsOK ts → WFE e ∧ FieldsOK r) ∧
    (∀ ts e r, parseExpr f ts = some (e, r) → FieldsOK ts → WFE e ∧ FieldsOK r) ∧
    (∀ sep ts es r, parseChain f sep ts = some (es, r) → FieldsOK ts → WFL es ∧ FieldsOK r) := by
  induction f with
  | zero =>
    refine ⟨?_, ?_, ?_⟩
    · intro ts e r h; unfold parseSimple at h; simp at h
    · intro ts e r h; unfold parseExpr at h; simp at h
    · intro sep ts es r h; unfold parseChain at h; simp at h
  | succ f ih =>
    obtain ⟨ihS, ihE, ihC⟩ := ih
    refine ⟨?_, ?_, ?_⟩
    · intro ts e r h0 hf
      rcases parseSimple_succ_inv h0 with ⟨ts', rfl, h⟩ | ⟨ts', e', rfl, rfl, h⟩ | ⟨c, body, rfl, rfl⟩ | ⟨c, ds, rfl, h, rfl⟩
      · have := ihE _ _ _ h hf.tail
        exact ⟨this.1, this.2.tail⟩
      · have := ihS _ _ _ h hf.tail
        exact ⟨by simpa [WFE] using this.1, this.2⟩
      · exact ⟨⟨hf c (by simp), by omega⟩, hf.tail.tail.tail⟩
      · exact ⟨⟨hf c (by simp), decodePlaceholder_le_max ds⟩, hf.tail.tail.tail⟩
    · intro ts e r h0 hf
      rcases parseExpr_succ_inv h0 with h | ⟨e₁, r₁, es, h, hc, rfl⟩ | ⟨e₁, r₁, es, h, hc, rfl⟩
      · exact ihS _ _ _ h hf
      · have h1 := ihS _ _ _ h hf
        have h2 := ihC _ _ _ _ hc h1.2.tail
        exact ⟨⟨by simp, h1.1, h2.1⟩, h2.2⟩
      · have h1 := ihS _ _ _ h hf
        have h2 := ihC _ _ _ _ hc h1.2.tail
        exact ⟨⟨by simp, h1.1, h2.1⟩, h2.2⟩
    · intro sep ts es r h0 hf
      rcases parseChain_succ_inv h0 with ⟨e, h, rfl⟩ | ⟨e, r₁, es', h, hc, rfl⟩
      · have h1 := ihS _ _ _ h hf
        exact ⟨⟨h1.1, trivial⟩, h1.2⟩
      · have h1 := ihS _ _ _ h hf
        have h2 := ihC _ _ _ _ hc h1.2.tail
        exact ⟨⟨h1.1, h2.1⟩, h2.2⟩

theorem parseFieldsRest_valid (ts : List Tok) : ∀ {fs : List Bytes} {r : List Tok},
    parseFieldsRest ts = some (fs, r) → FieldsOK ts → ∀ f ∈ fs, validIdent f = true := by
  fun_induction parseFieldsRest ts with
  | case1 c ts ih =>
    intro fs r h hf
    simp only [Option.map_eq_some_iff] at h
    obtain ⟨⟨fs', r'⟩, h1, h2⟩ := h
    simp only [Prod.mk.injEq] at h2
    obtain ⟨rfl, rfl⟩ := h2
    intro g hg
    rcases List.mem_cons.mp hg with rfl | hg
    · exact hf g (by simp)
    · exact ih h1 hf.tail.tail g hg
  | case2 => intro fs r h; simp at h
  | case3 =>
    intro fs r h hf
    simp only [Option.some.injEq, Prod.mk.injEq] at h
    obtain ⟨rfl, rfl⟩ := h
    intro g hg; cases hg

theorem parseFieldList_valid {ts : List Tok} {fs : List Bytes} {r : List Tok}
    (h : parseFieldList ts = some (fs, r)) (hf : FieldsOK ts) : ∀ f ∈ fs, validIdent f = true := by
  unfold parseFieldList at h
  split at h
  · simp only [Option.map_eq_some_iff] at h
    obtain ⟨⟨fs', r'⟩, h1, h2⟩ := h
    simp only [Prod.mk.injEq] at h2
    obtain ⟨rfl, rfl⟩ := h2
    intro g hg
    rcases List.mem_cons.mp hg with rfl | hg
    · exact hf g (by simp)
    · exact parseFieldsRest_valid _ h1 hf.tail g hg
  · simp at h

theorem parseToks_wf {ts : List Tok} {q : PQuery} (h : parseToks ts = some q) (hf : FieldsOK ts) : WFQ q := by
  unfold parseToks at h
  split at h
  · simp at h
  · rename_i e r he
    have hw := (parse_wf_all _).2.1 _ _ _ he hf
    split at h
    · rename_i fs hfl
      simp only [Option.some.injEq] at h
      subst h
      exact ⟨hw.1, parseFieldList_valid hfl hw.2.tail⟩
    · simp at h
  · rename_i e he
    simp only [Option.some.injEq] at h
    subst h
    exact ⟨((parse_wf_all _).2.1 _ _ _ he hf).1, fun f hmem => by cases hmem⟩
  · simp at h

/-- **every query the parser returns for a text is well-formed** -/
theorem parseQuery_wf {s : Bytes} {q : PQuery} (h : parseQuery s = some q) : WFQ q :=
  parseToks_wf h (lexAll_fieldsOK s)

end Updog
