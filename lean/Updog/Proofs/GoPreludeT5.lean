/-
Lemmas about the primitives of `Updog/Basic/GoPreludeT5.lean`, used by `Updog/Props/Gen/{Convert,Driver,ServerLoop,
CreateRow}.lean`.
-/
import Updog.Basic.GoPreludeT5
namespace Updog.Go

/-! ### loops that append -/

theorem foldl_append_map {α β : Type} (g : α → β) (xs : List α) (init : List β) :
    List.foldl (fun acc x => acc ++ [g x]) init xs = init ++ xs.map g := by
  induction xs generalizing init with
  | nil => simp
  | cons x xs ih => simp [ih]

/-- the form `simp` brings an appending loop to -/
theorem flatten_map_single {α β : Type} (g : α → β) (xs : List α) : (xs.map fun x => [g x]).flatten = xs.map g := by
  induction xs with
  | nil => rfl
  | cons x xs ih => simp [ih]

/-- a loop that appends to one list-valued field of a record (`get`/`set` = that field) -/
theorem foldl_field_append {σ α β : Type} (get : σ → List β) (set : σ → List β → σ) (g : α → β)
    (hgs : ∀ s l, get (set s l) = l) (hss : ∀ s l l', set (set s l) l' = set s l') (hsg : ∀ s, set s (get s) = s)
    (xs : List α) (s : σ) :
    List.foldl (fun s x => set s (get s ++ [g x])) s xs = set s (get s ++ xs.map g) := by
  induction xs generalizing s with
  | nil => simp [hsg]
  | cons x xs ih => simp [ih, hgs, hss]

/-- the instances for the record types of the prelude, in the form `simp` brings the generated loops to -/
theorem foldl_ExprAnd {α : Type} (g : α → Lib.Expression) (xs : List α) (s : Lib.ExprAnd) :
    List.foldl (fun (s : Lib.ExprAnd) x => ({ Exprs := s.Exprs ++ [g x] } : Lib.ExprAnd)) s xs
      = { Exprs := s.Exprs ++ xs.map g } :=
  foldl_field_append Lib.ExprAnd.Exprs (fun _ l => { Exprs := l }) g (fun _ _ => rfl) (fun _ _ _ => rfl) (fun _ => rfl) xs s

theorem foldl_ExprOr {α : Type} (g : α → Lib.Expression) (xs : List α) (s : Lib.ExprOr) :
    List.foldl (fun (s : Lib.ExprOr) x => ({ Exprs := s.Exprs ++ [g x] } : Lib.ExprOr)) s xs
      = { Exprs := s.Exprs ++ xs.map g } :=
  foldl_field_append Lib.ExprOr.Exprs (fun _ l => { Exprs := l }) g (fun _ _ => rfl) (fun _ _ _ => rfl) (fun _ => rfl) xs s

theorem foldl_PbResult_Groups {α : Type} (g : α → Pb.Result_Group) (xs : List α) (s : Pb.Result) :
    List.foldl (fun (s : Pb.Result) x => ({ QueryId := s.QueryId, TotalCount := s.TotalCount, Groups := s.Groups ++ [g x] } : Pb.Result)) s xs
      = { QueryId := s.QueryId, TotalCount := s.TotalCount, Groups := s.Groups ++ xs.map g } :=
  foldl_field_append Pb.Result.Groups (fun s l => { s with Groups := l }) g (fun _ _ => rfl) (fun _ _ _ => rfl) (fun _ => rfl) xs s

theorem foldl_LibResult_Groups {α : Type} (g : α → Lib.ResultGroup) (xs : List α) (s : Lib.Result) :
    List.foldl (fun (s : Lib.Result) x => ({ Count := s.Count, Groups := s.Groups ++ [g x] } : Lib.Result)) s xs
      = { Count := s.Count, Groups := s.Groups ++ xs.map g } :=
  foldl_field_append Lib.Result.Groups (fun s l => { s with Groups := l }) g (fun _ _ => rfl) (fun _ _ _ => rfl) (fun _ => rfl) xs s

theorem foldl_LibResultGroup_Fields {α : Type} (g : α → Lib.ResultField) (xs : List α) (s : Lib.ResultGroup) :
    List.foldl (fun (s : Lib.ResultGroup) x => ({ Fields := s.Fields ++ [g x], Count := s.Count } : Lib.ResultGroup)) s xs
      = { Fields := s.Fields ++ xs.map g, Count := s.Count } :=
  foldl_field_append Lib.ResultGroup.Fields (fun s l => { s with Fields := l }) g (fun _ _ => rfl) (fun _ _ _ => rfl) (fun _ => rfl) xs s

theorem foldl_DrvRows_rows {α : Type} (g : α → Drv.row) (xs : List α) (s : Drv.rows) :
    List.foldl (fun (s : Drv.rows) x => ({ cols := s.cols, rows := s.rows ++ [g x], closed := s.closed, idx := s.idx } : Drv.rows)) s xs
      = { cols := s.cols, rows := s.rows ++ xs.map g, closed := s.closed, idx := s.idx } :=
  foldl_field_append Drv.rows.rows (fun s l => { s with rows := l }) g (fun _ _ => rfl) (fun _ _ _ => rfl) (fun _ => rfl) xs s

/-! ### Go.forRange -/

theorem forRange_nil {α ρ σ : Type} (init : σ) (body : σ → α → Loop ρ σ) : forRange [] init body = .go init := rfl

theorem forRange_ret_fold {α ρ σ : Type} (xs : List α) (r : ρ) (body : σ → α → Loop ρ σ) :
    xs.foldl (fun st x => match st with | .ret r => .ret r | .go s => body s x) (Loop.ret r) = .ret r := by
  induction xs with
  | nil => rfl
  | cons x xs ih => simpa using ih

theorem forRange_cons {α ρ σ : Type} (x : α) (xs : List α) (init : σ) (body : σ → α → Loop ρ σ) :
    forRange (x :: xs) init body = match body init x with | .ret r => .ret r | .go s => forRange xs s body := by
  unfold forRange
  simp only [List.foldl_cons]
  cases h : body init x with
  | ret r => exact forRange_ret_fold xs r body
  | go s => simp

/-! ### enum -/

theorem enumFrom_length {α : Type} (xs : List α) (i : Int) : (enumFrom i xs).length = xs.length := by
  induction xs generalizing i with
  | nil => rfl
  | cons x xs ih => simp [enumFrom, ih]

theorem enumFrom_map_snd {α : Type} (xs : List α) (i : Int) : (enumFrom i xs).map (·.2) = xs := by
  induction xs generalizing i with
  | nil => rfl
  | cons x xs ih => simp [enumFrom, ih]

end Updog.Go
