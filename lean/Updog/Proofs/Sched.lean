/-
Helper lemmas for C04: the logical relation `Good`, `evalProg_good`, `step_preserves`, schedules.
-/
import Updog.Proofs.Cache
namespace Updog

section
variable (H : Bytes → UInt64) (ix : Index) (U : List Expr)

/-- an answer a sound cache can give to `Get k` -/
def OkAns (k : UInt64) : Option Nat → Prop
  | none => True
  | some bm => SoundEntry H ix U k bm

/-- `Good p x`: whatever sound answers the cache gives from now on, every `Put` the program does is a correct
    entry, and if it finishes it finishes with `x`. -/
def Good : Prog → Option Nat → Prop
  | .done r, x => r = x
  | .get k cont, x => ∀ a, OkAns H ix U k a → Good (cont a) x
  | .put k bm next, x => SoundEntry H ix U k bm ∧ Good next x

variable {H ix U}

theorem withCacheK_good (hkey : KeyOK H ix U) {e : Expr} (he : e ∈ U) (x : Option Nat)
    (computeK : (Option Nat → Prog) → Prog)
    (hcomp : ∀ k', Good H ix U (k' (eval H ix e)) x → Good H ix U (computeK k') x)
    (k : Option Nat → Prog) (hk : Good H ix U (k (eval H ix e)) x) :
    Good H ix U (withCacheK (cacheKey H e) computeK k) x := by
  unfold withCacheK
  intro a ha
  cases a with
  | some bm =>
    have : eval H ix e = some bm := ha e he rfl
    simp only
    rw [← this]; exact hk
  | none =>
    simp only
    apply hcomp
    cases hv : eval H ix e with
    | none => simp only; rw [← hv]; exact hk
    | some bm =>
      simp only
      refine ⟨soundEntry_of_eval hkey he hv, ?_⟩
      rw [← hv]; exact hk

mutual
theorem evalK_good (hkey : KeyOK H ix U) (hU : SubClosed U) (e : Expr) (he : e ∈ U) (x : Option Nat)
    (k : Option Nat → Prog) (hk : Good H ix U (k (eval H ix e)) x) : Good H ix U (evalK H ix e k) x := by
  match e with
  | .eq c v =>
    unfold evalK
    cases hcol : ix.schema.col c with
    | none =>
      simp only [eval, hcol] at hk
      exact hk
    | some vs =>
      simp only
      apply withCacheK_good hkey he x _ _ k hk
      intro k' hk'
      simp only [eval, hcol] at hk'
      exact hk'
  | .not e1 =>
    unfold evalK
    apply withCacheK_good hkey he x _ _ k hk
    intro k' hk'
    apply evalK_good hkey hU e1 (hU _ he e1 (by simp [Expr.children]))
    simpa only [eval] using hk'
  | .and es =>
    unfold evalK
    apply withCacheK_good hkey he x _ _ k hk
    intro k' hk'
    apply evalListK_good hkey hU es (fun y hy => hU _ he y (by simpa [Expr.children] using hy))
    simpa only [eval] using hk'
  | .or es =>
    unfold evalK
    apply withCacheK_good hkey he x _ _ k hk
    intro k' hk'
    apply evalListK_good hkey hU es (fun y hy => hU _ he y (by simpa [Expr.children] using hy))
    simpa only [eval] using hk'
theorem evalListK_good (hkey : KeyOK H ix U) (hU : SubClosed U) (es : List Expr) (hes : ∀ e ∈ es, e ∈ U)
    (x : Option Nat) (k : Option (List Nat) → Prog) (hk : Good H ix U (k (evalList H ix es)) x) :
    Good H ix U (evalListK H ix es k) x := by
  match es with
  | [] =>
    unfold evalListK
    simpa only [evalList] using hk
  | e :: es' =>
    unfold evalListK
    apply evalK_good hkey hU e (hes e (by simp))
    simp only [evalList] at hk
    cases hv : eval H ix e with
    | none => simp only [hv] at hk ⊢; exact hk
    | some b =>
      simp only [hv] at hk ⊢
      apply evalListK_good hkey hU es' (fun y hy => hes y (by simp [hy]))
      exact hk
end

/-- the program of `e` is good for the cache-free meaning of `e` -/
theorem evalProg_good (hkey : KeyOK H ix U) (hU : SubClosed U) (e : Expr) (he : e ∈ U) :
    Good H ix U (evalProg H ix e) (eval H ix e) := by
  unfold evalProg
  apply evalK_good hkey hU e he
  simp only [Good]

variable {σ : Type} {C : CacheImpl σ} {L : CacheLaws C}

/-- one atomic step of a good program from a sound cache state leaves both good and sound -/
theorem step_preserves {s : σ} (hs : Sound H ix U L s) {p : Prog} {x : Option Nat} (hp : Good H ix U p x) :
    Sound H ix U L (p.step C s).1 ∧ Good H ix U (p.step C s).2 x := by
  cases p with
  | done r => exact ⟨hs, hp⟩
  | get k cont =>
    simp only [Prog.step]
    refine ⟨hs.get k, hp _ ?_⟩
    cases hv : (C.get s k).2 with
    | none => trivial
    | some bm => exact hs.get_ans k bm hv
  | put k bm next =>
    simp only [Prog.step]
    exact ⟨hs.put hp.1, hp.2⟩

/-- the invariant of a run: goroutine `i` is good for `xs[i]` -/
def AllGood (H : Bytes → UInt64) (ix : Index) (U : List Expr) (progs : List Prog) (xs : List (Option Nat)) : Prop :=
  ∀ (i : Nat) (p : Prog), progs[i]? = some p → ∃ x, xs[i]? = some x ∧ Good H ix U p x

theorem runSched_preserves (sched : List Nat) (s : σ) (hs : Sound H ix U L s) (progs : List Prog)
    (xs : List (Option Nat)) (hg : AllGood H ix U progs xs) :
    Sound H ix U L (runSched C s progs sched).1 ∧ AllGood H ix U (runSched C s progs sched).2 xs := by
  induction sched generalizing s progs with
  | nil => exact ⟨hs, hg⟩
  | cons i sched ih =>
    unfold runSched
    cases hp : progs[i]? with
    | none => exact ih s hs progs hg
    | some p =>
      simp only
      obtain ⟨x, hx, hgood⟩ := hg i p hp
      have h := step_preserves (L := L) hs hgood
      apply ih _ h.1
      intro j q hq
      rw [List.getElem?_set] at hq
      split at hq
      · rename_i hij
        subst hij
        split at hq
        · simp only [Option.some.injEq] at hq
          subst hq
          exact ⟨x, hx, h.2⟩
        · simp at hq
      · exact hg j q hq

theorem runSched_length (sched : List Nat) (s : σ) (progs : List Prog) :
    (runSched C s progs sched).2.length = progs.length := by
  induction sched generalizing s progs with
  | nil => rfl
  | cons i sched ih =>
    unfold runSched
    cases progs[i]? with
    | none => exact ih s progs
    | some p => simp only; rw [ih]; simp

theorem allGood_evalProg (hkey : KeyOK H ix U) (hU : SubClosed U) (es : List Expr) (hes : ∀ e ∈ es, e ∈ U) :
    AllGood H ix U (es.map (evalProg H ix)) (es.map (eval H ix)) := by
  intro i p hp
  rw [List.getElem?_map] at hp
  cases he : es[i]? with
  | none => simp [he] at hp
  | some e =>
    simp only [he, Option.map_some, Option.some.injEq] at hp
    subst hp
    refine ⟨eval H ix e, by simp [he], ?_⟩
    exact evalProg_good hkey hU e (hes e (List.mem_of_getElem? he))

/-- The post-processing `Execute` applies to the bitmap (`nil, err` / count and groups); it does not use the cache. -/
def finishQuery (ix : Index) (q : Query) (r : Option Nat) : Option Result :=
  match populateGroupBy ix.schema q.groupBy with
  | none => none
  | some fields =>
    match r with
    | none => none
    | some bm => some ⟨popcount bm, groupBy ix fields bm⟩


theorem finishQuery_eval (H : Bytes → UInt64) (ix : Index) (q : Query) :
    finishQuery ix q (eval H ix q.expr) = execute H ix q := rfl

/-! ### completeness: every program finishes, and the "one after the other" schedule finishes everybody -/

/-- number of atomic steps `p` needs from state `s` when it runs alone -/
def Prog.steps (C : CacheImpl σ) : σ → Prog → Nat
  | _, .done _ => 0
  | s, .get k cont => Prog.steps C (C.get s k).1 (cont (C.get s k).2) + 1
  | s, .put k bm next => Prog.steps C (C.put s k bm) next + 1

theorem getElem?_lt_of_some {α} {l : List α} {i : Nat} {a : α} (h : l[i]? = some a) : i < l.length := by
  rcases Nat.lt_or_ge i l.length with h' | h'
  · exact h'
  · rw [List.getElem?_eq_none h'] at h; cases h

theorem set_self_of_getElem? {α} {l : List α} {i : Nat} {a : α} (h : l[i]? = some a) : l.set i a = l := by
  have hi := getElem?_lt_of_some h
  rw [List.getElem?_eq_getElem hi] at h
  simp only [Option.some.injEq] at h
  subst h
  exact List.set_getElem_self hi

theorem runSched_append (s : σ) (progs : List Prog) (a b : List Nat) :
    runSched C s progs (a ++ b) =
      runSched C (runSched C s progs a).1 (runSched C s progs a).2 b := by
  induction a generalizing s progs with
  | nil => rfl
  | cons i a ih =>
    simp only [List.cons_append, runSched]
    cases progs[i]? with
    | none => exact ih s progs
    | some p => exact ih _ _

/-- scheduling goroutine `i` alone for `steps` steps runs it to completion (it behaves as `runProg`) -/
theorem runSched_replicate (s : σ) (progs : List Prog) (i : Nat) (p : Prog) (hp : progs[i]? = some p) :
    runSched C s progs (List.replicate (p.steps C s) i) =
      ((runProg C s p).1, progs.set i (.done (runProg C s p).2)) := by
  induction p generalizing s progs with
  | done r =>
    simp only [Prog.steps, List.replicate_zero, runSched, runProg]
    rw [set_self_of_getElem? hp]
  | get k cont ih =>
    simp only [Prog.steps, List.replicate_succ, runProg]
    unfold runSched
    simp only [hp, Prog.step]
    have hi : i < progs.length := getElem?_lt_of_some hp
    rw [ih _ (C.get s k).1 (progs.set i (cont (C.get s k).2)) (by simp [hi])]
    simp
  | put k bm next ih =>
    simp only [Prog.steps, List.replicate_succ, runProg]
    unfold runSched
    simp only [hp, Prog.step]
    have hi : i < progs.length := getElem?_lt_of_some hp
    rw [ih (C.put s k bm) (progs.set i next) (by simp [hi])]
    simp

/-- run the goroutines `done.length, done.length+1, …` one after the other, each to completion -/
theorem sequential_schedule_finishes (todo : List Prog) (done : List Prog) (s : σ)
    (hd : ∀ p ∈ done, p.isDone = true) :
    ∃ sched, ∀ p ∈ (runSched C s (done ++ todo) sched).2, p.isDone = true := by
  induction todo generalizing done s with
  | nil =>
    refine ⟨[], ?_⟩
    intro p hp
    simp only [runSched, List.append_nil] at hp
    exact hd p hp
  | cons p todo ih =>
    have hp : (done ++ p :: todo)[done.length]? = some p := by simp
    have h1 := runSched_replicate (C := C) s (done ++ p :: todo) done.length p hp
    have hset : (done ++ p :: todo).set done.length (.done (runProg C s p).2) =
        (done ++ [Prog.done (runProg C s p).2]) ++ todo := by
      simp
    obtain ⟨sched2, h2⟩ := ih (done ++ [Prog.done (runProg C s p).2]) (runProg C s p).1 (by
      intro q hq
      simp only [List.mem_append, List.mem_singleton] at hq
      rcases hq with hq | rfl
      · exact hd q hq
      · rfl)
    refine ⟨List.replicate (p.steps C s) done.length ++ sched2, ?_⟩
    intro q hq
    rw [runSched_append, h1] at hq
    simp only [hset] at hq
    exact h2 q hq

end
end Updog
