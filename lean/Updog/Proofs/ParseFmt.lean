/-
The parser inverts the token-level formatter: on the tokens of a well-formed tree `t` it returns
`rp t`, the tree with same-operator nesting flattened and single-operand AND/OR unwrapped exactly as
far as the printed text shows.
-/
import Updog.Proofs.FmtToks
namespace Updog

/-! ### what the parser returns for formatted text -/

/-- an AND/OR node unless there is exactly one operand -/
def mk1 (o : Bool) : List PExpr → PExpr
  | [x] => x
  | xs => mkOp o xs

/-- a leaf as the parser rebuilds it: the value of a placeholder leaf is not printed -/
def rpLeaf (c v : Bytes) (ph : Nat) : PExpr := if ph > 0 then .eq c [] ph else .eq c v 0

mutual
/-- the parse result of `fmtExpr e` -/
def rp : PExpr → PExpr
  | .eq c v ph => rpLeaf c v ph
  | .not e => .not (rp e)
  | .and es => mk1 false (rpCh false es)
  | .or es => mk1 true (rpCh true es)
/-- the operands the parser collects for the chain `fmtCh o es` -/
def rpCh (o : Bool) : List PExpr → List PExpr
  | [] => []
  | e :: es => rpItem o e ++ rpCh o es
/-- the operands contributed by one operand of an `o`-chain: a nested `o`-node prints without
    parentheses and is therefore spliced -/
def rpItem (o : Bool) : PExpr → List PExpr
  | .eq c v ph => [rpLeaf c v ph]
  | .not e => [.not (rp e)]
  | .and es => if o then [mk1 false (rpCh false es)] else rpCh false es
  | .or es => if o then rpCh true es else [mk1 true (rpCh true es)]
end

theorem rp_mkOp (o : Bool) (es : List PExpr) : rp (mkOp o es) = mk1 o (rpCh o es) := by
  cases o <;> simp [mkOp, rp]

theorem rpItem_mkOp (o : Bool) (es : List PExpr) : rpItem o (mkOp o es) = rpCh o es := by
  cases o <;> simp [mkOp, rpItem]

theorem rpItem_of_not_op {o : Bool} {e : PExpr} (h : isOp o e = false) : rpItem o e = [rp e] := by
  cases e <;> cases o <;> simp_all [isOp, isAnd, isOr, rpItem, rp]

theorem isOp_not_of_not_op {o : Bool} {e : PExpr} (h : isOp o e = false) :
    isOp (!o) e = (isAnd e || isOr e) := by
  cases e <;> cases o <;> simp_all [isOp, isAnd, isOr]

theorem isOp_mkOp (o : Bool) (es : List PExpr) : isOp o (mkOp o es) = true := by
  cases o <;> rfl
theorem isOp_not_mkOp (o : Bool) (es : List PExpr) : isOp (!o) (mkOp o es) = false := by
  cases o <;> rfl
theorem isAndOr_mkOp (o : Bool) (es : List PExpr) : (isAnd (mkOp o es) || isOr (mkOp o es)) = true := by
  cases o <;> rfl
theorem toksE_mkOp (o : Bool) (es : List PExpr) : toksE (mkOp o es) = toksCh o es := by
  cases o <;> simp [mkOp, toksE]

theorem mk1_cons_cons (o : Bool) (x y : PExpr) (l : List PExpr) : mk1 o (x :: y :: l) = mkOp o (x :: y :: l) := by
  rw [mk1]; intro z h; cases h

/-! ### the parser with the loops made explicit -/

/-- `parseChain` after an operand: continue on the separator, stop otherwise -/
def contChain (f : Nat) (sep : Tok) : List Tok → Option (List PExpr × List Tok)
  | [] => some ([], [])
  | t :: r => if t = sep then parseChain f sep r else some ([], t :: r)

theorem parseChain_succ (f : Nat) (sep : Tok) (ts : List Tok) :
    parseChain (f + 1) sep ts =
      match parseSimple f ts with
      | none => none
      | some (e, rest) => (contChain f sep rest).map fun er => (e :: er.1, er.2) := by
  rw [parseChain]
  cases parseSimple f ts with
  | none => rfl
  | some er =>
    obtain ⟨e, rest⟩ := er
    cases rest with
    | nil => rfl
    | cons t r =>
      simp only [contChain]
      split <;> rfl

theorem parseChain_ne_nil {f : Nat} {sep : Tok} {ts : List Tok} {es : List PExpr} {r : List Tok}
    (h : parseChain f sep ts = some (es, r)) : es ≠ [] := by
  cases f with
  | zero => simp [parseChain] at h
  | succ f =>
    rw [parseChain_succ] at h
    split at h
    · cases h
    · simp only [Option.map_eq_some_iff] at h
      obtain ⟨a, _, ha⟩ := h
      cases ha; simp

/-! ### fuel monotonicity -/

theorem parse_mono_succ (f : Nat) :
    (∀ ts r, parseSimple f ts = some r → parseSimple (f+1) ts = some r) ∧
    (∀ ts r, parseExpr f ts = some r → parseExpr (f+1) ts = some r) ∧
    (∀ sep ts r, parseChain f sep ts = some r → parseChain (f+1) sep ts = some r) := by
  induction f with
  | zero => simp [parseSimple, parseExpr, parseChain]
  | succ f ih =>
    obtain ⟨ihS, ihE, ihC⟩ := ih
    refine ⟨?_, ?_, ?_⟩
    · intro ts r h
      unfold parseSimple at h
      split at h
      · cases h
      · rename_i f' ts' hq
        cases hq
        rw [parseSimple.eq_2]
        cases he : parseExpr f ts' with
        | none => simp [he] at h
        | some er => rw [ihE _ _ he]; rw [he] at h; exact h
      · rename_i f' ts' hq
        cases hq
        rw [parseSimple.eq_3]
        cases he : parseSimple f ts' with
        | none => simp [he] at h
        | some er => rw [ihS _ _ he]; rw [he] at h; exact h
      · rw [parseSimple.eq_4]; exact h
      · rw [parseSimple.eq_5]; exact h
      · cases h
    · intro ts r h
      rw [parseExpr] at h ⊢
      cases hs : parseSimple f ts with
      | none => simp [hs] at h
      | some er =>
        obtain ⟨e, rest⟩ := er
        rw [ihS _ _ hs]
        rw [hs] at h
        split at h
        · cases h
        · rename_i e' r' hq
          cases hq
          cases hc : parseChain f .and r' with
          | none => simp [hc] at h
          | some x => simp only [ihC _ _ _ hc]; rw [hc] at h; exact h
        · rename_i e' r' hq
          cases hq
          cases hc : parseChain f .or r' with
          | none => simp [hc] at h
          | some x => simp only [ihC _ _ _ hc]; rw [hc] at h; exact h
        · rename_i e' r' h1 h2 hq
          cases hq
          cases h
          rfl
    · intro sep ts r h
      rw [parseChain_succ] at h ⊢
      cases hs : parseSimple f ts with
      | none => simp [hs] at h
      | some er =>
        obtain ⟨e, rest⟩ := er
        rw [ihS _ _ hs]
        rw [hs] at h
        simp only at h ⊢
        cases rest with
        | nil => exact h
        | cons t r' =>
          simp only [contChain] at h ⊢
          split
          · rename_i ht
            simp only [ht, if_true, Option.map_eq_some_iff] at h ⊢
            obtain ⟨a, ha, hr⟩ := h
            exact ⟨a, ihC _ _ _ ha, hr⟩
          · rename_i ht
            simpa only [ht, if_false] using h

theorem parseSimple_mono {f f' : Nat} (hf : f ≤ f') {ts r} (h : parseSimple f ts = some r) :
    parseSimple f' ts = some r := by
  induction hf with
  | refl => exact h
  | step _ ih => exact (parse_mono_succ _).1 _ _ ih

theorem parseChain_mono {f f' : Nat} (hf : f ≤ f') {sep ts r} (h : parseChain f sep ts = some r) :
    parseChain f' sep ts = some r := by
  induction hf with
  | refl => exact h
  | step _ ih => exact (parse_mono_succ _).2.2 _ _ _ ih

theorem contChain_mono {f f' : Nat} (hf : f ≤ f') {sep ts r} (h : contChain f sep ts = some r) :
    contChain f' sep ts = some r := by
  cases ts with
  | nil => exact h
  | cons t r' =>
    simp only [contChain] at h ⊢
    split
    · rename_i ht; simp only [ht, if_true] at h; exact parseChain_mono hf h
    · rename_i ht; simpa only [ht, if_false] using h

/-! ### the four statements proved together by induction on the tree -/

/-- in operand position of `^` (parenthesised iff AND/OR) `parseSimple` returns `rp e` -/
def GS (e : PExpr) : Prop :=
  ∀ rest f, (ptoks (isAnd e || isOr e) (toksE e)).length ≤ f →
    parseSimple f (ptoks (isAnd e || isOr e) (toksE e) ++ rest) = some (rp e, rest)

/-- at expression level, followed by a token that is not `&` / `|`, `parseExpr` returns `rp e` -/
def ES (e : PExpr) : Prop :=
  ∀ t r f, t ≠ .and → t ≠ .or → (toksE e).length + 1 ≤ f →
    parseExpr f (toksE e ++ t :: r) = some (rp e, t :: r)

/-- as operand of an `o`-chain, `parseChain` collects `rpItem o e` and then whatever follows -/
def ITS (o : Bool) (e : PExpr) : Prop :=
  ∀ f1 rest ys r', contChain f1 (sepTok o) rest = some (ys, r') →
    ∀ f, f1 + (ptoks (isOp (!o) e) (toksE e)).length + 1 ≤ f →
      parseChain f (sepTok o) (ptoks (isOp (!o) e) (toksE e) ++ rest) = some (rpItem o e ++ ys, r')

/-- a whole `o`-chain -/
def CHS (o : Bool) (es : List PExpr) : Prop :=
  ∀ f1 rest ys r', contChain f1 (sepTok o) rest = some (ys, r') →
    ∀ f, f1 + (toksCh o es).length + 1 ≤ f →
      parseChain f (sepTok o) (toksCh o es ++ rest) = some (rpCh o es ++ ys, r')

theorem ES_of_GS {e : PExpr} (hop : (isAnd e || isOr e) = false) (h : GS e) : ES e := by
  intro t r f ht1 ht2 hf
  obtain ⟨f', rfl⟩ : ∃ f', f = f' + 1 := ⟨f - 1, by omega⟩
  have := h (t :: r) f' (by simp only [hop, ptoks]; simp; omega)
  simp only [hop, ptoks, Bool.false_eq_true, if_false] at this
  rw [parseExpr, this]
  split
  · rename_i hq; cases hq
  · rename_i hq; cases hq; exact absurd rfl ht1
  · rename_i hq; cases hq; exact absurd rfl ht2
  · rename_i hq; cases hq; rfl

theorem ITS_of_GS {o : Bool} {e : PExpr} (hop : isOp o e = false) (h : GS e) : ITS o e := by
  intro f1 rest ys r' hc f hf
  obtain ⟨f', rfl⟩ : ∃ f', f = f' + 1 := ⟨f - 1, by omega⟩
  rw [isOp_not_of_not_op hop] at hf ⊢
  rw [parseChain_succ, h rest f' (by omega)]
  simp only
  rw [contChain_mono (by omega) hc, rpItem_of_not_op hop]
  rfl

theorem GS_of_ES {e : PExpr} (hop : (isAnd e || isOr e) = true) (h : ES e) : GS e := by
  intro rest f hf
  simp only [hop, ptoks, if_true, List.length_cons, List.length_append, List.length_nil] at hf ⊢
  obtain ⟨f', rfl⟩ : ∃ f', f = f' + 1 := ⟨f - 1, by omega⟩
  simp only [List.cons_append, List.append_assoc, List.nil_append]
  rw [parseSimple.eq_2, h .rparen rest f' (by simp) (by simp) (by omega)]

/-- a chain that stops at a non-operator token is what `parseExpr` returns (as AND/OR node if there
    are at least two operands) -/
theorem parseExpr_of_parseChain {o : Bool} {f : Nat} {ts : List Tok} {xs : List PExpr} {t : Tok}
    {r : List Tok} (h : parseChain f (sepTok o) ts = some (xs, t :: r)) (ht1 : t ≠ .and) (ht2 : t ≠ .or) :
    parseExpr f ts = some (mk1 o xs, t :: r) := by
  cases f with
  | zero => simp [parseChain] at h
  | succ f =>
    rw [parseChain_succ] at h
    rw [parseExpr]
    cases hs : parseSimple f ts with
    | none => simp [hs] at h
    | some er =>
      obtain ⟨e, rest⟩ := er
      rw [hs] at h
      simp only [Option.map_eq_some_iff] at h
      obtain ⟨⟨ys, r2⟩, hc, hx⟩ := h
      simp only [Prod.mk.injEq] at hx
      obtain ⟨rfl, rfl⟩ := hx
      cases rest with
      | nil => simp [contChain] at hc
      | cons t' r' =>
        simp only [contChain] at hc
        by_cases hsep : t' = sepTok o
        · simp only [hsep, if_true] at hc
          have hne := parseChain_ne_nil hc
          obtain ⟨y, ys', rfl⟩ := List.exists_cons_of_ne_nil hne
          rw [mk1_cons_cons]
          subst hsep
          cases o
          · simp only [sepTok] at hc ⊢
            rw [hc]; rfl
          · simp only [sepTok] at hc ⊢
            rw [hc]; rfl
        · simp only [hsep, if_false, Option.some.injEq, Prod.mk.injEq] at hc
          obtain ⟨rfl, hr⟩ := hc
          cases hr
          simp only [mk1]
          cases t <;> first | exact absurd rfl ht1 | exact absurd rfl ht2 | rfl

theorem ES_of_CHS (o : Bool) (es : List PExpr) (h : CHS o es) : ES (mkOp o es) := by
  intro t r f ht1 ht2 hf
  rw [toksE_mkOp] at hf ⊢
  rw [rp_mkOp]
  have hc : contChain 0 (sepTok o) (t :: r) = some ([], t :: r) := by
    simp only [contChain]
    have : t ≠ sepTok o := by cases o <;> assumption
    simp [this]
  have := h 0 (t :: r) [] (t :: r) hc f (by omega)
  rw [List.append_nil] at this
  exact parseExpr_of_parseChain this ht1 ht2

theorem ITS_of_CHS (o : Bool) (es : List PExpr) (h : CHS o es) : ITS o (mkOp o es) := by
  intro f1 rest ys r' hc f hf
  rw [isOp_not_mkOp, toksE_mkOp, rpItem_mkOp] at *
  simp only [ptoks, Bool.false_eq_true, if_false] at hf ⊢
  exact h f1 rest ys r' hc f hf

/-! ### the induction -/

/-- everything we know about the tokens of one well-formed tree -/
def PS (e : PExpr) : Prop := WFE e → GS e ∧ ES e ∧ ∀ o, ITS o e
def QS (es : List PExpr) : Prop := WFL es → es ≠ [] → ∀ o, CHS o es

theorem GS_leaf (c v : Bytes) (ph : Nat) (hph : ph ≤ 2147483647) : GS (.eq c v ph) := by
  intro rest f hf
  simp only [isAnd, isOr, Bool.or_self, ptoks, Bool.false_eq_true, if_false, toksE,
    List.length_cons, List.length_nil] at hf ⊢
  obtain ⟨f', rfl⟩ : ∃ f', f = f' + 1 := ⟨f - 1, by omega⟩
  simp only [List.cons_append, List.nil_append, leafTok, rp, rpLeaf]
  by_cases h : ph > 0
  · simp only [h, if_true]
    rw [parseSimple.eq_5, decodePlaceholder_natDigits hph]
    have : ¬ ph < 1 := by omega
    simp [this]
  · simp only [h, if_false]
    rw [parseSimple.eq_4, unescape_escape]

theorem PS_leaf (c v : Bytes) (ph : Nat) : PS (.eq c v ph) := by
  intro hw
  have hg := GS_leaf c v ph hw.2
  exact ⟨hg, ES_of_GS rfl hg, fun o => ITS_of_GS (by cases o <;> rfl) hg⟩

theorem GS_not (e : PExpr) (h : GS e) : GS (.not e) := by
  intro rest f hf
  have hb : (isAnd (.not e) || isOr (.not e)) = false := rfl
  have e1 : ptoks false (toksE (.not e)) = .not :: ptoks (isAnd e || isOr e) (toksE e) := by
    simp [ptoks, toksE]
  rw [hb, e1] at hf ⊢
  rw [List.length_cons] at hf
  obtain ⟨f', rfl⟩ : ∃ f', f = f' + 1 := ⟨f - 1, by omega⟩
  rw [List.cons_append, parseSimple.eq_3, h rest f' (by omega)]
  simp [rp]

theorem PS_not (e : PExpr) (ih : PS e) : PS (.not e) := by
  intro hw
  have hg := GS_not e (ih (by simpa [WFE] using hw)).1
  exact ⟨hg, ES_of_GS rfl hg, fun o => ITS_of_GS (by cases o <;> rfl) hg⟩

theorem PS_mkOp (o : Bool) (es : List PExpr) (ih : QS es) (hw : es ≠ [] ∧ WFL es) :
    GS (mkOp o es) ∧ ES (mkOp o es) ∧ ∀ o', ITS o' (mkOp o es) := by
  have hc := ih hw.2 hw.1
  have he := ES_of_CHS o es (hc o)
  have hg := GS_of_ES (isAndOr_mkOp o es) he
  refine ⟨hg, he, fun o' => ?_⟩
  by_cases hoo : o' = o
  · subst hoo; exact ITS_of_CHS _ es (hc _)
  · have : o' = !o := by cases o <;> cases o' <;> simp_all
    subst this
    exact ITS_of_GS (by simpa using isOp_not_mkOp o es) hg

theorem QS_cons (e : PExpr) (es : List PExpr) (ihe : PS e) (ihs : QS es) : QS (e :: es) := by
  intro hw _ o
  simp only [WFL] at hw
  have hit := (ihe hw.1).2.2 o
  cases es with
  | nil =>
    intro f1 rest ys r' hc f hf
    rw [toksCh_single] at hf ⊢
    have := hit f1 rest ys r' hc f hf
    simpa [rpCh] using this
  | cons e' es' =>
    have hch := ihs hw.2 (by simp) o
    intro f1 rest ys r' hc f hf
    rw [toksCh_cons2] at hf ⊢
    simp only [List.length_append, List.length_cons] at hf
    have h2 := hch f1 rest ys r' hc (f1 + (toksCh o (e' :: es')).length + 1) (Nat.le_refl _)
    have hc2 : contChain (f1 + (toksCh o (e' :: es')).length + 1) (sepTok o)
        (sepTok o :: (toksCh o (e' :: es') ++ rest)) = some (rpCh o (e' :: es') ++ ys, r') := by
      simp only [contChain, if_true]; exact h2
    have := hit _ _ _ _ hc2 f (by omega)
    rw [rpCh, List.append_assoc, List.append_assoc]
    exact this

theorem parse_inverts_toks : (∀ e, PS e) ∧ (∀ es, QS es) := by
  have hand : ∀ es, QS es → PS (.and es) := fun es ih hw => PS_mkOp false es ih (by simpa [WFE] using hw)
  have hor : ∀ es, QS es → PS (.or es) := fun es ih hw => PS_mkOp true es ih (by simpa [WFE] using hw)
  have hnil : QS [] := fun _ h => absurd rfl h
  exact ⟨PExpr.indE PS_leaf PS_not hand hor hnil QS_cons, PExpr.indL PS_leaf PS_not hand hor hnil QS_cons⟩

/-- **Parser inverts token formatter** at expression level -/
theorem parseExpr_toksE (e : PExpr) (hw : WFE e) (t : Tok) (r : List Tok) (f : Nat)
    (ht1 : t ≠ .and) (ht2 : t ≠ .or) (hf : (toksE e).length + 1 ≤ f) :
    parseExpr f (toksE e ++ t :: r) = some (rp e, t :: r) :=
  (parse_inverts_toks.1 e hw).2.1 t r f ht1 ht2 hf

/-! ### group-by list and whole queries -/

def restToks : List Bytes → List Tok
  | [] => []
  | g :: gs => .comma :: toksFields (g :: gs)

theorem toksFields_cons (f : Bytes) (fs : List Bytes) : toksFields (f :: fs) = .field f :: restToks fs := by
  cases fs with
  | nil => rfl
  | cons g gs => rw [toksFields]; rfl; simp

theorem parseFieldsRest_toks (fs : List Bytes) :
    parseFieldsRest (restToks fs ++ [.eof]) = some (fs, [.eof]) := by
  induction fs with
  | nil => simp [restToks, parseFieldsRest]
  | cons g gs ih =>
    rw [restToks, toksFields_cons]
    simp only [List.cons_append]
    rw [parseFieldsRest, ih]; rfl

theorem parseFieldList_toks (f : Bytes) (fs : List Bytes) :
    parseFieldList (toksFields (f :: fs) ++ [.eof]) = some (f :: fs, [.eof]) := by
  rw [toksFields_cons]
  simp only [List.cons_append]
  rw [parseFieldList, parseFieldsRest_toks]; rfl

/-- the parse result of `fmtQuery q` -/
def rpQ (q : PQuery) : PQuery := ⟨rp q.expr, q.groupBy⟩

theorem parseToks_toksQ (q : PQuery) (hw : WFE q.expr) : parseToks (toksQ q ++ [.eof]) = some (rpQ q) := by
  unfold parseToks toksQ rpQ
  cases hg : q.groupBy with
  | nil =>
    simp only [List.isEmpty_nil, if_true, List.append_nil]
    rw [parseExpr_toksE q.expr hw .eof [] _ (by simp) (by simp) (by simp)]
  | cons g gs =>
    simp only [List.isEmpty_cons, Bool.false_eq_true, if_false, List.append_assoc, List.cons_append]
    rw [parseExpr_toksE q.expr hw .semi _ _ (by simp) (by simp) (by simp)]
    simp only
    rw [parseFieldList_toks]

/-- **Master round-trip theorem**: formatted text of a well-formed query parses to `rpQ q` -/
theorem parseQuery_fmtQuery (q : PQuery) (hq : WFQ q) : parseQuery (fmtQuery q) = some (rpQ q) := by
  rw [parseQuery, lexAll_fmtQuery q hq, parseToks_toksQ q hq.expr]

end Updog
