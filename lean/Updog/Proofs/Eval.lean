import Updog.Proofs.Writer
namespace Updog

def rowAt (rows : List Row) (i : Nat) : Row := (rows[i]?).getD []

theorem filter_range_length {α} (l : List α) (p : α → Bool) (d : α) :
    ((List.range l.length).filter (fun i => p (l[i]?.getD d))).length = (l.filter p).length := by
  induction l with
  | nil => simp
  | cons a t ih =>
    rw [List.length_cons, List.range_succ_eq_map, List.filter_cons, List.filter_map]
    have : ((fun i => p ((a :: t)[i]?.getD d)) ∘ Nat.succ) = fun i => p (t[i]?.getD d) := by
      funext i; simp
    rw [this, List.filter_cons]
    simp only [List.getElem?_cons_zero, Option.getD_some]
    split <;> simp [ih]

theorem satAll_eq (r : Row) (es : List Expr) : satAll r es = es.all (sat r) := by
  induction es with
  | nil => simp [satAll]
  | cons e es ih => simp [satAll, ih]

theorem satAny_eq (r : Row) (es : List Expr) : satAny r es = es.any (sat r) := by
  induction es with
  | nil => simp [satAny]
  | cons e es ih => simp [satAny, ih]

theorem all_and_const {α} (l : List α) (d : Bool) (f : α → Bool) (hl : l ≠ []) :
    l.all (fun x => d && f x) = (d && l.all f) := by
  induction l with
  | nil => exact absurd rfl hl
  | cons a t ih =>
    cases t with
    | nil => simp
    | cons b t' =>
      have := ih (by simp)
      simp only [List.all_cons] at this ⊢
      rw [this]
      cases d <;> simp

theorem any_and_const {α} (l : List α) (d : Bool) (f : α → Bool) :
    l.any (fun x => d && f x) = (d && l.any f) := by
  induction l with
  | nil => simp
  | cons a t ih => simp only [List.any_cons, ih]; cases d <;> simp

section
variable (H : Bytes → UInt64)

/-- no (column,value) pair of the data shares its value index with a different pair tested by the query:
    the property's "64-bit hash collisions are assumed away", restricted to the pairs in play -/
def NoCollision (rows : List Row) (qs : List (Bytes × Bytes)) : Prop :=
  ∀ p ∈ pairsOf rows, ∀ q ∈ qs, H (encodePair p.1 p.2) = H (encodePair q.1 q.2) → p = q

theorem rowHas_eq_contains (rows : List Row) (c v : Bytes) (i : Nat)
    (hinj : NoCollision H rows [(c, v)]) :
    rowHas H rows (H (encodePair c v)) i = (decide (i < rows.length) && (rowAt rows i).contains (c, v)) := by
  unfold rowHas rowAt
  by_cases hi : i < rows.length
  · have hget : rows[i]? = some rows[i] := List.getElem?_eq_getElem hi
    simp only [hget, hi, decide_true, Bool.true_and, Option.getD_some]
    rw [Bool.eq_iff_iff]
    simp only [List.any_eq_true, beq_iff_eq, List.contains_eq_mem, decide_eq_true_eq, hashOf]
    constructor
    · rintro ⟨kv, hkv, hh⟩
      have hmem : kv ∈ pairsOf rows := by
        simp only [pairsOf, List.mem_flatMap, id]
        exact ⟨rows[i], List.getElem_mem hi, hkv⟩
      have := hinj kv hmem (c, v) (by simp) hh
      rw [← this]; exact hkv
    · intro h
      exact ⟨(c, v), h, rfl⟩
  · have : rows[i]? = none := List.getElem?_eq_none (by omega)
    simp [this, hi]

theorem NoCollision.mono {rows : List Row} {qs qs' : List (Bytes × Bytes)} (h : NoCollision H rows qs)
    (hsub : ∀ q ∈ qs', q ∈ qs) : NoCollision H rows qs' :=
  fun p hp q hq => h p hp q (hsub q hq)

mutual
theorem eval_correct (rows : List Row) (e : Expr)
    (hcols : ∀ c ∈ e.columns, c ∈ columnsOf rows) (hwf : e.arityPos = true)
    (hinj : NoCollision H rows e.pairs) :
    ∃ b, eval H (Writer.addRows H {} rows).toIndex e = some b ∧
      ∀ i, b.testBit i = (decide (i < rows.length) && sat (rowAt rows i) e) := by
  match e with
  | .eq c v =>
    have hc : c ∈ columnsOf rows := hcols c (by simp [Expr.columns])
    have hsome : ((Writer.addRows H {} rows).schema.col c).isSome = true := by
      rw [schema_col_isSome]; simp [Schema.col, hc]
    obtain ⟨vs, hvs⟩ := Option.isSome_iff_exists.mp hsome
    refine ⟨((Writer.addRows H {} rows).vals.get (H (encodePair c v))).getD 0,
      by simp [eval, Writer.toIndex, hvs], ?_⟩
    intro i
    rw [(winv_addRows H rows).vals, rowHas_eq_contains H rows c v i (by simpa [Expr.pairs] using hinj)]
    simp [sat]
  | .not e' =>
    obtain ⟨b, hb, hbits⟩ := eval_correct rows e' (by simpa [Expr.columns] using hcols)
      (by simpa [Expr.arityPos] using hwf) (by simpa [Expr.pairs] using hinj)
    have hn : (Writer.addRows H {} rows).toIndex.next = rows.length := (winv_addRows H rows).next
    refine ⟨flip rows.length b, by simp only [eval, hb, Option.map_some, hn], ?_⟩
    intro i
    rw [testBit_flip, hbits]
    simp only [sat]
    cases decide (i < rows.length) <;> simp
  | .and es =>
    simp only [Expr.arityPos, Bool.and_eq_true, Bool.not_eq_true', List.isEmpty_eq_false_iff] at hwf
    obtain ⟨bs, hbs, hbits⟩ := evalList_correct rows es (by simpa [Expr.columns] using hcols) hwf.2
      (by simpa [Expr.pairs] using hinj)
    refine ⟨andAll bs, by simp [eval, hbs], ?_⟩
    intro i
    have hne : bs ≠ [] := by
      intro h; have := congrArg List.length (hbits 0); simp [h] at this; exact hwf.1 (List.length_eq_zero_iff.mp this.symm)
    have hmap : bs.all (fun x => x.testBit i) = (List.map (fun x => x.testBit i) bs).all id := by
      simp [List.all_map, Function.comp_def]
    rw [testBit_andAll, hmap, hbits i, List.all_map]
    simp only [sat, satAll_eq, Function.comp_def, id]
    rw [all_and_const _ _ _ hwf.1]
    simp [hne]
  | .or es =>
    simp only [Expr.arityPos, Bool.and_eq_true, Bool.not_eq_true', List.isEmpty_eq_false_iff] at hwf
    obtain ⟨bs, hbs, hbits⟩ := evalList_correct rows es (by simpa [Expr.columns] using hcols) hwf.2
      (by simpa [Expr.pairs] using hinj)
    refine ⟨orAll bs, by simp [eval, hbs], ?_⟩
    intro i
    have hmap : bs.any (fun x => x.testBit i) = (List.map (fun x => x.testBit i) bs).any id := by
      simp [List.any_map, Function.comp_def]
    rw [testBit_orAll, hmap, hbits i, List.any_map]
    simp only [sat, satAny_eq, Function.comp_def, id]
    rw [any_and_const]
theorem evalList_correct (rows : List Row) (es : List Expr)
    (hcols : ∀ c ∈ Expr.columnsList es, c ∈ columnsOf rows) (hwf : Expr.arityPosList es = true)
    (hinj : NoCollision H rows (Expr.pairsList es)) :
    ∃ bs, evalList H (Writer.addRows H {} rows).toIndex es = some bs ∧
      ∀ i, bs.map (·.testBit i) = es.map fun e => (decide (i < rows.length) && sat (rowAt rows i) e) := by
  match es with
  | [] => exact ⟨[], by simp [evalList], by simp⟩
  | e :: es' =>
    simp only [Expr.arityPosList, Bool.and_eq_true] at hwf
    simp only [Expr.columnsList, List.mem_append] at hcols
    obtain ⟨b, hb, hbit⟩ := eval_correct rows e (fun c hc => hcols c (Or.inl hc)) hwf.1
      (hinj.mono H (by simp [Expr.pairsList]; intro a b h; exact Or.inl h))
    obtain ⟨bs, hbs, hbits⟩ := evalList_correct rows es' (fun c hc => hcols c (Or.inr hc)) hwf.2
      (hinj.mono H (by simp [Expr.pairsList]; intro a b h; exact Or.inr h))
    refine ⟨b :: bs, by simp [evalList, hb, hbs], ?_⟩
    intro i
    simp [hbit i, hbits i]
end

/-- unknown column → error -/
theorem eval_unknown_column (rows : List Row) (c v : Bytes) (hc : c ∉ columnsOf rows) :
    eval H (Writer.addRows H {} rows).toIndex (.eq c v) = none := by
  have hnone : ((Writer.addRows H {} rows).schema.col c).isSome = false := by
    rw [schema_col_isSome]; simp [Schema.col, hc]
  have : (Writer.addRows H {} rows).schema.col c = none := by
    cases h : (Writer.addRows H {} rows).schema.col c with
    | none => rfl
    | some x => rw [h] at hnone; simp at hnone
  simp [eval, Writer.toIndex, this]

end
end Updog
