/-
Lemmas about the Go prelude (`Updog/Basic/GoPrelude.lean`) that connect its primitives to the forms used by the
hand-written models. Used by `Updog/Props/GeneratedEq.lean`.
-/
import Updog.Basic.GoPrelude
import Updog.Model.Parser
import Updog.Model.Formatter
import Updog.Model.OpenFlags
import Updog.Model.CacheKey

namespace Updog.Go

/-! ### len / index / slices -/

theorem len_eq {α : Type} (l : List α) : len l = (l.length : Int) := rfl

theorem index_zero_cons (a : UInt8) (s : Bytes) : index (a :: s) 0 = a := by
  simp [index]

theorem sliceFrom_one_cons (a : UInt8) (s : Bytes) : sliceFrom (a :: s) 1 = s := by
  simp [sliceFrom]

theorem index_last (s : Bytes) (a : UInt8) : index (s ++ [a]) (len (s ++ [a]) - 1) = a := by
  have h : ((s ++ [a]).length : Int) - 1 = (s.length : Int) := by simp
  simp only [index, len, h]
  have h2 : ¬ ((s.length : Int) < 0) := by omega
  simp [h2]

theorem sliceTo_last (s : Bytes) (a : UInt8) : sliceTo (s ++ [a]) (len (s ++ [a]) - 1) = s := by
  have h : ((s ++ [a]).length : Int) - 1 = (s.length : Int) := by simp
  simp [sliceTo, len]

/-! ### strings.ReplaceAll -/

/-- un-doubling quotes = the model's `unescape` -/
theorem replaceAll_unescape (s : Bytes) : replaceAll s [34, 34] [34] = unescape s := by
  unfold replaceAll
  fun_induction unescape s with
  | case1 r ih =>
    simp [replaceAux, List.isPrefixOf, ih]
  | case2 x r hne ih =>
    have hp : List.isPrefixOf ([34, 34] : Bytes) (x :: r) = false := by
      cases r with
      | nil => simp [List.isPrefixOf]
      | cons y r' =>
        simp only [List.isPrefixOf, Bool.and_true]
        by_cases hx : x = 34
        · by_cases hy : y = 34
          · exact (hne r' hx (by rw [hy])).elim
          · simp [hx, Ne.symm hy]
        · simp [Ne.symm hx]
    simp [replaceAux, hp, ih]
  | case3 => simp [replaceAux]

/-- doubling quotes = the `flatMap` of the model's `quoteValue` -/
theorem replaceAll_quote (v : Bytes) :
    replaceAll v [34] [34, 34] = v.flatMap (fun c => if c == 34 then [34, 34] else [c]) := by
  unfold replaceAll
  induction v with
  | nil => simp [replaceAux]
  | cons c r ih =>
    by_cases hc : c = 34
    · subst hc
      simp [replaceAux, List.isPrefixOf, ih]
    · have : ((34 : UInt8) == c) = false := by simp [Ne.symm hc]
      simp [replaceAux, List.isPrefixOf, this, hc, ih]

/-! ### strconv.ParseInt -/

def allDigits (ds : Bytes) : Prop := ∀ d ∈ ds, 48 ≤ d.toNat ∧ d.toNat ≤ 57

instance (ds : Bytes) : Decidable (allDigits ds) := by unfold allDigits; infer_instance

theorem parseDigits_digits (ds : Bytes) (h : allDigits ds) (acc : Nat) :
    parseDigits ds acc = some (ds.foldl (fun a d => a * 10 + (d.toNat - 48)) acc) := by
  induction ds generalizing acc with
  | nil => rfl
  | cons d r ih =>
    have hd := h d (by simp)
    simp only [parseDigits, hd, and_self, if_true, List.foldl_cons]
    exact ih (fun x hx => h x (by simp [hx])) _

/-- `strconv.ParseInt(ds, 10, 32)` on a non-empty string of decimal digits -/
theorem parseInt32_digits (d : UInt8) (r : Bytes) (h : allDigits (d :: r)) :
    parseInt32 (d :: r) =
      if digitsVal (d :: r) < 2147483648 then some (digitsVal (d :: r) : Int) else none := by
  have hd := h d (by simp)
  have h43 : d ≠ 43 := by intro e; subst e; simp at hd
  have h45 : d ≠ 45 := by intro e; subst e; simp at hd
  have hm : parseMagnitude (d :: r) = some (digitsVal (d :: r)) := by
    simp only [parseMagnitude, List.isEmpty_cons, Bool.false_eq_true, if_false]
    exact parseDigits_digits _ h 0
  unfold parseInt32 parseIntDec
  split
  · rename_i heq; cases heq
  · rename_i heq; cases heq; exact absurd rfl h43
  · rename_i heq; cases heq; exact absurd rfl h45
  · rename_i c r' _ _ heq
    cases heq
    rw [hm]

/-! ### binary.BigEndian.AppendUint64 -/

theorem beAppendUint64_eq (buf : Bytes) (k : UInt64) : beAppendUint64 buf k = buf ++ be64 k.toNat := by
  have hk : k.toNat < 18446744073709551616 := k.toNat_lt
  simp only [beAppendUint64, be64, be32, List.cons_append, List.nil_append]
  generalize k.toNat = n at hk ⊢
  have e1 : n / 4294967296 % 4294967296 / 16777216 % 256 = n / 72057594037927936 % 256 := by omega
  have e2 : n / 4294967296 % 4294967296 / 65536 % 256 = n / 281474976710656 % 256 := by omega
  have e3 : n / 4294967296 % 4294967296 / 256 % 256 = n / 1099511627776 % 256 := by omega
  have e4 : n / 4294967296 % 4294967296 % 256 = n / 4294967296 % 256 := by omega
  have e5 : n % 4294967296 / 16777216 % 256 = n / 16777216 % 256 := by omega
  have e6 : n % 4294967296 / 65536 % 256 = n / 65536 % 256 := by omega
  have e7 : n % 4294967296 / 256 % 256 = n / 256 % 256 := by omega
  have e8 : n % 4294967296 % 256 = n % 256 := by omega
  simp only [e1, e2, e3, e4, e5, e6, e7, e8]

theorem foldl_beAppend (buf : Bytes) (keys : List UInt64) :
    List.foldl (fun (b : Bytes) (k : UInt64) => beAppendUint64 b k) buf keys
      = buf ++ keys.flatMap (fun k => be64 k.toNat) := by
  induction keys generalizing buf with
  | nil => simp
  | cons k r ih =>
    rw [List.foldl_cons, ih, beAppendUint64_eq, List.flatMap_cons, List.append_assoc]

theorem foldl_snoc (acc : List UInt64) (xs : List UInt64) :
    List.foldl (fun (ks : List UInt64) (e : UInt64) => ks ++ [e]) acc xs = acc ++ xs := by
  induction xs generalizing acc with
  | nil => simp
  | cons x r ih => simp [ih]

/-! ### bit clear -/

theorem andNot_eq (a b : Nat) : andNot a b = a &&& (a ^^^ b) := by
  apply Nat.eq_of_testBit_eq
  intro i
  simp only [andNot, Nat.testBit_and, Nat.testBit_xor]
  rw [Nat.testBit_bitwise (by rfl)]
  cases a.testBit i <;> cases b.testBit i <;> rfl

end Updog.Go
