/-
Helper lemmas for `Updog.Props.C09Runes`: the rune-level lexer (`Updog.Model.RuneLexer`) and the
byte-level lexer (`Updog.Model.Parser`) agree on every byte string.
-/
import Updog.Model.RuneLexer
namespace Updog.RuneLexer
open Updog

/-! ### `decodeRune` on ASCII and non-ASCII lead bytes -/

theorem toNat_lt_of_lt {b : UInt8} (h : b < 128) : b.toNat < 128 := by
  simpa [UInt8.lt_iff_toNat_lt] using h

theorem toNat_ge_of_ge {b : UInt8} (h : b ≥ 128) : b.toNat ≥ 128 := by
  have : (128 : UInt8) ≤ b := h
  simpa [UInt8.le_iff_toNat_le] using this

theorem lt_or_toNat_ge (b : UInt8) : b < 128 ∨ b.toNat ≥ 128 := by
  rcases Nat.lt_or_ge b.toNat 128 with h | h
  · left; simpa [UInt8.lt_iff_toNat_lt] using h
  · right; exact h

theorem decodeRune_ascii {b : UInt8} (rest : Bytes) (h : b < 128) :
    decodeRune (b :: rest) = (b.toNat, 1) := by
  have := toNat_lt_of_lt h
  simp [decodeRune, this]

/-- the Nat-level content of `decodeRune_nonascii`: a lead byte ≥ 0x80 gives a rune ≥ 0x80 whose
    encoding (or the single invalid byte) lies inside the input and consists of bytes ≥ 0x80 only -/
theorem decodeRune_nonascii_nat (b : UInt8) (rest : Bytes) (h : b.toNat ≥ 128) :
    (decodeRune (b :: rest)).1 ≥ 128 ∧ 1 ≤ (decodeRune (b :: rest)).2 ∧
    (decodeRune (b :: rest)).2 ≤ (b :: rest).length ∧
    ∀ x ∈ (b :: rest).take (decodeRune (b :: rest)).2, x.toNat ≥ 128 := by
  unfold decodeRune
  simp only []
  repeat' split
  all_goals simp
  all_goals omega

/-- every decoded rune on non-empty input has width between 1 and the input length -/
theorem decodeRune_width (b : UInt8) (rest : Bytes) :
    1 ≤ (decodeRune (b :: rest)).2 ∧ (decodeRune (b :: rest)).2 ≤ (b :: rest).length := by
  rcases lt_or_toNat_ge b with h | h
  · rw [decodeRune_ascii rest h]; simp
  · have := decodeRune_nonascii_nat b rest h
    exact ⟨this.2.1, this.2.2.1⟩

/-! ### byte classes versus rune classes -/

theorem beq_lit (b c : UInt8) : (b == c) = (b.toNat == c.toNat) := by
  rw [Bool.eq_iff_iff]; simp [← UInt8.toNat_inj]

theorem isSpace_toNat (b : UInt8) : isSpace b = isSpaceRune b.toNat := by
  simp only [isSpace, isSpaceRune, beq_lit]; rfl

theorem isAlpha_toNat (b : UInt8) : isAlpha b = isAlphaRune b.toNat := by
  simp only [isAlpha, isAlphaRune, UInt8.le_iff_toNat_le]; rfl

theorem isDigit_toNat (b : UInt8) : isDigit b = isDigitRune b.toNat := by
  simp only [isDigit, isDigitRune, UInt8.le_iff_toNat_le]; rfl

theorem isFieldChar_toNat (b : UInt8) : isFieldChar b = isFieldRune b.toNat := by
  simp only [isFieldChar, isFieldRune, isDigit_toNat, isAlpha_toNat, beq_lit]; rfl

theorem isSpaceRune_lt {r : Nat} (h : isSpaceRune r = true) : r < 128 := by
  simp [isSpaceRune] at h; omega
theorem isDigitRune_lt {r : Nat} (h : isDigitRune r = true) : r < 128 := by
  simp [isDigitRune] at h; omega
theorem isAlphaRune_lt {r : Nat} (h : isAlphaRune r = true) : r < 128 := by
  simp [isAlphaRune] at h; omega
theorem isFieldRune_lt {r : Nat} (h : isFieldRune r = true) : r < 128 := by
  simp only [isFieldRune, Bool.or_eq_true, beq_iff_eq] at h
  rcases h with (h | h) | h
  · exact isDigitRune_lt h
  · exact isAlphaRune_lt h
  · omega

/-! ### `acceptRun` -/

/-- a rune-level run over an ASCII rune set is the byte-level `takeWhile` / `dropWhile` over the
    corresponding byte class -/
theorem acceptRunR_eq (valid : Nat → Bool) (p : UInt8 → Bool)
    (hp : ∀ b, p b = valid b.toNat) (hv : ∀ r, valid r = true → r < 128) :
    ∀ (fuel : Nat) (s : Bytes), s.length ≤ fuel →
      acceptRunR valid fuel s = (s.takeWhile p, s.dropWhile p) := by
  intro fuel
  induction fuel with
  | zero =>
    intro s hs
    have : s = [] := List.length_eq_zero_iff.mp (Nat.le_zero.mp hs)
    subst this; simp [acceptRunR]
  | succ f ih =>
    intro s hs
    cases s with
    | nil => simp [acceptRunR]
    | cons b rest =>
      simp only [List.length_cons] at hs
      rcases lt_or_toNat_ge b with h | h
      · simp only [acceptRunR, decodeRune_ascii rest h, List.take_succ_cons, List.take_zero,
          List.drop_succ_cons, List.drop_zero, List.takeWhile_cons, List.dropWhile_cons, hp b]
        split
        · rw [ih rest (by omega)]; simp
        · rfl
      · have hr := (decodeRune_nonascii_nat b rest h).1
        have hv1 : valid (decodeRune (b :: rest)).1 = false := by
          cases hc : valid (decodeRune (b :: rest)).1 with
          | false => rfl
          | true => have := hv _ hc; omega
        have hv2 : p b = false := by
          rw [hp b]
          cases hc : valid b.toNat with
          | false => rfl
          | true => have := hv _ hc; omega
        simp [acceptRunR, hv1, hv2]

theorem acceptRunR_space (s : Bytes) :
    acceptRunR isSpaceRune s.length s = (s.takeWhile isSpace, s.dropWhile isSpace) :=
  acceptRunR_eq _ _ isSpace_toNat (fun _ => isSpaceRune_lt) _ _ (Nat.le_refl _)

theorem acceptRunR_field (s : Bytes) :
    acceptRunR isFieldRune s.length s = (s.takeWhile isFieldChar, s.dropWhile isFieldChar) :=
  acceptRunR_eq _ _ isFieldChar_toNat (fun _ => isFieldRune_lt) _ _ (Nat.le_refl _)

theorem acceptRunR_digit (s : Bytes) :
    acceptRunR isDigitRune s.length s = (s.takeWhile isDigit, s.dropWhile isDigit) :=
  acceptRunR_eq _ _ isDigit_toNat (fun _ => isDigitRune_lt) _ _ (Nat.le_refl _)

/-! ### `lexValue` -/

theorem scanStr_cons_ne {x : UInt8} (r : Bytes) (hx : x ≠ 34) :
    scanStr (x :: r) = (scanStr r).map fun br => (x :: br.1, br.2) := by
  rw [scanStr]
  all_goals (intros; contradiction)

theorem scanStr_quote_ne {c : UInt8} (r : Bytes) (hc : c ≠ 34) :
    scanStr (34 :: c :: r) = some ([], c :: r) := by
  rw [scanStr]
  intro r' h; cases h; exact hc rfl

/-- `scanStr` walks over a quote-free prefix byte by byte -/
theorem scanStr_append (pre rest : Bytes) (hpre : ∀ x ∈ pre, x ≠ 34) :
    scanStr (pre ++ rest) = (scanStr rest).map fun br => (pre ++ br.1, br.2) := by
  induction pre with
  | nil => simp
  | cons x pre ih =>
    have hx : x ≠ 34 := hpre x (by simp)
    have ih' := ih (fun y hy => hpre y (by simp [hy]))
    rw [List.cons_append, scanStr_cons_ne _ hx, ih']
    cases scanStr rest <;> simp

theorem ne34_of_ge {x : UInt8} (h : x.toNat ≥ 128) : x ≠ 34 := by
  intro hx; subst hx; simp at h

theorem toNat_eq34 (b : UInt8) : (b.toNat == 34) = (b == 34) := by
  rw [beq_lit]; rfl

/-- the rune-level string scanner is the byte-level `scanStr` -/
theorem scanStrR_eq : ∀ (fuel : Nat) (s : Bytes), s.length ≤ fuel → scanStrR fuel s = scanStr s := by
  intro fuel
  induction fuel with
  | zero =>
    intro s hs
    have : s = [] := List.length_eq_zero_iff.mp (Nat.le_zero.mp hs)
    subst this; simp [scanStrR, scanStr]
  | succ f ih =>
    intro s hs
    cases s with
    | nil => simp [scanStrR, scanStr]
    | cons b rest =>
      simp only [List.length_cons] at hs
      rcases lt_or_toNat_ge b with h | h
      · -- ASCII byte: both scanners advance by one byte
        simp only [scanStrR, decodeRune_ascii rest h, List.take_succ_cons, List.take_zero,
          List.drop_succ_cons, List.drop_zero, toNat_eq34]
        by_cases hb : b = 34
        · subst hb
          simp only [beq_self_eq_true, if_true]
          cases rest with
          | nil => simp [scanStr]
          | cons c rest' =>
            simp only [List.length_cons] at hs
            rcases lt_or_toNat_ge c with hc | hc
            · simp only [decodeRune_ascii rest' hc, List.take_succ_cons, List.take_zero,
                List.drop_succ_cons, List.drop_zero, toNat_eq34]
              by_cases hc34 : c = 34
              · subst hc34
                simp only [beq_self_eq_true, if_true]
                rw [ih rest' (by omega)]
                simp [scanStr]
              · simp only [beq_iff_eq, hc34, if_false]
                rw [scanStr_quote_ne _ hc34]
            · have hr := (decodeRune_nonascii_nat c rest' hc).1
              have hne : ((decodeRune (c :: rest')).1 == 34) = false := by
                simp only [beq_eq_false_iff_ne]; omega
              simp only [hne]
              rw [scanStr_quote_ne _ (ne34_of_ge hc)]
              simp
        · have hb' : (b == 34) = false := by simp [hb]
          simp only [hb']
          rw [ih rest (by omega), scanStr_cons_ne _ hb]
          simp
      · -- lead byte ≥ 0x80: the rune-level scanner skips `w` bytes, none of which is a quote
        obtain ⟨hr, hw1, hw2, hall⟩ := decodeRune_nonascii_nat b rest h
        have hne : ((decodeRune (b :: rest)).1 == 34) = false := by
          simp only [beq_eq_false_iff_ne]; omega
        simp only [scanStrR, hne]
        have hlen : ((b :: rest).drop (decodeRune (b :: rest)).2).length ≤ f := by
          simp only [List.length_drop, List.length_cons]; omega
        rw [ih _ hlen]
        conv => rhs; rw [← List.take_append_drop (decodeRune (b :: rest)).2 (b :: rest)]
        rw [scanStr_append _ _ (fun x hx => ne34_of_ge (hall x hx))]
        simp

/-! ### `lexText` -/

theorem lexAll_nonascii (b : UInt8) (rest : Bytes) (h : b.toNat ≥ 128) : lexAll (b :: rest) = [.error] := by
  rw [lexAll]
  have h1 : isSpace b = false := by
    rw [isSpace_toNat]; cases hc : isSpaceRune b.toNat with
    | false => rfl
    | true => have := isSpaceRune_lt hc; omega
  have h2 : isAlpha b = false := by
    rw [isAlpha_toNat]; cases hc : isAlphaRune b.toNat with
    | false => rfl
    | true => have := isAlphaRune_lt hc; omega
  have hne : ∀ c : UInt8, c.toNat < 128 → (b == c) = false := by
    intro c hc; rw [beq_lit]; simp only [beq_eq_false_iff_ne]; omega
  simp [h1, h2, hne]

theorem lexTextR_nonascii (f : Nat) (b : UInt8) (rest : Bytes) (h : b.toNat ≥ 128) :
    lexTextR (f + 1) (b :: rest) = [.error] := by
  have hr := (decodeRune_nonascii_nat b rest h).1
  have h1 : isSpaceRune (decodeRune (b :: rest)).1 = false := by
    cases hc : isSpaceRune (decodeRune (b :: rest)).1 with
    | false => rfl
    | true => have := isSpaceRune_lt hc; omega
  have h2 : isAlphaRune (decodeRune (b :: rest)).1 = false := by
    cases hc : isAlphaRune (decodeRune (b :: rest)).1 with
    | false => rfl
    | true => have := isAlphaRune_lt hc; omega
  have hne : ∀ c : Nat, c < 128 → ((decodeRune (b :: rest)).1 == c) = false := by
    intro c hc; simp only [beq_eq_false_iff_ne]; omega
  simp [lexTextR, h1, h2, hne]

theorem dropWhile_length_le (p : UInt8 → Bool) (l : Bytes) : (l.dropWhile p).length ≤ l.length :=
  (List.dropWhile_sublist p).length_le

theorem ite_both {α : Type} (c : Prop) [Decidable c] {a a' b b' : α}
    (h1 : c → a = a') (h2 : ¬c → b = b') : (if c then a else b) = (if c then a' else b') := by
  split
  · exact h1 ‹_›
  · exact h2 ‹_›

theorem lexTextR_eq : ∀ (fuel : Nat) (s : Bytes), s.length ≤ fuel → lexTextR fuel s = lexAll s := by
  intro fuel
  induction fuel with
  | zero =>
    intro s hs
    have : s = [] := List.length_eq_zero_iff.mp (Nat.le_zero.mp hs)
    subst this; simp [lexTextR, lexAll]
  | succ f ih =>
    intro s hs
    cases s with
    | nil => simp [lexTextR, lexAll]
    | cons b rest =>
      simp only [List.length_cons] at hs
      rcases lt_or_toNat_ge b with h | h
      · rw [lexAll]
        simp only [lexTextR, decodeRune_ascii rest h, List.drop_succ_cons, List.drop_zero,
          acceptRunR_space, acceptRunR_field, acceptRunR_digit, scanStrR_eq _ _ (Nat.le_refl _),
          isSpace_toNat b, isAlpha_toNat b, beq_lit b]
        simp only [UInt8.reduceToNat]
        have hrest : ∀ t : Bytes, t.length ≤ rest.length → lexTextR f t = lexAll t :=
          fun t ht => ih t (by omega)
        refine ite_both _ (fun hsp => ?_) (fun _ => ?_)
        · rw [← isSpace_toNat] at hsp
          rw [List.dropWhile_cons_of_pos hsp]
          exact hrest _ (dropWhile_length_le _ _)
        iterate 8 refine ite_both _ (fun _ => by rw [hrest rest (Nat.le_refl _)]) (fun _ => ?_)
        refine ite_both _ (fun hal => ?_) (fun _ => ?_)
        · rw [← isAlpha_toNat] at hal
          have hfc : isFieldChar b = true := by simp [isFieldChar, hal]
          rw [List.takeWhile_cons_of_pos hfc, List.dropWhile_cons_of_pos hfc]
          rw [hrest _ (dropWhile_length_le _ _)]
        refine ite_both _ (fun _ => ?_) (fun _ => ?_)
        · cases hsc : scanStr rest with
          | none => rfl
          | some br =>
            obtain ⟨body, rest'⟩ := br
            have hl := scanStr_length hsc
            simp only []
            rw [hrest rest' (by omega)]
        refine ite_both _ (fun _ => ?_) (fun _ => rfl)
        rw [hrest _ (dropWhile_length_le _ _)]
      · rw [lexAll_nonascii b rest h, lexTextR_nonascii f b rest h]

end Updog.RuneLexer
