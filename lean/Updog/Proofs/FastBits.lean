/-
The total fast helpers of `Updog/Model/FastBits.lean` compute the model's `popcount`, `setBit` fold and `execute`.
-/
import Updog.Model.FastBits
import Updog.Proofs.Bits
import Updog.Proofs.GroupBy
namespace Updog

/-! ### `popcount` splits at any bit position -/

theorem popcount_step (n : Nat) : popcount n = n % 2 + popcount (n / 2) := by
  by_cases h : n = 0
  · subst h; simp [popcount_zero]
  · exact popcount_eq n h

theorem popcount_split_mod (n k : Nat) : popcount n = popcount (n >>> k) + popcount (n % 2 ^ k) := by
  induction k generalizing n with
  | zero => simp [Nat.mod_one, popcount_zero]
  | succ k ih =>
    rw [popcount_step n, ih (n / 2), popcount_step (n % 2 ^ (k + 1))]
    have h1 : n >>> (k + 1) = (n / 2) >>> k := by
      rw [Nat.shiftRight_eq_div_pow, Nat.shiftRight_eq_div_pow, Nat.pow_succ, Nat.mul_comm,
        Nat.div_div_eq_div_mul]
    have h2 : n % 2 ^ (k + 1) % 2 = n % 2 := by
      rw [Nat.pow_succ, Nat.mul_comm]
      exact Nat.mod_mul_right_mod n 2 (2 ^ k)
    have h3 : n % 2 ^ (k + 1) / 2 = n / 2 % 2 ^ k := by
      rw [Nat.pow_succ, Nat.mul_comm]
      exact Nat.mod_mul_right_div_self n 2 (2 ^ k)
    rw [h1, h2, h3]
    omega

theorem popcount_split (n k : Nat) : popcount n = popcount (n >>> k) + popcount (n &&& (2 ^ k - 1)) := by
  rw [Nat.and_two_pow_sub_one_eq_mod]
  exact popcount_split_mod n k

theorem popcount_split_shift (n k : Nat) :
    popcount n = popcount (n >>> k) + popcount (n &&& ((1 <<< k) - 1)) := by
  rw [Nat.one_shiftLeft]
  exact popcount_split n k

/-! ### one 64-bit word -/

/-- structural `popcount` on `fuel` bits, for evaluation by `decide` -/
def popcountS : Nat → Nat → Nat
  | 0, _ => 0
  | fuel + 1, n => n % 2 + popcountS fuel (n / 2)

theorem popcountS_eq (fuel n : Nat) (h : n < 2 ^ fuel) : popcountS fuel n = popcount n := by
  induction fuel generalizing n with
  | zero =>
    have : n = 0 := by simpa using h
    subst this; simp [popcountS, popcount_zero]
  | succ f ih =>
    rw [popcountS, popcount_step n, ih (n / 2) (by rw [Nat.pow_succ] at h; omega)]

/-- the table agrees with `popcountS 8` from index `i` on -/
def checkTable : List Nat → Nat → Bool
  | [], _ => true
  | a :: as, i => a == popcountS 8 i && checkTable as (i + 1)

theorem checkTable_spec (l : List Nat) (i : Nat) (h : checkTable l i = true) (j : Nat) (hj : j < l.length) :
    l[j]? = some (popcountS 8 (i + j)) := by
  induction l generalizing i j with
  | nil => simp at hj
  | cons a as ih =>
    simp only [checkTable, Bool.and_eq_true, beq_iff_eq] at h
    cases j with
    | zero => simp [h.1]
    | succ j =>
      rw [List.getElem?_cons_succ, ih (i + 1) h.2 j (by simpa using hj)]
      congr 2; omega

set_option maxRecDepth 10000 in
theorem checkTable_popTable8 : checkTable popTable8.toList 0 = true := by decide

set_option maxRecDepth 10000 in
theorem popTable8_length : popTable8.toList.length = 256 := by decide

theorem popTable8_eq (n : Nat) (h : n < 256) : popTable8.getD n 0 = popcount n := by
  rw [← popcountS_eq 8 n (by omega), Array.getD_eq_getD_getElem?, ← Array.getElem?_toList,
    checkTable_spec _ 0 checkTable_popTable8 n (by rw [popTable8_length]; exact h)]
  simp

theorem popByte_eq (x : UInt64) : popByte x = popcount (x.toNat % 256) := by
  unfold popByte
  have h : (x &&& 0xff).toNat = x.toNat % 256 := by
    rw [UInt64.toNat_and]
    exact Nat.and_two_pow_sub_one_eq_mod x.toNat 8
  rw [h]
  exact popTable8_eq _ (Nat.mod_lt _ (by decide))

theorem popcount64_eq (x : UInt64) : popcount64 x = popcount x.toNat := by
  have hx : x.toNat < 2 ^ 64 := x.toNat_lt
  unfold popcount64
  simp only [popByte_eq, UInt64.toNat_shiftRight]
  have e8 : (8 : UInt64).toNat % 64 = 8 := by decide
  have e16 : (16 : UInt64).toNat % 64 = 16 := by decide
  have e24 : (24 : UInt64).toNat % 64 = 24 := by decide
  have e32 : (32 : UInt64).toNat % 64 = 32 := by decide
  have e40 : (40 : UInt64).toNat % 64 = 40 := by decide
  have e48 : (48 : UInt64).toNat % 64 = 48 := by decide
  have e56 : (56 : UInt64).toNat % 64 = 56 := by decide
  rw [e8, e16, e24, e32, e40, e48, e56]
  generalize x.toNat = n at hx
  have s := fun m => popcount_split_mod m 8
  have hs : ∀ a : Nat, n >>> a >>> 8 = n >>> (a + 8) := fun a => (Nat.shiftRight_add n a 8).symm
  have h0 := s n
  have h1 := s (n >>> 8)
  have h2 := s (n >>> 16)
  have h3 := s (n >>> 24)
  have h4 := s (n >>> 32)
  have h5 := s (n >>> 40)
  have h6 := s (n >>> 48)
  have h7 := s (n >>> 56)
  rw [hs] at h1 h2 h3 h4 h5 h6 h7
  have hz : n >>> (56 + 8) = 0 := by
    rw [Nat.shiftRight_eq_div_pow]
    exact Nat.div_eq_of_lt hx
  rw [hz, popcount_zero] at h7
  simp only [Nat.reduceAdd, Nat.reducePow] at h0 h1 h2 h3 h4 h5 h6 h7
  omega

/-! ### big numbers: divide and conquer -/

theorem popcount64_toUInt64 (n : Nat) (h : n < 2 ^ 64) : popcount64 n.toUInt64 = popcount n := by
  rw [popcount64_eq]
  have : n.toUInt64.toNat = n % 2 ^ 64 := by simp [Nat.toUInt64]
  rw [this, Nat.mod_eq_of_lt h]

theorem popcountFastAux_eq (fuel n : Nat) (h : n < 2 ^ (64 + fuel)) : popcountFastAux fuel n = popcount n := by
  induction fuel generalizing n with
  | zero => exact popcount64_toUInt64 n h
  | succ f ih =>
    unfold popcountFastAux
    split
    · rename_i hlt
      exact popcount64_toUInt64 n hlt
    · rename_i hge
      have hge' : ¬ n < 2 ^ 64 := hge
      have hn0 : n ≠ 0 := by
        intro h0; subst h0; exact hge' (Nat.two_pow_pos 64)
      have hL1 : ¬ n.log2 < 64 := fun hl => hge' ((Nat.log2_lt hn0).mp hl)
      have hL2 : n.log2 < 64 + (f + 1) := (Nat.log2_lt hn0).mpr h
      have hlt : n < 2 ^ (n.log2 + 1) := Nat.lt_log2_self
      simp only []
      rw [popcount_split_shift n ((n.log2 + 1) / 2)]
      generalize hk : (n.log2 + 1) / 2 = k
      congr 1
      · apply ih
        rw [Nat.shiftRight_eq_div_pow]
        have h1 : n / 2 ^ k < 2 ^ (n.log2 + 1 - k) := by
          apply Nat.div_lt_of_lt_mul
          rw [← Nat.pow_add]
          have : k + (n.log2 + 1 - k) = n.log2 + 1 := by omega
          rw [this]; exact hlt
        exact Nat.lt_of_lt_of_le h1 (Nat.pow_le_pow_right (by decide) (by omega))
      · apply ih
        rw [Nat.one_shiftLeft, Nat.and_two_pow_sub_one_eq_mod]
        exact Nat.lt_of_lt_of_le (Nat.mod_lt _ (Nat.two_pow_pos k)) (Nat.pow_le_pow_right (by decide) (by omega))

theorem popcountFast_eq (n : Nat) : popcountFast n = popcount n := by
  unfold popcountFast
  apply popcountFastAux_eq
  exact Nat.lt_of_lt_of_le Nat.lt_log2_self (Nat.pow_le_pow_right (by decide) (by omega))

/-- the recursion equation of the oracle's (formerly `partial`) definition -/
theorem popcountFast_unfold (n : Nat) :
    popcountFast n =
      if n < 18446744073709551616 then popcount64 n.toUInt64
      else popcountFast (n >>> ((Nat.log2 n + 1) / 2)) + popcountFast (n &&& ((1 <<< ((Nat.log2 n + 1) / 2)) - 1)) := by
  split
  · rename_i h
    rw [popcountFast_eq, popcount64_toUInt64 n h]
  · rw [popcountFast_eq, popcountFast_eq, popcountFast_eq]
    exact popcount_split_shift n _

/-! ### bit set from row ids -/

theorem testBit_natOfIdsSpec (ids : List Nat) (i : Nat) :
    (natOfIdsSpec ids).testBit i = decide (i ∈ ids) := by
  unfold natOfIdsSpec
  suffices h : ∀ b, (ids.foldl setBit b).testBit i = (b.testBit i || decide (i ∈ ids)) by
    rw [h 0]; simp
  induction ids with
  | nil => simp
  | cons a as ih =>
    intro b
    rw [List.foldl_cons, ih, testBit_setBit]
    by_cases h : a = i
    · subst h; simp
    · have h' : ¬ i = a := fun e => h e.symm
      simp [h, h']

theorem testBit_natOfIdsRange (ids : Array Nat) (lo hi i : Nat) :
    (natOfIdsRange ids lo hi).testBit i = true ↔ ∃ j, lo ≤ j ∧ j < hi ∧ ids[j]! = i := by
  fun_induction natOfIdsRange ids lo hi with
  | case1 lo hi h =>
    have : ¬ ∃ j, lo ≤ j ∧ j < hi ∧ ids[j]! = i := by
      rintro ⟨j, h1, h2, _⟩; omega
    simp [this]
  | case2 lo _ =>
    rw [Nat.one_shiftLeft, Nat.testBit_two_pow, decide_eq_true_iff]
    constructor
    · intro e; exact ⟨lo, Nat.le_refl _, Nat.lt_succ_self _, e⟩
    · rintro ⟨j, h1, h2, e⟩
      have : j = lo := by omega
      subst this; exact e
  | case3 lo hi h1 h2 mid ih1 ih2 =>
    rw [Nat.testBit_or, Bool.or_eq_true, ih1, ih2]
    have hm1 : lo ≤ mid := by omega
    have hm2 : mid ≤ hi := by omega
    constructor
    · rintro (⟨j, a, b, e⟩ | ⟨j, a, b, e⟩)
      · exact ⟨j, a, by omega, e⟩
      · exact ⟨j, by omega, b, e⟩
    · rintro ⟨j, a, b, e⟩
      by_cases hj : j < mid
      · exact Or.inl ⟨j, a, hj, e⟩
      · exact Or.inr ⟨j, by omega, b, e⟩

theorem testBit_natOfIdsArray (ids : Array Nat) (i : Nat) :
    (natOfIdsArray ids).testBit i = decide (i ∈ ids) := by
  unfold natOfIdsArray
  rw [Bool.eq_iff_iff, testBit_natOfIdsRange, decide_eq_true_iff]
  constructor
  · rintro ⟨j, _, hj, e⟩
    rw [getElem!_pos ids j hj] at e
    subst e
    exact Array.getElem_mem hj
  · intro h
    obtain ⟨j, hj, e⟩ := Array.mem_iff_getElem.mp h
    exact ⟨j, Nat.zero_le _, hj, by rw [getElem!_pos ids j hj]; exact e⟩

theorem testBit_natOfIds (ids : List Nat) (i : Nat) : (natOfIds ids).testBit i = decide (i ∈ ids) := by
  unfold natOfIds
  rw [testBit_natOfIdsArray]
  simp

theorem natOfIdsArray_eq (ids : Array Nat) : natOfIdsArray ids = natOfIdsSpec ids.toList := by
  apply Nat.eq_of_testBit_eq
  intro i
  rw [testBit_natOfIdsArray, testBit_natOfIdsSpec]
  simp

theorem natOfIds_eq (ids : List Nat) : natOfIds ids = ids.foldl setBit 0 := by
  apply Nat.eq_of_testBit_eq
  intro i
  rw [testBit_natOfIds, ← testBit_natOfIdsSpec]
  rfl

/-! ### `Execute` -/

theorem refineFast_eq (ix : Index) (gbf : GBField) (rgs : List (Fields × Nat)) :
    refineFast ix gbf rgs = refine ix gbf rgs := by
  unfold refineFast refine
  apply flatMap_congr'
  intro rg _
  apply filterMap_congr'
  intro v _
  cases ix.getCol v.2 with
  | none => rfl
  | some vbm =>
    by_cases h : rg.2 &&& vbm = 0
    · simp [h, popcount_zero]
    · have h' : ¬ popcount (rg.2 &&& vbm) = 0 := fun e => h ((popcount_eq_zero_iff _).mp e)
      simp [h, h']

theorem refineFast_funext (ix : Index) :
    (fun rgs gbf => refineFast ix gbf rgs) = (fun rgs gbf => refine ix gbf rgs) := by
  funext rgs gbf
  exact refineFast_eq ix gbf rgs

theorem groupByFast_eq (ix : Index) (fields : List GBField) (result : Nat) :
    groupByFast ix fields result = groupBy ix fields result := by
  unfold groupByFast groupBy
  rw [refineFast_funext]
  have : (fun rg : Fields × Nat => (rg.1, popcountFast rg.2)) = (fun rg => (rg.1, popcount rg.2)) := by
    funext rg; rw [popcountFast_eq]
  rw [this]

theorem executeFast_eq_stale (H : Bytes → UInt64) (ix : Index) (q : Query) (stale : List GBField) :
    executeFast H ix q = execute H ix q stale := by
  unfold executeFast execute
  cases populateGroupBy ix.schema q.groupBy with
  | none => rfl
  | some fields =>
    cases eval H ix q.expr with
    | none => rfl
    | some bm => simp only [popcountFast_eq, groupByFast_eq]

end Updog
