/-
Helper lemmas for C03: the cache contract, its instances (null cache, LRU with every capacity),
soundness of `evalC`, the program view (`runProg_evalProg`).
-/
import Updog.Model.Cache
namespace Updog

/-! ### the contract a cache implementation has to satisfy -/

/-- `holds s k bm`: in state `s` the cache may answer `Get k` with `bm` (now or after further operations).
    The laws say: answers come from what is held, `Get` adds nothing, `Put k bm` adds at most `(k, bm)`.
    Nothing is required about what the cache keeps: it may forget anything at any time. -/
structure CacheLaws {σ : Type} (C : CacheImpl σ) where
  holds : σ → UInt64 → Nat → Prop
  get_holds : ∀ s k bm, (C.get s k).2 = some bm → holds s k bm
  get_mono : ∀ s k k' bm, holds (C.get s k).1 k' bm → holds s k' bm
  put_holds : ∀ s k bm k' bm', holds (C.put s k bm) k' bm' → (k' = k ∧ bm' = bm) ∨ holds s k' bm'

def nullCacheLaws : CacheLaws nullCacheImpl where
  holds := fun _ _ _ => False
  get_holds := by intro s k bm h; simp [nullCacheImpl] at h
  get_mono := by intro s k k' bm h; exact h
  put_holds := by intro s k bm k' bm' h; exact Or.inr h

/-! #### LRU -/

theorem evict_subset (ovh max : Nat) (items : List Item) (cur : Nat) :
    ∀ it ∈ (evict ovh max items cur).1, it ∈ items := by
  fun_induction evict ovh max items cur with
  | case1 items cur h ih =>
    intro it hit
    exact List.dropLast_subset _ (ih it hit)
  | case2 items cur h => intro it hit; exact hit

def lruHolds (c : Lru) (k : UInt64) (bm : Nat) : Prop := ∃ it ∈ c.items, it.key = k.toNat ∧ it.bm = bm

theorem lru_get_holds (c : Lru) (k : Nat) (bm : Nat) (h : (c.get k).2 = some bm) :
    ∃ it ∈ c.items, it.key = k ∧ it.bm = bm := by
  unfold Lru.get at h
  split at h
  · simp at h
  · rename_i it hfind
    simp only [Option.some.injEq] at h
    refine ⟨it, List.mem_of_find?_eq_some hfind, ?_, h⟩
    have := List.find?_some hfind
    simpa using this

theorem lru_get_items (c : Lru) (k : Nat) : ∀ it ∈ (c.get k).1.items, it ∈ c.items := by
  intro it hit
  unfold Lru.get at hit
  split at hit
  · exact hit
  · rename_i it' hfind
    simp only [List.mem_cons, List.mem_filter] at hit
    rcases hit with rfl | ⟨h, _⟩
    · exact List.mem_of_find?_eq_some hfind
    · exact h

theorem lru_put_items (c : Lru) (k bm size : Nat) :
    ∀ it ∈ (c.put k bm size).items, it = ⟨k, size, bm⟩ ∨ it ∈ c.items := by
  intro it hit
  unfold Lru.put at hit
  split at hit
  · have := evict_subset _ _ _ _ it hit
    simp only [List.mem_cons, List.mem_filter] at this
    rcases this with rfl | ⟨h, _⟩
    · exact Or.inl rfl
    · exact Or.inr h
  · have := evict_subset _ _ _ _ it hit
    simp only [List.mem_cons] at this
    exact this

/-- the LRU cache satisfies the contract, for every capacity (`c.max`, including 0), every overhead, every size
    function -/
def lruCacheLaws (sz : Nat → Nat) : CacheLaws (lruCacheImpl sz) where
  holds := lruHolds
  get_holds := by
    intro s k bm h
    exact lru_get_holds s k.toNat bm h
  get_mono := by
    intro s k k' bm ⟨it, hit, h⟩
    exact ⟨it, lru_get_items s k.toNat it hit, h⟩
  put_holds := by
    intro s k bm k' bm' ⟨it, hit, hk, hb⟩
    rcases lru_put_items s k.toNat bm (sz bm) it hit with rfl | h
    · left
      simp only at hk hb
      exact ⟨(UInt64.toNat_inj.mp hk).symm, hb.symm⟩
    · exact Or.inr ⟨it, h, hk, hb⟩

/-! ### soundness of the cached evaluation -/

def Expr.children : Expr → List Expr
  | .eq _ _ => []
  | .not e => [e]
  | .and es => es
  | .or es => es

/-- `U` contains the operands of each of its members -/
def SubClosed (U : List Expr) : Prop := ∀ e ∈ U, ∀ c ∈ e.children, c ∈ U

section
variable (H : Bytes → UInt64) (ix : Index) (U : List Expr)

/-- equal cache keys inside the universe mean equal meaning (delivered by `key_separates_meaning`) -/
def KeyOK : Prop := ∀ e ∈ U, ∀ e' ∈ U, cacheKey H e = cacheKey H e' → eval H ix e = eval H ix e'

/-- `(k, bm)` is a correct cache entry: every expression of the universe with key `k` means `bm` -/
def SoundEntry (k : UInt64) (bm : Nat) : Prop := ∀ e ∈ U, cacheKey H e = k → eval H ix e = some bm

variable {σ : Type} {C : CacheImpl σ} (L : CacheLaws C)

/-- every entry the cache may ever answer with is correct -/
def Sound (s : σ) : Prop := ∀ k bm, L.holds s k bm → SoundEntry H ix U k bm

/-- a state holding nothing -/
def EmptyState (s : σ) : Prop := ∀ k bm, ¬ L.holds s k bm

theorem EmptyState.sound {s : σ} (h : EmptyState L s) : Sound H ix U L s :=
  fun k bm hh => absurd hh (h k bm)

variable {H ix U L}

theorem Sound.get {s : σ} (hs : Sound H ix U L s) (k : UInt64) : Sound H ix U L (C.get s k).1 :=
  fun k' bm h => hs k' bm (L.get_mono s k k' bm h)

theorem Sound.get_ans {s : σ} (hs : Sound H ix U L s) (k : UInt64) (bm : Nat)
    (h : (C.get s k).2 = some bm) : SoundEntry H ix U k bm :=
  hs k bm (L.get_holds s k bm h)

theorem Sound.put {s : σ} (hs : Sound H ix U L s) {k : UInt64} {bm : Nat}
    (he : SoundEntry H ix U k bm) : Sound H ix U L (C.put s k bm) := by
  intro k' bm' h
  rcases L.put_holds s k bm k' bm' h with ⟨rfl, rfl⟩ | h
  · exact he
  · exact hs k' bm' h

theorem soundEntry_of_eval (hkey : KeyOK H ix U) {e : Expr} (he : e ∈ U) {bm : Nat}
    (hv : eval H ix e = some bm) : SoundEntry H ix U (cacheKey H e) bm :=
  fun e' he' hk => (hkey e' he' e he hk).trans hv

/-- what the soundness proof needs about `Put`: storing the true meaning of an expression under its key keeps the
    cache sound. Follows from `KeyOK` for every lawful cache; holds unconditionally for a cache that holds nothing. -/
def PutOK (H : Bytes → UInt64) (ix : Index) (U : List Expr) {σ : Type} {C : CacheImpl σ} (L : CacheLaws C) : Prop :=
  ∀ e ∈ U, ∀ bm, eval H ix e = some bm → ∀ s, Sound H ix U L s → Sound H ix U L (C.put s (cacheKey H e) bm)

theorem putOK_of_keyOK (hkey : KeyOK H ix U) : PutOK H ix U L :=
  fun _ he _ hv _ hs => hs.put (soundEntry_of_eval hkey he hv)

theorem withCache_sound (hkey : PutOK H ix U L) {e : Expr} (he : e ∈ U) {s : σ} (hs : Sound H ix U L s)
    (compute : σ → σ × Option Nat)
    (hcomp : ∀ s1, Sound H ix U L s1 → (compute s1).2 = eval H ix e ∧ Sound H ix U L (compute s1).1) :
    (withCache C (cacheKey H e) s compute).2 = eval H ix e ∧
      Sound H ix U L (withCache C (cacheKey H e) s compute).1 := by
  unfold withCache
  have hs1 := hs.get (cacheKey H e)
  simp only
  split
  · rename_i bm hget
    exact ⟨(hs.get_ans _ _ hget e he rfl).symm, hs1⟩
  · obtain ⟨hv, hs2⟩ := hcomp _ hs1
    split
    · rename_i hnone
      exact ⟨hnone.symm.trans hv, hs2⟩
    · rename_i bm hsome
      have hv' : eval H ix e = some bm := hv.symm.trans hsome
      exact ⟨hv'.symm, hkey e he bm hv' _ hs2⟩

mutual
theorem evalC_sound (hkey : PutOK H ix U L) (hU : SubClosed U) (e : Expr) (he : e ∈ U) (s : σ)
    (hs : Sound H ix U L s) :
    (evalC H C ix s e).2 = eval H ix e ∧ Sound H ix U L (evalC H C ix s e).1 := by
  match e with
  | .eq c v =>
    unfold evalC
    cases hcol : ix.schema.col c with
    | none => simp only [eval, hcol]; exact ⟨trivial, hs⟩
    | some vs =>
      simp only
      apply withCache_sound hkey he hs
      intro s1 hs1
      simp only [eval, hcol]
      exact ⟨trivial, hs1⟩
  | .not e1 =>
    unfold evalC
    apply withCache_sound hkey he hs
    intro s1 hs1
    have ih := evalC_sound hkey hU e1 (hU _ he e1 (by simp [Expr.children])) s1 hs1
    simp only [eval, ih.1]
    exact ⟨trivial, ih.2⟩
  | .and es =>
    unfold evalC
    apply withCache_sound hkey he hs
    intro s1 hs1
    have ih := evalListC_sound hkey hU es (fun x hx => hU _ he x (by simpa [Expr.children] using hx)) s1 hs1
    simp only [eval, ih.1]
    exact ⟨trivial, ih.2⟩
  | .or es =>
    unfold evalC
    apply withCache_sound hkey he hs
    intro s1 hs1
    have ih := evalListC_sound hkey hU es (fun x hx => hU _ he x (by simpa [Expr.children] using hx)) s1 hs1
    simp only [eval, ih.1]
    exact ⟨trivial, ih.2⟩
theorem evalListC_sound (hkey : PutOK H ix U L) (hU : SubClosed U) (es : List Expr) (hes : ∀ e ∈ es, e ∈ U)
    (s : σ) (hs : Sound H ix U L s) :
    (evalListC H C ix s es).2 = evalList H ix es ∧ Sound H ix U L (evalListC H C ix s es).1 := by
  match es with
  | [] => unfold evalListC; simp only [evalList]; exact ⟨trivial, hs⟩
  | e :: es' =>
    unfold evalListC
    have ih := evalC_sound hkey hU e (hes e (by simp)) s hs
    simp only [evalList]
    rw [← ih.1]
    cases hv : (evalC H C ix s e).2 with
    | none => simp only; exact ⟨trivial, ih.2⟩
    | some b =>
      simp only
      have ih2 := evalListC_sound hkey hU es' (fun x hx => hes x (by simp [hx])) _ ih.2
      rw [ih2.1]
      exact ⟨rfl, ih2.2⟩
end

theorem executeC_sound (hkey : PutOK H ix U L) (hU : SubClosed U) (q : Query) (hq : q.expr ∈ U) (s : σ)
    (hs : Sound H ix U L s) :
    (executeC H C ix s q).2 = execute H ix q ∧ Sound H ix U L (executeC H C ix s q).1 := by
  unfold executeC execute
  cases populateGroupBy ix.schema q.groupBy with
  | none => exact ⟨rfl, hs⟩
  | some fields =>
    have ih := evalC_sound hkey hU q.expr hq s hs
    simp only
    rw [← ih.1]
    cases hv : (evalC H C ix s q.expr).2 with
    | none => exact ⟨rfl, ih.2⟩
    | some bm => exact ⟨rfl, ih.2⟩

theorem executeAllC_sound (hkey : PutOK H ix U L) (hU : SubClosed U) (qs : List Query)
    (hqs : ∀ q ∈ qs, q.expr ∈ U) (s : σ) (hs : Sound H ix U L s) :
    (executeAllC H C ix s qs).2 = qs.map (fun q => execute H ix q) ∧
      Sound H ix U L (executeAllC H C ix s qs).1 := by
  induction qs generalizing s with
  | nil => exact ⟨rfl, hs⟩
  | cons q qs ih =>
    unfold executeAllC
    have h1 := executeC_sound hkey hU q (hqs q (by simp)) s hs
    have h2 := ih (fun x hx => hqs x (by simp [hx])) _ h1.2
    simp only [List.map_cons, h1.1, h2.1]
    exact ⟨trivial, h2.2⟩

end

/-! ### the program view agrees with `evalC` -/

section
variable (H : Bytes → UInt64) {σ : Type} (C : CacheImpl σ) (ix : Index)

theorem runProg_withCacheK (key : UInt64) (compute : σ → σ × Option Nat)
    (computeK : (Option Nat → Prog) → Prog)
    (hcomp : ∀ s1 k', runProg C s1 (computeK k') = runProg C (compute s1).1 (k' (compute s1).2))
    (s : σ) (k : Option Nat → Prog) :
    runProg C s (withCacheK key computeK k) =
      runProg C (withCache C key s compute).1 (k (withCache C key s compute).2) := by
  unfold withCacheK withCache
  simp only [runProg]
  cases (C.get s key).2 with
  | some bm => rfl
  | none =>
    simp only [hcomp]
    cases (compute (C.get s key).1).2 with
    | none => rfl
    | some bm => simp only [runProg]

mutual
theorem runProg_evalK (e : Expr) (s : σ) (k : Option Nat → Prog) :
    runProg C s (evalK H ix e k) = runProg C (evalC H C ix s e).1 (k (evalC H C ix s e).2) := by
  match e with
  | .eq c v =>
    unfold evalK evalC
    cases ix.schema.col c with
    | none => rfl
    | some vs =>
      simp only
      apply runProg_withCacheK
      intro s1 k'; rfl
  | .not e1 =>
    unfold evalK evalC
    apply runProg_withCacheK
    intro s1 k'
    exact runProg_evalK e1 s1 _
  | .and es =>
    unfold evalK evalC
    apply runProg_withCacheK
    intro s1 k'
    exact runProg_evalListK es s1 _
  | .or es =>
    unfold evalK evalC
    apply runProg_withCacheK
    intro s1 k'
    exact runProg_evalListK es s1 _
theorem runProg_evalListK (es : List Expr) (s : σ) (k : Option (List Nat) → Prog) :
    runProg C s (evalListK H ix es k) =
      runProg C (evalListC H C ix s es).1 (k (evalListC H C ix s es).2) := by
  match es with
  | [] => unfold evalListK evalListC; rfl
  | e :: es' =>
    unfold evalListK evalListC
    rw [runProg_evalK e s]
    generalize evalC H C ix s e = r
    obtain ⟨s1, a⟩ := r
    cases a with
    | none => rfl
    | some b =>
      simp only
      rw [runProg_evalListK es' _]
end

/-- running the program of `e` without interruption is `evalC` -/
theorem runProg_evalProg (e : Expr) (s : σ) : runProg C s (evalProg H ix e) = evalC H C ix s e := by
  unfold evalProg
  rw [runProg_evalK]
  rfl

end
end Updog
