/-
Helper lemmas for `Updog/Props/Gen/CreateCmd.lean`: the pieces of the regenerated `createCmd` (cmd/updog/create.go) —
one iteration of the record loop (`Gen.createCmd_for1`), the loop, the rest of the function once the writer is chosen
(`Gen.createCmd_k1`: loop, then `Flush`) — characterised on the world of `Updog/Basic/GoPreludeT8.lean`.
-/
import Updog.GeneratedFns
import Updog.Proofs.GoPreludeT8
import Updog.Props.Gen.CreateRow
set_option linter.unusedSimpArgs false
set_option linter.unusedVariables false
namespace Updog.GeneratedEq
open Updog.Go Updog.Go.Cmd

theorem foldl_pair_fst {α β γ : Type} (f : α → γ → α) (xs : List γ) (a : α) (b : β) :
    List.foldl (fun (p : α × β) (x : γ) => (f p.1 x, p.2)) (a, b) xs = (List.foldl f a xs, b) := by
  induction xs generalizing a with
  | nil => rfl
  | cons x xs ih => simp [ih]

theorem rowFold (header : List Bytes) (w : World) (m0 : Map Bytes) (l : List (Int × Bytes)) :
    List.foldl (fun (a : Map Bytes × World) (p : Int × Bytes) => (Map.set a.1 (indexL header p.1) p.2, a.2)) (m0, w) l
      = (List.foldl (fun (values : Map Bytes) (p : Int × Bytes) => Map.set values (indexL header p.1) p.2) m0 l, w) :=
  foldl_pair_fst (fun (values : Map Bytes) (p : Int × Bytes) => Map.set values (indexL header p.1) p.2) l m0 w

/-- `w'` is the running world `w` after the events `evs` of the record loop: nothing but the reader position, the row
    counter and the trace differ -/
structure LoopExt (w w' : World) (evs : List Event) : Prop where
  env : w'.env = w.env
  fs : w'.fs = w.fs
  stopped : w'.stopped = none
  trace : w'.trace = w.trace ++ evs
  loopOnly : ∀ e ∈ evs, e.isLoop = true

/-- the data events of reading the records `recs` and adding each as a row -/
def rowEvents (header : List Bytes) (recs : List (List Bytes)) : List Event :=
  recs.flatMap fun record => [.csvRead (some record), .addRow (Gen.recordRow header record) true]

section
variable (toLower : Nat → Nat) (fuel : Nat) (g : globalConfig) (header : List Bytes) (iw : indexWriter) (r : Reader)

/-- the world after one record was read and handed to `AddRow` (`ok`: did AddRow succeed) -/
def afterRow (w : World) (record : List Bytes) (ok : Bool) : World :=
  log { log { w with csvPos := w.csvPos + 1 } (.csvRead (some record)) with rowsAdded := w.rowsAdded + 1 }
    (.addRow (Gen.recordRow header record) ok)

theorem for1_eof (idx : Int) (w : World) (hw : w.stopped = none) (hr : w.env.csv[w.csvPos]? = none) (he : w.env.csvEnd = .EOF) :
    Gen.createCmd_for1 toLower fuel g header iw r (idx, w) = .brk (idx, log w (.csvRead none)) := by
  simp [Gen.createCmd_for1, csvRead_none w hw r hr, he, T8.errorsIs]

theorem for1_bad (idx : Int) (w : World) (hw : w.stopped = none) (hr : w.env.csv[w.csvPos]? = none) (he : w.env.csvEnd ≠ .EOF) :
    ∃ e, Gen.createCmd_for1 toLower fuel g header iw r (idx, w) = .ret (some e, log w (.csvRead none)) := by
  simp [Gen.createCmd_for1, csvRead_none w hw r hr, he, T8.errorsIs]

theorem for1_addFail (idx : Int) (w : World) (hw : w.stopped = none) (hiw : iw ≠ .nil) (record : List Bytes)
    (hr : w.env.csv[w.csvPos]? = some record) (hf : w.env.addRowFails w.rowsAdded = true) :
    ∃ e, Gen.createCmd_for1 toLower fuel g header iw r (idx, w) = .ret (some e, afterRow header w record false) := by
  cases iw with
  | nil => exact absurd rfl hiw
  | mem x =>
    simp [Gen.createCmd_for1, csvRead_some w hw r record hr, rowFold, addRow, act, hw, hf, afterRow, Gen.recordRow]
  | big x =>
    simp [Gen.createCmd_for1, csvRead_some w hw r record hr, rowFold, addRow, act, hw, hf, afterRow, Gen.recordRow]

theorem for1_next (idx : Int) (w : World) (hw : w.stopped = none) (hiw : iw ≠ .nil) (record : List Bytes)
    (hr : w.env.csv[w.csvPos]? = some record) (hf : w.env.addRowFails w.rowsAdded = false) :
    ∃ w', Gen.createCmd_for1 toLower fuel g header iw r (idx, w) = .next (idx + 1, w') ∧
      (w' = afterRow header w record true ∨ ∃ f, w' = log (afterRow header w record true) (.printf f)) := by
  have key : ∀ iw' : indexWriter, iw' ≠ .nil → ∃ w', Gen.createCmd_for1 toLower fuel g header iw' r (idx, w) = .next (idx + 1, w') ∧
      (w' = afterRow header w record true ∨ ∃ f, w' = log (afterRow header w record true) (.printf f)) := by
    intro iw' hiw'
    have hadd : addRow (log { w with csvPos := w.csvPos + 1 } (.csvRead (some record))) iw' (Gen.recordRow header record)
        = (afterRow header w record true, .ok w.rowsAdded.toUInt32) := by
      cases iw' with
      | nil => exact absurd rfl hiw'
      | mem x => simp [addRow, act, hw, hf, afterRow]
      | big x => simp [addRow, act, hw, hf, afterRow]
    have hs : (afterRow header w record true).stopped = none := by simp [afterRow, hw]
    simp only [Gen.recordRow] at hadd
    by_cases hv : (g.verbose && (Int.tmod (idx + 1) 10000 == 0)) = true
    · have : ∃ f, Gen.createCmd_for1 toLower fuel g header iw' r (idx, w) = .next (idx + 1, log (afterRow header w record true) (.printf f)) := by
        simp only [Gen.createCmd_for1, csvRead_some w hw r record hr, rowFold]
        simp [hadd, hv, printf_run _ hs]
        exact ⟨_, rfl⟩
      obtain ⟨f, hf'⟩ := this
      exact ⟨_, hf', Or.inr ⟨f, rfl⟩⟩
    · refine ⟨afterRow header w record true, ?_, Or.inl rfl⟩
      simp only [Gen.createCmd_for1, csvRead_some w hw r record hr, rowFold]
      simp [hadd, hv]
  exact key iw hiw


theorem drop_nil_getElem? {α : Type} (l : List α) (n : Nat) (h : l.drop n = []) : l[n]? = none := by
  rw [List.drop_eq_nil_iff] at h
  exact List.getElem?_eq_none h

theorem drop_cons_getElem? {α : Type} (l : List α) (n : Nat) (x : α) (xs : List α) (h : l.drop n = x :: xs) :
    l[n]? = some x ∧ l.drop (n + 1) = xs := by
  have hlt : n < l.length := by
    apply Nat.lt_of_not_le; intro hc
    have : l.drop n = [] := List.drop_eq_nil_iff.mpr hc
    rw [this] at h; cases h
  rw [List.drop_eq_getElem_cons hlt] at h
  simp only [List.cons.injEq] at h
  exact ⟨by rw [List.getElem?_eq_getElem hlt, h.1], h.2⟩

/-- **the record loop.** From a running world whose reader still has the records `recs` to hand out, with enough fuel:
    either every record is read and added in order, the reader then reports `io.EOF`, and the loop ends normally
    (`done`, the row counter advanced by the number of records); or the function returns an error — exactly when the
    reader's final answer is not `io.EOF` or one of the `AddRow` calls fails. Nothing but reader position, row counter and
    trace changes, and the trace grows by loop events only. -/
theorem loop_spec (fuelB : Nat) (hiw : iw ≠ .nil) (recs : List (List Bytes)) :
    ∀ (w : World) (idx : Int) (n : Nat), w.stopped = none → w.env.csv.drop w.csvPos = recs → recs.length < n →
    ∃ w' evs, LoopExt w w' evs ∧
      ((T8.forEver n (idx, w) (Gen.createCmd_for1 toLower fuelB g header iw r) = .done (idx + recs.length, w') ∧
          w.env.csvEnd = .EOF ∧ (∀ j, j < recs.length → w.env.addRowFails (w.rowsAdded + j) = false) ∧
          evs.filter Event.isData = rowEvents header recs ++ [.csvRead none]) ∨
       (∃ e, T8.forEver n (idx, w) (Gen.createCmd_for1 toLower fuelB g header iw r) = .ret (some e, w') ∧
          (w.env.csvEnd ≠ .EOF ∨ ∃ j, j < recs.length ∧ w.env.addRowFails (w.rowsAdded + j) = true))) := by
  induction recs with
  | nil =>
    intro w idx n hw hd hn
    obtain ⟨m, rfl⟩ : ∃ m, n = m + 1 := ⟨n - 1, by simp at hn; omega⟩
    have hr := drop_nil_getElem? _ _ hd
    refine ⟨log w (.csvRead none), [.csvRead none], ⟨rfl, rfl, by simpa using hw, rfl, by simp [Event.isLoop]⟩, ?_⟩
    by_cases he : w.env.csvEnd = .EOF
    · left
      refine ⟨?_, he, by simp, by simp [rowEvents, Event.isData]⟩
      rw [T8.forEver_brk _ _ _ _ (for1_eof toLower fuelB g header iw r idx w hw hr he)]; simp
    · right
      obtain ⟨e, he'⟩ := for1_bad toLower fuelB g header iw r idx w hw hr he
      exact ⟨e, T8.forEver_ret _ _ _ _ he', Or.inl he⟩
  | cons record rest ih =>
    intro w idx n hw hd hn
    obtain ⟨m, rfl⟩ : ∃ m, n = m + 1 := ⟨n - 1, by simp at hn; omega⟩
    obtain ⟨hr, hd'⟩ := drop_cons_getElem? _ _ _ _ hd
    by_cases hf : w.env.addRowFails w.rowsAdded = true
    · obtain ⟨e, he'⟩ := for1_addFail toLower fuelB g header iw r idx w hw hiw record hr hf
      refine ⟨afterRow header w record false, [.csvRead (some record), .addRow (Gen.recordRow header record) false],
        ⟨rfl, rfl, by simpa [afterRow] using hw, by simp [afterRow], by simp [Event.isLoop]⟩, Or.inr ⟨e, T8.forEver_ret _ _ _ _ he', Or.inr ⟨0, by simp, by simpa using hf⟩⟩⟩
    · have hf' : w.env.addRowFails w.rowsAdded = false := by simpa using hf
      obtain ⟨w1, hstep, hw1⟩ := for1_next toLower fuelB g header iw r idx w hw hiw record hr hf'
      -- facts about w1 that hold in both cases
      have hw1s : w1.stopped = none := by rcases hw1 with rfl | ⟨f, rfl⟩ <;> simpa [afterRow] using hw
      have hw1e : w1.env = w.env := by rcases hw1 with rfl | ⟨f, rfl⟩ <;> simp [afterRow]
      have hw1f : w1.fs = w.fs := by rcases hw1 with rfl | ⟨f, rfl⟩ <;> simp [afterRow]
      have hw1p : w1.csvPos = w.csvPos + 1 := by rcases hw1 with rfl | ⟨f, rfl⟩ <;> simp [afterRow]
      have hw1r : w1.rowsAdded = w.rowsAdded + 1 := by rcases hw1 with rfl | ⟨f, rfl⟩ <;> simp [afterRow]
      have hw1t : ∃ evs1, w1.trace = w.trace ++ evs1 ∧ (∀ e ∈ evs1, e.isLoop = true) ∧
          evs1.filter Event.isData = [.csvRead (some record), .addRow (Gen.recordRow header record) true] := by
        rcases hw1 with rfl | ⟨f, rfl⟩
        · exact ⟨[.csvRead (some record), .addRow (Gen.recordRow header record) true], by simp [afterRow], by simp [Event.isLoop], rfl⟩
        · exact ⟨[.csvRead (some record), .addRow (Gen.recordRow header record) true, .printf f], by simp [afterRow], by simp [Event.isLoop], rfl⟩
      obtain ⟨evs1, ht1, hl1, hd1⟩ := hw1t
      obtain ⟨w', evs, hext, hres⟩ := ih w1 (idx + 1) m hw1s (by rw [hw1e, hw1p]; exact hd') (by simp at hn; omega)
      refine ⟨w', evs1 ++ evs, ⟨by rw [hext.env, hw1e], by rw [hext.fs, hw1f], hext.stopped, by rw [hext.trace, ht1, List.append_assoc], ?_⟩, ?_⟩
      · intro e he
        rcases List.mem_append.mp he with h | h
        · exact hl1 e h
        · exact hext.loopOnly e h
      · rw [T8.forEver_next _ _ _ _ hstep]
        rcases hres with ⟨h1, h2, h3, h4⟩ | ⟨e, h1, h2⟩
        · left
          refine ⟨?_, by rw [← hw1e]; exact h2, ?_, ?_⟩
          · rw [h1]; simp only [List.length_cons]; congr 2; omega
          · intro j hj
            cases j with
            | zero => simpa using hf'
            | succ j =>
              have := h3 j (by simp at hj; omega)
              rw [hw1e, hw1r] at this
              rw [show w.rowsAdded + (j + 1) = w.rowsAdded + 1 + j by omega]; exact this
          · rw [List.filter_append, hd1, h4]; simp [rowEvents]
        · right
          refine ⟨e, h1, ?_⟩
          rcases h2 with h2 | ⟨j, hj, h2⟩
          · left; rw [← hw1e]; exact h2
          · right
            refine ⟨j + 1, by simp; omega, ?_⟩
            rw [hw1e, hw1r] at h2
            rw [show w.rowsAdded + (j + 1) = w.rowsAdded + 1 + j by omega]; exact h2


/-- what `Gen.createCmd_k1` does after the loop ended normally in world `w1` (the two stdout formats and the error
    value are parameters: the theorems do not depend on the texts) -/
def tailFinish (g : globalConfig) (f1 f2 : Bytes) (e' : Err5) (iw : indexWriter) (w1 : World) : Option Err5 × World :=
  let w2 := if g.verbose = true then (printf w1 f1).1 else w1
  let fr := flush w2 iw
  if fr.2.isSome = true then (some e', fr.1) else (none, if g.verbose = true then (printf fr.1 f2).1 else fr.1)

/-- **the rest of `createCmd` once the writer is chosen** (`Gen.createCmd_k1`: the record loop, then `Flush`), from a
    running world whose reader still has the records `recs`, with enough fuel. Either the loop ends normally — all
    records added in order, then `io.EOF` — and `Flush` is called ONCE on the world the loop left (plus at most a line on
    stdout); its error becomes the function's error, its success `nil`. Or the loop returns an error and `Flush` is not
    reached. -/
theorem k1_spec (hiw : iw ≠ .nil) (w : World) (hw : w.stopped = none) (recs : List (List Bytes))
    (hd : w.env.csv.drop w.csvPos = recs) (hn : recs.length < fuel) :
    ∃ w1 evs, LoopExt w w1 evs ∧
      ((w.env.csvEnd = .EOF ∧ (∀ j, j < recs.length → w.env.addRowFails (w.rowsAdded + j) = false) ∧
          evs.filter Event.isData = rowEvents header recs ++ [.csvRead none] ∧
          ∃ f1 f2 e', Gen.createCmd_k1 toLower fuel w g header iw r = tailFinish g f1 f2 e' iw w1) ∨
       (∃ e, Gen.createCmd_k1 toLower fuel w g header iw r = (some e, w1) ∧
          (w.env.csvEnd ≠ .EOF ∨ ∃ j, j < recs.length ∧ w.env.addRowFails (w.rowsAdded + j) = true))) := by
  obtain ⟨w1, evs, hext, hres⟩ := loop_spec toLower g header iw r fuel hiw recs w 0 fuel hw hd hn
  refine ⟨w1, evs, hext, ?_⟩
  rcases hres with ⟨h1, h2, h3, h4⟩ | ⟨e, h1, h2⟩
  · left
    refine ⟨h2, h3, h4, ?_⟩
    simp only [Gen.createCmd_k1, h1]
    exact ⟨_, _, _, rfl⟩
  · right
    exact ⟨e, by simp [Gen.createCmd_k1, h1], h2⟩


/-- what the tail of `createCmd` (`Gen.createCmd_k1`) did, BIG writer over output database `o` and temporary database
    `t`, started in world `w` with the records `recs` unread: `K` is its result -/
structure TailBig (w : World) (o t : Bytes) (recs : List (List Bytes)) (K : Option Err5 × World) : Prop where
  env : K.2.env = w.env
  stopped : K.2.stopped = none
  present : K.2.fs.present = w.fs.present
  touched : K.2.fs.touched = w.fs.touched
  txOpen : ∀ p, K.2.fs.txOpen p = true → w.fs.txOpen p = true
  trace : ∃ evs, K.2.trace = w.trace ++ evs ∧ (∀ e ∈ evs, e.isLoop = true ∨ ∃ b, e = .flush b) ∧
    (K.1 = none → evs.filter Event.isData = rowEvents header recs ++ [.csvRead none, .flush true]) ∧
    (K.1 ≠ none → Event.flush true ∉ evs) ∧
    ((w.env.csvEnd ≠ .EOF ∨ ∃ j, j < recs.length ∧ w.env.addRowFails (w.rowsAdded + j) = true) → ∀ b, Event.flush b ∉ evs)
  ok : K.1 = none → w.env.csvEnd = .EOF ∧ K.2.fs.complete = setAt w.fs.complete o true
  failed : K.1 ≠ none → K.2.fs.complete = w.fs.complete
  badInput : (w.env.csvEnd ≠ .EOF ∨ ∃ j, j < recs.length ∧ w.env.addRowFails (w.rowsAdded + j) = true) → K.1 ≠ none
  exact : w.env.csvEnd = .EOF → (∀ j, j < recs.length → w.env.addRowFails (w.rowsAdded + j) = false) →
    w.env.flushFails = false → K.1 = none

theorem mem_loop_not_flush {evs : List Event} (h : ∀ e ∈ evs, e.isLoop = true) (b : Bool) : Event.flush b ∉ evs := by
  intro hm; have := h _ hm; simp [Event.isLoop] at this

/-- `tailFinish` with a big writer, from a running world: at most a line on stdout, ONE `Flush` event — successful
    iff `env.flushFails` is false —, at most another line; the temporary transaction is over; nothing else changes
    except that a successful flush makes the output a complete index -/
theorem tailFinish_big (f1 f2 : Bytes) (e' : Err5) (o t : Bytes) (w1 : World) (hs : w1.stopped = none) :
    ∃ pre post, (tailFinish g f1 f2 e' (.big ⟨⟨o⟩, ⟨t⟩⟩) w1).2.trace = w1.trace ++ pre ++ [.flush (!w1.env.flushFails)] ++ post ∧
      (∀ e ∈ pre ++ post, e.isLoop = true) ∧ pre.filter Event.isData = [] ∧ post.filter Event.isData = [] ∧
      (tailFinish g f1 f2 e' (.big ⟨⟨o⟩, ⟨t⟩⟩) w1).2.env = w1.env ∧
      (tailFinish g f1 f2 e' (.big ⟨⟨o⟩, ⟨t⟩⟩) w1).2.stopped = none ∧
      (tailFinish g f1 f2 e' (.big ⟨⟨o⟩, ⟨t⟩⟩) w1).2.fs.present = w1.fs.present ∧
      (tailFinish g f1 f2 e' (.big ⟨⟨o⟩, ⟨t⟩⟩) w1).2.fs.touched = w1.fs.touched ∧
      (tailFinish g f1 f2 e' (.big ⟨⟨o⟩, ⟨t⟩⟩) w1).2.fs.txOpen = setAt w1.fs.txOpen t false ∧
      ((tailFinish g f1 f2 e' (.big ⟨⟨o⟩, ⟨t⟩⟩) w1).1 = none ↔ w1.env.flushFails = false) ∧
      (tailFinish g f1 f2 e' (.big ⟨⟨o⟩, ⟨t⟩⟩) w1).2.fs.complete
        = if w1.env.flushFails = true then w1.fs.complete else setAt w1.fs.complete o true := by
  refine ⟨if g.verbose = true then [.printf f1] else [],
    if g.verbose = true ∧ w1.env.flushFails = false then [.printf f2] else [], ?_⟩
  cases hv : g.verbose <;> cases hff : w1.env.flushFails <;>
    simp [tailFinish, hv, hff, flush, act, hs, printf, log, Event.isLoop, Event.isData]

theorem k1_big (o t : Bytes) (w : World) (hw : w.stopped = none) (recs : List (List Bytes))
    (hd : w.env.csv.drop w.csvPos = recs) (hn : recs.length < fuel) :
    TailBig header w o t recs (Gen.createCmd_k1 toLower fuel w g header (.big ⟨⟨o⟩, ⟨t⟩⟩) r) := by
  obtain ⟨w1, evs, hext, hres⟩ := k1_spec toLower fuel g header (.big ⟨⟨o⟩, ⟨t⟩⟩) r (by simp) w hw recs hd hn
  rcases hres with ⟨h1, h2, h3, f1, f2, e', hK⟩ | ⟨e, hK, hc⟩
  · rw [hK]
    obtain ⟨pre, post, ht, hl, hpre, hpost, henv, hst, hpr, hto, htx, hok, hco⟩ :=
      tailFinish_big g f1 f2 e' o t w1 hext.stopped
    have hnot : ¬ (w.env.csvEnd ≠ .EOF ∨ ∃ j, j < recs.length ∧ w.env.addRowFails (w.rowsAdded + j) = true) := by
      rintro (hc | ⟨j, hj, hc⟩)
      · exact hc h1
      · rw [h2 j hj] at hc; cases hc
    refine ⟨by rw [henv, hext.env], hst, by rw [hpr, hext.fs], by rw [hto, hext.fs], ?_, ?_, ?_, ?_, ?_, ?_⟩
    · intro p hp
      rw [htx, hext.fs] at hp
      by_cases hpt : p = t
      · subst hpt; simp at hp
      · rwa [setAt_other _ _ _ _ hpt] at hp
    · refine ⟨evs ++ pre ++ [.flush (!w1.env.flushFails)] ++ post, by rw [ht, hext.trace]; simp, ?_, ?_, ?_, ?_⟩
      · intro e he
        simp only [List.mem_append, List.mem_singleton] at he
        rcases he with ((he | he) | he) | he
        · exact Or.inl (hext.loopOnly e he)
        · exact Or.inl (hl e (List.mem_append_left _ he))
        · exact Or.inr ⟨_, he⟩
        · exact Or.inl (hl e (List.mem_append_right _ he))
      · intro hn'
        have hff := hok.mp hn'
        simp [List.filter_append, List.filter_cons, h3, hpre, hpost, hff, Event.isData]
      · intro hn' hm
        have hff : w1.env.flushFails = true := by
          cases hq : w1.env.flushFails with
          | true => rfl
          | false => exact absurd (hok.mpr hq) hn'
        simp only [List.mem_append, List.mem_singleton, hff] at hm
        rcases hm with ((hm | hm) | hm) | hm
        · exact mem_loop_not_flush hext.loopOnly _ hm
        · exact mem_loop_not_flush (fun e he => hl e (List.mem_append_left _ he)) _ hm
        · cases hm
        · exact mem_loop_not_flush (fun e he => hl e (List.mem_append_right _ he)) _ hm
      · intro hc; exact absurd hc hnot
    · intro hn'
      have hff := hok.mp hn'
      exact ⟨h1, by rw [hco, hext.fs]; simp [hff]⟩
    · intro hn'
      have hff : w1.env.flushFails = true := by
        cases hq : w1.env.flushFails with
        | true => rfl
        | false => exact absurd (hok.mpr hq) hn'
      rw [hco, hext.fs]; simp [hff]
    · intro hc; exact absurd hc hnot
    · intro _ _ hff; rw [← hext.env] at hff; exact hok.mpr hff
  · rw [hK]
    refine ⟨hext.env, hext.stopped, by rw [hext.fs], by rw [hext.fs], fun p hp => by rwa [hext.fs] at hp, ?_, ?_, ?_, ?_, ?_⟩
    · exact ⟨evs, hext.trace, fun e he => Or.inl (hext.loopOnly e he), fun hn' => absurd hn' (by simp),
        fun _ => mem_loop_not_flush hext.loopOnly _, fun _ b => mem_loop_not_flush hext.loopOnly b⟩
    · intro hn'; simp at hn'
    · intro _; rw [hext.fs]
    · intro _; simp
    · intro h1 h2 _; rcases hc with hc | ⟨j, hj, hc⟩
      · exact absurd h1 hc
      · rw [h2 j hj] at hc; cases hc


theorem posix_mustExist_present : posixOpen true (OpenFn.mustExist.flags boltWriteFlags) = (true, true, true) := by decide
theorem posix_excl_present : posixOpen true (OpenFn.excl.flags boltWriteFlags) = (false, true, false) := by decide
theorem posix_excl_absent : posixOpen false (OpenFn.excl.flags boltWriteFlags) = (true, true, true) := by decide
theorem posix_plain_present : posixOpen true (OpenFn.osOpenFile.flags boltWriteFlags) = (true, true, true) := by decide
theorem posix_plain_absent : posixOpen false (OpenFn.osOpenFile.flags boltWriteFlags) = (true, true, true) := by decide

/-- `tailFinish` with the in-memory writer for output `o`, from a running world in which no transaction is open on `o` -/
theorem tailFinish_mem (f1 f2 : Bytes) (e' : Err5) (o : Bytes) (w1 : World) (hs : w1.stopped = none)
    (htx : w1.fs.txOpen o = false) :
    let K := tailFinish g f1 f2 e' (.mem ⟨o⟩) w1
    let blocked := w1.fs.present o && w1.env.flushExcl
    let okAll := !blocked && !w1.env.boltFails o && !w1.env.flushFails
    (∃ pre mid post, K.2.trace = w1.trace ++ pre ++ mid ++ post ∧
      (∀ e ∈ pre ++ post, e.isLoop = true) ∧ pre.filter Event.isData = [] ∧ post.filter Event.isData = [] ∧
      (∀ e ∈ mid, e.isMemFlush o = true) ∧ mid.filter Event.isData = [.flush okAll]) ∧
    K.2.env = w1.env ∧ K.2.stopped = none ∧ K.2.fs.txOpen = w1.fs.txOpen ∧
    (∀ p, p ≠ o → K.2.fs.present p = w1.fs.present p ∧ K.2.fs.touched p = w1.fs.touched p ∧ K.2.fs.complete p = w1.fs.complete p) ∧
    (K.1 = none ↔ okAll = true) ∧
    (blocked = true → K.2.fs = w1.fs) ∧
    (blocked = false → K.2.fs.present o = true) ∧
    K.2.fs.touched o = (w1.fs.touched o || (w1.fs.present o && !w1.env.flushExcl)) ∧
    K.2.fs.complete o = (okAll || w1.fs.complete o) := by
  intro K blocked okAll
  refine ⟨⟨if g.verbose = true then [.printf f1] else [],
    (if w1.fs.present o = true ∧ w1.env.flushExcl = true then [.boltOpen o 420 .excl false, .flush false]
     else if w1.env.boltFails o = true then [.boltOpen o 420 (if w1.env.flushExcl = true then .excl else .osOpenFile) false, .flush false]
     else if w1.env.flushFails = true then [.boltOpen o 420 (if w1.env.flushExcl = true then .excl else .osOpenFile) true, .boltClose o, .flush false]
     else [.boltOpen o 420 (if w1.env.flushExcl = true then .excl else .osOpenFile) true, .boltClose o, .flush true]),
    if g.verbose = true ∧ okAll = true then [.printf f2] else [], ?_⟩, ?_⟩
  all_goals
    simp only [K, blocked, okAll]
    rcases Bool.eq_false_or_eq_true g.verbose with hv | hv <;>
    rcases Bool.eq_false_or_eq_true (w1.fs.present o) with hp | hp <;>
    rcases Bool.eq_false_or_eq_true w1.env.flushExcl with hx | hx <;>
    rcases Bool.eq_false_or_eq_true (w1.env.boltFails o) with hb | hb <;>
    rcases Bool.eq_false_or_eq_true w1.env.flushFails with hff | hff <;>
      simp [tailFinish, hv, hp, hx, hb, hff, flush, act, hs, htx, printf, log, boltOpen, boltClose, Event.isLoop, Event.isData,
        Event.isMemFlush, posix_excl_present, posix_excl_absent, posix_plain_present, posix_plain_absent, setAt] <;>
      (try (intro p hne; simp [hne]))


/-- what the tail of `createCmd` (`Gen.createCmd_k1`) did with the IN-MEMORY writer for output path `o`, started in
    world `w` with the records `recs` unread: `K` is its result -/
structure TailMem (w : World) (o : Bytes) (recs : List (List Bytes)) (K : Option Err5 × World) : Prop where
  env : K.2.env = w.env
  stopped : K.2.stopped = none
  txOpen : K.2.fs.txOpen = w.fs.txOpen
  other : ∀ p, p ≠ o → K.2.fs.present p = w.fs.present p ∧ K.2.fs.touched p = w.fs.touched p ∧ K.2.fs.complete p = w.fs.complete p
  presentMono : w.fs.present o = true → K.2.fs.present o = true
  touched : K.2.fs.touched o = true → w.fs.touched o = true ∨ (w.fs.present o = true ∧ w.env.flushExcl = false)
  blocked : w.fs.present o = true → w.env.flushExcl = true → K.1 ≠ none ∧ K.2.fs = w.fs
  trace : ∃ evs, K.2.trace = w.trace ++ evs ∧ (∀ e ∈ evs, e.isLoop = true ∨ e.isMemFlush o = true) ∧
    (K.1 = none → evs.filter Event.isData = rowEvents header recs ++ [.csvRead none, .flush true]) ∧
    (K.1 ≠ none → Event.flush true ∉ evs) ∧
    ((w.env.csvEnd ≠ .EOF ∨ ∃ j, j < recs.length ∧ w.env.addRowFails (w.rowsAdded + j) = true) → ∀ e ∈ evs, e.isLoop = true)
  ok : K.1 = none → w.env.csvEnd = .EOF ∧ K.2.fs.complete o = true ∧ K.2.fs.present o = true ∧
    (w.env.flushExcl = true → w.fs.present o = false)
  failed : K.1 ≠ none → K.2.fs.complete o = w.fs.complete o
  badInput : (w.env.csvEnd ≠ .EOF ∨ ∃ j, j < recs.length ∧ w.env.addRowFails (w.rowsAdded + j) = true) → K.1 ≠ none ∧ K.2.fs = w.fs
  exact : w.env.csvEnd = .EOF → (∀ j, j < recs.length → w.env.addRowFails (w.rowsAdded + j) = false) →
    w.env.flushFails = false → w.env.boltFails o = false → (w.fs.present o && w.env.flushExcl) = false → K.1 = none

theorem isLoop_not_flush {e : Event} (h : e.isLoop = true) (b : Bool) : e ≠ .flush b := by
  intro hc; subst hc; simp [Event.isLoop] at h

theorem k1_mem (o : Bytes) (w : World) (hw : w.stopped = none) (htx : w.fs.txOpen o = false) (recs : List (List Bytes))
    (hd : w.env.csv.drop w.csvPos = recs) (hn : recs.length < fuel) :
    TailMem header w o recs (Gen.createCmd_k1 toLower fuel w g header (.mem ⟨o⟩) r) := by
  obtain ⟨w1, evs, hext, hres⟩ := k1_spec toLower fuel g header (.mem ⟨o⟩) r (by simp) w hw recs hd hn
  rcases hres with ⟨h1, h2, h3, f1, f2, e', hK⟩ | ⟨e, hK, hc⟩
  · rw [hK]
    have htx1 : w1.fs.txOpen o = false := by rw [hext.fs]; exact htx
    obtain ⟨⟨pre, mid, post, ht, hl, hpre, hpost, hmid, hmidd⟩, henv, hst, htxo, hoth, hok, hblk, hnb, htou, hco⟩ :=
      tailFinish_mem g f1 f2 e' o w1 hext.stopped htx1
    simp only [hext.fs, hext.env] at hoth hok hblk hnb htou hco hmidd
    have hnot : ¬ (w.env.csvEnd ≠ .EOF ∨ ∃ j, j < recs.length ∧ w.env.addRowFails (w.rowsAdded + j) = true) := by
      rintro (hc | ⟨j, hj, hc⟩)
      · exact hc h1
      · rw [h2 j hj] at hc; cases hc
    refine ⟨by rw [henv, hext.env], hst, by rw [htxo, hext.fs], hoth, ?_, ?_, ?_, ?_, ?_, ?_, ?_, ?_⟩
    · intro hp
      rcases Bool.eq_false_or_eq_true w.env.flushExcl with hx | hx
      · have := hblk (by simp [hp, hx]); rw [this]; exact hp
      · exact hnb (by simp [hx])
    · intro ht'
      rw [htou] at ht'
      simp only [Bool.or_eq_true, Bool.and_eq_true, Bool.not_eq_true'] at ht'
      exact ht'
    · intro hp hx
      have hb : (w.fs.present o && w.env.flushExcl) = true := by simp [hp, hx]
      refine ⟨?_, hblk hb⟩
      intro hn'; have := hok.mp hn'; simp [hb] at this
    · refine ⟨evs ++ pre ++ mid ++ post, by rw [ht, hext.trace]; simp, ?_, ?_, ?_, ?_⟩
      · intro e he
        simp only [List.mem_append] at he
        rcases he with ((he | he) | he) | he
        · exact Or.inl (hext.loopOnly e he)
        · exact Or.inl (hl e (List.mem_append_left _ he))
        · exact Or.inr (hmid e he)
        · exact Or.inl (hl e (List.mem_append_right _ he))
      · intro hn'
        have := hok.mp hn'
        rw [List.filter_append, List.filter_append, List.filter_append, h3, hpre, hpost, hmidd, this]; simp
      · intro hn' hm
        have hfalse : (!(w.fs.present o && w.env.flushExcl) && !w.env.boltFails o && !w.env.flushFails) = false := by
          cases hq : (!(w.fs.present o && w.env.flushExcl) && !w.env.boltFails o && !w.env.flushFails) with
          | false => rfl
          | true => exact absurd (hok.mpr hq) hn'
        simp only [List.mem_append] at hm
        rcases hm with ((hm | hm) | hm) | hm
        · exact isLoop_not_flush (hext.loopOnly _ hm) _ rfl
        · exact isLoop_not_flush (hl _ (List.mem_append_left _ hm)) _ rfl
        · have : Event.flush true ∈ mid.filter Event.isData := List.mem_filter.mpr ⟨hm, rfl⟩
          rw [hmidd, hfalse] at this; simp at this
        · exact isLoop_not_flush (hl _ (List.mem_append_right _ hm)) _ rfl
      · intro hc; exact absurd hc hnot
    · intro hn'
      have hq := hok.mp hn'
      refine ⟨h1, by rw [hco, hq]; rfl, ?_, ?_⟩
      · apply hnb
        simp only [Bool.and_eq_true, Bool.not_eq_true'] at hq
        exact hq.1.1
      · intro hx
        simp only [Bool.and_eq_true, Bool.not_eq_true', hx, Bool.and_true] at hq
        exact hq.1.1
    · intro hn'
      have hfalse : (!(w.fs.present o && w.env.flushExcl) && !w.env.boltFails o && !w.env.flushFails) = false := by
        cases hq : (!(w.fs.present o && w.env.flushExcl) && !w.env.boltFails o && !w.env.flushFails) with
        | false => rfl
        | true => exact absurd (hok.mpr hq) hn'
      rw [hco, hfalse]; simp
    · intro hc; exact absurd hc hnot
    · intro _ _ hff hb hbl
      apply hok.mpr
      simp [hff, hb, hbl]
  · rw [hK]
    refine ⟨hext.env, hext.stopped, by rw [hext.fs], fun p _ => by simp [hext.fs], fun hp => by rwa [hext.fs],
      fun ht' => Or.inl (by rwa [hext.fs] at ht'), fun _ _ => ⟨by simp, hext.fs⟩, ?_, ?_, ?_, ?_, ?_⟩
    · exact ⟨evs, hext.trace, fun e he => Or.inl (hext.loopOnly e he), fun hn' => absurd hn' (by simp),
        fun _ hm => isLoop_not_flush (hext.loopOnly _ hm) _ rfl, fun _ e he => hext.loopOnly e he⟩
    · intro hn'; simp at hn'
    · intro _; rw [hext.fs]
    · intro _; exact ⟨by simp, hext.fs⟩
    · intro h1 h2 _ _ _; rcases hc with hc | ⟨j, hj, hc⟩
      · exact absurd h1 hc
      · rw [h2 j hj] at hc; cases hc

end
end Updog.GeneratedEq
