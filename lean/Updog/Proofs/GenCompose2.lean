/-
Helper lemmas for `Updog/Props/Gen/Compose2.lean`.

Part 1: a generic simulation lemma for `evalC` / `executeC` / `executeAllC` between two cache implementations, the
`CacheImpl` made of the GENERATED `Gen.lruGet` / `Gen.lruPut` (state: the generated `Gen.LRUCache`), its simulation of
the model's `lruCacheImpl` along `abs` (`LruRel`), and the lifting of the closing theorems of `Props/Gen/Compose.lean`
to it.

Part 2: the driver's connection cache (`Gen.openFileLocked`, `Gen.connClose` over T5's `Drv.World`) together with the
generated open / execute: an extended world that stores, for every index handle, what the generated
`OpenIndexFromBoltDatabase` returned and the generated LRU of the handle; its step function; the invariant; the
single-step theorem.
-/
import Updog.Props.Gen.Compose

set_option linter.unusedVariables false
set_option linter.unusedSimpArgs false
namespace Updog.GeneratedEq
open Updog Updog.Go Updog.Go.T3

/-! ## 1. simulation between cache implementations -/

/-- `R` is a simulation between the cache implementations `C` and `D`: related states answer `Get` alike, and `Get` /
    `Put` lead to related states -/
structure CacheSim {σ τ : Type} (C : CacheImpl σ) (D : CacheImpl τ) (R : σ → τ → Prop) : Prop where
  get : ∀ a b k, R a b → R (C.get a k).1 (D.get b k).1 ∧ (C.get a k).2 = (D.get b k).2
  put : ∀ a b k bm, R a b → R (C.put a k bm) (D.put b k bm)

section sim
variable (H : Bytes → UInt64) {σ τ : Type} {C : CacheImpl σ} {D : CacheImpl τ} {R : σ → τ → Prop} (ix : Updog.Index)

theorem withCache_sim (S : CacheSim C D R) (key : UInt64) (a : σ) (b : τ) (hab : R a b)
    (f : σ → σ × Option Nat) (g : τ → τ × Option Nat)
    (hfg : ∀ a1 b1, R a1 b1 → R (f a1).1 (g b1).1 ∧ (f a1).2 = (g b1).2) :
    R (withCache C key a f).1 (withCache D key b g).1 ∧ (withCache C key a f).2 = (withCache D key b g).2 := by
  obtain ⟨h1, h2⟩ := S.get a b key hab
  unfold withCache
  simp only
  rw [h2]
  cases hd : (D.get b key).2 with
  | some bm => exact ⟨h1, rfl⟩
  | none =>
    obtain ⟨h3, h4⟩ := hfg _ _ h1
    simp only
    rw [h4]
    cases hg : (g (D.get b key).1).2 with
    | none => exact ⟨h3, rfl⟩
    | some bm => exact ⟨S.put _ _ key bm h3, rfl⟩

mutual
theorem evalC_sim (S : CacheSim C D R) (e : Expr) (a : σ) (b : τ) (hab : R a b) :
    R (evalC H C ix a e).1 (evalC H D ix b e).1 ∧ (evalC H C ix a e).2 = (evalC H D ix b e).2 := by
  match e with
  | .eq c v =>
    unfold evalC
    cases hcol : ix.schema.col c with
    | none => exact ⟨hab, rfl⟩
    | some vs =>
      simp only
      apply withCache_sim S _ a b hab
      intro a1 b1 h1
      exact ⟨h1, rfl⟩
  | .not e1 =>
    unfold evalC
    apply withCache_sim S _ a b hab
    intro a1 b1 h1
    have ih := evalC_sim S e1 a1 b1 h1
    exact ⟨ih.1, by simp only [ih.2]⟩
  | .and es =>
    unfold evalC
    apply withCache_sim S _ a b hab
    intro a1 b1 h1
    have ih := evalListC_sim S es a1 b1 h1
    exact ⟨ih.1, by simp only [ih.2]⟩
  | .or es =>
    unfold evalC
    apply withCache_sim S _ a b hab
    intro a1 b1 h1
    have ih := evalListC_sim S es a1 b1 h1
    exact ⟨ih.1, by simp only [ih.2]⟩
theorem evalListC_sim (S : CacheSim C D R) (es : List Expr) (a : σ) (b : τ) (hab : R a b) :
    R (evalListC H C ix a es).1 (evalListC H D ix b es).1 ∧ (evalListC H C ix a es).2 = (evalListC H D ix b es).2 := by
  match es with
  | [] => unfold evalListC; exact ⟨hab, rfl⟩
  | e :: es' =>
    unfold evalListC
    have ih := evalC_sim S e a b hab
    simp only
    rw [ih.2]
    cases hv : (evalC H D ix b e).2 with
    | none => exact ⟨ih.1, rfl⟩
    | some bm =>
      have ih2 := evalListC_sim S es' _ _ ih.1
      exact ⟨ih2.1, by simp only [ih2.2]⟩
end

theorem executeC_sim (S : CacheSim C D R) (q : Query) (a : σ) (b : τ) (hab : R a b) :
    R (executeC H C ix a q).1 (executeC H D ix b q).1 ∧ (executeC H C ix a q).2 = (executeC H D ix b q).2 := by
  unfold executeC
  cases populateGroupBy ix.schema q.groupBy with
  | none => exact ⟨hab, rfl⟩
  | some fields =>
    have ih := evalC_sim H ix S q.expr a b hab
    simp only
    rw [ih.2]
    cases hv : (evalC H D ix b q.expr).2 with
    | none => exact ⟨ih.1, rfl⟩
    | some bm => exact ⟨ih.1, rfl⟩

theorem executeAllC_sim (S : CacheSim C D R) (qs : List Query) (a : σ) (b : τ) (hab : R a b) :
    R (executeAllC H C ix a qs).1 (executeAllC H D ix b qs).1 ∧ (executeAllC H C ix a qs).2 = (executeAllC H D ix b qs).2 := by
  induction qs generalizing a b with
  | nil => exact ⟨hab, rfl⟩
  | cons q qs ih =>
    unfold executeAllC
    have h1 := executeC_sim H ix S q a b hab
    have h2 := ih _ _ h1.1
    exact ⟨h2.1, by simp only [h1.2, h2.2]⟩

end sim

/-! ## 2. the generated LRU as a `CacheImpl` -/

/-- **the `Cache` implementation whose state is the generated `Gen.LRUCache`** and whose `Get` / `Put` are the
    generated `Gen.lruGet` / `Gen.lruPut` (`sz` is `GetSizeInBytes`); `(nil, false)` is read as a miss -/
def genLruImpl (sz : Ref → UInt64) : CacheImpl Gen.LRUCache where
  get := fun s k => ((Gen.lruGet s k).1, absRes (Gen.lruGet s k).2)
  put := fun s k bm => Gen.lruPut sz s k bm

/-! ### the model's `Lru` does not look at its counters -/

theorem noCtr_get {a b : Lru} (h : noCtr a = noCtr b) (k : Nat) :
    noCtr (a.get k).1 = noCtr (b.get k).1 ∧ (a.get k).2 = (b.get k).2 := by
  obtain ⟨ai, ac, am, ao, _, _, _, _⟩ := a
  obtain ⟨bi, bc, bm, bo, _, _, _, _⟩ := b
  simp only [noCtr, Lru.mk.injEq, and_true] at h
  obtain ⟨rfl, rfl, rfl, rfl⟩ := h
  simp only [Lru.get]
  split <;> exact ⟨rfl, rfl⟩

theorem noCtr_put {a b : Lru} (h : noCtr a = noCtr b) (k bm s : Nat) : noCtr (a.put k bm s) = noCtr (b.put k bm s) := by
  obtain ⟨ai, ac, am, ao, _, _, _, _⟩ := a
  obtain ⟨bi, bc, bm', bo, _, _, _, _⟩ := b
  simp only [noCtr, Lru.mk.injEq, and_true] at h
  obtain ⟨rfl, rfl, rfl, rfl⟩ := h
  simp only [Lru.put]
  split <;> rfl

theorem noCtr_bounded {a b : Lru} (h : noCtr a = noCtr b) (hb : a.Bounded) : b.Bounded := by
  obtain ⟨ai, ac, am, ao, _, _, _, _⟩ := a
  obtain ⟨bi, bc, bm', bo, _, _, _, _⟩ := b
  simp only [noCtr, Lru.mk.injEq, and_true] at h
  obtain ⟨rfl, rfl, rfl, rfl⟩ := h
  exact hb

theorem inc_isSome (c : Go.Counter) : (Go.Counter.inc c).isSome = c.isSome := by cases c <;> rfl

theorem allSet_of_lruGet (s : Gen.LRUCache) (k : UInt64) (h : AllSet (Gen.lruGet s k).1) : AllSet s := by
  have hm := (lruGet_metrics s k).1
  unfold AllSet at h ⊢
  rw [hm] at h
  obtain ⟨h1, h2, h3, h4⟩ := h
  simp only [inc_isSome] at h1
  refine ⟨h1, h2, ?_, ?_⟩
  · cases hb : (Gen.lruGet s k).2.2 <;> simp only [hb, if_true, if_false, Bool.false_eq_true, inc_isSome] at h3 <;> exact h3
  · cases hb : (Gen.lruGet s k).2.2 <;> simp only [hb, if_true, if_false, Bool.false_eq_true, inc_isSome] at h4 <;> exact h4

theorem allSet_of_lruPut (sz : Ref → UInt64) (s : Gen.LRUCache) (k : UInt64) (bm : Ref)
    (h : AllSet (Gen.lruPut sz s k bm)) : AllSet s := by
  have hm := (lruPut_metrics sz s k bm).1
  unfold AllSet at h ⊢
  rw [hm] at h
  obtain ⟨h1, h2, h3, h4⟩ := h
  simp only [inc_isSome] at h2
  exact ⟨h1, h2, h3, h4⟩

/-- **the simulation relation** between a generated cache `g` of capacity `max` and a model cache `m`:
    the representation invariant of Props/Gen/Lru.lean holds, the cache respects its bound, no `Put` can overflow the
    64-bit account, and `abs g` is `m` — up to the four counters in general (any of them may be nil in `g`), exactly
    when all four counters are configured -/
structure LruRel (sz : Ref → UInt64) (max : UInt64) (g : Gen.LRUCache) (m : Lru) : Prop where
  inv : Inv g
  bounded : (abs g).Bounded
  max_eq : g.maxSize = max
  fits : ∀ bm, max.toNat + (sz bm).toNat + ovh < 2 ^ 64
  core : noCtr (abs g) = noCtr m
  exact : AllSet g → abs g = m

/-- **the generated `Get` / `Put` simulate the model's `lruCacheImpl`** along `abs`, from every state in the relation -/
theorem genLru_sim (sz : Ref → UInt64) (max : UInt64) :
    CacheSim (genLruImpl sz) (lruCacheImpl fun b => (sz b).toNat) (LruRel sz max) where
  get := by
    intro g m k ⟨hI, hB, hmax, hF, hc, hx⟩
    obtain ⟨g1, g2⟩ := lruGet_abs_gen g k hI
    have hn := lruGet_abs_noCtr g k hI
    have hm := noCtr_get hc k.toNat
    refine ⟨⟨lruGet_inv g k hI, ?_, (lruGet_metrics g k).2.1.trans hmax, hF, hn.trans hm.1, ?_⟩, g2.trans hm.2⟩
    · exact noCtr_bounded hn.symm (step_bounded (abs g) (.get k.toNat) hI.model hB)
    · intro hA'
      have hA := allSet_of_lruGet g k hA'
      have := (lruGet_abs g k hI hA).1
      show abs (Gen.lruGet g k).1 = (m.get k.toNat).1
      rw [this, hx hA]
  put := by
    intro g m k bm ⟨hI, hB, hmax, hF, hc, hx⟩
    have hcur := cur_le_of_bounded hI hB
    have hno : g.curSize.toNat + (sz bm).toNat + ovh < 2 ^ 64 := by
      have := hF bm
      rw [hmax] at hcur
      omega
    have hn := lruPut_abs_noCtr sz g k bm hI hno
    refine ⟨lruPut_inv sz g k bm hI hno, ?_, (lruPut_metrics sz g k bm).2.trans hmax, hF,
      hn.trans (noCtr_put hc k.toNat bm (sz bm).toNat), ?_⟩
    · exact noCtr_bounded hn.symm (step_bounded (abs g) (.put k.toNat bm (sz bm).toNat) hI.model hB)
    · intro hA'
      have hA := allSet_of_lruPut sz g k bm hA'
      show abs (Gen.lruPut sz g k bm) = m.put k.toNat bm (sz bm).toNat
      rw [lruPut_abs sz g k bm hI hA hno, hx hA]

/-- **`NewLRUCache(max, opts…)` starts the simulation**: whatever `WithCacheMetrics` options are given (none, some
    counters nil, all set), the new generated cache is related to its own abstraction, which is an empty model cache.
    Remaining precondition: `max + GetSizeInBytes(bm) + 64 < 2^64` for every bitmap. -/
theorem newLRUCache_rel (sz : Ref → UInt64) (max : UInt64) (ms : List Gen.CacheMetrics)
    (hfit : ∀ bm, max.toNat + (sz bm).toNat + ovh < 2 ^ 64) :
    LruRel sz max (Gen.newLRUCache max (ms.map Gen.withCacheMetrics))
      (abs (Gen.newLRUCache max (ms.map Gen.withCacheMetrics))) ∧
    (abs (Gen.newLRUCache max (ms.map Gen.withCacheMetrics))).items = [] := by
  have hI := newLRUCache_inv max ms
  rw [newLRUCache_eq] at hI ⊢
  have hitems : (abs (base max (ms.getLast?.getD nilMetrics))).items = [] := by rw [abs_base]; rfl
  exact ⟨⟨hI, Or.inr hitems, rfl, hfit, rfl, fun _ => rfl⟩, hitems⟩

/-- the byte bound of C07 as a predicate on a generated cache (the conclusion of `gen_byte_bound`) -/
def ByteBound (max : UInt64) (c : Gen.LRUCache) : Prop :=
  c.curSize.toNat = total ovh (absItems c.lruList.elems) ∧
  (c.curSize ≤ max ∨ c.lruList.elems = []) ∧
  sizes (absItems c.lruList.elems) ≤ max.toNat

theorem LruRel.byteBound {sz : Ref → UInt64} {max : UInt64} {g : Gen.LRUCache} {m : Lru} (h : LruRel sz max g m) :
    ByteBound max g := by
  obtain ⟨hI, hB, hmax, _, _, _⟩ := h
  refine ⟨hI.acct, ?_, ?_⟩
  · rcases hB with hb | hb
    · left
      rw [UInt64.le_iff_toNat_le, hI.acct, ← hmax]; exact hb
    · right
      have : absItems g.lruList.elems = [] := hb
      cases hc : g.lruList.elems with
      | nil => rfl
      | cons a t => rw [hc] at this; simp [absItems] at this
  · rcases hB with hb | hb
    · have h1 := sizes_le_total ovh (absItems g.lruList.elems)
      have h2 : total ovh (absItems g.lruList.elems) ≤ g.maxSize.toNat := hb
      rw [hmax] at h2
      omega
    · have : absItems g.lruList.elems = [] := hb
      rw [this]; simp [sizes]

/-- **every state reachable from a related state by generated `Get`s and `Put`s is related** to the state the model
    reaches by the same history, and the `Get` answers agree: `genRun_abs` of Props/Gen/Lru.lean for ANY configuration
    of the four counters (there: all set) -/
theorem genRun_rel (sz : Ref → UInt64) (max : UInt64) (ops : List GOp) (g : Gen.LRUCache) (m : Lru)
    (hrel : LruRel sz max g m) :
    LruRel sz max (genRun sz g ops).1 (m.run (ops.map (absOp sz))).1 ∧
    (genRun sz g ops).2 = (m.run (ops.map (absOp sz))).2 := by
  induction ops generalizing g m with
  | nil => exact ⟨hrel, rfl⟩
  | cons op ops ih =>
    rw [List.map_cons, run_cons]
    simp only [genRun]
    cases op with
    | get k =>
      obtain ⟨h1, h2⟩ := (genLru_sim sz max).get g m k hrel
      obtain ⟨i1, i2⟩ := ih _ _ h1
      exact ⟨i1, List.cons_eq_cons.2 ⟨h2, i2⟩⟩
    | put k bm =>
      have h1 := (genLru_sim sz max).put g m k bm hrel
      obtain ⟨i1, i2⟩ := ih _ _ h1
      exact ⟨i1, List.cons_eq_cons.2 ⟨rfl, i2⟩⟩

/-! ## 3. the generated `Execute` through the generated LRU -/

section lift
variable (H : Bytes → UInt64) (X : Ext) (rows : List Row) (bolt : Bolt) (hp : Heap) (i : Nat)
  (d : BucketData) (next : UInt32) (vals : ColGetter)
  (hw : HoldsWriter X d (Writer.addRows H {} rows) next)
  (hg : GetColRefines (genGetCol X bolt hp vals) (fileIndex X d (Writer.addRows H {} rows).schema next))
  (hlen : rows.length < 2 ^ 64)
  (sz : Ref → UInt64) (max : UInt64)
  {U : List Expr} (hU : SubClosed U) (hkey : KeyOK H (Writer.addRows H {} rows).toIndex U)
include hw hg hlen hU hkey

/-- one query: the all-generated `Execute` through the generated LRU, from a state related to a sound model state,
    answers like `executeC` through the model LRU and leaves related states -/
theorem genLruExecute_sim (g : Gen.LRUCache) (m : Lru) (hrel : LruRel sz max g m)
    (hst : Sound H (Writer.addRows H {} rows).toIndex U (C03.lruCache_contract fun b => (sz b).toNat) m)
    (e : Expr) (he : e ∈ U) (cols : List Bytes) (stale : List Gen.groupBy) :
    (execView (genExecute H (genLruImpl sz) X bolt hp (openedIndex i (Writer.addRows H {} rows).schema next vals)
        ⟨toLib e, cols⟩ stale g)).2
      = (executeC H (lruCacheImpl fun b => (sz b).toNat) (Writer.addRows H {} rows).toIndex m ⟨e, cols⟩).2 ∧
    LruRel sz max
      (execView (genExecute H (genLruImpl sz) X bolt hp (openedIndex i (Writer.addRows H {} rows).schema next vals)
        ⟨toLib e, cols⟩ stale g)).1
      (executeC H (lruCacheImpl fun b => (sz b).toNat) (Writer.addRows H {} rows).toIndex m ⟨e, cols⟩).1 := by
  have hsim := evalC_sim H (Writer.addRows H {} rows).toIndex (genLru_sim sz max) e g m hrel
  have htr := (C03.cache_transparent (C03.lruCache_contract fun b => (sz b).toNat) hU hkey m hst e he).1
  have h1 := genExecute_eq_execute H X rows bolt hp i d next vals hw hg hlen (genLruImpl sz) g e cols stale
    (hsim.2.trans htr)
  rw [h1]
  have := executeC_sim H (Writer.addRows H {} rows).toIndex (genLru_sim sz max) ⟨e, cols⟩ g m hrel
  exact ⟨this.2, this.1⟩

/-- a history of queries: the same, state threaded through -/
theorem genLruExecuteAll_sim :
    ∀ (qs : List (Query × List Gen.groupBy)) (g : Gen.LRUCache) (m : Lru), LruRel sz max g m →
      Sound H (Writer.addRows H {} rows).toIndex U (C03.lruCache_contract fun b => (sz b).toNat) m →
      (∀ p ∈ qs, p.1.expr ∈ U) →
      (genExecuteAll H (genLruImpl sz) X bolt hp (openedIndex i (Writer.addRows H {} rows).schema next vals)
          (qs.map fun p => (⟨toLib p.1.expr, p.1.groupBy⟩, p.2)) g).2
        = (executeAllC H (lruCacheImpl fun b => (sz b).toNat) (Writer.addRows H {} rows).toIndex m (qs.map (·.1))).2 ∧
      LruRel sz max
        (genExecuteAll H (genLruImpl sz) X bolt hp (openedIndex i (Writer.addRows H {} rows).schema next vals)
          (qs.map fun p => (⟨toLib p.1.expr, p.1.groupBy⟩, p.2)) g).1
        (executeAllC H (lruCacheImpl fun b => (sz b).toNat) (Writer.addRows H {} rows).toIndex m (qs.map (·.1))).1 := by
  intro qs
  induction qs with
  | nil => intro g m hrel _ _; exact ⟨rfl, hrel⟩
  | cons p r ih =>
    intro g m hrel hst hq
    obtain ⟨⟨e, cols⟩, stale⟩ := p
    have he : e ∈ U := hq (⟨e, cols⟩, stale) (List.mem_cons_self ..)
    obtain ⟨h1, h2⟩ := genLruExecute_sim H X rows bolt hp i d next vals hw hg hlen sz max hU hkey g m hrel hst e he cols stale
    have hs' := (C03.execute_transparent (C03.lruCache_contract fun b => (sz b).toNat) hU hkey m hst ⟨e, cols⟩ he).2
    obtain ⟨i1, i2⟩ := ih _ _ h2 hs' (fun p hp => hq p (List.mem_cons_of_mem _ hp))
    simp only [List.map_cons, genExecuteAll, executeAllC]
    exact ⟨by rw [h1, i1], i2⟩

end lift

theorem take_map_mem {α β : Type} (f : α → β) (l : List α) (n : Nat) (x : α) (h : x ∈ l.take n) : x ∈ l :=
  List.mem_of_mem_take h

/-! ## 4. a prepared statement of the driver through any cache, and through the generated LRU -/

/-- the rows the SQL specification prescribes for a bound statement: the header `groupBy ++ ["count"]` and the rows
    the model's `newRows` makes of the specification's answer (`specExecute`: `SELECT groupBy, COUNT(*) … GROUP BY …`) -/
def sqlRows (rows : List Row) (q' : PQuery) : Option (List Bytes × List (List Cell)) :=
  (specExecute rows (toQuery q')).map fun res =>
    ((Updog.newRows res q'.groupBy).cols, (Updog.newRows res q'.groupBy).rows)

/-- a statement the generated parser accepts, bound, run by `Gen.stmtQuery` over the all-generated `Execute` through
    ANY cache implementation from a state from which this query's cached evaluation is transparent: the SQL rows -/
theorem stmtQuery_sql (H : Bytes → UInt64) {σ : Type} (C : CacheImpl σ) (X : Ext) (rows : List Row) (bolt : Bolt)
    (hp : Heap) (i : Nat) (d : BucketData) (next : UInt32) (vals : ColGetter)
    (hw : HoldsWriter X d (Writer.addRows H {} rows) next)
    (hg : GetColRefines (genGetCol X bolt hp vals) (fileIndex X d (Writer.addRows H {} rows).schema next))
    (hrows : rows.length < 2 ^ 64) (st : σ)
    (text : Bytes) (fuel : Nat) (hfuel : 3 * text.length + 5 ≤ fuel) (pq : PQuery)
    (hparse : Gen.ParseQuery fuel text = .ok pq) (values : List Bytes) (q' : PQuery) (hb : bind pq values = .ok q')
    (hte : (evalC H C (Writer.addRows H {} rows).toIndex st (toExpr q'.expr)).2
      = eval H (Writer.addRows H {} rows).toIndex (toExpr q'.expr))
    (htx : (executeC H C (Writer.addRows H {} rows).toIndex st (toQuery q')).2
      = execute H (Writer.addRows H {} rows).toIndex (toQuery q'))
    (ok : EndToEnd.QueryOK H rows (toQuery q')) (hD : DataNoCollision H rows) :
    ∃ r, sqlRows rows q' = some r ∧
      (toOutcome (Gen.stmtQuery (genLibExecute H C X bolt hp
          (openedIndex i (Writer.addRows H {} rows).schema next vals) st) ⟨pq⟩ values)).map GenCompose.rowsView = .ok r := by
  have hix := hw.fileIndex_eq
  have h := (GenCompose.gen_stmtQuery_eq H C X bolt hp i d _ next vals hg st text fuel hfuel pq hparse values
    (by
      intro q'' hb''
      rw [hb] at hb''; injection hb'' with hb''; subst hb''
      rw [hix]; exact htx)
    (by
      intro q'' hb'' bm hbm
      rw [hb] at hb''; injection hb'' with hb''; subst hb''
      rw [hix, hte] at hbm
      exact Nat.lt_of_le_of_lt (eval_popcount_le H rows _ bm hbm) hrows)).2
  obtain ⟨groups, hsg, hex⟩ := C02.execute_eq_some H rows (toExpr q'.expr) q'.groupBy ok.cols ok.wf ok.inj hD ok.gb
  have hspec := C02.groupBy_eq_spec H rows (toExpr q'.expr) q'.groupBy ok.cols ok.wf ok.inj hD ok.gb
  refine ⟨((Updog.newRows ⟨specCount rows (toExpr q'.expr), groups⟩ q'.groupBy).cols,
    (Updog.newRows ⟨specCount rows (toExpr q'.expr), groups⟩ q'.groupBy).rows), ?_, ?_⟩
  · unfold sqlRows
    rw [show toQuery q' = ⟨toExpr q'.expr, q'.groupBy⟩ from rfl, ← hspec, hex]
    rfl
  · rw [h, hb]
    simp only [hix, toQuery, hex]

section lru
variable (H : Bytes → UInt64) (X : Ext) (rows : List Row) (bolt : Bolt) (hp : Heap) (i : Nat)
  (d : BucketData) (next : UInt32) (vals : ColGetter)
  (hw : HoldsWriter X d (Writer.addRows H {} rows) next)
  (hg : GetColRefines (genGetCol X bolt hp vals) (fileIndex X d (Writer.addRows H {} rows).schema next))
  (hlen : rows.length < 2 ^ 64)
  (sz : Ref → UInt64) (max : UInt64)
  {U : List Expr} (hU : SubClosed U) (hkey : KeyOK H (Writer.addRows H {} rows).toIndex U)
include hw hg hlen hU hkey

/-- the library query `q` (any Go `Expression` that completes to `e ∈ U`) executed all-generated through the generated
    LRU from a state related to a sound model state: the states after are related and the model state is sound -/
theorem genLruExecute_state (g : Gen.LRUCache) (m : Lru) (hrel : LruRel sz max g m)
    (hst : Sound H (Writer.addRows H {} rows).toIndex U (C03.lruCache_contract fun b => (sz b).toNat) m)
    (q : Go.Lib.Query) (e : Expr) (hq : libComplete q.Expr = some e) (he : e ∈ U) (stale : List Gen.groupBy) :
    ∃ m', LruRel sz max
        (genExecute H (genLruImpl sz) X bolt hp (openedIndex i (Writer.addRows H {} rows).schema next vals) q stale g).1 m' ∧
      Sound H (Writer.addRows H {} rows).toIndex U (C03.lruCache_contract fun b => (sz b).toNat) m' := by
  have hix := hw.fileIndex_eq
  have hsim := evalC_sim H (Writer.addRows H {} rows).toIndex (genLru_sim sz max) e g m hrel
  have htr := (C03.cache_transparent (C03.lruCache_contract fun b => (sz b).toNat) hU hkey m hst e he).1
  have hx := genExecute_eq H (genLruImpl sz) X bolt hp i d (Writer.addRows H {} rows).schema next vals hg q stale g
    (by
      intro e' he' bm hbm
      rw [hq] at he'; cases he'
      rw [hix, hsim.2, htr] at hbm
      exact Nat.lt_of_le_of_lt (eval_popcount_le H rows e bm hbm) hlen)
  rw [hq] at hx
  simp only [hix] at hx
  have h1 : (genExecute H (genLruImpl sz) X bolt hp (openedIndex i (Writer.addRows H {} rows).schema next vals) q stale g).1
      = (executeC H (genLruImpl sz) (Writer.addRows H {} rows).toIndex g ⟨e, q.GroupBy⟩).1 := congrArg Prod.fst hx
  rw [h1]
  exact ⟨_, (executeC_sim H (Writer.addRows H {} rows).toIndex (genLru_sim sz max) ⟨e, q.GroupBy⟩ g m hrel).1,
    (C03.execute_transparent (C03.lruCache_contract fun b => (sz b).toNat) hU hkey m hst ⟨e, q.GroupBy⟩ he).2⟩

/-- **a prepared statement through the generated LRU**: the SQL rows, from every state related to a sound model state -/
theorem genLru_stmtQuery_sql (g : Gen.LRUCache) (m : Lru) (hrel : LruRel sz max g m)
    (hst : Sound H (Writer.addRows H {} rows).toIndex U (C03.lruCache_contract fun b => (sz b).toNat) m)
    (text : Bytes) (fuel : Nat) (hfuel : 3 * text.length + 5 ≤ fuel) (pq : PQuery)
    (hparse : Gen.ParseQuery fuel text = .ok pq) (values : List Bytes) (q' : PQuery) (hb : bind pq values = .ok q')
    (he : toExpr q'.expr ∈ U) (ok : EndToEnd.QueryOK H rows (toQuery q')) (hD : DataNoCollision H rows) :
    ∃ r, sqlRows rows q' = some r ∧
      (toOutcome (Gen.stmtQuery (genLibExecute H (genLruImpl sz) X bolt hp
          (openedIndex i (Writer.addRows H {} rows).schema next vals) g) ⟨pq⟩ values)).map GenCompose.rowsView = .ok r := by
  have hsim := evalC_sim H (Writer.addRows H {} rows).toIndex (genLru_sim sz max) (toExpr q'.expr) g m hrel
  have htr := (C03.cache_transparent (C03.lruCache_contract fun b => (sz b).toNat) hU hkey m hst _ he).1
  have hxs := executeC_sim H (Writer.addRows H {} rows).toIndex (genLru_sim sz max) (toQuery q') g m hrel
  have hxt := (C03.execute_transparent (C03.lruCache_contract fun b => (sz b).toNat) hU hkey m hst (toQuery q') he).1
  exact stmtQuery_sql H (genLruImpl sz) X rows bolt hp i d next vals hw hg hlen g text fuel hfuel pq hparse values q' hb
    (hsim.2.trans htr) (hxs.2.trans hxt) ok hD

end lru

/-- what `Gen.ToQuery` makes of a bound parsed query completes to the model expression -/
theorem libComplete_ToQuery_toWire (q' : PQuery) :
    libComplete (Gen.ToQuery (Go.Parsed.Query.toWire q')).Expr = some (toExpr q'.expr) := by
  rw [(ToQuery_complete (Go.Parsed.Query.toWire q')).1]
  simp only [Go.Parsed.Query.toWire, complete_toWire]

end Updog.GeneratedEq
