/-
The group-by loop (`refine`, `groupBy`) computes the pruned lexicographic product.
-/
import Updog.Proofs.Eval
import Updog.Proofs.Sort
namespace Updog

/-! ### list helpers -/

theorem filterMap_congr' {α β} {f g : α → Option β} {l : List α} (h : ∀ x ∈ l, f x = g x) :
    l.filterMap f = l.filterMap g := by
  induction l with
  | nil => rfl
  | cons a l ih =>
    rw [List.filterMap_cons, List.filterMap_cons, h a (by simp), ih (fun x hx => h x (List.mem_cons_of_mem _ hx))]

theorem flatMap_congr' {α β} {f g : α → List β} {l : List α} (h : ∀ x ∈ l, f x = g x) :
    l.flatMap f = l.flatMap g := by
  induction l with
  | nil => rfl
  | cons a l ih =>
    rw [List.flatMap_cons, List.flatMap_cons, h a (by simp), ih (fun x hx => h x (List.mem_cons_of_mem _ hx))]

theorem all_congr' {α} {p q : α → Bool} {l : List α} (h : ∀ x ∈ l, p x = q x) : l.all p = l.all q := by
  induction l with
  | nil => rfl
  | cons a l ih =>
    rw [List.all_cons, List.all_cons, h a (by simp), ih (fun x hx => h x (List.mem_cons_of_mem _ hx))]

/-! ### bit sets -/

theorem popcount_eq_zero_iff (b : Nat) : popcount b = 0 ↔ b = 0 := by
  constructor
  · intro h
    induction b using Nat.strongRecOn with
    | _ b ih =>
      by_cases hb : b = 0
      · exact hb
      · rw [popcount_eq b hb] at h
        have h2 : b / 2 = 0 := ih (b / 2) (by omega) (by omega)
        omega
  · intro h; subst h; exact popcount_zero

/-- the cardinality of a bitmap whose bit `i` says "row `i` exists and satisfies `p`" -/
theorem popcount_eq_filter_length (b : Nat) (rows : List Row) (p : Row → Bool)
    (h : ∀ i, b.testBit i = (decide (i < rows.length) && p (rowAt rows i))) :
    popcount b = (rows.filter p).length := by
  have hlt : b < 2 ^ rows.length := by
    apply lt_two_pow_of_testBit
    intro i hi
    rw [h i]
    have : ¬ i < rows.length := by omega
    simp [this]
  rw [popcount_eq_countBelow _ _ hlt,
    countBelow_eq_of_testBit b rows.length (fun i => p (rowAt rows i))
      (by intro i hi; rw [h i]; simp [hi])]
  exact filter_range_length rows p []

/-! ### the abstract loop -/

section
variable (bmOf : Bytes × Bytes → Nat)

/-- AND of `b` with the bitmaps of all pairs of `t` -/
def tupleBm (b : Nat) (t : Fields) : Nat := t.foldl (fun acc p => acc &&& bmOf p) b

theorem testBit_tupleBm (b : Nat) (t : Fields) (i : Nat) :
    (tupleBm bmOf b t).testBit i = (b.testBit i && t.all fun p => (bmOf p).testBit i) := by
  unfold tupleBm
  induction t generalizing b with
  | nil => simp
  | cons p t ih => simp [ih, Nat.testBit_and, Bool.and_assoc]

theorem tupleBm_zero (t : Fields) : tupleBm bmOf 0 t = 0 := by
  unfold tupleBm
  induction t with
  | nil => rfl
  | cons p t ih => simpa [List.foldl] using ih

/-- `refine` on plain (column, values) data with the bitmap of a pair given by `bmOf` -/
def refine' (cv : Bytes × List Bytes) (rgs : List (Fields × Nat)) : List (Fields × Nat) :=
  rgs.flatMap fun rg => cv.2.filterMap fun v =>
    let r := rg.2 &&& bmOf (cv.1, v)
    if popcount r = 0 then none else some (rg.1 ++ [(cv.1, v)], r)

/-- extend a result group by a whole tuple, dropping it when it becomes empty -/
def extend (rg : Fields × Nat) (u : Fields) : Option (Fields × Nat) :=
  let b := tupleBm bmOf rg.2 u
  if popcount b = 0 then none else some (rg.1 ++ u, b)

theorem extend_cons (rg : Fields × Nat) (p : Bytes × Bytes) (u : Fields) :
    extend bmOf rg (p :: u) = extend bmOf (rg.1 ++ [p], rg.2 &&& bmOf p) u := by
  unfold extend tupleBm
  simp only [List.foldl_cons, List.append_assoc, List.cons_append, List.nil_append]
  rfl

/-- extensions of an empty group are empty: pruning early loses nothing -/
theorem extend_of_popcount_zero (rg : Fields × Nat) (u : Fields) (h : popcount rg.2 = 0) :
    extend bmOf rg u = none := by
  have : rg.2 = 0 := (popcount_eq_zero_iff _).mp h
  simp [extend, this, tupleBm_zero, popcount_zero]

theorem refine'_step (c : Bytes) (vs : List Bytes) (P : List Fields) (S : List (Fields × Nat)) :
    (refine' bmOf (c, vs) S).flatMap (fun s => P.filterMap (extend bmOf s))
      = S.flatMap fun rg => (vs.flatMap fun v => P.map ((c, v) :: ·)).filterMap (extend bmOf rg) := by
  unfold refine'
  rw [List.flatMap_assoc]
  apply flatMap_congr'
  intro rg _
  rw [List.filterMap_flatMap]
  induction vs with
  | nil => rfl
  | cons v vs ih =>
    rw [List.flatMap_cons, ← ih, List.filterMap_map, List.filterMap_cons]
    have hfun : (extend bmOf rg ∘ fun x => (c, v) :: x)
        = extend bmOf (rg.1 ++ [(c, v)], rg.2 &&& bmOf (c, v)) := by
      funext u; exact extend_cons bmOf rg (c, v) u
    rw [hfun]
    by_cases hz : popcount (rg.2 &&& bmOf (c, v)) = 0
    · have hnil : P.filterMap (extend bmOf (rg.1 ++ [(c, v)], rg.2 &&& bmOf (c, v))) = [] := by
        rw [List.filterMap_eq_nil_iff]
        intro u _
        exact extend_of_popcount_zero bmOf _ u hz
      simp only [hz, if_true, hnil, List.nil_append]
    · simp only [hz, if_false, List.flatMap_cons]

theorem refine'_single (c : Bytes) (vs : List Bytes) (S : List (Fields × Nat)) :
    refine' bmOf (c, vs) S = S.flatMap fun rg => (product [(c, vs)]).filterMap (extend bmOf rg) := by
  unfold refine'
  apply flatMap_congr'
  intro rg _
  have hp : product [(c, vs)] = vs.map fun v => [(c, v)] := by
    simp only [product, List.map_cons, List.map_nil]
    induction vs with
    | nil => rfl
    | cons v vs ih => rw [List.flatMap_cons, ih]; rfl
  rw [hp, List.filterMap_map]
  rfl

/-- the loop of `Query.groupBy` over at least one column: every tuple of the lexicographic product whose
row set (within the start group) is non-empty, in product order, with that row set -/
theorem foldl_refine' (cv : Bytes × List Bytes) (cvs : List (Bytes × List Bytes)) (S : List (Fields × Nat)) :
    (cv :: cvs).foldl (fun rgs cv => refine' bmOf cv rgs) S
      = S.flatMap fun rg => (product (cv :: cvs)).filterMap (extend bmOf rg) := by
  induction cvs generalizing cv S with
  | nil => exact refine'_single bmOf cv.1 cv.2 S
  | cons cv' cvs ih =>
    rw [List.foldl_cons, ih cv' (refine' bmOf cv S)]
    exact refine'_step bmOf cv.1 cv.2 (product (cv' :: cvs)) S

end

/-! ### from the model's `refine`/`groupBy` to the abstract loop -/

section
variable (H : Bytes → UInt64)

/-- the bitmap stored for a pair (empty if there is none) -/
def bmOfIx (ix : Index) (p : Bytes × Bytes) : Nat := (ix.getCol (H (encodePair p.1 p.2))).getD 0

/-- every value of the field carries the value index of its (column, value) pair -/
def GBField.HashOK (f : GBField) : Prop := ∀ v ∈ f.values, v.2 = H (encodePair f.col v.1)

def GBField.toCV (f : GBField) : Bytes × List Bytes := (f.col, f.values.map (·.1))

theorem refine_eq_refine' (ix : Index) (gbf : GBField) (hh : gbf.HashOK H) (rgs : List (Fields × Nat)) :
    refine ix gbf rgs = refine' (bmOfIx H ix) gbf.toCV rgs := by
  unfold refine refine' GBField.toCV
  apply flatMap_congr'
  intro rg _
  rw [List.filterMap_map]
  apply filterMap_congr'
  intro v hv
  simp only [Function.comp, bmOfIx, ← hh v hv]
  cases ix.getCol v.2 with
  | none => simp [popcount_zero]
  | some vbm => rfl

theorem foldl_refine_eq (ix : Index) (fields : List GBField) (hh : ∀ f ∈ fields, f.HashOK H)
    (S : List (Fields × Nat)) :
    fields.foldl (fun rgs gbf => refine ix gbf rgs) S
      = (fields.map GBField.toCV).foldl (fun rgs cv => refine' (bmOfIx H ix) cv rgs) S := by
  induction fields generalizing S with
  | nil => rfl
  | cons f fields ih =>
    rw [List.foldl_cons, List.map_cons, List.foldl_cons, refine_eq_refine' H ix f (hh f (by simp)),
      ih (fun g hg => hh g (List.mem_cons_of_mem _ hg))]

/-- `Query.groupBy` with at least one field -/
theorem groupBy_eq (ix : Index) (fields : List GBField) (hh : ∀ f ∈ fields, f.HashOK H)
    (hne : fields ≠ []) (result : Nat) :
    groupBy ix fields result = (product (fields.map GBField.toCV)).filterMap fun t =>
      let b := tupleBm (bmOfIx H ix) result t
      if popcount b = 0 then none else some (t, popcount b) := by
  unfold groupBy
  have he : fields.isEmpty = false := by cases fields with
    | nil => exact absurd rfl hne
    | cons _ _ => rfl
  rw [he, foldl_refine_eq H ix fields hh]
  cases hf : fields.map GBField.toCV with
  | nil => cases fields with
    | nil => exact absurd rfl hne
    | cons _ _ => simp at hf
  | cons cv cvs =>
    rw [foldl_refine', List.flatMap_cons, List.flatMap_nil, List.append_nil, List.map_filterMap]
    apply filterMap_congr'
    intro t _
    simp only [extend, List.nil_append]
    split <;> rfl

/-! ### `populateGroupBy` on the written schema -/

theorem populateGroupBy_none (s : Schema) (cols : List Bytes) (c : Bytes) (hc : c ∈ cols)
    (hno : s.col c = none) : populateGroupBy s cols = none := by
  induction cols with
  | nil => simp at hc
  | cons d cols ih =>
    simp only [populateGroupBy]
    by_cases hd : c = d
    · subst hd; rw [hno]
    · have hc' : c ∈ cols := by
        simp only [List.mem_cons] at hc
        rcases hc with h | h
        · exact absurd h hd
        · exact h
      rw [ih hc']
      cases s.col d <;> rfl

theorem populateGroupBy_some (rows : List Row) (cols : List Bytes) (hg : ∀ c ∈ cols, c ∈ columnsOf rows) :
    ∃ fields, populateGroupBy (Writer.addRows H {} rows).schema cols = some fields ∧
      fields.map GBField.toCV = cols.map (fun c => (c, sortedDistinct rows c)) ∧
      ∀ f ∈ fields, f.HashOK H := by
  induction cols with
  | nil => exact ⟨[], rfl, rfl, by simp⟩
  | cons c cols ih =>
    obtain ⟨fields, hf, hmap, hok⟩ := ih (fun d hd => hg d (List.mem_cons_of_mem _ hd))
    obtain ⟨vs, hvs⟩ := schema_col_exists H rows c (hg c (by simp))
    refine ⟨⟨c, sortVals vs⟩ :: fields, by simp [populateGroupBy, hvs, hf], ?_, ?_⟩
    · rw [List.map_cons, List.map_cons, hmap]
      simp only [GBField.toCV, sortVals_eq_sortedDistinct H rows c vs hvs]
    · intro f hfm
      simp only [List.mem_cons] at hfm
      rcases hfm with h | h
      · subst h
        intro v hv
        exact (schema_col_some H rows c vs hvs).hash v (mem_sortVals.mp hv)
      · exact hok f h

/-! ### bitmaps of data pairs -/

/-- no two different (column, value) pairs of the data share a value index -/
def DataNoCollision (rows : List Row) : Prop :=
  ∀ p ∈ pairsOf rows, ∀ q ∈ pairsOf rows, H (encodePair p.1 p.2) = H (encodePair q.1 q.2) → p = q

theorem testBit_bmOfIx (rows : List Row) (hD : DataNoCollision H rows) (p : Bytes × Bytes)
    (hp : p ∈ pairsOf rows) (i : Nat) :
    (bmOfIx H (Writer.addRows H {} rows).toIndex p).testBit i
      = (decide (i < rows.length) && (rowAt rows i).contains p) := by
  have hnc : NoCollision H rows [(p.1, p.2)] := by
    intro a ha q hq hh
    simp only [List.mem_singleton] at hq
    subst hq
    exact hD a ha (p.1, p.2) hp hh
  show (((Writer.addRows H {} rows).vals.get (H (encodePair p.1 p.2))).getD 0).testBit i = _
  rw [(winv_addRows H rows).vals, rowHas_eq_contains H rows p.1 p.2 i hnc]

/-- the cardinality of a tuple's row set within the query result is the SQL count of the tuple -/
theorem popcount_tupleBm (rows : List Row) (hD : DataNoCollision H rows) (e : Expr) (result : Nat)
    (hres : ∀ i, result.testBit i = (decide (i < rows.length) && sat (rowAt rows i) e))
    (t : Fields) (ht : ∀ p ∈ t, p ∈ pairsOf rows) :
    popcount (tupleBm (bmOfIx H (Writer.addRows H {} rows).toIndex) result t) = groupCount rows e t := by
  unfold groupCount
  apply popcount_eq_filter_length
  intro i
  rw [testBit_tupleBm, hres i]
  have hall : (t.all fun p => (bmOfIx H (Writer.addRows H {} rows).toIndex p).testBit i)
      = t.all fun p => (decide (i < rows.length) && (rowAt rows i).contains p) := by
    apply all_congr'
    intro p hp
    exact testBit_bmOfIx H rows hD p (ht p hp) i
  rw [hall]
  unfold rowMatches
  by_cases hi : i < rows.length
  · simp only [hi, decide_true, Bool.true_and]
  · simp only [hi, decide_false, Bool.false_and]

end

/-- a tuple with a positive count is carried by some satisfying row -/
theorem exists_row_of_groupCount_pos {rows : List Row} {e : Expr} {t : Fields}
    (h : 0 < groupCount rows e t) : ∃ r ∈ rows, sat r e = true ∧ ∀ p ∈ t, p ∈ r := by
  unfold groupCount at h
  obtain ⟨r, hr⟩ := List.exists_mem_of_length_pos h
  rw [List.mem_filter] at hr
  have h2 := hr.2
  simp only [Bool.and_eq_true] at h2
  refine ⟨r, hr.1, h2.1, ?_⟩
  have hm := h2.2
  unfold rowMatches at hm
  rw [List.all_eq_true] at hm
  intro p hp
  simpa using hm p hp

/-- in a row with distinct keys (a Go map) a key has one value -/
theorem eq_of_mem_of_nodup_keys {r : Row} (hnd : (r.map (·.1)).Nodup) {p q : Bytes × Bytes}
    (hp : p ∈ r) (hq : q ∈ r) (hk : p.1 = q.1) : p = q := by
  induction r with
  | nil => simp at hp
  | cons a r ih =>
    rw [List.map_cons, List.nodup_cons] at hnd
    simp only [List.mem_cons] at hp hq
    rcases hp with hp | hp
    · rcases hq with hq | hq
      · rw [hp, hq]
      · subst hp
        exact absurd (List.mem_map.mpr ⟨q, hq, hk.symm⟩) hnd.1
    · rcases hq with hq | hq
      · subst hq
        exact absurd (List.mem_map.mpr ⟨p, hp, hk⟩) hnd.1
      · exact ih hnd.2 hp hq

/-! ### the lexicographic product -/

theorem mem_product_map (f : Bytes → List Bytes) (cols : List Bytes) (t : Fields) :
    t ∈ product (cols.map fun c => (c, f c)) ↔ t.map (·.1) = cols ∧ ∀ p ∈ t, p.2 ∈ f p.1 := by
  induction cols generalizing t with
  | nil =>
    simp only [List.map_nil, product, List.mem_singleton]
    constructor
    · intro h; subst h; simp
    · intro h; exact List.map_eq_nil_iff.mp h.1
  | cons c cols ih =>
    simp only [List.map_cons, product, List.mem_flatMap, List.mem_map]
    constructor
    · rintro ⟨v, hv, u, hu, rfl⟩
      obtain ⟨h1, h2⟩ := (ih u).mp hu
      refine ⟨by simp [h1], ?_⟩
      intro p hp
      simp only [List.mem_cons] at hp
      rcases hp with h | h
      · subst h; exact hv
      · exact h2 p h
    · rintro ⟨h1, h2⟩
      cases t with
      | nil => simp at h1
      | cons p u =>
        simp only [List.map_cons, List.cons.injEq] at h1
        refine ⟨p.2, ?_, u, (ih u).mpr ⟨h1.2, fun q hq => h2 q (List.mem_cons_of_mem _ hq)⟩, ?_⟩
        · have := h2 p (by simp)
          rwa [h1.1] at this
        · rw [← h1.1]

/-- the product of strictly ascending value lists is strictly ascending in the lexicographic order of
the value tuples -/
theorem product_pairwise_lex (cvs : List (Bytes × List Bytes)) (hs : ∀ cv ∈ cvs, StrictSorted cv.2) :
    (product cvs).Pairwise fun t u => lexLt (t.map (·.2)) (u.map (·.2)) = true := by
  induction cvs with
  | nil => simp [product]
  | cons cv cvs ih =>
    obtain ⟨c, vs⟩ := cv
    have ih' := ih (fun cv hcv => hs cv (List.mem_cons_of_mem _ hcv))
    have hvs : StrictSorted vs := hs (c, vs) (by simp)
    simp only [product]
    rw [List.pairwise_flatMap]
    constructor
    · intro v _
      rw [List.pairwise_map]
      apply List.Pairwise.imp _ ih'
      intro t u htu
      simp [lexLt, htu]
    · apply List.Pairwise.imp _ hvs
      intro v1 v2 hv x hx y hy
      simp only [List.mem_map] at hx hy
      obtain ⟨x', _, rfl⟩ := hx
      obtain ⟨y', _, rfl⟩ := hy
      simp [lexLt, hv]

end Updog
