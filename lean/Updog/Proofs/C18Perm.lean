/-
Helper lemmas for C18 (permutation invariance and the boundary examples):
* renaming the rows of a dataset by an explicit permutation of the row ids,
* the specification (`specCount`, `specSchema`, `specGroups`, `specExecute`) and the hypotheses of C01/C02 do not
  depend on the order of the rows,
* the written (insertion ordered) schema of two permuted datasets: same columns, same value lists up to order,
* a round-robin schedule of two goroutines, and the exact sizes of the committed / pending bucket for rows with one
  pair each.
-/
import Updog.Proofs.C18Big
import Updog.Props.C02
import Updog.Props.C01Writers
namespace Updog

/-! ### renaming the row ids -/

/-- the dataset whose row `i` is row `p[i]` of `rows` (`p` a permutation of the row ids `0 … rows.length-1`) -/
def permRows (p : List Nat) (rows : List Row) : List Row := p.map fun i => (rows[i]?).getD []

theorem permRows_length (p : List Nat) (rows : List Row) : (permRows p rows).length = p.length := by
  simp [permRows]

theorem map_getD_range (rows : List Row) : (List.range rows.length).map (fun i => (rows[i]?).getD []) = rows := by
  apply List.ext_getElem?
  intro i
  by_cases hi : i < rows.length
  · simp [hi]
  · rw [List.getElem?_eq_none (by simpa using hi), List.getElem?_eq_none (by omega)]

theorem permRows_perm (p : List Nat) (rows : List Row) (hp : p.Perm (List.range rows.length)) :
    (permRows p rows).Perm rows := by
  have := hp.map fun i => (rows[i]?).getD []
  rwa [map_getD_range] at this

theorem permRows_getElem? (p : List Nat) (rows : List Row) (i : Nat) (hi : i < p.length) :
    (permRows p rows)[i]? = some ((rows[p[i]]?).getD []) := by
  simp [permRows, hi]

section
variable (H : Bytes → UInt64)

/-- row `i` of the renamed dataset carries a pair hashing to `h` iff row `p[i]` of the original does -/
theorem rowHas_permRows (p : List Nat) (rows : List Row) (h : UInt64) (i : Nat) (hi : i < p.length) :
    rowHas H (permRows p rows) h i = rowHas H rows h p[i] := by
  unfold rowHas
  rw [permRows_getElem? p rows i hi]
  cases rows[p[i]]? <;> simp

/-! ### the specification does not depend on the order of the rows -/

theorem columnsOf_perm {rows₁ rows₂ : List Row} (hp : rows₁.Perm rows₂) : (columnsOf rows₁).Perm (columnsOf rows₂) :=
  hp.flatMap_right _

theorem pairsOf_perm {rows₁ rows₂ : List Row} (hp : rows₁.Perm rows₂) : (pairsOf rows₁).Perm (pairsOf rows₂) :=
  hp.flatMap_right _

theorem hashIn_perm {rows₁ rows₂ : List Row} (hp : rows₁.Perm rows₂) (h : UInt64) :
    hashIn H rows₁ h = hashIn H rows₂ h := by
  unfold hashIn
  rw [Bool.eq_iff_iff, List.any_eq_true, List.any_eq_true]
  constructor
  · rintro ⟨r, hr, x⟩; exact ⟨r, hp.mem_iff.mp hr, x⟩
  · rintro ⟨r, hr, x⟩; exact ⟨r, hp.mem_iff.mpr hr, x⟩

theorem specCount_perm {rows₁ rows₂ : List Row} (hp : rows₁.Perm rows₂) (e : Expr) :
    specCount rows₁ e = specCount rows₂ e :=
  (hp.filter _).length_eq

theorem groupCount_perm {rows₁ rows₂ : List Row} (hp : rows₁.Perm rows₂) (e : Expr) (t : Fields) :
    groupCount rows₁ e t = groupCount rows₂ e t :=
  (hp.filter _).length_eq

theorem sortedDistinct_perm {rows₁ rows₂ : List Row} (hp : rows₁.Perm rows₂) (c : Bytes) :
    sortedDistinct rows₁ c = sortedDistinct rows₂ c := by
  apply StrictSorted.eq_of_mem_iff (sortedDistinct_strictSorted rows₁ c) (sortedDistinct_strictSorted rows₂ c)
  intro x
  rw [mem_sortedDistinct, mem_sortedDistinct]
  exact (pairsOf_perm hp).mem_iff

theorem sortedColumns_perm {rows₁ rows₂ : List Row} (hp : rows₁.Perm rows₂) :
    (columnsOf rows₁).eraseDups.mergeSort (fun a b => bytesLe a b)
      = (columnsOf rows₂).eraseDups.mergeSort (fun a b => bytesLe a b) := by
  apply StrictSorted.eq_of_mem_iff (strictSorted_mergeSort (nodup_eraseDups _))
    (strictSorted_mergeSort (nodup_eraseDups _))
  intro x
  rw [List.mem_mergeSort, List.mem_mergeSort, List.mem_eraseDups, List.mem_eraseDups]
  exact (columnsOf_perm hp).mem_iff

theorem specSchema_perm {rows₁ rows₂ : List Row} (hp : rows₁.Perm rows₂) : specSchema rows₁ = specSchema rows₂ := by
  unfold specSchema
  rw [sortedColumns_perm hp]
  apply List.map_congr_left
  intro c _
  rw [sortedDistinct_perm hp]

theorem specGroups_perm {rows₁ rows₂ : List Row} (hp : rows₁.Perm rows₂) (e : Expr) (cols : List Bytes) :
    specGroups rows₁ e cols = specGroups rows₂ e cols := by
  unfold specGroups
  have h1 : (fun c => !(columnsOf rows₁).contains c) = fun c => !(columnsOf rows₂).contains c := by
    funext c; rw [(columnsOf_perm hp).contains_eq]
  have h2 : (fun c => (c, sortedDistinct rows₁ c)) = fun c => (c, sortedDistinct rows₂ c) := by
    funext c; rw [sortedDistinct_perm hp]
  have h3 : (fun t => let n := groupCount rows₁ e t; if n = 0 then none else some (t, n))
      = fun t => let n := groupCount rows₂ e t; if n = 0 then none else some (t, n) := by
    funext t; simp only [groupCount_perm hp]
  rw [h1, h2, h3]

/-- the whole specified answer of a query (count and groups) is the same for two datasets that are permutations of
    each other -/
theorem specExecute_perm {rows₁ rows₂ : List Row} (hp : rows₁.Perm rows₂) (q : Query) :
    specExecute rows₁ q = specExecute rows₂ q := by
  unfold specExecute
  have h1 : (fun c => !(columnsOf rows₁).contains c) = fun c => !(columnsOf rows₂).contains c := by
    funext c; rw [(columnsOf_perm hp).contains_eq]
  rw [h1, specGroups_perm hp, specCount_perm hp]

theorem noCollision_perm {rows₁ rows₂ : List Row} (hp : rows₁.Perm rows₂) (qs : List (Bytes × Bytes))
    (h : NoCollision H rows₁ qs) : NoCollision H rows₂ qs :=
  fun p hp' q hq => h p ((pairsOf_perm hp).mem_iff.mpr hp') q hq

theorem dataNoCollision_perm {rows₁ rows₂ : List Row} (hp : rows₁.Perm rows₂) (h : DataNoCollision H rows₁) :
    DataNoCollision H rows₂ :=
  fun p hp' q hq => h p ((pairsOf_perm hp).mem_iff.mpr hp') q ((pairsOf_perm hp).mem_iff.mpr hq)

/-! ### the written schema of permuted datasets -/

theorem schema_col_isSome_perm {rows₁ rows₂ : List Row} (hp : rows₁.Perm rows₂) (c : Bytes) :
    ((Writer.addRows H {} rows₁).schema.col c).isSome = ((Writer.addRows H {} rows₂).schema.col c).isSome := by
  rw [schema_col_isSome, schema_col_isSome, (columnsOf_perm hp).contains_eq]

theorem nodup_of_map {α β} (f : α → β) (l : List α) (h : (l.map f).Nodup) : l.Nodup := by
  have := List.pairwise_map.mp h
  exact this.imp fun hne e => hne (congrArg f e)

/-- the value list recorded for a column: the same (value, value index) entries, possibly in another order -/
theorem schema_col_perm {rows₁ rows₂ : List Row} (hp : rows₁.Perm rows₂) (c : Bytes)
    (vs₁ vs₂ : List (Bytes × UInt64)) (h₁ : (Writer.addRows H {} rows₁).schema.col c = some vs₁)
    (h₂ : (Writer.addRows H {} rows₂).schema.col c = some vs₂) : vs₁.Perm vs₂ := by
  have ok₁ := schema_col_some H rows₁ c vs₁ h₁
  have ok₂ := schema_col_some H rows₂ c vs₂ h₂
  have key : ∀ (rs rs' : List Row) (ws ws' : List (Bytes × UInt64)), ColOK H c ws (pairsOf rs) →
      ColOK H c ws' (pairsOf rs') → (∀ x, x ∈ pairsOf rs ↔ x ∈ pairsOf rs') → ∀ x, x ∈ ws → x ∈ ws' := by
    intro rs rs' ws ws' k k' hm x hx
    have h1 : x.1 ∈ ws.map (·.1) := List.mem_map.mpr ⟨x, hx, rfl⟩
    have h2 : x.1 ∈ ws'.map (·.1) := (k'.mem x.1).mpr ((hm _).mp ((k.mem x.1).mp h1))
    obtain ⟨y, hy, e⟩ := List.mem_map.mp h2
    have : y = x := by
      apply Prod.ext e
      rw [k'.hash y hy, k.hash x hx, e]
    rw [← this]; exact hy
  rw [List.perm_ext_iff_of_nodup (nodup_of_map _ _ ok₁.nodup) (nodup_of_map _ _ ok₂.nodup)]
  intro x
  exact ⟨key rows₁ rows₂ vs₁ vs₂ ok₁ ok₂ (fun _ => (pairsOf_perm hp).mem_iff) x,
    key rows₂ rows₁ vs₂ vs₁ ok₂ ok₁ (fun _ => (pairsOf_perm hp).mem_iff.symm) x⟩

/-- the column names of the written schema: the same names, possibly in another order -/
theorem schema_keys_perm {rows₁ rows₂ : List Row} (hp : rows₁.Perm rows₂) :
    ((Writer.addRows H {} rows₁).schema.map (·.1)).Perm ((Writer.addRows H {} rows₂).schema.map (·.1)) := by
  rw [List.perm_ext_iff_of_nodup (C05.schema_keys_nodup H rows₁) (C05.schema_keys_nodup H rows₂)]
  intro c
  rw [C05.mem_schema_keys, C05.mem_schema_keys]
  exact (columnsOf_perm hp).mem_iff

/-! ### rows with one pair each: the exact sizes of the committed and the pending bucket -/

theorem big_temp_length_aux (more done : List Row) (w : BigWriter) (hw : BInv H w done)
    (hl : w.temp.length = done.length) (hs : ∀ r ∈ more, ∃ kv, r = [kv]) (hlen : (done ++ more).length ≤ 2 ^ 32) :
    (BigWriter.addRows H w more).temp.length = done.length + more.length := by
  induction more generalizing done w with
  | nil => simpa [BigWriter.addRows] using hl
  | cons r more ih =>
    obtain ⟨kv, rfl⟩ := hs r (by simp)
    have hstep : (BigWriter.addRow H w [kv]).temp.length = (done ++ [[kv]]).length := by
      simp only [BigWriter.addRow, List.foldl, BigWriter.addPair, List.length_append, List.length_singleton]
      unfold insertKey
      have hnot : w.temp.contains (tempKey (H (encodePair kv.1 kv.2)).toNat w.next) = false := by
        rw [Bool.eq_false_iff]
        intro hc
        have hmem : tempKey (H (encodePair kv.1 kv.2)).toNat w.next ∈ w.temp := by simpa using hc
        obtain ⟨h', j', g1, g2⟩ := (hw.temp _).mp hmem
        have b := rowHas_lt H done h' j' g1
        simp only [List.length_append, List.length_cons] at hlen
        have := tempKey_inj _ _ _ _ (H (encodePair kv.1 kv.2)).toNat_lt h'.toNat_lt
          (by rw [hw.next]; omega) (by omega) g2
        rw [hw.next] at this
        omega
      rw [hnot]
      simp [hl]
    have := ih (done ++ [[kv]]) (BigWriter.addRow H w [kv]) (hw.addRow H [kv]) hstep
      (fun r hr => hs r (List.mem_cons_of_mem _ hr)) (by simpa [List.append_assoc] using hlen)
    simp only [BigWriter.addRows, List.foldl, List.length_append, List.length_cons, List.length_nil] at this ⊢
    omega

/-- with one pair per row and at most 2^32 rows the temp bucket has one key per row -/
theorem big_temp_length_singletons (rows : List Row) (hs : ∀ r ∈ rows, ∃ kv, r = [kv]) (hlen : rows.length ≤ 2 ^ 32) :
    (BigWriter.addRows H {} rows).temp.length = rows.length := by
  have := big_temp_length_aux H rows [] {} (BInv.init H) rfl hs (by simpa using hlen)
  simpa using this

/-- … so the committed bucket has `committedRows` keys and the pending transaction the remaining ones -/
theorem TxSim.sizes_singletons {st : BigWriterTx} {rows : List Row} (sim : TxSim H st rows)
    (hs : ∀ r ∈ rows, ∃ kv, r = [kv]) (hlen : rows.length ≤ 2 ^ 32) :
    st.committed.length = committedRows rows.length ∧
    st.pending.length = rows.length - committedRows rows.length := by
  have hc := committedRows_le rows.length
  have h1 : st.committed.length = committedRows rows.length := by
    rw [sim.committed, big_temp_length_singletons H _ (fun r hr => hs r (List.mem_of_mem_take hr))
      (by rw [List.length_take]; omega), List.length_take]
    omega
  have h2 : (st.committed ++ st.pending).length = rows.length := by
    have : st.committed ++ st.pending = (BigWriter.addRows H {} rows).temp := congrArg BigWriter.temp sim.big
    rw [this, big_temp_length_singletons H rows hs hlen]
  rw [List.length_append] at h2
  exact ⟨h1, by omega⟩

end

/-! ### a round-robin schedule of two goroutines -/

namespace C18

/-- `n` rounds in which goroutine 0 and then goroutine 1 run one call -/
def rrSched : Nat → List Nat
  | 0 => []
  | n + 1 => 0 :: 1 :: rrSched n

/-- the calls `rrSched n` executes when goroutine 0 adds copies of `a` and goroutine 1 copies of `b` -/
def rrCalls (a b : Row) : Nat → List (Nat × Row)
  | 0 => []
  | n + 1 => (0, a) :: (1, b) :: rrCalls a b n

theorem rrCalls_length (a b : Row) (n : Nat) : (rrCalls a b n).length = 2 * n := by
  induction n with
  | zero => rfl
  | succ n ih => simp only [rrCalls, List.length_cons, ih]; omega

theorem rrCalls_rows (a b : Row) (n : Nat) : ∀ r ∈ (rrCalls a b n).map (·.2), r = a ∨ r = b := by
  induction n with
  | zero => simp [rrCalls]
  | succ n ih =>
    intro r hr
    simp only [rrCalls, List.map_cons, List.mem_cons] at hr
    rcases hr with h | h | h
    · exact .inl h
    · exact .inr h
    · exact ih r h

theorem interleave_rr (a b : Row) (n : Nat) (q0 q1 : List Row) :
    interleave (rrSched n) [List.replicate n a ++ q0, List.replicate n b ++ q1] = (rrCalls a b n, [q0, q1]) := by
  induction n with
  | zero => simp [rrSched, rrCalls, interleave]
  | succ n ih =>
    simp only [rrSched, rrCalls, List.replicate_succ, List.cons_append, interleave, List.getElem?_cons_zero,
      List.set_cons_zero, List.getElem?_cons_succ, List.set_cons_succ, ih]

/-- an odd number of calls: goroutine 0 runs one call first -/
theorem interleave_rr_odd (a b : Row) (n : Nat) (q0 q1 : List Row) :
    interleave (0 :: rrSched n) [List.replicate (n + 1) a ++ q0, List.replicate n b ++ q1]
      = ((0, a) :: rrCalls a b n, [q0, q1]) := by
  simp only [List.replicate_succ, List.cons_append, interleave, List.getElem?_cons_zero, List.set_cons_zero,
    interleave_rr]

/-- round-robin schedule, `2k` calls, one pair per row: ids, commit count, sizes of the committed / pending bucket -/
theorem rr_even_sizes (H : Bytes → UInt64) (exA exB : Row) (hA : ∃ kv, exA = [kv]) (hB : ∃ kv, exB = [kv])
    (k : Nat) (hk : 2 * k ≤ 2 ^ 32) :
    let calls := (interleave (rrSched k) [List.replicate k exA, List.replicate k exB]).1
    let st := (runCallsBigTx H {} calls).2
    calls.length = 2 * k ∧ (runCallsBigTx H {} calls).1 = List.range (2 * k) ∧
    st.commits = commitCount (2 * k) ∧ st.committed.length = committedRows (2 * k) ∧
    st.pending.length = 2 * k - committedRows (2 * k) := by
  intro calls st
  have hc : calls = rrCalls exA exB k := by
    have := interleave_rr exA exB k [] []
    simp only [List.append_nil] at this
    simp only [calls, this]
  have hl : calls.length = 2 * k := by rw [hc, rrCalls_length]
  have sim := txSim_runCalls H calls
  have hs : ∀ r ∈ calls.map (·.2), ∃ kv, r = [kv] := by
    intro r hr
    rw [hc] at hr
    rcases rrCalls_rows exA exB k r hr with e | e <;> subst e
    · exact hA
    · exact hB
  have hz := sim.sizes_singletons H hs (by simpa [hl] using hk)
  simp only [List.length_map, hl] at hz
  refine ⟨hl, ?_, ?_, hz.1, hz.2⟩
  · rw [runCallsBigTx_ids, hl]; simp
  · have := sim.commits; simpa [hl] using this

/-- the same with `2k + 1` calls: goroutine 0 runs one more call, first -/
theorem rr_odd_sizes (H : Bytes → UInt64) (exA exB : Row) (hA : ∃ kv, exA = [kv]) (hB : ∃ kv, exB = [kv])
    (k : Nat) (hk : 2 * k + 1 ≤ 2 ^ 32) :
    let calls := (interleave (0 :: rrSched k) [List.replicate (k + 1) exA, List.replicate k exB]).1
    let st := (runCallsBigTx H {} calls).2
    calls.length = 2 * k + 1 ∧ (runCallsBigTx H {} calls).1 = List.range (2 * k + 1) ∧
    st.commits = commitCount (2 * k + 1) ∧ st.committed.length = committedRows (2 * k + 1) ∧
    st.pending.length = 2 * k + 1 - committedRows (2 * k + 1) := by
  intro calls st
  have hc : calls = (0, exA) :: rrCalls exA exB k := by
    have := interleave_rr_odd exA exB k [] []
    simp only [List.append_nil] at this
    simp only [calls, this]
  have hl : calls.length = 2 * k + 1 := by rw [hc, List.length_cons, rrCalls_length]
  have sim := txSim_runCalls H calls
  have hs : ∀ r ∈ calls.map (·.2), ∃ kv, r = [kv] := by
    intro r hr
    rw [hc, List.map_cons, List.mem_cons] at hr
    rcases hr with e | hr
    · subst e; exact hA
    · rcases rrCalls_rows exA exB k r hr with e | e <;> subst e
      · exact hA
      · exact hB
  have hz := sim.sizes_singletons H hs (by simpa [hl] using hk)
  simp only [List.length_map, hl] at hz
  refine ⟨hl, ?_, ?_, hz.1, hz.2⟩
  · rw [runCallsBigTx_ids, hl]; simp
  · have := sim.commits; simpa [hl] using this

end C18
end Updog
