/-
Helper lemmas for C05 (4) / C06: key uniqueness of the writers' maps, bolt `Put` sequences,
the batch loop of `WriteToBoltDatabase`, transaction prefixes.
-/
import Updog.Proofs.BigWriter
namespace Updog

/-! ### maps with unique keys -/

/-- keys of a (Go / bolt) map are unique -/
def KeysNodup (m : ValMap) : Prop := (m.map (·.1)).Nodup

theorem ValMap.keys_put (m : ValMap) (h : UInt64) (b : Nat) :
    (m.put h b).map (·.1) = if h ∈ m.map (·.1) then m.map (·.1) else m.map (·.1) ++ [h] := by
  induction m with
  | nil => simp [ValMap.put]
  | cons kb rest ih =>
    obtain ⟨k, b'⟩ := kb
    by_cases hk : k = h
    · subst hk; simp [ValMap.put]
    · have hk' : ¬ h = k := fun e => hk e.symm
      simp only [ValMap.put, beq_iff_eq, hk, if_false, List.map_cons, ih, List.mem_cons, hk', false_or]
      split <;> simp

theorem ValMap.keys_addBit (m : ValMap) (h : UInt64) (i : Nat) :
    (m.addBit h i).map (·.1) = if h ∈ m.map (·.1) then m.map (·.1) else m.map (·.1) ++ [h] := by
  induction m with
  | nil => simp [ValMap.addBit]
  | cons kb rest ih =>
    obtain ⟨k, b'⟩ := kb
    by_cases hk : k = h
    · subst hk; simp [ValMap.addBit]
    · have hk' : ¬ h = k := fun e => hk e.symm
      simp only [ValMap.addBit, beq_iff_eq, hk, if_false, List.map_cons, ih, List.mem_cons, hk', false_or]
      split <;> simp

theorem nodup_snoc_if (l : List UInt64) (h : UInt64) (hn : l.Nodup) :
    (if h ∈ l then l else l ++ [h]).Nodup := by
  split
  · exact hn
  · next hm =>
    rw [List.nodup_append]
    refine ⟨hn, by simp, ?_⟩
    intro a ha b hb
    simp only [List.mem_singleton] at hb
    subst hb
    intro e; subst e; exact hm ha

theorem KeysNodup.put {m : ValMap} (hn : KeysNodup m) (h : UInt64) (b : Nat) : KeysNodup (m.put h b) := by
  unfold KeysNodup; rw [ValMap.keys_put]; exact nodup_snoc_if _ _ hn

theorem KeysNodup.addBit {m : ValMap} (hn : KeysNodup m) (h : UInt64) (i : Nat) : KeysNodup (m.addBit h i) := by
  unfold KeysNodup; rw [ValMap.keys_addBit]; exact nodup_snoc_if _ _ hn

theorem KeysNodup.nil : KeysNodup [] := List.nodup_nil

theorem ValMap.get_eq_some_iff (m : ValMap) (hn : KeysNodup m) (h : UInt64) (b : Nat) :
    m.get h = some b ↔ (h, b) ∈ m := by
  induction m with
  | nil => simp [ValMap.get]
  | cons kb rest ih =>
    obtain ⟨k, b'⟩ := kb
    have hn' := List.nodup_cons.mp hn
    by_cases hk : k = h
    · subst hk
      have : (k, b) ∉ rest := fun hm => hn'.1 (List.mem_map.mpr ⟨(k, b), hm, rfl⟩)
      simp [ValMap.get, this, eq_comm]
    · have hk' : ¬ h = k := fun e => hk e.symm
      simp [ValMap.get, hk, hk', ih hn'.2]

/-- the iteration order of a Go map does not matter for lookups -/
theorem ValMap.get_perm {m m' : ValMap} (p : m.Perm m') (hn : KeysNodup m') (h : UInt64) : m.get h = m'.get h := by
  have hn1 : KeysNodup m := (List.Perm.map (fun x : UInt64 × Nat => x.1) p).nodup_iff.mpr hn
  apply Option.ext
  intro b
  rw [ValMap.get_eq_some_iff m hn1, ValMap.get_eq_some_iff m' hn, p.mem_iff]

theorem foldl_put_get (l : ValMap) (hn : KeysNodup l) (m : ValMap) (h : UInt64) :
    (l.foldl (fun m kb => m.put kb.1 kb.2) m).get h = (l.get h).or (m.get h) := by
  induction l generalizing m with
  | nil => simp [ValMap.get]
  | cons kb rest ih =>
    obtain ⟨k, b⟩ := kb
    have hn' := List.nodup_cons.mp hn
    rw [List.foldl_cons, ih hn'.2, ValMap.get_put]
    by_cases hk : h = k
    · subst hk
      have : ValMap.get rest h = none := by
        cases e : ValMap.get rest h with
        | none => rfl
        | some x =>
          exact absurd (List.mem_map.mpr ⟨(h, x), (ValMap.get_eq_some_iff rest hn'.2 h x).mp e, rfl⟩) hn'.1
      simp [ValMap.get, this]
    · have hk' : ¬ k = h := fun e => hk e.symm
      simp [ValMap.get, hk, hk']

section
variable (H : Bytes → UInt64)

theorem addPair_fold_nodup (k : Nat) (r : Row) (w : Writer) (hn : KeysNodup w.vals) :
    KeysNodup (r.foldl (Writer.addPair H k) w).vals := by
  induction r generalizing w with
  | nil => exact hn
  | cons kv r ih => rw [List.foldl]; exact ih _ (hn.addBit _ _)

theorem addRows_nodup (rows : List Row) (w : Writer) (hn : KeysNodup w.vals) :
    KeysNodup (Writer.addRows H w rows).vals := by
  induction rows generalizing w with
  | nil => exact hn
  | cons r rows ih =>
    simp only [Writer.addRows, List.foldl] at ih ⊢
    exact ih _ (addPair_fold_nodup H _ r w hn)

end

theorem WalkState.emit_nodup (s : WalkState) (hn : KeysNodup s.out) : KeysNodup s.emit := by
  unfold WalkState.emit
  cases s.bm with
  | none => exact hn
  | some b => exact hn.put _ _

theorem walkStep_nodup (s : WalkState) (k : Bytes) (hn : KeysNodup s.out) : KeysNodup (walkStep s k).out := by
  unfold walkStep
  dsimp only
  split
  · exact s.emit_nodup hn
  · exact hn

theorem walk_nodup (ks : List Bytes) : KeysNodup (walk ks) := by
  unfold walk
  apply WalkState.emit_nodup
  suffices h : ∀ s : WalkState, KeysNodup s.out → KeysNodup (ks.foldl walkStep s).out from h {} KeysNodup.nil
  induction ks with
  | nil => exact fun s h => h
  | cons k ks ih => exact fun s h => ih _ (walkStep_nodup s k h)

/-! ### puts and transactions -/

def BoltPut.isVal : BoltPut → Bool
  | .val _ _ => true
  | _ => false

def valPuts (l : ValMap) : Tx := l.map fun kb => BoltPut.val kb.1 kb.2

theorem applyPut_setBucket (ps : Tx) (img : BoltImage) (b : Bool) :
    ps.foldl BoltImage.applyPut { img with bucket := b } = { ps.foldl BoltImage.applyPut img with bucket := b } := by
  induction ps generalizing img with
  | nil => rfl
  | cons p ps ih =>
    rw [List.foldl_cons, List.foldl_cons, ← ih]
    cases p <;> rfl

theorem applyTx_eq (img : BoltImage) (tx : Tx) :
    img.applyTx tx = { tx.foldl BoltImage.applyPut img with bucket := true } :=
  applyPut_setBucket tx img true

theorem foldl_applyTx (txs : List Tx) (img : BoltImage) :
    txs.foldl BoltImage.applyTx img
      = { txs.flatten.foldl BoltImage.applyPut img with bucket := img.bucket || !txs.isEmpty } := by
  induction txs generalizing img with
  | nil => cases img; simp
  | cons tx txs ih =>
    rw [List.foldl_cons, ih, applyTx_eq, applyPut_setBucket, List.flatten_cons, List.foldl_append]
    simp

theorem applyPuts_bucket (ps : Tx) (img : BoltImage) : (ps.foldl BoltImage.applyPut img).bucket = img.bucket := by
  induction ps generalizing img with
  | nil => rfl
  | cons p ps ih => rw [List.foldl_cons, ih]; cases p <;> rfl

theorem applyPuts_vals_only (ps : Tx) (hv : ∀ p ∈ ps, p.isVal = true) (img : BoltImage) :
    (ps.foldl BoltImage.applyPut img).schema = img.schema ∧ (ps.foldl BoltImage.applyPut img).counter = img.counter := by
  induction ps generalizing img with
  | nil => exact ⟨rfl, rfl⟩
  | cons p ps ih =>
    rw [List.foldl_cons]
    have := ih (fun q hq => hv q (List.mem_cons_of_mem _ hq)) (img.applyPut p)
    rw [this.1, this.2]
    have hp := hv p (by simp)
    cases p <;> first | exact ⟨rfl, rfl⟩ | simp [BoltPut.isVal] at hp

theorem applyPuts_valPuts (l : ValMap) (img : BoltImage) :
    (valPuts l).foldl BoltImage.applyPut img = { img with vals := l.foldl (fun m kb => m.put kb.1 kb.2) img.vals } := by
  induction l generalizing img with
  | nil => rfl
  | cons kb l ih =>
    simp only [valPuts, List.map_cons, List.foldl_cons] at ih ⊢
    rw [ih]; rfl

theorem valPuts_isVal (l : ValMap) : ∀ p ∈ valPuts l, p.isVal = true := by
  intro p hp
  obtain ⟨kb, _, e⟩ := List.mem_map.mp hp
  subst e; rfl

/-! ### the batch loop -/

structure BatchInv (batch : Nat) (st : BatchState) (seen : ValMap) : Prop where
  flat : st.done.flatten ++ st.cur = valPuts seen
  i : st.i = seen.length
  count : st.i = batch * st.done.length + st.cur.length
  lt : st.cur.length < batch

theorem BatchInv.step {batch : Nat} {st : BatchState} {seen : ValMap} (inv : BatchInv batch st seen)
    (kv : UInt64 × Nat) : BatchInv batch (batchStep batch st kv) (seen ++ [kv]) := by
  have hmod : (st.i + 1) % batch = (st.cur.length + 1) % batch := by
    rw [inv.count, Nat.add_assoc, Nat.mul_add_mod]
  have hlt := inv.lt
  unfold batchStep
  dsimp only
  by_cases hfull : st.cur.length + 1 = batch
  · have h0 : ((st.i + 1) % batch == 0) = true := by
      rw [hmod, hfull, Nat.mod_self]; rfl
    rw [if_pos h0]
    refine ⟨?_, ?_, ?_, ?_⟩
    · simp only [List.flatten_append, List.flatten_cons, List.flatten_nil, List.append_nil]
      rw [← List.append_assoc, inv.flat]; simp [valPuts]
    · simp [inv.i]
    · simp only [List.length_append, List.length_cons, List.length_nil, Nat.mul_succ]
      have := inv.count
      omega
    · simp only [List.length_nil]; omega
  · have h0 : ((st.i + 1) % batch == 0) = false := by
      rw [hmod, Nat.mod_eq_of_lt (by omega)]; rfl
    rw [h0]
    refine ⟨?_, ?_, ?_, ?_⟩
    · simp only [Bool.false_eq_true, if_false]
      rw [← List.append_assoc, inv.flat]; simp [valPuts]
    · simp [inv.i]
    · simp only [Bool.false_eq_true, if_false, List.length_append, List.length_cons, List.length_nil]
      have := inv.count
      omega
    · simp only [Bool.false_eq_true, if_false, List.length_append, List.length_cons, List.length_nil]
      omega

theorem BatchInv.fold {batch : Nat} (l : ValMap) {st : BatchState} {seen : ValMap} (inv : BatchInv batch st seen) :
    BatchInv batch (l.foldl (batchStep batch) st) (seen ++ l) := by
  induction l generalizing st seen with
  | nil => simpa using inv
  | cons kv l ih =>
    have := ih (inv.step kv)
    simpa [List.append_assoc] using this

theorem batchInv_final (batch : Nat) (hb : 1 ≤ batch) (perm : ValMap) :
    BatchInv batch (perm.foldl (batchStep batch) {}) perm := by
  have init : BatchInv batch {} [] := ⟨rfl, rfl, by simp, by simp; omega⟩
  simpa using init.fold perm

theorem BatchInv.done_length {batch : Nat} {st : BatchState} {seen : ValMap} (inv : BatchInv batch st seen) :
    st.done.length = seen.length / batch := by
  have hpos : 0 < batch := by have := inv.lt; omega
  rw [← inv.i, inv.count, Nat.mul_add_div hpos, Nat.div_eq_of_lt inv.lt, Nat.add_zero]

theorem BatchInv.done_isVal {batch : Nat} {st : BatchState} {seen : ValMap} (inv : BatchInv batch st seen) :
    ∀ p ∈ st.done.flatten, p.isVal = true := by
  intro p hp
  apply valPuts_isVal seen
  rw [← inv.flat]
  exact List.mem_append_left _ hp

/-! ### transaction prefixes -/

theorem imageAfter_eq (txs : List Tx) (k : Nat) :
    imageAfter txs k
      = { (txs.take k).flatten.foldl BoltImage.applyPut {} with bucket := !(txs.take k).isEmpty } := by
  unfold imageAfter
  rw [foldl_applyTx]; simp

theorem writeTxs_length (s : Schema) (n : Nat) (perm : ValMap) (batch : Nat) (hb : 1 ≤ batch) :
    (writeTxs s n perm batch).length = perm.length / batch + 1 := by
  have inv := batchInv_final batch hb perm
  simp only [writeTxs, List.length_append, List.length_cons, List.length_nil, inv.done_length]

/-- before the last transaction: no header; the bucket exists once a transaction has been committed -/
theorem imageAfter_writeTxs_prefix (s : Schema) (n : Nat) (perm : ValMap) (batch : Nat) (hb : 1 ≤ batch)
    (k : Nat) (hk : k ≤ perm.length / batch) :
    (imageAfter (writeTxs s n perm batch) k).schema = none
    ∧ (imageAfter (writeTxs s n perm batch) k).counter = none
    ∧ (imageAfter (writeTxs s n perm batch) k).bucket = decide (0 < k) := by
  have inv := batchInv_final batch hb perm
  have hk' : k ≤ (perm.foldl (batchStep batch) {}).done.length := by rw [inv.done_length]; exact hk
  rw [imageAfter_eq]
  simp only [writeTxs, List.take_append_of_le_length hk']
  have hv : ∀ p ∈ ((perm.foldl (batchStep batch) {}).done.take k).flatten, p.isVal = true := by
    intro p hp
    obtain ⟨tx, htx, hp'⟩ := List.mem_flatten.mp hp
    exact inv.done_isVal p (List.mem_flatten.mpr ⟨tx, List.mem_of_mem_take htx, hp'⟩)
  have := applyPuts_vals_only _ hv {}
  refine ⟨this.1, this.2, ?_⟩
  show (!(List.take k (perm.foldl (batchStep batch) {}).done).isEmpty) = decide (0 < k)
  have hl : (List.take k (perm.foldl (batchStep batch) {}).done).length = k := by
    rw [List.length_take]; omega
  generalize List.take k (perm.foldl (batchStep batch) {}).done = t at hl
  cases t with
  | nil => simp at hl; simp [← hl]
  | cons a t => simp at hl; simp [← hl]

/-- after the last transaction: all values (later puts of the same key win — there are none when the
    keys are unique), the schema and the counter -/
theorem imageAfter_writeTxs_full (s : Schema) (n : Nat) (perm : ValMap) (batch : Nat) (hb : 1 ≤ batch)
    (k : Nat) (hk : perm.length / batch + 1 ≤ k) :
    imageAfter (writeTxs s n perm batch) k
      = { bucket := true, vals := perm.foldl (fun m kb => m.put kb.1 kb.2) [], schema := some s, counter := some n } := by
  have inv := batchInv_final batch hb perm
  rw [imageAfter_eq, List.take_of_length_le (by rw [writeTxs_length s n perm batch hb]; exact hk)]
  simp only [writeTxs, List.flatten_append, List.flatten_cons, List.flatten_nil, List.append_nil]
  rw [← List.append_assoc, inv.flat, List.foldl_append, applyPuts_valPuts]
  simp [BoltImage.applyPut]

theorem imageAfter_flushTxs_zero (w : BigWriter) : imageAfter w.flushTxs 0 = {} := rfl

theorem imageAfter_flushTxs_one (w : BigWriter) (k : Nat) (hk : 1 ≤ k) :
    imageAfter w.flushTxs k
      = { bucket := true, vals := w.flushCore.1.foldl (fun m kb => m.put kb.1 kb.2) [],
          schema := some w.schema, counter := some w.next } := by
  rw [imageAfter_eq, List.take_of_length_le (by simpa [BigWriter.flushTxs] using hk)]
  simp only [BigWriter.flushTxs, List.flatten_cons, List.flatten_nil, List.append_nil]
  rw [List.foldl_append]
  have := applyPuts_valPuts w.flushCore.1 {}
  unfold valPuts at this
  rw [this]
  simp [BoltImage.applyPut]

end Updog
