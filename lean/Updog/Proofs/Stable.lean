/-
Second-generation stability: the parse result `rp e` of formatted text is again well-formed and every
AND/OR in it has at least two operands (`N2`); on such trees formatting `rp e` reproduces the text of `e`.
-/
import Updog.Proofs.Norm
namespace Updog

mutual
/-- every AND/OR node has at least two operands -/
def N2 : PExpr → Prop
  | .eq _ _ _ => True
  | .not e => N2 e
  | .and es => 2 ≤ es.length ∧ N2L es
  | .or es => 2 ≤ es.length ∧ N2L es
def N2L : List PExpr → Prop
  | [] => True
  | e :: es => N2 e ∧ N2L es
end

theorem N2_mkOp (o : Bool) (es : List PExpr) : N2 (mkOp o es) ↔ 2 ≤ es.length ∧ N2L es := by
  cases o <;> simp [mkOp, N2]
theorem WFE_mkOp (o : Bool) (es : List PExpr) : WFE (mkOp o es) ↔ es ≠ [] ∧ WFL es := by
  cases o <;> simp [mkOp, WFE]

theorem N2L_append {xs ys : List PExpr} (hx : N2L xs) (hy : N2L ys) : N2L (xs ++ ys) := by
  induction xs with
  | nil => simpa using hy
  | cons x xs ih => simp only [N2L, List.cons_append] at hx ⊢; exact ⟨hx.1, ih hx.2⟩
theorem WFL_append {xs ys : List PExpr} (hx : WFL xs) (hy : WFL ys) : WFL (xs ++ ys) := by
  induction xs with
  | nil => simpa using hy
  | cons x xs ih => simp only [WFL, List.cons_append] at hx ⊢; exact ⟨hx.1, ih hx.2⟩

/-! ### sizes: every operand of a well-formed chain contributes at least one parsed operand -/

theorem rp_length : (∀ e, WFE e → ∀ o, 1 ≤ (rpItem o e).length) ∧
    (∀ es, WFL es → ∀ o, es.length ≤ (rpCh o es).length) := by
  have heq : ∀ c v ph, WFE (.eq c v ph) → ∀ o, 1 ≤ (rpItem o (.eq c v ph)).length :=
    fun c v ph _ o => by simp [rpItem]
  have hnot : ∀ e, (WFE e → ∀ o, 1 ≤ (rpItem o e).length) →
      WFE (.not e) → ∀ o, 1 ≤ (rpItem o (.not e)).length := fun e _ _ o => by simp [rpItem]
  have hop : ∀ o es, (WFL es → ∀ o, es.length ≤ (rpCh o es).length) →
      WFE (mkOp o es) → ∀ o', 1 ≤ (rpItem o' (mkOp o es)).length := by
    intro o es ih hw o'
    rw [WFE_mkOp] at hw
    have hlen : 1 ≤ es.length := by
      cases es with
      | nil => exact absurd rfl hw.1
      | cons _ _ => simp
    by_cases hoo : o' = o
    · subst hoo; rw [rpItem_mkOp]; exact Nat.le_trans hlen (ih hw.2 o')
    · have : o' = !o := by cases o <;> cases o' <;> simp_all
      subst this
      rw [rpItem_of_not_op (by simpa using isOp_not_mkOp o es)]; simp
  have hnil : WFL [] → ∀ o, ([] : List PExpr).length ≤ (rpCh o []).length := fun _ o => by simp [rpCh]
  have hcons : ∀ e es, (WFE e → ∀ o, 1 ≤ (rpItem o e).length) →
      (WFL es → ∀ o, es.length ≤ (rpCh o es).length) →
      WFL (e :: es) → ∀ o, (e :: es).length ≤ (rpCh o (e :: es)).length := by
    intro e es ihe ihs hw o
    simp only [WFL] at hw
    have h1 := ihe hw.1 o
    have h2 := ihs hw.2 o
    rw [rpCh]; simp only [List.length_cons, List.length_append]; omega
  exact ⟨PExpr.indE heq hnot (hop false) (hop true) hnil hcons,
    PExpr.indL heq hnot (hop false) (hop true) hnil hcons⟩

theorem mk1_of_two_le {o : Bool} {l : List PExpr} (h : 2 ≤ l.length) : mk1 o l = mkOp o l := by
  match l, h with
  | x :: y :: l, _ => exact mk1_cons_cons o x y l

/-! ### the parse result is well-formed and in `N2` -/

theorem mk1_good {o : Bool} {l : List PExpr} (hne : l ≠ []) (hn : N2L l) (hw : WFL l) :
    N2 (mk1 o l) ∧ WFE (mk1 o l) := by
  match l, hne, hn, hw with
  | [x], _, hn, hw => exact ⟨hn.1, hw.1⟩
  | x :: y :: l, _, hn, hw =>
    rw [mk1_cons_cons, N2_mkOp, WFE_mkOp]
    exact ⟨⟨by simp, hn⟩, by simp, hw⟩

theorem rp_good : (∀ e, WFE e → (N2 (rp e) ∧ WFE (rp e)) ∧ ∀ o, N2L (rpItem o e) ∧ WFL (rpItem o e)) ∧
    (∀ es, WFL es → ∀ o, N2L (rpCh o es) ∧ WFL (rpCh o es)) := by
  have single : ∀ {x : PExpr}, N2 x ∧ WFE x → N2L [x] ∧ WFL [x] :=
    fun h => ⟨⟨h.1, trivial⟩, ⟨h.2, trivial⟩⟩
  have heq : ∀ c v ph, WFE (.eq c v ph) → (N2 (rp (.eq c v ph)) ∧ WFE (rp (.eq c v ph))) ∧
      ∀ o, N2L (rpItem o (.eq c v ph)) ∧ WFL (rpItem o (.eq c v ph)) := by
    intro c v ph hw
    have h : N2 (rp (.eq c v ph)) ∧ WFE (rp (.eq c v ph)) := by
      simp only [rp, rpLeaf]
      split
      · exact ⟨trivial, hw⟩
      · exact ⟨trivial, hw.1, by omega⟩
    exact ⟨h, fun o => by rw [rpItem_of_not_op (by cases o <;> rfl)]; exact single h⟩
  have hnot : ∀ e, (WFE e → (N2 (rp e) ∧ WFE (rp e)) ∧ ∀ o, N2L (rpItem o e) ∧ WFL (rpItem o e)) →
      WFE (.not e) → (N2 (rp (.not e)) ∧ WFE (rp (.not e))) ∧
      ∀ o, N2L (rpItem o (.not e)) ∧ WFL (rpItem o (.not e)) := by
    intro e ih hw
    have h : N2 (rp (.not e)) ∧ WFE (rp (.not e)) := by
      have := (ih (by simpa [WFE] using hw)).1
      simpa [rp, N2, WFE] using this
    exact ⟨h, fun o => by rw [rpItem_of_not_op (by cases o <;> rfl)]; exact single h⟩
  have hop : ∀ o es, (WFL es → ∀ o, N2L (rpCh o es) ∧ WFL (rpCh o es)) →
      WFE (mkOp o es) → (N2 (rp (mkOp o es)) ∧ WFE (rp (mkOp o es))) ∧
      ∀ o', N2L (rpItem o' (mkOp o es)) ∧ WFL (rpItem o' (mkOp o es)) := by
    intro o es ih hw
    rw [WFE_mkOp] at hw
    have hne : rpCh o es ≠ [] := by
      have := rp_length.2 es hw.2 o
      intro h0; rw [h0] at this
      cases es with
      | nil => exact hw.1 rfl
      | cons _ _ => simp at this
    have h : N2 (rp (mkOp o es)) ∧ WFE (rp (mkOp o es)) := by
      rw [rp_mkOp]; exact mk1_good hne (ih hw.2 o).1 (ih hw.2 o).2
    refine ⟨h, fun o' => ?_⟩
    by_cases hoo : o' = o
    · subst hoo; rw [rpItem_mkOp]; exact ih hw.2 o'
    · have : o' = !o := by cases o <;> cases o' <;> simp_all
      subst this
      rw [rpItem_of_not_op (by simpa using isOp_not_mkOp o es)]; exact single h
  have hnil : WFL [] → ∀ o, N2L (rpCh o []) ∧ WFL (rpCh o []) := fun _ o => by simp [rpCh, N2L, WFL]
  have hcons : ∀ e es,
      (WFE e → (N2 (rp e) ∧ WFE (rp e)) ∧ ∀ o, N2L (rpItem o e) ∧ WFL (rpItem o e)) →
      (WFL es → ∀ o, N2L (rpCh o es) ∧ WFL (rpCh o es)) →
      WFL (e :: es) → ∀ o, N2L (rpCh o (e :: es)) ∧ WFL (rpCh o (e :: es)) := by
    intro e es ihe ihs hw o
    simp only [WFL] at hw
    rw [rpCh]
    exact ⟨N2L_append ((ihe hw.1).2 o).1 (ihs hw.2 o).1, WFL_append ((ihe hw.1).2 o).2 (ihs hw.2 o).2⟩
  exact ⟨PExpr.indE heq hnot (hop false) (hop true) hnil hcons,
    PExpr.indL heq hnot (hop false) (hop true) hnil hcons⟩

/-! ### on `N2` trees re-parsing does not change the text -/

theorem fmtExpr_mkOp (o : Bool) (es : List PExpr) : fmtExpr (mkOp o es) = fmtCh o es := by
  cases o <;> simp [mkOp, fmtExpr, fmtAnd_eq, fmtOr_eq]

theorem fmtCh_append (o : Bool) (xs ys : List PExpr) (hx : xs ≠ []) (hy : ys ≠ []) :
    fmtCh o (xs ++ ys) = fmtCh o xs ++ sepBytes o ++ fmtCh o ys := by
  induction xs with
  | nil => exact absurd rfl hx
  | cons x xs ih =>
    cases xs with
    | nil =>
      obtain ⟨y, ys', rfl⟩ := List.exists_cons_of_ne_nil hy
      simp only [List.cons_append, List.nil_append]
      rw [fmtCh_cons2, fmtCh_single]
    | cons x' xs' =>
      simp only [List.cons_append] at ih ⊢
      rw [fmtCh_cons2, fmtCh_cons2, ih (by simp)]
      simp

/-- the top operator of an `N2` tree survives re-parsing -/
theorem isOp_rp {e : PExpr} (hw : WFE e) (hn : N2 e) (o : Bool) : isOp o (rp e) = isOp o e := by
  cases e with
  | eq c v ph => simp only [rp, rpLeaf]; split <;> cases o <;> rfl
  | not e => cases o <;> rfl
  | and es =>
    have h2 : 2 ≤ (rpCh false es).length := Nat.le_trans hn.1 (rp_length.2 es hw.2 false)
    rw [rp, mk1_of_two_le h2]; cases o <;> rfl
  | or es =>
    have h2 : 2 ≤ (rpCh true es).length := Nat.le_trans hn.1 (rp_length.2 es hw.2 true)
    rw [rp, mk1_of_two_le h2]; cases o <;> rfl

theorem isAndOr_rp {e : PExpr} (hw : WFE e) (hn : N2 e) :
    (isAnd (rp e) || isOr (rp e)) = (isAnd e || isOr e) := by
  have h1 := isOp_rp hw hn false
  have h2 := isOp_rp hw hn true
  simp only [isOp] at h1 h2
  rw [h1, h2]

/-- statement for one tree: same text, and same text as operand of either chain -/
def FS (e : PExpr) : Prop :=
  WFE e → N2 e → fmtExpr (rp e) = fmtExpr e ∧ ∀ o, fmtCh o (rpItem o e) = fmtCh o [e]
def FSL (es : List PExpr) : Prop :=
  WFL es → N2L es → ∀ o, fmtCh o (rpCh o es) = fmtCh o es

theorem FS_of_not_op {e : PExpr} (hw : WFE e) (hn : N2 e) (h : fmtExpr (rp e) = fmtExpr e) {o : Bool}
    (hop : isOp o e = false) : fmtCh o (rpItem o e) = fmtCh o [e] := by
  rw [rpItem_of_not_op hop, fmtCh_single, fmtCh_single, isOp_rp hw hn, h]

theorem fmt_rp : (∀ e, FS e) ∧ (∀ es, FSL es) := by
  have heq : ∀ c v ph, FS (.eq c v ph) := by
    intro c v ph hw hn
    have h : fmtExpr (rp (.eq c v ph)) = fmtExpr (.eq c v ph) := by
      simp only [rp, rpLeaf]
      split
      · rename_i h; simp [fmtExpr, h]
      · rename_i h
        have : ph = 0 := by omega
        subst this; rfl
    exact ⟨h, fun o => FS_of_not_op hw hn h (by cases o <;> rfl)⟩
  have hnot : ∀ e, FS e → FS (.not e) := by
    intro e ih hw hn
    have hw' : WFE e := by simpa [WFE] using hw
    have hn' : N2 e := by simpa [N2] using hn
    have h : fmtExpr (rp (.not e)) = fmtExpr (.not e) := by
      rw [rp, fmtExpr, fmtExpr, isAndOr_rp hw' hn', (ih hw' hn').1]
    exact ⟨h, fun o => FS_of_not_op hw hn h (by cases o <;> rfl)⟩
  have hop : ∀ o es, FSL es → FS (mkOp o es) := by
    intro o es ih hw hn
    have hw' := (WFE_mkOp o es).mp hw
    have hn' := (N2_mkOp o es).mp hn
    have h2 : 2 ≤ (rpCh o es).length := Nat.le_trans hn'.1 (rp_length.2 es hw'.2 o)
    have h : fmtExpr (rp (mkOp o es)) = fmtExpr (mkOp o es) := by
      rw [rp_mkOp, mk1_of_two_le h2, fmtExpr_mkOp, fmtExpr_mkOp, ih hw'.2 hn'.2]
    refine ⟨h, fun o' => ?_⟩
    by_cases hoo : o' = o
    · subst hoo
      rw [rpItem_mkOp, ih hw'.2 hn'.2, fmtCh_single, isOp_not_mkOp, fmtExpr_mkOp]; rfl
    · have : o' = !o := by cases o <;> cases o' <;> simp_all
      subst this
      exact FS_of_not_op hw hn h (by simpa using isOp_not_mkOp o es)
  have hnil : FSL [] := fun _ _ o => by simp [rpCh]
  have hcons : ∀ e es, FS e → FSL es → FSL (e :: es) := by
    intro e es ihe ihs hw hn o
    simp only [WFL, N2L] at hw hn
    have hi := (ihe hw.1 hn.1).2 o
    cases es with
    | nil => simpa [rpCh] using hi
    | cons e' es' =>
      have hs := ihs hw.2 hn.2 o
      have hne1 : rpItem o e ≠ [] := by
        have := rp_length.1 e hw.1 o
        intro h0; rw [h0] at this; simp at this
      have hne2 : rpCh o (e' :: es') ≠ [] := by
        have := rp_length.2 (e' :: es') hw.2 o
        intro h0; rw [h0] at this; simp at this
      rw [rpCh, fmtCh_append o _ _ hne1 hne2, hi, hs, fmtCh_single, fmtCh_cons2]
  exact ⟨PExpr.indE heq hnot (hop false) (hop true) hnil hcons,
    PExpr.indL heq hnot (hop false) (hop true) hnil hcons⟩

/-- **formatting the parse result of an `N2` tree gives the same text** -/
theorem fmtExpr_rp {e : PExpr} (hw : WFE e) (hn : N2 e) : fmtExpr (rp e) = fmtExpr e :=
  (fmt_rp.1 e hw hn).1

end Updog
