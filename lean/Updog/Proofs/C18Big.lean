/-
Helper lemmas for C18 on the disk-backed big writer with explicit temp transactions (`Model/BigWriterTx.lean`):
the simulation of `Model/BigWriter.lean`, the invariant of the temp bucket across commit boundaries, the ids handed
out along a schedule, and the flushed image.
-/
import Updog.Model.BigWriterTx
import Updog.Proofs.BigWriter
import Updog.Proofs.Sort
import Updog.Props.C18
namespace Updog

/-! ### the commit arithmetic -/

/-- number of temp commits `AddRow` has performed after `n` calls: the calls with ids 1000, 2000, … commit -/
def commitCount (n : Nat) : Nat := (n - 1) / 1000

/-- id of the last committing call after `n` calls (the largest positive multiple of 1000 that is `≤ n - 1`);
    0 when there was no commit yet -/
def lastCommit (n : Nat) : Nat := commitCount n * 1000

/-- number of rows whose keys are committed after `n` calls: none up to 1000 calls, then the rows `0 … lastCommit` -/
def committedRows (n : Nat) : Nat := if commitCount n = 0 then 0 else lastCommit n + 1

theorem commitsAt_true_iff (n : Nat) : commitsAt n = true ↔ 0 < n ∧ n % 1000 = 0 := by
  simp [commitsAt]

theorem commitsAt_false_iff (n : Nat) : commitsAt n = false ↔ n = 0 ∨ n % 1000 ≠ 0 := by
  cases h : commitsAt n
  · have : ¬ (0 < n ∧ n % 1000 = 0) := fun hh => by
      rw [(commitsAt_true_iff n).mpr hh] at h; exact Bool.noConfusion h
    simp only [true_iff]; omega
  · have := (commitsAt_true_iff n).mp h
    simp only [Bool.true_eq_false, false_iff]; omega

theorem commitCount_succ_of_commit (n : Nat) (h : commitsAt n = true) : commitCount (n + 1) = commitCount n + 1 := by
  have := (commitsAt_true_iff n).mp h
  unfold commitCount; omega

theorem commitCount_succ_of_no_commit (n : Nat) (h : commitsAt n = false) : commitCount (n + 1) = commitCount n := by
  have := (commitsAt_false_iff n).mp h
  unfold commitCount; omega

theorem committedRows_succ_of_commit (n : Nat) (h : commitsAt n = true) : committedRows (n + 1) = n + 1 := by
  have := (commitsAt_true_iff n).mp h
  unfold committedRows lastCommit commitCount
  split <;> omega

theorem committedRows_succ_of_no_commit (n : Nat) (h : commitsAt n = false) :
    committedRows (n + 1) = committedRows n := by
  unfold committedRows lastCommit
  rw [commitCount_succ_of_no_commit n h]

theorem committedRows_le (n : Nat) : committedRows n ≤ n := by
  unfold committedRows lastCommit commitCount
  split <;> omega

/-- the committed rows are those with id `≤ lastCommit`, once a commit happened -/
theorem lt_committedRows_iff (n j : Nat) : j < committedRows n ↔ 0 < commitCount n ∧ j ≤ lastCommit n := by
  unfold committedRows
  split <;> omega

theorem lastCommit_spec (n : Nat) (h : 0 < commitCount n) :
    0 < lastCommit n ∧ lastCommit n % 1000 = 0 ∧ lastCommit n ≤ n - 1 ∧ n - 1 < lastCommit n + 1000 := by
  unfold lastCommit commitCount at *; omega

/-! ### simulation of `BigWriter` -/

section
variable (H : Bytes → UInt64)

theorem BigWriter.ext' {a b : BigWriter} (h1 : a.schema = b.schema) (h2 : a.temp = b.temp) (h3 : a.next = b.next) :
    a = b := by
  cases a; cases b; simp only at h1 h2 h3; subst h1 h2 h3; rfl

theorem put_visible (st : BigWriterTx) (k : Bytes) : (st.put k).visible = insertKey st.visible k := by
  unfold BigWriterTx.put insertKey
  by_cases h : st.visible.contains k = true
  · rw [if_pos h, if_pos h]
  · rw [if_neg h, if_neg h]; simp [BigWriterTx.visible, List.append_assoc]

theorem put_fixed (st : BigWriterTx) (k : Bytes) :
    (st.put k).schema = st.schema ∧ (st.put k).committed = st.committed ∧ (st.put k).commits = st.commits ∧
    (st.put k).next = st.next := by
  unfold BigWriterTx.put
  by_cases h : st.visible.contains k = true
  · rw [if_pos h]; exact ⟨rfl, rfl, rfl, rfl⟩
  · rw [if_neg h]; exact ⟨rfl, rfl, rfl, rfl⟩

theorem toBig_addPair (i : Nat) (st : BigWriterTx) (kv : Bytes × Bytes) :
    (BigWriterTx.addPair H i st kv).toBig = BigWriter.addPair H i st.toBig kv := by
  apply BigWriter.ext'
  · rfl
  · exact put_visible st _
  · exact (put_fixed st _).2.2.2

theorem toBig_addPair_fold (i : Nat) (r : Row) (st : BigWriterTx) :
    (r.foldl (BigWriterTx.addPair H i) st).toBig = r.foldl (BigWriter.addPair H i) st.toBig := by
  induction r generalizing st with
  | nil => rfl
  | cons kv r ih => rw [List.foldl, List.foldl, ih, toBig_addPair]

theorem addPair_fold_fixed (i : Nat) (r : Row) (st : BigWriterTx) :
    (r.foldl (BigWriterTx.addPair H i) st).committed = st.committed ∧
    (r.foldl (BigWriterTx.addPair H i) st).commits = st.commits ∧
    (r.foldl (BigWriterTx.addPair H i) st).next = st.next := by
  induction r generalizing st with
  | nil => exact ⟨rfl, rfl, rfl⟩
  | cons kv r ih =>
    rw [List.foldl]
    obtain ⟨a, b, c⟩ := ih (BigWriterTx.addPair H i st kv)
    obtain ⟨_, a', b', c'⟩ := put_fixed st (tempKey (H (encodePair kv.1 kv.2)).toNat i)
    exact ⟨a.trans a', b.trans b', c.trans c'⟩

theorem commit_visible (st : BigWriterTx) : st.commit.visible = st.visible := by
  simp [BigWriterTx.commit, BigWriterTx.visible]

theorem toBig_commit (st : BigWriterTx) : st.commit.toBig = st.toBig :=
  BigWriter.ext' rfl (commit_visible st) rfl

/-- the id `AddRow` returns is the counter before the call -/
theorem addRowTx_id (st : BigWriterTx) (r : Row) : (addRowTx H st r).1 = st.next := rfl

theorem addRowTx_next (st : BigWriterTx) (r : Row) : (addRowTx H st r).2.next = st.next + 1 := rfl

/-- **One `AddRow` of the transaction model is one `AddRow` of `Model/BigWriter.lean`**, whether or not the call commits:
    schema, counter and the bucket as the writer sees it evolve identically. -/
theorem toBig_addRowTx (st : BigWriterTx) (r : Row) :
    (addRowTx H st r).2.toBig = BigWriter.addRow H st.toBig r := by
  have hf := toBig_addPair_fold H st.next r st
  have hc := toBig_commit (r.foldl (BigWriterTx.addPair H st.next) st)
  rw [hf] at hc
  have hc1 := congrArg BigWriter.schema hc
  have hc2 := congrArg BigWriter.temp hc
  have hf1 := congrArg BigWriter.schema hf
  have hf2 := congrArg BigWriter.temp hf
  simp only [addRowTx, BigWriter.addRow]
  by_cases h : commitsAt st.next = true
  · rw [if_pos h]
    exact BigWriter.ext' hc1 hc2 rfl
  · rw [if_neg h]
    exact BigWriter.ext' hf1 hf2 rfl

/-- a committing call: afterwards everything the writer sees is committed, nothing is pending -/
theorem addRowTx_commit (st : BigWriterTx) (r : Row) (h : commitsAt st.next = true) :
    (addRowTx H st r).2.committed = (BigWriter.addRow H st.toBig r).temp ∧
    (addRowTx H st r).2.pending = [] ∧ (addRowTx H st r).2.commits = st.commits + 1 := by
  have hb := congrArg BigWriter.temp (toBig_addRowTx H st r)
  have hf := addPair_fold_fixed H st.next r st
  simp only [addRowTx, h, if_true] at hb ⊢
  refine ⟨?_, rfl, ?_⟩
  · rw [← hb]
    simp [BigWriterTx.toBig, BigWriterTx.visible, BigWriterTx.commit]
  · show (List.foldl (BigWriterTx.addPair H st.next) st r).commits + 1 = _
    rw [hf.2.1]

/-- a call that does not commit leaves the committed bucket and the commit counter alone -/
theorem addRowTx_no_commit (st : BigWriterTx) (r : Row) (h : commitsAt st.next = false) :
    (addRowTx H st r).2.committed = st.committed ∧ (addRowTx H st r).2.commits = st.commits := by
  have hf := addPair_fold_fixed H st.next r st
  simp only [addRowTx, h, Bool.false_eq_true, if_false]
  exact ⟨hf.1, hf.2.1⟩

/-! ### the invariant of the temp bucket across commit boundaries, literal form -/

/-- After the rows `rows` (ids `0 … rows.length-1`): the counter is their number; `commitCount` commits happened; the
    bucket the writer sees is the temp bucket of `Model/BigWriter.lean` after the same rows; and the COMMITTED bucket is
    the temp bucket after the first `committedRows` rows — the pending transaction holds the rest. -/
structure TxSim (st : BigWriterTx) (rows : List Row) : Prop where
  big : st.toBig = BigWriter.addRows H {} rows
  commits : st.commits = commitCount rows.length
  committed : st.committed = (BigWriter.addRows H {} (rows.take (committedRows rows.length))).temp

theorem TxSim.next {st : BigWriterTx} {rows : List Row} (hs : TxSim H st rows) : st.next = rows.length := by
  have := congrArg BigWriter.next hs.big
  rw [(binv_addRows H rows).next] at this
  exact this

theorem TxSim.init : TxSim H {} [] := ⟨rfl, rfl, rfl⟩

theorem big_addRows_snoc (w : BigWriter) (rows : List Row) (r : Row) :
    BigWriter.addRows H w (rows ++ [r]) = BigWriter.addRow H (BigWriter.addRows H w rows) r := by
  simp [BigWriter.addRows, List.foldl_append]

/-- the invariant is preserved by `AddRow`, in the committing and in the non-committing case -/
theorem TxSim.addRow {st : BigWriterTx} {rows : List Row} (hs : TxSim H st rows) (r : Row) :
    TxSim H (addRowTx H st r).2 (rows ++ [r]) := by
  have hn := hs.next
  have hbig : (addRowTx H st r).2.toBig = BigWriter.addRows H {} (rows ++ [r]) := by
    rw [toBig_addRowTx, hs.big, big_addRows_snoc]
  cases hc : commitsAt st.next with
  | true =>
    obtain ⟨c1, _, c3⟩ := addRowTx_commit H st r hc
    rw [hn] at hc
    refine ⟨hbig, ?_, ?_⟩
    · rw [c3, hs.commits, List.length_append, List.length_singleton, commitCount_succ_of_commit _ hc]
    · rw [c1, hs.big, ← big_addRows_snoc, List.length_append, List.length_singleton,
        committedRows_succ_of_commit _ hc]
      rw [List.take_of_length_le (by simp)]
  | false =>
    obtain ⟨c1, c2⟩ := addRowTx_no_commit H st r hc
    rw [hn] at hc
    refine ⟨hbig, ?_, ?_⟩
    · rw [c2, hs.commits, List.length_append, List.length_singleton, commitCount_succ_of_no_commit _ hc]
    · rw [c1, hs.committed, List.length_append, List.length_singleton, committedRows_succ_of_no_commit _ hc,
        List.take_append_of_le_length (committedRows_le _)]

theorem addRowsTx_snoc (st : BigWriterTx) (rows : List Row) (r : Row) :
    addRowsTx H st (rows ++ [r]) = (addRowTx H (addRowsTx H st rows) r).2 := by
  simp [addRowsTx, List.foldl_append]

theorem TxSim.addRows {st : BigWriterTx} {rows : List Row} (hs : TxSim H st rows) (more : List Row) :
    TxSim H (addRowsTx H st more) (rows ++ more) := by
  induction more generalizing st rows with
  | nil => simpa [addRowsTx] using hs
  | cons r more ih =>
    have := ih (hs.addRow H r)
    simpa [addRowsTx, List.foldl, List.append_assoc] using this

theorem txSim_addRowsTx (rows : List Row) : TxSim H (addRowsTx H {} rows) rows := by
  simpa using (TxSim.init H).addRows H rows

/-! ### flushing -/

/-- the final commit of `Flush` makes the committed bucket the whole bucket the writer saw -/
theorem commit_committed (st : BigWriterTx) : st.commit.committed = st.toBig.temp := rfl

theorem flushTx_eq_flushCore (st : BigWriterTx) : flushTx st = st.toBig.flushCore := rfl

theorem TxSim.flush {st : BigWriterTx} {rows : List Row} (hs : TxSim H st rows) :
    flushTx st = BigWriter.image H rows := by
  rw [flushTx_eq_flushCore, hs.big]; rfl

/-! ### the ids handed out along a schedule -/

theorem runCallsBigTx_ids (st : BigWriterTx) (calls : List (Nat × Row)) :
    (runCallsBigTx H st calls).1 = (List.range calls.length).map (st.next + ·) := by
  induction calls generalizing st with
  | nil => simp [runCallsBigTx]
  | cons c cs ih =>
    simp only [runCallsBigTx, ih, addRowTx_id, addRowTx_next, List.length_cons, List.range_succ_eq_map,
      List.map_cons, List.map_map, Nat.add_zero, List.cons.injEq, true_and]
    apply List.map_congr_left
    intro a _
    simp only [Function.comp]; omega

theorem runCallsBigTx_state (st : BigWriterTx) (calls : List (Nat × Row)) :
    (runCallsBigTx H st calls).2 = addRowsTx H st (calls.map (·.2)) := by
  induction calls generalizing st with
  | nil => rfl
  | cons c cs ih => simp only [runCallsBigTx, ih, addRowsTx, List.map_cons, List.foldl_cons]

theorem txSim_runCalls (calls : List (Nat × Row)) :
    TxSim H (runCallsBigTx H {} calls).2 (calls.map (·.2)) := by
  rw [runCallsBigTx_state]; exact txSim_addRowsTx H _

end

/-- the ids `0 … n-1` handed out in call order, restricted to the calls of goroutine `g`, are strictly increasing -/
theorem ids_of_goroutine_increasing (calls : List (Nat × Row)) (g : Nat) :
    (((calls.zip (List.range calls.length)).filter (·.1.1 == g)).map (·.2)).Pairwise (· < ·) := by
  have hsub : List.Sublist (((calls.zip (List.range calls.length)).filter (·.1.1 == g)).map (·.2))
      ((calls.zip (List.range calls.length)).map (·.2)) := List.Sublist.map _ List.filter_sublist
  have : (calls.zip (List.range calls.length)).map Prod.snd = List.range calls.length :=
    List.map_snd_zip (by simp)
  rw [this] at hsub
  exact List.Pairwise.sublist hsub List.pairwise_lt_range

/-- a list of rows is determined by the multiset of its (id, row) pairs -/
theorem rows_eq_of_zip_perm (rows₁ rows₂ : List Row)
    (h : ((List.range rows₁.length).zip rows₁).Perm ((List.range rows₂.length).zip rows₂)) : rows₁ = rows₂ := by
  have hs : ∀ rows : List Row, ((List.range rows.length).zip rows).Pairwise (fun a b => a.1 < b.1) := by
    intro rows
    have h1 : ((List.range rows.length).zip rows).map Prod.fst = List.range rows.length :=
      List.map_fst_zip (by simp)
    have h2 := List.pairwise_lt_range (n := rows.length)
    rw [← h1, List.pairwise_map] at h2
    exact h2
  have e := List.Perm.eq_of_pairwise (le := fun a b : Nat × Row => a.1 < b.1)
    (fun a b _ _ h1 h2 => absurd h1 (by omega)) (hs rows₁) (hs rows₂) h
  have e2 := congrArg (List.map Prod.snd) e
  rwa [List.map_snd_zip (by simp), List.map_snd_zip (by simp)] at e2

/-! ### the walk depends on the key SET only -/

theorem sortKeys_eq_of_mem_iff {l₁ l₂ : List Bytes} (hn₁ : l₁.Nodup) (hn₂ : l₂.Nodup)
    (h : ∀ k, k ∈ l₁ ↔ k ∈ l₂) : sortKeys l₁ = sortKeys l₂ := by
  apply StrictSorted.eq_of_mem_iff (strictSorted_mergeSort hn₁) (strictSorted_mergeSort hn₂)
  intro x
  rw [List.mem_mergeSort, List.mem_mergeSort]
  exact h x

/-- The list order of the model's bucket is an artefact: two duplicate-free representations of the same key set are
    walked identically by `Flush`. -/
theorem flushTx_order_irrelevant (st₁ st₂ : BigWriterTx) (hn₁ : st₁.visible.Nodup) (hn₂ : st₂.visible.Nodup)
    (hk : ∀ k, k ∈ st₁.visible ↔ k ∈ st₂.visible) (hs : st₁.schema = st₂.schema) (hx : st₁.next = st₂.next) :
    flushTx st₁ = flushTx st₂ := by
  have : sortKeys st₁.commit.committed = sortKeys st₂.commit.committed := sortKeys_eq_of_mem_iff hn₁ hn₂ hk
  simp only [flushTx, this]
  simp only [BigWriterTx.commit, hs, hx]

theorem insertKey_nodup (t : List Bytes) (k : Bytes) (hn : t.Nodup) : (insertKey t k).Nodup := by
  unfold insertKey
  by_cases h : t.contains k = true
  · rw [if_pos h]; exact hn
  · rw [if_neg h]
    have hk : k ∉ t := by simpa using h
    rw [List.nodup_append]
    refine ⟨hn, by simp, ?_⟩
    intro a ha b hb
    simp only [List.mem_singleton] at hb
    subst hb
    intro e; subst e; exact hk ha

section
variable (H : Bytes → UInt64)

theorem big_addPair_fold_nodup (n : Nat) (r : Row) (w : BigWriter) (hn : w.temp.Nodup) :
    (r.foldl (BigWriter.addPair H n) w).temp.Nodup := by
  induction r generalizing w with
  | nil => exact hn
  | cons kv r ih => rw [List.foldl]; exact ih _ (insertKey_nodup _ _ hn)

theorem big_addRows_nodup (rows : List Row) (w : BigWriter) (hn : w.temp.Nodup) :
    (BigWriter.addRows H w rows).temp.Nodup := by
  induction rows generalizing w with
  | nil => exact hn
  | cons r rows ih =>
    simp only [BigWriter.addRows, List.foldl] at ih ⊢
    exact ih _ (big_addPair_fold_nodup H _ r w hn)

/-! ### the invariant in membership form -/

theorem rowHas_take (rows : List Row) (c : Nat) (h : UInt64) (j : Nat) :
    rowHas H (rows.take c) h j = (decide (j < c) && rowHas H rows h j) := by
  unfold rowHas
  rw [List.getElem?_take]
  by_cases hj : j < c <;> simp [hj]

theorem tempKey_inj (a b i j : Nat) (ha : a < 2 ^ 64) (hb : b < 2 ^ 64) (hi : i < 2 ^ 32) (hj : j < 2 ^ 32)
    (e : tempKey a i = tempKey b j) : a = b ∧ i = j := by
  have := congrArg decKey e
  rw [decKey_tempKey a i ha hi, decKey_tempKey b j hb hj] at this
  exact Prod.mk.inj this

/-- **The temp bucket across commit boundaries.**  After the rows `rows`:
    the bucket the writer sees (committed ∪ pending) holds exactly the keys `(h, j)` with row `j` carrying a pair that
    hashes to `h`; the COMMITTED part holds exactly those with `j < committedRows rows.length`, i.e. `j ≤ lastCommit`
    once a commit happened and nothing before; the pending transaction holds the others; the number of commits is
    `(rows.length - 1) / 1000`. -/
structure TxInv (st : BigWriterTx) (rows : List Row) : Prop where
  next : st.next = rows.length
  commits : st.commits = commitCount rows.length
  visible : ∀ k, (k ∈ st.committed ∨ k ∈ st.pending) ↔ ∃ h j, rowHas H rows h j = true ∧ k = tempKey h.toNat j
  committed : ∀ k, k ∈ st.committed ↔
    ∃ h j, rowHas H rows h j = true ∧ j < committedRows rows.length ∧ k = tempKey h.toNat j
  pending : ∀ k, k ∈ st.pending ↔
    k ∉ st.committed ∧ ∃ h j, rowHas H rows h j = true ∧ committedRows rows.length ≤ j ∧ k = tempKey h.toNat j
  nodup : (st.committed ++ st.pending).Nodup

theorem TxSim.inv {st : BigWriterTx} {rows : List Row} (hs : TxSim H st rows) : TxInv H st rows := by
  have hvis : st.committed ++ st.pending = (BigWriter.addRows H {} rows).temp := congrArg BigWriter.temp hs.big
  have hnd : (st.committed ++ st.pending).Nodup := by
    rw [hvis]; exact big_addRows_nodup H rows {} List.nodup_nil
  have hv : ∀ k, (k ∈ st.committed ∨ k ∈ st.pending) ↔ ∃ h j, rowHas H rows h j = true ∧ k = tempKey h.toNat j := by
    intro k
    rw [← List.mem_append, hvis]
    exact (binv_addRows H rows).temp k
  have hc : ∀ k, k ∈ st.committed ↔
      ∃ h j, rowHas H rows h j = true ∧ j < committedRows rows.length ∧ k = tempKey h.toNat j := by
    intro k
    rw [hs.committed, (binv_addRows H _).temp k]
    simp only [rowHas_take, Bool.and_eq_true, decide_eq_true_eq]
    constructor
    · rintro ⟨h, j, ⟨h1, h2⟩, h3⟩; exact ⟨h, j, h2, h1, h3⟩
    · rintro ⟨h, j, h2, h1, h3⟩; exact ⟨h, j, ⟨h1, h2⟩, h3⟩
  refine ⟨hs.next, hs.commits, hv, hc, ?_, hnd⟩
  intro k
  constructor
  · intro hk
    have hnc : k ∉ st.committed := fun hk' => (List.nodup_append.mp hnd).2.2 k hk' k hk rfl
    refine ⟨hnc, ?_⟩
    obtain ⟨h, j, h1, h2⟩ := (hv k).mp (.inr hk)
    refine ⟨h, j, h1, ?_, h2⟩
    apply Nat.le_of_not_lt
    intro hlt
    exact hnc ((hc k).mpr ⟨h, j, h1, hlt, h2⟩)
  · rintro ⟨hnc, h, j, h1, _, h2⟩
    rcases (hv k).mpr ⟨h, j, h1, h2⟩ with h' | h'
    · exact absurd h' hnc
    · exact h'

/-- with at most 2^32 rows the keys of different rows are different, so the pending transaction holds exactly the
    keys of the rows after the last commit -/
theorem TxInv.pending_iff {st : BigWriterTx} {rows : List Row} (inv : TxInv H st rows) (hlen : rows.length ≤ 2 ^ 32)
    (k : Bytes) :
    k ∈ st.pending ↔ ∃ h j, rowHas H rows h j = true ∧ committedRows rows.length ≤ j ∧ k = tempKey h.toNat j := by
  rw [inv.pending k]
  constructor
  · exact fun h => h.2
  · rintro ⟨h, j, h1, h2, h3⟩
    refine ⟨?_, h, j, h1, h2, h3⟩
    intro hk
    obtain ⟨h', j', g1, g2, g3⟩ := (inv.committed k).mp hk
    have b1 := rowHas_lt H rows h j h1
    have b2 := rowHas_lt H rows h' j' g1
    have := tempKey_inj _ _ _ _ h.toNat_lt h'.toNat_lt (by omega) (by omega) (h3.symm.trans g3)
    omega

/-- the final commit of `Flush` makes the committed bucket the full key set -/
theorem TxInv.commit_full {st : BigWriterTx} {rows : List Row} (inv : TxInv H st rows) (k : Bytes) :
    k ∈ st.commit.committed ↔ ∃ h j, rowHas H rows h j = true ∧ k = tempKey h.toNat j := by
  rw [← inv.visible k]
  exact List.mem_append

/-- what `Flush` reads after its commit, derived from the invariant alone -/
theorem TxInv.binv_flush {st : BigWriterTx} {rows : List Row} (inv : TxInv H st rows) :
    BInv H { schema := st.schema, temp := st.commit.committed, next := st.next } rows :=
  ⟨inv.next, inv.commit_full H⟩

/-- what an abandoned temp database holds, as a `BInv` for the committed prefix of the rows -/
theorem TxInv.binv_abandoned {st : BigWriterTx} {rows : List Row} (inv : TxInv H st rows) :
    BInv H { schema := st.schema, temp := st.committed, next := committedRows rows.length }
      (rows.take (committedRows rows.length)) := by
  constructor
  · simp [Nat.min_eq_left (committedRows_le rows.length)]
  · intro k
    simp only [inv.committed k, rowHas_take, Bool.and_eq_true, decide_eq_true_eq]
    constructor
    · rintro ⟨h, j, h2, h1, h3⟩; exact ⟨h, j, ⟨h1, h2⟩, h3⟩
    · rintro ⟨h, j, ⟨h1, h2⟩, h3⟩; exact ⟨h, j, h2, h1, h3⟩

/-- the bit-level content of the flushed data bucket, from the invariant and the cursor walk only -/
theorem TxInv.flush_testBit {st : BigWriterTx} {rows : List Row} (inv : TxInv H st rows) (hlen : rows.length ≤ 2 ^ 32)
    (h : UInt64) (j : Nat) : (((flushTx st).1.get h).getD 0).testBit j = rowHas H rows h j := by
  have b := inv.binv_flush H
  show (((walk (sortKeys st.commit.committed)).get h).getD 0).testBit j = _
  rw [(walk_keys_spec _ (b.wf H hlen) h).1 j, Bool.eq_iff_iff, decide_eq_true_iff]
  exact b.mem_dec H hlen h j

theorem TxInv.abandoned_testBit {st : BigWriterTx} {rows : List Row} (inv : TxInv H st rows)
    (hlen : rows.length ≤ 2 ^ 32) (h : UInt64) (j : Nat) :
    (((abandonedWalk st).get h).getD 0).testBit j = (decide (j < committedRows rows.length) && rowHas H rows h j) := by
  have b := inv.binv_abandoned H
  have hl : (rows.take (committedRows rows.length)).length ≤ 2 ^ 32 := by
    rw [List.length_take]; omega
  show (((walk (sortKeys st.committed)).get h).getD 0).testBit j = _
  rw [(walk_keys_spec _ (b.wf H hl) h).1 j, ← rowHas_take, Bool.eq_iff_iff, decide_eq_true_iff]
  exact b.mem_dec H hl h j

end
end Updog
