/-
Helper lemmas for `Props/C11Parsed.lean`, execution side:

* `eval` — the index's evaluation, ERRORS INCLUDED, on an arbitrary `Index` — is invariant under the normal form
  `norm` on trees whose AND/OR nodes are non-empty (`NE`); hence trees with equal normal forms evaluate alike;
* a column the index's schema does not have makes `eval` fail, a group-by column it does not have makes
  `execute` fail.
-/
import Updog.Proofs.C11Parsed
namespace Updog

/-! ### non-empty AND/OR nodes -/

mutual
/-- every AND/OR node of the tree has at least one operand -/
def NE : PExpr → Prop
  | .eq _ _ _ => True
  | .not e => NE e
  | .and es => es ≠ [] ∧ NEL es
  | .or es => es ≠ [] ∧ NEL es
def NEL : List PExpr → Prop
  | [] => True
  | e :: es => NE e ∧ NEL es
end

theorem NE_of_WFE : (∀ e, WFE e → NE e) ∧ (∀ es, WFL es → NEL es) := by
  refine ⟨PExpr.indE (Q := fun es => WFL es → NEL es) ?_ ?_ ?_ ?_ ?_ ?_,
    PExpr.indL (P := fun e => WFE e → NE e) ?_ ?_ ?_ ?_ ?_ ?_⟩
  all_goals first
    | (intro c v ph _; trivial)
    | (intro e ih h; exact ih h)
    | (intro es ih h; exact ⟨h.1, ih h.2⟩)
    | (intro _; trivial)
    | (intro e es ihe ihs h; exact ⟨ihe h.1, ihs h.2⟩)

theorem NE_mkOp (o : Bool) (es : List PExpr) : NE (mkOp o es) ↔ es ≠ [] ∧ NEL es := by
  cases o <;> simp [mkOp, NE]

theorem NEL_append {xs ys : List PExpr} (hx : NEL xs) (hy : NEL ys) : NEL (xs ++ ys) := by
  induction xs with
  | nil => exact hy
  | cons x xs ih => exact ⟨hx.1, ih hx.2⟩

theorem NEL_spliceOp {o : Bool} {x : PExpr} (h : NE x) : NEL (spliceOp o x) ∧ spliceOp o x ≠ [] := by
  by_cases hop : isOp o x = true
  · obtain ⟨xs, rfl⟩ := eq_mkOp_of_isOp hop
    rw [spliceOp_mkOp]
    exact ⟨((NE_mkOp o xs).mp h).2, ((NE_mkOp o xs).mp h).1⟩
  · rw [spliceOp_of_not_op (by simpa using hop)]
    exact ⟨⟨h, trivial⟩, by simp⟩

theorem NE_mk1 {o : Bool} {l : List PExpr} (hne : l ≠ []) (h : NEL l) : NE (mk1 o l) := by
  match l with
  | [] => exact absurd rfl hne
  | [x] => exact h.1
  | x :: y :: l => rw [mk1_cons_cons]; exact (NE_mkOp _ _).mpr ⟨by simp, h⟩

theorem NE_rpLeaf (c v : Bytes) (ph : Nat) : NE (rpLeaf c v ph) := by
  unfold rpLeaf; split <;> trivial

/-- `norm` keeps AND/OR nodes non-empty -/
theorem NE_norm : (∀ e, NE e → NE (norm e)) ∧
    (∀ es, NEL es → ∀ o, NEL (normCh o es) ∧ (es ≠ [] → normCh o es ≠ [])) := by
  have heq : ∀ c v ph, NE (.eq c v ph) → NE (norm (.eq c v ph)) := fun c v ph _ => by
    rw [norm]; exact NE_rpLeaf c v ph
  have hnot : ∀ e, (NE e → NE (norm e)) → NE (.not e) → NE (norm (.not e)) := fun e ih h => by
    rw [norm]; exact ih h
  have hop : ∀ o es, (NEL es → ∀ o, NEL (normCh o es) ∧ (es ≠ [] → normCh o es ≠ [])) →
      NE (mkOp o es) → NE (norm (mkOp o es)) := fun o es ih h => by
    rw [norm_mkOp]
    obtain ⟨h1, h2⟩ := (NE_mkOp o es).mp h
    exact NE_mk1 ((ih h2 o).2 h1) (ih h2 o).1
  have hnil : NEL [] → ∀ o, NEL (normCh o []) ∧ (([] : List PExpr) ≠ [] → normCh o [] ≠ []) :=
    fun _ o => ⟨by simp [normCh, NEL], fun h => absurd rfl h⟩
  have hcons : ∀ e es, (NE e → NE (norm e)) →
      (NEL es → ∀ o, NEL (normCh o es) ∧ (es ≠ [] → normCh o es ≠ [])) →
      NEL (e :: es) → ∀ o, NEL (normCh o (e :: es)) ∧ (e :: es ≠ [] → normCh o (e :: es) ≠ []) := by
    intro e es ihe ihs h o
    have hs := NEL_spliceOp (o := o) (ihe h.1)
    rw [normCh]
    refine ⟨NEL_append hs.1 (ihs h.2 o).1, fun _ => ?_⟩
    intro hcon
    exact hs.2 (List.append_eq_nil_iff.mp hcon).1
  exact ⟨PExpr.indE heq hnot (hop false) (hop true) hnil hcons,
    PExpr.indL heq hnot (hop false) (hop true) hnil hcons⟩

/-! ### the algebra of `FastAnd` / `FastOr` -/

/-- `andAll` (`o = false`) / `orAll` (`o = true`) -/
def opAll : Bool → List Nat → Nat
  | false => andAll
  | true => orAll

theorem foldl_and_assoc (x y : Nat) (l : List Nat) :
    l.foldl (· &&& ·) (x &&& y) = x &&& l.foldl (· &&& ·) y := by
  induction l generalizing y with
  | nil => rfl
  | cons a l ih => simp only [List.foldl_cons]; rw [Nat.and_assoc, ih]

theorem foldl_or_assoc (x y : Nat) (l : List Nat) :
    l.foldl (· ||| ·) (x ||| y) = x ||| l.foldl (· ||| ·) y := by
  induction l generalizing y with
  | nil => rfl
  | cons a l ih => simp only [List.foldl_cons]; rw [Nat.or_assoc, ih]

theorem opAll_single (o : Bool) (b : Nat) : opAll o [b] = b := by
  cases o <;> simp [opAll, andAll, orAll]

/-- a non-empty block of operands may be replaced by its combined bitmap -/
theorem opAll_append (o : Bool) (a b : List Nat) (ha : a ≠ []) :
    opAll o (a ++ b) = opAll o (opAll o a :: b) := by
  cases a with
  | nil => exact absurd rfl ha
  | cons x a' =>
    cases o
    · simp [opAll, andAll, List.foldl_append]
    · simp [opAll, orAll, List.foldl_append]

/-- … also behind a first operand -/
theorem opAll_cons_block (o : Bool) (x : Nat) (a b : List Nat) (ha : a ≠ []) :
    opAll o (x :: (a ++ b)) = opAll o (x :: opAll o a :: b) := by
  cases a with
  | nil => exact absurd rfl ha
  | cons y a' =>
    cases o
    · simp only [opAll, andAll, List.cons_append, List.foldl_cons, List.foldl_append]
      rw [foldl_and_assoc]
    · simp only [opAll, orAll, List.cons_append, List.foldl_cons, List.foldl_append]
      rw [foldl_or_assoc, Nat.zero_or y]

/-! ### evaluation of bound trees -/

section
variable (H : Bytes → UInt64) (ix : Index) (args : List Bytes)

/-- the bitmap (`none` = error) `Execute` computes for `e` once `args` are bound to its placeholders -/
def evs (e : PExpr) : Option Nat := eval H ix (toExpr (subst args e))
/-- the operand bitmaps of a list of operands -/
def evl (es : List PExpr) : Option (List Nat) := evalList H ix (toExprs (substList args es))

theorem evs_mkOp (o : Bool) (es : List PExpr) : evs H ix args (mkOp o es) = (evl H ix args es).map (opAll o) := by
  cases o <;> simp [evs, evl, mkOp, subst, toExpr, eval, opAll]

theorem evl_nil : evl H ix args [] = some [] := by simp [evl, substList, toExprs, evalList]

theorem evl_cons (e : PExpr) (es : List PExpr) :
    evl H ix args (e :: es) = (evs H ix args e).bind fun b => (evl H ix args es).map (b :: ·) := by
  simp only [evl, evs, substList, toExprs, evalList]
  cases eval H ix (toExpr (subst args e)) <;> rfl

theorem evl_append (xs ys : List PExpr) :
    evl H ix args (xs ++ ys) = (evl H ix args xs).bind fun a => (evl H ix args ys).map (a ++ ·) := by
  induction xs with
  | nil => simp [evl_nil]
  | cons x xs ih =>
    rw [List.cons_append, evl_cons, evl_cons, ih]
    cases evs H ix args x with
    | none => rfl
    | some b =>
      cases evl H ix args xs with
      | none => rfl
      | some a =>
        cases evl H ix args ys with
        | none => rfl
        | some c => rfl

theorem evl_ne_nil {es : List PExpr} {a : List Nat} (hne : es ≠ []) (h : evl H ix args es = some a) : a ≠ [] := by
  cases es with
  | nil => exact absurd rfl hne
  | cons e es =>
    rw [evl_cons] at h
    cases h1 : evs H ix args e with
    | none => simp [h1] at h
    | some b =>
      cases h2 : evl H ix args es with
      | none => simp [h1, h2] at h
      | some c =>
        simp [h1, h2] at h
        subst h; simp

theorem evl_single (x : PExpr) : (evl H ix args [x]).map (opAll o) = evs H ix args x := by
  rw [evl_cons, evl_nil]
  cases evs H ix args x with
  | none => rfl
  | some b => simp [opAll_single]

theorem evs_mk1 (o : Bool) {l : List PExpr} (hne : l ≠ []) :
    evs H ix args (mk1 o l) = (evl H ix args l).map (opAll o) := by
  match l with
  | [] => exact absurd rfl hne
  | [x] => rw [evl_single]; rfl
  | x :: y :: l => rw [mk1_cons_cons, evs_mkOp]

theorem evl_spliceOp (o : Bool) (x : PExpr) :
    (evl H ix args (spliceOp o x)).map (opAll o) = evs H ix args x := by
  by_cases hop : isOp o x = true
  · obtain ⟨xs, rfl⟩ := eq_mkOp_of_isOp hop
    rw [spliceOp_mkOp, evs_mkOp]
  · rw [spliceOp_of_not_op (by simpa using hop), evl_single]

theorem evs_rpLeaf (c v : Bytes) (ph : Nat) : evs H ix args (rpLeaf c v ph) = evs H ix args (.eq c v ph) := by
  unfold rpLeaf
  split
  · rename_i h; simp [evs, subst, h]
  · rename_i h; simp [evs, subst, h]

/-- what the induction carries for a list of operands: the combined bitmap, alone and behind a first operand -/
def ChOK (o : Bool) (es : List PExpr) : Prop :=
  (es ≠ [] → (evl H ix args (normCh o es)).map (opAll o) = (evl H ix args es).map (opAll o)) ∧
  ∀ x, (evl H ix args (normCh o es)).map (fun l => opAll o (x :: l)) =
    (evl H ix args es).map (fun l => opAll o (x :: l))

theorem ChOK_nil (o : Bool) : ChOK H ix args o [] :=
  ⟨fun h => absurd rfl h, fun x => by simp [normCh]⟩

theorem ChOK_cons (o : Bool) (e : PExpr) (es : List PExpr)
    (hne : spliceOp o (norm e) ≠ []) (he : evs H ix args (norm e) = evs H ix args e)
    (hs : ChOK H ix args o es) : ChOK H ix args o (e :: es) := by
  have hA := evl_spliceOp H ix args o (norm e)
  rw [he] at hA
  unfold ChOK
  rw [normCh, evl_append, evl_cons]
  cases hAe : evl H ix args (spliceOp o (norm e)) with
  | none =>
    rw [hAe] at hA
    simp only [Option.map_none] at hA
    rw [← hA]
    exact ⟨fun _ => rfl, fun _ => rfl⟩
  | some a =>
    rw [hAe] at hA
    simp only [Option.map_some] at hA
    rw [← hA]
    have ha : a ≠ [] := evl_ne_nil H ix args hne hAe
    have h2 := hs.2
    simp only [Option.bind_some]
    refine ⟨fun _ => ?_, fun x => ?_⟩
    · have := h2 (opAll o a)
      cases hB : evl H ix args (normCh o es) with
      | none =>
        rw [hB] at this
        cases hC : evl H ix args es with
        | none => rfl
        | some c => rw [hC] at this; simp at this
      | some b =>
        rw [hB] at this
        cases hC : evl H ix args es with
        | none => rw [hC] at this; simp at this
        | some c =>
          rw [hC] at this
          simp only [Option.map_some, Option.some.injEq] at this ⊢
          rw [opAll_append o a b ha, this]
    · have := h2 (opAll o [x, opAll o a])
      cases hB : evl H ix args (normCh o es) with
      | none =>
        rw [hB] at this
        cases hC : evl H ix args es with
        | none => rfl
        | some c => rw [hC] at this; simp at this
      | some b =>
        rw [hB] at this
        cases hC : evl H ix args es with
        | none => rw [hC] at this; simp at this
        | some c =>
          rw [hC] at this
          simp only [Option.map_some, Option.some.injEq] at this ⊢
          rw [opAll_cons_block o x a b ha]
          have e1 : opAll o (x :: opAll o a :: b) = opAll o (opAll o [x, opAll o a] :: b) :=
            opAll_append o [x, opAll o a] b (by simp)
          have e2 : opAll o (x :: opAll o a :: c) = opAll o (opAll o [x, opAll o a] :: c) :=
            opAll_append o [x, opAll o a] c (by simp)
          rw [e1, e2, this]

/-- **`norm` preserves the evaluation on every index** (result and error alike), for trees whose AND/OR nodes
    are non-empty -/
theorem evs_norm : (∀ e, NE e → evs H ix args (norm e) = evs H ix args e) ∧
    (∀ es, NEL es → ∀ o, ChOK H ix args o es) := by
  have heq : ∀ c v ph, NE (.eq c v ph) → evs H ix args (norm (.eq c v ph)) = evs H ix args (.eq c v ph) :=
    fun c v ph _ => by rw [norm, evs_rpLeaf]
  have hnot : ∀ e, (NE e → evs H ix args (norm e) = evs H ix args e) →
      NE (.not e) → evs H ix args (norm (.not e)) = evs H ix args (.not e) := by
    intro e ih h
    have := ih h
    simp only [evs] at this
    simp [norm, evs, subst, toExpr, eval, this]
  have hop : ∀ o es, (NEL es → ∀ o, ChOK H ix args o es) →
      NE (mkOp o es) → evs H ix args (norm (mkOp o es)) = evs H ix args (mkOp o es) := by
    intro o es ih h
    obtain ⟨h1, h2⟩ := (NE_mkOp o es).mp h
    rw [norm_mkOp, evs_mk1 H ix args o ((NE_norm.2 es h2 o).2 h1), (ih h2 o).1 h1, evs_mkOp]
  have hnil : NEL [] → ∀ o, ChOK H ix args o [] := fun _ o => ChOK_nil H ix args o
  have hcons : ∀ e es, (NE e → evs H ix args (norm e) = evs H ix args e) →
      (NEL es → ∀ o, ChOK H ix args o es) → NEL (e :: es) → ∀ o, ChOK H ix args o (e :: es) :=
    fun e es ihe ihs h o =>
      ChOK_cons H ix args o e es (NEL_spliceOp (NE_norm.1 e h.1)).2 (ihe h.1) (ihs h.2 o)
  exact ⟨PExpr.indE heq hnot (hop false) (hop true) hnil hcons,
    PExpr.indL heq hnot (hop false) (hop true) hnil hcons⟩

/-- trees with the same normal form evaluate alike on every index, under every binding -/
theorem evs_eq_of_norm_eq {e₁ e₂ : PExpr} (h1 : NE e₁) (h2 : NE e₂) (h : norm e₁ = norm e₂) :
    evs H ix args e₁ = evs H ix args e₂ := by
  rw [← (evs_norm H ix args).1 e₁ h1, h, (evs_norm H ix args).1 e₂ h2]

end

/-! ### unknown columns -/

/-! binding does not change which columns a tree names -/
mutual
theorem columns_subst (args : List Bytes) (e : PExpr) : (toExpr (subst args e)).columns = (toExpr e).columns := by
  match e with
  | .eq c v ph => simp only [subst]; split <;> rfl
  | .not e' => simp [subst, toExpr, Expr.columns, columns_subst args e']
  | .and es => simp [subst, toExpr, Expr.columns, columnsList_subst args es]
  | .or es => simp [subst, toExpr, Expr.columns, columnsList_subst args es]
theorem columnsList_subst (args : List Bytes) (es : List PExpr) :
    Expr.columnsList (toExprs (substList args es)) = Expr.columnsList (toExprs es) := by
  match es with
  | [] => rfl
  | e :: es' => simp [substList, toExprs, Expr.columnsList, columns_subst args e, columnsList_subst args es']
end


section
variable (H : Bytes → UInt64)

mutual
/-- a comparison on a column the schema does not have makes the whole evaluation fail -/
theorem eval_unknown_col (ix : Index) (e : Expr) (c : Bytes) (hc : c ∈ e.columns)
    (hno : ix.schema.col c = none) : eval H ix e = none := by
  match e with
  | .eq c' v =>
    simp only [Expr.columns, List.mem_singleton] at hc
    subst hc
    simp [eval, hno]
  | .not e' =>
    simp only [eval, eval_unknown_col ix e' c (by simpa [Expr.columns] using hc) hno, Option.map_none]
  | .and es =>
    simp only [eval, evalList_unknown_col ix es c (by simpa [Expr.columns] using hc) hno, Option.map_none]
  | .or es =>
    simp only [eval, evalList_unknown_col ix es c (by simpa [Expr.columns] using hc) hno, Option.map_none]
theorem evalList_unknown_col (ix : Index) (es : List Expr) (c : Bytes) (hc : c ∈ Expr.columnsList es)
    (hno : ix.schema.col c = none) : evalList H ix es = none := by
  match es with
  | [] => simp [Expr.columnsList] at hc
  | e :: es' =>
    simp only [Expr.columnsList, List.mem_append] at hc
    simp only [evalList]
    cases hc with
    | inl h => simp [eval_unknown_col ix e c h hno]
    | inr h =>
      cases eval H ix e with
      | none => rfl
      | some b => simp [evalList_unknown_col ix es' c h hno]
end

theorem populateGroupBy_unknown (s : Schema) (fs : List Bytes) (c : Bytes) (hc : c ∈ fs) (hno : s.col c = none) :
    populateGroupBy s fs = none := by
  induction fs with
  | nil => cases hc
  | cons f fs ih =>
    simp only [populateGroupBy]
    rcases List.mem_cons.mp hc with rfl | hc
    · simp [hno]
    · cases s.col f with
      | none => rfl
      | some vs => simp [ih hc]

theorem execute_unknown_col (ix : Index) (q : Query) (c : Bytes) (hc : c ∈ q.expr.columns ∨ c ∈ q.groupBy)
    (hno : ix.schema.col c = none) : execute H ix q = none := by
  unfold execute
  rcases hc with hc | hc
  · simp only [eval_unknown_col H ix q.expr c hc hno]
    cases populateGroupBy ix.schema q.groupBy <;> rfl
  · simp [populateGroupBy_unknown ix.schema q.groupBy c hc hno]

end
end Updog
