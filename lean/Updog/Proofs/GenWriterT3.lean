/-
Step lemmas for Props/Gen/Writer.lean: the generated `schemaAdd`, `getValueBitmap` + `bitmapAdd` against the model's
`Schema.add` / `ValMap.addBit`, under the heap invariant of the writer.
-/
import Updog.GeneratedFns
import Updog.Proofs.GoPreludeT3
namespace Updog.GeneratedEq
open Updog.Go.T3

section
variable (H : Bytes → UInt64)

theorem getValueIndex_eq' (k v : Bytes) : Gen.getValueIndex H k v = H (encodePair k v) := by
  simp [Gen.getValueIndex, Gen.valueIndexInput, encodePair]

/-- every recorded value index is the hash of its (column, value) pair -/
def Hashed (s : Schema) : Prop := ∀ cv ∈ s, ∀ vh ∈ cv.2, vh.2 = H (encodePair cv.1 vh.1)

/-- heap invariant of a `*schema`: its column pointers are valid and distinct, and the value indexes are hashes -/
structure SchemaWF (hp : Heap) (sch : SchemaObj) : Prop where
  ptrs : PtrsOK hp.columns.length (sch.Columns.map (·.2))
  hashed : Hashed H (schemaValue hp sch)

theorem hashed_addVal {c : Bytes} {vs : List (Bytes × UInt64)} (h : ∀ vh ∈ vs, vh.2 = H (encodePair c vh.1)) (v : Bytes) :
    ∀ vh ∈ addVal vs v (H (encodePair c v)), vh.2 = H (encodePair c vh.1) := by
  intro vh hvh
  unfold addVal at hvh
  split at hvh
  · exact h vh hvh
  · rcases List.mem_append.mp hvh with h1 | h1
    · exact h vh h1
    · simp only [List.mem_singleton] at h1; subst h1; rfl

theorem schemaAdd_spec (hp : Heap) (sch : SchemaObj) (k v : Bytes) (wf : SchemaWF H hp sch) :
    schemaValue (Gen.schemaAdd H hp sch k v).1 (Gen.schemaAdd H hp sch k v).2.1
        = Schema.add (schemaValue hp sch) k v (H (encodePair k v)) ∧
    (Gen.schemaAdd H hp sch k v).2.2 = H (encodePair k v) ∧
    SchemaWF H (Gen.schemaAdd H hp sch k v).1 (Gen.schemaAdd H hp sch k v).2.1 ∧
    (Gen.schemaAdd H hp sch k v).1.bitmaps = hp.bitmaps := by
  obtain ⟨cols⟩ := sch
  have hptr := wf.ptrs
  have hh := wf.hashed
  simp only [schemaValue_eq] at hh ⊢
  rcases map_split cols k with hm | ⟨m1, k', p, m2, e, h1, hk⟩
  · -- new column
    have hl := mapLookup_miss cols k nilPtr hm
    have hs := mapSet_miss cols k (some hp.columns.length) hm
    simp only [Gen.schemaAdd, hl, newColumn_eq, hs, columnAt_allocCol_new, mapLookup, mapSet, makeMap,
      Bool.not_false, if_true, getValueIndex_eq']
    have hold : ∀ (C : Column), ∀ kp ∈ cols,
        columnAt (columnSet (allocCol hp {}) (some hp.columns.length) C) kp.2 = columnAt hp kp.2 := by
      intro C kp hkp
      obtain ⟨a, ea, ha⟩ := hptr.2 kp.2 (List.mem_map_of_mem hkp)
      rw [columnAt_columnSet_other _ _ _ _ (by rw [ea]; intro e; injection e with e; omega),
        columnAt_allocCol hp _ kp.2 a ea ha]
    have hnew : ∀ (C : Column), columnAt (columnSet (allocCol hp {}) (some hp.columns.length) C) (some hp.columns.length) = C :=
      fun C => columnAt_columnSet_same _ _ _ (by simp)
    have hmm : ∀ cv ∈ (cols.map fun kp => (kp.1, (columnAt hp kp.2).Values)), (cv.1 == k) = false := by
      intro cv hcv
      obtain ⟨kp, hkp, rfl⟩ := List.mem_map.mp hcv
      exact hm kp hkp
    have hval : List.map (fun kp => (kp.fst, (columnAt (columnSet (allocCol hp {}) (some hp.columns.length)
          { Values := [(v, H (encodePair k v))] }) kp.snd).Values)) (cols ++ [(k, some hp.columns.length)])
        = List.map (fun kp => (kp.fst, (columnAt hp kp.snd).Values)) cols ++ [(k, [(v, H (encodePair k v))])] := by
      rw [List.map_append, cols_congr hp _ cols (hold _)]
      simp [hnew]
    refine ⟨?_, trivial, ⟨?_, ?_⟩, by simp⟩
    · rw [hval, schemaAdd_miss _ _ _ _ hmm]
    · have := hptr.snoc
      simpa [List.map_append] using this
    · simp only [schemaValue_eq]
      rw [hval]
      intro cv hcv
      rcases List.mem_append.mp hcv with hc | hc
      · exact hh cv hc
      · simp only [List.mem_singleton] at hc
        subst hc
        intro vh hvh
        simp only [List.mem_singleton] at hvh
        subst hvh; rfl
  · -- existing column
    subst e
    have hl := mapLookup_hit m1 m2 k' k p nilPtr h1 hk
    obtain ⟨a, ea, ha⟩ := hptr.2 p (by simp)
    subst ea
    have hke : k' = k := by simpa using hk
    have hnd : (m1.map (·.2) ++ some a :: m2.map (·.2)).Nodup := by simpa using hptr.1
    have hn1 : ∀ kp ∈ m1, kp.2 ≠ some a := by
      intro kp hkp e
      have := (List.nodup_append.mp hnd).2.2 kp.2 (List.mem_map_of_mem hkp) (some a) (by simp)
      exact this e
    have hn2 : ∀ kp ∈ m2, kp.2 ≠ some a := by
      intro kp hkp e
      have := (List.nodup_cons.mp (List.nodup_append.mp hnd).2.1).1
      exact this (e ▸ List.mem_map_of_mem hkp)
    have hmm : ∀ cv ∈ (m1.map fun kp => (kp.1, (columnAt hp kp.2).Values)), (cv.1 == k) = false := by
      intro cv hcv
      obtain ⟨kp, hkp, rfl⟩ := List.mem_map.mp hcv
      exact h1 kp hkp
    have hcol : ∀ vh ∈ (columnAt hp (some a)).Values, vh.2 = H (encodePair k vh.1) := by
      intro vh hvh
      have := hh (k', (columnAt hp (some a)).Values) (by simp) vh hvh
      rw [← hke]; exact this
    have hadd : Schema.add (List.map (fun kp => (kp.fst, (columnAt hp kp.snd).Values)) (m1 ++ (k', some a) :: m2)) k v
          (H (encodePair k v))
        = List.map (fun kp => (kp.fst, (columnAt hp kp.snd).Values)) m1
          ++ (k', addVal (columnAt hp (some a)).Values v (H (encodePair k v)))
            :: List.map (fun kp => (kp.fst, (columnAt hp kp.snd).Values)) m2 := by
      rw [List.map_append, List.map_cons, schemaAdd_hit _ _ k' k v _ _ hmm hk]
    cases hlv : mapLookup (columnAt hp (some a)).Values v (0 : UInt64) with
    | mk val ok =>
    cases ok with
    | true =>
      simp only [Gen.schemaAdd, hl, hlv, Bool.not_true, Bool.false_eq_true, if_false]
      have hmem := mapLookup_mem (columnAt hp (some a)).Values v (0 : UInt64) (by rw [hlv])
      rw [hlv] at hmem
      obtain ⟨v', hv', hv'e⟩ := hmem
      have hve : v' = v := by simpa using hv'e
      subst hve
      refine ⟨?_, hcol (v', val) hv', ⟨hptr, wf.hashed⟩, trivial⟩
      rw [hadd, addVal_eq, hlv]
      simp
    | false =>
      simp only [Gen.schemaAdd, hl, hlv, Bool.not_true, Bool.not_false, Bool.false_eq_true, if_false, if_true, getValueIndex_eq']
      generalize hC : ({ Values := mapSet (columnAt hp (some a)).Values v (H (encodePair k v)) } : Column) = C
      have e1 := cols_congr hp (columnSet hp (some a) C) m1
        (fun kp hkp => columnAt_columnSet_other hp a C kp.2 (hn1 kp hkp))
      have e2 := cols_congr hp (columnSet hp (some a) C) m2
        (fun kp hkp => columnAt_columnSet_other hp a C kp.2 (hn2 kp hkp))
      have e3 := columnAt_columnSet_same hp a C ha
      have hval : List.map (fun kp => (kp.fst, (columnAt (columnSet hp (some a) C) kp.snd).Values)) (m1 ++ (k', some a) :: m2)
          = List.map (fun kp => (kp.fst, (columnAt hp kp.snd).Values)) m1
            ++ (k', addVal (columnAt hp (some a)).Values v (H (encodePair k v)))
              :: List.map (fun kp => (kp.fst, (columnAt hp kp.snd).Values)) m2 := by
        rw [List.map_append, List.map_cons, e1, e2, e3, addVal_eq, hlv, ← hC]
        simp
      refine ⟨?_, trivial, ⟨?_, ?_⟩, by simp⟩
      · rw [hval, hadd]
      · simpa using hptr
      · simp only [schemaValue_eq]
        rw [hval]
        intro cv hcv
        rcases List.mem_append.mp hcv with hc | hc
        · exact hh cv (by simp [hc])
        · rcases List.mem_cons.mp hc with hc | hc
          · subst hc
            have := hashed_addVal H (c := k) hcol v
            rw [hke]; exact this
          · exact hh cv (by simp [hc])

/-! ### getValueBitmap + Add -/

theorem columnAt_of_columns {hp hp' : Heap} (h : hp'.columns = hp.columns) (p : Ptr) : columnAt hp' p = columnAt hp p := by
  cases p <;> simp [columnAt, h]

theorem bitmapAt_of_bitmaps {hp hp' : Heap} (h : hp'.bitmaps = hp.bitmaps) (p : Ptr) : bitmapAt hp' p = bitmapAt hp p := by
  cases p <;> simp [bitmapAt, h]

theorem schemaValue_of_columns {hp hp' : Heap} (h : hp'.columns = hp.columns) (s : SchemaObj) :
    schemaValue hp' s = schemaValue hp s := by
  simp only [schemaValue_eq]
  exact cols_congr hp hp' _ (fun kp _ => columnAt_of_columns h kp.2)

theorem absVals_of_bitmaps {hp hp' : Heap} (h : hp'.bitmaps = hp.bitmaps) (m : GoMap UInt64 Ptr) :
    absVals hp' m = absVals hp m :=
  absVals_congr hp hp' m (fun kp _ => bitmapAt_of_bitmaps h kp.2)

theorem SchemaWF.of_columns {hp hp' : Heap} {s : SchemaObj} (h : hp'.columns = hp.columns) (wf : SchemaWF H hp s) :
    SchemaWF H hp' s :=
  ⟨by rw [h]; exact wf.ptrs, by rw [schemaValue_of_columns h]; exact wf.hashed⟩

theorem valueBit_spec (hp : Heap) (idx : IndexWriter) (h : UInt64) (x : UInt32)
    (wf : PtrsOK hp.bitmaps.length (idx.values.map (·.2))) :
    absVals (bitmapAdd (Gen.getValueBitmap hp idx h).1 (Gen.getValueBitmap hp idx h).2.2 x) (Gen.getValueBitmap hp idx h).2.1.values
        = (absVals hp idx.values).addBit h x.toNat ∧
    PtrsOK (bitmapAdd (Gen.getValueBitmap hp idx h).1 (Gen.getValueBitmap hp idx h).2.2 x).bitmaps.length
        ((Gen.getValueBitmap hp idx h).2.1.values.map (·.2)) ∧
    (bitmapAdd (Gen.getValueBitmap hp idx h).1 (Gen.getValueBitmap hp idx h).2.2 x).columns = hp.columns ∧
    (idx.mtx.held = true →
      (Gen.getValueBitmap hp idx h).2.1 = { idx with values := (Gen.getValueBitmap hp idx h).2.1.values }) := by
  rcases map_split idx.values h with hm | ⟨m1, k', p, m2, e, h1, hk⟩
  · have hl := mapLookup_miss idx.values h nilPtr hm
    have hs := mapSet_miss idx.values h (some hp.bitmaps.length) hm
    simp only [Gen.getValueBitmap, hl, roaringNew_eq, hs, Bool.not_false, if_true]
    have hmm : ∀ kb ∈ absVals hp idx.values, (kb.1 == h) = false := by
      intro kb hkb
      obtain ⟨kp, hkp, rfl⟩ := List.mem_map.mp hkb
      exact hm kp hkp
    have hold : ∀ kp ∈ idx.values, bitmapAt (bitmapAdd (allocBm hp) (some hp.bitmaps.length) x) kp.2 = bitmapAt hp kp.2 := by
      intro kp hkp
      obtain ⟨a, ea, ha⟩ := wf.2 kp.2 (List.mem_map_of_mem hkp)
      rw [bitmapAt_bitmapAdd_other _ _ _ _ (by rw [ea]; intro e; injection e with e; omega), bitmapAt_allocBm hp kp.2 a ea ha]
    refine ⟨?_, ?_, by simp, fun hh => by simp [mutexTouch_of_held _ hh]⟩
    · rw [addBit_miss _ _ _ hmm, absVals_append, absVals_congr hp _ idx.values hold]
      simp [absVals, bitmapAt_bitmapAdd_same, bitmapAt_allocBm_new]
    · have := wf.snoc
      simpa [List.map_append] using this
  · have hl : mapLookup idx.values h nilPtr = (p, true) := by rw [e]; exact mapLookup_hit m1 m2 k' h p nilPtr h1 hk
    simp only [Gen.getValueBitmap, hl, Bool.not_true, Bool.false_eq_true, if_false]
    rw [e] at wf ⊢
    obtain ⟨a, ea, ha⟩ := wf.2 p (by simp)
    subst ea
    have hnd : (m1.map (·.2) ++ some a :: m2.map (·.2)).Nodup := by simpa using wf.1
    have hn1 : ∀ kp ∈ m1, kp.2 ≠ some a := by
      intro kp hkp e
      have := (List.nodup_append.mp hnd).2.2 kp.2 (List.mem_map_of_mem hkp) (some a) (by simp)
      exact this e
    have hn2 : ∀ kp ∈ m2, kp.2 ≠ some a := by
      intro kp hkp e
      have := (List.nodup_cons.mp (List.nodup_append.mp hnd).2.1).1
      exact this (e ▸ List.mem_map_of_mem hkp)
    have hmm : ∀ kb ∈ absVals hp m1, (kb.1 == h) = false := by
      intro kb hkb
      obtain ⟨kp, hkp, rfl⟩ := List.mem_map.mp hkb
      exact h1 kp hkp
    refine ⟨?_, by simpa using wf, by simp, fun hh => by simp [mutexTouch_of_held _ hh]⟩
    rw [absVals_append, absVals_append]
    have e1 := absVals_congr hp (bitmapAdd hp (some a) x) m1 (fun kp hkp => bitmapAt_bitmapAdd_other hp a x kp.2 (hn1 kp hkp))
    have e2 := absVals_congr hp (bitmapAdd hp (some a) x) m2 (fun kp hkp => bitmapAt_bitmapAdd_other hp a x kp.2 (hn2 kp hkp))
    rw [e1]
    show _ ++ ((k', bitmapAt (bitmapAdd hp (some a) x) (some a)) :: absVals (bitmapAdd hp (some a) x) m2) = _
    rw [e2, bitmapAt_bitmapAdd_same hp a x ha]
    exact (addBit_hit _ _ k' h _ _ hmm hk).symm

/-! ### the body of the loop of AddRow -/

/-- heap invariant of an `*IndexWriter` -/
structure WriterWF (hp : Heap) (idx : IndexWriter) : Prop where
  sch : SchemaWF H hp idx.schema
  vals : PtrsOK hp.bitmaps.length (idx.values.map (·.2))

/-- the model state an `IndexWriter` stands for -/
def absWriter (hp : Heap) (idx : IndexWriter) : Writer :=
  { schema := schemaValue hp idx.schema, vals := absVals hp idx.values, next := idx.nextRowID.toNat }

/-- one iteration of `for k, v := range values` of `AddRow`, as the translator emits it (with the mutex held the
    recorded accesses are no-ops) -/
theorem addRowStep_eq (values : List (Bytes × Bytes)) (rowID : UInt32) (hp : Heap) (idx : IndexWriter) (kv : Bytes × Bytes)
    (hh : idx.mtx.held = true) :
    Gen.indexWriterAddRow_loop1 H values rowID (hp, idx) kv =
      (let r := Gen.schemaAdd H hp idx.schema kv.1 kv.2
       let g := Gen.getValueBitmap r.1 { idx with schema := r.2.1 } r.2.2
       (bitmapAdd g.1 g.2.2 rowID, g.2.1)) := by
  unfold Gen.indexWriterAddRow_loop1
  simp only [mutexTouch_of_held _ hh]

theorem addRowStep_spec (values : List (Bytes × Bytes)) (rowID : UInt32) (hp : Heap) (idx : IndexWriter) (kv : Bytes × Bytes)
    (wf : WriterWF H hp idx) (hh : idx.mtx.held = true) :
    let st' := Gen.indexWriterAddRow_loop1 H values rowID (hp, idx) kv
    WriterWF H st'.1 st'.2 ∧
    schemaValue st'.1 st'.2.schema = Schema.add (schemaValue hp idx.schema) kv.1 kv.2 (H (encodePair kv.1 kv.2)) ∧
    absVals st'.1 st'.2.values = (absVals hp idx.values).addBit (H (encodePair kv.1 kv.2)) rowID.toNat ∧
    st'.2.nextRowID = idx.nextRowID ∧ st'.2.mtx = idx.mtx ∧ st'.2.filename = idx.filename := by
  intro st'
  obtain ⟨hs1, hs2, hs3, hs4⟩ := schemaAdd_spec H hp idx.schema kv.1 kv.2 wf.sch
  have hst0 : st' = _ := addRowStep_eq H values rowID hp idx kv hh
  generalize hr : Gen.schemaAdd H hp idx.schema kv.1 kv.2 = r at hs1 hs2 hs3 hs4 hst0
  have hv : PtrsOK r.1.bitmaps.length (({ idx with schema := r.2.1 } : IndexWriter).values.map (·.2)) := by
    rw [hs4]; exact wf.vals
  obtain ⟨hg1, hg2, hg3, hg4⟩ := valueBit_spec r.1 { idx with schema := r.2.1 } r.2.2 rowID hv
  have hg4 := hg4 hh
  dsimp only at hst0
  generalize hg : Gen.getValueBitmap r.1 { idx with schema := r.2.1 } r.2.2 = g at hg1 hg2 hg3 hg4 hst0
  have hst : st' = (bitmapAdd g.1 g.2.2 rowID, g.2.1) := hst0
  rw [hst]
  have hsch : g.2.1.schema = r.2.1 := by rw [hg4]
  refine ⟨⟨?_, hg2⟩, ?_, ?_, by rw [hg4], by rw [hg4], by rw [hg4]⟩
  · show SchemaWF H _ g.2.1.schema
    rw [hsch]; exact hs3.of_columns H hg3
  · show schemaValue _ g.2.1.schema = _
    rw [hsch, schemaValue_of_columns hg3, hs1]
  · show absVals _ g.2.1.values = _
    rw [hg1, hs2]
    show ValMap.addBit (absVals r.1 idx.values) _ _ = _
    rw [absVals_of_bitmaps hs4]

theorem addRowStep_abs (values : List (Bytes × Bytes)) (rowID : UInt32) (hp : Heap) (idx : IndexWriter) (kv : Bytes × Bytes)
    (wf : WriterWF H hp idx) (hh : idx.mtx.held = true) :
    absWriter (Gen.indexWriterAddRow_loop1 H values rowID (hp, idx) kv).1 (Gen.indexWriterAddRow_loop1 H values rowID (hp, idx) kv).2
      = Writer.addPair H rowID.toNat (absWriter hp idx) kv := by
  obtain ⟨_, h2, h3, h4, _, _⟩ := addRowStep_spec H values rowID hp idx kv wf hh
  simp only [absWriter, Writer.addPair, h2, h3, h4]

theorem addRowFold_spec (vals0 : List (Bytes × Bytes)) (rowID : UInt32) (values : List (Bytes × Bytes)) (hp : Heap)
    (idx : IndexWriter) (wf : WriterWF H hp idx) (hh : idx.mtx.held = true) :
    let st' := values.foldl (Gen.indexWriterAddRow_loop1 H vals0 rowID) (hp, idx)
    WriterWF H st'.1 st'.2 ∧
    absWriter st'.1 st'.2 = values.foldl (Writer.addPair H rowID.toNat) (absWriter hp idx) ∧
    st'.2.nextRowID = idx.nextRowID ∧ st'.2.mtx = idx.mtx ∧ st'.2.filename = idx.filename := by
  induction values generalizing hp idx with
  | nil => exact ⟨wf, rfl, rfl, rfl, rfl⟩
  | cons kv rest ih =>
    obtain ⟨w1, _, _, w4, w5, w6⟩ := addRowStep_spec H vals0 rowID hp idx kv wf hh
    have habs := addRowStep_abs H vals0 rowID hp idx kv wf hh
    have := ih (Gen.indexWriterAddRow_loop1 H vals0 rowID (hp, idx) kv).1 (Gen.indexWriterAddRow_loop1 H vals0 rowID (hp, idx) kv).2 w1
      (by rw [w5]; exact hh)
    simp only [List.foldl_cons]
    obtain ⟨i1, i2, i3, i4, i5⟩ := this
    refine ⟨i1, ?_, i3.trans w4, i4.trans w5, i5.trans w6⟩
    rw [i2, habs]

end
end Updog.GeneratedEq
