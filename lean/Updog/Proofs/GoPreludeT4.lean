/-
Lemmas about the T4 part of the Go prelude (`Updog/Basic/GoPreludeT4.lean`): `strings.ContainsRune` on an ASCII
literal, `utf8.DecodeRuneInString`, slices. Used by `Updog/Props/Gen/Lexer.lean`.
-/
import Updog.Basic.GoPreludeT4
namespace Updog.Go

/-! ### strings.ContainsRune -/

theorem containsRune_nil (r : Int) : containsRune [] r = false := rfl

theorem containsRune_cons (b : UInt8) (v : Bytes) (r : Int) :
    containsRune (b :: v) r = (((b.toNat : Nat) : Int) == r || containsRune v r) := rfl

/-- no `valid` string contains a negative rune, in particular not `eof = -1` -/
theorem containsRune_neg (valid : Bytes) {r : Int} (h : r < 0) : containsRune valid r = false := by
  induction valid with
  | nil => rfl
  | cons b v ih =>
    rw [containsRune_cons, ih, Bool.or_false, beq_eq_false_iff_ne]
    omega

/-- an ASCII `valid` string contains no rune ≥ 0x80 -/
theorem containsRune_big (valid : Bytes) (hv : ∀ b ∈ valid, b.toNat < 128) {r : Int} (h : 128 ≤ r) :
    containsRune valid r = false := by
  induction valid with
  | nil => rfl
  | cons b v ih =>
    have hb := hv b (by simp)
    rw [containsRune_cons, ih (fun x hx => hv x (by simp [hx])), Bool.or_false, beq_eq_false_iff_ne]
    omega

/-- `ContainsRune(valid, ·)` is the rune class `validR`, provided the two agree below 0x80 (checked by evaluation for
    each literal), `valid` is ASCII and the class contains ASCII runes only -/
theorem containsRune_spec (valid : Bytes) (validR : Nat → Bool)
    (hA : ∀ n : Nat, n < 128 → containsRune valid (n : Int) = validR n)
    (hB : ∀ b ∈ valid, b.toNat < 128) (hC : ∀ n, validR n = true → n < 128) (r : Int) :
    containsRune valid r = (decide (0 ≤ r) && validR r.toNat) := by
  by_cases h0 : 0 ≤ r
  · obtain ⟨n, rfl⟩ := Int.eq_ofNat_of_zero_le h0
    simp only [Int.toNat_natCast, h0, decide_true, Bool.true_and]
    by_cases hn : n < 128
    · exact hA n hn
    · rw [containsRune_big valid hB (by omega)]
      cases hc : validR n with
      | false => rfl
      | true => exact absurd (hC n hc) hn
  · rw [containsRune_neg valid (by omega)]
    simp [h0]

/-! ### utf8.DecodeRuneInString -/

theorem decodeRuneInString_fst (s : Bytes) : (decodeRuneInString s).1 = ((decodeRune s).1 : Int) := rfl
theorem decodeRuneInString_snd (s : Bytes) : (decodeRuneInString s).2 = ((decodeRune s).2 : Int) := rfl

/-! ### slices -/

/-- `s[a:a+k]` is the first `k` bytes of `s[a:]` -/
theorem slice_add (s : Bytes) {a : Int} (h : 0 ≤ a) (k : Nat) :
    slice s a (a + k) = (s.drop a.toNat).take k := by
  unfold slice
  rw [List.drop_take]
  congr 1
  omega

theorem sliceFrom_eq (s : Bytes) (a : Int) : sliceFrom s a = s.drop a.toNat := rfl

end Updog.Go
