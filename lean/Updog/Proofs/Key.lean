/-
Helper lemmas for C03 "no sharing": the cache key determines the expression tree up to the value indexes
of its leaves, unless the hash collides on one of the strings actually hashed.
-/
import Updog.Model.Cache
import Updog.Spec.Sat
namespace Updog

/-! ### big-endian coding is injective, blocks of 8 bytes can be split again -/

theorem toUInt8_toNat_mod (x : Nat) : (x % 256).toUInt8.toNat = x % 256 := by
  simp [Nat.toUInt8]

theorem beDecode_be64 (n : Nat) (h : n < 2 ^ 64) : beDecode (be64 n) = n := by
  simp only [beDecode, be64, be32, List.cons_append, List.nil_append, List.foldl_cons, List.foldl_nil,
    toUInt8_toNat_mod]
  omega

theorem be64_length (n : Nat) : (be64 n).length = 8 := by simp [be64, be32]

theorem be64_inj {n m : Nat} (hn : n < 2 ^ 64) (hm : m < 2 ^ 64) (h : be64 n = be64 m) : n = m := by
  rw [← beDecode_be64 n hn, ← beDecode_be64 m hm, h]

theorem be64_toNat_inj {a b : UInt64} (h : be64 a.toNat = be64 b.toNat) : a = b :=
  UInt64.toNat_inj.mp (be64_inj a.toNat_lt b.toNat_lt h)

theorem flatMap_be64_inj (ks ks' : List UInt64)
    (h : (ks.flatMap fun k => be64 k.toNat) = ks'.flatMap fun k => be64 k.toNat) : ks = ks' := by
  induction ks generalizing ks' with
  | nil =>
    cases ks' with
    | nil => rfl
    | cons b t =>
      have := congrArg List.length h
      simp only [List.flatMap_cons, List.flatMap_nil, List.length_nil, List.length_append, be64_length] at this
      omega
  | cons a t ih =>
    cases ks' with
    | nil =>
      have := congrArg List.length h
      simp only [List.flatMap_cons, List.flatMap_nil, List.length_nil, List.length_append, be64_length] at this
      omega
    | cons b t' =>
      simp only [List.flatMap_cons] at h
      obtain ⟨h1, h2⟩ := List.append_inj h (by simp [be64_length])
      rw [be64_toNat_inj h1, ih t' h2]

/-! ### what is hashed -/

inductive SkelTree where
  | leaf (h : UInt64)
  | not (t : SkelTree)
  | and (ts : List SkelTree)
  | or (ts : List SkelTree)

section
variable (H : Bytes → UInt64)

mutual
/-- the expression with every leaf `(c, v)` replaced by its value index `H (c ‖ 0 ‖ v)` -/
def Expr.skeleton : Expr → SkelTree
  | .eq c v => .leaf (H (encodePair c v))
  | .not e => .not (Expr.skeleton e)
  | .and es => .and (Expr.skeletonList es)
  | .or es => .or (Expr.skeletonList es)
def Expr.skeletonList : List Expr → List SkelTree
  | [] => []
  | e :: es => Expr.skeleton e :: Expr.skeletonList es
end

/-- equal trees up to replacing each leaf by its value index -/
def sameShape (e e' : Expr) : Prop := e.skeleton H = e'.skeleton H

/-- the byte string whose hash is the cache key of `e` -/
def keyInput : Expr → Bytes
  | .eq c v => tagEqual :: [H (encodePair c v)].flatMap fun k => be64 k.toNat
  | .not e => tagNot :: [cacheKey H e].flatMap fun k => be64 k.toNat
  | .and es => tagAnd :: (cacheKeys H es).flatMap fun k => be64 k.toNat
  | .or es => tagOr :: (cacheKeys H es).flatMap fun k => be64 k.toNat

theorem cacheKey_eq_hash (e : Expr) : cacheKey H e = H (keyInput H e) := by
  cases e <;> simp only [cacheKey, mixKey, keyInput]

mutual
/-- every byte string fed to `H` by `cacheKey H e` at `e` or below (the leaf strings `E ‖ be64 valueIdx`
    included; the value indexes themselves are taken as given) -/
def preimages : Expr → List Bytes
  | .eq c v => [keyInput H (.eq c v)]
  | .not e => keyInput H (.not e) :: preimages e
  | .and es => keyInput H (.and es) :: preimagesList es
  | .or es => keyInput H (.or es) :: preimagesList es
def preimagesList : List Expr → List Bytes
  | [] => []
  | e :: es => preimages e ++ preimagesList es
end

theorem keyInput_mem (e : Expr) : keyInput H e ∈ preimages H e := by
  cases e <;> simp [preimages]

/-- no 64-bit collision among the strings of `S` -/
def InjOn (S : List Bytes) : Prop := ∀ x ∈ S, ∀ y ∈ S, H x = H y → x = y

variable {H}

theorem InjOn.mono {S S' : List Bytes} (h : InjOn H S) (hsub : ∀ x ∈ S', x ∈ S) : InjOn H S' :=
  fun x hx y hy => h x (hsub x hx) y (hsub y hy)

theorem tag_ne : tagEqual ≠ tagNot ∧ tagEqual ≠ tagAnd ∧ tagEqual ≠ tagOr ∧ tagNot ≠ tagAnd ∧ tagNot ≠ tagOr ∧
    tagAnd ≠ tagOr := by decide

mutual
theorem skeleton_eq_of_key_eq (S : List Bytes) (hS : InjOn H S) (e e' : Expr)
    (he : ∀ x ∈ preimages H e, x ∈ S) (he' : ∀ x ∈ preimages H e', x ∈ S)
    (hk : cacheKey H e = cacheKey H e') : e.skeleton H = e'.skeleton H := by
  have hin : keyInput H e = keyInput H e' := by
    rw [cacheKey_eq_hash, cacheKey_eq_hash] at hk
    exact hS _ (he _ (keyInput_mem H e)) _ (he' _ (keyInput_mem H e')) hk
  obtain ⟨t1, t2, t3, t4, t5, t6⟩ := tag_ne
  match e, e' with
  | .eq c v, .eq c' v' =>
    simp only [keyInput, List.cons.injEq, true_and] at hin
    have := flatMap_be64_inj _ _ hin
    simp only [List.cons.injEq, and_true] at this
    simp only [Expr.skeleton, this]
  | .not e1, .not e1' =>
    simp only [keyInput, List.cons.injEq, true_and] at hin
    have := flatMap_be64_inj _ _ hin
    simp only [List.cons.injEq, and_true] at this
    simp only [Expr.skeleton]
    rw [skeleton_eq_of_key_eq S hS e1 e1' (fun x hx => he x (by simp [preimages, hx]))
      (fun x hx => he' x (by simp [preimages, hx])) this]
  | .and es, .and es' =>
    simp only [keyInput, List.cons.injEq, true_and] at hin
    have := flatMap_be64_inj _ _ hin
    simp only [Expr.skeleton]
    rw [skeletonList_eq_of_keys_eq S hS es es' (fun x hx => he x (by simp [preimages, hx]))
      (fun x hx => he' x (by simp [preimages, hx])) this]
  | .or es, .or es' =>
    simp only [keyInput, List.cons.injEq, true_and] at hin
    have := flatMap_be64_inj _ _ hin
    simp only [Expr.skeleton]
    rw [skeletonList_eq_of_keys_eq S hS es es' (fun x hx => he x (by simp [preimages, hx]))
      (fun x hx => he' x (by simp [preimages, hx])) this]
  | .eq _ _, .not _ => simp only [keyInput, List.cons.injEq] at hin; exact absurd hin.1 t1
  | .eq _ _, .and _ => simp only [keyInput, List.cons.injEq] at hin; exact absurd hin.1 t2
  | .eq _ _, .or _ => simp only [keyInput, List.cons.injEq] at hin; exact absurd hin.1 t3
  | .not _, .eq _ _ => simp only [keyInput, List.cons.injEq] at hin; exact absurd hin.1.symm t1
  | .not _, .and _ => simp only [keyInput, List.cons.injEq] at hin; exact absurd hin.1 t4
  | .not _, .or _ => simp only [keyInput, List.cons.injEq] at hin; exact absurd hin.1 t5
  | .and _, .eq _ _ => simp only [keyInput, List.cons.injEq] at hin; exact absurd hin.1.symm t2
  | .and _, .not _ => simp only [keyInput, List.cons.injEq] at hin; exact absurd hin.1.symm t4
  | .and _, .or _ => simp only [keyInput, List.cons.injEq] at hin; exact absurd hin.1 t6
  | .or _, .eq _ _ => simp only [keyInput, List.cons.injEq] at hin; exact absurd hin.1.symm t3
  | .or _, .not _ => simp only [keyInput, List.cons.injEq] at hin; exact absurd hin.1.symm t5
  | .or _, .and _ => simp only [keyInput, List.cons.injEq] at hin; exact absurd hin.1.symm t6
theorem skeletonList_eq_of_keys_eq (S : List Bytes) (hS : InjOn H S) (es es' : List Expr)
    (he : ∀ x ∈ preimagesList H es, x ∈ S) (he' : ∀ x ∈ preimagesList H es', x ∈ S)
    (hk : cacheKeys H es = cacheKeys H es') : Expr.skeletonList H es = Expr.skeletonList H es' := by
  match es, es' with
  | [], [] => rfl
  | [], _ :: _ => simp [cacheKeys] at hk
  | _ :: _, [] => simp [cacheKeys] at hk
  | e :: t, e' :: t' =>
    simp only [cacheKeys, List.cons.injEq] at hk
    simp only [Expr.skeletonList]
    rw [skeleton_eq_of_key_eq S hS e e' (fun x hx => he x (by simp [preimagesList, hx]))
        (fun x hx => he' x (by simp [preimagesList, hx])) hk.1,
      skeletonList_eq_of_keys_eq S hS t t' (fun x hx => he x (by simp [preimagesList, hx]))
        (fun x hx => he' x (by simp [preimagesList, hx])) hk.2]
end

/-! ### the meaning of an expression over known columns depends on its leaves only through their value index -/

mutual
def evalSkel (ix : Index) : SkelTree → Nat
  | .leaf h => (ix.getCol h).getD 0
  | .not t => flip ix.next (evalSkel ix t)
  | .and ts => andAll (evalSkelList ix ts)
  | .or ts => orAll (evalSkelList ix ts)
def evalSkelList (ix : Index) : List SkelTree → List Nat
  | [] => []
  | t :: ts => evalSkel ix t :: evalSkelList ix ts
end

/-- every column tested by `e` is a column of the schema (so `e` does not evaluate to an error) -/
def ColsKnown (ix : Index) (e : Expr) : Prop := ∀ c ∈ e.columns, (ix.schema.col c).isSome = true

variable (H)

mutual
theorem eval_eq_evalSkel (ix : Index) (e : Expr) (h : ∀ c ∈ e.columns, (ix.schema.col c).isSome = true) :
    eval H ix e = some (evalSkel ix (e.skeleton H)) := by
  match e with
  | .eq c v =>
    have := h c (by simp [Expr.columns])
    cases hc : ix.schema.col c with
    | none => simp [hc] at this
    | some vs => simp only [eval, hc, Expr.skeleton, evalSkel]
  | .not e1 =>
    simp only [eval, Expr.skeleton, evalSkel, eval_eq_evalSkel ix e1 (fun c hc => h c (by simpa [Expr.columns] using hc)),
      Option.map_some]
  | .and es =>
    simp only [eval, Expr.skeleton, evalSkel,
      evalList_eq_evalSkelList ix es (fun c hc => h c (by simpa [Expr.columns] using hc)), Option.map_some]
  | .or es =>
    simp only [eval, Expr.skeleton, evalSkel,
      evalList_eq_evalSkelList ix es (fun c hc => h c (by simpa [Expr.columns] using hc)), Option.map_some]
theorem evalList_eq_evalSkelList (ix : Index) (es : List Expr)
    (h : ∀ c ∈ Expr.columnsList es, (ix.schema.col c).isSome = true) :
    evalList H ix es = some (evalSkelList ix (Expr.skeletonList H es)) := by
  match es with
  | [] => rfl
  | e :: t =>
    simp only [evalList, Expr.skeletonList, evalSkelList,
      eval_eq_evalSkel ix e (fun c hc => h c (by simp [Expr.columnsList, hc])),
      evalList_eq_evalSkelList ix t (fun c hc => h c (by simp [Expr.columnsList, hc])), Option.map_some]
end

/-! ### universes -/

mutual
/-- `e` and everything below it -/
def Expr.subs : Expr → List Expr
  | .eq c v => [.eq c v]
  | .not e => .not e :: Expr.subs e
  | .and es => .and es :: Expr.subsList es
  | .or es => .or es :: Expr.subsList es
def Expr.subsList : List Expr → List Expr
  | [] => []
  | e :: es => Expr.subs e ++ Expr.subsList es
end

end
end Updog
