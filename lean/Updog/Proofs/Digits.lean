/-
`natDigits n` (decimal text of `n` as bytes) consists of ASCII digits and `digitsVal` inverts it.
-/
import Updog.Model.Formatter
namespace Updog

/-! ### `ByteArray.toList` is the underlying list -/

theorem byteArray_toList_loop (bs : ByteArray) (i : Nat) (r : List UInt8) (hi : i ≤ bs.size) :
    ByteArray.toList.loop bs i r = r.reverse ++ bs.data.toList.drop i := by
  have hsz : bs.data.toList.length = bs.size := by simp [← ByteArray.size_data]
  induction h : bs.size - i generalizing i r with
  | zero =>
    rw [ByteArray.toList.loop]
    have : ¬ i < bs.size := by omega
    simp only [this, if_false]
    have : bs.data.toList.length ≤ i := by omega
    simp [List.drop_eq_nil_of_le this]
  | succ k ih =>
    rw [ByteArray.toList.loop]
    have hlt : i < bs.size := by omega
    simp only [hlt, if_true]
    rw [ih (i + 1) _ (by omega) (by omega)]
    have hlen : i < bs.data.toList.length := by omega
    rw [List.drop_eq_getElem_cons hlen]
    have : bs.get! i = bs.data.toList[i] := by
      show bs.data[i]! = _
      rw [getElem!_pos bs.data i (by simpa using hlen)]
      simp
    simp [this]

theorem byteArray_toList (bs : ByteArray) : bs.toList = bs.data.toList := by
  simp [ByteArray.toList, byteArray_toList_loop]

theorem list_toByteArray_toList (l : List UInt8) : l.toByteArray.toList = l := by
  rw [byteArray_toList]; simp

end Updog

namespace Updog

/-! ### decimal digits -/

/-- the byte of an ASCII character -/
def charByte (c : Char) : UInt8 := c.val.toUInt8

theorem utf8Size_of_isDigit {c : Char} (h : c.isDigit) : c.utf8Size = 1 := by
  simp only [Char.isDigit, Bool.and_eq_true, decide_eq_true_eq] at h
  have h2 : c.val ≤ 57 := h.2
  have : c.val ≤ 127 := Nat.le_trans (UInt32.le_iff_toNat_le.mp h2) (by decide) |> UInt32.le_iff_toNat_le.mpr
  simp [Char.utf8Size, this]

theorem flatMap_utf8EncodeChar_digits (l : List Char) (h : ∀ c ∈ l, c.isDigit) :
    l.flatMap String.utf8EncodeChar = l.map charByte := by
  induction l with
  | nil => rfl
  | cons c l ih =>
    simp only [List.flatMap_cons, List.map_cons]
    rw [ih (fun c hc => h c (List.mem_cons_of_mem _ hc)),
      String.utf8EncodeChar_eq_singleton (utf8Size_of_isDigit (h c List.mem_cons_self))]
    rfl

theorem natDigits_eq (n : Nat) : natDigits n = (Nat.toDigits 10 n).map charByte := by
  unfold natDigits
  rw [Nat.toString_eq_ofList_toDigits, String.toUTF8_eq_toByteArray, String.toByteArray_ofList]
  unfold List.utf8Encode
  rw [list_toByteArray_toList]
  exact flatMap_utf8EncodeChar_digits _ (fun c hc => Nat.isDigit_of_mem_toDigits (by decide) (by decide) hc)

theorem charByte_isDigit {c : Char} (h : c.isDigit) : isDigit (charByte c) = true := by
  simp only [Char.isDigit, Bool.and_eq_true, decide_eq_true_eq] at h
  obtain ⟨h1, h2⟩ := h
  have h1' : 48 ≤ c.val.toNat := UInt32.le_iff_toNat_le.mp h1
  have h2' : c.val.toNat ≤ 57 := UInt32.le_iff_toNat_le.mp h2
  have e : (charByte c).toNat = c.val.toNat := by
    simp only [charByte, UInt32.toNat_toUInt8]; omega
  simp only [isDigit, Bool.and_eq_true, decide_eq_true_eq]
  constructor
  · apply UInt8.le_iff_toNat_le.mpr
    rw [e]; exact h1'
  · apply UInt8.le_iff_toNat_le.mpr
    rw [e]; exact h2'

theorem charByte_toNat {c : Char} (h : c.isDigit) : (charByte c).toNat = c.toNat := by
  simp only [Char.isDigit, Bool.and_eq_true, decide_eq_true_eq] at h
  have h2' : c.val.toNat ≤ 57 := UInt32.le_iff_toNat_le.mp h.2
  show (charByte c).toNat = c.val.toNat
  simp only [charByte, UInt32.toNat_toUInt8]; omega

theorem natDigits_all_digit (n : Nat) : ∀ b ∈ natDigits n, isDigit b = true := by
  rw [natDigits_eq]
  intro b hb
  obtain ⟨c, hc, rfl⟩ := List.mem_map.mp hb
  exact charByte_isDigit (Nat.isDigit_of_mem_toDigits (by decide) (by decide) hc)

theorem natDigits_ne_nil (n : Nat) : natDigits n ≠ [] := by
  rw [natDigits_eq]; simp

theorem foldl_digits (l : List Char) (h : ∀ c ∈ l, c.isDigit) (init : Nat) :
    (l.map charByte).foldl (fun acc d => acc * 10 + (d.toNat - 48)) init = Nat.ofDigitChars 10 l init := by
  induction l generalizing init with
  | nil => simp
  | cons c l ih =>
    rw [List.map_cons, List.foldl_cons, Nat.ofDigitChars_cons,
      ih (fun c hc => h c (List.mem_cons_of_mem _ hc)), charByte_toNat (h c List.mem_cons_self)]
    congr 1
    simp [Nat.mul_comm]

theorem digitsVal_natDigits (n : Nat) : digitsVal (natDigits n) = n := by
  rw [natDigits_eq, digitsVal,
    foldl_digits _ (fun c hc => Nat.isDigit_of_mem_toDigits (by decide) (by decide) hc)]
  exact Nat.ofDigitChars_ten_toDigits

/-- placeholder numbers survive printing and decoding -/
theorem decodePlaceholder_natDigits {n : Nat} (h : n ≤ 2147483647) :
    decodePlaceholder (natDigits n) = n := by
  unfold decodePlaceholder
  have hne : (natDigits n).isEmpty = false := by
    cases hd : natDigits n with
    | nil => exact absurd hd (natDigits_ne_nil n)
    | cons _ _ => rfl
  simp only [hne, digitsVal_natDigits]
  have : ¬ n > 2147483647 := by omega
  simp [this]

end Updog
