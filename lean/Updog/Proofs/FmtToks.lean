/-
Token-level view of the formatter and the lexer lemma:
`lexAll (fmtExpr e ++ rest) = toksE e ++ lexAll rest` for well-formed trees.
-/
import Updog.Proofs.Quote
import Updog.Proofs.Digits
namespace Updog

/-! ### well-formedness -/

/-- a column / group-by name the lexer reads back as one `field` token -/
def validIdent : Bytes → Bool
  | [] => false
  | h :: t => isAlpha h && t.all isFieldChar

mutual
/-- well-formed expression: valid column names, non-empty AND/OR, placeholder numbers in int32 range
    (`ph = 0` means a literal value, which may be any byte string) -/
def WFE : PExpr → Prop
  | .eq c _ ph => validIdent c = true ∧ ph ≤ 2147483647
  | .not e => WFE e
  | .and es => es ≠ [] ∧ WFL es
  | .or es => es ≠ [] ∧ WFL es
def WFL : List PExpr → Prop
  | [] => True
  | e :: es => WFE e ∧ WFL es
end

/-- well-formed query -/
structure WFQ (q : PQuery) : Prop where
  expr : WFE q.expr
  fields : ∀ f ∈ q.groupBy, validIdent f = true

/-! ### a generic induction principle for `PExpr` / `List PExpr` -/

section Ind
set_option linter.unusedSectionVars false
variable {P : PExpr → Prop} {Q : List PExpr → Prop}
  (heq : ∀ c v ph, P (.eq c v ph)) (hnot : ∀ e, P e → P (.not e))
  (hand : ∀ es, Q es → P (.and es)) (hor : ∀ es, Q es → P (.or es))
  (hnil : Q []) (hcons : ∀ e es, P e → Q es → Q (e :: es))
include heq hnot hand hor hnil hcons

mutual
theorem PExpr.indE : ∀ e, P e
  | .eq c v ph => heq c v ph
  | .not e => hnot e (PExpr.indE e)
  | .and es => hand es (PExpr.indL es)
  | .or es => hor es (PExpr.indL es)
theorem PExpr.indL : ∀ es, Q es
  | [] => hnil
  | e :: es => hcons e es (PExpr.indE e) (PExpr.indL es)
end
end Ind

/-! ### parametrised chains -/

def sepTok : Bool → Tok | false => .and | true => .or
def sepBytes : Bool → Bytes | false => [32, 38, 32] | true => [32, 124, 32]
/-- `isOp false` = is an AND node, `isOp true` = is an OR node -/
def isOp : Bool → PExpr → Bool | false, e => isAnd e | true, e => isOr e
def mkOp : Bool → List PExpr → PExpr | false, es => .and es | true, es => .or es

/-- `fmtAnd` / `fmtOr` as one function -/
def fmtCh (o : Bool) : List PExpr → Bytes
  | [] => []
  | [e] => parens (isOp (!o) e) (fmtExpr e)
  | e :: es => parens (isOp (!o) e) (fmtExpr e) ++ sepBytes o ++ fmtCh o es

theorem fmtCh_single (o : Bool) (e : PExpr) : fmtCh o [e] = parens (isOp (!o) e) (fmtExpr e) := rfl
theorem fmtCh_cons2 (o : Bool) (e e' : PExpr) (es : List PExpr) :
    fmtCh o (e :: e' :: es) = parens (isOp (!o) e) (fmtExpr e) ++ sepBytes o ++ fmtCh o (e' :: es) := rfl

theorem fmtAnd_eq (es : List PExpr) : fmtAnd es = fmtCh false es := by
  induction es with
  | nil => simp [fmtAnd, fmtCh]
  | cons e es ih =>
    cases es with
    | nil => simp [fmtAnd, fmtCh, isOp]
    | cons e' es => rw [fmtAnd, ih, fmtCh_cons2]; rfl; simp

theorem fmtOr_eq (es : List PExpr) : fmtOr es = fmtCh true es := by
  induction es with
  | nil => simp [fmtOr, fmtCh]
  | cons e es ih =>
    cases es with
    | nil => simp [fmtOr, fmtCh, isOp]
    | cons e' es => rw [fmtOr, ih, fmtCh_cons2]; rfl; simp

/-! ### token-level formatter -/

def ptoks (b : Bool) (ts : List Tok) : List Tok := if b then .lparen :: ts ++ [.rparen] else ts

def leafTok (v : Bytes) (ph : Nat) : Tok :=
  if ph > 0 then .placeholder (natDigits ph) else .value (escape v)

mutual
/-- the tokens of `fmtExpr e` -/
def toksE : PExpr → List Tok
  | .eq c v ph => [.field c, .eq, leafTok v ph]
  | .not e => .not :: ptoks (isAnd e || isOr e) (toksE e)
  | .and es => toksCh false es
  | .or es => toksCh true es
/-- the tokens of `fmtCh o es` -/
def toksCh (o : Bool) : List PExpr → List Tok
  | [] => []
  | [e] => ptoks (isOp (!o) e) (toksE e)
  | e :: es => ptoks (isOp (!o) e) (toksE e) ++ sepTok o :: toksCh o es
end

theorem toksCh_single (o : Bool) (e : PExpr) : toksCh o [e] = ptoks (isOp (!o) e) (toksE e) := by
  rw [toksCh]
theorem toksCh_cons2 (o : Bool) (e e' : PExpr) (es : List PExpr) :
    toksCh o (e :: e' :: es) = ptoks (isOp (!o) e) (toksE e) ++ sepTok o :: toksCh o (e' :: es) := by
  rw [toksCh]; simp

def toksFields : List Bytes → List Tok
  | [] => []
  | [f] => [.field f]
  | f :: fs => .field f :: .comma :: toksFields fs

/-- the tokens of `fmtQuery q` (without the final `eof`) -/
def toksQ (q : PQuery) : List Tok :=
  toksE q.expr ++ (if q.groupBy.isEmpty then [] else .semi :: toksFields q.groupBy)

/-! ### lexeme lemmas -/

theorem lexAll_dropWhile (r : Bytes) : lexAll (r.dropWhile isSpace) = lexAll r := by
  cases r with
  | nil => rfl
  | cons c r =>
    by_cases h : isSpace c = true
    · rw [List.dropWhile_cons_of_pos h, lexAll.eq_2 c r]; simp [h]
    · rw [List.dropWhile_cons_of_neg h]

theorem lexAll_space (r : Bytes) : lexAll (32 :: r) = lexAll r := by
  rw [lexAll.eq_2]; simp [isSpace, lexAll_dropWhile]
theorem lexAll_lparen (r : Bytes) : lexAll (40 :: r) = .lparen :: lexAll r := by
  rw [lexAll.eq_2]; simp [isSpace]
theorem lexAll_rparen (r : Bytes) : lexAll (41 :: r) = .rparen :: lexAll r := by
  rw [lexAll.eq_2]; simp [isSpace]
theorem lexAll_and (r : Bytes) : lexAll (38 :: r) = .and :: lexAll r := by
  rw [lexAll.eq_2]; simp [isSpace]
theorem lexAll_or (r : Bytes) : lexAll (124 :: r) = .or :: lexAll r := by
  rw [lexAll.eq_2]; simp [isSpace]
theorem lexAll_not (r : Bytes) : lexAll (94 :: r) = .not :: lexAll r := by
  rw [lexAll.eq_2]; simp [isSpace]
theorem lexAll_comma (r : Bytes) : lexAll (44 :: r) = .comma :: lexAll r := by
  rw [lexAll.eq_2]; simp [isSpace]
theorem lexAll_semi (r : Bytes) : lexAll (59 :: r) = .semi :: lexAll r := by
  rw [lexAll.eq_2]; simp [isSpace]
theorem lexAll_eq (r : Bytes) : lexAll (61 :: r) = .eq :: lexAll r := by
  rw [lexAll.eq_2]; simp [isSpace]

theorem alpha_facts {h : UInt8} (ha : isAlpha h = true) :
    isSpace h = false ∧ h ≠ 40 ∧ h ≠ 41 ∧ h ≠ 38 ∧ h ≠ 124 ∧ h ≠ 94 ∧ h ≠ 44 ∧ h ≠ 59 ∧ h ≠ 61 := by
  simp only [isAlpha, isSpace, Bool.or_eq_true, Bool.and_eq_true, decide_eq_true_eq, UInt8.le_iff_toNat_le,
    ← UInt8.toNat_inj, ne_eq, Bool.or_eq_false_iff, beq_eq_false_iff_ne] at *
  simp at *
  omega

theorem lexAll_alpha {h : UInt8} (ha : isAlpha h = true) (r : Bytes) :
    lexAll (h :: r) = .field (h :: r.takeWhile isFieldChar) :: lexAll (r.dropWhile isFieldChar) := by
  obtain ⟨h0, h1, h2, h3, h4, h5, h6, h7, h8⟩ := alpha_facts ha
  rw [lexAll.eq_2]; simp [*]

theorem takeWhile_append_stop {p : UInt8 → Bool} (t rest : Bytes) (ht : t.all p = true)
    (hr : ∀ c r, rest = c :: r → p c = false) : (t ++ rest).takeWhile p = t ∧ (t ++ rest).dropWhile p = rest := by
  induction t with
  | nil =>
    cases rest with
    | nil => simp
    | cons c r => simp [hr c r rfl]
  | cons a t ih =>
    simp only [List.all_cons, Bool.and_eq_true] at ht
    simp [ht.1, ih ht.2]

/-- a valid identifier followed by a non-identifier byte is read back as one `field` token -/
theorem lexAll_identField (c rest : Bytes) (hc : validIdent c = true)
    (hr : ∀ x r, rest = x :: r → isFieldChar x = false) :
    lexAll (c ++ rest) = .field c :: lexAll rest := by
  cases c with
  | nil => simp [validIdent] at hc
  | cons h t =>
    simp only [validIdent, Bool.and_eq_true] at hc
    obtain ⟨e1, e2⟩ := takeWhile_append_stop t rest hc.2 hr
    rw [List.cons_append, lexAll_alpha hc.1, e1, e2]

/-- a quoted value followed by a non-quote byte is read back as one `value` token with the escaped body -/
theorem lexAll_value (v rest : Bytes) (hrest : ∀ r, rest ≠ 34 :: r) :
    lexAll (quoteValue v ++ rest) = .value (escape v) :: lexAll rest := by
  have hs := scanStr_escape v rest hrest
  rw [quoteValue_eq]
  simp only [List.cons_append, List.append_assoc]
  rw [lexAll.eq_2]
  simp only [isSpace, isAlpha]
  simp only [show ((34 : UInt8) == 32 || (34 : UInt8) == 10 || (34 : UInt8) == 13 || (34 : UInt8) == 9) = false by decide]
  simp
  split
  · rename_i h; rw [hs] at h; cases h
  · rename_i b r' h; rw [hs] at h; cases h; rfl

/-- `$` and decimal digits followed by a non-digit is read back as one `placeholder` token -/
theorem lexAll_placeholder (ds rest : Bytes) (hd : ds.all isDigit = true)
    (hr : ∀ x r, rest = x :: r → isDigit x = false) :
    lexAll (36 :: ds ++ rest) = .placeholder ds :: lexAll rest := by
  obtain ⟨e1, e2⟩ := takeWhile_append_stop ds rest hd hr
  rw [List.cons_append, lexAll.eq_2]
  simp [isSpace, isAlpha, e1, e2]

/-! ### the lexer inverts the formatter on well-formed trees -/

/-- what may follow a formatted expression: end of input or a space -/
def Sep (rest : Bytes) : Prop := rest = [] ∨ ∃ r, rest = 32 :: r

theorem Sep.cons32 (r : Bytes) : Sep (32 :: r) := Or.inr ⟨r, rfl⟩
theorem Sep.nil : Sep [] := Or.inl rfl

theorem Sep.notField {rest : Bytes} (h : Sep rest) : ∀ x r, rest = x :: r → isFieldChar x = false := by
  intro x r hx
  rcases h with h | ⟨r', h⟩
  · rw [h] at hx; cases hx
  · rw [h] at hx; cases hx; decide
theorem Sep.notDigit {rest : Bytes} (h : Sep rest) : ∀ x r, rest = x :: r → isDigit x = false := by
  intro x r hx
  rcases h with h | ⟨r', h⟩
  · rw [h] at hx; cases hx
  · rw [h] at hx; cases hx; decide
theorem Sep.notQuote {rest : Bytes} (h : Sep rest) : ∀ r, rest ≠ 34 :: r := by
  intro r hx
  rcases h with h | ⟨r', h⟩
  · rw [h] at hx; cases hx
  · rw [h] at hx; cases hx

/-- the lexing statement for one formatted piece -/
def LexOK (bs : Bytes) (ts : List Tok) : Prop :=
  ∀ rest, Sep rest → lexAll (bs ++ rest) = ts ++ lexAll rest

theorem LexOK.parens {bs : Bytes} {ts : List Tok} (h : LexOK bs ts) (b : Bool) :
    LexOK (parens b bs) (ptoks b ts) := by
  intro rest hr
  cases b with
  | false => simpa [Updog.parens, ptoks] using h rest hr
  | true =>
    simp only [Updog.parens, ptoks, if_true, List.cons_append, List.nil_append, List.append_assoc]
    rw [lexAll_lparen, lexAll_space, h _ (Sep.cons32 _), lexAll_space, lexAll_rparen]

theorem lexOK_leaf (c v : Bytes) (ph : Nat) (hc : validIdent c = true) :
    LexOK (fmtExpr (.eq c v ph)) (toksE (.eq c v ph)) := by
  intro rest hr
  simp only [fmtExpr, toksE, leafTok]
  split
  · simp only [List.append_assoc, List.cons_append, List.nil_append]
    rw [lexAll_identField c _ hc (by intro x r hx; cases hx; decide), lexAll_space, lexAll_eq, lexAll_space,
      ← List.cons_append, lexAll_placeholder _ _ (List.all_eq_true.mpr (natDigits_all_digit ph)) hr.notDigit]
  · simp only [List.append_assoc, List.cons_append, List.nil_append]
    rw [lexAll_identField c _ hc (by intro x r hx; cases hx; decide), lexAll_space, lexAll_eq, lexAll_space,
      lexAll_value _ _ hr.notQuote]

theorem lexOK_not (e : PExpr) (h : LexOK (fmtExpr e) (toksE e)) :
    LexOK (fmtExpr (.not e)) (toksE (.not e)) := by
  intro rest hr
  simp only [fmtExpr, toksE, List.cons_append, List.nil_append]
  rw [lexAll_not, lexAll_space, h.parens _ rest hr]

theorem lexAll_sep (o : Bool) (r : Bytes) : lexAll (sepBytes o ++ r) = sepTok o :: lexAll r := by
  cases o
  · simp only [sepBytes, sepTok, List.cons_append, List.nil_append]
    rw [lexAll_space, lexAll_and, lexAll_space]
  · simp only [sepBytes, sepTok, List.cons_append, List.nil_append]
    rw [lexAll_space, lexAll_or, lexAll_space]

theorem sep_sepBytes (o : Bool) (r : Bytes) : Sep (sepBytes o ++ r) := by
  cases o <;> exact Sep.cons32 _

theorem lexOK_cons (e : PExpr) (es : List PExpr) (h : LexOK (fmtExpr e) (toksE e))
    (hs : ∀ o, LexOK (fmtCh o es) (toksCh o es)) (o : Bool) :
    LexOK (fmtCh o (e :: es)) (toksCh o (e :: es)) := by
  cases es with
  | nil => rw [fmtCh_single, toksCh_single]; exact h.parens _
  | cons e' es =>
    intro rest hr
    rw [fmtCh_cons2, toksCh_cons2]
    simp only [List.append_assoc]
    rw [h.parens _ _ (sep_sepBytes _ _), lexAll_sep, hs o rest hr]
    simp

/-- **Lexer inverts formatter**: the tokens of formatted text are `toksE e` -/
theorem lexOK_expr : (∀ e, WFE e → LexOK (fmtExpr e) (toksE e)) ∧
    (∀ es, WFL es → ∀ o, LexOK (fmtCh o es) (toksCh o es)) := by
  have heq : ∀ c v ph, WFE (.eq c v ph) → LexOK (fmtExpr (.eq c v ph)) (toksE (.eq c v ph)) :=
    fun c v ph hw => lexOK_leaf c v ph hw.1
  have hnot : ∀ e, (WFE e → LexOK (fmtExpr e) (toksE e)) →
      WFE (.not e) → LexOK (fmtExpr (.not e)) (toksE (.not e)) :=
    fun e ih hw => lexOK_not e (ih (by simpa [WFE] using hw))
  have hand : ∀ es, (WFL es → ∀ o, LexOK (fmtCh o es) (toksCh o es)) →
      WFE (.and es) → LexOK (fmtExpr (.and es)) (toksE (.and es)) := by
    intro es ih hw; simp only [WFE] at hw; simpa [fmtExpr, toksE, fmtAnd_eq] using ih hw.2 false
  have hor : ∀ es, (WFL es → ∀ o, LexOK (fmtCh o es) (toksCh o es)) →
      WFE (.or es) → LexOK (fmtExpr (.or es)) (toksE (.or es)) := by
    intro es ih hw; simp only [WFE] at hw; simpa [fmtExpr, toksE, fmtOr_eq] using ih hw.2 true
  have hnil : WFL [] → ∀ o, LexOK (fmtCh o []) (toksCh o []) := by
    intro _ o rest _; simp [fmtCh, toksCh]
  have hcons : ∀ e es, (WFE e → LexOK (fmtExpr e) (toksE e)) →
      (WFL es → ∀ o, LexOK (fmtCh o es) (toksCh o es)) →
      WFL (e :: es) → ∀ o, LexOK (fmtCh o (e :: es)) (toksCh o (e :: es)) := by
    intro e es ihe ihs hw o; simp only [WFL] at hw; exact lexOK_cons e es (ihe hw.1) (ihs hw.2) o
  exact ⟨PExpr.indE heq hnot hand hor hnil hcons, PExpr.indL heq hnot hand hor hnil hcons⟩

theorem lexAll_nil : lexAll [] = [.eof] := by rw [lexAll]

theorem lexAll_joinFields (fs : List Bytes) (h : ∀ f ∈ fs, validIdent f = true) :
    lexAll (joinFields fs) = toksFields fs ++ [.eof] := by
  induction fs with
  | nil => simp [joinFields, toksFields, lexAll_nil]
  | cons f fs ih =>
    cases fs with
    | nil =>
      have := lexAll_identField f [] (h f List.mem_cons_self) (by intro x r hx; cases hx)
      simpa [joinFields, toksFields, lexAll_nil] using this
    | cons f' fs =>
      have ih' := ih (fun g hg => h g (List.mem_cons_of_mem _ hg))
      rw [joinFields, toksFields]
      · simp only [List.append_assoc, List.cons_append, List.nil_append]
        rw [lexAll_identField f _ (h f List.mem_cons_self) (by intro x r hx; cases hx; decide),
          lexAll_comma, lexAll_space, ih']
      · simp
      · simp

/-- the tokens of a formatted well-formed query -/
theorem lexAll_fmtQuery (q : PQuery) (hq : WFQ q) : lexAll (fmtQuery q) = toksQ q ++ [.eof] := by
  unfold fmtQuery toksQ
  cases hg : q.groupBy with
  | nil =>
    have := lexOK_expr.1 q.expr hq.expr [] Sep.nil
    simpa [lexAll_nil] using this
  | cons f fs =>
    have hf := lexAll_joinFields (f :: fs) (by rw [← hg]; exact hq.fields)
    simp only [List.isEmpty_cons, Bool.false_eq_true, if_false, List.append_assoc, List.cons_append,
      List.nil_append]
    rw [lexOK_expr.1 q.expr hq.expr _ (Sep.cons32 _), lexAll_space, lexAll_semi, lexAll_space, hf]

end Updog
