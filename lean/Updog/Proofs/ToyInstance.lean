/-
A tiny concrete instance used by the non-vacuity examples of C03 and C04: a toy hash, an index of three rows,
two expressions sharing a sub-expression. Everything here is closed and evaluated by the kernel (`decide +kernel`).
-/
import Updog.Proofs.Universe
import Updog.Proofs.Sched
namespace Updog.Toy
open Updog

instance (H : Bytes → UInt64) (S : List Bytes) : Decidable (InjOn H S) := by unfold InjOn; infer_instance
instance (H : Bytes → UInt64) (ix : Index) (P : List (Bytes × Bytes)) : Decidable (KnownAgree H ix P) := by
  unfold KnownAgree; infer_instance
instance (ix : Index) (e : Expr) : Decidable (ColsKnown ix e) := by unfold ColsKnown; infer_instance

/-- an FNV-style toy hash (any function would do; this one has no collision on the strings of the examples) -/
def toyH (b : Bytes) : UInt64 := b.foldl (fun a x => a * 1099511628211 + x.toUInt64 + 1) 14695981039346656037

/-- a hash under which all cache keys collide (their inputs have at least 9 bytes) while the value indexes of the
    examples (3-byte inputs) do not -/
def badH (b : Bytes) : UInt64 := if b.length ≥ 9 then 0 else toyH b

/-- rows `a=1,b=1`, `a=2,b=1`, `a=1,b=2` -/
def rows : List Row := [[([97], [49]), ([98], [49])], [([97], [50]), ([98], [49])], [([97], [49]), ([98], [50])]]

def tix (H : Bytes → UInt64) : Index := (Writer.addRows H {} rows).toIndex

/-- `a = 1` -/
def x : Expr := .eq [97] [49]
/-- `b = 1` -/
def y : Expr := .eq [98] [49]
/-- `a = 1 AND b = 1` -/
def e1 : Expr := .and [x, y]
/-- `a = 1 OR NOT b = 1`: shares `x` and `y` with `e1` -/
def e2 : Expr := .or [x, .not y]

def qs : List Query := [⟨e1, []⟩, ⟨e2, [[97]]⟩, ⟨e1, [[98]]⟩]

/-- a fresh LRU cache of the given capacity -/
def lru (max : Nat) : Lru := { max := max, ovh := 64 }

def sz (_ : Nat) : Nat := 8

/-- three goroutines (`e1`, `e2`, and `e1` again — they share `a=1`, `b=1`) -/
def es : List Expr := [e1, e2, e1]

/-- a schedule that interleaves them step by step and names a non-existing goroutine (7) and finished ones -/
def sched : List Nat :=
  [7, 0, 1, 1, 7, 0, 2, 1, 1, 2, 7, 0, 2, 2, 1, 0, 7, 0, 2, 0, 1, 1, 7, 0, 2, 1, 1, 2, 7, 0, 2, 2, 1, 0, 7, 0, 2]

/-- two different expressions with the same value index: column `a`, value `\0b` and column `a\0`, value `b` -/
def ea : Expr := .eq [97] [0, 98]
def eb : Expr := .eq [97, 0] [98]
def rowsAB : List Row := [[([97], [0, 98])], [([97, 0], [98])]]
def ixAB : Index := (Writer.addRows toyH {} rowsAB).toIndex

/-! ### a kernel-evaluable copy of the LRU

`evict` is defined by well-founded recursion, which the kernel does not unfold; the examples that *compute* with the
LRU go through a structurally recursive copy that is proved equal to the model. -/

def evictS (ovh max : Nat) : Nat → List Item → Nat → List Item × Nat
  | 0, items, cur => (items, cur)
  | n + 1, items, cur =>
    if h : cur > max ∧ items ≠ [] then
      evictS ovh max n items.dropLast (cur - ((items.getLast h.2).size + ovh))
    else (items, cur)

theorem evict_eq_evictS (ovh max : Nat) (items : List Item) (cur : Nat) :
    evict ovh max items cur = evictS ovh max items.length items cur := by
  fun_induction evict ovh max items cur with
  | case1 items cur h ih =>
    cases hl : items.length with
    | zero => exact absurd (List.eq_nil_of_length_eq_zero hl) h.2
    | succ n =>
      rw [evictS, dif_pos h, ih]
      congr 1
      simp [hl]
  | case2 items cur h =>
    cases hl : items.length with
    | zero => rfl
    | succ n => rw [evictS, dif_neg h]

def putS (c : Lru) (k bm size : Nat) : Lru :=
  match c.items.find? (·.key == k) with
  | some it =>
    let l := ⟨k, size, bm⟩ :: c.items.filter (·.key != k)
    let r := evictS c.ovh c.max l.length l (c.cur - it.size + size)
    { c with puts := c.puts + 1, items := r.1, cur := r.2 }
  | none =>
    let l := ⟨k, size, bm⟩ :: c.items
    let r := evictS c.ovh c.max l.length l (c.cur + size + c.ovh)
    { c with puts := c.puts + 1, items := r.1, cur := r.2 }

theorem put_eq_putS (c : Lru) (k bm size : Nat) : c.put k bm size = putS c k bm size := by
  unfold Lru.put putS
  cases c.items.find? (·.key == k) <;> simp only [evict_eq_evictS]

def lruS (sz : Nat → Nat) : CacheImpl Lru where
  get := fun c k => Lru.get c k.toNat
  put := fun c k bm => putS c k.toNat bm (sz bm)

theorem lruCacheImpl_eq_lruS (sz : Nat → Nat) : lruCacheImpl sz = lruS sz := by
  unfold lruCacheImpl lruS
  congr 1
  funext c k bm
  exact put_eq_putS c k.toNat bm (sz bm)

end Updog.Toy
