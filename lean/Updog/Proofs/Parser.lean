/-
Helper lemmas for C09: inversion ("one step") characterisations of the fuel-structured parser
functions, fuel monotonicity, soundness/completeness w.r.t. `Updog.Grammar`, lexer lemmas.
-/
import Updog.Spec.Grammar
namespace Updog
open Grammar

/-! ### one-step characterisations of the parser functions -/

theorem parseSimple_zero (ts : List Tok) : parseSimple 0 ts = none := by
  unfold parseSimple; rfl
theorem parseExpr_zero (ts : List Tok) : parseExpr 0 ts = none := by
  unfold parseExpr; rfl
theorem parseChain_zero (sep : Tok) (ts : List Tok) : parseChain 0 sep ts = none := by
  unfold parseChain; rfl

theorem parseSimple_succ_iff {f : Nat} {ts : List Tok} {e : PExpr} {r : List Tok} :
    parseSimple (f + 1) ts = some (e, r) ↔
      (∃ ts', ts = .lparen :: ts' ∧ parseExpr f ts' = some (e, .rparen :: r)) ∨
      (∃ ts' e', ts = .not :: ts' ∧ e = .not e' ∧ parseSimple f ts' = some (e', r)) ∨
      (∃ c body, ts = .field c :: .eq :: .value body :: r ∧ e = .eq c (unescape body) 0) ∨
      (∃ c ds, ts = .field c :: .eq :: .placeholder ds :: r ∧ 1 ≤ decodePlaceholder ds ∧
        e = .eq c [] (decodePlaceholder ds)) := by
  constructor
  · intro h
    unfold parseSimple at h
    split at h
    · simp at h
    · rename_i hq; cases hq
      split at h
      · simp only [Option.some.injEq, Prod.mk.injEq] at h
        obtain ⟨rfl, rfl⟩ := h
        exact .inl ⟨_, rfl, by assumption⟩
      · simp at h
    · rename_i hq; cases hq
      split at h
      · simp only [Option.some.injEq, Prod.mk.injEq] at h
        obtain ⟨rfl, rfl⟩ := h
        exact .inr (.inl ⟨_, _, rfl, rfl, by assumption⟩)
      · simp at h
    · simp only [Option.some.injEq, Prod.mk.injEq] at h
      obtain ⟨rfl, rfl⟩ := h
      exact .inr (.inr (.inl ⟨_, _, rfl, rfl⟩))
    · split at h
      · simp at h
      · simp only [Option.some.injEq, Prod.mk.injEq] at h
        obtain ⟨rfl, rfl⟩ := h
        exact .inr (.inr (.inr ⟨_, _, rfl, by omega, rfl⟩))
    · simp at h
  · rintro (⟨ts', rfl, h⟩ | ⟨ts', e', rfl, rfl, h⟩ | ⟨c, body, rfl, rfl⟩ | ⟨c, ds, rfl, h, rfl⟩)
    · simp [parseSimple, h]
    · simp [parseSimple, h]
    · simp [parseSimple]
    · simp only [parseSimple]
      rw [if_neg (by omega)]

theorem parseExpr_succ_iff {f : Nat} {ts : List Tok} {e : PExpr} {r : List Tok} :
    parseExpr (f + 1) ts = some (e, r) ↔
      (parseSimple f ts = some (e, r) ∧ r.head? ≠ some .and ∧ r.head? ≠ some .or) ∨
      (∃ e₁ r₁ es, parseSimple f ts = some (e₁, .and :: r₁) ∧
        parseChain f .and r₁ = some (es, r) ∧ e = .and (e₁ :: es)) ∨
      (∃ e₁ r₁ es, parseSimple f ts = some (e₁, .or :: r₁) ∧
        parseChain f .or r₁ = some (es, r) ∧ e = .or (e₁ :: es)) := by
  constructor
  · intro h
    unfold parseExpr at h
    split at h
    · simp at h
    · rename_i hs
      split at h
      · rename_i hc
        simp only [Option.some.injEq, Prod.mk.injEq] at h
        obtain ⟨rfl, rfl⟩ := h
        exact .inr (.inl ⟨_, _, _, hs, hc, rfl⟩)
      · simp at h
    · rename_i hs
      split at h
      · rename_i hc
        simp only [Option.some.injEq, Prod.mk.injEq] at h
        obtain ⟨rfl, rfl⟩ := h
        exact .inr (.inr ⟨_, _, _, hs, hc, rfl⟩)
      · simp at h
    · rename_i h1 h2 hs
      simp only [Option.some.injEq, Prod.mk.injEq] at h
      obtain ⟨rfl, rfl⟩ := h
      refine .inl ⟨hs, ?_, ?_⟩
      · intro hh; obtain ⟨t, ht⟩ := List.head?_eq_some_iff.mp hh; exact h1 _ ht
      · intro hh; obtain ⟨t, ht⟩ := List.head?_eq_some_iff.mp hh; exact h2 _ ht
  · rintro (⟨h, h1, h2⟩ | ⟨e₁, r₁, es, h, hc, rfl⟩ | ⟨e₁, r₁, es, h, hc, rfl⟩)
    · unfold parseExpr
      rw [h]
      split
      · rename_i hq; cases hq
      · rename_i hq; cases hq; simp at h1
      · rename_i hq; cases hq; simp at h2
      · rename_i hq; cases hq; rfl
    · simp [parseExpr, h, hc]
    · simp [parseExpr, h, hc]

theorem parseChain_succ_iff {f : Nat} {sep : Tok} {ts : List Tok} {es : List PExpr} {r : List Tok} :
    parseChain (f + 1) sep ts = some (es, r) ↔
      (∃ e, parseSimple f ts = some (e, r) ∧ r.head? ≠ some sep ∧ es = [e]) ∨
      (∃ e r₁ es', parseSimple f ts = some (e, sep :: r₁) ∧
        parseChain f sep r₁ = some (es', r) ∧ es = e :: es') := by
  constructor
  · intro h
    unfold parseChain at h
    split at h
    · simp at h
    · rename_i hs
      split at h
      · rename_i ht; subst ht
        simp only [Option.map_eq_some_iff] at h
        obtain ⟨⟨es', r'⟩, hc, h⟩ := h
        simp only [Prod.mk.injEq] at h
        obtain ⟨rfl, rfl⟩ := h
        exact .inr ⟨_, _, _, hs, hc, rfl⟩
      · rename_i ht
        simp only [Option.some.injEq, Prod.mk.injEq] at h
        obtain ⟨rfl, rfl⟩ := h
        exact .inl ⟨_, hs, by simpa using ht, rfl⟩
    · rename_i hs
      simp only [Option.some.injEq, Prod.mk.injEq] at h
      obtain ⟨rfl, rfl⟩ := h
      exact .inl ⟨_, hs, by simp, rfl⟩
  · rintro (⟨e, h, hstop, rfl⟩ | ⟨e, r₁, es', h, hc, rfl⟩)
    · unfold parseChain
      rw [h]
      cases r with
      | nil => rfl
      | cons t r' =>
        have : t ≠ sep := by simpa using hstop
        simp [this]
    · unfold parseChain
      rw [h]
      simp [hc]

/-! ### fuel monotonicity -/

theorem parse_mono_step (f : Nat) :
    (∀ ts e r, parseSimple f ts = some (e, r) → parseSimple (f + 1) ts = some (e, r)) ∧
    (∀ ts e r, parseExpr f ts = some (e, r) → parseExpr (f + 1) ts = some (e, r)) ∧
    (∀ sep ts es r, parseChain f sep ts = some (es, r) → parseChain (f + 1) sep ts = some (es, r)) := by
  induction f with
  | zero =>
    refine ⟨?_, ?_, ?_⟩
    · intro ts e r h; simp [parseSimple_zero] at h
    · intro ts e r h; simp [parseExpr_zero] at h
    · intro sep ts es r h; simp [parseChain_zero] at h
  | succ f ih =>
    obtain ⟨ihS, ihE, ihC⟩ := ih
    refine ⟨?_, ?_, ?_⟩
    · intro ts e r h
      rw [parseSimple_succ_iff] at h ⊢
      rcases h with ⟨ts', rfl, h⟩ | ⟨ts', e', rfl, rfl, h⟩ | h | h
      · exact .inl ⟨_, rfl, ihE _ _ _ h⟩
      · exact .inr (.inl ⟨_, _, rfl, rfl, ihS _ _ _ h⟩)
      · exact .inr (.inr (.inl h))
      · exact .inr (.inr (.inr h))
    · intro ts e r h
      rw [parseExpr_succ_iff] at h ⊢
      rcases h with ⟨h, h1, h2⟩ | ⟨e₁, r₁, es, h, hc, rfl⟩ | ⟨e₁, r₁, es, h, hc, rfl⟩
      · exact .inl ⟨ihS _ _ _ h, h1, h2⟩
      · exact .inr (.inl ⟨_, _, _, ihS _ _ _ h, ihC _ _ _ _ hc, rfl⟩)
      · exact .inr (.inr ⟨_, _, _, ihS _ _ _ h, ihC _ _ _ _ hc, rfl⟩)
    · intro sep ts es r h
      rw [parseChain_succ_iff] at h ⊢
      rcases h with ⟨e, h, hstop, rfl⟩ | ⟨e, r₁, es', h, hc, rfl⟩
      · exact .inl ⟨_, ihS _ _ _ h, hstop, rfl⟩
      · exact .inr ⟨_, _, _, ihS _ _ _ h, ihC _ _ _ _ hc, rfl⟩

theorem parseSimple_mono {f g : Nat} (hfg : f ≤ g) {ts : List Tok} {e : PExpr} {r : List Tok}
    (h : parseSimple f ts = some (e, r)) : parseSimple g ts = some (e, r) := by
  induction hfg with
  | refl => exact h
  | step _ ih => exact (parse_mono_step _).1 _ _ _ ih

theorem parseExpr_mono {f g : Nat} (hfg : f ≤ g) {ts : List Tok} {e : PExpr} {r : List Tok}
    (h : parseExpr f ts = some (e, r)) : parseExpr g ts = some (e, r) := by
  induction hfg with
  | refl => exact h
  | step _ ih => exact (parse_mono_step _).2.1 _ _ _ ih

theorem parseChain_mono {f g : Nat} (hfg : f ≤ g) {sep : Tok} {ts : List Tok} {es : List PExpr}
    {r : List Tok} (h : parseChain f sep ts = some (es, r)) : parseChain g sep ts = some (es, r) := by
  induction hfg with
  | refl => exact h
  | step _ ih => exact (parse_mono_step _).2.2 _ _ _ _ ih

/-! ### soundness: every successful parse is a derivation of the grammar -/

theorem parse_sound_all (f : Nat) :
    (∀ ts e r, parseSimple f ts = some (e, r) → Simple ts e r) ∧
    (∀ ts e r, parseExpr f ts = some (e, r) → Expr ts e r) ∧
    (∀ sep ts es r, parseChain f sep ts = some (es, r) → Chain sep ts es r) := by
  induction f with
  | zero =>
    refine ⟨?_, ?_, ?_⟩
    · intro ts e r h; simp [parseSimple_zero] at h
    · intro ts e r h; simp [parseExpr_zero] at h
    · intro sep ts es r h; simp [parseChain_zero] at h
  | succ f ih =>
    obtain ⟨ihS, ihE, ihC⟩ := ih
    refine ⟨?_, ?_, ?_⟩
    · intro ts e r h
      rw [parseSimple_succ_iff] at h
      rcases h with ⟨ts', rfl, h⟩ | ⟨ts', e', rfl, rfl, h⟩ | ⟨c, body, rfl, rfl⟩ | ⟨c, ds, rfl, h, rfl⟩
      · exact .group (ihE _ _ _ h)
      · exact .not (ihS _ _ _ h)
      · exact .cmpValue _ _ _
      · exact .cmpPlaceholder _ _ _ h
    · intro ts e r h
      rw [parseExpr_succ_iff] at h
      rcases h with ⟨h, h1, h2⟩ | ⟨e₁, r₁, es, h, hc, rfl⟩ | ⟨e₁, r₁, es, h, hc, rfl⟩
      · exact .single (ihS _ _ _ h) h1 h2
      · exact .and (ihS _ _ _ h) (ihC _ _ _ _ hc)
      · exact .or (ihS _ _ _ h) (ihC _ _ _ _ hc)
    · intro sep ts es r h
      rw [parseChain_succ_iff] at h
      rcases h with ⟨e, h, hstop, rfl⟩ | ⟨e, r₁, es', h, hc, rfl⟩
      · exact .last (ihS _ _ _ h) hstop
      · exact .more (ihS _ _ _ h) (ihC _ _ _ _ hc)

/-! ### every phrase is non-empty: the remainder is strictly shorter -/

mutual
theorem Grammar.Simple.length_lt {ts : List Tok} {e : PExpr} {r : List Tok} :
    Simple ts e r → r.length < ts.length
  | .cmpValue _ _ _ => by simp only [List.length_cons]; omega
  | .cmpPlaceholder _ _ _ _ => by simp only [List.length_cons]; omega
  | .not h => by have := h.length_lt; simp; omega
  | .group h => by have := h.length_lt; simp at this ⊢; omega
theorem Grammar.Chain.length_lt {sep : Tok} {ts : List Tok} {es : List PExpr} {r : List Tok} :
    Chain sep ts es r → r.length < ts.length
  | .last h _ => h.length_lt
  | .more h hc => by have := h.length_lt; have := hc.length_lt; simp at *; omega
theorem Grammar.Expr.length_lt {ts : List Tok} {e : PExpr} {r : List Tok} :
    Expr ts e r → r.length < ts.length
  | .single h _ _ => h.length_lt
  | .and h hc => by have := h.length_lt; have := hc.length_lt; simp at *; omega
  | .or h hc => by have := h.length_lt; have := hc.length_lt; simp at *; omega
end

/-! ### completeness with an explicit fuel bound

A simple-expr that consumes `n` tokens is parsed with any fuel `≥ n`; an expr / chain that consumes
`n` tokens is parsed with any fuel `≥ n + 1`.  (Stated additively to avoid subtraction.) -/

mutual
theorem Grammar.Simple.parse {ts : List Tok} {e : PExpr} {r : List Tok} :
    Simple ts e r → ∀ f, ts.length ≤ f + r.length → parseSimple f ts = some (e, r)
  | .cmpValue c body r => by
    intro f hf
    simp only [List.length_cons] at hf
    obtain ⟨f, rfl⟩ : ∃ f', f = f' + 1 := ⟨f - 1, by omega⟩
    exact parseSimple_succ_iff.mpr (.inr (.inr (.inl ⟨_, _, rfl, rfl⟩)))
  | .cmpPlaceholder c ds r h => by
    intro f hf
    simp only [List.length_cons] at hf
    obtain ⟨f, rfl⟩ : ∃ f', f = f' + 1 := ⟨f - 1, by omega⟩
    exact parseSimple_succ_iff.mpr (.inr (.inr (.inr ⟨_, _, rfl, h, rfl⟩)))
  | .not (ts := ts') h => by
    intro f hf
    have hl := h.length_lt
    simp only [List.length_cons] at hf
    obtain ⟨f, rfl⟩ : ∃ f', f = f' + 1 := ⟨f - 1, by omega⟩
    exact parseSimple_succ_iff.mpr (.inr (.inl ⟨_, _, rfl, rfl, h.parse f (by omega)⟩))
  | .group (ts := ts') h => by
    intro f hf
    have hl := h.length_lt
    simp only [List.length_cons] at hf hl
    obtain ⟨f, rfl⟩ : ∃ f', f = f' + 1 := ⟨f - 1, by omega⟩
    exact parseSimple_succ_iff.mpr (.inl ⟨_, rfl, h.parse f (by simp only [List.length_cons]; omega)⟩)
theorem Grammar.Chain.parse {sep : Tok} {ts : List Tok} {es : List PExpr} {r : List Tok} :
    Chain sep ts es r → ∀ f, ts.length + 1 ≤ f + r.length → parseChain f sep ts = some (es, r)
  | .last h hstop => by
    intro f hf
    have hl := h.length_lt
    obtain ⟨f, rfl⟩ : ∃ f', f = f' + 1 := ⟨f - 1, by omega⟩
    exact parseChain_succ_iff.mpr (.inl ⟨_, h.parse f (by omega), hstop, rfl⟩)
  | .more h hc => by
    intro f hf
    have hl := h.length_lt
    have hl' := hc.length_lt
    simp only [List.length_cons] at hl
    obtain ⟨f, rfl⟩ : ∃ f', f = f' + 1 := ⟨f - 1, by omega⟩
    exact parseChain_succ_iff.mpr (.inr ⟨_, _, _,
      h.parse f (by simp only [List.length_cons]; omega), hc.parse f (by omega), rfl⟩)
theorem Grammar.Expr.parse {ts : List Tok} {e : PExpr} {r : List Tok} :
    Expr ts e r → ∀ f, ts.length + 1 ≤ f + r.length → parseExpr f ts = some (e, r)
  | .single h h1 h2 => by
    intro f hf
    have hl := h.length_lt
    obtain ⟨f, rfl⟩ : ∃ f', f = f' + 1 := ⟨f - 1, by omega⟩
    exact parseExpr_succ_iff.mpr (.inl ⟨h.parse f (by omega), h1, h2⟩)
  | .and h hc => by
    intro f hf
    have hl := h.length_lt
    have hl' := hc.length_lt
    simp only [List.length_cons] at hl
    obtain ⟨f, rfl⟩ : ∃ f', f = f' + 1 := ⟨f - 1, by omega⟩
    exact parseExpr_succ_iff.mpr (.inr (.inl ⟨_, _, _,
      h.parse f (by simp only [List.length_cons]; omega), hc.parse f (by omega), rfl⟩))
  | .or h hc => by
    intro f hf
    have hl := h.length_lt
    have hl' := hc.length_lt
    simp only [List.length_cons] at hl
    obtain ⟨f, rfl⟩ : ∃ f', f = f' + 1 := ⟨f - 1, by omega⟩
    exact parseExpr_succ_iff.mpr (.inr (.inr ⟨_, _, _,
      h.parse f (by simp only [List.length_cons]; omega), hc.parse f (by omega), rfl⟩))
end

/-! ### field lists -/

theorem parseFieldsRest_sound {ts : List Tok} {fs : List Bytes} {r : List Tok}
    (h : parseFieldsRest ts = some (fs, r)) : FieldsRest ts fs r := by
  fun_induction parseFieldsRest ts generalizing fs r with
  | case1 c ts ih =>
    simp only [Option.map_eq_some_iff] at h
    obtain ⟨⟨fs', r'⟩, h1, h2⟩ := h
    simp only [Prod.mk.injEq] at h2
    obtain ⟨rfl, rfl⟩ := h2
    exact .more (ih h1)
  | case2 => simp at h
  | case3 ts h1 h2 =>
    simp only [Option.some.injEq, Prod.mk.injEq] at h
    obtain ⟨rfl, rfl⟩ := h
    refine .done ?_
    intro hh
    obtain ⟨t, rfl⟩ := List.head?_eq_some_iff.mp hh
    cases t with
    | nil => exact h2 _ rfl
    | cons x t => cases x <;> first | exact h2 _ rfl | exact h1 _ _ rfl

theorem Grammar.FieldsRest.parse {ts : List Tok} {fs : List Bytes} {r : List Tok}
    (h : FieldsRest ts fs r) : parseFieldsRest ts = some (fs, r) := by
  induction h with
  | @done r hstop =>
    unfold parseFieldsRest
    split
    · simp at hstop
    · simp at hstop
    · rfl
  | more h ih => simp [parseFieldsRest, ih]

theorem parseFieldList_iff {ts : List Tok} {fs : List Bytes} {r : List Tok} :
    parseFieldList ts = some (fs, r) ↔ FieldList ts fs r := by
  constructor
  · intro h
    unfold parseFieldList at h
    split at h
    · simp only [Option.map_eq_some_iff] at h
      obtain ⟨⟨fs', r'⟩, h1, h2⟩ := h
      simp only [Prod.mk.injEq] at h2
      obtain ⟨rfl, rfl⟩ := h2
      exact .mk (parseFieldsRest_sound h1)
    · simp at h
  · rintro ⟨h⟩
    simp [parseFieldList, h.parse]

/-! ### whole queries -/

theorem parseToks_iff {ts : List Tok} {q : PQuery} : parseToks ts = some q ↔ Sentence ts q := by
  constructor
  · intro h
    unfold parseToks at h
    split at h
    · simp at h
    · rename_i e r he
      split at h
      · rename_i fs hf
        simp only [Option.some.injEq] at h
        subst h
        exact .grouped ((parse_sound_all _).2.1 _ _ _ he) (parseFieldList_iff.mp hf)
      · simp at h
    · rename_i e he
      simp only [Option.some.injEq] at h
      subst h
      exact .plain ((parse_sound_all _).2.1 _ _ _ he)
    · simp at h
  · intro h
    cases h with
    | plain h =>
      have := h.parse (ts.length + 1) (by omega)
      simp [parseToks, this]
    | grouped h hf =>
      have := h.parse (ts.length + 1) (by omega)
      simp [parseToks, this, parseFieldList_iff.mpr hf]

/-! ### a phrase is a prefix of the token list -/

mutual
theorem Grammar.Simple.suffix {ts : List Tok} {e : PExpr} {r : List Tok} :
    Simple ts e r → ∃ pre, ts = pre ++ r
  | .cmpValue c body r => ⟨[.field c, .eq, .value body], rfl⟩
  | .cmpPlaceholder c ds r _ => ⟨[.field c, .eq, .placeholder ds], rfl⟩
  | .not h => by obtain ⟨pre, rfl⟩ := h.suffix; exact ⟨.not :: pre, rfl⟩
  | .group h => by obtain ⟨pre, rfl⟩ := h.suffix; exact ⟨.lparen :: (pre ++ [.rparen]), by simp⟩
theorem Grammar.Chain.suffix {sep : Tok} {ts : List Tok} {es : List PExpr} {r : List Tok} :
    Chain sep ts es r → ∃ pre, ts = pre ++ r
  | .last h _ => h.suffix
  | .more h hc => by
    obtain ⟨p₁, rfl⟩ := h.suffix; obtain ⟨p₂, rfl⟩ := hc.suffix
    exact ⟨p₁ ++ sep :: p₂, by simp⟩
theorem Grammar.Expr.suffix {ts : List Tok} {e : PExpr} {r : List Tok} :
    Expr ts e r → ∃ pre, ts = pre ++ r
  | .single h _ _ => h.suffix
  | .and h hc => by
    obtain ⟨p₁, rfl⟩ := h.suffix; obtain ⟨p₂, rfl⟩ := hc.suffix
    exact ⟨p₁ ++ .and :: p₂, by simp⟩
  | .or h hc => by
    obtain ⟨p₁, rfl⟩ := h.suffix; obtain ⟨p₂, rfl⟩ := hc.suffix
    exact ⟨p₁ ++ .or :: p₂, by simp⟩
end

theorem Grammar.FieldsRest.suffix {ts : List Tok} {fs : List Bytes} {r : List Tok}
    (h : FieldsRest ts fs r) : ∃ pre, ts = pre ++ r := by
  induction h with
  | done _ => exact ⟨[], rfl⟩
  | @more c ts fs r _ ih => obtain ⟨pre, rfl⟩ := ih; exact ⟨.comma :: .field c :: pre, rfl⟩

/-- a sentence is a whole token stream ending in the `eof` item -/
theorem Grammar.Sentence.getLast {ts : List Tok} {q : PQuery} (h : Sentence ts q) :
    ts.getLast? = some .eof := by
  cases h with
  | plain h => obtain ⟨pre, rfl⟩ := h.suffix; simp
  | grouped h hf =>
    obtain ⟨pre, rfl⟩ := h.suffix
    cases hf with
    | @mk c _ _ _ hf =>
      obtain ⟨pre', rfl⟩ := hf.suffix
      have : pre ++ Tok.semi :: Tok.field c :: (pre' ++ [Tok.eof]) =
          (pre ++ Tok.semi :: Tok.field c :: pre') ++ [Tok.eof] := by simp
      rw [this, List.getLast?_concat]

/-! ### `scanStr` accepts exactly `{ string-character } '"'` (greedy) -/

theorem scanStr_body {b rest : Bytes} (hb : StrBody b) (hr : rest.head? ≠ some 34) :
    scanStr (b ++ 34 :: rest) = some (b, rest) := by
  induction hb with
  | nil =>
    rw [List.nil_append, scanStr]
    intro r h; subst h; simp at hr
  | @char x b hx h ih =>
    rw [List.cons_append, scanStr, ih]
    · rfl
    · intro r h _; exact hx h
    · exact hx
  | @quote b h ih =>
    rw [List.cons_append, List.cons_append, scanStr, ih]; rfl

theorem scanStr_some {s b r : Bytes} (h : scanStr s = some (b, r)) :
    s = b ++ 34 :: r ∧ StrBody b ∧ r.head? ≠ some 34 := by
  fun_induction scanStr s generalizing b r with
  | case1 => simp at h
  | case2 r' ih =>
    simp only [Option.map_eq_some_iff] at h
    obtain ⟨⟨b', r''⟩, h1, h2⟩ := h
    simp only [Prod.mk.injEq] at h2
    obtain ⟨rfl, rfl⟩ := h2
    obtain ⟨rfl, hb, hr⟩ := ih h1
    exact ⟨rfl, .quote hb, hr⟩
  | case3 r' hne =>
    simp only [Option.some.injEq, Prod.mk.injEq] at h
    obtain ⟨rfl, rfl⟩ := h
    refine ⟨rfl, .nil, ?_⟩
    intro hh
    obtain ⟨t, rfl⟩ := List.head?_eq_some_iff.mp hh
    exact hne _ rfl
  | case4 x r' h1 h2 ih =>
    simp only [Option.map_eq_some_iff] at h
    obtain ⟨⟨b', r''⟩, h3, h4⟩ := h
    simp only [Prod.mk.injEq] at h4
    obtain ⟨rfl, rfl⟩ := h4
    obtain ⟨rfl, hb, hr⟩ := ih h3
    exact ⟨rfl, .char h2 hb, hr⟩

theorem scanStr_some_iff {s b r : Bytes} :
    scanStr s = some (b, r) ↔ s = b ++ 34 :: r ∧ StrBody b ∧ r.head? ≠ some 34 :=
  ⟨scanStr_some, fun ⟨hs, hb, hr⟩ => hs ▸ scanStr_body hb hr⟩

theorem scanStr_none_iff {s : Bytes} :
    scanStr s = none ↔ ¬ ∃ b r, s = b ++ 34 :: r ∧ StrBody b ∧ r.head? ≠ some 34 := by
  constructor
  · rintro h ⟨b, r, hs⟩
    rw [scanStr_some_iff.mpr hs] at h; cases h
  · intro h
    cases hs : scanStr s with
    | none => rfl
    | some br => exact absurd ⟨br.1, br.2, scanStr_some hs⟩ h

/-- a well-escaped body without closing quote is an unterminated string -/
theorem scanStr_unterminated {b : Bytes} (hb : StrBody b) : scanStr b = none := by
  induction hb with
  | nil => rfl
  | @char x b hx h ih =>
    rw [scanStr, ih]
    · rfl
    · intro r h _; exact hx h
    · exact hx
  | @quote b h ih => rw [scanStr, ih]; rfl

/-! ### `unescape` -/

theorem unescape_append {a : Bytes} (ha : StrBody a) (b : Bytes) :
    unescape (a ++ b) = unescape a ++ unescape b := by
  induction ha with
  | nil => simp [unescape]
  | @char x a hx h ih =>
    rw [List.cons_append, unescape, unescape, ih]
    · rfl
    · intro r h _; exact hx h
    · intro r h _; exact hx h
  | @quote a h ih =>
    rw [List.cons_append, List.cons_append, unescape, unescape, ih]; rfl

theorem strBody_of_noquote {a : Bytes} (h : (34 : UInt8) ∉ a) : StrBody a := by
  induction a with
  | nil => exact .nil
  | cons x a ih =>
    simp only [List.mem_cons, not_or] at h
    exact .char (fun hx => h.1 hx.symm) (ih h.2)

theorem unescape_noquote {a : Bytes} (h : (34 : UInt8) ∉ a) : unescape a = a := by
  induction a with
  | nil => rfl
  | cons x a ih =>
    simp only [List.mem_cons, not_or] at h
    rw [unescape, ih h.2]
    intro r hx _; exact h.1 hx.symm

/-! ### the lexer, lexeme by lexeme -/

theorem lexAll_nil : lexAll [] = [.eof] := by rw [lexAll]

theorem lexAll_lparen (rest : Bytes) : lexAll (40 :: rest) = .lparen :: lexAll rest := by
  rw [lexAll]; simp +decide only [↓reduceIte]
theorem lexAll_rparen (rest : Bytes) : lexAll (41 :: rest) = .rparen :: lexAll rest := by
  rw [lexAll]; simp +decide only [↓reduceIte]
theorem lexAll_and (rest : Bytes) : lexAll (38 :: rest) = .and :: lexAll rest := by
  rw [lexAll]; simp +decide only [↓reduceIte]
theorem lexAll_or (rest : Bytes) : lexAll (124 :: rest) = .or :: lexAll rest := by
  rw [lexAll]; simp +decide only [↓reduceIte]
theorem lexAll_not (rest : Bytes) : lexAll (94 :: rest) = .not :: lexAll rest := by
  rw [lexAll]; simp +decide only [↓reduceIte]
theorem lexAll_comma (rest : Bytes) : lexAll (44 :: rest) = .comma :: lexAll rest := by
  rw [lexAll]; simp +decide only [↓reduceIte]
theorem lexAll_semi (rest : Bytes) : lexAll (59 :: rest) = .semi :: lexAll rest := by
  rw [lexAll]; simp +decide only [↓reduceIte]
theorem lexAll_eq (rest : Bytes) : lexAll (61 :: rest) = .eq :: lexAll rest := by
  rw [lexAll]; simp +decide only [↓reduceIte]

theorem lexAll_space {c : UInt8} (h : isSpace c = true) (rest : Bytes) :
    lexAll (c :: rest) = lexAll (rest.dropWhile isSpace) := by
  rw [lexAll]; simp only [h, ↓reduceIte]

theorem lexAll_dropSpace (s : Bytes) : lexAll (s.dropWhile isSpace) = lexAll s := by
  cases s with
  | nil => rfl
  | cons c rest =>
    by_cases h : isSpace c = true
    · rw [List.dropWhile_cons_of_pos h, lexAll_space h]
    · rw [List.dropWhile_cons_of_neg h]

/-- white space between lexemes is skipped -/
theorem lexAll_spaces {ws : Bytes} (h : ∀ x ∈ ws, isSpace x = true) (rest : Bytes) :
    lexAll (ws ++ rest) = lexAll rest := by
  rw [← lexAll_dropSpace (ws ++ rest), List.dropWhile_append_of_pos h, lexAll_dropSpace]

theorem isAlpha_facts {c : UInt8} (h : isAlpha c = true) :
    isSpace c = false ∧ c ≠ 40 ∧ c ≠ 41 ∧ c ≠ 38 ∧ c ≠ 124 ∧ c ≠ 94 ∧ c ≠ 44 ∧ c ≠ 59 ∧ c ≠ 61 := by
  simp only [isAlpha, isSpace, Bool.or_eq_true, Bool.and_eq_true, decide_eq_true_eq,
    UInt8.le_iff_toNat_le, Bool.or_eq_false_iff, beq_eq_false_iff_ne, ne_eq,
    ← UInt8.toNat_inj] at h ⊢
  simp at h ⊢
  omega

theorem lexAll_field_raw {c : UInt8} (h : isAlpha c = true) (rest : Bytes) :
    lexAll (c :: rest) =
      .field (c :: rest.takeWhile isFieldChar) :: lexAll (rest.dropWhile isFieldChar) := by
  obtain ⟨h0, h1, h2, h3, h4, h5, h6, h7, h8⟩ := isAlpha_facts h
  rw [lexAll]
  simp only [h0, h1, h2, h3, h4, h5, h6, h7, h8, h, beq_iff_eq, Bool.false_eq_true, ↓reduceIte]

theorem takeWhile_append_stop {p : UInt8 → Bool} {cs rest : Bytes} (hcs : ∀ x ∈ cs, p x = true)
    (hrest : ∀ x, rest.head? = some x → p x = false) : (cs ++ rest).takeWhile p = cs := by
  rw [List.takeWhile_append_of_pos hcs]
  cases rest with
  | nil => simp
  | cons x r => rw [List.takeWhile_cons_of_neg (by simp [hrest x rfl])]; simp

theorem dropWhile_append_stop {p : UInt8 → Bool} {cs rest : Bytes} (hcs : ∀ x ∈ cs, p x = true)
    (hrest : ∀ x, rest.head? = some x → p x = false) : (cs ++ rest).dropWhile p = rest := by
  rw [List.dropWhile_append_of_pos hcs]
  cases rest with
  | nil => simp
  | cons x r => rw [List.dropWhile_cons_of_neg (by simp [hrest x rfl])]

/-- identifiers: a letter followed by the longest run of letters, digits and `_` -/
theorem lexAll_field {c : UInt8} {cs rest : Bytes} (hc : isAlpha c = true)
    (hcs : ∀ x ∈ cs, isFieldChar x = true)
    (hrest : ∀ x, rest.head? = some x → isFieldChar x = false) :
    lexAll (c :: cs ++ rest) = .field (c :: cs) :: lexAll rest := by
  rw [List.cons_append, lexAll_field_raw hc, takeWhile_append_stop hcs hrest,
    dropWhile_append_stop hcs hrest]

theorem lexAll_quote_some {rest b r : Bytes} (h : scanStr rest = some (b, r)) :
    lexAll (34 :: rest) = .value b :: lexAll r := by
  rw [lexAll]
  simp +decide only [↓reduceIte]
  split
  · rename_i h'; rw [h] at h'; cases h'
  · rename_i h'; rw [h] at h'; cases h'; rfl

theorem lexAll_quote_none {rest : Bytes} (h : scanStr rest = none) :
    lexAll (34 :: rest) = [.error] := by
  rw [lexAll]
  simp +decide only [↓reduceIte]
  split
  · rfl
  · rename_i h'; rw [h] at h'; cases h'

/-- string literals: `"` body `"` where every quote inside the body is doubled and the closing
    quote is not followed by another quote; the item carries the still-escaped body -/
theorem lexAll_value {body rest : Bytes} (hb : StrBody body) (hr : rest.head? ≠ some 34) :
    lexAll (34 :: body ++ 34 :: rest) = .value body :: lexAll rest := by
  rw [List.cons_append]; exact lexAll_quote_some (scanStr_body hb hr)

theorem lexAll_placeholder_raw (rest : Bytes) :
    lexAll (36 :: rest) =
      .placeholder (rest.takeWhile isDigit) :: lexAll (rest.dropWhile isDigit) := by
  rw [lexAll]; simp +decide only [↓reduceIte]

/-- placeholders: `$` followed by the longest (possibly empty) run of digits -/
theorem lexAll_placeholder {ds rest : Bytes} (hds : ∀ x ∈ ds, isDigit x = true)
    (hrest : ∀ x, rest.head? = some x → isDigit x = false) :
    lexAll (36 :: ds ++ rest) = .placeholder ds :: lexAll rest := by
  rw [List.cons_append, lexAll_placeholder_raw, takeWhile_append_stop hds hrest,
    dropWhile_append_stop hds hrest]

/-- any other byte stops the lexer with an error item -/
theorem lexAll_unknown {c : UInt8} (rest : Bytes) (h0 : isSpace c = false)
    (h1 : c ∉ [40, 41, 38, 124, 94, 44, 59, 61, 34, 36]) (h2 : isAlpha c = false) :
    lexAll (c :: rest) = [.error] := by
  simp only [List.mem_cons, List.not_mem_nil, or_false, not_or] at h1
  obtain ⟨a1, a2, a3, a4, a5, a6, a7, a8, a9, a10⟩ := h1
  rw [lexAll]
  simp only [h0, h2, a1, a2, a3, a4, a5, a6, a7, a8, a9, a10, beq_iff_eq, Bool.false_eq_true,
    ↓reduceIte]

/-! ### the item stream ends with exactly one terminal item -/

def Tok.isTerminal : Tok → Bool
  | .eof | .error => true
  | _ => false

/-- non-empty, last item terminal (`eof` / `error`), no earlier item terminal -/
def TermShape (l : List Tok) : Prop :=
  ∃ pre t, l = pre ++ [t] ∧ t.isTerminal = true ∧ ∀ x ∈ pre, x.isTerminal = false

theorem TermShape.cons {x : Tok} {l : List Tok} (hx : x.isTerminal = false) (h : TermShape l) :
    TermShape (x :: l) := by
  obtain ⟨pre, t, rfl, ht, hpre⟩ := h
  refine ⟨x :: pre, t, rfl, ht, ?_⟩
  intro y hy
  rcases List.mem_cons.mp hy with rfl | hy
  · exact hx
  · exact hpre y hy

theorem lexAll_termShape (s : Bytes) : TermShape (lexAll s) := by
  fun_induction lexAll s with
  | case1 => exact ⟨[], .eof, rfl, rfl, by simp⟩
  | case2 _ _ _ ih => exact ih
  | case3 _ _ _ _ ih => exact ih.cons rfl
  | case4 _ _ _ _ _ ih => exact ih.cons rfl
  | case5 _ _ _ _ _ _ ih => exact ih.cons rfl
  | case6 _ _ _ _ _ _ _ ih => exact ih.cons rfl
  | case7 _ _ _ _ _ _ _ _ ih => exact ih.cons rfl
  | case8 _ _ _ _ _ _ _ _ _ ih => exact ih.cons rfl
  | case9 _ _ _ _ _ _ _ _ _ _ ih => exact ih.cons rfl
  | case10 _ _ _ _ _ _ _ _ _ _ _ ih => exact ih.cons rfl
  | case11 _ _ _ _ _ _ _ _ _ _ _ _ ih => exact ih.cons rfl
  | case12 => exact ⟨[], .error, rfl, rfl, by simp⟩
  | case13 => rename_i ih; exact ih.cons rfl
  | case14 => rename_i ih; exact ih.cons rfl
  | case15 => exact ⟨[], .error, rfl, rfl, by simp⟩

/-! ### determinism of the grammar (via the parser) -/

theorem Grammar.Simple.unique {ts : List Tok} {e e' : PExpr} {r r' : List Tok}
    (h : Simple ts e r) (h' : Simple ts e' r') : e = e' ∧ r = r' := by
  have h1 := h.parse ts.length (by omega)
  have h2 := h'.parse ts.length (by omega)
  rw [h1] at h2
  simpa using h2

theorem Grammar.Expr.unique {ts : List Tok} {e e' : PExpr} {r r' : List Tok}
    (h : Expr ts e r) (h' : Expr ts e' r') : e = e' ∧ r = r' := by
  have h1 := h.parse (ts.length + 1) (by omega)
  have h2 := h'.parse (ts.length + 1) (by omega)
  rw [h1] at h2
  simpa using h2

theorem Grammar.Chain.unique {sep : Tok} {ts : List Tok} {es es' : List PExpr} {r r' : List Tok}
    (h : Chain sep ts es r) (h' : Chain sep ts es' r') : es = es' ∧ r = r' := by
  have h1 := h.parse (ts.length + 1) (by omega)
  have h2 := h'.parse (ts.length + 1) (by omega)
  rw [h1] at h2
  simpa using h2

theorem Grammar.Sentence.unique {ts : List Tok} {q q' : PQuery}
    (h : Sentence ts q) (h' : Sentence ts q') : q = q' := by
  have h1 := parseToks_iff.mpr h
  have h2 := parseToks_iff.mpr h'
  rw [h1] at h2
  simpa using h2

/-- a chain never stops in front of its own separator -/
theorem Grammar.Chain.stop {sep : Tok} {ts : List Tok} {es : List PExpr} {r : List Tok} :
    Chain sep ts es r → r.head? ≠ some sep
  | .last _ hstop => hstop
  | .more _ hc => hc.stop

theorem Grammar.Chain.ne_nil {sep : Tok} {ts : List Tok} {es : List PExpr} {r : List Tok}
    (h : Chain sep ts es r) : es ≠ [] := by
  cases h <;> simp

/-! ### chains of simple phrases -/

theorem chain_of_phrases (sep : Tok) {r : List Tok} (hr : r.head? ≠ some sep)
    (ps : List (List Tok × PExpr)) (hps : ∀ x ∈ ps, SimplePhrase x.1 x.2)
    (x : List Tok × PExpr) (hx : SimplePhrase x.1 x.2) :
    Chain sep (x.1 ++ ps.flatMap (fun y => sep :: y.1) ++ r) (x.2 :: ps.map (·.2)) r := by
  induction ps generalizing x with
  | nil => simpa using Chain.last (hx r) hr
  | cons y ps ih =>
    have hy := hps y (by simp)
    have ih' := ih (fun z hz => hps z (by simp [hz])) y hy
    have := Chain.more (hx _) ih'
    simpa [List.append_assoc] using this

/-! ### placeholders -/

theorem digitsVal_snoc (ds : Bytes) (d : UInt8) :
    digitsVal (ds ++ [d]) = digitsVal ds * 10 + (d.toNat - 48) := by
  simp [digitsVal, List.foldl_append]

theorem decodePlaceholder_nil : decodePlaceholder [] = 0 := rfl

theorem decodePlaceholder_big {ds : Bytes} (h : 2147483647 < digitsVal ds) :
    decodePlaceholder ds = 0 := by
  simp [decodePlaceholder, h]

theorem decodePlaceholder_le (ds : Bytes) : decodePlaceholder ds ≤ 2147483647 := by
  unfold decodePlaceholder
  split
  · omega
  · simp only []
    split <;> omega

theorem decodePlaceholder_eq {ds : Bytes} (h1 : ds ≠ []) (h2 : digitsVal ds ≤ 2147483647) :
    decodePlaceholder ds = digitsVal ds := by
  have : ds.isEmpty = false := by cases ds <;> simp_all
  simp [decodePlaceholder, this]
  omega

theorem decodePlaceholder_pos_iff {ds : Bytes} :
    1 ≤ decodePlaceholder ds ↔ ds ≠ [] ∧ 1 ≤ digitsVal ds ∧ digitsVal ds ≤ 2147483647 := by
  constructor
  · intro h
    have h1 : ds ≠ [] := by rintro rfl; simp [decodePlaceholder_nil] at h
    have h2 : digitsVal ds ≤ 2147483647 := by
      apply Nat.le_of_not_lt; intro hb; rw [decodePlaceholder_big hb] at h; omega
    rw [decodePlaceholder_eq h1 h2] at h
    exact ⟨h1, h, h2⟩
  · rintro ⟨h1, h2, h3⟩
    rw [decodePlaceholder_eq h1 h3]; exact h2

/-! ### every n-ary node has at least two operands -/

mutual
theorem Grammar.Simple.nary2 {ts : List Tok} {e : PExpr} {r : List Tok} :
    Simple ts e r → nary2 e = true
  | .cmpValue _ _ _ => by simp [Grammar.nary2]
  | .cmpPlaceholder _ _ _ _ => by simp [Grammar.nary2]
  | .not h => by simpa [Grammar.nary2] using h.nary2
  | .group h => h.nary2
theorem Grammar.Chain.nary2 {sep : Tok} {ts : List Tok} {es : List PExpr} {r : List Tok} :
    Chain sep ts es r → nary2List es = true ∧ 1 ≤ es.length
  | .last h _ => by simp [nary2List, h.nary2]
  | .more h hc => by simp [nary2List, h.nary2, hc.nary2.1]
theorem Grammar.Expr.nary2 {ts : List Tok} {e : PExpr} {r : List Tok} :
    Expr ts e r → nary2 e = true
  | .single h _ _ => h.nary2
  | .and h hc => by
    have := hc.nary2
    simp [Grammar.nary2, nary2List, h.nary2, this.1]; omega
  | .or h hc => by
    have := hc.nary2
    simp [Grammar.nary2, nary2List, h.nary2, this.1]; omega
end
