/-
Helper lemmas for Props/C01Getters.lean: the preload loop as a function of the image, the writer's image,
distinct keys of the writer's value map, and the generic group-by step over a concrete getter.
-/
import Updog.Model.Getters
import Updog.Proofs.BoltTx
namespace Updog

/-! ### images -/

theorem Image.get_eq_none_of_not_mem (img : Image) (h : UInt64) (hn : h ∉ img.keys) : img.get h = none := by
  induction img with
  | nil => rfl
  | cons p rest ih =>
    obtain ⟨k, v⟩ := p
    simp only [Image.keys, List.map_cons, List.mem_cons, not_or] at hn
    have hk' : ¬ k = h := fun e => hn.1 e.symm
    have hk : (k == h) = false := by simpa using hk'
    simp only [Image.get, hk, Bool.false_eq_true, if_false]
    exact ih hn.2

/-- with every value decodable and distinct keys, the preload loop yields exactly the stored bitmaps (on top of
    whatever the map held before) -/
theorem preloadFold_eq (img : Image) (m : UInt64 → Option Nat) (hdec : img.AllDecodable) (hnd : img.KeysDistinct) :
    preloadFold img m = some (fun h => ((img.get h).join).or (m h)) := by
  induction img generalizing m with
  | nil =>
    simp [preloadFold, Image.get]
  | cons p rest ih =>
    obtain ⟨k, v⟩ := p
    have hv : v.isSome = true := hdec (k, v) (by simp)
    obtain ⟨b, rfl⟩ := Option.isSome_iff_exists.mp hv
    have hnd' : k ∉ Image.keys rest ∧ (Image.keys rest).Nodup := by
      simpa [Image.KeysDistinct, Image.keys] using hnd
    rw [preloadFold, ih _ (fun q hq => hdec q (List.mem_cons_of_mem _ hq)) hnd'.2]
    congr 1
    funext h
    by_cases hk : k = h
    · subst hk
      simp [Image.get, Image.get_eq_none_of_not_mem rest k hnd'.1]
    · have h1 : (k == h) = false := by simpa using hk
      have hk' : ¬ h = k := fun e => hk e.symm
      have h2 : (h == k) = false := by simpa using hk'
      simp [Image.get, h1, h2]

/-- the preload loop fails exactly when some stored value is undecodable -/
theorem preloadFold_eq_none_iff (img : Image) (m : UInt64 → Option Nat) :
    preloadFold img m = none ↔ ¬ img.AllDecodable := by
  induction img generalizing m with
  | nil => simp [preloadFold, Image.AllDecodable]
  | cons p rest ih =>
    obtain ⟨k, v⟩ := p
    cases v with
    | none =>
      simp only [preloadFold, true_iff]
      intro h
      have := h (k, none) (by simp)
      simp at this
    | some b =>
      rw [preloadFold, ih]
      simp [Image.AllDecodable]

theorem imageOf_allDecodable (m : ValMap) : (imageOf m).AllDecodable := by
  intro p hp
  obtain ⟨kb, _, rfl⟩ := List.mem_map.mp hp
  rfl

theorem imageOf_keys (m : ValMap) : (imageOf m).keys = m.map (·.1) := by
  simp [imageOf, Image.keys, Function.comp_def]

theorem get_imageOf (m : ValMap) (h : UInt64) : (imageOf m).get h = (m.get h).map some := by
  induction m with
  | nil => rfl
  | cons kb rest ih =>
    obtain ⟨k, b⟩ := kb
    simp only [imageOf, List.map_cons, Image.get, ValMap.get]
    split
    · rfl
    · exact ih

/-! ### the writer's value map has distinct keys (`addRows_nodup`, Proofs/BoltTx.lean) -/

section
variable (H : Bytes → UInt64)

/-- the image flushed by the in-memory writer has distinct keys -/
theorem writer_image_keysDistinct (rows : List Row) :
    (imageOf (Writer.addRows H {} rows).vals).KeysDistinct := by
  unfold Image.KeysDistinct
  rw [imageOf_keys]
  exact addRows_nodup H rows {} KeysNodup.nil

end

/-! ### every value recorded in the writer's schema has a bitmap -/

theorem ValMap.get_isSome_of_mem_keys (m : ValMap) (h : UInt64) (hm : h ∈ m.map (·.1)) :
    ∃ b, m.get h = some b := by
  induction m with
  | nil => cases hm
  | cons kb rest ih =>
    obtain ⟨k, b⟩ := kb
    simp only [ValMap.get]
    split
    · exact ⟨b, rfl⟩
    · rename_i hk
      simp only [List.map_cons, List.mem_cons] at hm
      rcases hm with e | hm
      · exact absurd (by simp [e]) hk
      · exact ih hm

theorem ValMap.mem_keys_addBit (m : ValMap) (h h' : UInt64) (i : Nat) (hm : h' = h ∨ h' ∈ m.map (·.1)) :
    h' ∈ (m.addBit h i).map (·.1) := by
  rw [ValMap.keys_addBit]
  split
  · rename_i hin
    rcases hm with e | hm
    · rw [e]; exact hin
    · exact hm
  · rcases hm with e | hm
    · simp [e]
    · simp [hm]

theorem mem_addVal {vs : List (Bytes × UInt64)} {v : Bytes} {h : UInt64} {p : Bytes × UInt64}
    (hp : p ∈ addVal vs v h) : p ∈ vs ∨ p = (v, h) := by
  unfold addVal at hp
  split at hp
  · exact Or.inl hp
  · simpa using hp

/-- every value index recorded in the schema is a key of the value map -/
def Covered (w : Writer) : Prop :=
  ∀ c vs, w.schema.col c = some vs → ∀ p ∈ vs, p.2 ∈ w.vals.map (·.1)

section
variable (H : Bytes → UInt64)

theorem Covered.addPair {w : Writer} (hw : Covered w) (i : Nat) (kv : Bytes × Bytes) :
    Covered (Writer.addPair H i w kv) := by
  intro c vs hcol p hp
  simp only [Writer.addPair] at hcol ⊢
  rw [Schema.col_add] at hcol
  split at hcol
  · simp only [Option.some.injEq] at hcol
    subst hcol
    rcases mem_addVal hp with hold | hnew
    · cases hc : w.schema.col kv.1 with
      | none => simp [hc] at hold
      | some vs0 =>
        simp only [hc, Option.getD_some] at hold
        exact ValMap.mem_keys_addBit _ _ _ _ (Or.inr (hw _ vs0 hc p hold))
    · subst hnew
      exact ValMap.mem_keys_addBit _ _ _ _ (Or.inl rfl)
  · exact ValMap.mem_keys_addBit _ _ _ _ (Or.inr (hw c vs hcol p hp))

theorem Covered.addRow {w : Writer} (hw : Covered w) (r : Row) : Covered (Writer.addRow H w r) := by
  have : ∀ (r : Row) (w' : Writer), Covered w' → Covered (r.foldl (Writer.addPair H w.next) w') := by
    intro r
    induction r with
    | nil => intro w' h; exact h
    | cons kv rest ih => intro w' h; exact ih _ (h.addPair H _ kv)
  exact this r w hw

theorem covered_addRows (rows : List Row) (w : Writer) (hw : Covered w) : Covered (Writer.addRows H w rows) := by
  induction rows generalizing w with
  | nil => exact hw
  | cons r rest ih =>
    rw [Writer.addRows, List.foldl_cons]
    exact ih _ (hw.addRow H r)

/-- every value of every column of the flushed schema has a bitmap in the image -/
theorem writer_schema_present (rows : List Row) (c : Bytes) (vs : List (Bytes × UInt64))
    (hcol : (Writer.addRows H {} rows).schema.col c = some vs) (p : Bytes × UInt64) (hp : p ∈ vs) :
    ∃ b, (Writer.addRows H {} rows).vals.get p.2 = some b :=
  ValMap.get_isSome_of_mem_keys _ _
    (covered_addRows H rows {} (by intro c vs h; cases h) c vs hcol p hp)

/-- … in particular every value of every resolved group-by field -/
theorem populateGroupBy_present (rows : List Row) (cols : List Bytes) (fields : List GBField)
    (hf : populateGroupBy (Writer.addRows H {} rows).schema cols = some fields) :
    ∀ gbf ∈ fields, ∀ v ∈ gbf.values, ∃ b, (Writer.addRows H {} rows).vals.get v.2 = some b := by
  induction cols generalizing fields with
  | nil =>
    simp only [populateGroupBy, Option.some.injEq] at hf
    subst hf
    intro gbf h; cases h
  | cons c cs ih =>
    simp only [populateGroupBy] at hf
    split at hf
    · cases hf
    · rename_i vs hvs
      cases hrest : populateGroupBy (Writer.addRows H {} rows).schema cs with
      | none => simp [hrest] at hf
      | some fs =>
        simp only [hrest, Option.map_some, Option.some.injEq] at hf
        subst hf
        intro gbf hg v hv
        rcases List.mem_cons.mp hg with rfl | hg
        · exact writer_schema_present H rows c vs hvs v
            ((List.mergeSort_perm vs _).mem_iff.mp hv)
        · exact ih fs hrest gbf hg v hv

end

/-! ### the group-by step over a concrete getter -/

/-- the iteration as `Model/Index.lean`'s `refine` sees it: no bitmap → skip -/
def pureStep (o : Option Nat) (x : Nat) : GBOut :=
  match o with
  | none => .skip
  | some vbm => if popcount (x &&& vbm) = 0 then .skip else .keep (x &&& vbm)

theorem innerG_eq (step : Nat → UInt64 → GBOut) (getCol : UInt64 → Option Nat) (col : Bytes) (rg : Fields × Nat)
    (vs : List (Bytes × UInt64)) (hstep : ∀ v ∈ vs, step rg.2 v.2 = pureStep (getCol v.2) rg.2) :
    innerG step col rg vs = some (vs.filterMap fun v =>
      match getCol v.2 with
      | none => none
      | some vbm =>
        let r := rg.2 &&& vbm
        if popcount r = 0 then none else some (rg.1 ++ [(col, v.1)], r)) := by
  induction vs with
  | nil => rfl
  | cons v rest ih =>
    have ih' := ih (fun w hw => hstep w (List.mem_cons_of_mem _ hw))
    have hv := hstep v (by simp)
    rw [innerG, hv, List.filterMap_cons]
    cases hg : getCol v.2 with
    | none => simp only [pureStep]; exact ih'
    | some vbm =>
      simp only [pureStep]
      by_cases hp : popcount (rg.2 &&& vbm) = 0
      · simp only [hp, if_true]; exact ih'
      · simp only [hp, if_false, ih', Option.map_some]

theorem refineG_eq (step : Nat → UInt64 → GBOut) (ix : Index) (gbf : GBField) (rgs : List (Fields × Nat))
    (hstep : ∀ x, ∀ v ∈ gbf.values, step x v.2 = pureStep (ix.getCol v.2) x) :
    refineG step gbf rgs = some (refine ix gbf rgs) := by
  induction rgs with
  | nil => rfl
  | cons rg rest ih =>
    rw [refineG, innerG_eq step ix.getCol gbf.col rg gbf.values (fun v hv => hstep rg.2 v hv)]
    simp only [ih, Option.map_some, refine, List.flatMap_cons]
    rfl

theorem innerG_panic (step : Nat → UInt64 → GBOut) (col : Bytes) (rg : Fields × Nat)
    (vs : List (Bytes × UInt64)) (v : Bytes × UInt64) (hv : v ∈ vs) (hp : step rg.2 v.2 = .panic) :
    innerG step col rg vs = none := by
  induction vs with
  | nil => cases hv
  | cons w rest ih =>
    rw [innerG]
    rcases List.mem_cons.mp hv with rfl | hmem
    · rw [hp]
    · cases step rg.2 w.2 with
      | panic => rfl
      | skip => exact ih hmem
      | keep r => simp only [ih hmem, Option.map_none]

/-! ### two concrete cardinalities for the examples (`popcount` is defined by well-founded recursion) -/

theorem popcount_three_ne : popcount 3 ≠ 0 := by rw [popcount_eq 3 (by decide)]; omega
theorem popcount_four_ne : popcount 4 ≠ 0 := by
  rw [popcount_eq 4 (by decide), popcount_eq (4 / 2) (by decide), popcount_eq (4 / 2 / 2) (by decide)]; omega

end Updog
