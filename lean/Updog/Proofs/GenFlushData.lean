/-
The CONTENT of bucket `data` after the generated `writeToBoltDatabase` (Proofs/GenFlushT3.lean tracks the committed
transactions as a log of `Put`s; here the loop invariant also tracks what the `Put`s leave in the bucket), and what
the reader's abstractions `imageOfData` / `Image.toIndex` (Proofs/GenOpenT3.lean, Model/Getters.lean) make of it.
-/
import Updog.Proofs.GenFlushT3
import Updog.Proofs.GenOpenT3
import Updog.Proofs.GenWriterT3
import Updog.Proofs.Sort
import Updog.Proofs.Getters
namespace Updog.GeneratedEq
open Updog.Go.T3

/-! ### `dataPut` / `dataGet` -/

theorem dataGet_dataPut (d : BucketData) (k v k' : Bytes) :
    dataGet (dataPut d k v) k' = if k' = k then some v else dataGet d k' := by
  induction d with
  | nil =>
    by_cases e : k' = k
    · subst e; simp [dataPut, dataGet]
    · have : (k == k') = false := by simpa using fun h => e h.symm
      simp [dataPut, dataGet, this, e]
  | cons kv rest ih =>
    obtain ⟨k0, v0⟩ := kv
    unfold dataPut
    by_cases e0 : k0 = k
    · subst e0
      simp only [BEq.rfl, if_true, dataGet]
      by_cases e : k' = k0
      · subst e; simp
      · have : (k0 == k') = false := by simpa using fun h => e h.symm
        simp [this, e]
    · have h0 : (k0 == k) = false := by simpa using e0
      simp only [h0, Bool.false_eq_true, if_false]
      by_cases hlt : bytesLt k k0 = true
      · simp only [hlt, if_true, dataGet]
        by_cases e : k' = k
        · subst e; simp
        · have : (k == k') = false := by simpa using fun h => e h.symm
          simp [this, e]
      · simp only [hlt, Bool.false_eq_true, if_false, dataGet, ih]
        by_cases e : k' = k
        · subst e
          have : (k0 == k') = false := by simpa using e0
          simp [this]
        · simp [e]

theorem mem_dataPut (d : BucketData) (k v : Bytes) (kv : Bytes × Bytes) (h : kv ∈ dataPut d k v) :
    kv = (k, v) ∨ kv ∈ d := by
  induction d with
  | nil => simp [dataPut] at h; exact Or.inl h
  | cons a rest ih =>
    obtain ⟨k0, v0⟩ := a
    unfold dataPut at h
    by_cases e0 : (k0 == k) = true
    · simp only [e0, if_true, List.mem_cons] at h
      rcases h with h | h
      · exact Or.inl h
      · exact Or.inr (List.mem_cons_of_mem _ h)
    · simp only [e0, Bool.false_eq_true, if_false] at h
      by_cases hlt : bytesLt k k0 = true
      · simp only [hlt, if_true, List.mem_cons] at h
        rcases h with h | h | h
        · exact Or.inl h
        · exact Or.inr (by rw [h]; exact List.mem_cons_self)
        · exact Or.inr (List.mem_cons_of_mem _ h)
      · simp only [hlt, Bool.false_eq_true, if_false, List.mem_cons] at h
        rcases h with h | h
        · exact Or.inr (by rw [h]; exact List.mem_cons_self)
        · rcases ih h with h | h
          · exact Or.inl h
          · exact Or.inr (List.mem_cons_of_mem _ h)

/-- `bucket.Put` keeps the bucket in cursor order -/
theorem sorted_dataPut (d : BucketData) (k v : Bytes) (hs : SortedData d) : SortedData (dataPut d k v) := by
  induction d with
  | nil => simp [dataPut, SortedData]
  | cons a rest ih =>
    obtain ⟨k0, v0⟩ := a
    unfold SortedData at hs ih ⊢
    rw [List.pairwise_cons] at hs
    unfold dataPut
    by_cases e0 : k0 = k
    · subst e0
      simp only [BEq.rfl, if_true]
      exact List.pairwise_cons.2 ⟨hs.1, hs.2⟩
    · have h0 : (k0 == k) = false := by simpa using e0
      simp only [h0, Bool.false_eq_true, if_false]
      by_cases hlt : bytesLt k k0 = true
      · simp only [hlt, if_true]
        refine List.pairwise_cons.2 ⟨?_, List.pairwise_cons.2 hs⟩
        intro b hb
        rcases List.mem_cons.1 hb with rfl | hb
        · exact hlt
        · exact bytesLt_trans hlt (hs.1 b hb)
      · simp only [hlt, Bool.false_eq_true, if_false]
        have hgt : bytesLt k0 k = true := by
          rcases bytesLt_total e0 with h | h
          · exact h
          · exact absurd h hlt
        refine List.pairwise_cons.2 ⟨?_, ih hs.2⟩
        intro b hb
        rcases mem_dataPut rest k v b hb with rfl | hb
        · exact hgt
        · exact hs.1 b hb

/-! ### the content of bucket `data` -/

/-- the key of a bitmap: `'V' ‖ be64(valueIdx)` -/
def vKey (h : UInt64) : Bytes := 86 :: be64 h.toNat

theorem vKey_inj (a b : UInt64) (h : vKey a = vKey b) : a = b := by
  unfold vKey at h
  exact be64_inj a b (List.cons.inj h).2

/-- bucket `data` after `Put`ting the bitmaps `vs` in this order -/
def valFold (X : Ext) (d0 : BucketData) (vs : ValMap) : BucketData :=
  vs.foldl (fun d kb => dataPut d (vKey kb.1) (X.roaringToBytes kb.2)) d0

theorem valFold_append (X : Ext) (d0 : BucketData) (a b : ValMap) :
    valFold X d0 (a ++ b) = valFold X (valFold X d0 a) b := by
  simp [valFold, List.foldl_append]

/-- bucket `data` of a complete index file: the bitmaps, then `'S'`, then `'I'` -/
def fileData (X : Ext) (d0 : BucketData) (vs : ValMap) (s : SchemaVal) (n : UInt32) : BucketData :=
  dataPut (dataPut (valFold X d0 vs) [83] (X.gobEncode s)) [73] (be32 n.toNat)

theorem sorted_valFold (X : Ext) (d0 : BucketData) (vs : ValMap) (hs : SortedData d0) : SortedData (valFold X d0 vs) := by
  induction vs generalizing d0 with
  | nil => exact hs
  | cons kb vs ih => exact ih _ (sorted_dataPut _ _ _ hs)

theorem mem_valFold (X : Ext) (d0 : BucketData) (vs : ValMap) (kv : Bytes × Bytes) (h : kv ∈ valFold X d0 vs) :
    kv ∈ d0 ∨ ∃ kb ∈ vs, kv.1 = vKey kb.1 := by
  induction vs generalizing d0 with
  | nil => exact Or.inl h
  | cons kb vs ih =>
    rcases ih _ h with h | ⟨kb', hm, e⟩
    · rcases mem_dataPut _ _ _ _ h with h | h
      · exact Or.inr ⟨kb, List.mem_cons_self, by rw [h]⟩
      · exact Or.inl h
    · exact Or.inr ⟨kb', List.mem_cons_of_mem _ hm, e⟩

/-- lookups in the bucket follow the bolt-level `ValMap.put`s -/
theorem dataGet_valFold (X : Ext) (vs : ValMap) (d0 : BucketData) (m0 : ValMap)
    (h0 : ∀ h, dataGet d0 (vKey h) = (m0.get h).map X.roaringToBytes) (h : UInt64) :
    dataGet (valFold X d0 vs) (vKey h) = ((vs.foldl (fun m kb => m.put kb.1 kb.2) m0).get h).map X.roaringToBytes := by
  induction vs generalizing d0 m0 with
  | nil => exact h0 h
  | cons kb vs ih =>
    apply ih
    intro h'
    rw [dataGet_dataPut, ValMap.get_put]
    by_cases e : h' = kb.1
    · subst e; simp
    · have : ¬ vKey h' = vKey kb.1 := fun e2 => e (vKey_inj _ _ e2)
      simp only [this, e, if_false]
      exact h0 h'

theorem dataGet_valFold_nil (X : Ext) (vs : ValMap) (hn : KeysNodup vs) (h : UInt64) :
    dataGet (valFold X [] vs) (vKey h) = (vs.get h).map X.roaringToBytes := by
  rw [dataGet_valFold X vs [] [] (fun _ => rfl), foldl_put_get vs hn]
  simp [ValMap.get]

theorem vKey_ne_S (h : UInt64) : ¬ vKey h = [83] := by unfold vKey; simp
theorem vKey_ne_I (h : UInt64) : ¬ vKey h = [73] := by unfold vKey; simp

/-- what the reader finds in a complete file written into an empty bucket -/
theorem fileData_spec (X : Ext) (vs : ValMap) (hn : KeysNodup vs) (s : SchemaVal) (n : UInt32) :
    SortedData (fileData X [] vs s n) ∧ WellKeyed (fileData X [] vs s n) ∧
    dataGet (fileData X [] vs s n) [83] = some (X.gobEncode s) ∧
    dataGet (fileData X [] vs s n) [73] = some (be32 n.toNat) ∧
    ∀ h, dataGet (fileData X [] vs s n) (86 :: be64 h.toNat) = (vs.get h).map X.roaringToBytes := by
  refine ⟨?_, ?_, ?_, ?_, ?_⟩
  · exact sorted_dataPut _ _ _ (sorted_dataPut _ _ _ (sorted_valFold X [] vs (by simp [SortedData])))
  · intro kv hkv hpre
    rcases mem_dataPut _ _ _ _ hkv with h | h
    · rw [h] at hpre; simp [hasPrefix] at hpre
    · rcases mem_dataPut _ _ _ _ h with h | h
      · rw [h] at hpre; simp [hasPrefix] at hpre
      · rcases mem_valFold X [] vs kv h with h | ⟨kb, _, e⟩
        · cases h
        · exact ⟨kb.1, e⟩
  · unfold fileData
    rw [dataGet_dataPut, dataGet_dataPut]
    simp
  · unfold fileData
    rw [dataGet_dataPut]
    simp
  · intro h
    unfold fileData
    have e : (86 :: be64 h.toNat) = vKey h := rfl
    rw [e, dataGet_dataPut, dataGet_dataPut, if_neg (vKey_ne_I h), if_neg (vKey_ne_S h)]
    exact dataGet_valFold_nil X vs hn h

/-! ### the generated writer leaves exactly `fileData` in the bucket -/

/-- the open transaction's view of bucket `data` after the pairs `done` -/
def DataInv (X : Ext) (hp : Heap) (d0 : BucketData) (done : List (UInt64 × Ptr)) (st : FlushSt) : Prop :=
  ∃ t : TxState, st.1.tx = some t ∧ bucketsGet t.buckets dataName = some (valFold X d0 (absVals hp done))

theorem flush_step_data (X : Ext) (hp : Heap) (db : DBRef) (err : Error) (buf : Bytes) (c0 : List (List PutRec))
    (idx0 : IndexWriter) (d0 : BucketData) (done : List (UInt64 × Ptr)) (x : UInt64 × Ptr) (st : FlushSt)
    (both : FlushInv X hp db c0 idx0 done st ∧ DataInv X hp d0 done st) :
    ∃ st', Gen.writeToBoltDatabase_loop1 X hp db err buf st x = .next st' ∧
      (FlushInv X hp db c0 idx0 (done ++ [x]) st' ∧ DataInv X hp d0 (done ++ [x]) st') := by
  obtain ⟨inv, dinv⟩ := both
  obtain ⟨st', e, inv'⟩ := flush_step X hp db err buf c0 idx0 done x st inv
  refine ⟨st', e, inv', ?_⟩
  -- recompute the step to read the bucket off the new state
  obtain ⟨bolt, idx, tx, bucket, i⟩ := st
  obtain ⟨t, h1, h2, h3, h4, ⟨d, h5⟩, h6, h7, h8, h9, h10, h11⟩ := inv
  obtain ⟨t2, g1, g2⟩ := dinv
  obtain ⟨bid, bclosed, bcommitted, btx, bnext, bcommits⟩ := bolt
  obtain ⟨tid, twr, tbuckets, tlog⟩ := t
  simp only at h1 h2 h3 h4 h5 h6 h7 h8 h9 h10 h11 g1
  subst h1 h2 h3 h4 h6 h7 h11 h10
  injection g1 with g1
  subst g1
  simp only at g2
  have hd5 : d = valFold X d0 (absVals hp done) := Option.some.inj (h5.symm.trans g2)
  have hd : ([100, 97, 116, 97] : Bytes) = dataName := rfl
  have hk : (Gen.keyPrefixValue ++ be64 x.1.toNat).isEmpty = false := rfl
  have hfold : valFold X d0 (absVals hp (done ++ [x])) = dataPut d (vKey x.1) (X.roaringToBytes (bitmapAt hp x.2)) := by
    rw [absVals_append, valFold_append, ← hd5]; rfl
  unfold Gen.writeToBoltDatabase_loop1 at e
  simp only [putU64_full, bitmapToBytes, isErr_none, Bool.false_eq_true, if_false, hd,
    bucketPut_mk _ _ _ _ _ _ _ _ _ _ d h5 hk, intMod_succ] at e
  unfold DataInv
  rw [hfold]
  by_cases hb : (((((absVals hp done).foldl (batchStep 1000) {}).i) + 1) % 1000 == 0) = true
  · simp only [hb, if_true, txCommit_mk, isErr_none, Bool.false_eq_true, if_false, verifPoint, dbBegin_mk, txBucket_mk,
      bucketsGet_set_isSome] at e
    injection e with e
    subst e
    exact ⟨_, rfl, bucketsGet_set_same _ _ _⟩
  · have hb' : (((((absVals hp done).foldl (batchStep 1000) {}).i) + 1) % 1000 == 0) = false := by simpa using hb
    simp only [hb', Bool.false_eq_true, if_false] at e
    injection e with e
    subst e
    exact ⟨_, rfl, bucketsGet_set_same _ _ _⟩

theorem flush_loop_data (X : Ext) (hp : Heap) (db : DBRef) (err : Error) (buf : Bytes) (c0 : List (List PutRec))
    (idx0 : IndexWriter) (d0 : BucketData) (rng : List (UInt64 × Ptr)) (init : FlushSt)
    (h0 : FlushInv X hp db c0 idx0 [] init ∧ DataInv X hp d0 [] init) :
    ∃ st', forRange rng init (Gen.writeToBoltDatabase_loop1 X hp db err buf) = .next st' ∧
      (FlushInv X hp db c0 idx0 rng st' ∧ DataInv X hp d0 rng st') :=
  forRange_next (fun done st => FlushInv X hp db c0 idx0 done st ∧ DataInv X hp d0 done st) _ rng init h0
    (fun done x a h => flush_step_data X hp db err buf c0 idx0 d0 done x a h)

/-- **the file after `WriteToBoltDatabase`**: bucket `data` of the committed state holds exactly `fileData`: the
    bitmaps `Put` in `range` order on top of what the bucket held before (`[]` if it did not exist), then the gob schema
    under `'S'`, then the big-endian 4-byte `nextRowID` under `'I'`. -/
theorem writeToBoltDatabase_data (X : Ext) (rng : List (UInt64 × Ptr)) (bolt : Bolt) (hp : Heap) (idx : IndexWriter)
    (db : DBRef) (hdb : db = some bolt.id) (hopen : bolt.closed = false) (hnotx : bolt.tx = none) :
    bucketsGet (Gen.writeToBoltDatabase X rng bolt hp idx db).1.committed dataName
      = some (fileData X ((bucketsGet bolt.committed dataName).getD []) (absVals hp rng)
          (schemaValue hp idx.schema) idx.nextRowID) := by
  obtain ⟨bid, bclosed, bcommitted, btx, bnext, bcommits⟩ := bolt
  simp only at hdb hopen hnotx
  subst hdb hopen hnotx
  have hd : ([100, 97, 116, 97] : Bytes) = dataName := rfl
  generalize hr : Gen.writeToBoltDatabase X rng _ hp idx _ = r
  unfold Gen.writeToBoltDatabase at hr
  simp only [dbBegin_mk, isErr_none, Bool.false_eq_true, if_false, optimize, gobEncode, hd,
    txCreateBucket_mk _ _ _ _ _ _ _ dataName rfl, List.nil_append, mutexTouch_mutexLock] at hr
  have hget0 : bucketsGet (if (bucketsGet bcommitted dataName).isSome = true then bcommitted
      else bucketsSet bcommitted dataName []) dataName = some ((bucketsGet bcommitted dataName).getD []) := by
    cases h : bucketsGet bcommitted dataName with
    | none => simp [bucketsGet_set_same]
    | some d => simp [h]
  have h0 : FlushInv X hp (some bid) bcommits { idx with mtx := mutexLock idx.mtx } []
      ({ id := bid, committed := bcommitted,
          tx := some { id := bnext, writable := true,
                       buckets := if (bucketsGet bcommitted dataName).isSome = true then bcommitted
                                  else bucketsSet bcommitted dataName [] },
          nextTx := bnext + 1, commits := bcommits },
        { idx with mtx := mutexLock idx.mtx }, some bnext, some (bnext, dataName), 0) := by
    refine ⟨_, rfl, rfl, rfl, rfl, ⟨_, hget0⟩, rfl, rfl, rfl, by simp [absVals], rfl, rfl⟩
  have hd0 : DataInv X hp ((bucketsGet bcommitted dataName).getD []) []
      ({ id := bid, committed := bcommitted,
          tx := some { id := bnext, writable := true,
                       buckets := if (bucketsGet bcommitted dataName).isSome = true then bcommitted
                                  else bucketsSet bcommitted dataName [] },
          nextTx := bnext + 1, commits := bcommits },
        { idx with mtx := mutexLock idx.mtx }, some bnext, some (bnext, dataName), 0) :=
    ⟨_, rfl, hget0⟩
  obtain ⟨st', e, inv, dinv⟩ := flush_loop_data X hp (some bid) none (X.gobEncode (schemaValue hp idx.schema)) bcommits _
    ((bucketsGet bcommitted dataName).getD []) rng _ ⟨h0, hd0⟩
  rw [e] at hr
  obtain ⟨bolt', idx', tx', bucket', i'⟩ := st'
  obtain ⟨t, h1, h2, h3, h4, ⟨d, h5⟩, h6, h7, h8, h9, h10, h11⟩ := inv
  obtain ⟨t2, g1, g2⟩ := dinv
  obtain ⟨bid', bclosed', bcommitted', btx', bnext', bcommits'⟩ := bolt'
  obtain ⟨tid, twr, tbuckets, tlog⟩ := t
  simp only at h1 h2 h3 h4 h5 h6 h7 h8 h9 h10 h11 g1
  subst h1 h2 h4 h6 h7 h11 h10
  injection h3 with h3
  subst h3
  injection g1 with g1
  subst g1
  simp only at g2
  have hd5 : d = valFold X ((bucketsGet bcommitted dataName).getD []) (absVals hp rng) :=
    Option.some.inj (h5.symm.trans g2)
  have hk1 : Gen.keySchema.isEmpty = false := rfl
  have hk2 : Gen.keyNextRowID.isEmpty = false := rfl
  simp only [bucketPut_mk _ _ _ _ _ _ _ _ _ _ d h5 hk1,
    bucketPut_mk _ _ _ _ _ _ _ _ _ _ _ (bucketsGet_set_same _ _ _) hk2, isErr_none, Bool.false_eq_true, if_false,
    txCommit_mk, verifPoint, putU32_full, mutexTouch_mutexLock] at hr
  subst hr
  simp only [bucketsGet_set_same]
  rw [hd5]
  rfl

end Updog.GeneratedEq
