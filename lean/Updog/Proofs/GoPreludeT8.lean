/-
Lemmas about the primitives of `Updog/Basic/GoPreludeT8.lean`: how each acts on a RUNNING world (`stopped = none`),
that none acts on a stopped one, the frame of each (which parts of the world it leaves alone), `Go.T8.forEver`.
-/
import Updog.Basic.GoPreludeT8
namespace Updog.Go

namespace T8

theorem forEver_zero {ρ σ : Type} (s : σ) (body : σ → Step ρ σ) : forEver 0 s body = .spin s := rfl

theorem forEver_ret {ρ σ : Type} (n : Nat) (s : σ) (body : σ → Step ρ σ) (r : ρ) (h : body s = .ret r) :
    forEver (n + 1) s body = .ret r := by simp [forEver, h]

theorem forEver_brk {ρ σ : Type} (n : Nat) (s s' : σ) (body : σ → Step ρ σ) (h : body s = .brk s') :
    forEver (n + 1) s body = .done s' := by simp [forEver, h]

theorem forEver_next {ρ σ : Type} (n : Nat) (s s' : σ) (body : σ → Step ρ σ) (h : body s = .next s') :
    forEver (n + 1) s body = forEver n s' body := by simp [forEver, h]

end T8

namespace Cmd

/-! ### events -/

/-- the events of the record loop -/
def Event.isLoop : Event → Bool
  | .csvRead _ => true
  | .addRow _ _ => true
  | .printf _ => true
  | _ => false

/-- the events that say what happened to the DATA: records read, rows added, the flush -/
def Event.isData : Event → Bool
  | .csvRead _ => true
  | .addRow _ _ => true
  | .flush _ => true
  | _ => false

/-- the events of `(*IndexWriter).Flush` on output path `o`: its `bbolt.Open`, its `db.Close`, the flush itself -/
def Event.isMemFlush (o : Bytes) : Event → Bool
  | .flush _ => true
  | .boltOpen p _ _ _ => p == o
  | .boltClose p => p == o
  | _ => false

/-- the data events of a run, in order -/
def World.data (w : World) : List Event := w.trace.filter Event.isData

/-! ### `log`, `act` -/

@[simp] theorem log_env (w : World) (e : Event) : (log w e).env = w.env := rfl
@[simp] theorem log_fs (w : World) (e : Event) : (log w e).fs = w.fs := rfl
@[simp] theorem log_csvPos (w : World) (e : Event) : (log w e).csvPos = w.csvPos := rfl
@[simp] theorem log_rowsAdded (w : World) (e : Event) : (log w e).rowsAdded = w.rowsAdded := rfl
@[simp] theorem log_stopped (w : World) (e : Event) : (log w e).stopped = w.stopped := rfl
@[simp] theorem log_trace (w : World) (e : Event) : (log w e).trace = w.trace ++ [e] := rfl

theorem act_run {α : Type} (w : World) (d : α) (f : World → World × α) (h : w.stopped = none) : act w d f = f w := by
  simp [act, h]

theorem act_stopped {α : Type} (w : World) (d : α) (f : World → World × α) (h : w.stopped.isSome = true) :
    act w d f = (w, d) := by
  simp [act, h]

@[simp] theorem setAt_same (f : Bytes → Bool) (p : Bytes) (b : Bool) : setAt f p b p = b := by simp [setAt]
theorem setAt_idem (f : Bytes → Bool) (p : Bytes) (b b' : Bool) : setAt (setAt f p b) p b' = setAt f p b' := by
  funext q; by_cases h : q = p <;> simp [setAt, h]
theorem setAt_other (f : Bytes → Bool) (p q : Bytes) (b : Bool) (h : q ≠ p) : setAt f p b q = f q := by simp [setAt, h]

/-! ### nothing happens in a stopped world -/

section stopped
variable (w : World) (h : w.stopped.isSome = true)
include h
theorem osOpen_stopped (p : Bytes) : (osOpen w p).1 = w := by simp [osOpen, act, h]
theorem fileClose_stopped (f : File) : (fileClose w f).1 = w := by simp [fileClose, act, h]
theorem csvRead_stopped (r : Reader) : (csvRead w r).1 = w := by simp [csvRead, act, h]
theorem osCreateTemp_stopped (a b : Bytes) : (osCreateTemp w a b).1 = w := by simp [osCreateTemp, act, h]
theorem osRemove_stopped (p : Bytes) : (osRemove w p).1 = w := by simp [osRemove, act, h]
theorem boltOpen_stopped (p : Bytes) (m : Int) (o : BoltOptions) : (boltOpen w p m o).1 = w := by simp [boltOpen, act, h]
theorem boltClose_stopped (db : DB) : (boltClose w db).1 = w := by simp [boltClose, act, h]
theorem newBigIndexWriter_stopped (a b : DB) : (newBigIndexWriter w a b).1 = w := by simp [newBigIndexWriter, act, h]
theorem bigWriterClose_stopped (x : BigIndexWriter) : (bigWriterClose w x).1 = w := by simp [bigWriterClose, act, h]
theorem addRow_stopped (iw : indexWriter) (v : Map Bytes) : (addRow w iw v).1 = w := by simp [addRow, act, h]
theorem flush_stopped (iw : indexWriter) : (flush w iw).1 = w := by simp [flush, act, h]
theorem printf_stopped (f : Bytes) : (printf w f).1 = w := by simp [printf, act, h]
theorem osExit_stopped (c : Int) : (osExit w c).1 = w := by simp [osExit, act, h]
theorem outOfFuel_stopped : outOfFuel w = w := by simp [outOfFuel, h]
theorem mainReturns_stopped : mainReturns w = w := by simp [mainReturns, h]
end stopped

/-! ### the primitives on a running world -/

section running
variable (w : World) (h : w.stopped = none)
include h

theorem osOpen_run (p : Bytes) :
    osOpen w p = if w.fs.present p && !w.env.unreadable p then (log w (.osOpen p true), .ok ⟨p⟩)
                 else (log w (.osOpen p false), .error (.ext 10)) := by
  simp [osOpen, act, h]

theorem fileClose_run (f : File) : fileClose w f = (log w (.fileClose f.Name), none) := by
  simp [fileClose, act, h]

theorem csvRead_some (r : Reader) (record : List Bytes) (hr : w.env.csv[w.csvPos]? = some record) :
    csvRead w r = (log { w with csvPos := w.csvPos + 1 } (.csvRead (some record)), .ok record) := by
  unfold csvRead; rw [act_run _ _ _ h]; simp only [hr]

theorem csvRead_none (r : Reader) (hr : w.env.csv[w.csvPos]? = none) :
    csvRead w r = (log w (.csvRead none), .error w.env.csvEnd) := by
  unfold csvRead; rw [act_run _ _ _ h]; simp only [hr]

theorem printf_run (f : Bytes) : printf w f = (log w (.printf f), ()) := by
  simp [printf, act, h]

theorem bigWriterClose_run (x : BigIndexWriter) :
    bigWriterClose w x =
      (log { w with fs := { w.fs with txOpen := setAt w.fs.txOpen x.tempDB.path false } } (.bigWriterClose x.tempDB.path), none) := by
  simp [bigWriterClose, act, h]

theorem boltClose_run (db : DB) :
    boltClose w db = if w.fs.txOpen db.path then ({ w with stopped := some .hang }, none)
                     else (log w (.boltClose db.path), none) := by
  simp [boltClose, act, h]

theorem osRemove_run (p : Bytes) :
    osRemove w p =
      if w.fs.present p then
        (log { w with fs := { w.fs with present := setAt w.fs.present p false, touched := setAt w.fs.touched p true,
                                        complete := setAt w.fs.complete p false } } (.remove p true), none)
      else (log w (.remove p false), some (.ext 13)) := by
  simp [osRemove, act, h]

theorem osExit_run (c : Int) : osExit w c = ({ w with stopped := some (.exit c) }, ()) := by
  simp [osExit, act, h]

end running

end Cmd
end Updog.Go
