/-
Helper lemmas for C05/C06: big-endian coders and the order of temp keys, the cursor walk of
`BigIndexWriter.Flush`, the simulation of the in-memory writer by the big writer, and the
transaction structure of `WriteToBoltDatabase`.
-/
import Updog.Model.BigWriter
import Updog.Proofs.Writer
namespace Updog

theorem beDecode_foldl (xs : Bytes) (acc : Nat) :
    xs.foldl (fun acc x => acc * 256 + x.toNat) acc = acc * 256 ^ xs.length + beDecode xs := by
  induction xs generalizing acc with
  | nil => simp [beDecode]
  | cons x xs ih =>
    simp only [List.foldl_cons, beDecode, List.length_cons]
    rw [ih, ih (0 * 256 + x.toNat)]
    simp only [Nat.zero_mul, Nat.zero_add, Nat.pow_succ, Nat.add_mul]
    rw [Nat.mul_assoc, Nat.mul_comm 256, Nat.add_assoc]

theorem beDecode_nil : beDecode [] = 0 := rfl

theorem beDecode_cons (x : UInt8) (xs : Bytes) :
    beDecode (x :: xs) = x.toNat * 256 ^ xs.length + beDecode xs := by
  simp only [beDecode, List.foldl_cons]
  rw [beDecode_foldl]; simp [beDecode]

theorem beDecode_append (xs ys : Bytes) :
    beDecode (xs ++ ys) = beDecode xs * 256 ^ ys.length + beDecode ys := by
  simp only [beDecode, List.foldl_append]
  rw [beDecode_foldl]; simp [beDecode]

theorem beDecode_lt (xs : Bytes) : beDecode xs < 256 ^ xs.length := by
  induction xs with
  | nil => simp [beDecode]
  | cons x xs ih =>
    rw [beDecode_cons, List.length_cons, Nat.pow_succ]
    have hx : x.toNat < 256 := x.toNat_lt
    have : x.toNat * 256 ^ xs.length + 256 ^ xs.length ≤ 256 * 256 ^ xs.length := by
      rw [← Nat.succ_mul]; exact Nat.mul_le_mul_right _ hx
    rw [Nat.mul_comm (256 ^ xs.length)]
    omega

/-- for big-endian digit strings of equal length, bytewise order is numeric order -/
theorem bytesLt_eq_decode_lt (xs ys : Bytes) (hl : xs.length = ys.length) :
    bytesLt xs ys = decide (beDecode xs < beDecode ys) := by
  induction xs generalizing ys with
  | nil =>
    cases ys with
    | nil => simp [bytesLt, beDecode]
    | cons y ys => simp at hl
  | cons x xs ih =>
    cases ys with
    | nil => simp at hl
    | cons y ys =>
      simp only [List.length_cons, Nat.add_right_cancel_iff] at hl
      simp only [bytesLt, beDecode_cons, hl]
      have h1 := beDecode_lt xs
      have h2 := beDecode_lt ys
      rw [hl] at h1
      generalize 256 ^ ys.length = P at h1 h2
      by_cases hxy : x < y
      · have : x.toNat < y.toNat := UInt8.lt_iff_toNat_lt.mp hxy
        have : (x.toNat + 1) * P ≤ y.toNat * P := Nat.mul_le_mul_right _ this
        rw [Nat.succ_mul] at this
        simp only [hxy, if_true]
        symm; rw [decide_eq_true_iff]; omega
      · by_cases hyx : y < x
        · have : y.toNat < x.toNat := UInt8.lt_iff_toNat_lt.mp hyx
          have : (y.toNat + 1) * P ≤ x.toNat * P := Nat.mul_le_mul_right _ this
          rw [Nat.succ_mul] at this
          simp only [hxy, hyx, if_true, if_false]
          symm; rw [decide_eq_false_iff_not]; omega
        · have e : x.toNat = y.toNat := by
            have a := mt UInt8.lt_iff_toNat_lt.mpr hxy
            have b := mt UInt8.lt_iff_toNat_lt.mpr hyx
            omega
          simp only [hxy, hyx, if_false, ih ys hl, e]
          congr 1
          apply propext; omega

theorem be32_length (n : Nat) : (be32 n).length = 4 := rfl
theorem be64_length (n : Nat) : (be64 n).length = 8 := rfl
theorem tempKey_length (a i : Nat) : (tempKey a i).length = 12 := rfl

theorem be32_decode (n : Nat) : beDecode (be32 n) = n % 4294967296 := by
  simp only [be32, beDecode, List.foldl_cons, List.foldl_nil, Nat.toUInt8_eq, UInt8.toNat_ofNat']
  omega

theorem be32_roundtrip (n : Nat) (h : n < 2 ^ 32) : beDecode (be32 n) = n := by
  rw [be32_decode]; omega

theorem be64_decode (n : Nat) : beDecode (be64 n) = n % 18446744073709551616 := by
  rw [be64, beDecode_append, be32_decode, be32_decode, be32_length]
  omega

theorem be64_roundtrip (n : Nat) (h : n < 2 ^ 64) : beDecode (be64 n) = n := by
  rw [be64_decode]; omega

theorem tempKey_decode (a i : Nat) (ha : a < 2 ^ 64) (hi : i < 2 ^ 32) :
    beDecode (tempKey a i) = a * 4294967296 + i := by
  rw [tempKey, beDecode_append, be64_roundtrip a ha, be32_roundtrip i hi, be32_length]

theorem tempKey_lt (a b i j : Nat) (ha : a < 2 ^ 64) (hb : b < 2 ^ 64) (hi : i < 2 ^ 32) (hj : j < 2 ^ 32) :
    bytesLt (tempKey a i) (tempKey b j) = true ↔ a < b ∨ (a = b ∧ i < j) := by
  rw [bytesLt_eq_decode_lt (tempKey a i) (tempKey b j) rfl, decide_eq_true_iff,
    tempKey_decode a i ha hi, tempKey_decode b j hb hj]
  omega

theorem be_key_order (a b i j : Nat) (ha : a < 2 ^ 64) (hb : b < 2 ^ 64) (hi : i < 2 ^ 32) (hj : j < 2 ^ 32) :
    bytesLt (be64 a ++ be32 i) (be64 b ++ be32 j) = true ↔ a < b ∨ (a = b ∧ i < j) :=
  tempKey_lt a b i j ha hb hi hj

theorem take_tempKey (a i : Nat) : (tempKey a i).take 8 = be64 a := by
  rw [tempKey, List.take_left' (be64_length a)]
theorem drop_tempKey (a i : Nat) : (tempKey a i).drop 8 = be32 i := by
  rw [tempKey, List.drop_left' (be64_length a)]

theorem bytesLt_cons (x y : UInt8) (xs ys : Bytes) :
    bytesLt (x :: xs) (y :: ys) = (decide (x.toNat < y.toNat) || (decide (x.toNat = y.toNat) && bytesLt xs ys)) := by
  simp only [bytesLt, UInt8.lt_iff_toNat_lt]
  by_cases h1 : x.toNat < y.toNat
  · simp [h1]
  · by_cases h2 : y.toNat < x.toNat
    · have : ¬ x.toNat = y.toNat := by omega
      simp [h1, h2, this]
    · have : x.toNat = y.toNat := by omega
      simp [this]

theorem bytesLt_asymm (a b : Bytes) : bytesLt a b = true → bytesLt b a = false := by
  induction a generalizing b with
  | nil => cases b <;> simp [bytesLt]
  | cons x xs ih =>
    cases b with
    | nil => simp [bytesLt]
    | cons y ys =>
      rw [bytesLt_cons, bytesLt_cons]
      intro h
      simp only [Bool.or_eq_true, Bool.and_eq_true, decide_eq_true_eq] at h
      rcases h with h | ⟨h1, h2⟩
      · have h1 : ¬ y.toNat < x.toNat := by omega
        have h2 : ¬ y.toNat = x.toNat := by omega
        simp [h1, h2]
      · have h3 : ¬ y.toNat < x.toNat := by omega
        simp [h3, ih ys h2]

theorem bytesLt_cotrans (c a b : Bytes) : bytesLt c a = true → bytesLt b a = true ∨ bytesLt c b = true := by
  induction c generalizing a b with
  | nil =>
    cases a with
    | nil => simp [bytesLt]
    | cons x xs => cases b <;> simp [bytesLt]
  | cons z zs ih =>
    cases a with
    | nil => simp [bytesLt]
    | cons x xs =>
      cases b with
      | nil => simp [bytesLt]
      | cons y ys =>
        rw [bytesLt_cons, bytesLt_cons, bytesLt_cons]
        simp only [Bool.or_eq_true, Bool.and_eq_true, decide_eq_true_eq]
        intro h
        rcases h with h | ⟨h1, h2⟩
        · by_cases hy : y.toNat < x.toNat
          · exact .inl (.inl hy)
          · exact .inr (.inl (by omega))
        · by_cases hy : y.toNat < x.toNat
          · exact .inl (.inl hy)
          · by_cases hy' : y.toNat = x.toNat
            · rcases ih xs ys h2 with h | h
              · exact .inl (.inr ⟨hy', h⟩)
              · exact .inr (.inr ⟨by omega, h⟩)
            · exact .inr (.inl (by omega))

theorem bytesLe_total (a b : Bytes) : (bytesLe a b || bytesLe b a) = true := by
  unfold bytesLe
  cases h : bytesLt b a
  · simp
  · simp [bytesLt_asymm b a h]

theorem bytesLe_trans (a b c : Bytes) : bytesLe a b = true → bytesLe b c = true → bytesLe a c = true := by
  unfold bytesLe
  intro h1 h2
  cases h : bytesLt c a
  · rfl
  · rcases bytesLt_cotrans c a b h with h' | h' <;> simp [h'] at h1 h2

theorem sortKeys_pairwise (ks : List Bytes) : (sortKeys ks).Pairwise (fun a b => bytesLe a b = true) :=
  List.pairwise_mergeSort bytesLe_trans bytesLe_total ks

theorem mem_sortKeys (k : Bytes) (ks : List Bytes) : k ∈ sortKeys ks ↔ k ∈ ks := List.mem_mergeSort

theorem ValMap.get_put (m : ValMap) (h h' : UInt64) (b : Nat) :
    (m.put h b).get h' = if h' = h then some b else m.get h' := by
  induction m with
  | nil =>
    by_cases hh : h' = h
    · subst hh; simp [ValMap.put, ValMap.get]
    · have : ¬ h = h' := fun e => hh e.symm
      simp [ValMap.put, ValMap.get, hh, this]
  | cons kb rest ih =>
    obtain ⟨k, b'⟩ := kb
    by_cases hk : k = h
    · subst hk
      by_cases hh : h' = k
      · subst hh; simp [ValMap.put, ValMap.get]
      · have : ¬ k = h' := fun e => hh e.symm
        simp [ValMap.put, ValMap.get, hh, this]
    · by_cases hh : h' = h
      · subst hh
        simp [ValMap.put, ValMap.get, hk, ih]
      · by_cases hk' : k = h'
        · subst hk'; simp [ValMap.put, ValMap.get, hk]
        · simp [ValMap.put, ValMap.get, hk, hk', ih, hh]

theorem eq_toUInt64_iff (h : UInt64) (c : Nat) (hc : c < 2 ^ 64) : h = c.toUInt64 ↔ h.toNat = c := by
  constructor
  · intro e; subst e
    simp only [Nat.toUInt64_eq, UInt64.toNat_ofNat']
    exact Nat.mod_eq_of_lt hc
  · intro e; subst e; simp

/-- the cursor loop on decoded keys -/
def walkStepP (s : WalkState) (p : Nat × Nat) : WalkState :=
  let s' : WalkState :=
    if s.bm.isNone || s.cur != p.1 then { cur := p.1, bm := some 0, out := s.emit } else s
  { s' with bm := some (setBit (s'.bm.getD 0) p.2) }

def decKey (k : Bytes) : Nat × Nat := (beDecode (k.take 8), beDecode (k.drop 8))

theorem walk_eq (ks : List Bytes) (s : WalkState) :
    ks.foldl walkStep s = (ks.map decKey).foldl walkStepP s := by
  rw [List.foldl_map]; rfl

structure WalkOK (s : WalkState) (b : Nat) (L : List (Nat × Nat)) : Prop where
  bm : s.bm = some b
  cur : s.cur < 2 ^ 64
  out : ∀ k, (s.out.get k).isSome = true → k.toNat < s.cur
  ge : ∀ p ∈ L, s.cur ≤ p.1 ∧ p.1 < 2 ^ 64
  sorted : L.Pairwise (fun p q => p.1 ≤ q.1)

theorem walkStepP_same (s : WalkState) (b i : Nat) (hb : s.bm = some b) :
    walkStepP s (s.cur, i) = { s with bm := some (setBit b i) } := by
  simp [walkStepP, hb]

theorem walkStepP_new (s : WalkState) (b a i : Nat) (hb : s.bm = some b) (ha : s.cur ≠ a) :
    walkStepP s (a, i) = { cur := a, bm := some (setBit 0 i), out := s.out.put s.cur.toUInt64 b } := by
  simp [walkStepP, hb, ha, WalkState.emit]

theorem walk_sorted (L : List (Nat × Nat)) (s : WalkState) (b : Nat) (ok : WalkOK s b L) (h : UInt64) :
    (∀ j, (((L.foldl walkStepP s).emit.get h).getD 0).testBit j
      = (((s.out.get h).getD 0).testBit j || (h.toNat == s.cur && b.testBit j) || decide ((h.toNat, j) ∈ L)))
    ∧ ((L.foldl walkStepP s).emit.get h).isSome
      = ((s.out.get h).isSome || h.toNat == s.cur || L.any (·.1 == h.toNat)) := by
  induction L generalizing s b with
  | nil =>
    simp only [List.foldl_nil, WalkState.emit, ok.bm, ValMap.get_put, eq_toUInt64_iff h _ ok.cur]
    by_cases hc : h.toNat = s.cur
    · have hn : s.out.get h = none := by
        cases hg : s.out.get h with
        | none => rfl
        | some x => have := ok.out h (by simp [hg]); omega
      simp [hc, hn]
    · simp [hc]
  | cons p L ih =>
    obtain ⟨a, i⟩ := p
    have hge := ok.ge (a, i) (by simp)
    have hsorted := List.pairwise_cons.mp ok.sorted
    rw [List.foldl_cons]
    by_cases ha : s.cur = a
    · subst ha
      rw [walkStepP_same s b i ok.bm]
      have ok' : WalkOK { s with bm := some (setBit b i) } (setBit b i) L :=
        ⟨rfl, ok.cur, ok.out, fun p hp => ok.ge p (List.mem_cons_of_mem _ hp), hsorted.2⟩
      obtain ⟨h1, h2⟩ := ih _ _ ok'
      constructor
      · intro j
        rw [h1 j]
        simp only [testBit_setBit, List.mem_cons, Prod.mk.injEq, eq_comm (a := j) (b := i),
          Bool.beq_eq_decide_eq]
        by_cases hc : h.toNat = s.cur <;> by_cases hj : i = j <;> simp [hc, hj]
      · rw [h2]
        simp only [List.any_cons, Bool.beq_eq_decide_eq, eq_comm (a := s.cur) (b := h.toNat)]
        by_cases hc : h.toNat = s.cur <;> simp [hc]
    · rw [walkStepP_new s b a i ok.bm ha]
      have hlt : s.cur < a := by omega
      have ok' : WalkOK { cur := a, bm := some (setBit 0 i), out := s.out.put s.cur.toUInt64 b } (setBit 0 i) L := by
        refine ⟨rfl, hge.2, ?_, ?_, hsorted.2⟩
        · intro k
          simp only [ValMap.get_put, eq_toUInt64_iff k _ ok.cur]
          by_cases hk : k.toNat = s.cur
          · simp [hk, hlt]
          · simp only [hk, if_false]; intro hs; have := ok.out k hs; omega
        · intro p hp
          exact ⟨hsorted.1 p hp, (ok.ge p (List.mem_cons_of_mem _ hp)).2⟩
      obtain ⟨h1, h2⟩ := ih _ _ ok'
      have hnone : ∀ k : UInt64, s.cur ≤ k.toNat → s.out.get k = none := by
        intro k hk
        cases hg : s.out.get k with
        | none => rfl
        | some x => have := ok.out k (by simp [hg]); omega
      constructor
      · intro j
        rw [h1 j]
        simp only [ValMap.get_put, eq_toUInt64_iff h _ ok.cur, testBit_setBit, List.mem_cons, Prod.mk.injEq,
          eq_comm (a := j) (b := i), Bool.beq_eq_decide_eq]
        by_cases hc : h.toNat = s.cur
        · have hn := hnone h (by omega)
          simp [hc, hn, ha]
        · by_cases hj : i = j <;> simp [hc, hj, Bool.or_assoc]
      · rw [h2]
        simp only [ValMap.get_put, eq_toUInt64_iff h _ ok.cur, List.any_cons, Bool.beq_eq_decide_eq,
          eq_comm (a := a) (b := h.toNat)]
        by_cases hc : h.toNat = s.cur
        · have hn := hnone h (by omega)
          simp [hc, hn, ha]
        · simp [hc, Bool.or_assoc]


/-! ### the walk over the sorted key set -/

theorem walkP_spec (L : List (Nat × Nat)) (hs : L.Pairwise (fun p q => p.1 ≤ q.1))
    (hlt : ∀ p ∈ L, p.1 < 2 ^ 64) (h : UInt64) :
    (∀ j, (((L.foldl walkStepP {}).emit.get h).getD 0).testBit j = decide ((h.toNat, j) ∈ L))
    ∧ ((L.foldl walkStepP {}).emit.get h).isSome = L.any (·.1 == h.toNat) := by
  cases L with
  | nil => simp [WalkState.emit, ValMap.get]
  | cons p L =>
    obtain ⟨a, i⟩ := p
    have e : walkStepP {} (a, i) = { cur := a, bm := some (setBit 0 i), out := [] } := by
      simp [walkStepP, WalkState.emit]
    have hp := List.pairwise_cons.mp hs
    have ok : WalkOK { cur := a, bm := some (setBit 0 i), out := [] } (setBit 0 i) L :=
      ⟨rfl, hlt (a, i) (by simp), by simp [ValMap.get],
        fun p hp' => ⟨hp.1 p hp', hlt p (List.mem_cons_of_mem _ hp')⟩, hp.2⟩
    obtain ⟨h1, h2⟩ := walk_sorted L _ _ ok h
    rw [List.foldl_cons, e]
    constructor
    · intro j
      rw [h1 j]
      simp only [ValMap.get, Option.getD_none, Nat.zero_testBit, Bool.false_or, testBit_setBit, List.mem_cons,
        Prod.mk.injEq, Bool.beq_eq_decide_eq, eq_comm (a := j) (b := i)]
      by_cases hc : h.toNat = a <;> by_cases hj : i = j <;> simp [hc, hj]
    · rw [h2]
      simp only [ValMap.get, Option.isSome_none, Bool.false_or, List.any_cons, Bool.beq_eq_decide_eq,
        eq_comm (a := a) (b := h.toNat)]

/-- every key of the temp bucket is a 12-byte key `be64 a ‖ be32 i` -/
def KeysWF (ks : List Bytes) : Prop := ∀ k ∈ ks, ∃ a i, a < 2 ^ 64 ∧ i < 2 ^ 32 ∧ k = tempKey a i

theorem decKey_tempKey (a i : Nat) (ha : a < 2 ^ 64) (hi : i < 2 ^ 32) : decKey (tempKey a i) = (a, i) := by
  simp only [decKey, take_tempKey, drop_tempKey, be64_roundtrip a ha, be32_roundtrip i hi]

theorem sorted_decoded (ks : List Bytes) (wf : KeysWF ks) :
    ((sortKeys ks).map decKey).Pairwise (fun p q => p.1 ≤ q.1) := by
  rw [List.pairwise_map]
  refine List.Pairwise.imp_of_mem ?_ (sortKeys_pairwise ks)
  intro k1 k2 h1 h2 hle
  obtain ⟨a, i, ha, hi, e1⟩ := wf k1 ((mem_sortKeys _ _).mp h1)
  obtain ⟨b, j, hb, hj, e2⟩ := wf k2 ((mem_sortKeys _ _).mp h2)
  subst e1 e2
  rw [decKey_tempKey a i ha hi, decKey_tempKey b j hb hj]
  have := tempKey_lt b a j i hb ha hj hi
  unfold bytesLe at hle
  cases hlt : bytesLt (tempKey b j) (tempKey a i) with
  | true => simp [hlt] at hle
  | false =>
    rw [hlt] at this
    simp only [Bool.false_eq_true, false_iff] at this
    show a ≤ b
    omega

/-- what `Flush` writes for a well-formed temp key set: bit `j` of the bitmap of `h` is set iff the key
    `(h, j)` is in the temp bucket, and `h` is a key of the data bucket iff some `(h, _)` is -/
theorem walk_keys_spec (ks : List Bytes) (wf : KeysWF ks) (h : UInt64) :
    (∀ j, (((walk (sortKeys ks)).get h).getD 0).testBit j = decide ((h.toNat, j) ∈ ks.map decKey))
    ∧ ((walk (sortKeys ks)).get h).isSome = (ks.map decKey).any (·.1 == h.toNat) := by
  have hlt : ∀ p ∈ (sortKeys ks).map decKey, p.1 < 2 ^ 64 := by
    intro p hp
    obtain ⟨k, hk, e⟩ := List.mem_map.mp hp
    obtain ⟨a, i, ha, hi, e1⟩ := wf k ((mem_sortKeys _ _).mp hk)
    subst e1; rw [decKey_tempKey a i ha hi] at e; subst e; exact ha
  obtain ⟨h1, h2⟩ := walkP_spec _ (sorted_decoded ks wf) hlt h
  unfold walk
  rw [walk_eq]
  have hmem : ∀ p, p ∈ (sortKeys ks).map decKey ↔ p ∈ ks.map decKey := by
    intro p; simp only [List.mem_map, mem_sortKeys]
  constructor
  · intro j
    rw [h1 j]
    exact decide_eq_decide.mpr (hmem _)
  · rw [h2, Bool.eq_iff_iff]
    simp only [List.any_eq_true]
    constructor
    · rintro ⟨p, hp, e⟩; exact ⟨p, (hmem p).mp hp, e⟩
    · rintro ⟨p, hp, e⟩; exact ⟨p, (hmem p).mpr hp, e⟩

/-! ### simulation of the in-memory writer -/

theorem mem_insertKey (t : List Bytes) (k k' : Bytes) : k ∈ insertKey t k' ↔ k ∈ t ∨ k = k' := by
  unfold insertKey
  by_cases h : k' ∈ t
  · have hc : t.contains k' = true := by simpa using h
    simp only [hc, if_true]
    constructor
    · exact .inl
    · rintro (h' | h')
      · exact h'
      · subst h'; exact h
  · simp [h]

section
variable (H : Bytes → UInt64)

theorem big_addPair_fold_next (k : Nat) (r : Row) (w : BigWriter) :
    (r.foldl (BigWriter.addPair H k) w).next = w.next := by
  induction r generalizing w with
  | nil => rfl
  | cons kv r ih => simp [List.foldl, ih, BigWriter.addPair]

theorem big_addPair_fold_temp (n : Nat) (r : Row) (w : BigWriter) (k : Bytes) :
    k ∈ (r.foldl (BigWriter.addPair H n) w).temp
      ↔ k ∈ w.temp ∨ ∃ kv ∈ r, k = tempKey (hashOf H kv).toNat n := by
  induction r generalizing w with
  | nil => simp
  | cons kv r ih =>
    rw [List.foldl, ih]
    simp only [BigWriter.addPair, mem_insertKey, List.mem_cons, exists_eq_or_imp, hashOf, or_assoc]

theorem big_addPair_fold_schema (n m : Nat) (r : Row) (bw : BigWriter) (w : Writer) (hs : bw.schema = w.schema) :
    (r.foldl (BigWriter.addPair H n) bw).schema = (r.foldl (Writer.addPair H m) w).schema := by
  induction r generalizing bw w with
  | nil => exact hs
  | cons kv r ih =>
    rw [List.foldl, List.foldl]
    apply ih
    simp [BigWriter.addPair, Writer.addPair, hs]

theorem big_addRows_schema (rows : List Row) (bw : BigWriter) (w : Writer) (hs : bw.schema = w.schema) :
    (BigWriter.addRows H bw rows).schema = (Writer.addRows H w rows).schema := by
  induction rows generalizing bw w with
  | nil => exact hs
  | cons r rows ih =>
    simp only [BigWriter.addRows, Writer.addRows, List.foldl] at ih ⊢
    apply ih
    simp only [BigWriter.addRow, Writer.addRow]
    exact big_addPair_fold_schema H _ _ r bw w hs

/-- the temp bucket holds exactly the keys `(h, j)` such that row `j` has a pair hashing to `h` -/
structure BInv (w : BigWriter) (rows : List Row) : Prop where
  next : w.next = rows.length
  temp : ∀ k, k ∈ w.temp ↔ ∃ h j, rowHas H rows h j = true ∧ k = tempKey h.toNat j

theorem BInv.init : BInv H {} [] := by
  constructor
  · rfl
  · intro k; simp [rowHas]

theorem BInv.addRow {w : BigWriter} {rows : List Row} (hw : BInv H w rows) (r : Row) :
    BInv H (BigWriter.addRow H w r) (rows ++ [r]) := by
  constructor
  · simp [BigWriter.addRow, hw.next]
  · intro k
    simp only [BigWriter.addRow]
    rw [big_addPair_fold_temp, hw.temp, hw.next]
    simp only [rowHas_append, Bool.or_eq_true, Bool.and_eq_true, decide_eq_true_eq, List.any_eq_true, beq_iff_eq]
    constructor
    · rintro (⟨h, j, h1, h2⟩ | ⟨kv, h1, h2⟩)
      · exact ⟨h, j, .inl h1, h2⟩
      · exact ⟨hashOf H kv, rows.length, .inr ⟨rfl, kv, h1, rfl⟩, h2⟩
    · rintro ⟨h, j, (h1 | ⟨h1, kv, h3, h4⟩), h2⟩
      · exact .inl ⟨h, j, h1, h2⟩
      · subst h1 h4; exact .inr ⟨kv, h3, h2⟩

theorem BInv.addRows {w : BigWriter} {rows : List Row} (hw : BInv H w rows) (more : List Row) :
    BInv H (BigWriter.addRows H w more) (rows ++ more) := by
  induction more generalizing w rows with
  | nil => simpa [BigWriter.addRows] using hw
  | cons r more ih =>
    have := ih (hw.addRow H r)
    simpa [BigWriter.addRows, List.foldl, List.append_assoc] using this

theorem binv_addRows (rows : List Row) : BInv H (BigWriter.addRows H {} rows) rows := by
  simpa using (BInv.init H).addRows H rows

theorem rowHas_lt (rows : List Row) (h : UInt64) (j : Nat) (hr : rowHas H rows h j = true) : j < rows.length := by
  unfold rowHas at hr
  by_cases hj : j < rows.length
  · exact hj
  · have : rows[j]? = none := List.getElem?_eq_none (by omega)
    simp [this] at hr

theorem BInv.wf {w : BigWriter} {rows : List Row} (hw : BInv H w rows) (hlen : rows.length ≤ 2 ^ 32) :
    KeysWF w.temp := by
  intro k hk
  obtain ⟨h, j, h1, h2⟩ := (hw.temp k).mp hk
  have := rowHas_lt H rows h j h1
  exact ⟨h.toNat, j, h.toNat_lt, by omega, h2⟩

theorem BInv.mem_dec {w : BigWriter} {rows : List Row} (hw : BInv H w rows) (hlen : rows.length ≤ 2 ^ 32)
    (h : UInt64) (j : Nat) : (h.toNat, j) ∈ w.temp.map decKey ↔ rowHas H rows h j = true := by
  simp only [List.mem_map, hw.temp]
  constructor
  · rintro ⟨k, ⟨h', j', h1, h2⟩, e⟩
    subst h2
    have := rowHas_lt H rows h' j' h1
    rw [decKey_tempKey _ _ h'.toNat_lt (by omega)] at e
    simp only [Prod.mk.injEq] at e
    obtain ⟨e1, e2⟩ := e
    have := UInt64.toNat_inj.mp e1
    subst this e2
    exact h1
  · intro hr
    have := rowHas_lt H rows h j hr
    exact ⟨_, ⟨h, j, hr, rfl⟩, decKey_tempKey _ _ h.toNat_lt (by omega)⟩

/-! ### keys of the in-memory writer's map -/

theorem ValMap.isSome_get_addBit (m : ValMap) (h h' : UInt64) (i : Nat) :
    ((m.addBit h i).get h').isSome = (decide (h' = h) || (m.get h').isSome) := by
  induction m with
  | nil =>
    by_cases hh : h' = h
    · subst hh; simp [ValMap.addBit, ValMap.get]
    · have : ¬ h = h' := fun e => hh e.symm
      simp [ValMap.addBit, ValMap.get, hh, this]
  | cons kb rest ih =>
    obtain ⟨k, b⟩ := kb
    by_cases hk : k = h
    · subst hk
      by_cases hh : h' = k
      · subst hh; simp [ValMap.addBit, ValMap.get]
      · have : ¬ k = h' := fun e => hh e.symm
        simp [ValMap.addBit, ValMap.get, hh, this]
    · by_cases hk' : k = h'
      · subst hk'; simp [ValMap.addBit, ValMap.get, hk]
      · simp [ValMap.addBit, ValMap.get, hk, hk', ih]

/-- some row has a pair hashing to `h` -/
def hashIn (rows : List Row) (h : UInt64) : Bool := rows.any fun r => r.any fun kv => hashOf H kv == h

theorem addPair_fold_isSome (k : Nat) (r : Row) (w : Writer) (h : UInt64) :
    ((r.foldl (Writer.addPair H k) w).vals.get h).isSome
      = ((w.vals.get h).isSome || r.any fun kv => hashOf H kv == h) := by
  induction r generalizing w with
  | nil => simp
  | cons kv r ih =>
    rw [List.foldl, ih]
    simp only [Writer.addPair, ValMap.isSome_get_addBit, List.any_cons, hashOf, Bool.beq_eq_decide_eq,
      eq_comm (a := h)]
    cases (w.vals.get h).isSome <;> cases decide (H (encodePair kv.1 kv.2) = h) <;> simp

theorem addRows_isSome (rows : List Row) (w : Writer) (h : UInt64) :
    ((Writer.addRows H w rows).vals.get h).isSome = ((w.vals.get h).isSome || hashIn H rows h) := by
  induction rows generalizing w with
  | nil => simp [Writer.addRows, hashIn]
  | cons r rows ih =>
    simp only [Writer.addRows, List.foldl] at ih ⊢
    rw [ih]
    simp only [Writer.addRow, addPair_fold_isSome, hashIn, List.any_cons, Bool.or_assoc]

theorem hashIn_iff (rows : List Row) (h : UInt64) : hashIn H rows h = true ↔ ∃ j, rowHas H rows h j = true := by
  unfold hashIn rowHas
  rw [List.any_eq_true]
  constructor
  · rintro ⟨r, hr, h1⟩
    obtain ⟨j, hj, e⟩ := List.getElem_of_mem hr
    exact ⟨j, by simp [List.getElem?_eq_getElem hj, e, h1]⟩
  · rintro ⟨j, hj⟩
    cases e : rows[j]? with
    | none => simp [e] at hj
    | some r =>
      simp only [e] at hj
      exact ⟨r, List.mem_of_getElem? e, hj⟩

/-! ### agreement -/

theorem image_fst (rows : List Row) : (BigWriter.image H rows).1 = walk (sortKeys (BigWriter.addRows H {} rows).temp) := rfl

theorem image_testBit (rows : List Row) (hlen : rows.length ≤ 2 ^ 32) (h : UInt64) (j : Nat) :
    (((BigWriter.image H rows).1.get h).getD 0).testBit j = rowHas H rows h j := by
  have inv := binv_addRows H rows
  rw [image_fst, (walk_keys_spec _ (inv.wf H hlen) h).1 j, Bool.eq_iff_iff, decide_eq_true_iff]
  exact inv.mem_dec H hlen h j

theorem image_isSome (rows : List Row) (hlen : rows.length ≤ 2 ^ 32) (h : UInt64) :
    ((BigWriter.image H rows).1.get h).isSome = hashIn H rows h := by
  have inv := binv_addRows H rows
  rw [image_fst, (walk_keys_spec _ (inv.wf H hlen) h).2, Bool.eq_iff_iff, hashIn_iff, List.any_eq_true]
  constructor
  · rintro ⟨⟨a, j⟩, hp, e⟩
    simp only [beq_iff_eq] at e
    subst e
    exact ⟨j, (inv.mem_dec H hlen h j).mp hp⟩
  · rintro ⟨j, hj⟩
    exact ⟨(h.toNat, j), (inv.mem_dec H hlen h j).mpr hj, by simp⟩

/-! ### ids returned by AddRow -/

/-- the ids `BigIndexWriter.AddRow` returns, in call order -/
def BigWriter.addRowsIds (w : BigWriter) : List Row → List Nat
  | [] => []
  | r :: rs => w.next :: BigWriter.addRowsIds (BigWriter.addRow H w r) rs

theorem big_addRowsIds_eq (w : BigWriter) (rows : List Row) :
    BigWriter.addRowsIds H w rows = (List.range rows.length).map (w.next + ·) := by
  induction rows generalizing w with
  | nil => simp [BigWriter.addRowsIds]
  | cons r rs ih =>
    simp only [BigWriter.addRowsIds, ih, List.length_cons, List.range_succ_eq_map, List.map_cons, List.map_map]
    simp [BigWriter.addRow, Function.comp]
    intro a _; omega

theorem big_addRows_next (rows : List Row) (w : BigWriter) :
    (BigWriter.addRows H w rows).next = w.next + rows.length := by
  induction rows generalizing w with
  | nil => rfl
  | cons r rows ih =>
    simp only [BigWriter.addRows, List.foldl] at ih ⊢
    rw [ih]; simp [BigWriter.addRow]; omega

end
end Updog
