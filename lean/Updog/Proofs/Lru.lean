/-
Helper definitions and lemmas for C07 (LRU cache, model in Updog/Model/Lru.lean).
-/
import Updog.Model.Lru
namespace Updog

/-! ## Definitions -/

/-- accounted size of a recency list: every entry costs its bitmap size plus the fixed overhead -/
def total (ovh : Nat) (items : List Item) : Nat := (items.map fun it => it.size + ovh).sum

/-- sum of the bitmap sizes only -/
def sizes (items : List Item) : Nat := (items.map (·.size)).sum

/-- representation invariant of the cache: keys are unique and `cur` is the exact accounted size -/
structure Lru.Inv (c : Lru) : Prop where
  nodup : (c.items.map (·.key)).Nodup
  acct : c.cur = total c.ovh c.items

/-- `NewLRUCache(max)` -/
def Lru.empty (max ovh : Nat) : Lru := { max := max, ovh := ovh }

/-- bitmap id stored by the last `put k _ _` of the history `ops` (`none` if there is none) -/
def lastPut : List LruOp → Nat → Option Nat
  | [], _ => none
  | .get _ :: ops, k => lastPut ops k
  | .put k' b _ :: ops, k =>
    match lastPut ops k with
    | some b' => some b'
    | none => if k' = k then some b else none

def LruOp.isGet : LruOp → Bool
  | .get _ => true
  | .put .. => false

def LruOp.isPut : LruOp → Bool
  | .get _ => false
  | .put .. => true

/-- the list that `Put k` builds before it runs the eviction loop -/
def putList (c : Lru) (k bm size : Nat) : List Item :=
  ⟨k, size, bm⟩ :: c.items.filter (·.key != k)

/-! ## total / sizes -/

@[simp] theorem total_nil (ovh : Nat) : total ovh [] = 0 := rfl
@[simp] theorem total_cons (ovh : Nat) (a : Item) (t : List Item) :
    total ovh (a :: t) = a.size + ovh + total ovh t := by simp [total]
@[simp] theorem sizes_nil : sizes [] = 0 := rfl
@[simp] theorem sizes_cons (a : Item) (t : List Item) : sizes (a :: t) = a.size + sizes t := by
  simp [sizes]

theorem total_append (ovh : Nat) (a b : List Item) :
    total ovh (a ++ b) = total ovh a + total ovh b := by
  simp [total]

theorem sizes_le_total (ovh : Nat) (items : List Item) : sizes items ≤ total ovh items := by
  induction items with
  | nil => simp
  | cons a t ih => simp; omega

theorem total_dropLast (ovh : Nat) (items : List Item) (h : items ≠ []) :
    total ovh items = total ovh items.dropLast + ((items.getLast h).size + ovh) := by
  have := List.dropLast_concat_getLast h
  conv => lhs; rw [← this]
  simp [total_append]

theorem total_mem_le (ovh : Nat) (items : List Item) (it : Item) (h : it ∈ items) :
    it.size + ovh ≤ total ovh items := by
  induction items with
  | nil => cases h
  | cons a t ih =>
    rcases List.mem_cons.1 h with rfl | h
    · simp
    · have := ih h; simp; omega

/-! ## evict -/

theorem evict_acct (ovh max : Nat) (items : List Item) (cur : Nat) (h : cur = total ovh items) :
    (evict ovh max items cur).2 = total ovh (evict ovh max items cur).1 := by
  fun_induction evict ovh max items cur with
  | case1 items cur hc ih =>
    apply ih
    rw [total_dropLast ovh items hc.2] at h
    omega
  | case2 items cur hc => exact h

theorem evict_bound (ovh max : Nat) (items : List Item) (cur : Nat) :
    (evict ovh max items cur).2 ≤ max ∨ (evict ovh max items cur).1 = [] := by
  fun_induction evict ovh max items cur with
  | case1 items cur hc ih => exact ih
  | case2 items cur hc =>
    by_cases h1 : cur ≤ max
    · exact Or.inl h1
    · right
      simp only
      by_cases h2 : items = []
      · exact h2
      · exact absurd ⟨by omega, h2⟩ hc

theorem evict_prefix (ovh max : Nat) (items : List Item) (cur : Nat) :
    (evict ovh max items cur).1 <+: items := by
  fun_induction evict ovh max items cur with
  | case1 items cur hc ih => exact ih.trans (List.dropLast_prefix items)
  | case2 items cur hc => exact List.prefix_refl _

theorem evict_fits (ovh max : Nat) (items : List Item) (cur : Nat) (h : cur ≤ max) :
    evict ovh max items cur = (items, cur) := by
  unfold evict
  have : ¬ (cur > max ∧ items ≠ []) := by omega
  simp [this]

/-- an entry that fits on its own at the front of the list is never evicted -/
theorem evict_head (ovh max : Nat) (items : List Item) (cur : Nat) (a : Item)
    (ha : a.size + ovh ≤ max) (h : cur = total ovh items) :
    ∀ t, items = a :: t → ∃ t', (evict ovh max items cur).1 = a :: t' := by
  fun_induction evict ovh max items cur with
  | case1 items cur hc ih =>
    intro t ht
    subst ht
    cases t with
    | nil => simp at h; omega
    | cons b t =>
      refine ih ?_ ((b :: t).dropLast) (by simp)
      rw [total_dropLast ovh _ hc.2] at h; omega
  | case2 items cur hc => intro t ht; exact ⟨t, ht⟩

/-- eviction removes as few entries as possible: every longer prefix of the recency list is over budget -/
theorem evict_minimal (ovh max : Nat) (items : List Item) (cur : Nat) (h : cur = total ovh items) :
    ∀ p, p <+: items → (evict ovh max items cur).1.length < p.length → max < total ovh p := by
  fun_induction evict ovh max items cur with
  | case1 items cur hc ih =>
    intro p hp hl
    obtain ⟨s, hs⟩ := hp
    by_cases hnil : s = []
    · subst hnil
      simp at hs
      subst hs
      omega
    · refine ih ?_ p ?_ hl
      · rw [total_dropLast ovh items hc.2] at h; omega
      · refine ⟨s.dropLast, ?_⟩
        rw [← hs, List.dropLast_append_of_ne_nil hnil]
  | case2 items cur hc =>
    intro p hp hl
    have := hp.length_le
    simp only at hl
    omega

/-! ## find? / filter on lists with unique keys -/

theorem find_key {items : List Item} {k : Nat} {it : Item}
    (h : items.find? (·.key == k) = some it) : it.key = k ∧ it ∈ items := by
  have h1 := List.find?_some h
  have h2 := List.mem_of_find?_eq_some h
  simp at h1
  exact ⟨h1, h2⟩

theorem filter_of_find_none {items : List Item} {k : Nat}
    (h : items.find? (·.key == k) = none) : items.filter (·.key != k) = items := by
  rw [List.filter_eq_self]
  intro a ha
  have := List.find?_eq_none.1 h a ha
  simpa using this

theorem filter_of_not_mem {items : List Item} {k : Nat}
    (h : k ∉ items.map (·.key)) : items.filter (·.key != k) = items := by
  rw [List.filter_eq_self]
  intro a ha
  have : a.key ≠ k := fun e => h (e ▸ List.mem_map_of_mem ha)
  simpa using this

theorem key_not_mem_filter (items : List Item) (k : Nat) :
    k ∉ (items.filter (·.key != k)).map (·.key) := by
  intro h
  obtain ⟨a, ha, hk⟩ := List.mem_map.1 h
  have := (List.mem_filter.1 ha).2
  simp at this
  exact this hk

theorem nodup_filter {items : List Item} (k : Nat) (h : (items.map (·.key)).Nodup) :
    ((items.filter (·.key != k)).map (·.key)).Nodup :=
  List.Nodup.sublist ((List.filter_sublist (l := items)).map _) h

/-- moving the found entry to the front is a permutation (unique keys) -/
theorem perm_move_front {items : List Item} {k : Nat} {it : Item}
    (hn : (items.map (·.key)).Nodup) (h : items.find? (·.key == k) = some it) :
    (it :: items.filter (·.key != k)).Perm items := by
  induction items with
  | nil => simp at h
  | cons a t ih =>
    rw [List.map_cons, List.nodup_cons] at hn
    by_cases hk : a.key = k
    · have : it = a := by simpa [List.find?, hk] using h.symm
      subst this
      have hnot : k ∉ t.map (·.key) := hk ▸ hn.1
      simp [hk, filter_of_not_mem hnot]
    · have hk' : (a.key == k) = false := by simpa using hk
      rw [List.find?_cons, hk'] at h
      have := ih hn.2 h
      have hf : (a :: t).filter (·.key != k) = a :: t.filter (·.key != k) := by
        simp [hk]
      rw [hf]
      exact (List.Perm.swap a it _).trans (this.cons a)

theorem total_perm (ovh : Nat) {a b : List Item} (h : a.Perm b) : total ovh a = total ovh b := by
  induction h with
  | nil => rfl
  | cons x _ ih => simp [ih]
  | swap x y l => simp; omega
  | trans _ _ ih1 ih2 => exact ih1.trans ih2

theorem total_move_front (ovh : Nat) {items : List Item} {k : Nat} {it : Item}
    (hn : (items.map (·.key)).Nodup) (h : items.find? (·.key == k) = some it) :
    total ovh items = it.size + ovh + total ovh (items.filter (·.key != k)) := by
  rw [← total_perm ovh (perm_move_front hn h)]; simp

/-! ## get -/

theorem get_hit (c : Lru) (k : Nat) (it : Item) (h : c.items.find? (·.key == k) = some it) :
    c.get k = ({ c with gets := c.gets + 1, hits := c.hits + 1,
                        items := it :: c.items.filter (·.key != k) }, some it.bm) := by
  simp [Lru.get, h]

theorem get_miss (c : Lru) (k : Nat) (h : c.items.find? (·.key == k) = none) :
    c.get k = ({ c with gets := c.gets + 1, misses := c.misses + 1 }, none) := by
  simp [Lru.get, h]

theorem get_some_iff (c : Lru) (k b : Nat) :
    (c.get k).2 = some b ↔ ∃ it, c.items.find? (·.key == k) = some it ∧ it.bm = b := by
  cases h : c.items.find? (·.key == k) with
  | none => simp [get_miss c k h]
  | some it => simp [get_hit c k it h]

theorem get_fields (c : Lru) (k : Nat) :
    (c.get k).1.max = c.max ∧ (c.get k).1.ovh = c.ovh ∧ (c.get k).1.cur = c.cur ∧
    (c.get k).1.puts = c.puts := by
  cases h : c.items.find? (·.key == k) with
  | none => simp [get_miss c k h]
  | some it => simp [get_hit c k it h]

theorem get_mem (c : Lru) (k : Nat) (x : Item) (hx : x ∈ (c.get k).1.items) : x ∈ c.items := by
  cases h : c.items.find? (·.key == k) with
  | none => simpa [get_miss c k h] using hx
  | some it =>
    rw [get_hit c k it h] at hx
    rcases List.mem_cons.1 hx with rfl | hx
    · exact (find_key h).2
    · exact (List.mem_filter.1 hx).1

theorem get_perm (c : Lru) (k : Nat) (hc : c.Inv) : (c.get k).1.items.Perm c.items := by
  cases h : c.items.find? (·.key == k) with
  | none => simp [get_miss c k h]
  | some it => rw [get_hit c k it h]; exact perm_move_front hc.nodup h

theorem get_inv (c : Lru) (k : Nat) (hc : c.Inv) : (c.get k).1.Inv := by
  have hp := get_perm c k hc
  obtain ⟨h1, h2, h3, -⟩ := get_fields c k
  constructor
  · exact (hp.map (·.key)).nodup_iff.2 hc.nodup
  · rw [h3, h2, total_perm _ hp]; exact hc.acct

/-! ## put -/

/-- Under the invariant both branches of `Put` are: build `putList`, account it exactly, evict. -/
theorem put_eq (c : Lru) (k bm size : Nat) (hc : c.Inv) :
    c.put k bm size =
      { c with puts := c.puts + 1,
               items := (evict c.ovh c.max (putList c k bm size) (total c.ovh (putList c k bm size))).1,
               cur := (evict c.ovh c.max (putList c k bm size) (total c.ovh (putList c k bm size))).2 } := by
  cases h : c.items.find? (·.key == k) with
  | none =>
    have hf := filter_of_find_none h
    have : c.cur + size + c.ovh = total c.ovh (putList c k bm size) := by
      simp [putList, hf, hc.acct]; omega
    simp only [Lru.put, h, this]
    simp [putList, hf]
  | some it =>
    have ht := total_move_front c.ovh hc.nodup h
    have : c.cur - it.size + size = total c.ovh (putList c k bm size) := by
      simp [putList, hc.acct]; omega
    simp only [Lru.put, h, this]
    simp [putList]

theorem put_fields (c : Lru) (k bm size : Nat) :
    (c.put k bm size).max = c.max ∧ (c.put k bm size).ovh = c.ovh ∧
    (c.put k bm size).gets = c.gets ∧ (c.put k bm size).puts = c.puts + 1 ∧
    (c.put k bm size).hits = c.hits ∧ (c.put k bm size).misses = c.misses := by
  unfold Lru.put
  split <;> simp

/-- without any invariant: what survives a `Put` is a prefix of `putList` -/
theorem put_prefix (c : Lru) (k bm size : Nat) :
    (c.put k bm size).items <+: putList c k bm size := by
  cases h : c.items.find? (·.key == k) with
  | none =>
    simp only [Lru.put, h, putList, filter_of_find_none h]
    exact evict_prefix ..
  | some it =>
    simp only [Lru.put, h, putList]
    exact evict_prefix ..

theorem nodup_putList (c : Lru) (k bm size : Nat) (hc : c.Inv) :
    ((putList c k bm size).map (·.key)).Nodup := by
  simp only [putList, List.map_cons, List.nodup_cons]
  exact ⟨key_not_mem_filter _ _, nodup_filter k hc.nodup⟩

theorem put_inv (c : Lru) (k bm size : Nat) (hc : c.Inv) : (c.put k bm size).Inv := by
  constructor
  · exact List.Nodup.sublist ((put_prefix c k bm size).sublist.map _) (nodup_putList c k bm size hc)
  · rw [put_eq c k bm size hc]
    exact evict_acct _ _ _ _ rfl

theorem put_bound (c : Lru) (k bm size : Nat) (hc : c.Inv) :
    total (c.put k bm size).ovh (c.put k bm size).items ≤ (c.put k bm size).max ∨
      (c.put k bm size).items = [] := by
  have hi := (put_inv c k bm size hc).acct
  rw [← hi]
  rw [put_eq c k bm size hc]
  exact evict_bound ..

theorem put_head (c : Lru) (k bm size : Nat) (hc : c.Inv) (hfit : size + c.ovh ≤ c.max) :
    ∃ t', (c.put k bm size).items = ⟨k, size, bm⟩ :: t' := by
  rw [put_eq c k bm size hc]
  exact evict_head c.ovh c.max _ _ ⟨k, size, bm⟩ hfit rfl _ rfl

/-! ## step / run -/

theorem step_inv (c : Lru) (op : LruOp) (hc : c.Inv) : (c.step op).1.Inv := by
  cases op with
  | get k => exact get_inv c k hc
  | put k bm size => exact put_inv c k bm size hc

theorem step_fields (c : Lru) (op : LruOp) :
    (c.step op).1.max = c.max ∧ (c.step op).1.ovh = c.ovh := by
  cases op with
  | get k => exact ⟨(get_fields c k).1, (get_fields c k).2.1⟩
  | put k bm size => exact ⟨(put_fields c k bm size).1, (put_fields c k bm size).2.1⟩

@[simp] theorem run_nil (c : Lru) : c.run [] = (c, []) := rfl
theorem run_cons (c : Lru) (op : LruOp) (ops : List LruOp) :
    c.run (op :: ops) = (((c.step op).1.run ops).1, (c.step op).2 :: ((c.step op).1.run ops).2) := rfl

theorem run_append (c : Lru) (a b : List LruOp) :
    c.run (a ++ b) = (((c.run a).1.run b).1, (c.run a).2 ++ ((c.run a).1.run b).2) := by
  induction a generalizing c with
  | nil => simp
  | cons op a ih => simp [run_cons, ih]

theorem run_length (c : Lru) (ops : List LruOp) : (c.run ops).2.length = ops.length := by
  induction ops generalizing c with
  | nil => simp
  | cons op ops ih => simp [run_cons, ih]

theorem run_inv (c : Lru) (ops : List LruOp) (hc : c.Inv) : (c.run ops).1.Inv := by
  induction ops generalizing c with
  | nil => exact hc
  | cons op ops ih => rw [run_cons]; exact ih _ (step_inv c op hc)

theorem run_fields (c : Lru) (ops : List LruOp) :
    (c.run ops).1.max = c.max ∧ (c.run ops).1.ovh = c.ovh := by
  induction ops generalizing c with
  | nil => simp
  | cons op ops ih =>
    rw [run_cons]
    obtain ⟨h1, h2⟩ := ih (c.step op).1
    obtain ⟨h3, h4⟩ := step_fields c op
    exact ⟨h1.trans h3, h2.trans h4⟩

theorem empty_inv (max ovh : Nat) : (Lru.empty max ovh).Inv := ⟨by simp [Lru.empty], rfl⟩

/-- the byte bound as a state predicate -/
def Lru.Bounded (c : Lru) : Prop := total c.ovh c.items ≤ c.max ∨ c.items = []

theorem step_bounded (c : Lru) (op : LruOp) (hc : c.Inv) (hb : c.Bounded) : (c.step op).1.Bounded := by
  cases op with
  | put k bm size => exact put_bound c k bm size hc
  | get k =>
    have hp := get_perm c k hc
    obtain ⟨h1, h2, -, -⟩ := get_fields c k
    simp only [Lru.step, Lru.Bounded, h1, h2, total_perm _ hp]
    rcases hb with hb | hb
    · exact Or.inl hb
    · right; rw [hb] at hp; exact List.perm_nil.1 hp

theorem run_bounded (c : Lru) (ops : List LruOp) (hc : c.Inv) (hb : c.Bounded) :
    (c.run ops).1.Bounded := by
  induction ops generalizing c with
  | nil => exact hb
  | cons op ops ih => rw [run_cons]; exact ih _ (step_inv c op hc) (step_bounded c op hc hb)

/-! ## history: resident bitmaps are the last ones put -/

theorem lastPut_append (a b : List LruOp) (k : Nat) :
    lastPut (a ++ b) k = match lastPut b k with | some x => some x | none => lastPut a k := by
  induction a with
  | nil => simp only [List.nil_append]; cases lastPut b k <;> simp [lastPut]
  | cons op a ih =>
    cases op with
    | get k' => simpa [lastPut] using ih
    | put k' b' s =>
      simp only [List.cons_append, lastPut, ih]
      cases lastPut b k <;> simp

theorem lastPut_snoc_get (a : List LruOp) (k' k : Nat) : lastPut (a ++ [.get k']) k = lastPut a k := by
  simp [lastPut_append, lastPut]

theorem lastPut_snoc_put (a : List LruOp) (k' b s k : Nat) :
    lastPut (a ++ [.put k' b s]) k = if k' = k then some b else lastPut a k := by
  simp only [lastPut_append, lastPut]
  split <;> simp_all

theorem lastPut_some_mem (ops : List LruOp) (k b : Nat) (h : lastPut ops k = some b) :
    ∃ s, LruOp.put k b s ∈ ops := by
  induction ops with
  | nil => simp [lastPut] at h
  | cons op ops ih =>
    cases op with
    | get k' =>
      obtain ⟨s, hs⟩ := ih (by simpa [lastPut] using h)
      exact ⟨s, List.mem_cons_of_mem _ hs⟩
    | put k' b' s' =>
      simp only [lastPut] at h
      cases hl : lastPut ops k with
      | some x =>
        rw [hl] at h
        obtain ⟨s, hs⟩ := ih (by rw [hl]; exact h)
        exact ⟨s, List.mem_cons_of_mem _ hs⟩
      | none =>
        rw [hl] at h
        simp only at h
        split at h
        · rename_i hk
          cases h
          subst hk
          exact ⟨s', List.mem_cons_self⟩
        · cases h

/-- every resident entry holds the bitmap of the last `put` of its key in the history -/
def Resident (c : Lru) (hist : List LruOp) : Prop :=
  ∀ it ∈ c.items, lastPut hist it.key = some it.bm

theorem step_resident (c : Lru) (hist : List LruOp) (op : LruOp) (h : Resident c hist) :
    Resident (c.step op).1 (hist ++ [op]) := by
  intro x hx
  cases op with
  | get k =>
    rw [lastPut_snoc_get]
    exact h x (get_mem c k x hx)
  | put k bm size =>
    rw [lastPut_snoc_put]
    have := (put_prefix c k bm size).subset hx
    simp only [putList] at this
    rcases List.mem_cons.1 this with rfl | hm
    · simp
    · have hm' := List.mem_filter.1 hm
      have hne : ¬ k = x.key := by
        have := hm'.2; simp at this; exact fun e => this e.symm
      simp only [hne, if_false]
      exact h x hm'.1

theorem run_resident (c : Lru) (hist ops : List LruOp) (h : Resident c hist) :
    Resident (c.run ops).1 (hist ++ ops) := by
  induction ops generalizing c hist with
  | nil => simpa using h
  | cons op ops ih =>
    rw [run_cons]
    have := ih _ _ (step_resident c hist op h)
    simpa using this

theorem get_resident (c : Lru) (hist : List LruOp) (k b : Nat) (h : Resident c hist)
    (hb : (c.get k).2 = some b) : lastPut hist k = some b := by
  obtain ⟨it, hf, rfl⟩ := (get_some_iff c k b).1 hb
  obtain ⟨hk, hm⟩ := find_key hf
  rw [← hk]; exact h it hm

/-! ## counters -/

def numGets (ops : List LruOp) : Nat := ops.countP LruOp.isGet
def numPuts (ops : List LruOp) : Nat := ops.countP LruOp.isPut
/-- number of `get` operations that were answered with a bitmap -/
def numHits (ops : List LruOp) (outs : List (Option Nat)) : Nat :=
  (ops.zip outs).countP fun p => p.1.isGet && p.2.isSome

theorem get_counters (c : Lru) (k : Nat) :
    (c.get k).1.gets = c.gets + 1 ∧
    (c.get k).1.hits = c.hits + (if (c.get k).2.isSome then 1 else 0) ∧
    (c.get k).1.misses = c.misses + (if (c.get k).2.isSome then 0 else 1) := by
  cases h : c.items.find? (·.key == k) with
  | none => simp [get_miss c k h]
  | some it => simp [get_hit c k it h]

@[simp] theorem numGets_nil : numGets [] = 0 := rfl
@[simp] theorem numPuts_nil : numPuts [] = 0 := rfl
@[simp] theorem numHits_nil (outs : List (Option Nat)) : numHits [] outs = 0 := by simp [numHits]
@[simp] theorem numGets_get (k : Nat) (ops : List LruOp) : numGets (.get k :: ops) = numGets ops + 1 := by
  simp [numGets, List.countP_cons, LruOp.isGet]
@[simp] theorem numGets_put (k b s : Nat) (ops : List LruOp) : numGets (.put k b s :: ops) = numGets ops := by
  simp [numGets, LruOp.isGet]
@[simp] theorem numPuts_get (k : Nat) (ops : List LruOp) : numPuts (.get k :: ops) = numPuts ops := by
  simp [numPuts, LruOp.isPut]
@[simp] theorem numPuts_put (k b s : Nat) (ops : List LruOp) : numPuts (.put k b s :: ops) = numPuts ops + 1 := by
  simp [numPuts, List.countP_cons, LruOp.isPut]
@[simp] theorem numHits_get (k : Nat) (ops : List LruOp) (o : Option Nat) (outs : List (Option Nat)) :
    numHits (.get k :: ops) (o :: outs) = numHits ops outs + (if o.isSome then 1 else 0) := by
  simp [numHits, LruOp.isGet, List.countP_cons]
@[simp] theorem numHits_put (k b s : Nat) (ops : List LruOp) (o : Option Nat) (outs : List (Option Nat)) :
    numHits (.put k b s :: ops) (o :: outs) = numHits ops outs := by
  simp [numHits, LruOp.isGet]

theorem run_counters (c : Lru) (ops : List LruOp) :
    (c.run ops).1.gets = c.gets + numGets ops ∧
    (c.run ops).1.puts = c.puts + numPuts ops ∧
    (c.run ops).1.hits = c.hits + numHits ops (c.run ops).2 ∧
    (c.run ops).1.hits + (c.run ops).1.misses = c.hits + c.misses + numGets ops := by
  induction ops generalizing c with
  | nil => simp
  | cons op ops ih =>
    rw [run_cons]
    obtain ⟨h1, h2, h3, h4⟩ := ih (c.step op).1
    cases op with
    | get k =>
      obtain ⟨g1, g2, g3⟩ := get_counters c k
      obtain ⟨-, -, -, g4⟩ := get_fields c k
      simp only [Lru.step] at h1 h2 h3 h4 ⊢
      simp only [numGets_get, numPuts_get, numHits_get]
      rw [g1] at h1
      rw [g4] at h2
      rw [g2] at h3
      rw [g2, g3] at h4
      refine ⟨by omega, h2, by omega, ?_⟩
      split at h4 <;> omega
    | put k bm size =>
      obtain ⟨-, -, p1, p2, p3, p4⟩ := put_fields c k bm size
      simp only [Lru.step] at h1 h2 h3 h4 ⊢
      simp only [numGets_put, numPuts_put, numHits_put]
      rw [p1] at h1
      rw [p2] at h2
      rw [p3] at h3
      rw [p3, p4] at h4
      exact ⟨h1, by omega, h3, h4⟩

/-- a `put` never produces an answer, so hits can also be counted on the output list alone -/
theorem numHits_eq (c : Lru) (ops : List LruOp) :
    numHits ops (c.run ops).2 = (c.run ops).2.countP Option.isSome := by
  induction ops generalizing c with
  | nil => simp
  | cons op ops ih =>
    rw [run_cons]
    have := ih (c.step op).1
    cases op with
    | get k => simp only [numHits_get, this, List.countP_cons]
    | put k bm size => simp only [Lru.step] at this ⊢; simp [this]

end Updog
