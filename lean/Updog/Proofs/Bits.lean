import Updog.Model.Index
namespace Updog

theorem testBit_setBit (b i j : Nat) : (setBit b i).testBit j = (b.testBit j || decide (i = j)) := by
  unfold setBit
  rw [Nat.testBit_or, Nat.one_shiftLeft, Nat.testBit_two_pow]

theorem testBit_flip (n b i : Nat) : (flip n b).testBit i = (b.testBit i ^^ decide (i < n)) := by
  unfold flip
  rw [Nat.testBit_xor, Nat.testBit_two_pow_sub_one]

theorem testBit_foldl_and (bs : List Nat) (b i : Nat) :
    (bs.foldl (· &&& ·) b).testBit i = (b.testBit i && bs.all (·.testBit i)) := by
  induction bs generalizing b with
  | nil => simp
  | cons x xs ih => simp [ih, Nat.testBit_and, Bool.and_assoc]

theorem testBit_foldl_or (bs : List Nat) (b i : Nat) :
    (bs.foldl (· ||| ·) b).testBit i = (b.testBit i || bs.any (·.testBit i)) := by
  induction bs generalizing b with
  | nil => simp
  | cons x xs ih => simp [ih, Nat.testBit_or, Bool.or_assoc]

theorem testBit_andAll (bs : List Nat) (i : Nat) :
    (andAll bs).testBit i = (!bs.isEmpty && bs.all (·.testBit i)) := by
  cases bs with
  | nil => simp [andAll]
  | cons b bs => simp [andAll, testBit_foldl_and]

theorem testBit_orAll (bs : List Nat) (i : Nat) : (orAll bs).testBit i = bs.any (·.testBit i) := by
  simp [orAll, testBit_foldl_or]

/-- number of set bits below `n` -/
def countBelow (b n : Nat) : Nat := ((List.range n).filter b.testBit).length

theorem popcount_zero : popcount 0 = 0 := by unfold popcount; simp

theorem popcount_eq (n : Nat) (hn : n ≠ 0) : popcount n = n % 2 + popcount (n / 2) := by
  rw [popcount]; simp [hn]

theorem countBelow_succ_shift (b n : Nat) :
    countBelow b (n + 1) = (if b.testBit 0 then 1 else 0) + countBelow (b / 2) n := by
  unfold countBelow
  rw [List.range_succ_eq_map, List.filter_cons, List.filter_map]
  have : (b.testBit ∘ Nat.succ) = (b / 2).testBit := by
    funext i
    simp [Function.comp, Nat.testBit_succ]
  rw [this]
  split <;> simp <;> omega

theorem popcount_eq_countBelow (n b : Nat) (hb : b < 2 ^ n) : popcount b = countBelow b n := by
  induction n generalizing b with
  | zero =>
    have : b = 0 := by simpa using hb
    subst this; simp [popcount_zero, countBelow]
  | succ n ih =>
    by_cases h0 : b = 0
    · subst h0
      have : List.filter (Nat.testBit 0) (List.range (n + 1)) = [] := by
        apply List.filter_eq_nil_iff.mpr
        intro a _; simp
      simp [popcount_zero, countBelow, this]
    · rw [popcount_eq b h0, countBelow_succ_shift, ← ih (b / 2) (by rw [Nat.pow_succ] at hb; omega)]
      congr 1
      rw [Nat.testBit_zero]
      rcases Nat.mod_two_eq_zero_or_one b with h | h <;> simp [h]

theorem lt_two_pow_of_testBit (b n : Nat) (h : ∀ i, n ≤ i → b.testBit i = false) : b < 2 ^ n :=
  Nat.lt_pow_two_of_testBit b h

theorem countBelow_eq_of_testBit (b n : Nat) (p : Nat → Bool) (h : ∀ i, i < n → b.testBit i = p i) :
    countBelow b n = ((List.range n).filter p).length := by
  unfold countBelow
  congr 1
  apply List.filter_congr
  intro i hi
  exact h i (List.mem_range.mp hi)

end Updog
