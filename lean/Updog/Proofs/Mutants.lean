/-
Helper lemmas for `Updog/Props/Witnesses.lean` (the catalogue of repaired defects): algebra of the original XOR cache
keys, the mutant `evalCK` instantiated with the repaired key is `evalC`, persistence of the header in the original
writer's transactions, group-by resolution on schemas whose value lists are already sorted (`List.mergeSort` is not
evaluated by the kernel), the relation between the original and the repaired lexer, the stuck state of `openFile`.
-/
import Updog.Model.Mutants
import Updog.Proofs.Parser
import Updog.Props.C08
namespace Updog.Witnesses
open Updog

/-! ### 1. XOR keys -/

theorem rotl1_xor (x y : UInt64) : rotl1 (x ^^^ y) = rotl1 x ^^^ rotl1 y := by
  apply UInt64.toBitVec_inj.1
  simp only [rotl1, UInt64.toBitVec_or, UInt64.toBitVec_xor, UInt64.toBitVec_shiftLeft, UInt64.toBitVec_shiftRight]
  ext i hi
  by_cases h0 : i = 0
  · subst h0; simp
  · have h1 : ∀ z : BitVec 64, z.getLsbD (63 + i) = false := fun z => BitVec.getLsbD_of_ge z _ (by omega)
    simp [h0, h1]

/-- the algebra behind the first collision, on arbitrary 64-bit words -/
theorem xor_scheme_collision (ka kb kc : UInt64) :
    xorKeys maskAnd [xorKeys maskOr [ka, kc], xorKeys maskOr [kb, kc]]
      = xorKeys maskAnd [rotl1 ka ^^^ maskNot, rotl1 kb ^^^ maskNot] := by
  simp only [xorKeys, List.foldl_cons, List.foldl_nil, rotl1_xor]
  generalize rotl1 (rotl1 ka) = A
  generalize rotl1 (rotl1 kb) = B
  generalize rotl1 (rotl1 kc) = C
  generalize rotl1 maskOr = O
  generalize rotl1 maskNot = N
  generalize maskAnd = M
  apply UInt64.toBitVec_inj.1
  simp only [UInt64.toBitVec_xor]
  ext i hi
  simp only [BitVec.getElem_xor]
  generalize M.toBitVec[i] = a1
  generalize A.toBitVec[i] = a2
  generalize B.toBitVec[i] = a3
  generalize C.toBitVec[i] = a4
  generalize O.toBitVec[i] = a5
  generalize N.toBitVec[i] = a6
  revert a1 a2 a3 a4 a5 a6
  decide

theorem xor_scheme_duplicate (kx ky : UInt64) : xorKeys maskAnd [kx, kx, ky] = xorKeys maskAnd [ky] := by
  simp only [xorKeys, List.foldl_cons, List.foldl_nil]
  rw [UInt64.xor_assoc maskAnd, UInt64.xor_self, UInt64.xor_zero]

section
variable (H : Bytes → UInt64) {σ : Type} (C : CacheImpl σ) (ix : Index)
mutual
theorem evalCK_cacheKey : ∀ (s : σ) (e : Expr), evalCK H (cacheKey H) C ix s e = evalC H C ix s e
  | s, .eq c v => by
    simp only [evalCK, evalC]
    cases ix.schema.col c <;> rfl
  | s, .not e => by
    have ih := fun s1 => evalCK_cacheKey s1 e
    simp only [evalCK, evalC, ih]
  | s, .and es => by
    have ih := fun s1 => evalListCK_cacheKey s1 es
    simp only [evalCK, evalC, ih]
  | s, .or es => by
    have ih := fun s1 => evalListCK_cacheKey s1 es
    simp only [evalCK, evalC, ih]
theorem evalListCK_cacheKey : ∀ (s : σ) (es : List Expr),
    evalListCK H (cacheKey H) C ix s es = evalListC H C ix s es
  | s, [] => by simp only [evalListCK, evalListC]
  | s, e :: es => by
    have ih := fun s1 => evalListCK_cacheKey s1 es
    simp only [evalListCK, evalListC, evalCK_cacheKey s e, ih]
    cases (evalC H C ix s e).snd <;> rfl
end
end

/-! ### 3. header puts in the first transaction -/

/-- the image looks like a complete index to `OpenIndex` -/
def Accepting (img : BoltImage) : Prop := img.bucket = true ∧ img.schema.isSome = true ∧ img.counter.isSome = true

theorem Accepting.applyPut {img : BoltImage} (h : Accepting img) (p : BoltPut) : Accepting (img.applyPut p) := by
  obtain ⟨h1, h2, h3⟩ := h
  cases p <;> simp [BoltImage.applyPut, Accepting, h1, h2, h3]

theorem Accepting.applyPuts {img : BoltImage} (h : Accepting img) (ps : Tx) :
    Accepting (ps.foldl BoltImage.applyPut img) := by
  induction ps generalizing img with
  | nil => exact h
  | cons p ps ih => exact ih (h.applyPut p)

theorem Accepting.applyTx {img : BoltImage} (h : Accepting img) (tx : Tx) : Accepting (img.applyTx tx) := by
  have h' : Accepting { img with bucket := true } := ⟨rfl, h.2.1, h.2.2⟩
  exact h'.applyPuts tx

theorem Accepting.applyTxs {img : BoltImage} (h : Accepting img) (txs : List Tx) :
    Accepting (txs.foldl BoltImage.applyTx img) := by
  induction txs generalizing img with
  | nil => exact h
  | cons t ts ih => exact ih (h.applyTx t)

theorem Accepting.opens {img : BoltImage} (h : Accepting img) (o : OpenOpts) :
    openIndex (stateOf img) o = (.ok (), true) := by
  obtain ⟨h1, h2, h3⟩ := h
  simp [stateOf, openIndex, h1, h2, h3]

/-- the first transaction starts with the two header puts -/
def HeaderFirst (s : Schema) (n : Nat) (txs : List Tx) : Prop :=
  ∃ rest tl, txs = ([BoltPut.schema s, BoltPut.counter n] ++ rest) :: tl

theorem headerFirst_snoc {s : Schema} {n : Nat} {done : List Tx} {cur : Tx}
    (h : HeaderFirst s n (done ++ [cur])) (v : BoltPut) (extra : List Tx) :
    HeaderFirst s n (done ++ [cur ++ [v]] ++ extra) := by
  obtain ⟨rest, tl, h⟩ := h
  cases done with
  | nil =>
    simp only [List.nil_append, List.cons.injEq] at h
    exact ⟨rest ++ [v], extra, by simp [h.1]⟩
  | cons d ds =>
    simp only [List.cons_append, List.cons.injEq] at h
    exact ⟨rest, ds ++ [cur ++ [v]] ++ extra, by simp [h.1]⟩

theorem headerFirst_step {s : Schema} {n : Nat} (batch : Nat) (st : BatchState) (kv : UInt64 × Nat)
    (h : HeaderFirst s n (st.done ++ [st.cur])) :
    HeaderFirst s n ((batchStep batch st kv).done ++ [(batchStep batch st kv).cur]) := by
  unfold batchStep
  simp only
  split
  · simpa using headerFirst_snoc h (BoltPut.val kv.1 kv.2) [[]]
  · simpa using headerFirst_snoc h (BoltPut.val kv.1 kv.2) []

theorem headerFirst_fold {s : Schema} {n : Nat} (batch : Nat) (perm : ValMap) (st : BatchState)
    (h : HeaderFirst s n (st.done ++ [st.cur])) :
    HeaderFirst s n ((perm.foldl (batchStep batch) st).done ++ [(perm.foldl (batchStep batch) st).cur]) := by
  induction perm generalizing st with
  | nil => exact h
  | cons kv rest ih => exact ih _ (headerFirst_step batch st kv h)

theorem accepting_writeTxsOrig (s : Schema) (n : Nat) (perm : ValMap) (batch k : Nat) (hk : 1 ≤ k) :
    Accepting (imageAfter (writeTxsOrig s n perm batch) k) := by
  have hf : HeaderFirst s n (writeTxsOrig s n perm batch) :=
    headerFirst_fold batch perm { cur := [BoltPut.schema s, BoltPut.counter n] } ⟨[], [], rfl⟩
  obtain ⟨rest, tl, hf⟩ := hf
  obtain ⟨k', rfl⟩ : ∃ k', k = k' + 1 := ⟨k - 1, by omega⟩
  have h1 : Accepting (BoltImage.applyTx {} ([BoltPut.schema s, BoltPut.counter n] ++ rest)) := by
    rw [BoltImage.applyTx, List.foldl_append]
    exact Accepting.applyPuts ⟨rfl, rfl, rfl⟩ rest
  rw [imageAfter, hf, List.take_succ_cons, List.foldl_cons]
  exact h1.applyTxs _

/-! ### 4. lexer -/

/-- `a` is `b`, or `b` with its final `error` item replaced by `eof` -/
def SameOrSwallowed (a b : List Tok) : Prop := a = b ∨ ∃ pre, b = pre ++ [.error] ∧ a = pre ++ [.eof]

theorem SameOrSwallowed.cons (t : Tok) {a b : List Tok} (h : SameOrSwallowed a b) :
    SameOrSwallowed (t :: a) (t :: b) := by
  rcases h with h | ⟨pre, h1, h2⟩
  · exact .inl (by rw [h])
  · exact .inr ⟨t :: pre, by simp [h1], by simp [h2]⟩

theorem lexAllOrig_quote_none {rest : Bytes} (h : scanStr rest = none) : lexAllOrig (34 :: rest) = [.eof] := by
  rw [lexAllOrig]
  simp +decide only [↓reduceIte]
  split
  · rfl
  · rename_i h'; rw [h] at h'; cases h'

theorem lexAllOrig_quote_some {rest b r : Bytes} (h : scanStr rest = some (b, r)) :
    lexAllOrig (34 :: rest) = .value b :: lexAllOrig r := by
  rw [lexAllOrig]
  simp +decide only [↓reduceIte]
  split
  · rename_i h'; rw [h] at h'; cases h'
  · rename_i h'; rw [h] at h'; cases h'; rfl

theorem lexAllOrig_sameOrSwallowed (s : Bytes) : SameOrSwallowed (lexAllOrig s) (lexAll s) := by
  induction s using lexAll.induct with
  | case1 => left; rw [lexAllOrig, lexAll]
  | case2 c rest h ih => rw [lexAllOrig, lexAll]; simp only [h, ↓reduceIte]; exact ih
  | case12 c rest _ _ _ _ _ _ _ _ _ _ h hs =>
    have : c = 34 := by simpa using h
    subst this
    rw [lexAllOrig_quote_none hs, lexAll_quote_none hs]
    exact .inr ⟨[], rfl, rfl⟩
  | case13 c rest _ _ _ _ _ _ _ _ _ _ h body rest' hs _ ih =>
    have : c = 34 := by simpa using h
    subst this
    rw [lexAllOrig_quote_some hs, lexAll_quote_some hs]
    exact ih.cons _
  | case15 c rest => left; rw [lexAllOrig, lexAll]; simp only [*, Bool.false_eq_true, ↓reduceIte]
  | _ c rest =>
    rw [lexAllOrig, lexAll]; simp only [*, ↓reduceIte]
    rename_i ih
    exact SameOrSwallowed.cons _ ih

theorem parserPulled_le (ts : List Tok) : parserPulled ts ≤ ts.length := by
  unfold parserPulled
  split
  · split <;> omega
  · omega

/-! ### 5. group-by on schemas whose value lists are already sorted -/

/-- every value list of the schema is already in `sort.Slice` order -/
def SortedSchema (s : Schema) : Prop := ∀ cv ∈ s, cv.2.Pairwise fun a b => bytesLe a.1 b.1 = true

instance (s : Schema) : Decidable (SortedSchema s) := by unfold SortedSchema; infer_instance

/-- `populateGroupByQ` without the sort (`List.mergeSort` is not evaluated by the kernel) -/
def popU (s : Schema) (cols : List Bytes) (acc : List GBField) : Option (List GBField) × List GBField :=
  match cols with
  | [] => (some acc, acc)
  | c :: cs =>
    match s.col c with
    | none => (none, acc)
    | some vs => popU s cs (acc ++ [⟨c, vs⟩])

theorem col_mem {s : Schema} {c : Bytes} {vs : List (Bytes × UInt64)} (h : s.col c = some vs) :
    ∃ cv ∈ s, cv.2 = vs := by
  induction s with
  | nil => simp [Schema.col] at h
  | cons kv rest ih =>
    obtain ⟨k, vs'⟩ := kv
    simp only [Schema.col] at h
    split at h
    · simp only [Option.some.injEq] at h
      exact ⟨(k, vs'), by simp, h⟩
    · obtain ⟨cv, hm, he⟩ := ih h
      exact ⟨cv, by simp [hm], he⟩

theorem populateGroupByQ_sorted {s : Schema} (hs : SortedSchema s) (cols : List Bytes) (acc : List GBField) :
    populateGroupByQ s cols acc = popU s cols acc := by
  induction cols generalizing acc with
  | nil => rfl
  | cons c cs ih =>
    simp only [populateGroupByQ, popU]
    cases hc : s.col c with
    | none => rfl
    | some vs =>
      obtain ⟨cv, hm, he⟩ := col_mem hc
      have : sortVals vs = vs := by
        subst he
        exact List.mergeSort_of_pairwise (le := fun (a b : Bytes × UInt64) => bytesLe a.1 b.1) (hs cv hm)
      simp only [this, ih]

theorem populateGroupBy_sorted {s : Schema} (hs : SortedSchema s) (cols : List Bytes) :
    populateGroupBy s cols = (popU s cols []).1 := by
  have h := C08.populateQ_fst s cols []
  rw [populateGroupByQ_sorted hs] at h
  rw [h]
  cases populateGroupBy s cols <;> simp

/-! ### 6. the stuck state of the original `openFile` -/

/-- goroutine 0 has returned and holds the file; goroutine 1 waits in `OpenIndex` for the exclusive lock:
    no continuation of the schedule changes anything -/
theorem stuck_forever (s : OpenSys) (k k' : DKey) (hl : s.flock k'.file > 0) (rest : List Nat) :
    runOpens true s [(k, .done), (k', .openIdx)] rest = (s, [(k, .done), (k', .openIdx)]) := by
  induction rest with
  | nil => rfl
  | cons i rest ih =>
    match i with
    | 0 => simpa [runOpens, openStep] using ih
    | 1 => simpa [runOpens, openStep, hl] using ih
    | n + 2 => simpa [runOpens] using ih

/-! ### 9. cursor walk -/

theorem foldl_walkStepOrig_panic (ks : List Bytes) : ks.foldl walkStepOrig .panic = .panic := by
  induction ks with
  | nil => rfl
  | cons k ks ih => simpa [List.foldl_cons, walkStepOrig, Outcome.bind] using ih

end Updog.Witnesses
