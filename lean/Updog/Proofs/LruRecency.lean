/-
Helper lemmas for the history-level recency theorem of C07 (Props/C07Recency.lean):
the last-use order of a history, defined without the cache, and the sublist invariant of `Lru.run`.
-/
import Updog.Proofs.Lru
namespace Updog

/-- the key an operation uses -/
def LruOp.key : LruOp → Nat
  | .get k => k
  | .put k _ _ => k

/-- keep the FIRST occurrence of every element -/
def firstOcc : List Nat → List Nat
  | [] => []
  | a :: t => a :: (firstOcc t).filter (· != a)

/-- **last-use order** of a history, defined without any cache: the keys the history mentions, each once, the key of
    the latest operation first (read the history backwards and keep the first occurrence of every key) -/
def recency (ops : List LruOp) : List Nat := firstOcc (ops.map LruOp.key).reverse

/-- position (from the start of the history) of the last operation on key `k`, +1; 0 if `k` is never used -/
def lastUse (ops : List LruOp) (k : Nat) : Nat :=
  match ops with
  | [] => 0
  | op :: rest => if lastUse rest k ≠ 0 then lastUse rest k + 1 else if op.key = k then 1 else 0

/-- the `(key, size, bitmap)` stored by the last `Put` of key `k` (`none` if there is none) -/
def lastPutItem : List LruOp → Nat → Option Item
  | [], _ => none
  | .get _ :: ops, k => lastPutItem ops k
  | .put k' b s :: ops, k =>
    match lastPutItem ops k with
    | some it => some it
    | none => if k' = k then some ⟨k', s, b⟩ else none

/-- induction on a list from the back -/
theorem snoc_induction {α : Type} {P : List α → Prop} (nil : P []) (snoc : ∀ l a, P l → P (l ++ [a])) :
    ∀ l, P l := by
  intro l
  have h : P l.reverse.reverse := by
    induction l.reverse with
    | nil => exact nil
    | cons a t ih => simpa using snoc _ a ih
  simpa using h

/-! ### firstOcc / recency -/

theorem mem_firstOcc (l : List Nat) (x : Nat) : x ∈ firstOcc l ↔ x ∈ l := by
  induction l with
  | nil => simp [firstOcc]
  | cons a t ih =>
    simp only [firstOcc, List.mem_cons, List.mem_filter, ih, bne_iff_ne, ne_eq]
    constructor
    · rintro (h | ⟨h, _⟩)
      · exact Or.inl h
      · exact Or.inr h
    · intro h
      by_cases e : x = a
      · exact Or.inl e
      · rcases h with h | h
        · exact Or.inl h
        · exact Or.inr ⟨h, e⟩

theorem nodup_firstOcc (l : List Nat) : (firstOcc l).Nodup := by
  induction l with
  | nil => simp [firstOcc]
  | cons a t ih =>
    simp only [firstOcc, List.nodup_cons, List.mem_filter, bne_self_eq_false, Bool.false_eq_true, and_false,
      not_false_eq_true, true_and]
    exact ih.sublist List.filter_sublist

theorem recency_nil : recency [] = [] := rfl

/-- the defining recursion, read forwards: the latest operation's key moves to the front -/
theorem recency_snoc (ops : List LruOp) (op : LruOp) :
    recency (ops ++ [op]) = op.key :: (recency ops).filter (· != op.key) := by
  simp [recency, firstOcc]

theorem recency_nodup (ops : List LruOp) : (recency ops).Nodup := nodup_firstOcc _

theorem mem_recency (ops : List LruOp) (k : Nat) : k ∈ recency ops ↔ ∃ op ∈ ops, op.key = k := by
  simp [recency, mem_firstOcc]

/-! ### lastUse -/

theorem lastUse_snoc (ops : List LruOp) (op : LruOp) (k : Nat) :
    lastUse (ops ++ [op]) k = if op.key = k then ops.length + 1 else lastUse ops k := by
  induction ops with
  | nil => simp [lastUse]
  | cons a t ih =>
    simp only [List.cons_append, lastUse, ih, List.length_cons]
    by_cases e : op.key = k
    · simp only [e, if_true]
      rw [if_pos (by omega)]
    · simp only [e, if_false]

theorem lastUse_le (ops : List LruOp) (k : Nat) : lastUse ops k ≤ ops.length := by
  induction ops with
  | nil => simp [lastUse]
  | cons a t ih =>
    simp only [lastUse, List.length_cons]
    split
    · omega
    · split <;> omega

theorem lastUse_pos_iff (ops : List LruOp) (k : Nat) : 0 < lastUse ops k ↔ k ∈ recency ops := by
  rw [mem_recency]
  induction ops with
  | nil => simp [lastUse]
  | cons a t ih =>
    simp only [lastUse, List.mem_cons, exists_eq_or_imp]
    by_cases h : lastUse t k ≠ 0
    · rw [if_pos h]
      have : 0 < lastUse t k := by omega
      exact ⟨fun _ => Or.inr (ih.1 this), fun _ => by omega⟩
    · have h0 : ¬ 0 < lastUse t k := by omega
      rw [if_neg h]
      rw [ih] at h0
      by_cases e : a.key = k
      · simp [e]
      · simp only [e, if_false, false_or]
        exact ⟨fun h => by omega, fun h => absurd h h0⟩

/-- `recency` really is the order of last use: it is sorted by strictly decreasing position of the last use -/
theorem recency_sorted (ops : List LruOp) :
    (recency ops).Pairwise fun a b => lastUse ops b < lastUse ops a := by
  induction ops using snoc_induction with
  | nil => simp [recency_nil]
  | snoc ops op ih =>
    rw [recency_snoc, List.pairwise_cons]
    constructor
    · intro b hb
      have hb' := List.mem_filter.1 hb
      have hne : ¬ op.key = b := by
        have := hb'.2; simp only [bne_iff_ne, ne_eq] at this; exact fun e => this e.symm
      rw [lastUse_snoc, lastUse_snoc]
      simp only [hne, if_false, if_true]
      have := lastUse_le ops b
      omega
    · refine (ih.sublist List.filter_sublist).imp_of_mem ?_
      intro a b ha hb hab
      have ha' := (List.mem_filter.1 ha).2
      have hb' := (List.mem_filter.1 hb).2
      simp only [bne_iff_ne, ne_eq] at ha' hb'
      rw [lastUse_snoc, lastUse_snoc, if_neg (fun e : op.key = a => ha' e.symm),
        if_neg (fun e : op.key = b => hb' e.symm)]
      exact hab

/-! ### a sublist of a duplicate-free list is that list filtered by membership -/

theorem sublist_eq_filter {l r : List Nat} (h : l.Sublist r) (hn : r.Nodup) :
    l = r.filter (fun x => l.contains x) := by
  induction h with
  | slnil => rfl
  | @cons l r a h ih =>
    rw [List.nodup_cons] at hn
    have ha : a ∉ l := fun m => hn.1 (h.subset m)
    rw [List.filter_cons]
    have : l.contains a = false := by simpa using ha
    simp only [this, Bool.false_eq_true, if_false]
    exact ih hn.2
  | @cons_cons l r a h ih =>
    rw [List.nodup_cons] at hn
    rw [List.filter_cons]
    simp only [List.contains_cons, BEq.rfl, Bool.true_or, if_true]
    congr 1
    refine (ih hn.2).trans ?_
    apply List.filter_congr
    intro x hx
    have hxa : (x == a) = false := by
      have : x ≠ a := fun e => hn.1 (e ▸ hx)
      simpa using this
    simp only [hxa, Bool.false_or]

/-! ### the invariant -/

theorem map_key_filter (items : List Item) (k : Nat) :
    (items.filter (·.key != k)).map (·.key) = (items.map (·.key)).filter (· != k) := by
  induction items with
  | nil => rfl
  | cons a t ih =>
    simp only [List.filter_cons, List.map_cons]
    by_cases e : a.key = k
    · simp [e, ih]
    · have : (a.key != k) = true := by simpa using e
      simp [this, ih]

/-- one operation keeps "the resident keys, in list order, are a sublist of the last-use order" -/
theorem step_recency (c : Lru) (hist : List LruOp) (op : LruOp)
    (h : (c.items.map (·.key)).Sublist (recency hist)) :
    ((c.step op).1.items.map (·.key)).Sublist (recency (hist ++ [op])) := by
  rw [recency_snoc]
  have hf : ((c.items.filter (·.key != op.key)).map (·.key)).Sublist ((recency hist).filter (· != op.key)) := by
    rw [map_key_filter]; exact h.filter _
  cases op with
  | get k =>
    simp only [Lru.step, LruOp.key] at hf ⊢
    cases hfind : c.items.find? (·.key == k) with
    | none =>
      rw [get_miss c k hfind]
      simp only
      rw [filter_of_find_none hfind] at hf
      exact hf.cons _
    | some it =>
      rw [get_hit c k it hfind]
      simp only [List.map_cons, (find_key hfind).1]
      exact hf.cons_cons _
  | put k bm size =>
    simp only [Lru.step, LruOp.key] at hf ⊢
    have hp := ((put_prefix c k bm size).sublist).map (·.key)
    simp only [putList, List.map_cons] at hp
    exact hp.trans (hf.cons_cons _)

theorem run_recency (c : Lru) (hist ops : List LruOp)
    (h : (c.items.map (·.key)).Sublist (recency hist)) :
    ((c.run ops).1.items.map (·.key)).Sublist (recency (hist ++ ops)) := by
  induction ops generalizing c hist with
  | nil => simpa [Lru.run] using h
  | cons op ops ih =>
    rw [run_cons]
    have := ih _ _ (step_recency c hist op h)
    simpa using this

/-! ### the resident entries are what the last `Put` of their key stored -/

theorem lastPutItem_append (a b : List LruOp) (k : Nat) :
    lastPutItem (a ++ b) k = match lastPutItem b k with
      | some it => some it
      | none => lastPutItem a k := by
  induction a with
  | nil => simp only [List.nil_append]; cases lastPutItem b k <;> simp [lastPutItem]
  | cons op a ih =>
    cases op with
    | get k' => simpa [lastPutItem] using ih
    | put k' bm s =>
      simp only [List.cons_append, lastPutItem, ih]
      cases lastPutItem b k <;> simp

theorem lastPutItem_snoc_get (a : List LruOp) (k' k : Nat) : lastPutItem (a ++ [.get k']) k = lastPutItem a k := by
  rw [lastPutItem_append]; rfl

theorem lastPutItem_snoc_put (a : List LruOp) (k' b s k : Nat) :
    lastPutItem (a ++ [.put k' b s]) k = if k' = k then some ⟨k', s, b⟩ else lastPutItem a k := by
  rw [lastPutItem_append]
  by_cases e : k' = k <;> simp [lastPutItem, e]

def ResidentItem (c : Lru) (hist : List LruOp) : Prop := ∀ it ∈ c.items, lastPutItem hist it.key = some it

theorem step_residentItem (c : Lru) (hist : List LruOp) (op : LruOp) (h : ResidentItem c hist) :
    ResidentItem (c.step op).1 (hist ++ [op]) := by
  intro x hx
  cases op with
  | get k =>
    rw [lastPutItem_snoc_get]
    exact h x (get_mem c k x hx)
  | put k bm size =>
    rw [lastPutItem_snoc_put]
    have := (put_prefix c k bm size).subset hx
    simp only [putList] at this
    rcases List.mem_cons.1 this with rfl | hm
    · simp
    · have hm' := List.mem_filter.1 hm
      have hne : ¬ k = x.key := by
        have := hm'.2; simp at this; exact fun e => this e.symm
      simp only [hne, if_false]
      exact h x hm'.1

theorem run_residentItem (c : Lru) (hist ops : List LruOp) (h : ResidentItem c hist) :
    ResidentItem (c.run ops).1 (hist ++ ops) := by
  induction ops generalizing c hist with
  | nil => simpa [Lru.run] using h
  | cons op ops ih =>
    rw [run_cons]
    have := ih _ _ (step_residentItem c hist op h)
    simpa using this

end Updog

namespace Updog

/-! ### eviction takes the least recently used: the resident keys are upward closed in the last-use order -/

/-- the last operation on key `k` in the history is a `Put` -/
def lastIsPut : List LruOp → Nat → Bool
  | [], _ => false
  | op :: rest, k => if lastUse rest k ≠ 0 then lastIsPut rest k else (op.key == k && op.isPut)

theorem lastIsPut_snoc (ops : List LruOp) (op : LruOp) (k : Nat) :
    lastIsPut (ops ++ [op]) k = if op.key = k then op.isPut else lastIsPut ops k := by
  induction ops with
  | nil => by_cases e : op.key = k <;> simp [lastIsPut, lastUse, e]
  | cons a t ih =>
    simp only [List.cons_append, lastIsPut, ih, lastUse_snoc]
    by_cases e : op.key = k
    · simp only [e, if_true]
      rw [if_pos (by omega)]
    · simp only [e, if_false]

/-- `isResident c k`: key `k` is in the cache -/
def Lru.isResident (c : Lru) (k : Nat) : Bool := c.items.any (·.key == k)

theorem isResident_iff (c : Lru) (k : Nat) : c.isResident k = true ↔ k ∈ c.items.map (·.key) := by
  simp only [Lru.isResident, List.any_eq_true, List.mem_map, beq_iff_eq]

theorem putList_recency (c : Lru) (hist : List LruOp) (k bm size : Nat)
    (h : (c.items.map (·.key)).Sublist (recency hist)) :
    ((putList c k bm size).map (·.key)).Sublist (recency (hist ++ [.put k bm size])) := by
  rw [recency_snoc]
  simp only [putList, List.map_cons, LruOp.key, map_key_filter]
  exact (h.filter _).cons_cons _

theorem prefix_closed {l' l : List Nat} (f : Nat → Nat) (hp : l' <+: l)
    (hs : l.Pairwise fun a b => f b < f a) (a b : Nat) (hb : b ∈ l') (ha : a ∈ l) (hab : f b < f a) : a ∈ l' := by
  obtain ⟨s, rfl⟩ := hp
  rcases List.mem_append.1 ha with h | h
  · exact h
  · have := (List.pairwise_append.1 hs).2.2 b hb a h
    omega

theorem prefix_head {α : Type} {l' t : List α} {a : α} (hp : l' <+: a :: t) (hne : l' ≠ []) : a ∈ l' := by
  cases l' with
  | nil => exact absurd rfl hne
  | cons x xs =>
    obtain ⟨s, hs⟩ := hp
    simp only [List.cons_append, List.cons.injEq] at hs
    rw [hs.1]; exact List.mem_cons_self

/-- the resident keys are upward closed: every key whose last use is a `Put` later than the last use of a resident key
    is resident -/
def UpClosed (c : Lru) (hist : List LruOp) : Prop :=
  ∀ k' k, c.isResident k' = true → lastUse hist k' < lastUse hist k → lastIsPut hist k = true → c.isResident k = true

theorem step_upClosed (c : Lru) (hist : List LruOp) (op : LruOp)
    (hsub : (c.items.map (·.key)).Sublist (recency hist)) (h : UpClosed c hist) :
    UpClosed (c.step op).1 (hist ++ [op]) := by
  intro k' k hk' hlt hput
  rw [lastUse_snoc, lastUse_snoc] at hlt
  rw [lastIsPut_snoc] at hput
  have hle := lastUse_le hist k
  by_cases e' : op.key = k'
  · -- the resident key is the one just used: nothing is more recent
    rw [if_pos e'] at hlt
    split at hlt <;> omega
  · rw [if_neg e'] at hlt
    by_cases e : op.key = k
    · rw [if_pos e] at hput
      cases op with
      | get q => cases hput
      | put q bm size =>
        -- the key just put heads the new list; the survivors are a non-empty prefix of it
        have e : q = k := e
        simp only [Lru.step] at hk' ⊢
        have hpre := put_prefix c q bm size
        rw [isResident_iff] at hk' ⊢
        have hne : (c.put q bm size).items ≠ [] := by
          intro e0; rw [e0] at hk'; cases hk'
        have := prefix_head (show _ <+: _ :: _ from hpre) hne
        exact List.mem_map.2 ⟨_, this, e⟩
    · rw [if_neg e] at hput hlt
      cases op with
      | get q =>
        have e : ¬ q = k := e
        have hk'0 : c.isResident k' = true := by
          rw [isResident_iff] at hk' ⊢
          obtain ⟨x, hx, rfl⟩ := List.mem_map.1 hk'
          exact List.mem_map.2 ⟨x, get_mem c q x hx, rfl⟩
        have hk0 := h k' k hk'0 hlt hput
        rw [isResident_iff] at hk0 ⊢
        obtain ⟨x, hx, rfl⟩ := List.mem_map.1 hk0
        refine List.mem_map.2 ⟨x, ?_, rfl⟩
        simp only [Lru.step]
        cases hfind : c.items.find? (·.key == q) with
        | none => rw [get_miss c q hfind]; exact hx
        | some it =>
          rw [get_hit c q it hfind]
          simp only [List.mem_cons, List.mem_filter, bne_iff_ne, ne_eq]
          exact Or.inr ⟨hx, fun e2 => e e2.symm⟩
      | put q bm size =>
        have e : ¬ q = k := e
        have e' : ¬ q = k' := e'
        simp only [Lru.step] at hk' ⊢
        have hpre := put_prefix c q bm size
        have hprek : ((c.put q bm size).items.map (·.key)) <+: ((putList c q bm size).map (·.key)) := by
          obtain ⟨s, hs⟩ := hpre
          exact ⟨s.map (·.key), by rw [← hs, List.map_append]⟩
        rw [isResident_iff] at hk' ⊢
        have hk'0 : c.isResident k' = true := by
          rw [isResident_iff]
          have := hprek.subset hk'
          simp only [putList, List.map_cons, List.mem_cons, map_key_filter, List.mem_filter] at this
          rcases this with h1 | h1
          · exact absurd h1.symm e'
          · exact h1.1
        have hk0 := h k' k hk'0 hlt hput
        rw [isResident_iff] at hk0
        have hkin : k ∈ (putList c q bm size).map (·.key) := by
          simp only [putList, List.map_cons, List.mem_cons, map_key_filter, List.mem_filter, bne_iff_ne, ne_eq]
          exact Or.inr ⟨hk0, fun e2 => e e2.symm⟩
        have hsorted := (recency_sorted (hist ++ [.put q bm size])).sublist (putList_recency c hist q bm size hsub)
        refine prefix_closed (lastUse (hist ++ [.put q bm size])) hprek hsorted k k' hk' hkin ?_
        rw [lastUse_snoc, lastUse_snoc, if_neg (show ¬ (LruOp.put q bm size).key = k' from e'),
          if_neg (show ¬ (LruOp.put q bm size).key = k from e)]
        exact hlt

theorem run_upClosed (c : Lru) (hist ops : List LruOp)
    (hsub : (c.items.map (·.key)).Sublist (recency hist)) (h : UpClosed c hist) :
    UpClosed (c.run ops).1 (hist ++ ops) := by
  induction ops generalizing c hist with
  | nil => simpa [Lru.run] using h
  | cons op ops ih =>
    rw [run_cons]
    have := ih _ _ (step_recency c hist op hsub) (step_upClosed c hist op hsub h)
    simpa using this

end Updog
