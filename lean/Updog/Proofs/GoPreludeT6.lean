/-
Lemmas about the Go prelude part T6 (`Updog/Basic/GoPreludeT6.lean`) that connect its primitives to the forms used by
the hand-written model (`List.mergeSort`, `popcount`, `filterMap`/`flatMap`/`map`). Used by `Updog/Props/Gen/GroupBy.lean`.
-/
import Updog.Basic.GoPreludeT6
import Updog.Proofs.Bits
import Updog.Proofs.Sort
namespace Updog.Go

/-! ### make + copy: the copy idiom yields the source -/

theorem copy_makeSlice {α : Type} (z : α) (xs : List α) : copy (makeSlice z (len xs)) xs = xs := by
  simp [copy, makeSlice, len]

/-! ### loops that append ↦ filterMap / flatMap / map -/

theorem foldl_snoc_filterMap {α β : Type} (f : α → Option β) (acc : List β) (xs : List α) :
    List.foldl (fun (acc : List β) (x : α) => match f x with | none => acc | some y => acc ++ [y]) acc xs
      = acc ++ xs.filterMap f := by
  induction xs generalizing acc with
  | nil => simp
  | cons x r ih =>
    rw [List.foldl_cons, ih, List.filterMap_cons]
    cases f x <;> simp

theorem foldl_append_flatMap {α β : Type} (g : α → List β) (acc : List β) (xs : List α) :
    List.foldl (fun (acc : List β) (x : α) => acc ++ g x) acc xs = acc ++ xs.flatMap g := by
  induction xs generalizing acc with
  | nil => simp
  | cons x r ih => rw [List.foldl_cons, ih, List.flatMap_cons, List.append_assoc]

theorem foldl_snoc_map {α β : Type} (g : α → β) (acc : List β) (xs : List α) :
    List.foldl (fun (acc : List β) (x : α) => acc ++ [g x]) acc xs = acc ++ xs.map g := by
  induction xs generalizing acc with
  | nil => simp
  | cons x r ih => rw [List.foldl_cons, ih, List.map_cons]; simp

/-! ### sort.Slice: insertion sort = the merge sort of the model -/

/-- inserting into `l₁ ++ l₂` where everything in `l₁` is `less` than `a` and nothing in `l₂` is -/
theorem insertBy_append {α : Type} (less : α → α → Bool) (a : α) (l₁ l₂ : List α)
    (h₁ : ∀ b ∈ l₁, less b a = true) (h₂ : ∀ b ∈ l₂, less b a = false) :
    insertBy less a (l₁ ++ l₂) = l₁ ++ a :: l₂ := by
  induction l₁ with
  | nil =>
    cases l₂ with
    | nil => rfl
    | cons b r => simp [insertBy, h₂ b (by simp)]
  | cons b r ih =>
    simp only [List.cons_append, insertBy, h₁ b (by simp), if_true]
    rw [ih (fun x hx => h₁ x (List.mem_cons_of_mem _ hx))]

/-- `sort.Slice` as translated (insertion sort by `less`) is the stable merge sort by `fun a b => !less b a`,
    whenever that relation is transitive and total (no assumption about duplicates is needed) -/
theorem sortSlice_eq_mergeSort {α : Type} (less : α → α → Bool)
    (trans : ∀ a b c : α, (!less b a) = true → (!less c b) = true → (!less c a) = true)
    (total : ∀ a b : α, (!less b a || !less a b) = true) (xs : List α) :
    sortSlice less xs = xs.mergeSort (fun a b => !less b a) := by
  induction xs with
  | nil => simp [sortSlice]
  | cons a l ih =>
    obtain ⟨l₁, l₂, h1, h2, h3⟩ := List.mergeSort_cons (le := fun a b => !less b a) trans total a l
    have hs : (l₁ ++ a :: l₂).Pairwise (fun x y => (!less y x) = true) := by
      rw [← h1]; exact List.pairwise_mergeSort trans total (a :: l)
    have hl2 : ∀ b ∈ l₂, less b a = false := by
      intro b hb
      have := (List.pairwise_append.mp hs).2.1
      have h := (List.pairwise_cons.mp this).1 b hb
      simpa using h
    have hl1 : ∀ b ∈ l₁, less b a = true := by
      intro b hb
      have := h3 b hb
      simpa using this
    have : sortSlice less (a :: l) = insertBy less a (sortSlice less l) := by simp [sortSlice]
    rw [this, ih, h2, h1]
    exact insertBy_append less a l₁ l₂ hl1 hl2

/-- the less function `a.key < b.key` (bytewise) ↦ the model's `bytesLe` merge sort on that key -/
theorem sortSlice_bytesLt_key {α : Type} (key : α → Bytes) (xs : List α) :
    sortSlice (fun a b => bytesLt (key a) (key b)) xs = xs.mergeSort (fun a b => bytesLe (key a) (key b)) := by
  rw [sortSlice_eq_mergeSort]
  · rfl
  · intro a b c h1 h2
    exact bytesLe_trans (a := key a) (b := key b) (c := key c) h1 h2
  · intro a b
    exact bytesLe_total (key a) (key b)

theorem sortSlice_perm {α : Type} (less : α → α → Bool) (xs : List α) : (sortSlice less xs).Perm xs := by
  have hins : ∀ (a : α) (l : List α), (insertBy less a l).Perm (a :: l) := by
    intro a l
    induction l with
    | nil => exact List.Perm.refl _
    | cons b r ih =>
      simp only [insertBy]
      split
      · exact ((List.Perm.cons b ih).trans (List.Perm.swap a b r))
      · exact List.Perm.refl _
  induction xs with
  | nil => exact List.Perm.refl _
  | cons a l ih =>
    have : sortSlice less (a :: l) = insertBy less a (sortSlice less l) := by simp [sortSlice]
    rw [this]
    exact (hins a _).trans (List.Perm.cons a ih)

/-! ### bitmaps -/

theorem bmPopcountAux_eq (fuel n : Nat) (h : n ≤ fuel) : bmPopcountAux fuel n = popcount n := by
  induction fuel generalizing n with
  | zero =>
    have : n = 0 := by omega
    subst this
    simp [bmPopcountAux, popcount_zero]
  | succ f ih =>
    by_cases hn : n = 0
    · subst hn; simp [bmPopcountAux, popcount_zero]
    · rw [popcount_eq n hn]
      simp only [bmPopcountAux, hn, if_false]
      rw [ih (n / 2) (by omega)]

theorem bmPopcount_eq (n : Nat) : bmPopcount n = popcount n := bmPopcountAux_eq n n (Nat.le_refl n)

theorem length_filter_le_of_imp {α : Type} (p q : α → Bool) (h : ∀ x, p x = true → q x = true) (l : List α) :
    (l.filter p).length ≤ (l.filter q).length := by
  induction l with
  | nil => simp
  | cons x r ih =>
    simp only [List.filter_cons]
    by_cases hp : p x = true
    · simp [hp, h x hp]; exact ih
    · by_cases hq : q x = true
      · simp [hp, hq]; omega
      · simp [hp, hq]; exact ih

theorem popcount_and_le (a b : Nat) : popcount (a &&& b) ≤ popcount a := by
  have ha : a < 2 ^ a := Nat.lt_two_pow_self
  have hab : a &&& b < 2 ^ a := Nat.lt_of_le_of_lt Nat.and_le_left ha
  rw [popcount_eq_countBelow a _ hab, popcount_eq_countBelow a _ ha]
  unfold countBelow
  apply length_filter_le_of_imp
  intro i hi
  rw [Nat.testBit_and] at hi
  simp at hi
  exact hi.1

theorem bmCard_toNat (b : Nat) (h : popcount b < 2 ^ 64) : (bmCard b).toNat = popcount b := by
  unfold bmCard
  rw [bmPopcount_eq]
  simp [Nat.toUInt64, UInt64.toNat_ofNat']
  omega

theorem bmCard_eq_zero (b : Nat) (h : popcount b < 2 ^ 64) : (bmCard b == (0 : UInt64)) = decide (popcount b = 0) := by
  have h1 := bmCard_toNat b h
  by_cases hz : popcount b = 0
  · have : bmCard b = 0 := by
      apply UInt64.toNat_inj.mp
      rw [h1, hz]; rfl
    simp [this, hz]
  · have : bmCard b ≠ 0 := by
      intro h0
      rw [h0] at h1
      exact hz h1.symm
    simp [this, hz]

end Updog.Go

namespace Updog.Go

/-! ### loops, characterised by what one iteration does (robust against the exact text of the loop body) -/

theorem foldl_filterMap_of {α β : Type} (step : List β → α → List β) (f : α → Option β) (xs : List α)
    (h : ∀ acc, ∀ x ∈ xs, step acc x = match f x with | none => acc | some y => acc ++ [y]) (acc : List β) :
    List.foldl step acc xs = acc ++ xs.filterMap f := by
  induction xs generalizing acc with
  | nil => simp
  | cons x r ih =>
    rw [List.foldl_cons, ih (fun acc y hy => h acc y (List.mem_cons_of_mem _ hy)), h acc x (by simp),
      List.filterMap_cons]
    cases f x <;> simp

theorem foldl_flatMap_of {α β : Type} (step : List β → α → List β) (g : α → List β) (xs : List α)
    (h : ∀ acc, ∀ x ∈ xs, step acc x = acc ++ g x) (acc : List β) :
    List.foldl step acc xs = acc ++ xs.flatMap g := by
  induction xs generalizing acc with
  | nil => simp
  | cons x r ih =>
    rw [List.foldl_cons, ih (fun acc y hy => h acc y (List.mem_cons_of_mem _ hy)), h acc x (by simp),
      List.flatMap_cons, List.append_assoc]

theorem foldl_map_of {α β : Type} (step : List β → α → List β) (g : α → β) (xs : List α)
    (h : ∀ acc, ∀ x ∈ xs, step acc x = acc ++ [g x]) (acc : List β) :
    List.foldl step acc xs = acc ++ xs.map g := by
  induction xs generalizing acc with
  | nil => simp
  | cons x r ih =>
    rw [List.foldl_cons, ih (fun acc y hy => h acc y (List.mem_cons_of_mem _ hy)), h acc x (by simp), List.map_cons]
    simp

/-- two loops that run in lock step keep a relation between their states -/
theorem foldl_sim {σ σ' α α' : Type} (R : σ → σ' → Prop) (fa : α → α') (step : σ → α → σ) (step' : σ' → α' → σ')
    (h : ∀ s s' a, R s s' → R (step s a) (step' s' (fa a))) (xs : List α) (s : σ) (s' : σ') (h0 : R s s') :
    R (List.foldl step s xs) (List.foldl step' s' (xs.map fa)) := by
  induction xs generalizing s s' with
  | nil => exact h0
  | cons x r ih => exact ih _ _ (h s s' x h0)

/-! ### sorting commutes with a map that respects the order -/

theorem insertBy_map {α β : Type} (f : α → β) (less : β → β → Bool) (a : α) (l : List α) :
    insertBy less (f a) (l.map f) = (insertBy (fun x y => less (f x) (f y)) a l).map f := by
  induction l with
  | nil => rfl
  | cons b r ih =>
    simp only [List.map_cons, insertBy]
    split
    · rw [ih]; rfl
    · rfl

theorem sortSlice_map {α β : Type} (f : α → β) (less : β → β → Bool) (xs : List α) :
    sortSlice less (xs.map f) = (sortSlice (fun x y => less (f x) (f y)) xs).map f := by
  induction xs with
  | nil => rfl
  | cons a l ih =>
    have h1 : sortSlice less ((a :: l).map f) = insertBy less (f a) (sortSlice less (l.map f)) := by simp [sortSlice]
    have h2 : sortSlice (fun x y => less (f x) (f y)) (a :: l)
        = insertBy (fun x y => less (f x) (f y)) a (sortSlice (fun x y => less (f x) (f y)) l) := by simp [sortSlice]
    rw [h1, h2, ih, insertBy_map]

/-! ### why insertion sort may stand for `sort.Slice`: with distinct keys the sorted permutation is unique -/

theorem key_inj_of_nodup {α : Type} (key : α → Bytes) (xs : List α) (hnd : (xs.map key).Nodup) :
    ∀ a ∈ xs, ∀ b ∈ xs, key a = key b → a = b := by
  induction xs with
  | nil => intro a ha; simp at ha
  | cons x r ih =>
    rw [List.map_cons, List.nodup_cons] at hnd
    intro a ha b hb hk
    rcases List.mem_cons.mp ha with rfl | ha' <;> rcases List.mem_cons.mp hb with rfl | hb'
    · rfl
    · exact absurd (hk ▸ List.mem_map_of_mem hb') hnd.1
    · exact absurd (hk ▸ List.mem_map_of_mem ha') hnd.1
    · exact ih hnd.2 a ha' b hb' hk

/-- ANY outcome `ys` of `sort.Slice(xs, less)` with `less a b = key a < key b` — a permutation of `xs` in which no
    element is less than an earlier one — is the list `sortSlice` computes, provided the keys are pairwise distinct.
    So the choice of insertion sort in the prelude is no assumption about Go's (unstable) algorithm. -/
theorem sortSlice_unique {α : Type} (key : α → Bytes) (xs ys : List α) (hnd : (xs.map key).Nodup)
    (hperm : ys.Perm xs) (hsorted : ys.Pairwise (fun a b => bytesLt (key b) (key a) = false)) :
    ys = sortSlice (fun a b => bytesLt (key a) (key b)) xs := by
  rw [sortSlice_bytesLt_key]
  have hinj := key_inj_of_nodup key xs hnd
  apply List.Perm.eq_of_pairwise (le := fun a b => bytesLe (key a) (key b) = true)
  · intro a b ha hb h1 h2
    exact hinj a (hperm.subset ha) b ((List.mergeSort_perm xs _).subset hb) (bytesLe_antisymm h1 h2)
  · exact hsorted.imp (fun {a b} h => by simp [bytesLe, h])
  · exact List.pairwise_mergeSort (le := fun a b : α => bytesLe (key a) (key b))
      (fun a b c => bytesLe_trans) (fun a b => bytesLe_total (key a) (key b)) xs
  · exact hperm.trans (List.mergeSort_perm xs _).symm

end Updog.Go
