/-
Order facts: `bytesLt` is a strict total order on `Bytes`, `bytesLe` its reflexive closure;
`sortVals` sorts strictly when the values are distinct; two strictly sorted lists with the same
elements are equal; `sortedDistinct`; the lexicographic order `lexLt` on value tuples.
-/
import Updog.Proofs.Schema
namespace Updog

/-! ### `bytesLt` / `bytesLe` -/

theorem bytesLt_irrefl (a : Bytes) : bytesLt a a = false := by
  induction a with
  | nil => rfl
  | cons x xs ih => simp [bytesLt, ih]

theorem bytesLt_trans {a b c : Bytes} (h1 : bytesLt a b = true) (h2 : bytesLt b c = true) :
    bytesLt a c = true := by
  induction a generalizing b c with
  | nil =>
    cases b with
    | nil => simp [bytesLt] at h1
    | cons y ys =>
      cases c with
      | nil => simp [bytesLt] at h2
      | cons z zs => rfl
  | cons x xs ih =>
    cases b with
    | nil => simp [bytesLt] at h1
    | cons y ys =>
      cases c with
      | nil => simp [bytesLt] at h2
      | cons z zs =>
        simp only [bytesLt] at h1 h2 ⊢
        by_cases hxy : x < y
        · by_cases hyz : y < z
          · simp [UInt8.lt_trans hxy hyz]
          · rw [if_neg hyz] at h2
            by_cases hzy : z < y
            · simp [hzy] at h2
            · have : y = z := UInt8.le_antisymm (UInt8.not_lt.mp hzy) (UInt8.not_lt.mp hyz)
              subst this; simp [hxy]
        · rw [if_neg hxy] at h1
          by_cases hyx : y < x
          · simp [hyx] at h1
          · have : x = y := UInt8.le_antisymm (UInt8.not_lt.mp hyx) (UInt8.not_lt.mp hxy)
            subst this
            rw [if_neg hyx] at h1
            by_cases hxz : x < z
            · simp [hxz]
            · rw [if_neg hxz] at h2 ⊢
              by_cases hzx : z < x
              · simp [hzx] at h2
              · rw [if_neg hzx] at h2 ⊢
                exact ih h1 h2

theorem bytesLt_total {a b : Bytes} (h : a ≠ b) : bytesLt a b = true ∨ bytesLt b a = true := by
  induction a generalizing b with
  | nil =>
    cases b with
    | nil => exact absurd rfl h
    | cons y ys => exact Or.inl rfl
  | cons x xs ih =>
    cases b with
    | nil => exact Or.inr rfl
    | cons y ys =>
      simp only [bytesLt]
      by_cases hxy : x < y
      · simp [hxy]
      · by_cases hyx : y < x
        · simp [hyx]
        · have : x = y := UInt8.le_antisymm (UInt8.not_lt.mp hyx) (UInt8.not_lt.mp hxy)
          subst this
          simp only [hxy, if_false]
          exact ih (fun e => h (by rw [e]))

theorem bytesLt_asymm {a b : Bytes} (h : bytesLt a b = true) : bytesLt b a = false := by
  cases hba : bytesLt b a with
  | false => rfl
  | true =>
    have := bytesLt_trans h hba
    rw [bytesLt_irrefl] at this
    exact Bool.noConfusion this

theorem bytesLt_ne {a b : Bytes} (h : bytesLt a b = true) : a ≠ b := by
  intro e; subst e; rw [bytesLt_irrefl] at h; exact Bool.noConfusion h

theorem bytesLe_refl (a : Bytes) : bytesLe a a = true := by simp [bytesLe, bytesLt_irrefl]

theorem bytesLe_total (a b : Bytes) : (bytesLe a b || bytesLe b a) = true := by
  unfold bytesLe
  cases hba : bytesLt b a with
  | false => simp
  | true => simp [bytesLt_asymm hba]

theorem bytesLe_iff {a b : Bytes} : bytesLe a b = true ↔ bytesLt a b = true ∨ a = b := by
  unfold bytesLe
  constructor
  · intro h
    by_cases e : a = b
    · exact Or.inr e
    · rcases bytesLt_total e with h1 | h1
      · exact Or.inl h1
      · simp [h1] at h
  · rintro (h | h)
    · simp [bytesLt_asymm h]
    · subst h; simp [bytesLt_irrefl]

theorem bytesLe_trans {a b c : Bytes} (h1 : bytesLe a b = true) (h2 : bytesLe b c = true) :
    bytesLe a c = true := by
  rw [bytesLe_iff] at h1 h2 ⊢
  rcases h1 with h1 | h1
  · rcases h2 with h2 | h2
    · exact Or.inl (bytesLt_trans h1 h2)
    · subst h2; exact Or.inl h1
  · subst h1; exact h2

theorem bytesLe_antisymm {a b : Bytes} (h1 : bytesLe a b = true) (h2 : bytesLe b a = true) : a = b := by
  rw [bytesLe_iff] at h1 h2
  rcases h1 with h1 | h1
  · rcases h2 with h2 | h2
    · rw [bytesLt_asymm h1] at h2; exact Bool.noConfusion h2
    · exact h2.symm
  · exact h1

theorem bytesLt_of_le_of_ne {a b : Bytes} (h : bytesLe a b = true) (hne : a ≠ b) : bytesLt a b = true := by
  rcases bytesLe_iff.mp h with h1 | h1
  · exact h1
  · exact absurd h1 hne

/-! ### strictly sorted lists -/

/-- strictly ascending w.r.t. `bytesLt` -/
def StrictSorted (l : List Bytes) : Prop := l.Pairwise fun a b => bytesLt a b = true

theorem StrictSorted.nodup {l : List Bytes} (h : StrictSorted l) : l.Nodup :=
  List.Pairwise.imp (fun hab => bytesLt_ne hab) h

/-- two strictly ascending lists with the same elements are equal -/
theorem StrictSorted.eq_of_mem_iff {l₁ l₂ : List Bytes} (h₁ : StrictSorted l₁) (h₂ : StrictSorted l₂)
    (hm : ∀ x, x ∈ l₁ ↔ x ∈ l₂) : l₁ = l₂ := by
  induction l₁ generalizing l₂ with
  | nil =>
    cases l₂ with
    | nil => rfl
    | cons b l₂ => exact absurd ((hm b).mpr (by simp)) (by simp)
  | cons a l₁ ih =>
    cases l₂ with
    | nil => exact absurd ((hm a).mp (by simp)) (by simp)
    | cons b l₂ =>
      have ha := List.pairwise_cons.mp h₁
      have hb := List.pairwise_cons.mp h₂
      have hab : a = b := by
        by_cases e : a = b
        · exact e
        · have h1 : a ∈ l₂ := by
            have := (hm a).mp (by simp)
            simp only [List.mem_cons] at this
            rcases this with h | h
            · exact absurd h e
            · exact h
          have h2 : b ∈ l₁ := by
            have := (hm b).mpr (by simp)
            simp only [List.mem_cons] at this
            rcases this with h | h
            · exact absurd h.symm e
            · exact h
          have := bytesLt_asymm (hb.1 a h1)
          rw [ha.1 b h2] at this
          exact Bool.noConfusion this
      subst hab
      congr 1
      apply ih ha.2 hb.2
      intro x
      constructor
      · intro hx
        have := (hm x).mp (List.mem_cons_of_mem _ hx)
        simp only [List.mem_cons] at this
        rcases this with h | h
        · subst h; exact absurd (ha.1 x hx) (by rw [bytesLt_irrefl]; simp)
        · exact h
      · intro hx
        have := (hm x).mpr (List.mem_cons_of_mem _ hx)
        simp only [List.mem_cons] at this
        rcases this with h | h
        · subst h; exact absurd (hb.1 x hx) (by rw [bytesLt_irrefl]; simp)
        · exact h

/-- sorting a duplicate-free list by `bytesLe` gives a strictly ascending list -/
theorem strictSorted_mergeSort {l : List Bytes} (hnd : l.Nodup) :
    StrictSorted (l.mergeSort fun a b => bytesLe a b) := by
  have hs : (l.mergeSort fun a b => bytesLe a b).Pairwise (fun a b => bytesLe a b = true) :=
    List.pairwise_mergeSort (le := fun a b : Bytes => bytesLe a b)
      (fun a b c => bytesLe_trans) (fun a b => bytesLe_total a b) l
  have hnd' : (l.mergeSort fun a b => bytesLe a b).Nodup := (List.mergeSort_perm l _).symm.nodup hnd
  exact List.Pairwise.imp₂ (fun a b hle hne => bytesLt_of_le_of_ne hle hne) hs hnd'

/-! ### `sortVals` -/

theorem sortVals_perm (vs : List (Bytes × UInt64)) : (sortVals vs).Perm vs := List.mergeSort_perm _ _

theorem mem_sortVals {vs : List (Bytes × UInt64)} {x : Bytes × UInt64} : x ∈ sortVals vs ↔ x ∈ vs :=
  List.mem_mergeSort

theorem sortVals_strictSorted {vs : List (Bytes × UInt64)} (hnd : (vs.map (·.1)).Nodup) :
    StrictSorted ((sortVals vs).map (·.1)) := by
  unfold StrictSorted
  rw [List.pairwise_map]
  have hs : (sortVals vs).Pairwise (fun a b => bytesLe a.1 b.1 = true) :=
    List.pairwise_mergeSort (le := fun a b : Bytes × UInt64 => bytesLe a.1 b.1)
      (fun a b c => bytesLe_trans) (fun a b => bytesLe_total a.1 b.1) vs
  have hnd' : ((sortVals vs).map (·.1)).Nodup := ((sortVals_perm vs).map (·.1)).symm.nodup hnd
  have hnd'' : (sortVals vs).Pairwise (fun a b => a.1 ≠ b.1) := by
    have := hnd'
    unfold List.Nodup at this
    rwa [List.pairwise_map] at this
  exact List.Pairwise.imp₂ (fun a b hle hne => bytesLt_of_le_of_ne hle hne) hs hnd''

/-! ### `eraseDups`, `sortedDistinct` -/

theorem nodup_eraseDups {α} [BEq α] [LawfulBEq α] (l : List α) : l.eraseDups.Nodup := by
  generalize hn : l.length = n
  induction n using Nat.strongRecOn generalizing l with
  | _ n ih =>
    cases l with
    | nil => simp
    | cons a as =>
      rw [List.eraseDups_cons, List.nodup_cons]
      constructor
      · rw [List.mem_eraseDups]
        simp
      · apply ih ((as.filter fun b => !b == a).length) _ _ rfl
        subst hn
        exact Nat.lt_succ_of_le (List.length_filter_le _ _)

theorem mem_sortedDistinct {rows : List Row} {c v : Bytes} :
    v ∈ sortedDistinct rows c ↔ (c, v) ∈ pairsOf rows := by
  unfold sortedDistinct
  rw [List.mem_mergeSort, List.mem_eraseDups, List.mem_filterMap]
  constructor
  · rintro ⟨kv, hkv, h⟩
    by_cases hc : kv.1 = c
    · simp only [hc, beq_self_eq_true, if_true, Option.some.injEq] at h
      rw [← hc, ← h]; exact hkv
    · have : (kv.1 == c) = false := by simpa using hc
      simp [this] at h
  · intro h
    exact ⟨(c, v), h, by simp⟩

theorem sortedDistinct_strictSorted (rows : List Row) (c : Bytes) : StrictSorted (sortedDistinct rows c) :=
  strictSorted_mergeSort (nodup_eraseDups _)

/-- a way to compute `sortedDistinct` on concrete data: any strictly ascending list with the right elements -/
theorem sortedDistinct_eq_of {rows : List Row} {c : Bytes} {l : List Bytes} (hs : StrictSorted l)
    (h1 : ∀ v ∈ l, (c, v) ∈ pairsOf rows) (h2 : ∀ p ∈ pairsOf rows, p.1 = c → p.2 ∈ l) :
    sortedDistinct rows c = l := by
  apply StrictSorted.eq_of_mem_iff (sortedDistinct_strictSorted rows c) hs
  intro x
  rw [mem_sortedDistinct]
  exact ⟨fun h => h2 (c, x) h rfl, h1 x⟩

section
variable (H : Bytes → UInt64)

/-- the sorted value list `populateGroupBy` builds for a column is the column's distinct values in
ascending order -/
theorem sortVals_eq_sortedDistinct (rows : List Row) (c : Bytes) (vs : List (Bytes × UInt64))
    (h : (Writer.addRows H {} rows).schema.col c = some vs) :
    (sortVals vs).map (·.1) = sortedDistinct rows c := by
  have hok := schema_col_some H rows c vs h
  apply StrictSorted.eq_of_mem_iff (sortVals_strictSorted hok.nodup) (sortedDistinct_strictSorted rows c)
  intro x
  rw [mem_sortedDistinct, ← hok.mem x]
  exact ((sortVals_perm vs).map (·.1)).mem_iff

end

/-! ### lexicographic order on value tuples -/

/-- lexicographic `<` on tuples of byte strings, component order `bytesLt` -/
def lexLt : List Bytes → List Bytes → Bool
  | [], [] => false
  | [], _ :: _ => true
  | _ :: _, [] => false
  | a :: as, b :: bs => bytesLt a b || (a == b && lexLt as bs)

theorem lexLt_irrefl (t : List Bytes) : lexLt t t = false := by
  induction t with
  | nil => rfl
  | cons a as ih => simp [lexLt, bytesLt_irrefl, ih]

theorem lexLt_trans {a b c : List Bytes} (h1 : lexLt a b = true) (h2 : lexLt b c = true) :
    lexLt a c = true := by
  induction a generalizing b c with
  | nil =>
    cases b with
    | nil => simp [lexLt] at h1
    | cons y ys =>
      cases c with
      | nil => simp [lexLt] at h2
      | cons z zs => rfl
  | cons x xs ih =>
    cases b with
    | nil => simp [lexLt] at h1
    | cons y ys =>
      cases c with
      | nil => simp [lexLt] at h2
      | cons z zs =>
        simp only [lexLt, Bool.or_eq_true, Bool.and_eq_true, beq_iff_eq] at h1 h2 ⊢
        rcases h1 with h1 | ⟨e1, h1⟩
        · rcases h2 with h2 | ⟨e2, h2⟩
          · exact Or.inl (bytesLt_trans h1 h2)
          · subst e2; exact Or.inl h1
        · subst e1
          rcases h2 with h2 | ⟨e2, h2⟩
          · exact Or.inl h2
          · exact Or.inr ⟨e2, ih h1 h2⟩

theorem lexLt_asymm {a b : List Bytes} (h : lexLt a b = true) : lexLt b a = false := by
  cases hba : lexLt b a with
  | false => rfl
  | true =>
    have := lexLt_trans h hba
    rw [lexLt_irrefl] at this
    exact Bool.noConfusion this

/-- on tuples of equal length `lexLt` is total -/
theorem lexLt_total {a b : List Bytes} (hl : a.length = b.length) (hne : a ≠ b) :
    lexLt a b = true ∨ lexLt b a = true := by
  induction a generalizing b with
  | nil =>
    cases b with
    | nil => exact absurd rfl hne
    | cons y ys => exact Or.inl rfl
  | cons x xs ih =>
    cases b with
    | nil => exact Or.inr rfl
    | cons y ys =>
      simp only [lexLt, Bool.or_eq_true, Bool.and_eq_true, beq_iff_eq]
      by_cases e : x = y
      · subst e
        have := ih (b := ys) (by simpa using hl) (fun e => hne (by rw [e]))
        rcases this with h | h
        · exact Or.inl (Or.inr ⟨rfl, h⟩)
        · exact Or.inr (Or.inr ⟨rfl, h⟩)
      · rcases bytesLt_total e with h | h
        · exact Or.inl (Or.inl h)
        · exact Or.inr (Or.inl h)

end Updog
