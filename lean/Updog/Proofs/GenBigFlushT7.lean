/-
The generated `bigIndexWriterFlush` (writer_big.go) against `walk` / `BigWriter.flushTxs` of Model/BigWriter.lean:
the cursor loop as a pure function on the data bucket (`bigRun`), then `bigRun` against the model's `walkStep`.
-/
import Updog.GeneratedFns
import Updog.Proofs.GenBigT3
import Updog.Proofs.GenFlushData
import Updog.Proofs.GoPreludeT7
import Updog.Proofs.BigWriter
set_option linter.unusedSimpArgs false
namespace Updog.GeneratedEq
open Updog.Go.T3 Updog.Go.T7

/-! ### explicit records -/

/-- a database inside a read-only transaction `n` that sees `c` -/
def roView (i n : Nat) (c : Buckets) (cs : List (List PutRec)) : Bolt :=
  { id := i, closed := false, committed := c, tx := some { id := n, writable := false, buckets := c, log := [] }, nextTx := n + 1, commits := cs }

/-- a database inside the writable transaction `n` with buckets `bs` and log `lg` -/
def rwView (i n : Nat) (c bs : Buckets) (cs : List (List PutRec)) (lg : List PutRec) : Bolt :=
  { id := i, closed := false, committed := c, tx := some { id := n, writable := true, buckets := bs, log := lg }, nextTx := n + 1, commits := cs }

theorem cursorAt_ro (i n : Nat) (c : Buckets) (cs : List (List PutRec)) (name : Bytes) (d : BucketData)
    (hb : bucketsGet c name = some d) (p : Nat) :
    cursorAt (roView i n c cs) { bucket := some (n, name), pos := p } = ((d[p]?).map (·.1), (d[p]?).map (·.2)) := by
  simp only [cursorAt, roView, bucketData_mk, hb]
  cases d[p]? <;> rfl

/-! ### the cursor loop as a pure function -/

/-- what the loop of `Flush` carries: the buckets and the log of the output transaction, the heap, `currentValueIdx`, `bm` -/
structure BigLoopSt where
  bs : Buckets
  lg : List PutRec
  hp : Heap
  cur : UInt64
  bm : Ptr

/-- `dataBucket.Put('V' ‖ be64(currentValueIdx), bm.ToBytes())` -/
def BigLoopSt.emit (X : Ext) (s : BigLoopSt) : BigLoopSt :=
  { s with bs := bucketsSet s.bs dataName (dataPut ((bucketsGet s.bs dataName).getD []) (vKey s.cur) (X.roaringToBytes (bitmapAt s.hp s.bm))),
           lg := s.lg ++ [(dataName, vKey s.cur, X.roaringToBytes (bitmapAt s.hp s.bm))] }

/-- the loop of `Flush` over the remaining keys; `none`: a key whose length is not 12 -/
def bigRun (X : Ext) : List Bytes → BigLoopSt → Option BigLoopSt
  | [], s => some s
  | k :: rest, s =>
    if k.length ≠ 12 then none
    else if s.bm.isNone || s.cur != beUint64 (k.take 8) then
      let s1 := if s.bm.isSome then s.emit X else s
      bigRun X rest { s1 with cur := beUint64 (k.take 8), bm := some s1.hp.bitmaps.length,
                              hp := bitmapAdd (allocBm s1.hp) (some s1.hp.bitmaps.length) (beUint32 (k.drop 8)) }
    else bigRun X rest { s with hp := bitmapAdd s.hp s.bm (beUint32 (k.drop 8)) }

theorem vKey_put (k : UInt64) : Gen.keyPrefixValue ++ bePutUint64 (zeroBytes 8) 0 (Go.len (zeroBytes 8)) k = vKey k := by
  rw [putU64_full]; rfl

theorem vKey_nonempty (k : UInt64) : (vKey k).isEmpty = false := rfl

theorem emit_data (X : Ext) (s : BigLoopSt) : ∃ dd, bucketsGet (s.emit X).bs dataName = some dd :=
  ⟨_, bucketsGet_set_same _ _ _⟩

/-- the state of the generated loop for the abstract state `s` at cursor position `p` -/
abbrev BigGenSt := Bolt × Bolt × Heap × UInt64 × Ptr × Cursor × Option Bytes

/-- **the generated loop = `bigRun`** on the keys from the cursor position on. If `bigRun` succeeds the loop ends
    normally with the output transaction still open; if a key has the wrong length the function returns an error
    after both deferred rollbacks: nothing is committed to the output database. -/
theorem big_flush_loop (X : Ext) (ti tn : Nat) (tc : Buckets) (tcs : List (List PutRec)) (d : BucketData)
    (htd : bucketsGet tc tempName = some d) (oi on' : Nat) (oc : Buckets) (ocs : List (List PutRec))
    (idx : BigIndexWriter) (err : Error) (rest : BucketData) :
    ∀ (p : Nat) (s : BigLoopSt) (fuel : Nat), d.drop p = rest → rest.length < fuel →
      (∃ dd, bucketsGet s.bs dataName = some dd) →
      match bigRun X (rest.map (·.1)) s with
      | some s' => ∃ c' k', forWhile fuel
          ((rwView oi on' oc s.bs ocs s.lg, roView ti tn tc tcs, s.hp, s.cur, s.bm,
            ({ bucket := some (tn, tempName), pos := p } : Cursor), (d[p]?).map (·.1)) : BigGenSt)
          (Gen.bigIndexWriterFlush_loop1_cond X idx (some tn) err (some (tn, tempName)) (some on') (some (on', dataName)))
          (Gen.bigIndexWriterFlush_loop1_body X idx (some tn) err (some (tn, tempName)) (some on') (some (on', dataName)))
            = .next (rwView oi on' oc s'.bs ocs s'.lg, roView ti tn tc tcs, s'.hp, s'.cur, s'.bm, c', k') ∧
          ∃ dd, bucketsGet s'.bs dataName = some dd
      | none => ∃ hp' e, forWhile fuel
          ((rwView oi on' oc s.bs ocs s.lg, roView ti tn tc tcs, s.hp, s.cur, s.bm,
            ({ bucket := some (tn, tempName), pos := p } : Cursor), (d[p]?).map (·.1)) : BigGenSt)
          (Gen.bigIndexWriterFlush_loop1_cond X idx (some tn) err (some (tn, tempName)) (some on') (some (on', dataName)))
          (Gen.bigIndexWriterFlush_loop1_body X idx (some tn) err (some (tn, tempName)) (some on') (some (on', dataName)))
            = .ret ({ id := oi, closed := false, committed := oc, tx := none, nextTx := on' + 1, commits := ocs },
                    { id := ti, closed := false, committed := tc, tx := none, nextTx := tn + 1, commits := tcs },
                    hp', idx, some e) := by
  induction rest with
  | nil =>
    intro p s fuel hdrop hfuel hdd
    have hnone : d[p]? = none := by
      have : d.length ≤ p := by simpa using hdrop
      exact List.getElem?_eq_none this
    obtain ⟨f, rfl⟩ : ∃ f, fuel = f + 1 := ⟨fuel - 1, by omega⟩
    simp only [List.map_nil, bigRun, hnone, Option.map_none, forWhile, Gen.bigIndexWriterFlush_loop1_cond,
      Option.isSome_none, Bool.false_eq_true, if_false]
    exact ⟨_, _, rfl, hdd⟩
  | cons kv rest ih =>
    intro p s fuel hdrop hfuel hdd
    obtain ⟨k, v⟩ := kv
    have hp1 : d[p]? = some (k, v) := by
      have := congrArg (fun l => l[0]?) hdrop
      simpa using this
    have hdrop' : d.drop (p + 1) = rest := by
      have := congrArg List.tail hdrop
      simpa using this
    obtain ⟨f, rfl⟩ : ∃ f, fuel = f + 1 := ⟨fuel - 1, by omega⟩
    have hf : rest.length < f := by simp at hfuel; omega
    obtain ⟨dd, hdd⟩ := hdd
    have hlen : (Go.len (bytesOf (some k)) != (12 : Int)) = decide (k.length ≠ 12) := by
      simp only [Go.len, bytesOf, Option.getD_some]
      by_cases h : k.length = 12
      · simp [h]
      · have : ¬ ((k.length : Int) = 12) := by omega
        simp [h, this]
    have hnext : ∀ (b1 b2 : Bolt), cursorNext (roView ti tn tc tcs) { bucket := some (tn, tempName), pos := p }
        = ({ bucket := some (tn, tempName), pos := p + 1 }, (d[p + 1]?).map (·.1), (d[p + 1]?).map (·.2)) := by
      intro _ _
      simp only [cursorNext, cursorAt_ro ti tn tc tcs tempName d htd]
    simp only [List.map_cons, bigRun, hp1, Option.map_some, forWhile, Gen.bigIndexWriterFlush_loop1_cond,
      Option.isSome_some, if_true, Gen.bigIndexWriterFlush_loop1_body, hlen]
    by_cases hl : k.length = 12
    · simp only [hl, ne_eq, not_true_eq_false, decide_false, Bool.false_eq_true, if_false, bytesOf, Option.getD_some,
        Go.sliceTo, Go.sliceFrom]
      have h8 : (8 : Int).toNat = 8 := rfl
      simp only [h8]
      cases hc : (s.bm.isNone || s.cur != beUint64 (k.take 8)) with
      | true =>
        simp only [if_true]
        cases hbm : s.bm with
        | none =>
          simp only [Option.isSome_none, Bool.false_eq_true, if_false, roaringNew_eq, hnext (roView ti tn tc tcs) (roView ti tn tc tcs)]
          have := ih (p + 1) { s with cur := beUint64 (k.take 8), bm := some s.hp.bitmaps.length,
                                       hp := bitmapAdd (allocBm s.hp) (some s.hp.bitmaps.length) (beUint32 (k.drop 8)) } f hdrop' hf ⟨dd, hdd⟩
          exact this
        | some a =>
          simp only [Option.isSome_some, if_true, vKey_put, bitmapRunOptimize, bitmapToBytes, isErr_none,
            Bool.false_eq_true, if_false, rwView, bucketPut_mk _ _ _ _ _ _ _ _ _ _ dd hdd (vKey_nonempty _),
            roaringNew_eq, hnext (roView ti tn tc tcs) (roView ti tn tc tcs)]
          have := ih (p + 1) (⟨(s.emit X).bs, (s.emit X).lg,
              bitmapAdd (allocBm (s.emit X).hp) (some (s.emit X).hp.bitmaps.length) (beUint32 (k.drop 8)),
              beUint64 (k.take 8), some (s.emit X).hp.bitmaps.length⟩ : BigLoopSt) f hdrop' hf (emit_data X s)
          simp only [BigLoopSt.emit, hdd, Option.getD_some, hbm, rwView] at this ⊢
          exact this
      | false =>
        simp only [Bool.false_eq_true, if_false, hnext (roView ti tn tc tcs) (roView ti tn tc tcs)]
        exact ih (p + 1) { s with hp := bitmapAdd s.hp s.bm (beUint32 (k.drop 8)) } f hdrop' hf ⟨dd, hdd⟩
    · simp only [hl, ne_eq, not_false_eq_true, decide_true, if_true, rwView, roView, txRollback_mk]
      exact ⟨_, _, rfl⟩


/-! ### `bigRun` against the model's `walkStep` -/

theorem beUint64_take8 (k : Bytes) (h : k.length = 12) : (beUint64 (k.take 8)).toNat = beDecode (k.take 8) := by
  have hl : (k.take 8).length = 8 := by simp [h]
  have hlt := beDecode_lt (k.take 8)
  rw [hl] at hlt
  unfold beUint64
  rw [if_neg (by omega), List.take_take]
  show (beDecode (k.take 8)).toUInt64.toNat = _
  simp only [Nat.toUInt64_eq, UInt64.toNat_ofNat']
  exact Nat.mod_eq_of_lt (by omega)

theorem beUint32_drop8 (k : Bytes) (h : k.length = 12) : (beUint32 (k.drop 8)).toNat = beDecode (k.drop 8) := by
  have hl : (k.drop 8).length = 4 := by simp [h]
  have hlt := beDecode_lt (k.drop 8)
  rw [hl] at hlt
  unfold beUint32
  rw [if_neg (by omega), List.take_of_length_le (by omega)]
  show (beDecode (k.drop 8)).toUInt32.toNat = _
  simp only [Nat.toUInt32_eq, UInt32.toNat_ofNat']
  exact Nat.mod_eq_of_lt (by omega)

theorem put_absent (m : ValMap) (h : UInt64) (b : Nat) (hn : ∀ kb ∈ m, kb.1 ≠ h) : m.put h b = m ++ [(h, b)] := by
  induction m with
  | nil => rfl
  | cons kb rest ih =>
    obtain ⟨k, v⟩ := kb
    have hk : (k == h) = false := by simpa using hn (k, v) (by simp)
    simp only [ValMap.put, hk, Bool.false_eq_true, if_false, List.cons_append, List.cons.injEq, true_and]
    exact ih (fun kb hkb => hn kb (List.mem_cons_of_mem _ hkb))

/-- the `PutRec` of one bitmap -/
def valRec (X : Ext) (kb : UInt64 × Nat) : PutRec := (dataName, vKey kb.1, X.roaringToBytes kb.2)

/-- the generated loop state `s` stands for the model's `WalkState` `ws`: same current value index and bitmap, and the
    data bucket / the log hold exactly the bitmaps emitted so far, `Put` in this order on top of `d0` / `lg0` -/
structure WalkRel (X : Ext) (d0 : BucketData) (lg0 : List PutRec) (s : BigLoopSt) (ws : WalkState) : Prop where
  cur : ws.cur = s.cur.toNat
  bm : ws.bm = s.bm.map (fun a => bitmapAt s.hp (some a))
  valid : ∀ a, s.bm = some a → a < s.hp.bitmaps.length
  data : bucketsGet s.bs dataName = some (valFold X d0 ws.out)
  log : s.lg = lg0 ++ ws.out.map (valRec X)
  lt : ∀ kb ∈ ws.out, kb.1.toNat < ws.cur
  fresh : s.bm = none → ws.out = []

theorem walkRel_step (X : Ext) (d0 : BucketData) (lg0 : List PutRec) (s : BigLoopSt) (ws : WalkState) (k : Bytes)
    (hl : k.length = 12) (hge : s.bm.isSome → ws.cur ≤ (decKey k).1) (rel : WalkRel X d0 lg0 s ws) :
    ∃ s', (∀ rest, bigRun X (k :: rest) s = bigRun X rest s') ∧ WalkRel X d0 lg0 s' (walkStep ws k) ∧
      s'.bm.isSome ∧ (walkStep ws k).cur = (decKey k).1 := by
  have h64 := beUint64_take8 k hl
  have h32 := beUint32_drop8 k hl
  have hne : (s.cur != beUint64 (k.take 8)) = (ws.cur != beDecode (k.take 8)) := by
    rw [rel.cur, ← h64, Bool.eq_iff_iff, bne_iff_ne, bne_iff_ne]
    exact not_congr UInt64.toNat_inj.symm
  have hnone : s.bm.isNone = ws.bm.isNone := by rw [rel.bm]; cases s.bm <;> rfl
  cases hbm : s.bm with
  | none =>
    -- the first key: nothing to emit
    have hout := rel.fresh hbm
    have hwbm : ws.bm = none := by rw [rel.bm, hbm]; rfl
    refine ⟨{ s with cur := beUint64 (k.take 8), bm := some s.hp.bitmaps.length,
                     hp := bitmapAdd (allocBm s.hp) (some s.hp.bitmaps.length) (beUint32 (k.drop 8)) }, ?_, ?_, rfl, ?_⟩
    · intro rest
      simp [bigRun, hl, hbm]
    · have hws : walkStep ws k = { cur := beDecode (k.take 8), bm := some (setBit 0 (beDecode (k.drop 8))), out := [] } := by
        simp [walkStep, hwbm, WalkState.emit, hout]
      rw [hws]
      refine ⟨h64.symm, ?_, ?_, ?_, ?_, ?_, ?_⟩
      · simp only [Option.map_some]
        rw [bitmapAt_bitmapAdd_same _ _ _ (by simp), bitmapAt_allocBm_new, h32]
      · intro a ha
        simp only [Option.some.injEq] at ha
        subst ha
        simp
      · have := rel.data; rw [hout] at this; exact this
      · have := rel.log; rw [hout] at this; exact this
      · intro kb hkb; cases hkb
      · intro h; cases h
    · simp [walkStep, hwbm, decKey]
  | some a =>
    have hva := rel.valid a hbm
    have hwbm : ws.bm = some (bitmapAt s.hp (some a)) := by rw [rel.bm, hbm]; rfl
    have hge' := hge (by rw [hbm]; rfl)
    by_cases hc : ws.cur = beDecode (k.take 8)
    · -- same value index: one more bit
      refine ⟨{ s with hp := bitmapAdd s.hp s.bm (beUint32 (k.drop 8)) }, ?_, ?_, by simp [hbm], ?_⟩
      · intro rest
        have : (s.cur != beUint64 (k.take 8)) = false := by rw [hne]; simp [hc]
        simp [bigRun, hl, hbm, this]
      · have hws : walkStep ws k = { ws with bm := some (setBit (bitmapAt s.hp (some a)) (beDecode (k.drop 8))) } := by
          simp [walkStep, hwbm, hc]
        rw [hws]
        refine ⟨rel.cur, ?_, ?_, rel.data, rel.log, rel.lt, ?_⟩
        · simp only [hbm, Option.map_some]
          rw [bitmapAt_bitmapAdd_same _ _ _ hva, h32]
        · intro b hb
          simp only [bitmapAdd_length]
          exact rel.valid b hb
        · intro h; rw [hbm] at h; cases h
      · simp [walkStep, hwbm, hc, decKey]
    · -- a new value index: emit the finished bitmap
      have hlt : ws.cur < beDecode (k.take 8) := by
        have : ws.cur ≤ beDecode (k.take 8) := hge'
        omega
      have hcur64 : ws.cur.toUInt64 = s.cur := by rw [rel.cur]; simp
      have hput : ws.out.put ws.cur.toUInt64 (bitmapAt s.hp (some a)) = ws.out ++ [(s.cur, bitmapAt s.hp (some a))] := by
        rw [hcur64]
        apply put_absent
        intro kb hkb e
        have := rel.lt kb hkb
        rw [e, rel.cur] at this
        omega
      refine ⟨⟨(s.emit X).bs, (s.emit X).lg,
          bitmapAdd (allocBm (s.emit X).hp) (some (s.emit X).hp.bitmaps.length) (beUint32 (k.drop 8)),
          beUint64 (k.take 8), some (s.emit X).hp.bitmaps.length⟩, ?_, ?_, rfl, ?_⟩
      · intro rest
        have : (s.cur != beUint64 (k.take 8)) = true := by rw [hne]; simp [hc]
        simp [bigRun, hl, hbm, this]
      · have hws : walkStep ws k = { cur := beDecode (k.take 8), bm := some (setBit 0 (beDecode (k.drop 8))),
                                     out := ws.out ++ [(s.cur, bitmapAt s.hp (some a))] } := by
          simp [walkStep, hwbm, hc, WalkState.emit, hput]
        rw [hws]
        refine ⟨h64.symm, ?_, ?_, ?_, ?_, ?_, ?_⟩
        · simp only [Option.map_some, BigLoopSt.emit]
          rw [bitmapAt_bitmapAdd_same _ _ _ (by simp), bitmapAt_allocBm_new, h32]
        · intro b hb
          simp only [Option.some.injEq] at hb
          subst hb
          simp [BigLoopSt.emit]
        · simp only [BigLoopSt.emit, rel.data, Option.getD_some, hbm, bucketsGet_set_same, valFold_append]
          rfl
        · simp only [BigLoopSt.emit, rel.log, hbm, List.map_append, List.append_assoc]
          rfl
        · intro kb hkb
          rcases List.mem_append.mp hkb with h | h
          · have := rel.lt kb h
            show kb.1.toNat < beDecode (k.take 8)
            omega
          · simp only [List.mem_singleton] at h
            subst h
            show s.cur.toNat < beDecode (k.take 8)
            rw [← rel.cur]; exact hlt
        · intro h; cases h
      · simp [walkStep, hwbm, hc, decKey]

/-- **`bigRun` = the model's cursor walk** on 12-byte keys whose value indexes do not decrease (bbolt's key order):
    it never fails, and the final state stands for `ks.foldl walkStep ws` -/
theorem bigRun_walk (X : Ext) (d0 : BucketData) (lg0 : List PutRec) :
    ∀ (ks : List Bytes) (s : BigLoopSt) (ws : WalkState),
      (∀ k ∈ ks, k.length = 12) → (ks.map decKey).Pairwise (fun p q => p.1 ≤ q.1) →
      (∀ k ∈ ks, s.bm.isSome → ws.cur ≤ (decKey k).1) → WalkRel X d0 lg0 s ws →
      ∃ s', bigRun X ks s = some s' ∧ WalkRel X d0 lg0 s' (ks.foldl walkStep ws) := by
  intro ks
  induction ks with
  | nil => intro s ws _ _ _ rel; exact ⟨s, rfl, rel⟩
  | cons k rest ih =>
    intro s ws hlen hs hge rel
    obtain ⟨s1, e1, rel1, _, hcur⟩ := walkRel_step X d0 lg0 s ws k (hlen k (by simp)) (hge k (by simp)) rel
    have hs' := List.pairwise_cons.mp (show ((decKey k) :: rest.map decKey).Pairwise (fun p q => p.1 ≤ q.1) from hs)
    obtain ⟨s', e2, rel2⟩ := ih s1 (walkStep ws k) (fun k' hk' => hlen k' (List.mem_cons_of_mem _ hk')) hs'.2
      (fun k' hk' _ => by rw [hcur]; exact hs'.1 (decKey k') (List.mem_map.mpr ⟨k', hk', rfl⟩)) rel1
    exact ⟨s', by rw [e1 rest, e2], by simpa using rel2⟩

/-- after the loop: `if bm != nil { Put }` brings the data bucket and the log to the model's `walk` -/
theorem walkRel_final (X : Ext) (d0 : BucketData) (lg0 : List PutRec) (s : BigLoopSt) (ws : WalkState)
    (rel : WalkRel X d0 lg0 s ws) :
    let s' := if s.bm.isSome then s.emit X else s
    bucketsGet s'.bs dataName = some (valFold X d0 ws.emit) ∧ s'.lg = lg0 ++ ws.emit.map (valRec X) ∧ s'.hp = s.hp := by
  cases hbm : s.bm with
  | none =>
    have hwbm : ws.bm = none := by rw [rel.bm, hbm]; rfl
    refine ⟨?_, ?_, ?_⟩
    · simp only [Option.isSome_none, Bool.false_eq_true, if_false, WalkState.emit, hwbm]; exact rel.data
    · simp only [Option.isSome_none, Bool.false_eq_true, if_false, WalkState.emit, hwbm]; exact rel.log
    · simp
  | some a =>
    have hwbm : ws.bm = some (bitmapAt s.hp (some a)) := by rw [rel.bm, hbm]; rfl
    have hcur64 : ws.cur.toUInt64 = s.cur := by rw [rel.cur]; simp
    have hput : ws.out.put ws.cur.toUInt64 (bitmapAt s.hp (some a)) = ws.out ++ [(s.cur, bitmapAt s.hp (some a))] := by
      rw [hcur64]
      apply put_absent
      intro kb hkb e
      have := rel.lt kb hkb
      rw [e, rel.cur] at this
      omega
    refine ⟨?_, ?_, ?_⟩
    · simp only [Option.isSome_some, if_true, WalkState.emit, hwbm, hput, BigLoopSt.emit, rel.data, Option.getD_some, hbm,
        bucketsGet_set_same, valFold_append]
      rfl
    · simp only [Option.isSome_some, if_true, WalkState.emit, hwbm, hput, BigLoopSt.emit, hbm, rel.log, List.map_append,
        List.append_assoc]
      rfl
    · simp [BigLoopSt.emit]


/-! ### the whole function -/

theorem bigRun_columns (X : Ext) : ∀ (ks : List Bytes) (s s' : BigLoopSt), bigRun X ks s = some s' → s'.hp.columns = s.hp.columns := by
  intro ks
  induction ks with
  | nil => intro s s' h; simp only [bigRun, Option.some.injEq] at h; rw [← h]
  | cons k rest ih =>
    intro s s' h
    unfold bigRun at h
    split at h
    · cases h
    · split at h
      · have := ih _ _ h
        rw [this]
        cases s.bm <;> simp [BigLoopSt.emit]
      · have := ih _ _ h
        rw [this]
        simp

theorem schemaValue_columns (hp hp' : Heap) (sch : SchemaObj) (h : hp'.columns = hp.columns) :
    schemaValue hp' sch = schemaValue hp sch := by
  unfold schemaValue
  apply List.map_congr_left
  intro kp _
  cases hk : kp.2 <;> simp [columnAt, h]

theorem cursorFirst_ro (i n : Nat) (c : Buckets) (cs : List (List PutRec)) (name : Bytes) (d : BucketData)
    (hb : bucketsGet c name = some d) :
    cursorFirst (roView i n c cs) (bucketCursor (some (n, name)))
      = ({ bucket := some (n, name), pos := 0 }, (d[0]?).map (·.1), (d[0]?).map (·.2)) := by
  simp only [cursorFirst, bucketCursor, cursorAt_ro i n c cs name d hb]

theorem cursorFuel_ro (i n : Nat) (c : Buckets) (cs : List (List PutRec)) (name : Bytes) (d : BucketData)
    (hb : bucketsGet c name = some d) (p : Nat) :
    cursorFuel (roView i n c cs) { bucket := some (n, name), pos := p } = d.length + 1 := by
  simp [cursorFuel, roView, bucketData_mk, hb]

/-- the data bucket of a complete file written by `Flush`: the bitmaps, then `'I'`, then `'S'` -/
def bigFileData (X : Ext) (d0 : BucketData) (vs : ValMap) (s : SchemaVal) (n : UInt32) : BucketData :=
  dataPut (dataPut (valFold X d0 vs) [73] (be32 n.toNat)) [83] (X.gobEncode s)

/-- **`(*BigIndexWriter).Flush` on explicit records.** The temporary database has the writer's transaction `tt` open with
    bucket `temp` = `d` (12-byte keys, value indexes not decreasing in cursor order); the output database is open and idle.
    Then: the temp transaction is committed; ONE transaction is committed on the output database whose `Put`s are, in
    program order, the bitmaps of the model's `walk` over the keys in cursor order, then the counter `'I'`, then the
    schema `'S'`; the call returns nil; no transaction is left open on either database; `idx.tempTx` is nil. -/
theorem bigIndexWriterFlush_spec (X : Ext) (oi on' : Nat) (oc : Buckets) (ocs : List (List PutRec))
    (ti tt tn : Nat) (tc0 tbs : Buckets) (tcs : List (List PutRec)) (tlog : List PutRec) (hp : Heap) (idx : BigIndexWriter)
    (d : BucketData) (htd : bucketsGet tbs tempName = some d)
    (hdb : idx.db = some oi) (htdb : idx.tempDB = some ti) (httx : idx.tempTx = some tt)
    (hlen : ∀ k ∈ d.map (·.1), k.length = 12)
    (hsorted : ((d.map (·.1)).map decKey).Pairwise (fun p q => p.1 ≤ q.1)) :
    ∃ bsF hp',
      Gen.bigIndexWriterFlush X
        { id := oi, closed := false, committed := oc, tx := none, nextTx := on', commits := ocs }
        { id := ti, closed := false, committed := tc0, tx := some { id := tt, writable := true, buckets := tbs, log := tlog },
          nextTx := tn, commits := tcs } hp idx
      = ({ id := oi, closed := false, committed := bsF, tx := none, nextTx := on' + 1,
           commits := ocs ++ [(walk (d.map (·.1))).map (valRec X) ++
              [(dataName, [73], be32 idx.nextRowID.toNat), (dataName, [83], X.gobEncode (schemaValue hp idx.schema))]] },
         { id := ti, closed := false, committed := tbs, tx := none, nextTx := tn + 1, commits := tcs ++ [tlog] },
         hp', { idx with tempTx := none, mtx := mutexTouch idx.mtx }, none) ∧
      bucketsGet bsF dataName = some (bigFileData X ((bucketsGet oc dataName).getD []) (walk (d.map (·.1)))
        (schemaValue hp idx.schema) idx.nextRowID) ∧
      hp'.columns = hp.columns := by
  -- the loop
  let bs0 : Buckets := if (bucketsGet oc dataName).isSome then oc else bucketsSet oc dataName []
  have hget0 : bucketsGet bs0 dataName = some ((bucketsGet oc dataName).getD []) := by
    show bucketsGet (if (bucketsGet oc dataName).isSome then oc else bucketsSet oc dataName []) dataName = _
    cases h : bucketsGet oc dataName with
    | none => simp [bucketsGet_set_same]
    | some d => simp [h]
  let s0 : BigLoopSt := { bs := bs0, lg := [], hp := hp, cur := 0, bm := none }
  have rel0 : WalkRel X ((bucketsGet oc dataName).getD []) [] s0 {} :=
    ⟨rfl, rfl, (fun a h => by cases h), hget0, rfl, (fun kb h => by cases h), fun _ => rfl⟩
  obtain ⟨s', hrun, rel⟩ := bigRun_walk X _ [] (d.map (·.1)) s0 {} hlen hsorted (fun k _ h => by cases h) rel0
  have hloop := big_flush_loop X ti tn tbs (tcs ++ [tlog]) d htd oi on' oc ocs
    { mtx := mutexTouch idx.mtx, schema := idx.schema, db := some oi, tempDB := some ti, tempTx := none, nextRowID := idx.nextRowID }
    none d 0 s0 (d.length + 1) rfl (by omega) ⟨_, hget0⟩
  rw [hrun] at hloop
  obtain ⟨c', k', hfw, dd, hdd⟩ := hloop
  have hcols := bigRun_columns X _ _ _ hrun
  obtain ⟨f1, f2, f3⟩ := walkRel_final X _ [] s' _ rel
  have hwalk : ((d.map (·.1)).foldl walkStep {}).emit = walk (d.map (·.1)) := rfl
  rw [hwalk] at f1 f2
  have hd : ([100, 97, 116, 97] : Bytes) = dataName := rfl
  have ht : ([116, 101, 109, 112] : Bytes) = tempName := rfl
  have hk1 : Gen.keySchema = [83] := rfl
  have hk2 : Gen.keyNextRowID = [73] := rfl
  have hsv : schemaValue s'.hp idx.schema = schemaValue hp idx.schema := schemaValue_columns _ _ _ hcols
  unfold Gen.bigIndexWriterFlush
  simp only [httx, htdb, hdb, txCommit_mk, isErr_none, Bool.false_eq_true, if_false, verifPoint, dbBegin_mk, ht, hd,
    txBucket_mk, htd, Option.isSome_some, if_true, txCreateBucket_mk _ _ _ _ _ _ _ dataName rfl,
    mutexTouch_idem]
  have hro : ({ id := ti, closed := false, committed := tbs, tx := some { id := tn, writable := false, buckets := tbs, log := [] }, nextTx := tn + 1, commits := tcs ++ [tlog] } : Bolt) = roView ti tn tbs (tcs ++ [tlog]) := rfl
  have hrw : ({ id := oi, closed := false, committed := oc, tx := some { id := on', writable := true, buckets := (if (bucketsGet oc dataName).isSome = true then oc else bucketsSet oc dataName []), log := [] }, nextTx := on' + 1, commits := ocs } : Bolt) = rwView oi on' oc s0.bs ocs s0.lg := rfl
  rw [hro, hrw, cursorFirst_ro ti tn tbs _ tempName d htd]
  simp only [cursorFuel_ro ti tn tbs _ tempName d htd]
  simp only [nilPtr]
  have hfw' : forWhile (d.length + 1)
      ((rwView oi on' oc s0.bs ocs s0.lg, roView ti tn tbs (tcs ++ [tlog]), hp, (0 : UInt64), (none : Ptr),
        ({ bucket := some (tn, tempName), pos := 0 } : Cursor), (d[0]?).map (·.1)) : BigGenSt)
      (Gen.bigIndexWriterFlush_loop1_cond X
        { mtx := mutexTouch idx.mtx, schema := idx.schema, db := some oi, tempDB := some ti, tempTx := none, nextRowID := idx.nextRowID }
        (some tn) none (some (tn, tempName)) (some on') (some (on', dataName)))
      (Gen.bigIndexWriterFlush_loop1_body X
        { mtx := mutexTouch idx.mtx, schema := idx.schema, db := some oi, tempDB := some ti, tempTx := none, nextRowID := idx.nextRowID }
        (some tn) none (some (tn, tempName)) (some on') (some (on', dataName)))
      = .next (rwView oi on' oc s'.bs ocs s'.lg, roView ti tn tbs (tcs ++ [tlog]), s'.hp, s'.cur, s'.bm, c', k') := hfw
  rw [hfw']
  -- after the loop
  cases hbm : s'.bm with
  | none =>
    simp only [hbm, Option.isSome_none, Bool.false_eq_true, if_false] at f1 f2 f3
    simp only [Option.isSome_none, Bool.false_eq_true, if_false, putU32_full, hk1, hk2, rwView, roView,
      bucketPut_mk _ _ _ _ _ _ _ _ _ _ _ f1 (by rfl : ([73] : Bytes).isEmpty = false), isErr_none, gobEncode, List.nil_append,
      bucketPut_mk _ _ _ _ _ _ _ _ _ _ _ (bucketsGet_set_same _ _ _) (by rfl : ([83] : Bytes).isEmpty = false),
      txCommit_mk, txRollback_mk, mutexTouch_idem, hsv, nilError]
    refine ⟨bucketsSet (bucketsSet s'.bs dataName (dataPut (valFold X ((bucketsGet oc dataName).getD []) (walk (d.map (·.1)))) [73] (be32 idx.nextRowID.toNat)))
        dataName (bigFileData X ((bucketsGet oc dataName).getD []) (walk (d.map (·.1))) (schemaValue hp idx.schema) idx.nextRowID),
      s'.hp, ?_, bucketsGet_set_same _ _ _, hcols⟩
    rw [f2]
    simp [txRollback, txOf, bigFileData]
  | some a =>
    simp only [hbm, Option.isSome_some, if_true] at f1 f2 f3
    have hdd' := hdd
    simp only [Option.isSome_some, if_true, vKey_put, bitmapRunOptimize, bitmapToBytes, isErr_none, Bool.false_eq_true, if_false,
      rwView, roView, bucketPut_mk _ _ _ _ _ _ _ _ _ _ dd hdd (vKey_nonempty _)]
    have e1 : bucketsSet s'.bs dataName (dataPut dd (vKey s'.cur) (X.roaringToBytes (bitmapAt s'.hp (some a)))) = (s'.emit X).bs := by
      simp [BigLoopSt.emit, hdd, hbm]
    have e2 : s'.lg ++ [(dataName, vKey s'.cur, X.roaringToBytes (bitmapAt s'.hp (some a)))] = (s'.emit X).lg := by
      simp [BigLoopSt.emit, hbm]
    rw [e1, e2]
    simp only [putU32_full, hk1, hk2,
      bucketPut_mk _ _ _ _ _ _ _ _ _ _ _ f1 (by rfl : ([73] : Bytes).isEmpty = false), isErr_none, gobEncode, List.nil_append,
      bucketPut_mk _ _ _ _ _ _ _ _ _ _ _ (bucketsGet_set_same _ _ _) (by rfl : ([83] : Bytes).isEmpty = false),
      txCommit_mk, txRollback_mk, mutexTouch_idem, hsv, nilError, Bool.false_eq_true, if_false]
    refine ⟨bucketsSet (bucketsSet (s'.emit X).bs dataName (dataPut (valFold X ((bucketsGet oc dataName).getD []) (walk (d.map (·.1)))) [73] (be32 idx.nextRowID.toNat)))
        dataName (bigFileData X ((bucketsGet oc dataName).getD []) (walk (d.map (·.1))) (schemaValue hp idx.schema) idx.nextRowID),
      s'.hp, ?_, bucketsGet_set_same _ _ _, hcols⟩
    rw [f2]
    simp [txRollback, txOf, bigFileData]


/-! ### a key of the wrong length -/

/-- `bigRun` fails exactly on a key whose length is not 12 -/
theorem bigRun_isSome (X : Ext) : ∀ (ks : List Bytes) (s : BigLoopSt), (bigRun X ks s).isSome = ks.all (fun k => k.length == 12) := by
  intro ks
  induction ks with
  | nil => intro s; rfl
  | cons k rest ih =>
    intro s
    unfold bigRun
    by_cases hl : k.length = 12
    · simp only [hl, ne_eq, not_true_eq_false, if_false, List.all_cons, beq_self_eq_true, Bool.true_and]
      split <;> exact ih _
    · simp [hl]

/-- **`Flush` with a temp key of the wrong length**: `(… , err)` with `err != nil`; the temp transaction was committed, but
    the output database is exactly as before (the deferred `tx.Rollback()`): nothing committed, no transaction open. -/
theorem bigIndexWriterFlush_badkey_spec (X : Ext) (oi on' : Nat) (oc : Buckets) (ocs : List (List PutRec))
    (ti tt tn : Nat) (tc0 tbs : Buckets) (tcs : List (List PutRec)) (tlog : List PutRec) (hp : Heap) (idx : BigIndexWriter)
    (d : BucketData) (htd : bucketsGet tbs tempName = some d)
    (hdb : idx.db = some oi) (htdb : idx.tempDB = some ti) (httx : idx.tempTx = some tt)
    (hbad : (d.map (·.1)).all (fun k => k.length == 12) = false) :
    ∃ hp' e,
      Gen.bigIndexWriterFlush X
        { id := oi, closed := false, committed := oc, tx := none, nextTx := on', commits := ocs }
        { id := ti, closed := false, committed := tc0, tx := some { id := tt, writable := true, buckets := tbs, log := tlog },
          nextTx := tn, commits := tcs } hp idx
      = ({ id := oi, closed := false, committed := oc, tx := none, nextTx := on' + 1, commits := ocs },
         { id := ti, closed := false, committed := tbs, tx := none, nextTx := tn + 1, commits := tcs ++ [tlog] },
         hp', { idx with tempTx := none, mtx := mutexTouch idx.mtx }, some e) := by
  let bs0 : Buckets := if (bucketsGet oc dataName).isSome then oc else bucketsSet oc dataName []
  have hget0 : bucketsGet bs0 dataName = some ((bucketsGet oc dataName).getD []) := by
    show bucketsGet (if (bucketsGet oc dataName).isSome then oc else bucketsSet oc dataName []) dataName = _
    cases h : bucketsGet oc dataName with
    | none => simp [bucketsGet_set_same]
    | some d => simp [h]
  let s0 : BigLoopSt := { bs := bs0, lg := [], hp := hp, cur := 0, bm := none }
  have hrun : bigRun X (d.map (·.1)) s0 = none := by
    have := bigRun_isSome X (d.map (·.1)) s0
    rw [hbad] at this
    cases h : bigRun X (d.map (·.1)) s0 with
    | none => rfl
    | some x => rw [h] at this; cases this
  have hloop := big_flush_loop X ti tn tbs (tcs ++ [tlog]) d htd oi on' oc ocs
    { mtx := mutexTouch idx.mtx, schema := idx.schema, db := some oi, tempDB := some ti, tempTx := none, nextRowID := idx.nextRowID }
    none d 0 s0 (d.length + 1) rfl (by omega) ⟨_, hget0⟩
  rw [hrun] at hloop
  obtain ⟨hp', e, hfw⟩ := hloop
  have hd : ([100, 97, 116, 97] : Bytes) = dataName := rfl
  have ht : ([116, 101, 109, 112] : Bytes) = tempName := rfl
  unfold Gen.bigIndexWriterFlush
  simp only [httx, htdb, hdb, txCommit_mk, isErr_none, Bool.false_eq_true, if_false, verifPoint, dbBegin_mk, ht, hd,
    txBucket_mk, htd, Option.isSome_some, if_true, txCreateBucket_mk _ _ _ _ _ _ _ dataName rfl,
    mutexTouch_idem]
  have hro : ({ id := ti, closed := false, committed := tbs, tx := some { id := tn, writable := false, buckets := tbs, log := [] }, nextTx := tn + 1, commits := tcs ++ [tlog] } : Bolt) = roView ti tn tbs (tcs ++ [tlog]) := rfl
  have hrw : ({ id := oi, closed := false, committed := oc, tx := some { id := on', writable := true, buckets := (if (bucketsGet oc dataName).isSome = true then oc else bucketsSet oc dataName []), log := [] }, nextTx := on' + 1, commits := ocs } : Bolt) = rwView oi on' oc s0.bs ocs s0.lg := rfl
  rw [hro, hrw, cursorFirst_ro ti tn tbs _ tempName d htd]
  simp only [cursorFuel_ro ti tn tbs _ tempName d htd]
  simp only [nilPtr]
  have hfw' : forWhile (d.length + 1)
      ((rwView oi on' oc s0.bs ocs s0.lg, roView ti tn tbs (tcs ++ [tlog]), hp, (0 : UInt64), (none : Ptr),
        ({ bucket := some (tn, tempName), pos := 0 } : Cursor), (d[0]?).map (·.1)) : BigGenSt)
      (Gen.bigIndexWriterFlush_loop1_cond X
        { mtx := mutexTouch idx.mtx, schema := idx.schema, db := some oi, tempDB := some ti, tempTx := none, nextRowID := idx.nextRowID }
        (some tn) none (some (tn, tempName)) (some on') (some (on', dataName)))
      (Gen.bigIndexWriterFlush_loop1_body X
        { mtx := mutexTouch idx.mtx, schema := idx.schema, db := some oi, tempDB := some ti, tempTx := none, nextRowID := idx.nextRowID }
        (some tn) none (some (tn, tempName)) (some on') (some (on', dataName)))
      = .ret ({ id := oi, closed := false, committed := oc, tx := none, nextTx := on' + 1, commits := ocs },
              { id := ti, closed := false, committed := tbs, tx := none, nextTx := tn + 1, commits := tcs ++ [tlog] },
              hp', { mtx := mutexTouch idx.mtx, schema := idx.schema, db := some oi, tempDB := some ti, tempTx := none, nextRowID := idx.nextRowID },
              some e) := hfw
  rw [hfw']
  exact ⟨hp', e, rfl⟩

/-! ### bbolt's key order gives the walk its groups -/

theorem decKey_sorted (d : BucketData) (hs : SortedData d) (hl : ∀ k ∈ d.map (·.1), k.length = 12) :
    ((d.map (·.1)).map decKey).Pairwise (fun p q => p.1 ≤ q.1) := by
  rw [List.pairwise_map, List.pairwise_map]
  refine List.Pairwise.imp_of_mem ?_ hs
  intro a b ha hb hlt
  have la : a.1.length = 12 := hl a.1 (List.mem_map.mpr ⟨a, ha, rfl⟩)
  have lb : b.1.length = 12 := hl b.1 (List.mem_map.mpr ⟨b, hb, rfl⟩)
  rw [bytesLt_eq_decode_lt a.1 b.1 (by rw [la, lb])] at hlt
  have hlt' : beDecode a.1 < beDecode b.1 := by simpa using hlt
  have split : ∀ k : Bytes, k.length = 12 → beDecode k = beDecode (k.take 8) * 4294967296 + beDecode (k.drop 8) ∧ beDecode (k.drop 8) < 4294967296 := by
    intro k hk
    have h1 : beDecode k = beDecode (k.take 8 ++ k.drop 8) := by rw [List.take_append_drop]
    have h2 : (k.drop 8).length = 4 := by simp [hk]
    have h3 := beDecode_lt (k.drop 8)
    rw [h2] at h3
    rw [h1, beDecode_append, h2]
    exact ⟨rfl, h3⟩
  obtain ⟨ea, ra⟩ := split a.1 la
  obtain ⟨eb, rb⟩ := split b.1 lb
  show beDecode (a.1.take 8) ≤ beDecode (b.1.take 8)
  omega

/-! ### NewBigIndexWriter, Close -/

/-- **`NewBigIndexWriter(db, tempDB)` on an open, idle temporary database**: one committed transaction that creates the
    bucket `temp` if it is absent (an existing bucket keeps its keys), then the writer's first write transaction is
    opened and stored in `tempTx`. The output database is not touched. -/
theorem newBigIndexWriter_spec (ti tn : Nat) (tc : Buckets) (tcs : List (List PutRec)) (db : DBRef) :
    Gen.newBigIndexWriter { id := ti, closed := false, committed := tc, tx := none, nextTx := tn, commits := tcs } db (some ti)
      = ({ id := ti, closed := false,
           committed := (if (bucketsGet tc tempName).isSome then tc else bucketsSet tc tempName []),
           tx := some { id := tn + 1, writable := true,
                        buckets := (if (bucketsGet tc tempName).isSome then tc else bucketsSet tc tempName []), log := [] },
           nextTx := tn + 2, commits := tcs ++ [[]] },
         some { db := db, tempDB := some ti, tempTx := some (tn + 1) }, none) := by
  have ht : ([116, 101, 109, 112] : Bytes) = tempName := rfl
  unfold Gen.newBigIndexWriter
  simp only [dbUpdate, dbBegin_mk, ht, txCreateBucket_mk _ _ _ _ _ _ _ tempName rfl, txCommit_mk, isErr_none,
    Bool.false_eq_true, if_false, nilError]
  rfl

/-- `NewBigIndexWriter` on a temporary database that is closed (or another handle): `(nil, err)`, nothing changed -/
theorem newBigIndexWriter_closed (tb : Bolt) (db tempDB : DBRef) (h : dbIs tb tempDB = false) :
    Gen.newBigIndexWriter tb db tempDB = (tb, none, errClosed) := by
  unfold Gen.newBigIndexWriter
  simp [dbUpdate, dbBegin, h, errClosed, isErr]

/-- **`Close` with the temp transaction open**: `tempTx.Rollback()` — the pending `Put`s are dropped, what was committed
    stays — `tempTx = nil`, the mutex is released, the result is nil -/
theorem bigIndexWriterClose_spec (ti tt tn : Nat) (tc tbs : Buckets) (tcs : List (List PutRec)) (tlog : List PutRec)
    (w : Bool) (idx : BigIndexWriter) (htx : idx.tempTx = some tt) :
    Gen.bigIndexWriterClose
      { id := ti, closed := false, committed := tc, tx := some { id := tt, writable := w, buckets := tbs, log := tlog }, nextTx := tn, commits := tcs } idx
      = ({ id := ti, closed := false, committed := tc, tx := none, nextTx := tn, commits := tcs },
         { idx with tempTx := none, mtx := mutexUnlock (mutexLock idx.mtx) }, none) := by
  unfold Gen.bigIndexWriterClose
  simp [htx, txRollback_mk, mutexTouch_mutexLock]

/-- **`Close` after `Close` or after `Flush`** (`tempTx == nil`): nil, nothing happens to the database -/
theorem bigIndexWriterClose_nil (tb : Bolt) (idx : BigIndexWriter) (htx : idx.tempTx = none) :
    Gen.bigIndexWriterClose tb idx = (tb, { idx with mtx := mutexUnlock (mutexLock idx.mtx) }, nilError) := by
  unfold Gen.bigIndexWriterClose
  simp [htx, mutexTouch_mutexLock]


/-! ### in terms of `BigReady` -/

theorem sortKeys_sorted (d : BucketData) (hs : SortedData d) : sortKeys (d.map (·.1)) = d.map (·.1) := by
  unfold sortKeys
  apply List.mergeSort_of_pairwise
  rw [List.pairwise_map]
  refine List.Pairwise.imp ?_ hs
  intro a b h
  unfold bytesLe
  have := Updog.bytesLt_asymm h
  rw [this]
  rfl

theorem keys_nodup (d : BucketData) (hs : SortedData d) : (d.map (·.1)).Nodup := by
  unfold List.Nodup
  rw [List.pairwise_map]
  refine List.Pairwise.imp ?_ hs
  intro a b h
  exact bytesLt_ne h

/-- what the reader finds in a complete file `Flush` wrote into an empty bucket -/
theorem bigFileData_spec (X : Ext) (vs : ValMap) (hn : KeysNodup vs) (s : SchemaVal) (n : UInt32) :
    SortedData (bigFileData X [] vs s n) ∧ WellKeyed (bigFileData X [] vs s n) ∧
    dataGet (bigFileData X [] vs s n) [83] = some (X.gobEncode s) ∧
    dataGet (bigFileData X [] vs s n) [73] = some (be32 n.toNat) ∧
    ∀ h, dataGet (bigFileData X [] vs s n) (86 :: be64 h.toNat) = (vs.get h).map X.roaringToBytes := by
  refine ⟨?_, ?_, ?_, ?_, ?_⟩
  · exact sorted_dataPut _ _ _ (sorted_dataPut _ _ _ (sorted_valFold X [] vs (by simp [SortedData])))
  · intro kv hkv hpre
    rcases mem_dataPut _ _ _ _ hkv with h | h
    · rw [h] at hpre; simp [hasPrefix] at hpre
    · rcases mem_dataPut _ _ _ _ h with h | h
      · rw [h] at hpre; simp [hasPrefix] at hpre
      · rcases mem_valFold X [] vs kv h with h | ⟨kb, _, e⟩
        · cases h
        · exact ⟨kb.1, e⟩
  · unfold bigFileData
    rw [dataGet_dataPut]
    simp
  · unfold bigFileData
    rw [dataGet_dataPut, dataGet_dataPut]
    simp
  · intro h
    unfold bigFileData
    have e : (86 :: be64 h.toNat) = vKey h := rfl
    rw [e, dataGet_dataPut, dataGet_dataPut, if_neg (vKey_ne_S h), if_neg (vKey_ne_I h)]
    exact dataGet_valFold_nil X vs hn h

/-- `bigIndexWriterFlush_spec` for any temporary database in the state `BigReady` and any open, idle output database -/
theorem bigIndexWriterFlush_ready (X : Ext) (bolt tbolt : Bolt) (hp : Heap) (idx : BigIndexWriter) (d : BucketData)
    (hr : BigReady tbolt idx d) (ho : bolt.closed = false) (hnotx : bolt.tx = none) (hdb : idx.db = some bolt.id)
    (hl : ∀ k ∈ d.map (·.1), k.length = 12) (hs : SortedData d) :
    let r := Gen.bigIndexWriterFlush X bolt tbolt hp idx
    r.2.2.2.2 = none ∧
    r.1.commits = bolt.commits ++ [(walk (d.map (·.1))).map (valRec X) ++
        [(dataName, [73], be32 idx.nextRowID.toNat), (dataName, [83], X.gobEncode (schemaValue hp idx.schema))]] ∧
    r.1.tx = none ∧ r.1.closed = false ∧ r.1.id = bolt.id ∧
    bucketsGet r.1.committed dataName = some (bigFileData X ((bucketsGet bolt.committed dataName).getD []) (walk (d.map (·.1)))
        (schemaValue hp idx.schema) idx.nextRowID) ∧
    r.2.1.tx = none ∧ r.2.1.closed = false ∧ r.2.1.id = tbolt.id ∧ bucketsGet r.2.1.committed tempName = some d ∧
    r.2.1.commits.length = tbolt.commits.length + 1 ∧
    r.2.2.2.1 = { idx with tempTx := none, mtx := mutexTouch idx.mtx } ∧ r.2.2.1.columns = hp.columns := by
  obtain ⟨h1, h2, t, h3, h4, h5, h6⟩ := hr
  obtain ⟨ti, tclosed, tc0, ttx, tn, tcs⟩ := tbolt
  obtain ⟨tt, twr, tbs, tlog⟩ := t
  obtain ⟨oi, oclosed, oc, otx, on', ocs⟩ := bolt
  simp only at h1 h2 h3 h4 h5 h6 ho hnotx hdb
  subst h1 h3 h5 ho hnotx
  obtain ⟨bsF, hp', e, g, hc⟩ := bigIndexWriterFlush_spec X oi on' oc ocs ti tt tn tc0 tbs tcs tlog hp idx d h6 hdb h2 h4 hl
    (decKey_sorted d hs hl)
  intro r
  have hr : r = _ := e
  rw [hr]
  refine ⟨rfl, rfl, rfl, rfl, rfl, g, rfl, rfl, rfl, h6, ?_, rfl, hc⟩
  simp

/-- … and with a key of the wrong length in the temp bucket -/
theorem bigIndexWriterFlush_ready_badkey (X : Ext) (bolt tbolt : Bolt) (hp : Heap) (idx : BigIndexWriter) (d : BucketData)
    (hr : BigReady tbolt idx d) (ho : bolt.closed = false) (hnotx : bolt.tx = none) (hdb : idx.db = some bolt.id)
    (hbad : (d.map (·.1)).all (fun k => k.length == 12) = false) :
    let r := Gen.bigIndexWriterFlush X bolt tbolt hp idx
    isErr r.2.2.2.2 = true ∧ r.1.commits = bolt.commits ∧ r.1.committed = bolt.committed ∧ r.1.tx = none ∧ r.1.closed = false ∧
    r.2.1.tx = none ∧ bucketsGet r.2.1.committed tempName = some d := by
  obtain ⟨h1, h2, t, h3, h4, h5, h6⟩ := hr
  obtain ⟨ti, tclosed, tc0, ttx, tn, tcs⟩ := tbolt
  obtain ⟨tt, twr, tbs, tlog⟩ := t
  obtain ⟨oi, oclosed, oc, otx, on', ocs⟩ := bolt
  simp only at h1 h2 h3 h4 h5 h6 ho hnotx hdb
  subst h1 h3 h5 ho hnotx
  obtain ⟨hp', e, he⟩ := bigIndexWriterFlush_badkey_spec X oi on' oc ocs ti tt tn tc0 tbs tcs tlog hp idx d h6 hdb h2 h4 hbad
  intro r
  have hr : r = _ := he
  rw [hr]
  exact ⟨rfl, rfl, rfl, rfl, rfl, rfl, h6⟩

end Updog.GeneratedEq
