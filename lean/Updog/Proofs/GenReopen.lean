/-
Helper lemmas for Props/C05Reopen.lean: the generated `AddRow` iterated over a list of rows, what the reader's
abstraction makes of the file the generated writer leaves, and "opening does not change the file".
-/
import Updog.Proofs.GenFlushData
import Updog.Proofs.Counter32
import Updog.Props.Gen.Open
import Updog.Props.Gen.Writer
namespace Updog.GeneratedEq
open Updog.Go.T3

theorem beUint32_be32 (n : UInt32) : beUint32 (be32 n.toNat) = n := by
  have hl : (be32 n.toNat).length = 4 := be32_length _
  have hd : beNat (be32 n.toNat) = n.toNat := be32_roundtrip n.toNat n.toNat_lt
  unfold beUint32
  rw [if_neg (by omega), List.take_of_length_le (by omega), hd]
  simp

/-! ### the generated `AddRow`, row after row -/

section
variable (H : Bytes → UInt64)

/-- call the generated `AddRow` for every row in turn -/
def genAddRows : Heap × IndexWriter → List Row → Heap × IndexWriter
  | st, [] => st
  | st, r :: rs => genAddRows ((Gen.indexWriterAddRow H st.1 st.2 r).1, (Gen.indexWriterAddRow H st.1 st.2 r).2.1) rs

/-- the ids (and errors) the successive calls return -/
def genAddRowsIds : Heap × IndexWriter → List Row → List (UInt32 × Error)
  | _, [] => []
  | st, r :: rs =>
    (Gen.indexWriterAddRow H st.1 st.2 r).2.2 ::
      genAddRowsIds ((Gen.indexWriterAddRow H st.1 st.2 r).1, (Gen.indexWriterAddRow H st.1 st.2 r).2.1) rs

/-- with room in the 32-bit counter for all rows, the generated writer's state abstracts to the model's `addRows`,
    stays well formed, and the returned ids are the model's -/
theorem genAddRows_spec (rows : List Row) (hp : Heap) (idx : IndexWriter) (wf : WriterWF H hp idx)
    (hroom : idx.nextRowID.toNat + rows.length < 2 ^ 32) :
    absWriter (genAddRows H (hp, idx) rows).1 (genAddRows H (hp, idx) rows).2 = Writer.addRows H (absWriter hp idx) rows ∧
    WriterWF H (genAddRows H (hp, idx) rows).1 (genAddRows H (hp, idx) rows).2 ∧
    (genAddRowsIds H (hp, idx) rows).map (fun p => (p.1.toNat, p.2)) =
      (Writer.addRowsIds H (absWriter hp idx) rows).map (fun i => (i, nilError)) := by
  induction rows generalizing hp idx with
  | nil => exact ⟨rfl, wf, rfl⟩
  | cons r rs ih =>
    simp only [List.length_cons] at hroom
    have h1 : idx.nextRowID.toNat + 1 < 2 ^ 32 := by omega
    obtain ⟨e1, e2, e3, e4, _, _⟩ := indexWriterAddRow_eq H hp idx r wf h1
    have hnext : (Gen.indexWriterAddRow H hp idx r).2.1.nextRowID.toNat = idx.nextRowID.toNat + 1 := by
      have := congrArg Writer.next e1
      simpa [absWriter, Writer.addRow] using this
    obtain ⟨i1, i2, i3⟩ := ih _ _ e4 (by rw [hnext]; omega)
    refine ⟨?_, i2, ?_⟩
    · show absWriter (genAddRows H _ rs).1 (genAddRows H _ rs).2 = _
      rw [i1, e1]; rfl
    · simp only [genAddRowsIds, Writer.addRowsIds, List.map_cons]
      rw [i3, e1]
      congr 1

theorem wf_empty : WriterWF H ({} : Heap) ({} : IndexWriter) :=
  ⟨⟨PtrsOK.nil _, by intro cv hcv; simp [schemaValue] at hcv⟩, PtrsOK.nil _⟩

end

/-! ### the reader's view of a complete file -/

/-- on a complete file written into an empty bucket, with coders that round-trip, the model `Index` the reader's
    getters induce (`Image.toIndex` of `imageOfData`) looks bitmaps up exactly like the writer's value map -/
theorem fileData_toIndex (X : Ext) (hroar : ∀ b, X.roaringFromBuffer (X.roaringToBytes b) = some b)
    (vs : ValMap) (hn : KeysNodup vs) (s : SchemaVal) (n : UInt32) (sch : Schema) (nx : Nat) :
    (imageOfData X (fileData X [] vs s n)).toIndex sch nx = { schema := sch, next := nx, getCol := vs.get } := by
  obtain ⟨_, wk, _, _, hv⟩ := fileData_spec X vs hn s n
  simp only [Image.toIndex, Index.mk.injEq, true_and]
  funext h
  rw [get_imageOfData X _ wk h, hv h]
  cases vs.get h with
  | none => rfl
  | some b => simp [hroar b]

/-! ### opening reads, it does not write -/

/-- `OpenIndexFromBoltDatabase` without options: the committed content is what it was, whether the call succeeds or not -/
theorem open_committed (X : Ext) (i n : Nat) (c : Buckets) (cs : List (List PutRec)) (hp : Heap) :
    (Gen.openIndexFromBoltDatabase X (idle i n c cs) hp (some i) []).1.committed = c ∧
    (Gen.openIndexFromBoltDatabase X (idle i n c cs) hp (some i) []).1.commits = cs := by
  have hv := open_view X i n c cs hp []
  simp only at hv
  unfold idle
  by_cases hok : headerOK X c = true
  · rw [if_pos hok] at hv
    obtain ⟨d, sb, s, cb, _, _, _, _, _, hr⟩ := hv
    rw [hr]
    simp [openTail, forRange]
  · rw [if_neg hok] at hv
    obtain ⟨_, _, _, e4⟩ := hv
    rw [e4]
    exact ⟨rfl, rfl⟩

/-- what a caller can observe of the returned `*Index` besides the handle: decoded schema and row counter -/
def header (ix : Go.T3.Index) : Option SchemaVal × UInt32 := (ix.schema, ix.nextRowID)

/-- the outcome of opening depends on the file content only — not on the handle, the transaction counter, the commit
    history or the heap -/
theorem open_depends_on_file_only (X : Ext) (c : Buckets) (i n : Nat) (cs : List (List PutRec)) (hp : Heap)
    (i' n' : Nat) (cs' : List (List PutRec)) (hp' : Heap) :
    isErr (Gen.openIndexFromBoltDatabase X (idle i n c cs) hp (some i) []).2.2.2
      = isErr (Gen.openIndexFromBoltDatabase X (idle i' n' c cs') hp' (some i') []).2.2.2 ∧
    (Gen.openIndexFromBoltDatabase X (idle i n c cs) hp (some i) []).2.2.1.map header
      = (Gen.openIndexFromBoltDatabase X (idle i' n' c cs') hp' (some i') []).2.2.1.map header := by
  have hv := open_view X i n c cs hp []
  have hv' := open_view X i' n' c cs' hp' []
  simp only at hv hv'
  unfold idle
  by_cases hok : headerOK X c = true
  · rw [if_pos hok] at hv hv'
    obtain ⟨d, sb, s, cb, g1, g2, g3, g4, _, hr⟩ := hv
    obtain ⟨d', sb', s', cb', f1, f2, f3, f4, _, hr'⟩ := hv'
    rw [g1] at f1; injection f1 with f1; subst f1
    rw [g2] at f2; injection f2 with f2; subst f2
    rw [g3] at f3; injection f3 with f3; subst f3
    rw [g4] at f4; injection f4 with f4; subst f4
    rw [hr, hr']
    simp [openTail, forRange, header, Gen.newOnDemandColGetter, ColGetter.isNil, nilError]
  · rw [if_neg hok] at hv hv'
    obtain ⟨e1, e2, _, _⟩ := hv
    obtain ⟨e1', e2', _, _⟩ := hv'
    rw [e2, e2']
    exact ⟨by simp only [isErr]; rw [e1, e1'], rfl⟩

end Updog.GeneratedEq
