/-
The schema invariant of the writer: the value list recorded for a column holds exactly the values the
column was added with, each once, each with the value index `H (encodePair c v)`.
-/
import Updog.Proofs.Writer
namespace Updog

section
variable (H : Bytes → UInt64)

/-- a well-formed value list of column `c`, given the pairs `ps` added so far -/
structure ColOK (c : Bytes) (vs : List (Bytes × UInt64)) (ps : List (Bytes × Bytes)) : Prop where
  nodup : (vs.map (·.1)).Nodup
  mem : ∀ v, v ∈ vs.map (·.1) ↔ (c, v) ∈ ps
  hash : ∀ vh ∈ vs, vh.2 = H (encodePair c vh.1)

def SchemaOK (s : Schema) (ps : List (Bytes × Bytes)) : Prop :=
  ∀ c, match s.col c with
    | none => ∀ v, (c, v) ∉ ps
    | some vs => ColOK H c vs ps

theorem ColOK.of_none {c : Bytes} {ps : List (Bytes × Bytes)} (h : ∀ v, (c, v) ∉ ps) : ColOK H c [] ps :=
  ⟨by simp, by intro v; simp [h v], by simp⟩

theorem ColOK.addVal {c : Bytes} {vs : List (Bytes × UInt64)} {ps : List (Bytes × Bytes)}
    (h : ColOK H c vs ps) (v : Bytes) :
    ColOK H c (addVal vs v (H (encodePair c v))) (ps ++ [(c, v)]) := by
  unfold Updog.addVal
  by_cases hv : v ∈ vs.map (·.1)
  · have hany : (vs.any fun x => x.1 == v) = true := by
      simp only [List.mem_map] at hv
      obtain ⟨x, hx, hxv⟩ := hv
      exact List.any_eq_true.mpr ⟨x, hx, by simp [hxv]⟩
    rw [if_pos hany]
    refine ⟨h.nodup, ?_, h.hash⟩
    intro v'
    rw [h.mem v']
    simp only [List.mem_append, List.mem_singleton, Prod.mk.injEq, true_and]
    constructor
    · exact Or.inl
    · rintro (h1 | h1)
      · exact h1
      · subst h1; exact (h.mem v').mp hv
  · have hany : ¬ (vs.any fun x => x.1 == v) = true := by
      intro ha
      obtain ⟨x, hx, hxv⟩ := List.any_eq_true.mp ha
      exact hv (List.mem_map.mpr ⟨x, hx, by simpa using hxv⟩)
    rw [if_neg hany]
    refine ⟨?_, ?_, ?_⟩
    · rw [List.map_append, List.nodup_append]
      refine ⟨h.nodup, by simp, ?_⟩
      intro a ha b hb
      simp only [List.map_cons, List.map_nil, List.mem_singleton] at hb
      subst hb
      intro e; subst e; exact hv ha
    · intro v'
      simp only [List.map_append, List.mem_append, List.map_cons, List.map_nil, List.mem_singleton,
        Prod.mk.injEq, true_and]
      rw [h.mem v']
    · intro vh hvh
      simp only [List.mem_append, List.mem_singleton] at hvh
      rcases hvh with h1 | h1
      · exact h.hash vh h1
      · subst h1; rfl

theorem SchemaOK.add {s : Schema} {ps : List (Bytes × Bytes)} (hs : SchemaOK H s ps) (k v : Bytes) :
    SchemaOK H (s.add k v (H (encodePair k v))) (ps ++ [(k, v)]) := by
  intro c
  rw [Schema.col_add]
  by_cases hc : c = k
  · subst hc
    rw [if_pos rfl]
    have h0 := hs c
    cases hcol : s.col c with
    | none =>
      rw [hcol] at h0
      exact (ColOK.of_none H h0).addVal H v
    | some vs =>
      rw [hcol] at h0
      exact h0.addVal H v
  · rw [if_neg hc]
    have h0 := hs c
    have hne : ∀ v', (c, v') ≠ (k, v) := by
      intro v' e; exact hc (by simpa using (Prod.mk.inj e).1)
    cases hcol : s.col c with
    | none =>
      rw [hcol] at h0
      intro v' hm
      simp only [List.mem_append, List.mem_singleton] at hm
      rcases hm with h1 | h1
      · exact h0 v' h1
      · exact hne v' h1
    | some vs =>
      rw [hcol] at h0
      refine ⟨h0.nodup, ?_, h0.hash⟩
      intro v'
      rw [h0.mem v']
      simp only [List.mem_append, List.mem_singleton]
      constructor
      · exact Or.inl
      · rintro (h1 | h1)
        · exact h1
        · exact absurd h1 (hne v')

/-- the schema update performed for one pair -/
def addS (s : Schema) (kv : Bytes × Bytes) : Schema := s.add kv.1 kv.2 (H (encodePair kv.1 kv.2))

theorem SchemaOK.fold {s : Schema} {ps : List (Bytes × Bytes)} (hs : SchemaOK H s ps)
    (qs : List (Bytes × Bytes)) : SchemaOK H (qs.foldl (addS H) s) (ps ++ qs) := by
  induction qs generalizing s ps with
  | nil => simpa using hs
  | cons q qs ih =>
    have := ih (hs.add H q.1 q.2)
    simpa [List.foldl, addS, List.append_assoc] using this

theorem addPair_fold_schema (k : Nat) (r : Row) (w : Writer) :
    (r.foldl (Writer.addPair H k) w).schema = r.foldl (addS H) w.schema := by
  induction r generalizing w with
  | nil => rfl
  | cons kv r ih => rw [List.foldl, ih]; rfl

theorem addRows_schema (rows : List Row) (w : Writer) :
    (Writer.addRows H w rows).schema = (pairsOf rows).foldl (addS H) w.schema := by
  induction rows generalizing w with
  | nil => rfl
  | cons r rows ih =>
    simp only [Writer.addRows, List.foldl] at ih ⊢
    rw [ih]
    simp only [Writer.addRow, addPair_fold_schema, pairsOf, List.flatMap_cons, id, List.foldl_append]

theorem schemaOK_addRows (rows : List Row) :
    SchemaOK H (Writer.addRows H {} rows).schema (pairsOf rows) := by
  rw [addRows_schema]
  have h0 : SchemaOK H ([] : Schema) [] := by intro c; simp [Schema.col]
  simpa using h0.fold H (pairsOf rows)

/-- the value list of a column of the written schema: every value of that column in the data exactly
once, each with its value index -/
theorem schema_col_some (rows : List Row) (c : Bytes) (vs : List (Bytes × UInt64))
    (h : (Writer.addRows H {} rows).schema.col c = some vs) : ColOK H c vs (pairsOf rows) := by
  have := schemaOK_addRows H rows c
  rw [h] at this
  exact this

theorem schema_col_none_iff (rows : List Row) (c : Bytes) :
    (Writer.addRows H {} rows).schema.col c = none ↔ c ∉ columnsOf rows := by
  have h := schema_col_isSome H rows {} c
  simp only [Schema.col, Option.isSome_none, Bool.false_or] at h
  cases hcol : (Writer.addRows H {} rows).schema.col c with
  | none =>
    rw [hcol] at h
    simp only [Option.isSome_none] at h
    simp only [true_iff]
    intro hm
    have : (columnsOf rows).contains c = true := by simpa using hm
    rw [this] at h; exact Bool.noConfusion h
  | some vs =>
    rw [hcol] at h
    simp only [Option.isSome_some] at h
    simp only [reduceCtorEq, false_iff, Classical.not_not]
    simpa using h.symm

theorem schema_col_exists (rows : List Row) (c : Bytes) (hc : c ∈ columnsOf rows) :
    ∃ vs, (Writer.addRows H {} rows).schema.col c = some vs := by
  cases hcol : (Writer.addRows H {} rows).schema.col c with
  | none => exact absurd hc ((schema_col_none_iff H rows c).mp hcol)
  | some vs => exact ⟨vs, rfl⟩

end
end Updog
