/-
Lemmas about the primitives of Updog/Basic/GoPreludeT3.lean: Go maps as association lists, the heap of bitmaps and
columns, and how they relate to the association lists of the hand-written model (`Schema`, `ValMap`).
-/
import Updog.Basic.GoPreludeT3
import Updog.Model.Index
namespace Updog.Go.T3

/-! ### mutexes -/

theorem mutexLock_held (m : Mutex) : (mutexLock m).held = true := by
  unfold mutexLock; cases h : m.held <;> simp [h]

theorem mutexTouch_of_held (m : Mutex) (h : m.held = true) : mutexTouch m = m := by
  simp [mutexTouch, h]

@[simp] theorem mutexTouch_mutexLock (m : Mutex) : mutexTouch (mutexLock m) = mutexLock m :=
  mutexTouch_of_held _ (mutexLock_held m)

theorem mutexTouch_held (m : Mutex) : (mutexTouch m).held = m.held := by
  unfold mutexTouch; cases h : m.held <;> simp [h]

theorem mutex_lock_unlock_free : mutexUnlock (mutexLock ({} : Mutex)) = {} := rfl

/-! ### Go maps -/

section maps
variable {κ ν : Type} [BEq κ]

theorem mapLookup_miss (m : GoMap κ ν) (k : κ) (z : ν) (h : ∀ kp ∈ m, (kp.1 == k) = false) :
    mapLookup m k z = (z, false) := by
  induction m with
  | nil => rfl
  | cons kp rest ih =>
    obtain ⟨k', v⟩ := kp
    have h1 : (k' == k) = false := h (k', v) (by simp)
    simp only [mapLookup, h1, Bool.false_eq_true, if_false]
    exact ih (fun q hq => h q (List.mem_cons_of_mem _ hq))

theorem mapSet_miss (m : GoMap κ ν) (k : κ) (v : ν) (h : ∀ kp ∈ m, (kp.1 == k) = false) :
    mapSet m k v = m ++ [(k, v)] := by
  induction m with
  | nil => rfl
  | cons kp rest ih =>
    obtain ⟨k', v'⟩ := kp
    have h1 : (k' == k) = false := h (k', v') (by simp)
    simp only [mapSet, h1, Bool.false_eq_true, if_false, List.cons_append]
    rw [ih (fun q hq => h q (List.mem_cons_of_mem _ hq))]

theorem mapLookup_hit (m1 m2 : GoMap κ ν) (k' k : κ) (p z : ν) (h1 : ∀ kp ∈ m1, (kp.1 == k) = false)
    (hk : (k' == k) = true) : mapLookup (m1 ++ (k', p) :: m2) k z = (p, true) := by
  induction m1 with
  | nil => simp [mapLookup, hk]
  | cons kp rest ih =>
    obtain ⟨k'', v⟩ := kp
    have h2 : (k'' == k) = false := h1 (k'', v) (by simp)
    simp only [List.cons_append, mapLookup, h2, Bool.false_eq_true, if_false]
    exact ih (fun q hq => h1 q (List.mem_cons_of_mem _ hq))

theorem mapSet_hit (m1 m2 : GoMap κ ν) (k' k : κ) (p v : ν) (h1 : ∀ kp ∈ m1, (kp.1 == k) = false)
    (hk : (k' == k) = true) : mapSet (m1 ++ (k', p) :: m2) k v = m1 ++ (k', v) :: m2 := by
  induction m1 with
  | nil => simp [mapSet, hk]
  | cons kp rest ih =>
    obtain ⟨k'', v'⟩ := kp
    have h2 : (k'' == k) = false := h1 (k'', v') (by simp)
    simp only [List.cons_append, mapSet, h2, Bool.false_eq_true, if_false]
    rw [ih (fun q hq => h1 q (List.mem_cons_of_mem _ hq))]

/-- a key is either absent, or the map splits at its first occurrence -/
theorem map_split (m : GoMap κ ν) (k : κ) :
    (∀ kp ∈ m, (kp.1 == k) = false) ∨
    ∃ m1 k' p m2, m = m1 ++ (k', p) :: m2 ∧ (∀ kp ∈ m1, (kp.1 == k) = false) ∧ (k' == k) = true := by
  induction m with
  | nil => left; simp
  | cons kp rest ih =>
    obtain ⟨k', v⟩ := kp
    by_cases hk : (k' == k) = true
    · right; exact ⟨[], k', v, rest, rfl, by simp, hk⟩
    · have hk' : (k' == k) = false := by simpa using hk
      rcases ih with h | ⟨m1, k'', p, m2, e, h1, h2⟩
      · left
        intro q hq
        rcases List.mem_cons.mp hq with rfl | hq
        · exact hk'
        · exact h q hq
      · right
        refine ⟨(k', v) :: m1, k'', p, m2, by rw [e]; rfl, ?_, h2⟩
        intro q hq
        rcases List.mem_cons.mp hq with rfl | hq
        · exact hk'
        · exact h1 q hq

theorem mapLookup_snd (m : GoMap κ ν) (k : κ) (z : ν) : (mapLookup m k z).2 = m.any (fun kp => kp.1 == k) := by
  induction m with
  | nil => rfl
  | cons kp rest ih =>
    obtain ⟨k', v⟩ := kp
    by_cases hk : (k' == k) = true
    · simp [mapLookup, hk]
    · have hk' : (k' == k) = false := by simpa using hk
      simp [mapLookup, hk', ih]

theorem mapLookup_mem (m : GoMap κ ν) (k : κ) (z : ν) (h : (mapLookup m k z).2 = true) :
    ∃ k', (k', (mapLookup m k z).1) ∈ m ∧ (k' == k) = true := by
  induction m with
  | nil => simp [mapLookup] at h
  | cons kp rest ih =>
    obtain ⟨k', v⟩ := kp
    by_cases hk : (k' == k) = true
    · exact ⟨k', by simp [mapLookup, hk], hk⟩
    · have hk' : (k' == k) = false := by simpa using hk
      simp only [mapLookup, hk', Bool.false_eq_true, if_false] at h ⊢
      obtain ⟨k'', hm, hk''⟩ := ih h
      exact ⟨k'', List.mem_cons_of_mem _ hm, hk''⟩

end maps

/-! ### the model's association lists -/

theorem schemaAdd_miss (s : Schema) (k v : Bytes) (h : UInt64) (hm : ∀ cv ∈ s, (cv.1 == k) = false) :
    s.add k v h = s ++ [(k, [(v, h)])] := by
  induction s with
  | nil => rfl
  | cons cv rest ih =>
    obtain ⟨k', vs⟩ := cv
    have h1 : (k' == k) = false := hm (k', vs) (by simp)
    simp only [Schema.add, h1, Bool.false_eq_true, if_false, List.cons_append]
    rw [ih (fun q hq => hm q (List.mem_cons_of_mem _ hq))]

theorem schemaAdd_hit (s1 s2 : Schema) (k' k v : Bytes) (vs : List (Bytes × UInt64)) (h : UInt64)
    (h1 : ∀ cv ∈ s1, (cv.1 == k) = false) (hk : (k' == k) = true) :
    Schema.add (s1 ++ (k', vs) :: s2) k v h = s1 ++ (k', addVal vs v h) :: s2 := by
  induction s1 with
  | nil => simp [Schema.add, hk]
  | cons cv rest ih =>
    obtain ⟨k'', vs'⟩ := cv
    have h2 : (k'' == k) = false := h1 (k'', vs') (by simp)
    simp only [List.cons_append, Schema.add, h2, Bool.false_eq_true, if_false]
    rw [ih (fun q hq => h1 q (List.mem_cons_of_mem _ hq))]

theorem addBit_miss (m : ValMap) (h : UInt64) (i : Nat) (hm : ∀ kb ∈ m, (kb.1 == h) = false) :
    m.addBit h i = m ++ [(h, setBit 0 i)] := by
  induction m with
  | nil => rfl
  | cons kb rest ih =>
    obtain ⟨k', b⟩ := kb
    have h1 : (k' == h) = false := hm (k', b) (by simp)
    simp only [ValMap.addBit, h1, Bool.false_eq_true, if_false, List.cons_append]
    rw [ih (fun q hq => hm q (List.mem_cons_of_mem _ hq))]

theorem addBit_hit (m1 m2 : ValMap) (k' h : UInt64) (b i : Nat)
    (h1 : ∀ kb ∈ m1, (kb.1 == h) = false) (hk : (k' == h) = true) :
    ValMap.addBit (m1 ++ (k', b) :: m2) h i = m1 ++ (k', setBit b i) :: m2 := by
  induction m1 with
  | nil => simp [ValMap.addBit, hk]
  | cons kb rest ih =>
    obtain ⟨k'', b'⟩ := kb
    have h2 : (k'' == h) = false := h1 (k'', b') (by simp)
    simp only [List.cons_append, ValMap.addBit, h2, Bool.false_eq_true, if_false]
    rw [ih (fun q hq => h1 q (List.mem_cons_of_mem _ hq))]

theorem addVal_eq (vs : List (Bytes × UInt64)) (v : Bytes) (h : UInt64) :
    addVal vs v h = if (mapLookup vs v (0 : UInt64)).2 then vs else mapSet vs v h := by
  rw [mapLookup_snd]
  unfold addVal
  by_cases ha : (vs.any fun x => x.1 == v) = true
  · simp [ha]
  · have hm : ∀ kp ∈ vs, (kp.1 == v) = false := by
      intro kp hkp
      by_cases hk : (kp.1 == v) = true
      · exact absurd (List.any_eq_true.mpr ⟨kp, hkp, hk⟩) ha
      · simpa using hk
    rw [if_neg ha, if_neg ha, mapSet_miss _ _ _ hm]

theorem bitSet_eq (b i : Nat) : bitSet b i = setBit b i := rfl

/-! ### pointers -/

/-- a list of pointers into an arena of size `n`: all valid, no two equal -/
def PtrsOK (n : Nat) (ps : List Ptr) : Prop := ps.Nodup ∧ ∀ p ∈ ps, ∃ a, p = some a ∧ a < n

theorem PtrsOK.nil (n : Nat) : PtrsOK n [] := ⟨List.nodup_nil, by simp⟩

theorem PtrsOK.mono {n m : Nat} {ps : List Ptr} (h : PtrsOK n ps) (hnm : n ≤ m) : PtrsOK m ps :=
  ⟨h.1, fun p hp => by obtain ⟨a, e, ha⟩ := h.2 p hp; exact ⟨a, e, by omega⟩⟩

theorem PtrsOK.snoc {n : Nat} {ps : List Ptr} (h : PtrsOK n ps) : PtrsOK (n + 1) (ps ++ [some n]) := by
  refine ⟨?_, ?_⟩
  · rw [List.nodup_append]
    refine ⟨h.1, by simp, ?_⟩
    intro a ha b hb
    simp only [List.mem_singleton] at hb
    subst hb
    obtain ⟨x, e, hx⟩ := h.2 a ha
    intro e'; rw [e] at e'; injection e' with e'; omega
  · intro p hp
    rcases List.mem_append.mp hp with hp | hp
    · obtain ⟨a, e, ha⟩ := h.2 p hp; exact ⟨a, e, by omega⟩
    · simp only [List.mem_singleton] at hp; exact ⟨n, hp, by omega⟩

/-- the bitmaps of a value map -/
def absVals (hp : Heap) (m : GoMap UInt64 Ptr) : ValMap := m.map fun kp => (kp.1, bitmapAt hp kp.2)

theorem schemaValue_eq (hp : Heap) (s : SchemaObj) :
    schemaValue hp s = s.Columns.map fun kp => (kp.1, (columnAt hp kp.2).Values) := rfl

theorem absVals_append (hp : Heap) (a b : GoMap UInt64 Ptr) : absVals hp (a ++ b) = absVals hp a ++ absVals hp b := by
  simp [absVals]

/-- the abstraction only looks at the bitmaps the map points to -/
theorem absVals_congr (hp hp' : Heap) (m : GoMap UInt64 Ptr)
    (h : ∀ kp ∈ m, bitmapAt hp' kp.2 = bitmapAt hp kp.2) : absVals hp' m = absVals hp m := by
  unfold absVals
  apply List.map_congr_left
  intro kp hkp
  rw [h kp hkp]

theorem cols_congr (hp hp' : Heap) (m : GoMap Bytes Ptr)
    (h : ∀ kp ∈ m, columnAt hp' kp.2 = columnAt hp kp.2) :
    (m.map fun kp => (kp.1, (columnAt hp' kp.2).Values)) = m.map fun kp => (kp.1, (columnAt hp kp.2).Values) := by
  apply List.map_congr_left
  intro kp hkp
  rw [h kp hkp]

/-- the heap after `&column{…}` -/
def allocCol (hp : Heap) (c : Column) : Heap := { hp with columns := hp.columns ++ [c] }
/-- the heap after `roaring.New()` -/
def allocBm (hp : Heap) : Heap := { hp with bitmaps := hp.bitmaps ++ [0] }

theorem newColumn_eq (hp : Heap) (c : Column) : newColumn hp c = (allocCol hp c, some hp.columns.length) := rfl
theorem roaringNew_eq (hp : Heap) : roaringNew hp = (allocBm hp, some hp.bitmaps.length) := rfl

@[simp] theorem allocCol_bitmaps (hp : Heap) (c : Column) : (allocCol hp c).bitmaps = hp.bitmaps := rfl
@[simp] theorem allocCol_length (hp : Heap) (c : Column) : (allocCol hp c).columns.length = hp.columns.length + 1 := by
  simp [allocCol]
@[simp] theorem allocBm_columns (hp : Heap) : (allocBm hp).columns = hp.columns := rfl
@[simp] theorem allocBm_length (hp : Heap) : (allocBm hp).bitmaps.length = hp.bitmaps.length + 1 := by
  simp [allocBm]
@[simp] theorem columnSet_bitmaps (hp : Heap) (p : Ptr) (c : Column) : (columnSet hp p c).bitmaps = hp.bitmaps := by
  cases p <;> rfl
@[simp] theorem columnSet_length (hp : Heap) (p : Ptr) (c : Column) : (columnSet hp p c).columns.length = hp.columns.length := by
  cases p <;> simp [columnSet]
@[simp] theorem bitmapAdd_columns (hp : Heap) (p : Ptr) (x : UInt32) : (bitmapAdd hp p x).columns = hp.columns := by
  cases p <;> rfl
@[simp] theorem bitmapAdd_length (hp : Heap) (p : Ptr) (x : UInt32) : (bitmapAdd hp p x).bitmaps.length = hp.bitmaps.length := by
  cases p <;> simp [bitmapAdd]

theorem columnAt_allocCol (hp : Heap) (x : Column) (p : Ptr) (c : Nat) (hp' : p = some c) (hc : c < hp.columns.length) :
    columnAt (allocCol hp x) p = columnAt hp p := by
  subst hp'
  simp [columnAt, allocCol, List.getD_eq_getElem?_getD, List.getElem?_append_left hc]

theorem columnAt_allocCol_new (hp : Heap) (x : Column) : columnAt (allocCol hp x) (some hp.columns.length) = x := by
  simp [columnAt, allocCol, List.getD_eq_getElem?_getD]

theorem columnAt_columnSet_same (hp : Heap) (a : Nat) (c : Column) (h : a < hp.columns.length) :
    columnAt (columnSet hp (some a) c) (some a) = c := by
  simp [columnAt, columnSet, List.getD_eq_getElem?_getD, h]

theorem columnAt_columnSet_other (hp : Heap) (a : Nat) (c : Column) (p : Ptr) (h : p ≠ some a) :
    columnAt (columnSet hp (some a) c) p = columnAt hp p := by
  cases p with
  | none => rfl
  | some d =>
    have : a ≠ d := fun e => h (by rw [e])
    simp [columnAt, columnSet, List.getD_eq_getElem?_getD, List.getElem?_set_ne this]

theorem bitmapAt_allocBm (hp : Heap) (p : Ptr) (c : Nat) (hp' : p = some c) (hc : c < hp.bitmaps.length) :
    bitmapAt (allocBm hp) p = bitmapAt hp p := by
  subst hp'
  simp [bitmapAt, allocBm, List.getD_eq_getElem?_getD, List.getElem?_append_left hc]

theorem bitmapAt_allocBm_new (hp : Heap) : bitmapAt (allocBm hp) (some hp.bitmaps.length) = 0 := by
  simp [bitmapAt, allocBm, List.getD_eq_getElem?_getD]

theorem bitmapAt_bitmapAdd_same (hp : Heap) (a : Nat) (x : UInt32) (h : a < hp.bitmaps.length) :
    bitmapAt (bitmapAdd hp (some a) x) (some a) = setBit (bitmapAt hp (some a)) x.toNat := by
  simp [bitmapAt, bitmapAdd, List.getD_eq_getElem?_getD, h, bitSet_eq]

theorem bitmapAt_bitmapAdd_other (hp : Heap) (a : Nat) (x : UInt32) (p : Ptr) (h : p ≠ some a) :
    bitmapAt (bitmapAdd hp (some a) x) p = bitmapAt hp p := by
  cases p with
  | none => rfl
  | some d =>
    have : a ≠ d := fun e => h (by rw [e])
    simp [bitmapAt, bitmapAdd, List.getD_eq_getElem?_getD, List.getElem?_set_ne this]

theorem columnAt_allocBm (hp : Heap) (p : Ptr) : columnAt (allocBm hp) p = columnAt hp p := rfl
theorem columnAt_bitmapAdd (hp : Heap) (q : Ptr) (x : UInt32) (p : Ptr) : columnAt (bitmapAdd hp q x) p = columnAt hp p := by
  cases q <;> rfl
theorem bitmapAt_allocCol (hp : Heap) (c : Column) (p : Ptr) : bitmapAt (allocCol hp c) p = bitmapAt hp p := rfl
theorem bitmapAt_columnSet (hp : Heap) (q : Ptr) (c : Column) (p : Ptr) : bitmapAt (columnSet hp q c) p = bitmapAt hp p := by
  cases q <;> rfl

/-! ### loops -/

/-- invariant rule for a `forRange` whose body never returns under the invariant -/
theorem forRange_next {ρ α ε : Type} (Inv : List ε → α → Prop) (body : α → ε → Ctl ρ α) (xs : List ε) (init : α)
    (h0 : Inv [] init)
    (hstep : ∀ done x a, Inv done a → ∃ a', body a x = .next a' ∧ Inv (done ++ [x]) a') :
    ∃ a', forRange xs init body = .next a' ∧ Inv xs a' := by
  suffices h : ∀ (done : List ε) (a : α), Inv done a → ∃ a', forRange xs a body = .next a' ∧ Inv (done ++ xs) a' by
    simpa using h [] init h0
  induction xs with
  | nil => intro done a ha; exact ⟨a, rfl, by simpa using ha⟩
  | cons x rest ih =>
    intro done a ha
    obtain ⟨a1, e1, h1⟩ := hstep done x a ha
    obtain ⟨a2, e2, h2⟩ := ih (done ++ [x]) a1 h1
    refine ⟨a2, ?_, by simpa using h2⟩
    simp only [forRange, e1, e2]

/-! ### bbolt -/

theorem isErr_none : isErr (none : Error) = false := rfl
theorem isErr_nilError : isErr nilError = false := rfl
theorem isErr_some (m : Bytes) : isErr (some m : Error) = true := rfl

theorem txOf_open (b : Bolt) (t : TxState) (h1 : b.tx = some t) (h2 : b.closed = false) : txOf b (some t.id) = some t := by
  simp [txOf, h1, h2]

theorem dbBegin_ok (b : Bolt) (db : DBRef) (w : Bool) (h1 : db = some b.id) (h2 : b.closed = false) (h3 : b.tx = none) :
    dbBegin b db w = ({ b with tx := some { id := b.nextTx, writable := w, buckets := b.committed }, nextTx := b.nextTx + 1 },
      some b.nextTx, none) := by
  simp [dbBegin, dbIs, h1, h2, h3]

theorem txBucket_ok (b : Bolt) (t : TxState) (name : Bytes) (d : BucketData) (h1 : b.tx = some t) (h2 : b.closed = false)
    (h4 : bucketsGet t.buckets name = some d) : txBucket b (some t.id) name = some (t.id, name) := by
  simp [txBucket, txOf_open b t h1 h2, h4]

theorem txBucket_none (b : Bolt) (t : TxState) (name : Bytes) (h1 : b.tx = some t) (h2 : b.closed = false)
    (h4 : bucketsGet t.buckets name = none) : txBucket b (some t.id) name = none := by
  simp [txBucket, txOf_open b t h1 h2, h4]

theorem bucketsGet_set_same (bs : Buckets) (name : Bytes) (d : BucketData) : bucketsGet (bucketsSet bs name d) name = some d := by
  induction bs with
  | nil => simp [bucketsSet, bucketsGet]
  | cons nd rest ih =>
    obtain ⟨n, d'⟩ := nd
    by_cases h : (n == name) = true
    · simp [bucketsSet, bucketsGet, h]
    · have h' : (n == name) = false := by simpa using h
      simp [bucketsSet, bucketsGet, h', ih]

theorem txCreateBucket_new (b : Bolt) (t : TxState) (name : Bytes) (h1 : b.tx = some t) (h2 : b.closed = false)
    (h3 : t.writable = true) (h4 : name.isEmpty = false) (h5 : bucketsGet t.buckets name = none) :
    txCreateBucketIfNotExists b (some t.id) name
      = ({ b with tx := some { t with buckets := bucketsSet t.buckets name [] } }, some (t.id, name), none) := by
  simp [txCreateBucketIfNotExists, txOf_open b t h1 h2, h3, h4, h5]

theorem txCreateBucket_old (b : Bolt) (t : TxState) (name : Bytes) (d : BucketData) (h1 : b.tx = some t) (h2 : b.closed = false)
    (h3 : t.writable = true) (h4 : name.isEmpty = false) (h5 : bucketsGet t.buckets name = some d) :
    txCreateBucketIfNotExists b (some t.id) name = (b, some (t.id, name), none) := by
  simp [txCreateBucketIfNotExists, txOf_open b t h1 h2, h3, h4, h5]

theorem bucketPut_ok (b : Bolt) (t : TxState) (name key val : Bytes) (d : BucketData) (h1 : b.tx = some t) (h2 : b.closed = false)
    (h3 : t.writable = true) (h4 : bucketsGet t.buckets name = some d) (h5 : key.isEmpty = false) :
    bucketPut b (some (t.id, name)) key val
      = ({ b with tx := some { t with buckets := bucketsSet t.buckets name (dataPut d key val),
                                       log := t.log ++ [(name, key, val)] } }, none) := by
  simp [bucketPut, txOf_open b t h1 h2, h3, h4, h5]

theorem txCommit_ok (b : Bolt) (t : TxState) (h1 : b.tx = some t) (h2 : b.closed = false) (h3 : t.writable = true) :
    txCommit b (some t.id) = ({ b with committed := t.buckets, tx := none, commits := b.commits ++ [t.log] }, none) := by
  simp [txCommit, txOf_open b t h1 h2, h3]

/-! the same on explicit records (unconditional rewrite rules) -/

theorem txOf_mk (i n ti : Nat) (c : Buckets) (cs : List (List PutRec)) (t : TxState) (h : t.id = ti) :
    txOf { id := i, closed := false, committed := c, tx := some t, nextTx := n, commits := cs } (some ti) = some t := by
  simp [txOf, h]

theorem dbBegin_mk (i n : Nat) (c : Buckets) (cs : List (List PutRec)) (w : Bool) :
    dbBegin { id := i, closed := false, committed := c, tx := none, nextTx := n, commits := cs } (some i) w
      = ({ id := i, closed := false, committed := c, tx := some { id := n, writable := w, buckets := c, log := [] },
           nextTx := n + 1, commits := cs }, some n, none) := by
  simp [dbBegin, dbIs]

theorem txBucket_mk (i n ti : Nat) (c bs : Buckets) (cs : List (List PutRec)) (w : Bool) (log : List PutRec) (name : Bytes) :
    txBucket { id := i, closed := false, committed := c, tx := some { id := ti, writable := w, buckets := bs, log := log },
               nextTx := n, commits := cs } (some ti) name
      = if (bucketsGet bs name).isSome then some (ti, name) else none := by
  simp [txBucket, txOf]

theorem txCreateBucket_mk (i n ti : Nat) (c bs : Buckets) (cs : List (List PutRec)) (log : List PutRec) (name : Bytes)
    (hn : name.isEmpty = false) :
    txCreateBucketIfNotExists { id := i, closed := false, committed := c, tx := some { id := ti, writable := true, buckets := bs, log := log }, nextTx := n, commits := cs } (some ti) name
      = ({ id := i, closed := false, committed := c,
           tx := some { id := ti, writable := true,
                        buckets := if (bucketsGet bs name).isSome then bs else bucketsSet bs name [], log := log },
           nextTx := n, commits := cs }, some (ti, name), none) := by
  cases h : (bucketsGet bs name).isSome <;> simp [txCreateBucketIfNotExists, txOf, hn, h]

theorem bucketPut_mk (i n ti : Nat) (c bs : Buckets) (cs : List (List PutRec)) (log : List PutRec) (name key val : Bytes)
    (d : BucketData) (hd : bucketsGet bs name = some d) (hk : key.isEmpty = false) :
    bucketPut { id := i, closed := false, committed := c, tx := some { id := ti, writable := true, buckets := bs, log := log }, nextTx := n, commits := cs } (some (ti, name)) key val
      = ({ id := i, closed := false, committed := c,
           tx := some { id := ti, writable := true, buckets := bucketsSet bs name (dataPut d key val),
                        log := log ++ [(name, key, val)] },
           nextTx := n, commits := cs }, none) := by
  simp [bucketPut, txOf, hd, hk]

theorem txCommit_mk (i n ti : Nat) (c bs : Buckets) (cs : List (List PutRec)) (log : List PutRec) :
    txCommit { id := i, closed := false, committed := c, tx := some { id := ti, writable := true, buckets := bs, log := log }, nextTx := n, commits := cs } (some ti)
      = ({ id := i, closed := false, committed := bs, tx := none, nextTx := n, commits := cs ++ [log] }, none) := by
  simp [txCommit, txOf]

theorem txRollback_mk (i n ti : Nat) (c bs : Buckets) (cs : List (List PutRec)) (w : Bool) (log : List PutRec) :
    txRollback { id := i, closed := false, committed := c, tx := some { id := ti, writable := w, buckets := bs, log := log }, nextTx := n, commits := cs } (some ti)
      = ({ id := i, closed := false, committed := c, tx := none, nextTx := n, commits := cs }, none) := by
  simp [txRollback, txOf]

theorem bucketData_mk (i n ti : Nat) (c bs : Buckets) (cs : List (List PutRec)) (w : Bool) (log : List PutRec) (name : Bytes) :
    bucketData { id := i, closed := false, committed := c, tx := some { id := ti, writable := w, buckets := bs, log := log }, nextTx := n, commits := cs } (some (ti, name))
      = bucketsGet bs name := by
  simp [bucketData, txOf]

theorem bucketGet_mk (i n ti : Nat) (c bs : Buckets) (cs : List (List PutRec)) (w : Bool) (log : List PutRec) (name key : Bytes)
    (d : BucketData) (hd : bucketsGet bs name = some d) :
    bucketGet { id := i, closed := false, committed := c, tx := some { id := ti, writable := w, buckets := bs, log := log }, nextTx := n, commits := cs } (some (ti, name)) key
      = dataGet d key := by
  simp [bucketGet, bucketData_mk, hd]

theorem dbClose_mk (i n : Nat) (cl : Bool) (c : Buckets) (cs : List (List PutRec)) (tx : Option TxState) :
    dbClose { id := i, closed := cl, committed := c, tx := tx, nextTx := n, commits := cs } (some i)
      = ({ id := i, closed := true, committed := c, tx := none, nextTx := n, commits := cs }, none) := by
  simp [dbClose]

theorem bucketsGet_set_isSome (bs : Buckets) (name : Bytes) (d : BucketData) :
    (bucketsGet (bucketsSet bs name d) name).isSome = true := by
  rw [bucketsGet_set_same]; rfl

end Updog.Go.T3
