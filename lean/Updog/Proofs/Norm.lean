/-
Meaning-preserving normal form `norm` (flatten same-operator nesting, unwrap single-operand AND/OR,
forget the unused value of placeholder leaves), and the facts about `rp` (the parse result of
formatted text): `norm (rp e) = norm e`, `rp e` is well-formed with every AND/OR having at least two
operands, and on such trees formatting `rp e` gives the same text as formatting `e`.
-/
import Updog.Proofs.ParseFmt
namespace Updog

/-! ### the normal form -/

/-- the operands of `x` if it is an `o`-node, else `x` itself -/
def spliceOp : Bool → PExpr → List PExpr
  | false, .and xs => xs
  | true, .or xs => xs
  | _, x => [x]

theorem spliceOp_mkOp (o : Bool) (xs : List PExpr) : spliceOp o (mkOp o xs) = xs := by
  cases o <;> rfl

theorem spliceOp_of_not_op {o : Bool} {x : PExpr} (h : isOp o x = false) : spliceOp o x = [x] := by
  cases x <;> cases o <;> simp_all [isOp, isAnd, isOr, spliceOp]

theorem eq_mkOp_of_isOp {o : Bool} {x : PExpr} (h : isOp o x = true) : ∃ xs, x = mkOp o xs := by
  cases x <;> cases o <;> simp_all [isOp, isAnd, isOr, mkOp]

mutual
/-- normal form: same-operator nesting flattened, single-operand AND/OR unwrapped, leaves normalised -/
def norm : PExpr → PExpr
  | .eq c v ph => rpLeaf c v ph
  | .not e => .not (norm e)
  | .and es => mk1 false (normCh false es)
  | .or es => mk1 true (normCh true es)
def normCh (o : Bool) : List PExpr → List PExpr
  | [] => []
  | e :: es => spliceOp o (norm e) ++ normCh o es
end

theorem norm_mkOp (o : Bool) (es : List PExpr) : norm (mkOp o es) = mk1 o (normCh o es) := by
  cases o <;> simp [mkOp, norm]

theorem normCh_append (o : Bool) (xs ys : List PExpr) :
    normCh o (xs ++ ys) = normCh o xs ++ normCh o ys := by
  induction xs with
  | nil => simp [normCh]
  | cons x xs ih => simp [normCh, ih]

mutual
/-- shape of normal forms: no AND/OR with exactly one operand, no `o`-node directly below an `o`-node,
    placeholder leaves carry no value -/
def NF : PExpr → Prop
  | .eq _ v ph => ph > 0 → v = []
  | .not e => NF e
  | .and es => es.length ≠ 1 ∧ NFL false es
  | .or es => es.length ≠ 1 ∧ NFL true es
def NFL (o : Bool) : List PExpr → Prop
  | [] => True
  | e :: es => (NF e ∧ isOp o e = false) ∧ NFL o es
end

theorem NF_mkOp (o : Bool) (es : List PExpr) : NF (mkOp o es) ↔ es.length ≠ 1 ∧ NFL o es := by
  cases o <;> simp [mkOp, NF]

theorem NFL_append {o : Bool} {xs ys : List PExpr} (hx : NFL o xs) (hy : NFL o ys) : NFL o (xs ++ ys) := by
  induction xs with
  | nil => simpa using hy
  | cons x xs ih =>
    simp only [NFL, List.cons_append] at hx ⊢
    exact ⟨hx.1, ih hx.2⟩

theorem NFL_spliceOp {o : Bool} {x : PExpr} (h : NF x) : NFL o (spliceOp o x) := by
  by_cases hop : isOp o x = true
  · obtain ⟨xs, rfl⟩ := eq_mkOp_of_isOp hop
    rw [spliceOp_mkOp]; exact ((NF_mkOp o xs).mp h).2
  · have hop' : isOp o x = false := by simpa using hop
    rw [spliceOp_of_not_op hop']
    exact ⟨⟨h, hop'⟩, trivial⟩

theorem NF_mk1 {o : Bool} {l : List PExpr} (h : NFL o l) : NF (mk1 o l) := by
  match l, h with
  | [], h => rw [mk1, NF_mkOp]; exact ⟨by simp, h⟩; intro x hx; cases hx
  | [x], h => exact h.1.1
  | x :: y :: l, h => rw [mk1_cons_cons, NF_mkOp]; exact ⟨by simp, h⟩

theorem spliceOp_mk1 {o : Bool} {l : List PExpr} (h : NFL o l) : spliceOp o (mk1 o l) = l := by
  match l, h with
  | [], h => rw [mk1, spliceOp_mkOp]; intro x hx; cases hx
  | [x], h => exact spliceOp_of_not_op h.1.2
  | x :: y :: l, h => rw [mk1_cons_cons, spliceOp_mkOp]

theorem mk1_spliceOp {o : Bool} {y : PExpr} (h : NF y) : mk1 o (spliceOp o y) = y := by
  by_cases hop : isOp o y = true
  · obtain ⟨xs, rfl⟩ := eq_mkOp_of_isOp hop
    rw [spliceOp_mkOp]
    have hl := ((NF_mkOp o xs).mp h).1
    match xs, hl with
    | [], _ => rw [mk1]; intro x hx; cases hx
    | [x], hl => simp at hl
    | x :: y :: l, _ => rw [mk1_cons_cons]
  · have hop' : isOp o y = false := by simpa using hop
    rw [spliceOp_of_not_op hop']; rfl

/-- `norm` produces normal forms -/
theorem norm_NF : (∀ e, NF (norm e)) ∧ (∀ es, ∀ o, NFL o (normCh o es)) := by
  have heq : ∀ c v ph, NF (norm (.eq c v ph)) := by
    intro c v ph; simp only [norm, rpLeaf]; split <;> simp [NF]
  have hnot : ∀ e, NF (norm e) → NF (norm (.not e)) := fun e ih => by simpa [norm, NF] using ih
  have hand : ∀ es, (∀ o, NFL o (normCh o es)) → NF (norm (.and es)) :=
    fun es ih => by rw [norm]; exact NF_mk1 (ih false)
  have hor : ∀ es, (∀ o, NFL o (normCh o es)) → NF (norm (.or es)) :=
    fun es ih => by rw [norm]; exact NF_mk1 (ih true)
  have hnil : ∀ o, NFL o (normCh o []) := fun o => by simp [normCh, NFL]
  have hcons : ∀ e es, NF (norm e) → (∀ o, NFL o (normCh o es)) → ∀ o, NFL o (normCh o (e :: es)) :=
    fun e es ihe ihs o => by rw [normCh]; exact NFL_append (NFL_spliceOp ihe) (ihs o)
  exact ⟨PExpr.indE heq hnot hand hor hnil hcons, PExpr.indL heq hnot hand hor hnil hcons⟩

theorem norm_mk1 (o : Bool) (xs : List PExpr) : norm (mk1 o xs) = mk1 o (normCh o xs) := by
  match xs with
  | [] => rw [mk1, norm_mkOp]; intro x hx; cases hx
  | [x] =>
    simp only [mk1, normCh, List.append_nil]
    exact (mk1_spliceOp (norm_NF.1 x)).symm
  | x :: y :: l => rw [mk1_cons_cons, norm_mkOp]

theorem norm_rpLeaf (c v : Bytes) (ph : Nat) : norm (rpLeaf c v ph) = rpLeaf c v ph := by
  unfold rpLeaf
  split
  · rename_i h; simp [norm, rpLeaf, h]
  · simp [norm, rpLeaf]

/-- **the parse result of formatted text has the same normal form as the original tree** -/
theorem norm_rp : (∀ e, norm (rp e) = norm e ∧ ∀ o, normCh o (rpItem o e) = spliceOp o (norm e)) ∧
    (∀ es, ∀ o, normCh o (rpCh o es) = normCh o es) := by
  have item_of_not_op : ∀ {o e}, isOp o e = false → norm (rp e) = norm e →
      normCh o (rpItem o e) = spliceOp o (norm e) := by
    intro o e hop h
    rw [rpItem_of_not_op hop, normCh, h]; simp [normCh]
  have heq : ∀ c v ph, norm (rp (.eq c v ph)) = norm (.eq c v ph) ∧
      ∀ o, normCh o (rpItem o (.eq c v ph)) = spliceOp o (norm (.eq c v ph)) := by
    intro c v ph
    have h : norm (rp (.eq c v ph)) = norm (.eq c v ph) := by simp [rp, norm, norm_rpLeaf]
    exact ⟨h, fun o => item_of_not_op (by cases o <;> rfl) h⟩
  have hnot : ∀ e, (norm (rp e) = norm e ∧ ∀ o, normCh o (rpItem o e) = spliceOp o (norm e)) →
      (norm (rp (.not e)) = norm (.not e) ∧
        ∀ o, normCh o (rpItem o (.not e)) = spliceOp o (norm (.not e))) := by
    intro e ih
    have h : norm (rp (.not e)) = norm (.not e) := by simp [rp, norm, ih.1]
    exact ⟨h, fun o => item_of_not_op (by cases o <;> rfl) h⟩
  have hop : ∀ o es, (∀ o, normCh o (rpCh o es) = normCh o es) →
      (norm (rp (mkOp o es)) = norm (mkOp o es) ∧
        ∀ o', normCh o' (rpItem o' (mkOp o es)) = spliceOp o' (norm (mkOp o es))) := by
    intro o es ih
    have h : norm (rp (mkOp o es)) = norm (mkOp o es) := by
      rw [rp_mkOp, norm_mk1, ih, norm_mkOp]
    refine ⟨h, fun o' => ?_⟩
    by_cases hoo : o' = o
    · subst hoo
      rw [rpItem_mkOp, ih, norm_mkOp, spliceOp_mk1 (norm_NF.2 es o')]
    · have : o' = !o := by cases o <;> cases o' <;> simp_all
      subst this
      exact item_of_not_op (by simpa using isOp_not_mkOp o es) h
  have hnil : ∀ o, normCh o (rpCh o []) = normCh o [] := fun o => by simp [rpCh]
  have hcons : ∀ e es, (norm (rp e) = norm e ∧ ∀ o, normCh o (rpItem o e) = spliceOp o (norm e)) →
      (∀ o, normCh o (rpCh o es) = normCh o es) → ∀ o, normCh o (rpCh o (e :: es)) = normCh o (e :: es) := by
    intro e es ihe ihs o
    rw [rpCh, normCh_append, ihe.2, ihs, normCh]
  exact ⟨PExpr.indE heq hnot (hop false) (hop true) hnil hcons,
    PExpr.indL heq hnot (hop false) (hop true) hnil hcons⟩

/-! ### `norm` is idempotent -/

theorem mk1_of_length_ne_one {o : Bool} {l : List PExpr} (h : l.length ≠ 1) : mk1 o l = mkOp o l := by
  match l, h with
  | [], _ => rw [mk1]; intro x hx; cases hx
  | [x], h => simp at h
  | x :: y :: l, _ => exact mk1_cons_cons o x y l

theorem norm_of_NF : (∀ e, NF e → norm e = e) ∧ (∀ es, ∀ o, NFL o es → normCh o es = es) := by
  have heq : ∀ c v ph, NF (.eq c v ph) → norm (.eq c v ph) = .eq c v ph := by
    intro c v ph h
    simp only [NF] at h
    simp only [norm, rpLeaf]
    split
    · rename_i hp; rw [h hp]
    · rename_i hp
      have : ph = 0 := by omega
      subst this; rfl
  have hnot : ∀ e, (NF e → norm e = e) → NF (.not e) → norm (.not e) = .not e :=
    fun e ih h => by rw [norm, ih (by simpa [NF] using h)]
  have hop : ∀ o es, (∀ o, NFL o es → normCh o es = es) → NF (mkOp o es) → norm (mkOp o es) = mkOp o es := by
    intro o es ih h
    rw [NF_mkOp] at h
    rw [norm_mkOp, ih o h.2, mk1_of_length_ne_one h.1]
  have hnil : ∀ o, NFL o [] → normCh o [] = [] := fun _ _ => by simp [normCh]
  have hcons : ∀ e es, (NF e → norm e = e) → (∀ o, NFL o es → normCh o es = es) →
      ∀ o, NFL o (e :: es) → normCh o (e :: es) = e :: es := by
    intro e es ihe ihs o h
    simp only [NFL] at h
    rw [normCh, ihe h.1.1, ihs o h.2, spliceOp_of_not_op h.1.2]; rfl
  exact ⟨PExpr.indE heq hnot (hop false) (hop true) hnil hcons,
    PExpr.indL heq hnot (hop false) (hop true) hnil hcons⟩

theorem norm_idem (e : PExpr) : norm (norm e) = norm e := norm_of_NF.1 _ (norm_NF.1 e)

end Updog
