/-
The generated `openIndexFromBoltDatabase` and getters against Model/Open.lean and Model/Getters.lean:
how a bbolt database is read as a `FileState` / an `Image`, and the validation sequence.
-/
import Updog.GeneratedFns
import Updog.Proofs.GoPreludeT3
import Updog.Proofs.GenFlushT3
import Updog.Model.Open
import Updog.Model.Getters
import Updog.Proofs.BigWriter
set_option linter.unusedSimpArgs false
namespace Updog.GeneratedEq
open Updog.Go.T3

/-- the schema blob of bucket `data`: key `'S'` absent / gob decodes / does not decode -/
def blobOf (X : Ext) (d : BucketData) : Blob :=
  match dataGet d [83] with
  | none => .missing
  | some b => if (X.gobDecode b).isSome then .good else .bad

/-- the row counter of bucket `data`: key `'I'` absent / 4 bytes / any other length -/
def counterOf (d : BucketData) : Counter :=
  match dataGet d [73] with
  | none => .missing
  | some b => if b.length = 4 then .good else .malformed

/-- every value stored under a key that starts with `'V'` is a decodable bitmap -/
def vDecodable (X : Ext) (d : BucketData) : Bool :=
  (d.filter fun kv => hasPrefix kv.1 [86]).all fun kv => (X.roaringFromBuffer kv.2).isSome

/-- what `Model/Open.lean` sees of an (openable) bbolt database -/
def fileStateOf (X : Ext) (c : Buckets) : FileState :=
  match bucketsGet c dataName with
  | none => .bolt false .missing .missing true
  | some d => .bolt true (blobOf X d) (counterOf d) (vDecodable X d)

/-- the header of the file is valid: bucket, decodable schema, 4-byte counter -/
def headerOK (X : Ext) (c : Buckets) : Bool :=
  match bucketsGet c dataName with
  | none => false
  | some d => blobOf X d == .good && counterOf d == .good

/-- what follows the validation in `OpenIndexFromBoltDatabase`: the options in order, then the default getter -/
def openTail (X : Ext) (db : DBRef) (opts : List IndexOption) (bolt : Bolt) (hp : Heap) (idx : Go.T3.Index) :
    Bolt × Heap × Option Go.T3.Index × Error :=
  match forRange opts (bolt, hp, idx) (Gen.openIndexFromBoltDatabase_loop1 X db opts nilError) with
  | .ret r => r
  | .next (bolt, hp, idx) =>
    (bolt, hp, some (if idx.values.isNil then { idx with values := Gen.newOnDemandColGetter idx.db } else idx), nilError)

/-- **the validation sequence of `OpenIndexFromBoltDatabase`**: bucket present, then schema present, then schema decodes,
    then the counter has 4 bytes. If any of these fails the call returns `(nil, err)` and the database is CLOSED;
    otherwise the index holds the decoded schema and counter and the options run. The read transaction is over in
    both cases. -/
theorem open_view (X : Ext) (i n : Nat) (c : Buckets) (cs : List (List PutRec)) (hp : Heap) (opts : List IndexOption) :
    let r := Gen.openIndexFromBoltDatabase X { id := i, closed := false, committed := c, tx := none, nextTx := n, commits := cs } hp (some i) opts
    if headerOK X c then
      ∃ d sb s cb, bucketsGet c dataName = some d ∧ dataGet d [83] = some sb ∧ X.gobDecode sb = some s ∧
        dataGet d [73] = some cb ∧ cb.length = 4 ∧
        r = openTail X (some i) opts { id := i, closed := false, committed := c, tx := none, nextTx := n + 1, commits := cs } hp
              { schema := some s, nextRowID := beUint32 cb, db := some i, cache := .nullCache, metrics := .fresh }
    else
      r.2.2.2.isSome = true ∧ r.2.2.1 = none ∧ r.2.1 = hp ∧
      r.1 = { id := i, closed := true, committed := c, tx := none, nextTx := n + 1, commits := cs } := by
  intro r
  have hd : ([100, 97, 116, 97] : Bytes) = dataName := rfl
  have hks : Gen.keySchema = [83] := rfl
  have hki : Gen.keyNextRowID = [73] := rfl
  have hr : r = Gen.openIndexFromBoltDatabase X { id := i, closed := false, committed := c, tx := none, nextTx := n, commits := cs } hp (some i) opts := rfl
  clear_value r
  unfold Gen.openIndexFromBoltDatabase at hr
  unfold headerOK blobOf counterOf
  cases hb : bucketsGet c dataName with
  | none =>
    simp only [dbView, dbBegin_mk, txBucket_mk, hd, hb, Option.isSome_none, Bool.false_eq_true, if_false, Option.isNone_none,
      if_true, txRollback_mk, errorsNew, isErr_some, dbClose_mk] at hr
    subst hr
    simp
  | some d =>
    cases hs : dataGet d [83] with
    | none =>
      simp only [dbView, dbBegin_mk, txBucket_mk, hd, hks, hb, hs, Option.isSome_some, if_true, Option.isNone_some,
        Option.isNone_none, Bool.false_eq_true, if_false, bucketGet_mk _ _ _ _ _ _ _ _ _ _ d hb,
        txRollback_mk, errorsNew, isErr_some, dbClose_mk] at hr
      subst hr
      simp [hs]
    | some sb =>
      cases hg : X.gobDecode sb with
      | none =>
        simp only [dbView, dbBegin_mk, txBucket_mk, hd, hks, hb, hs, hg, Option.isSome_some, if_true, Option.isNone_some,
          Option.isNone_none, Bool.false_eq_true, if_false, bucketGet_mk _ _ _ _ _ _ _ _ _ _ d hb, bytesOf, Option.getD_some,
          gobDecode, txRollback_mk, errorsNew, isErr_some, dbClose_mk] at hr
        subst hr
        simp [hs, hg]
      | some sv =>
        cases hi : dataGet d [73] with
        | none =>
          have h0 : (((0 : Nat) : Int) != 4) = true := by decide
          simp only [dbView, dbBegin_mk, txBucket_mk, hd, hks, hki, hb, hs, hg, hi, Option.isSome_some, if_true, Option.isNone_some,
            Option.isNone_none, Bool.false_eq_true, if_false, bucketGet_mk _ _ _ _ _ _ _ _ _ _ d hb, bytesOf, Option.getD_some,
            Option.getD_none, gobDecode, isErr_none, Go.len, List.length_nil, h0,
            txRollback_mk, errorsNew, isErr_some, dbClose_mk] at hr
          subst hr
          simp [hs, hg, hi]
        | some cb =>
          by_cases hl : cb.length = 4
          · have h0 : (((cb.length : Nat) : Int) != 4) = false := by simp [hl]
            simp only [dbView, dbBegin_mk, txBucket_mk, hd, hks, hki, hb, hs, hg, hi, Option.isSome_some, if_true, Option.isNone_some,
              Option.isNone_none, Bool.false_eq_true, if_false, bucketGet_mk _ _ _ _ _ _ _ _ _ _ d hb, bytesOf, Option.getD_some,
              Option.getD_none, gobDecode, isErr_none, isErr_nilError, Go.len, h0,
              txRollback_mk, errorsNew, isErr_some, dbClose_mk] at hr
            subst hr
            simp only [hs, hg, hi, hl, Option.isSome_some, if_true, beq_self_eq_true, Bool.and_self]
            refine ⟨d, sb, sv, cb, ?_, hs, hg, hi, hl, ?_⟩
            · first | exact hb | rfl
            · rfl
          · have h0 : (((cb.length : Nat) : Int) != 4) = true := by
              have : ¬ ((cb.length : Nat) : Int) = 4 := by omega
              simpa using this
            simp only [dbView, dbBegin_mk, txBucket_mk, hd, hks, hki, hb, hs, hg, hi, Option.isSome_some, if_true, Option.isNone_some,
              Option.isNone_none, Bool.false_eq_true, if_false, bucketGet_mk _ _ _ _ _ _ _ _ _ _ d hb, bytesOf, Option.getD_some,
              Option.getD_none, gobDecode, isErr_none, Go.len, h0,
              txRollback_mk, errorsNew, isErr_some, dbClose_mk] at hr
            subst hr
            simp [hs, hg, hi, hl]

/-! ### getters -/

/-- the `'V'` keys of bucket `data` as the model's `Image`: value index ↦ what `FromBuffer` makes of the stored bytes,
    in cursor order -/
def imageOfData (X : Ext) (d : BucketData) : Image :=
  (d.filter fun kv => hasPrefix kv.1 [86]).map fun kv => (beUint64 (kv.1.drop 1), X.roaringFromBuffer kv.2)

/-- every `'V'` key is `'V'` followed by a big-endian 8-byte value index (what both writers produce) -/
def WellKeyed (d : BucketData) : Prop := ∀ kv ∈ d, hasPrefix kv.1 [86] = true → ∃ h : UInt64, kv.1 = 86 :: be64 h.toNat

theorem beUint64_be64 (h : UInt64) : beUint64 (be64 h.toNat) = h := by
  have hl : (be64 h.toNat).length = 8 := be64_length _
  have hd : beNat (be64 h.toNat) = h.toNat := be64_roundtrip h.toNat h.toNat_lt
  unfold beUint64
  rw [if_neg (by omega), List.take_of_length_le (by omega), hd]
  simp

theorem be64_inj (a b : UInt64) (h : be64 a.toNat = be64 b.toNat) : a = b := by
  rw [← beUint64_be64 a, ← beUint64_be64 b, h]

theorem get_imageOfData (X : Ext) (d : BucketData) (wk : WellKeyed d) (key : UInt64) :
    Image.get (imageOfData X d) key = (dataGet d (86 :: be64 key.toNat)).map X.roaringFromBuffer := by
  induction d with
  | nil => rfl
  | cons kv rest ih =>
    obtain ⟨k, v⟩ := kv
    have ih' := ih (fun q hq => wk q (List.mem_cons_of_mem _ hq))
    by_cases hpre : hasPrefix k [86] = true
    · obtain ⟨h', e⟩ := wk (k, v) (by simp) hpre
      subst e
      have him : imageOfData X ((86 :: be64 h'.toNat, v) :: rest) = (h', X.roaringFromBuffer v) :: imageOfData X rest := by
        simp only [imageOfData, List.filter_cons, hpre, if_true, List.map_cons, List.drop_succ_cons, List.drop_zero, beUint64_be64]
      rw [him]
      by_cases hk : h' = key
      · subst hk; simp [Image.get, dataGet]
      · have h1 : (h' == key) = false := by simpa using hk
        have h2 : ((86 :: be64 h'.toNat) == (86 :: be64 key.toNat)) = false := by
          have : ¬ be64 h'.toNat = be64 key.toNat := fun e => hk (be64_inj _ _ e)
          simpa using this
        simp only [Image.get, dataGet, h1, h2, Bool.false_eq_true, if_false, ih']
    · have hpre' : hasPrefix k [86] = false := by simpa using hpre
      have him : imageOfData X ((k, v) :: rest) = imageOfData X rest := by
        simp only [imageOfData, List.filter_cons, hpre', Bool.false_eq_true, if_false]
      have h2 : (k == (86 :: be64 key.toNat)) = false := by
        have : ¬ k = 86 :: be64 key.toNat := by
          intro e; rw [e] at hpre'; simp [hasPrefix] at hpre'
        simpa using this
      rw [him, ih']
      simp only [dataGet, h2, Bool.false_eq_true, if_false]

/-- Go's `(*roaring.Bitmap, error)` read off the heap -/
def answerOf (hp : Heap) (p : Ptr) (err : Error) : GetColAnswer :=
  if isErr err then .error () else .ok (p.map fun a => hp.bitmaps.getD a 0)

theorem onDemandGetCol_spec (X : Ext) (i n : Nat) (c : Buckets) (cs : List (List PutRec)) (hp : Heap) (d : BucketData)
    (key : UInt64) (hb : bucketsGet c dataName = some d) (wk : WellKeyed d) (hnil : X.roaringFromBuffer [] = none) :
    let r := Gen.onDemandGetCol X { id := i, closed := false, committed := c, tx := none, nextTx := n, commits := cs } hp
      { db := some i } key
    answerOf r.2.1 r.2.2.1 r.2.2.2 = onDemandAnswer (imageOfData X d) key ∧
    r.1 = { id := i, closed := false, committed := c, tx := none, nextTx := n + 1, commits := cs } := by
  intro r
  have hd : ([100, 97, 116, 97] : Bytes) = dataName := rfl
  have hkp : Gen.keyPrefixValue ++ be64 key.toNat = 86 :: be64 key.toNat := rfl
  have hr : r = Gen.onDemandGetCol X { id := i, closed := false, committed := c, tx := none, nextTx := n, commits := cs } hp
      { db := some i } key := rfl
  clear_value r
  unfold Gen.onDemandGetCol at hr
  simp only [dbView, dbBegin_mk, txBucket_mk, hd, hb, Option.isSome_some, if_true, putU64_full, hkp,
    bucketGet_mk _ _ _ _ _ _ _ _ _ _ d hb, roaringNew_eq] at hr
  unfold onDemandAnswer onDemandGet
  rw [get_imageOfData X d wk key]
  cases hg : dataGet d (86 :: be64 key.toNat) with
  | none =>
    simp only [hg, bytesOf, Option.getD_none, bitmapFromBuffer, hnil, isErr_some, if_true, txRollback_mk] at hr
    subst hr
    simp [answerOf, isErr, Except.map]
  | some v =>
    cases hf : X.roaringFromBuffer v with
    | none =>
      simp only [hg, bytesOf, Option.getD_some, bitmapFromBuffer, hf, isErr_some, if_true, txRollback_mk] at hr
      subst hr
      simp [answerOf, isErr, Except.map, hf]
    | some b =>
      simp only [hg, bytesOf, Option.getD_some, bitmapFromBuffer, hf, isErr_none, Bool.false_eq_true, if_false, txRollback_mk,
        isErr_nilError] at hr
      subst hr
      simp [answerOf, isErr, Except.map, hf, nilError, allocBm]

/-! ### the preload loop -/

/-- the heap after `bm := roaring.New(); bm.FromBuffer(v)` succeeded with the set `b` -/
def allocLoad (hp : Heap) (b : Nat) : Heap := { hp with bitmaps := hp.bitmaps ++ [b] }

theorem fromBuffer_new (X : Ext) (hp : Heap) (v : Bytes) :
    bitmapFromBuffer X (allocBm hp) (some hp.bitmaps.length) v =
      match X.roaringFromBuffer v with
      | none => (allocBm hp, (0, some [102, 114, 111, 109, 66, 117, 102, 102, 101, 114]))
      | some b => (allocLoad hp b, ((v.length : Int), none)) := by
  unfold bitmapFromBuffer
  cases X.roaringFromBuffer v with
  | none => rfl
  | some b => simp [allocBm, allocLoad]

/-- what the preload loop does on the keys from the cursor position on: stops at the first key without the prefix,
    fails at the first undecodable value -/
def preloadRun (X : Ext) : BucketData → Heap → PreloadedColGetter → Option (Heap × PreloadedColGetter)
  | [], hp, cg => some (hp, cg)
  | (k, v) :: rest, hp, cg =>
    if hasPrefix k [86] then
      match X.roaringFromBuffer v with
      | none => none
      | some b => preloadRun X rest (allocLoad hp b)
          { cg with values := mapSet cg.values (beUint64 (k.drop 1)) (some hp.bitmaps.length) }
    else some (hp, cg)

abbrev PreSt := Heap × PreloadedColGetter × Cursor × Option Bytes × Option Bytes

/-- the bolt state inside the read transaction of `newPreloadedColGetter` -/
def viewBolt (i n : Nat) (c : Buckets) (cs : List (List PutRec)) : Bolt :=
  { id := i, closed := false, committed := c, tx := some { id := n, writable := false, buckets := c, log := [] }, nextTx := n + 1, commits := cs }

theorem cursorAt_view (i n : Nat) (c : Buckets) (cs : List (List PutRec)) (d : BucketData) (hb : bucketsGet c dataName = some d) (p : Nat) :
    cursorAt (viewBolt i n c cs) { bucket := some (n, dataName), pos := p } =
      match d[p]? with
      | none => (none, none)
      | some kv => (some kv.1, some kv.2) := by
  simp only [cursorAt, viewBolt, bucketData_mk, hb]
  rfl

theorem preload_loop (X : Ext) (i n : Nat) (c : Buckets) (cs : List (List PutRec)) (db : DBRef) (d : BucketData)
    (hb : bucketsGet c dataName = some d) (rest : BucketData) :
    ∀ (p : Nat) (hp : Heap) (cg : PreloadedColGetter) (fuel : Nat), d.drop p = rest → rest.length < fuel →
      match preloadRun X rest hp cg with
      | none => ∃ hp' cg' e, forWhile fuel
          (hp, cg, ({ bucket := some (n, dataName), pos := p } : Cursor), (cursorAt (viewBolt i n c cs) { bucket := some (n, dataName), pos := p }).1,
            (cursorAt (viewBolt i n c cs) { bucket := some (n, dataName), pos := p }).2)
          (Gen.newPreloadedColGetter_loop1_cond X (viewBolt i n c cs) db (some n))
          (Gen.newPreloadedColGetter_loop1_body X (viewBolt i n c cs) db (some n))
            = .ret (viewBolt i n c cs, (hp', cg'), some e)
      | some (hp', cg') => ∃ c' k' v', forWhile fuel
          (hp, cg, ({ bucket := some (n, dataName), pos := p } : Cursor), (cursorAt (viewBolt i n c cs) { bucket := some (n, dataName), pos := p }).1,
            (cursorAt (viewBolt i n c cs) { bucket := some (n, dataName), pos := p }).2)
          (Gen.newPreloadedColGetter_loop1_cond X (viewBolt i n c cs) db (some n))
          (Gen.newPreloadedColGetter_loop1_body X (viewBolt i n c cs) db (some n))
            = .next (hp', cg', c', k', v') := by
  induction rest with
  | nil =>
    intro p hp cg fuel hdrop hfuel
    have hnone : d[p]? = none := by
      have : d.length ≤ p := by simpa using hdrop
      exact List.getElem?_eq_none this
    obtain ⟨f, rfl⟩ : ∃ f, fuel = f + 1 := ⟨fuel - 1, by omega⟩
    simp only [preloadRun, cursorAt_view i n c cs d hb, hnone, forWhile, Gen.newPreloadedColGetter_loop1_cond,
      Option.isSome_none, Bool.false_and, Bool.false_eq_true, if_false]
    exact ⟨_, _, _, rfl⟩
  | cons kv rest ih =>
    intro p hp cg fuel hdrop hfuel
    obtain ⟨k, v⟩ := kv
    have hp1 : d[p]? = some (k, v) := by
      have := congrArg (fun l => l[0]?) hdrop
      simpa using this
    have hdrop' : d.drop (p + 1) = rest := by
      have := congrArg List.tail hdrop
      simpa using this
    obtain ⟨f, rfl⟩ : ∃ f, fuel = f + 1 := ⟨fuel - 1, by omega⟩
    have hkp : Gen.keyPrefixValue = [86] := rfl
    simp only [preloadRun, cursorAt_view i n c cs d hb, hp1, forWhile, Gen.newPreloadedColGetter_loop1_cond,
      Option.isSome_some, Bool.true_and, bytesOf, Option.getD_some, hkp]
    by_cases hpre : hasPrefix k [86] = true
    · simp only [hpre, if_true, Gen.newPreloadedColGetter_loop1_body, roaringNew_eq, bytesOf, Option.getD_some, fromBuffer_new,
        Go.sliceFrom]
      cases hf : X.roaringFromBuffer v with
      | none =>
        simp only [isErr_some, if_true]
        exact ⟨_, _, _, rfl⟩
      | some b =>
        simp only [isErr_none, Bool.false_eq_true, if_false, cursorNext]
        have := ih (p + 1) (allocLoad hp b) { cg with values := mapSet cg.values (beUint64 (k.drop 1)) (some hp.bitmaps.length) } f
          hdrop' (by simp at hfuel; omega)
        exact this
    · have hpre' : hasPrefix k [86] = false := by simpa using hpre
      simp only [hpre', Bool.false_eq_true, if_false]
      exact ⟨_, _, _, rfl⟩

/-! ### the cursor walk on a sorted bucket visits exactly the `'V'` keys -/

/-- bbolt keeps the keys of a bucket in bytewise ascending order -/
def SortedData (d : BucketData) : Prop := d.Pairwise fun a b => bytesLt a.1 b.1 = true

def isV (kv : Bytes × Bytes) : Bool := hasPrefix kv.1 [86]

theorem bytesLt_nil_right (t : Bytes) : bytesLt t [] = false := by cases t <;> rfl

theorem lt_V_not_prefix (k : Bytes) (h : bytesLt k [86] = true) : hasPrefix k [86] = false := by
  cases k with
  | nil => rfl
  | cons a t =>
    rw [bytesLt_cons, bytesLt_nil_right] at h
    have ha : a.toNat < 86 := by simpa using h
    have : ¬ (86 : UInt8) = a := by intro e; rw [← e] at ha; simp at ha
    simp [hasPrefix, List.isPrefixOf, this]

theorem ge_V_not_prefix (k : Bytes) (h1 : bytesLt k [86] = false) (h2 : hasPrefix k [86] = false) :
    ∃ a t, k = a :: t ∧ 86 < a.toNat := by
  cases k with
  | nil => simp [bytesLt] at h1
  | cons a t =>
    refine ⟨a, t, rfl, ?_⟩
    rw [bytesLt_cons, bytesLt_nil_right] at h1
    have ha : ¬ a.toNat < 86 := by simpa using h1
    have hne : ¬ (86 : UInt8) = a := by
      intro e; subst e; simp [hasPrefix, List.isPrefixOf] at h2
    have : a.toNat ≠ 86 := by
      intro e; apply hne; apply UInt8.toNat_inj.mp; simpa using e.symm
    omega

theorem gt_V_later (a : UInt8) (t x : Bytes) (ha : 86 < a.toNat) (h : bytesLt (a :: t) x = true) : hasPrefix x [86] = false := by
  cases x with
  | nil => rfl
  | cons b u =>
    rw [bytesLt_cons] at h
    have hb : 86 < b.toNat := by
      rcases Bool.or_eq_true _ _ |>.mp h with h | h
      · have : a.toNat < b.toNat := by simpa using h
        omega
      · have : a.toNat = b.toNat := by
          have := (Bool.and_eq_true _ _ |>.mp h).1
          simpa using this
        omega
    have : ¬ (86 : UInt8) = b := by intro e; rw [← e] at hb; simp at hb
    simp [hasPrefix, List.isPrefixOf, this]

theorem filter_eq_takeWhile (L : BucketData) (hs : SortedData L) (hge : ∀ kv ∈ L, bytesLt kv.1 [86] = false) :
    L.filter isV = L.takeWhile isV := by
  induction L with
  | nil => rfl
  | cons kv rest ih =>
    have hs' := List.pairwise_cons.mp hs
    by_cases hv : isV kv = true
    · simp only [List.filter_cons, List.takeWhile_cons, hv, if_true]
      rw [ih hs'.2 (fun q hq => hge q (List.mem_cons_of_mem _ hq))]
    · have hv' : isV kv = false := by simpa using hv
      obtain ⟨a, t, e, ha⟩ := ge_V_not_prefix kv.1 (hge kv (by simp)) hv'
      simp only [List.filter_cons, List.takeWhile_cons, hv', Bool.false_eq_true, if_false]
      apply List.filter_eq_nil_iff.mpr
      intro q hq
      have := hs'.1 q hq
      rw [e] at this
      simp [isV, gt_V_later a t q.1 ha this]

theorem drop_seek_ge (d : BucketData) (hs : SortedData d) : ∀ kv ∈ d.drop (seekPos d [86]), bytesLt kv.1 [86] = false := by
  induction d with
  | nil => simp
  | cons kv rest ih =>
    have hs' := List.pairwise_cons.mp hs
    by_cases hlt : bytesLt kv.1 [86] = true
    · simp only [seekPos, hlt, if_true, List.drop_succ_cons]
      exact ih hs'.2
    · have hlt' : bytesLt kv.1 [86] = false := by simpa using hlt
      simp only [seekPos, hlt', Bool.false_eq_true, if_false, List.drop_zero]
      intro q hq
      rcases List.mem_cons.mp hq with rfl | hq
      · exact hlt'
      · rcases bytesLt_cotrans kv.1 q.1 [86] (hs'.1 q hq) with h | h
        · exact bytesLt_asymm _ _ h
        · rw [hlt'] at h; cases h

theorem filter_drop_seek (d : BucketData) : d.filter isV = (d.drop (seekPos d [86])).filter isV := by
  induction d with
  | nil => rfl
  | cons kv rest ih =>
    by_cases hlt : bytesLt kv.1 [86] = true
    · have : isV kv = false := lt_V_not_prefix kv.1 hlt
      simp only [seekPos, hlt, if_true, List.drop_succ_cons, List.filter_cons, this, Bool.false_eq_true, if_false]
      exact ih
    · have hlt' : bytesLt kv.1 [86] = false := by simpa using hlt
      simp only [seekPos, hlt', Bool.false_eq_true, if_false, List.drop_zero]

/-- on a sorted bucket, `Seek("V")` followed by `Next` while the key has the prefix visits exactly the `'V'` keys -/
theorem walk_eq_filter (d : BucketData) (hs : SortedData d) :
    d.filter isV = (d.drop (seekPos d [86])).takeWhile isV := by
  rw [filter_drop_seek, filter_eq_takeWhile _ (hs.sublist (List.drop_sublist _ _)) (drop_seek_ge d hs)]

/-! ### the preload loop against `preloadFold` -/

/-- the Go map `cg.values` with its bitmaps, as the model's `UInt64 → Option Nat` (`none` = nil pointer) -/
def absCG (hp : Heap) (cg : PreloadedColGetter) : UInt64 → Option Nat :=
  fun h => (mapGet cg.values h nilPtr).map fun a => hp.bitmaps.getD a 0

def ValidCG (hp : Heap) (cg : PreloadedColGetter) : Prop :=
  ∀ kp ∈ cg.values, ∃ a, kp.2 = some a ∧ a < hp.bitmaps.length

theorem mapGet_mapSet (m : GoMap UInt64 Ptr) (k h : UInt64) (v z : Ptr) :
    mapGet (mapSet m k v) h z = if h == k then v else mapGet m h z := by
  unfold mapGet
  induction m with
  | nil =>
    by_cases hk : k = h
    · subst hk; simp [mapSet, mapLookup]
    · have h1 : (k == h) = false := by simpa using hk
      have h2 : (h == k) = false := by simpa using fun e => hk e.symm
      simp [mapSet, mapLookup, h1, h2]
  | cons kp rest ih =>
    obtain ⟨k', v'⟩ := kp
    by_cases hk' : k' = k
    · subst hk'
      by_cases hh : k' = h
      · subst hh; simp [mapSet, mapLookup]
      · have h1 : (k' == h) = false := by simpa using hh
        have h2 : (h == k') = false := by simpa using fun e => hh e.symm
        simp [mapSet, mapLookup, h1, h2]
    · have h0 : (k' == k) = false := by simpa using hk'
      by_cases hh : k' = h
      · subst hh
        have h2 : (k' == k) = false := h0
        simp [mapSet, mapLookup, h0, hk']
      · have h1 : (k' == h) = false := by simpa using hh
        simp only [mapSet, h0, Bool.false_eq_true, if_false, mapLookup, h1]
        exact ih

theorem mapGet_mem_or (m : GoMap UInt64 Ptr) (h : UInt64) :
    mapGet m h nilPtr = none ∨ ∃ kp ∈ m, kp.2 = mapGet m h nilPtr := by
  unfold mapGet
  induction m with
  | nil => left; rfl
  | cons kp rest ih =>
    obtain ⟨k', v'⟩ := kp
    by_cases hk : (k' == h) = true
    · right; exact ⟨(k', v'), by simp, by simp [mapLookup, hk]⟩
    · have hk' : (k' == h) = false := by simpa using hk
      simp only [mapLookup, hk', Bool.false_eq_true, if_false]
      rcases ih with h0 | ⟨kp, hkp, e⟩
      · left; exact h0
      · right; exact ⟨kp, List.mem_cons_of_mem _ hkp, e⟩

/-- the keys the loop visits, as the model's image -/
def imageRun (X : Ext) (L : BucketData) : Image :=
  (L.takeWhile isV).map fun kv => (beUint64 (kv.1.drop 1), X.roaringFromBuffer kv.2)

theorem preloadRun_fold (X : Ext) (L : BucketData) : ∀ (hp : Heap) (cg : PreloadedColGetter), ValidCG hp cg →
    match preloadRun X L hp cg with
    | none => preloadFold (imageRun X L) (absCG hp cg) = none
    | some (hp', cg') => preloadFold (imageRun X L) (absCG hp cg) = some (absCG hp' cg') ∧ ValidCG hp' cg' := by
  induction L with
  | nil => intro hp cg hv; exact ⟨rfl, hv⟩
  | cons kv rest ih =>
    intro hp cg hv
    obtain ⟨k, v⟩ := kv
    by_cases hpre : hasPrefix k [86] = true
    · have hisv : isV (k, v) = true := hpre
      cases hf : X.roaringFromBuffer v with
      | none =>
        simp only [preloadRun, hpre, if_true, hf, imageRun, List.takeWhile_cons, hisv, List.map_cons, preloadFold]
      | some b =>
        have hv' : ValidCG (allocLoad hp b) { cg with values := mapSet cg.values (beUint64 (k.drop 1)) (some hp.bitmaps.length) } := by
          intro kp hkp
          have hlen : (allocLoad hp b).bitmaps.length = hp.bitmaps.length + 1 := by simp [allocLoad]
          rw [hlen]
          rcases map_split cg.values (beUint64 (k.drop 1)) with hm | ⟨m1, k', p, m2, e, h1, hk⟩
          · rw [show ({ cg with values := mapSet cg.values (beUint64 (k.drop 1)) (some hp.bitmaps.length) } : PreloadedColGetter).values
                = cg.values ++ [(beUint64 (k.drop 1), some hp.bitmaps.length)] from mapSet_miss _ _ _ hm] at hkp
            rcases List.mem_append.mp hkp with hkp | hkp
            · obtain ⟨a, ea, ha⟩ := hv kp hkp; exact ⟨a, ea, by omega⟩
            · simp only [List.mem_singleton] at hkp; subst hkp; exact ⟨_, rfl, by omega⟩
          · have hvv : ({ cg with values := mapSet cg.values (beUint64 (k.drop 1)) (some hp.bitmaps.length) } : PreloadedColGetter).values
                = m1 ++ (k', some hp.bitmaps.length) :: m2 := by
              show mapSet cg.values _ _ = _
              rw [e]; exact mapSet_hit _ _ _ _ _ _ h1 hk
            rw [hvv] at hkp
            rcases List.mem_append.mp hkp with hkp | hkp
            · obtain ⟨a, ea, ha⟩ := hv kp (by rw [e]; simp [hkp]); exact ⟨a, ea, by omega⟩
            · rcases List.mem_cons.mp hkp with hkp | hkp
              · subst hkp; exact ⟨_, rfl, by omega⟩
              · obtain ⟨a, ea, ha⟩ := hv kp (by rw [e]; simp [hkp]); exact ⟨a, ea, by omega⟩
        have hstep : (fun h => if h == beUint64 (k.drop 1) then some b else absCG hp cg h)
            = absCG (allocLoad hp b) { cg with values := mapSet cg.values (beUint64 (k.drop 1)) (some hp.bitmaps.length) } := by
          funext h
          simp only [absCG, mapGet_mapSet]
          by_cases hh : (h == beUint64 (k.drop 1)) = true
          · have he : h = beUint64 (k.drop 1) := by simpa using hh
            subst he
            simp [allocLoad]
          · have hh' : (h == beUint64 (k.drop 1)) = false := by simpa using hh
            simp only [hh', Bool.false_eq_true, if_false]
            rcases mapGet_mem_or cg.values h with h0 | ⟨kp, hkp, e⟩
            · rw [h0]; rfl
            · obtain ⟨a, ea, ha⟩ := hv kp hkp
              rw [← e, ea]
              simp [allocLoad, List.getD_eq_getElem?_getD, List.getElem?_append_left ha]
        have := ih (allocLoad hp b) { cg with values := mapSet cg.values (beUint64 (k.drop 1)) (some hp.bitmaps.length) } hv'
        simp only [preloadRun, hpre, if_true, hf, imageRun, List.takeWhile_cons, hisv, List.map_cons, preloadFold, hstep]
        exact this
    · have hpre' : hasPrefix k [86] = false := by simpa using hpre
      have hisv : isV (k, v) = false := hpre'
      simp only [preloadRun, hpre', Bool.false_eq_true, if_false, imageRun, List.takeWhile_cons, hisv, List.map_nil, preloadFold]
      exact ⟨trivial, hv⟩

theorem imageOfData_eq_run (X : Ext) (d : BucketData) (hs : SortedData d) :
    imageOfData X d = imageRun X (d.drop (seekPos d [86])) := by
  unfold imageOfData imageRun
  have := walk_eq_filter d hs
  unfold isV at this
  rw [this]
  rfl

theorem newPreloaded_spec (X : Ext) (i n : Nat) (c : Buckets) (cs : List (List PutRec)) (hp : Heap) (d : BucketData)
    (hb : bucketsGet c dataName = some d) (hs : SortedData d) :
    let r := Gen.newPreloadedColGetter X { id := i, closed := false, committed := c, tx := none, nextTx := n, commits := cs } hp (some i)
    r.1 = { id := i, closed := false, committed := c, tx := none, nextTx := n + 1, commits := cs } ∧
    match preloadOpen (imageOfData X d) with
    | none => isErr r.2.2.2 = true ∧ r.2.2.1.isNil = true
    | some g => r.2.2.2 = none ∧ ∃ cg, r.2.2.1 = .preloaded cg ∧ absCG r.2.1 cg = g := by
  intro r
  have hd : ([100, 97, 116, 97] : Bytes) = dataName := rfl
  have hkp : Gen.keyPrefixValue = [86] := rfl
  have hr : r = Gen.newPreloadedColGetter X { id := i, closed := false, committed := c, tx := none, nextTx := n, commits := cs } hp (some i) := rfl
  clear_value r
  unfold Gen.newPreloadedColGetter at hr
  simp only [dbView, dbBegin_mk, txBucket_mk, hd, hb, Option.isSome_some, if_true, bucketCursor, cursorSeek, cursorFuel,
    bucketData_mk, Option.getD_some, hkp, makeMap] at hr
  have hl := preload_loop X i n c cs (some i) d hb (d.drop (seekPos d [86])) (seekPos d [86]) hp { values := [] }
    (d.length + 1) rfl (by simp; omega)
  have hf := preloadRun_fold X (d.drop (seekPos d [86])) hp { values := [] } (by intro kp hkp; cases hkp)
  have h0 : absCG hp { values := [] } = fun _ => none := by funext h; rfl
  rw [← imageOfData_eq_run X d hs, h0] at hf
  simp only [viewBolt] at hl
  unfold preloadOpen
  cases hrun : preloadRun X (d.drop (seekPos d [86])) hp { values := [] } with
  | none =>
    rw [hrun] at hl hf
    obtain ⟨hp', cg', e, hl⟩ := hl
    simp only at hf
    rw [hf]
    simp only [hl, txRollback_mk, isErr_some, if_true] at hr
    subst hr
    exact ⟨rfl, rfl, rfl⟩
  | some res =>
    obtain ⟨hp', cg'⟩ := res
    rw [hrun] at hl hf
    obtain ⟨c', k', v', hl⟩ := hl
    simp only at hf
    rw [hf.1]
    simp only [hl, txRollback_mk, isErr_nilError, Bool.false_eq_true, if_false] at hr
    subst hr
    exact ⟨rfl, rfl, cg', rfl, rfl⟩

end Updog.GeneratedEq
