/-
Lemmas about the primitives of `Updog/Basic/GoPreludeT7.lean`: `os.OpenFile` against the POSIX model of
`Updog/Model/OpenFlags.lean`, and `bbolt.Open` for the two option sets the code base uses.
-/
import Updog.GeneratedFns
import Updog.Proofs.GoPrelude
import Updog.Proofs.GoPreludeT3
import Updog.Model.OpenFlags
namespace Updog.Go.T7
open Updog.Go.T3

/-! ### mutexes -/

theorem mutexTouch_idem (m : Mutex) : mutexTouch (mutexTouch m) = mutexTouch m := by
  unfold mutexTouch
  cases h : m.held <;> simp [h]

/-! ### files -/

theorem filesGet_set_same (fs : List (Bytes × Node)) (p : Bytes) (n : Node) : filesGet (filesSet fs p n) p = some n := by
  induction fs with
  | nil => simp [filesSet, filesGet]
  | cons e rest ih =>
    obtain ⟨q, m⟩ := e
    by_cases h : (q == p) = true
    · simp [filesSet, filesGet, h]
    · have h' : (q == p) = false := by simpa using h
      simp [filesSet, filesGet, h', ih]

theorem filesGet_set_other (fs : List (Bytes × Node)) (p q : Bytes) (n : Node) (h : p ≠ q) :
    filesGet (filesSet fs p n) q = filesGet fs q := by
  induction fs with
  | nil =>
    have : (p == q) = false := by simpa using h
    simp [filesSet, filesGet, this]
  | cons e rest ih =>
    obtain ⟨r, m⟩ := e
    by_cases hr : (r == p) = true
    · have e1 : r = p := by simpa using hr
      subst e1
      have : (r == q) = false := by simpa using h
      simp [filesSet, filesGet, this]
    · have hr' : (r == p) = false := by simpa using hr
      by_cases hq : (r == q) = true
      · simp [filesSet, filesGet, hr', hq]
      · have hq' : (r == q) = false := by simpa using hq
        simp [filesSet, filesGet, hr', hq', ih]

theorem Fs.get_set_same (fs : Fs) (p : Bytes) (n : Node) : (fs.set p n).get p = some n := filesGet_set_same _ _ _

theorem Fs.get_set_other (fs : Fs) (p q : Bytes) (n : Node) (h : p ≠ q) : (fs.set p n).get q = fs.get q :=
  filesGet_set_other _ _ _ _ h

theorem Fs.get_next (fs : Fs) (k : Nat) (p : Bytes) : ({ fs with next := k } : Fs).get p = fs.get p := rfl

/-! ### `os.OpenFile` is `posixOpen` of Model/OpenFlags.lean -/

theorem hasFlag_eq (flags f : Nat) : hasFlag flags f = Updog.hasFlag flags f := rfl

/-- **`os.OpenFile` of the prelude = `posixOpen` of the model**: it returns a descriptor exactly when `posixOpen` succeeds,
    and the path exists afterwards exactly when `posixOpen` says so; an existing file is never replaced. -/
theorem osOpenFile_posixOpen (fs : Fs) (path : Bytes) (flags mode : Nat) :
    (osOpenFile fs path flags mode).2 = (posixOpen (fs.get path).isSome flags).1 ∧
    ((osOpenFile fs path flags mode).1.get path).isSome = (posixOpen (fs.get path).isSome flags).2.1 ∧
    (∀ n, fs.get path = some n → (osOpenFile fs path flags mode).1 = fs) ∧
    (∀ q, q ≠ path → (osOpenFile fs path flags mode).1.get q = fs.get q) := by
  have e1 : Go.O_CREATE = Updog.O_CREAT := rfl
  have e2 : Go.O_EXCL = Updog.O_EXCL := rfl
  unfold osOpenFile posixOpen
  simp only [hasFlag_eq, e1, e2]
  cases hg : fs.get path with
  | some n =>
    simp only [Option.isSome_some, if_true]
    cases hc : (Updog.hasFlag flags Updog.O_CREAT && Updog.hasFlag flags Updog.O_EXCL) with
    | true => simp [hg]
    | false => simp [hg]
  | none =>
    simp only [Option.isSome_none, Bool.false_eq_true, if_false]
    cases hc : Updog.hasFlag flags Updog.O_CREAT with
    | true =>
      simp only [if_true, Fs.get_set_same, Option.isSome_some, true_and]
      refine ⟨?_, ?_⟩
      · intro n h; cases h
      · intro q hq; exact Fs.get_set_other _ _ _ _ (Ne.symm hq)
    | false => simp [hg]

/-- a failing `os.OpenFile` leaves the directory as it was -/
theorem osOpenFile_fail (fs : Fs) (path : Bytes) (flags mode : Nat) (h : (osOpenFile fs path flags mode).2 = false) :
    (osOpenFile fs path flags mode).1 = fs := by
  unfold osOpenFile at h ⊢
  cases hg : fs.get path with
  | some n =>
    simp only [hg] at h ⊢
    split <;> simp_all
  | none =>
    simp only [hg] at h ⊢
    split <;> simp_all

/-! ### the flag words bbolt ends up with -/

/-- **`openfile.OpenFile` regenerated = the model's flag rewriting** (and = the two literals `Gen.excl` / `Gen.noCreate`
    translated separately): `FailIfFileExists` wins over `FailIfFileDoesntExist`; neither: `os.OpenFile` itself. -/
theorem openFile_eq (o : OpenFileOptions) (flags : Nat) :
    Gen.openFile o flags =
      if o.FailIfFileExists then failIfExistsFlags flags
      else if o.FailIfFileDoesntExist then mustExistFlags flags
      else flags := by
  unfold Gen.openFile
  cases o.FailIfFileExists <;> cases o.FailIfFileDoesntExist <;>
    simp [failIfExistsFlags, mustExistFlags, Go.andNot_eq, osOpenFileFn, Go.or] <;> rfl

theorem openFile_excl (flags : Nat) : Gen.openFile { FailIfFileExists := true } flags = Gen.excl flags := rfl
theorem openFile_noCreate (flags : Nat) : Gen.openFile { FailIfFileDoesntExist := true } flags = Gen.noCreate flags := rfl

/-- the flag word of the writers: `O_RDWR|O_CREATE|O_EXCL` -/
theorem writer_flags : Gen.openFile { FailIfFileExists := true } (Go.or O_RDWR Go.O_CREATE) = failIfExistsFlags boltWriteFlags := by
  rw [openFile_eq]; rfl

/-- the flag word of `OpenIndex`: `O_RDONLY` with `O_CREATE` cleared -/
theorem reader_flags : Gen.openFile { FailIfFileDoesntExist := true } O_RDONLY = mustExistFlags boltReadOnlyFlags := by
  rw [openFile_eq]; rfl

/-! ### `bbolt.Open` -/

/-- the record `bbolt.Open` leaves behind when it fails: closed, nothing committed, no transaction -/
def deadBolt (h : Nat) : Bolt := { id := h, closed := true }

/-- a freshly opened handle on content `c` -/
def freshBolt (h : Nat) (c : Buckets) : Bolt := { id := h, committed := c }

/-- the flag word `bbolt.Open` hands to `open(2)` -/
def openFlags (o : BoltOptions) : Nat :=
  (o.OpenFile.getD osOpenFileFn) (if o.ReadOnly then boltReadOnlyFlags else boltWriteFlags)

theorem boltOpen_flags (fs : Fs) (path : Bytes) (mode : Nat) (o : BoltOptions) :
    boltOpen fs path mode o =
      match osOpenFile { fs with next := fs.next + 1 } path (openFlags o) mode with
      | (fs', false) => (fs', deadBolt fs.next, none, errOpen)
      | (fs', true) =>
        match fs'.get path with
        | none => (fs', deadBolt fs.next, none, errOpen)
        | some node =>
          if flockBlocked o.ReadOnly node.locks then (fs', deadBolt fs.next, none, errWouldBlock)
          else
            match node.content with
            | .garbage => (fs', deadBolt fs.next, none, errInvalid)
            | .empty =>
              if o.ReadOnly then (fs', deadBolt fs.next, none, errInvalid)
              else (fs'.set path { node with content := .bolt [] }, freshBolt fs.next [], some fs.next, none)
            | .bolt c => (fs', freshBolt fs.next c, some fs.next, none) := by
  unfold boltOpen openFlags deadBolt freshBolt
  cases o.OpenFile <;> cases o.ReadOnly <;> rfl

/-- **`bbolt.Open` fails before it touches anything when `open(2)` fails** (`posixOpen` of Model/OpenFlags.lean on the
    flag word it ends up with): no descriptor, no lock, directory unchanged; only a handle identity is used up. -/
theorem boltOpen_open_fails (fs : Fs) (path : Bytes) (mode : Nat) (o : BoltOptions)
    (h : (posixOpen (fs.get path).isSome (openFlags o)).1 = false) :
    boltOpen fs path mode o = ({ fs with next := fs.next + 1 }, deadBolt fs.next, none, errOpen) := by
  rw [boltOpen_flags]
  have p1 := (osOpenFile_posixOpen { fs with next := fs.next + 1 } path (openFlags o) mode).1
  rw [Fs.get_next, h] at p1
  have p2 := osOpenFile_fail _ _ _ _ p1
  generalize osOpenFile { fs with next := fs.next + 1 } path (openFlags o) mode = r at p1 p2
  obtain ⟨fs', ok⟩ := r
  simp only at p1 p2
  subst p1 p2
  rfl

/-- **the read-only open of `OpenIndex`** (`ReadOnly: true`, `FailIfFileDoesntExist`): by the state of the path.
    The directory is never changed. -/
theorem boltOpen_reader (fs : Fs) (path : Bytes) (mode : Nat) :
    boltOpen fs path mode { ReadOnly := true, OpenFile := some (Gen.openFile { FailIfFileDoesntExist := true }) } =
      match fs.get path with
      | none => ({ fs with next := fs.next + 1 }, deadBolt fs.next, none, errOpen)
      | some n =>
        if n.locks.any (fun ex => ex) then ({ fs with next := fs.next + 1 }, deadBolt fs.next, none, errWouldBlock)
        else match n.content with
          | .bolt c => ({ fs with next := fs.next + 1 }, freshBolt fs.next c, some fs.next, none)
          | .empty => ({ fs with next := fs.next + 1 }, deadBolt fs.next, none, errInvalid)
          | .garbage => ({ fs with next := fs.next + 1 }, deadBolt fs.next, none, errInvalid) := by
  have hflag : Gen.openFile { FailIfFileDoesntExist := true } O_RDONLY = 0 := by rw [reader_flags]; rfl
  unfold boltOpen
  simp only [if_true, hflag, osOpenFile, Fs.get_next]
  have h0 : hasFlag 0 Go.O_CREATE = false := rfl
  cases hg : fs.get path with
  | none => simp [h0, deadBolt]
  | some n =>
    simp only [h0, Bool.false_and, Bool.false_eq_true, if_false, Fs.get_next, hg, flockBlocked, if_true]
    by_cases hl : (n.locks.any fun ex => ex) = true
    · simp [hl, deadBolt]
    · have hl' : (n.locks.any fun ex => ex) = false := by simpa using hl
      simp only [hl', Bool.false_eq_true, if_false]
      cases n.content <;> simp [deadBolt, freshBolt]

/-- **the exclusive create of the writers** (`FailIfFileExists`): any existing entry — index, garbage, empty, locked or
    not — makes it fail with nothing touched; an absent path is created and initialised as an empty bolt file. -/
theorem boltOpen_writer (fs : Fs) (path : Bytes) (mode : Nat) :
    boltOpen fs path mode { OpenFile := some (Gen.openFile { FailIfFileExists := true }) } =
      match fs.get path with
      | some _ => ({ fs with next := fs.next + 1 }, deadBolt fs.next, none, errOpen)
      | none => (({ fs with next := fs.next + 1 } : Fs).set path { content := .bolt [] }, freshBolt fs.next [], some fs.next, none) := by
  have hflag : Gen.openFile { FailIfFileExists := true } (Go.or O_RDWR Go.O_CREATE) = 194 := by rw [writer_flags]; rfl
  have h1 : hasFlag 194 Go.O_CREATE = true := by decide
  have h2 : hasFlag 194 Go.O_EXCL = true := by decide
  unfold boltOpen
  simp only [Bool.false_eq_true, if_false, hflag, osOpenFile, Fs.get_next, h1, h2, Bool.and_self, if_true]
  cases hg : fs.get path with
  | some n => simp [deadBolt]
  | none =>
    simp only [Fs.get_set_same, flockBlocked, Bool.false_eq_true, if_false, List.isEmpty_nil, Bool.not_true]
    simp only [freshBolt, Fs.set]
    congr 1
    simp only [Fs.mk.injEq, and_true]
    -- setting the same path twice
    generalize fs.files = l
    induction l with
    | nil => simp [filesSet]
    | cons e rest ih =>
      obtain ⟨q, m⟩ := e
      by_cases hq : (q == path) = true
      · simp [filesSet, hq]
      · have hq' : (q == path) = false := by simpa using hq
        simp [filesSet, hq', ih]

end Updog.Go.T7
