/-
Lemmas about the primitives of Updog/Basic/GoPreludeT2.lean (container/list, maps, counters).
-/
import Updog.Basic.GoPreludeT2
namespace Updog.Go

/-! ### lists with unique projections -/

/-- a projection without duplicates is injective on the list -/
theorem eq_of_nodup_map {α β : Type} (f : α → β) {l : List α} (hn : (l.map f).Nodup) {a b : α}
    (ha : a ∈ l) (hb : b ∈ l) (hab : f a = f b) : a = b := by
  induction l with
  | nil => cases ha
  | cons x t ih =>
    rw [List.map_cons, List.nodup_cons] at hn
    rcases List.mem_cons.1 ha with h1 | h1 <;> rcases List.mem_cons.1 hb with h2 | h2
    · rw [h1, h2]
    · exact absurd (by rw [← h1, hab]; exact List.mem_map_of_mem h2) hn.1
    · exact absurd (by rw [← h2, ← hab]; exact List.mem_map_of_mem h1) hn.1
    · exact ih hn.2 h1 h2

theorem find?_congr' {α : Type} {p q : α → Bool} : ∀ {l : List α}, (∀ a ∈ l, p a = q a) → l.find? p = l.find? q
  | [], _ => rfl
  | x :: t, h => by
    have hx := h x List.mem_cons_self
    have ht := find?_congr' (l := t) fun a ha => h a (List.mem_cons_of_mem _ ha)
    simp [List.find?_cons, hx, ht]

theorem filter_congr' {α : Type} {p q : α → Bool} : ∀ {l : List α}, (∀ a ∈ l, p a = q a) → l.filter p = l.filter q
  | [], _ => rfl
  | x :: t, h => by
    have hx := h x List.mem_cons_self
    have ht := filter_congr' (l := t) fun a ha => h a (List.mem_cons_of_mem _ ha)
    simp [List.filter_cons, hx, ht]

/-- in a list whose projection `f` has no duplicates, searching for the `f`-value of a member finds that member -/
theorem find?_of_nodup_mem {α β : Type} [BEq β] [LawfulBEq β] (f : α → β) {l : List α} (hn : (l.map f).Nodup)
    {a : α} (ha : a ∈ l) : l.find? (fun x => f x == f a) = some a := by
  induction l with
  | nil => cases ha
  | cons x t ih =>
    rw [List.map_cons, List.nodup_cons] at hn
    rcases List.mem_cons.1 ha with rfl | ha
    · simp
    · have hne : f x ≠ f a := fun e => hn.1 (e ▸ List.mem_map_of_mem ha)
      have : (f x == f a) = false := by simpa using hne
      rw [List.find?_cons, this]
      exact ih hn.2 ha

/-! ### container/list -/

namespace LList
variable {α : Type}

/-- the identities of the elements are pairwise different -/
def IdsNodup (l : LList α) : Prop := (l.elems.map (·.1)).Nodup

theorem find_id {l : LList α} (hn : l.IdsNodup) {e : Elem} {v : α} (h : (e, v) ∈ l.elems) :
    l.elems.find? (·.1 == e) = some (e, v) :=
  find?_of_nodup_mem (fun p : Elem × α => p.1) hn h

theorem moveToFront_of_mem {l : LList α} (hn : l.IdsNodup) {e : Elem} {v : α} (h : (e, v) ∈ l.elems) :
    l.moveToFront e = { l with elems := (e, v) :: l.elems.filter (·.1 != e) } := by
  simp [moveToFront, find_id hn h]

theorem value_of_mem [Inhabited α] {l : LList α} (hn : l.IdsNodup) {e : Elem} {v : α} (h : (e, v) ∈ l.elems) :
    l.value e = v := by
  simp [value, find_id hn h]

@[simp] theorem value_head [Inhabited α] (e : Elem) (v : α) (t : List (Elem × α)) (n : Elem) :
    (LList.mk ((e, v) :: t) n).value e = v := by
  simp [value]

/-- writing the value of the head element, when no other element has its identity -/
theorem setValue_head (e : Elem) (v w : α) (t : List (Elem × α)) (n : Elem) (ht : ∀ p ∈ t, p.1 ≠ e) :
    (LList.mk ((e, v) :: t) n).setValue e w = LList.mk ((e, w) :: t) n := by
  simp only [setValue, List.map_cons, beq_self_eq_true, if_true]
  congr 2
  rw [List.map_congr_left (g := id)]
  · simp
  · intro p hp
    have : (p.1 == e) = false := by simpa using ht p hp
    simp [this]

theorem filter_ne_not_mem (l : List (Elem × α)) (e : Elem) : ∀ p ∈ l.filter (·.1 != e), p.1 ≠ e := by
  intro p hp
  have := (List.mem_filter.1 hp).2
  simpa using this

theorem len_eq (l : LList α) : l.len = (l.elems.length : Int) := rfl

theorem len_pos_iff (l : LList α) : decide (l.len > (0 : Int)) = true ↔ l.elems ≠ [] := by
  obtain ⟨xs, n⟩ := l
  cases xs with
  | nil => simp [len]
  | cons a t => simp [len]

/-- `Back()` of a non-empty list -/
theorem back_of_ne_nil (l : LList α) (h : l.elems ≠ []) : l.back = (l.elems.getLast h).1 := by
  simp [back, List.getLast?_eq_some_getLast h]

theorem filter_last_aux (init : List (Elem × α)) (last : Elem × α) (hn : ((init ++ [last]).map (·.1)).Nodup) :
    (init ++ [last]).filter (·.1 != last.1) = init := by
  rw [List.map_append, List.nodup_append] at hn
  obtain ⟨_, _, hdis⟩ := hn
  rw [List.filter_append]
  have h1 : init.filter (·.1 != last.1) = init := by
    rw [List.filter_eq_self]
    intro p hp
    have := hdis p.1 (List.mem_map_of_mem hp) last.1 (by simp)
    simpa using this
  rw [h1]
  simp

/-- removing the last element of a list with unique identities -/
theorem remove_back [Inhabited α] {l : LList α} (hn : l.IdsNodup) (h : l.elems ≠ []) :
    l.remove l.back = ({ l with elems := l.elems.dropLast }, (l.elems.getLast h).2) := by
  have hsplit := List.dropLast_concat_getLast h
  have hmem : l.elems.getLast h ∈ l.elems := List.getLast_mem h
  rw [back_of_ne_nil l h]
  have hv : l.value (l.elems.getLast h).1 = (l.elems.getLast h).2 :=
    value_of_mem hn (e := (l.elems.getLast h).1) (v := (l.elems.getLast h).2) hmem
  have hf := filter_last_aux l.elems.dropLast (l.elems.getLast h) (by rw [hsplit]; exact hn)
  rw [hsplit] at hf
  simp only [remove, hv, hf]

theorem dropLast_idsNodup {l : LList α} (hn : l.IdsNodup) : ({ l with elems := l.elems.dropLast } : LList α).IdsNodup :=
  List.Nodup.sublist ((List.dropLast_sublist l.elems).map _) hn

end LList

/-! ### maps -/

namespace GoMap
variable {K V : Type} [BEq K] [LawfulBEq K] [Inhabited V]

@[simp] theorem lookup_empty (k : K) : (empty : GoMap K V).lookup k = (default, false) := rfl

theorem find_filter_ne (kvs : List (K × V)) {k k' : K} (h : ¬ k' = k) :
    (kvs.filter (·.1 != k)).find? (·.1 == k') = kvs.find? (·.1 == k') := by
  rw [List.find?_filter]
  apply find?_congr'
  intro p _
  by_cases hp : p.1 = k'
  · have : p.1 ≠ k := fun e => h (hp ▸ e)
    simp [hp, h]
  · have : (p.1 == k') = false := by simpa using hp
    simp [this]

theorem lookup_insert (m : GoMap K V) (k : K) (v : V) (k' : K) :
    (m.insert k v).lookup k' = if k' == k then (v, true) else m.lookup k' := by
  by_cases h : k' = k
  · subst h; simp [lookup, insert]
  · have h' : (k == k') = false := by simpa using fun e : k = k' => h e.symm
    have h'' : (k' == k) = false := by simpa using h
    simp only [lookup, insert, List.find?_cons, h', h'', find_filter_ne m.kvs h]
    simp

theorem lookup_delete (m : GoMap K V) (k k' : K) :
    (m.delete k).lookup k' = if k' == k then (default, false) else m.lookup k' := by
  by_cases h : k' = k
  · subst h
    have : (m.kvs.filter (·.1 != k')).find? (·.1 == k') = none := by
      rw [List.find?_eq_none]
      intro p hp
      have := (List.mem_filter.1 hp).2
      simpa using this
    simp [lookup, delete, this]
  · have h'' : (k' == k) = false := by simpa using h
    simp only [lookup, delete, h'', find_filter_ne m.kvs h]
    simp

end GoMap

/-! ### counters -/

@[simp] theorem Counter.inc_none : Counter.inc none = none := rfl
@[simp] theorem Counter.inc_some (n : Nat) : Counter.inc (some n) = some (n + 1) := rfl

/-- `if c != nil { c.Inc() }` is `inc` (which does nothing on nil) -/
theorem Counter.guarded_inc (c : Counter) : (if (!Counter.isNil c) = true then Counter.inc c else c) = Counter.inc c := by
  cases c <;> simp [Counter.isNil]

end Updog.Go
