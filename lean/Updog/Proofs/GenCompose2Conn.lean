/-
Helper lemmas for part 2 of `Updog/Props/Gen/Compose2.lean`: the driver's connection cache (`Gen.openFileOpts`,
`Gen.openFileLocked`, `Gen.connClose` over T5's `Drv.World`) composed with the generated open, the generated
`Execute` and the generated LRU.

`Updog/Props/Gen/DriverConn.lean` cannot be imported here: it declares `Updog.GeneratedEq.Inv`, which
`Updog/Props/Gen/Lru.lean` (imported by `Proofs/GenCompose.lean`) declares as well. The small definitions of that file
that are needed (`KOp`, `upd`, `stepG`, `refsOf`, its invariant, `openFileWhole`) are therefore repeated here in the
namespace `Updog.GenConn` (the invariant under the name `ConnInv`); the single-step simulations are re-derived from
closed forms of the two generated functions, which are needed anyway (they say which handle is opened / closed).
-/
import Updog.Proofs.GenCompose2
import Updog.Props.C17
import Updog.Props.C15Lock

set_option linter.unusedVariables false
set_option linter.unusedSimpArgs false
namespace Updog.GenConn
open Updog Updog.Go Updog.GeneratedEq

/-! ## 0. the reference-count machine over an arbitrary key type (as in Props/Gen/DriverConn.lean) -/

inductive KOp (K : Type) where
  | open (k : K)
  | query (k : K)
  | close (k : K)

def upd {K : Type} [DecidableEq K] {α : Type} (f : K → α) (k : K) (a : α) : K → α := fun k' => if k' = k then a else f k'

theorem upd_same {K : Type} [DecidableEq K] {α : Type} (f : K → α) (k : K) (a : α) : upd f k a k = a := by simp [upd]

theorem upd_other {K : Type} [DecidableEq K] {α : Type} (f : K → α) (k k' : K) (a : α) (h : k' ≠ k) :
    upd f k a k' = f k' := by simp [upd, h]

/-- `Drv.step` of Model/Driver.lean with the key type and the validity predicate abstracted -/
def stepG {K : Type} [DecidableEq K] (valid : K → Bool) (refs : K → Nat) : KOp K → (K → Nat) × Outcome Unit
  | .open k =>
    if refs k > 0 then (upd refs k (refs k + 1), .ok ())
    else if valid k then (upd refs k 1, .ok ())
    else (refs, .error)
  | .query k => if refs k > 0 then (refs, .ok ()) else (refs, .panic)
  | .close k => (upd refs k (refs k - 1), .ok ())

/-- a DSN whose options do not parse has no key: `openFile` returns an error before it touches the driver -/
def stepO {K : Type} [DecidableEq K] (valid : K → Bool) (refs : K → Nat) : Option (KOp K) → (K → Nat) × Outcome Unit
  | none => (refs, .error)
  | some op => stepG valid refs op

def runO {K : Type} [DecidableEq K] (valid : K → Bool) (refs : K → Nat) : List (Option (KOp K)) → (K → Nat) × List (Outcome Unit)
  | [] => (refs, [])
  | op :: ops => ((runO valid (stepO valid refs op).1 ops).1, (stepO valid refs op).2 :: (runO valid (stepO valid refs op).1 ops).2)

def KOp.ofDrv : DrvOp → KOp DKey
  | .open k => .open k
  | .query k => .query k
  | .close k => .close k

def KOp.toDrv : KOp DKey → DrvOp
  | .open k => .open k
  | .query k => .query k
  | .close k => .close k

def KOp.map {K K' : Type} (f : K → K') : KOp K → KOp K'
  | .open k => .open (f k)
  | .query k => .query (f k)
  | .close k => .close (f k)

/-- the hand-written model is the instance of `stepG` at the model's key type -/
theorem Drv_step_generic (valid : Nat → Bool) (d : Drv) (op : KOp DKey) :
    Drv.step valid d op.toDrv =
      (⟨(stepG (fun k : DKey => valid k.file) d.refs op).1⟩, (stepG (fun k : DKey => valid k.file) d.refs op).2) := by
  cases op with
  | «open» k =>
    simp only [Drv.step, stepG, KOp.toDrv]
    by_cases h1 : d.refs k > 0
    · simp [h1, Drv.set, upd] <;> rfl
    · by_cases h2 : valid k.file = true
      · simp [h1, h2, Drv.set, upd] <;> rfl
      · simp [h1, h2]
  | query k =>
    simp only [Drv.step, stepG, KOp.toDrv]
    by_cases h1 : d.refs k > 0 <;> simp [h1]
  | close k => simp [Drv.step, stepG, KOp.toDrv, Drv.set, upd] <;> rfl

/-- re-keying along an injective map commutes with the step -/
theorem stepG_rekey {K K' : Type} [DecidableEq K] [DecidableEq K'] (enc : K → K') (hinj : Function.Injective enc)
    (valid : K → Bool) (valid' : K' → Bool) (hv : ∀ k, valid' (enc k) = valid k)
    (refs : K → Nat) (refs' : K' → Nat) (hr : ∀ k, refs' (enc k) = refs k) (op : KOp K) :
    (∀ k, (stepG valid' refs' (op.map enc)).1 (enc k) = (stepG valid refs op).1 k) ∧
    (stepG valid' refs' (op.map enc)).2 = (stepG valid refs op).2 := by
  have hu : ∀ (k : K) (n : Nat) (k0 : K), upd refs' (enc k) n (enc k0) = upd refs k n k0 := by
    intro k n k0
    by_cases h : k0 = k
    · subst h; simp [upd]
    · have : enc k0 ≠ enc k := fun e => h (hinj e)
      simp [upd, h, this, hr]
  cases op with
  | «open» k =>
    simp only [stepG, KOp.map, hr, hv]
    by_cases h1 : refs k > 0
    · simp only [h1, if_true]; exact ⟨hu k _, trivial⟩
    · by_cases h2 : valid k = true
      · simp only [h1, h2, if_true, if_false]; exact ⟨hu k _, trivial⟩
      · simp only [h1, h2, if_false, Bool.false_eq_true]; exact ⟨hr, trivial⟩
  | query k =>
    simp only [stepG, KOp.map, hr]
    by_cases h1 : refs k > 0 <;> simp only [h1, if_true, if_false] <;> exact ⟨hr, trivial⟩
  | close k =>
    simp only [stepG, KOp.map, hr]
    exact ⟨hu k _, trivial⟩


/-! ### list runs, dropping the key-less operations, re-keying -/

def runG {K : Type} [DecidableEq K] (valid : K → Bool) (refs : K → Nat) : List (KOp K) → (K → Nat) × List (Outcome Unit)
  | [] => (refs, [])
  | op :: ops => ((runG valid (stepG valid refs op).1 ops).1, (stepG valid refs op).2 :: (runG valid (stepG valid refs op).1 ops).2)

/-- the entries of `rs` at the positions where `os` has a key -/
def keyed {α β : Type} : List (Option α) → List β → List β
  | some _ :: os, r :: rs => r :: keyed os rs
  | none :: os, _ :: rs => keyed os rs
  | _, _ => []

/-- operations without key (an `Open` whose options do not parse) do nothing: dropping them gives the same run -/
theorem runO_filterMap {K : Type} [DecidableEq K] (valid : K → Bool) (ops : List (Option (KOp K))) (refs : K → Nat) :
    (runO valid refs ops).1 = (runG valid refs (ops.filterMap id)).1 ∧
    keyed ops (runO valid refs ops).2 = (runG valid refs (ops.filterMap id)).2 := by
  induction ops generalizing refs with
  | nil => exact ⟨rfl, rfl⟩
  | cons o ops ih =>
    cases o with
    | none =>
      simp only [runO, stepO, List.filterMap_cons, id, keyed]
      exact ih refs
    | some op =>
      simp only [runO, stepO, List.filterMap_cons, id, keyed, runG]
      exact ⟨(ih _).1, by rw [(ih _).2]⟩

/-- `Drv.run` of Model/Driver.lean is the list run of `stepG` at the model's key type -/
theorem Drv_run_generic (valid : Nat → Bool) (ops : List (KOp DKey)) (d : Drv) :
    Drv.run valid d (ops.map KOp.toDrv) =
      (⟨(runG (fun k : DKey => valid k.file) d.refs ops).1⟩, (runG (fun k : DKey => valid k.file) d.refs ops).2) := by
  induction ops generalizing d with
  | nil => rfl
  | cons op ops ih =>
    simp only [List.map_cons, Drv.run, runG, Drv_step_generic, ih]

theorem runG_rekey {K K' : Type} [DecidableEq K] [DecidableEq K'] (enc : K → K') (hinj : Function.Injective enc)
    (valid : K → Bool) (valid' : K' → Bool) (hv : ∀ k, valid' (enc k) = valid k) (ops : List (KOp K))
    (refs : K → Nat) (refs' : K' → Nat) (hr : ∀ k, refs' (enc k) = refs k) :
    (∀ k, (runG valid' refs' (ops.map (KOp.map enc))).1 (enc k) = (runG valid refs ops).1 k) ∧
    (runG valid' refs' (ops.map (KOp.map enc))).2 = (runG valid refs ops).2 := by
  induction ops generalizing refs refs' with
  | nil => exact ⟨hr, rfl⟩
  | cons op ops ih =>
    obtain ⟨h1, h2⟩ := stepG_rekey enc hinj valid valid' hv refs refs' hr op
    obtain ⟨i1, i2⟩ := ih _ _ h1
    simp only [List.map_cons, runG]
    exact ⟨i1, by rw [h2, i2]⟩

/-! ## 1. the driver's world: abstraction, invariant, closed forms of the generated functions -/

/-- reference count of a key = `refs` of its cached connection, 0 without entry -/
def refsOf (w : Drv.World) (k : Drv.fileCacheKey) : Nat :=
  match w.cache k with
  | some c => (w.conns c).refs.toNat
  | none => 0

/-- the states between two driver calls (`Inv` of Props/Gen/DriverConn.lean) -/
structure ConnInv (w : Drv.World) : Prop where
  idle : w.held = false
  clean : w.raced = false
  key : ∀ k (c : Nat), w.cache k = some c → (w.conns c).key = k
  pos : ∀ k (c : Nat), w.cache k = some c → 1 ≤ (w.conns c).refs
  fresh : ∀ k (c : Nat), w.cache k = some c → c < (w.nextConn : Nat)

theorem ConnInv.inj {w : Drv.World} (h : ConnInv w) {k k' : Drv.fileCacheKey} {c : Nat}
    (h1 : w.cache k = some c) (h2 : w.cache k' = some c) : k = k' := by
  rw [← h.key k c h1, ← h.key k' c h2]

/-- what the cache says about index handles: every cached connection owns an open handle on its file, no two cached
    connections share a handle, and every open handle is owned by a cached connection (no leaked handle = no leaked
    file lock) -/
structure HandleInv (w : Drv.World) : Prop where
  owns : ∀ k (c : Nat), w.cache k = some c → ∃ i, (w.conns c).idx = some i ∧ i < w.nextIdx ∧ w.openIdx i = some k.file
  sep : ∀ k k' (c c' : Nat) i, w.cache k = some c → w.cache k' = some c' → (w.conns c).idx = some i →
    (w.conns c').idx = some i → k = k'
  noleak : ∀ i f, w.openIdx i = some f → ∃ k c, w.cache k = some c ∧ (w.conns c).idx = some i ∧ k.file = f

theorem HandleInv.lt {w : Drv.World} (hc : ConnInv w) (h : HandleInv w) {i : Nat} {f : Bytes} (ho : w.openIdx i = some f) :
    i < w.nextIdx := by
  obtain ⟨k, c, h1, h2, _⟩ := h.noleak i f ho
  obtain ⟨j, hj, hlt, _⟩ := h.owns k c h1
  rw [h2] at hj
  cases hj
  exact hlt

/-- the driver before its first use -/
def w0 : Drv.World := ⟨false, false, fun _ => none, fun _ => default, 0, fun _ => none, 0⟩

theorem w0_connInv : ConnInv w0 :=
  ⟨rfl, rfl, fun k c h => (by cases h), fun k c h => (by cases h), fun k c h => (by cases h)⟩
theorem w0_handleInv : HandleInv w0 :=
  ⟨fun k c h => (by cases h), fun k k' c c' i h => (by cases h), fun i f h => (by cases h)⟩

/-! ### closed forms -/

theorem openFileLocked_hit (valid : Bytes → Bool) (w : Drv.World) (hidle : w.held = false) (hclean : w.raced = false)
    (file : Bytes) (key : Drv.fileCacheKey) (opts : List Lib.IndexOption) (c : Nat) (hc : w.cache key = some c) :
    Gen.openFileLocked valid w file key opts =
      (.ok c, { w with conns := fun c' => if c' = c then { w.conns c with refs := (w.conns c).refs + 1 } else w.conns c' }) := by
  obtain ⟨held, raced, cache, conns, nc, oi, ni⟩ := w
  simp only at hidle hclean hc
  subst hidle hclean
  simp [Gen.openFileLocked, Drv.lock, Drv.touch, Drv.cacheGet, hc, Drv.refsAdd, Drv.unlock]

theorem openFileLocked_new (valid : Bytes → Bool) (w : Drv.World) (hidle : w.held = false) (hclean : w.raced = false)
    (file : Bytes) (key : Drv.fileCacheKey) (opts : List Lib.IndexOption) (hc : w.cache key = none) (hv : valid file = true) :
    Gen.openFileLocked valid w file key opts =
      (.ok w.nextConn,
       { w with
         cache := fun k' => if k' = key then some w.nextConn else w.cache k',
         conns := fun c' => if c' = w.nextConn then { idx := some w.nextIdx, key := key, refs := 1 } else w.conns c',
         nextConn := w.nextConn + 1,
         openIdx := fun i => if i = w.nextIdx then some file else w.openIdx i,
         nextIdx := w.nextIdx + 1 }) := by
  obtain ⟨held, raced, cache, conns, nc, oi, ni⟩ := w
  simp only at hidle hclean hc
  subst hidle hclean
  simp [Gen.openFileLocked, Drv.lock, Drv.touch, Drv.cacheGet, hc, Drv.openIndex, hv, Drv.newConn,
        Drv.cacheSet, Drv.refsAdd, Drv.unlock]
  funext c'
  split <;> simp_all

theorem openFileLocked_fail (valid : Bytes → Bool) (w : Drv.World) (hidle : w.held = false) (hclean : w.raced = false)
    (file : Bytes) (key : Drv.fileCacheKey) (opts : List Lib.IndexOption) (hc : w.cache key = none) (hv : valid file = false) :
    ∃ e, Gen.openFileLocked valid w file key opts = (.error e, w) := by
  obtain ⟨held, raced, cache, conns, nc, oi, ni⟩ := w
  simp only at hidle hclean hc
  subst hidle hclean
  simp [Gen.openFileLocked, Drv.lock, Drv.touch, Drv.cacheGet, hc, Drv.openIndex, hv, Drv.unlock]

theorem connClose_last (w : Drv.World) (hidle : w.held = false) (hclean : w.raced = false) (k : Drv.fileCacheKey) (c i : Nat)
    (hc : w.cache k = some c) (hk : (w.conns c).key = k) (hr : (w.conns c).refs = 1) (hi : (w.conns c).idx = some i) :
    Gen.connClose w c =
      (none,
       { w with
         cache := fun k' => if k' = k then none else w.cache k',
         conns := fun c' => if c' = c then { idx := none, key := k, refs := 0 } else w.conns c',
         openIdx := fun j => if j = i then none else w.openIdx j }) := by
  obtain ⟨held, raced, cache, conns, nc, oi, ni⟩ := w
  simp only at hidle hclean hc hk hr hi
  subst hidle hclean
  have hsn : ((some i : Option Drv.IdxId) == none) = false := rfl
  simp [Gen.connClose, Drv.lock, Drv.refsAdd, Drv.touch, hr, Drv.cacheGet, Drv.connKey, hk, hc, Drv.cacheDelete,
    Drv.connIdx, Drv.setConnIdx, Drv.unlock, hi, hsn, Drv.closeIndex]
  funext c'
  split <;> simp_all

theorem connClose_notlast (w : Drv.World) (hidle : w.held = false) (hclean : w.raced = false) (c : Nat)
    (hr : 2 ≤ (w.conns c).refs) :
    Gen.connClose w c =
      (none, { w with conns := fun c' => if c' = c then { w.conns c with refs := (w.conns c).refs - 1 } else w.conns c' }) := by
  obtain ⟨held, raced, cache, conns, nc, oi, ni⟩ := w
  simp only at hidle hclean hr
  subst hidle hclean
  have hle : ¬ ((conns c).refs + -1 ≤ 0) := by omega
  simp [Gen.connClose, Drv.lock, Drv.refsAdd, Drv.touch, hle, Drv.unlock]
  funext c'
  split
  · congr 1
  · rfl

/-! ### the three ways the world changes -/

/-- the reference count of connection `c` becomes `r` -/
def bump (w : Drv.World) (c : Nat) (r : Int) : Drv.World :=
  { w with conns := fun c' => if c' = c then { w.conns c with refs := r } else w.conns c' }

/-- a new connection for `key`, owning a new index handle on `file` -/
def addEntry (w : Drv.World) (key : Drv.fileCacheKey) (file : Bytes) : Drv.World :=
  { w with
    cache := fun k' => if k' = key then some w.nextConn else w.cache k',
    conns := fun c' => if c' = w.nextConn then { idx := some w.nextIdx, key := key, refs := 1 } else w.conns c',
    nextConn := w.nextConn + 1,
    openIdx := fun i => if i = w.nextIdx then some file else w.openIdx i,
    nextIdx := w.nextIdx + 1 }

/-- the entry of `k` (connection `c`, handle `i`) goes: the handle is closed -/
def dropEntry (w : Drv.World) (k : Drv.fileCacheKey) (c i : Nat) : Drv.World :=
  { w with
    cache := fun k' => if k' = k then none else w.cache k',
    conns := fun c' => if c' = c then { idx := none, key := k, refs := 0 } else w.conns c',
    openIdx := fun j => if j = i then none else w.openIdx j }

theorem bump_idx (w : Drv.World) (c : Nat) (r : Int) (c' : Nat) : ((bump w c r).conns c').idx = (w.conns c').idx := by
  simp only [bump]; split
  · rename_i h; subst h; rfl
  · rfl

theorem bump_key (w : Drv.World) (c : Nat) (r : Int) (c' : Nat) : ((bump w c r).conns c').key = (w.conns c').key := by
  simp only [bump]; split
  · rename_i h; subst h; rfl
  · rfl

theorem bump_connInv {w : Drv.World} (h : ConnInv w) (c : Nat) (r : Int) (hr : 1 ≤ r) : ConnInv (bump w c r) := by
  refine ⟨h.idle, h.clean, ?_, ?_, h.fresh⟩
  · intro k c' hc; rw [bump_key]; exact h.key k c' hc
  · intro k c' hc
    show 1 ≤ ((bump w c r).conns c').refs
    simp only [bump]; split
    · exact hr
    · exact h.pos k c' hc

theorem bump_handleInv {w : Drv.World} (h : HandleInv w) (c : Nat) (r : Int) : HandleInv (bump w c r) := by
  refine ⟨?_, ?_, ?_⟩
  · intro k c' hc; rw [bump_idx]; exact h.owns k c' hc
  · intro k k' c1 c2 i h1 h2 h3 h4; rw [bump_idx] at h3 h4; exact h.sep k k' c1 c2 i h1 h2 h3 h4
  · intro i f ho
    obtain ⟨k, c', h1, h2, h3⟩ := h.noleak i f ho
    exact ⟨k, c', h1, by rw [bump_idx]; exact h2, h3⟩

theorem bump_refsOf {w : Drv.World} (h : ConnInv w) (k : Drv.fileCacheKey) (c : Nat) (hc : w.cache k = some c) (r : Int) :
    refsOf (bump w c r) = upd (refsOf w) k r.toNat := by
  funext k'
  by_cases hk : k' = k
  · subst hk
    simp [refsOf, upd, bump, hc]
  · simp only [upd, hk, if_false, refsOf]
    show (match w.cache k' with | some c' => ((bump w c r).conns c').refs.toNat | none => 0) = _
    cases hck : w.cache k' with
    | none => rfl
    | some c' =>
      have hne : c' ≠ c := fun heq => hk (h.inj (heq ▸ hck) hc)
      simp [bump, hne]

theorem addEntry_connInv {w : Drv.World} (h : ConnInv w) (key : Drv.fileCacheKey) (file : Bytes) :
    ConnInv (addEntry w key file) := by
  refine ⟨h.idle, h.clean, ?_, ?_, ?_⟩
  · intro k c hc
    simp only [addEntry] at hc ⊢
    by_cases hk : k = key
    · subst hk; simp at hc; subst hc; simp
    · simp only [hk, if_false] at hc
      have hne : c ≠ w.nextConn := Nat.ne_of_lt (h.fresh k c hc)
      simp [hne, h.key k c hc]
  · intro k c hc
    simp only [addEntry] at hc ⊢
    by_cases hk : k = key
    · subst hk; simp at hc; subst hc; simp
    · simp only [hk, if_false] at hc
      have hne : c ≠ w.nextConn := Nat.ne_of_lt (h.fresh k c hc)
      simp [hne, h.pos k c hc]
  · intro k c hc
    simp only [addEntry] at hc ⊢
    by_cases hk : k = key
    · subst hk; simp at hc; subst hc; exact Nat.lt_succ_self _
    · simp only [hk, if_false] at hc
      exact Nat.lt_succ_of_lt (h.fresh k c hc)

theorem addEntry_refsOf {w : Drv.World} (h : ConnInv w) (key : Drv.fileCacheKey) (file : Bytes) :
    refsOf (addEntry w key file) = upd (refsOf w) key 1 := by
  funext k
  by_cases hk : k = key
  · subst hk; simp [refsOf, upd, addEntry]
  · simp only [upd, hk, if_false, refsOf, addEntry]
    cases hck : w.cache k with
    | none => rfl
    | some c =>
      have hne : c ≠ w.nextConn := Nat.ne_of_lt (h.fresh k c hck)
      simp [hne]

theorem addEntry_handleInv {w : Drv.World} (hc : ConnInv w) (h : HandleInv w) (key : Drv.fileCacheKey) (file : Bytes)
    (hnone : w.cache key = none) (hfile : key.file = file) : HandleInv (addEntry w key file) := by
  -- facts about the old entries inside the new world
  have old : ∀ k c, k ≠ key → w.cache k = some c →
      ((addEntry w key file).conns c).idx = (w.conns c).idx := by
    intro k c hk hck
    have hne : c ≠ w.nextConn := Nat.ne_of_lt (hc.fresh k c hck)
    simp [addEntry, hne]
  refine ⟨?_, ?_, ?_⟩
  · intro k c hck
    by_cases hk : k = key
    · subst hk
      simp only [addEntry, if_true] at hck
      cases hck
      exact ⟨w.nextIdx, by simp [addEntry], by simp [addEntry], by simp [addEntry, hfile]⟩
    · have hck' : w.cache k = some c := by simpa [addEntry, hk] using hck
      obtain ⟨i, h1, h2, h3⟩ := h.owns k c hck'
      refine ⟨i, by rw [old k c hk hck']; exact h1, Nat.lt_succ_of_lt h2, ?_⟩
      have hne : i ≠ w.nextIdx := Nat.ne_of_lt h2
      simp [addEntry, hne, h3]
  · intro k k' c c' i h1 h2 h3 h4
    by_cases hk : k = key <;> by_cases hk' : k' = key
    · rw [hk, hk']
    · -- `k` is the new entry (handle `nextIdx`), `k'` an old one (handle below `nextIdx`)
      exfalso
      subst hk
      simp only [addEntry, if_true] at h1
      cases h1
      have h2' : w.cache k' = some c' := by simpa [addEntry, hk'] using h2
      have hi : i = w.nextIdx := by simpa [addEntry] using h3.symm
      rw [old k' c' hk' h2'] at h4
      obtain ⟨j, e1, e2, _⟩ := h.owns k' c' h2'
      rw [h4] at e1; cases e1
      exact absurd hi (Nat.ne_of_lt e2)
    · exfalso
      subst hk'
      simp only [addEntry, if_true] at h2
      cases h2
      have h1' : w.cache k = some c := by simpa [addEntry, hk] using h1
      have hi : i = w.nextIdx := by simpa [addEntry] using h4.symm
      rw [old k c hk h1'] at h3
      obtain ⟨j, e1, e2, _⟩ := h.owns k c h1'
      rw [h3] at e1; cases e1
      exact absurd hi (Nat.ne_of_lt e2)
    · have h1' : w.cache k = some c := by simpa [addEntry, hk] using h1
      have h2' : w.cache k' = some c' := by simpa [addEntry, hk'] using h2
      rw [old k c hk h1'] at h3
      rw [old k' c' hk' h2'] at h4
      exact h.sep k k' c c' i h1' h2' h3 h4
  · intro i f ho
    by_cases hi : i = w.nextIdx
    · subst hi
      have hf : f = file := by simpa [addEntry] using ho.symm
      exact ⟨key, w.nextConn, by simp [addEntry], by simp [addEntry], by rw [hf, hfile]⟩
    · have ho' : w.openIdx i = some f := by simpa [addEntry, hi] using ho
      obtain ⟨k, c, h1, h2, h3⟩ := h.noleak i f ho'
      have hk : k ≠ key := fun e => by rw [e, hnone] at h1; cases h1
      exact ⟨k, c, by simp [addEntry, hk, h1], by rw [old k c hk h1]; exact h2, h3⟩

theorem dropEntry_connInv {w : Drv.World} (h : ConnInv w) (k : Drv.fileCacheKey) (c i : Nat) (hc : w.cache k = some c) :
    ConnInv (dropEntry w k c i) := by
  have hne : ∀ k' c', k' ≠ k → w.cache k' = some c' → c' ≠ c := fun k' c' hk h1 heq => hk (h.inj (heq ▸ h1) hc)
  refine ⟨h.idle, h.clean, ?_, ?_, ?_⟩
  · intro k' c' hck
    by_cases hk : k' = k
    · simp [dropEntry, hk] at hck
    · have hck' : w.cache k' = some c' := by simpa [dropEntry, hk] using hck
      simp [dropEntry, hne k' c' hk hck', h.key k' c' hck']
  · intro k' c' hck
    by_cases hk : k' = k
    · simp [dropEntry, hk] at hck
    · have hck' : w.cache k' = some c' := by simpa [dropEntry, hk] using hck
      simp [dropEntry, hne k' c' hk hck', h.pos k' c' hck']
  · intro k' c' hck
    by_cases hk : k' = k
    · simp [dropEntry, hk] at hck
    · have hck' : w.cache k' = some c' := by simpa [dropEntry, hk] using hck
      exact h.fresh k' c' hck'

theorem dropEntry_refsOf {w : Drv.World} (h : ConnInv w) (k : Drv.fileCacheKey) (c i : Nat) (hc : w.cache k = some c) :
    refsOf (dropEntry w k c i) = upd (refsOf w) k 0 := by
  funext k'
  by_cases hk : k' = k
  · subst hk; simp [refsOf, upd, dropEntry]
  · simp only [upd, hk, if_false, refsOf, dropEntry]
    cases hck : w.cache k' with
    | none => rfl
    | some c' =>
      have hne : c' ≠ c := fun heq => hk (h.inj (heq ▸ hck) hc)
      simp [hne]

theorem dropEntry_handleInv {w : Drv.World} (hc : ConnInv w) (h : HandleInv w) (k : Drv.fileCacheKey) (c i : Nat)
    (hck : w.cache k = some c) (hi : (w.conns c).idx = some i) : HandleInv (dropEntry w k c i) := by
  have hne : ∀ k' c', k' ≠ k → w.cache k' = some c' → c' ≠ c := fun k' c' hk h1 heq => hk (hc.inj (heq ▸ h1) hck)
  have old : ∀ k' c', k' ≠ k → w.cache k' = some c' → ((dropEntry w k c i).conns c').idx = (w.conns c').idx := by
    intro k' c' hk h1
    simp [dropEntry, hne k' c' hk h1]
  refine ⟨?_, ?_, ?_⟩
  · intro k' c' h1
    by_cases hk : k' = k
    · simp [dropEntry, hk] at h1
    · have h1' : w.cache k' = some c' := by simpa [dropEntry, hk] using h1
      obtain ⟨j, e1, e2, e3⟩ := h.owns k' c' h1'
      have hji : j ≠ i := fun e => hk (h.sep k' k c' c i h1' hck (e ▸ e1) hi)
      exact ⟨j, by rw [old k' c' hk h1']; exact e1, e2, by simp [dropEntry, hji, e3]⟩
  · intro k1 k2 c1 c2 j h1 h2 h3 h4
    by_cases hk1 : k1 = k
    · simp [dropEntry, hk1] at h1
    · by_cases hk2 : k2 = k
      · simp [dropEntry, hk2] at h2
      · have h1' : w.cache k1 = some c1 := by simpa [dropEntry, hk1] using h1
        have h2' : w.cache k2 = some c2 := by simpa [dropEntry, hk2] using h2
        rw [old k1 c1 hk1 h1'] at h3
        rw [old k2 c2 hk2 h2'] at h4
        exact h.sep k1 k2 c1 c2 j h1' h2' h3 h4
  · intro j f ho
    by_cases hji : j = i
    · simp [dropEntry, hji] at ho
    · have ho' : w.openIdx j = some f := by simpa [dropEntry, hji] using ho
      obtain ⟨k', c', h1, h2, h3⟩ := h.noleak j f ho'
      have hk : k' ≠ k := by
        intro e
        rw [e, hck] at h1
        cases h1
        rw [hi] at h2
        cases h2
        exact hji rfl
      exact ⟨k', c', by simp [dropEntry, hk, h1], by rw [old k' c' hk h1]; exact h2, h3⟩

/-! ## 2. the driver over real files: generated open, generated execute, generated LRU behind every handle -/

open Updog.Go.T3 in
/-- what `OpenIndexFromBoltDatabase` returned for a handle: the database record, the reader's heap, the `*Index` -/
structure Opened where
  bolt : Bolt
  hp : Heap
  idx : Go.T3.Index

/-- T5's world (cache map, connections, reference counts, mutex, abstract index handles) extended with what the abstract
    `Drv.openIndex` leaves out: for every index handle, the options it was opened with, what the GENERATED
    `OpenIndexFromBoltDatabase` returned for it, and the GENERATED LRU cache `WithCache(NewLRUCache(n))` gave it -/
structure GWorld where
  w : Drv.World
  cfg : Drv.IdxId → FileConfig
  opened : Drv.IdxId → Option Opened
  lru : Drv.IdxId → Gen.LRUCache

/-- an operation of a client of the driver; a data source is named by its DSN (file, option values) -/
inductive DOp where
  /-- `driver.Open("file:<file>?<v>")` -/
  | open (file : Bytes) (v : Url.Values)
  /-- prepare `text` on the connection of the DSN and run it with the arguments `values` -/
  | query (file : Bytes) (v : Url.Values) (text : Bytes) (values : List Bytes)
  /-- `Close` one connection of the DSN -/
  | close (file : Bytes) (v : Url.Values)

/-- what the client sees -/
inductive DRes where
  /-- `Open` returned this connection -/
  | conn (c : Drv.ConnId)
  /-- `Open` (or `Close`) returned an error -/
  | failed
  /-- the statement was run: its rows (header, cells), or an error (parse error, too few arguments, library error) -/
  | rows (r : Outcome (List Bytes × List (List Cell)))
  | closed
  /-- the client has no such connection / nil index: a nil dereference in Go -/
  | panic
  deriving DecidableEq

def DRes.outcome : DRes → Outcome Unit
  | .conn _ => .ok ()
  | .failed => .error
  | .rows _ => .ok ()
  | .closed => .ok ()
  | .panic => .panic

/-- the connection-cache key of a DSN (`none`: `lrucachesize` does not parse, `openFile` fails before the lock) -/
def keyOf (file : Bytes) (v : Url.Values) : Option Drv.fileCacheKey :=
  match dsnConfig (dsnOptsOf v) with
  | .ok c => some ⟨file, c.keyOpts⟩
  | _ => none

theorem keyOf_file {file : Bytes} {v : Url.Values} {k : Drv.fileCacheKey} (h : keyOf file v = some k) : k.file = file := by
  unfold keyOf at h
  split at h
  · cases h; rfl
  · cases h

/-- the model operation a client operation stands for -/
def DOp.abs : DOp → Option (KOp Drv.fileCacheKey)
  | .open file v => (keyOf file v).map .open
  | .query file v _ _ => (keyOf file v).map .query
  | .close file v => (keyOf file v).map .close

/-- `openFile` = its two regenerated halves in sequence (as in Props/Gen/DriverConn.lean) -/
def openFileWhole (valid : Bytes → Bool) (w : Drv.World) (file : Bytes) (v : Url.Values) : Except Err5 Drv.ConnId × Drv.World :=
  match Gen.openFileOpts file v with
  | .error e => (.error e, w)
  | .ok o => Gen.openFileLocked valid w file o.key o.opts

theorem openFileWhole_ok (valid : Bytes → Bool) (w : Drv.World) (file : Bytes) (v : Url.Values) (cfg : FileConfig)
    (h : dsnConfig (dsnOptsOf v) = .ok cfg) :
    openFileWhole valid w file v = Gen.openFileLocked valid w file ⟨file, cfg.keyOpts⟩ (optionsOf cfg) := by
  have := openFileOpts_eq file v
  rw [h] at this
  simp only [openFileWhole, this]

theorem openFileWhole_bad (valid : Bytes → Bool) (w : Drv.World) (file : Bytes) (v : Url.Values)
    (h : keyOf file v = none) : ∃ e, openFileWhole valid w file v = (.error e, w) := by
  have := openFileOpts_eq file v
  unfold keyOf at h
  cases hd : dsnConfig (dsnOptsOf v) with
  | ok c => rw [hd] at h; cases h
  | error => rw [hd] at this; exact ⟨_, by simp only [openFileWhole, this]; rfl⟩
  | panic => rw [hd] at this; exact ⟨_, by simp only [openFileWhole, this]; rfl⟩
  | hang => rw [hd] at this; exact ⟨_, by simp only [openFileWhole, this]; rfl⟩

section world
open Updog.Go.T3
variable (X : Ext) (H : Bytes → UInt64) (sz : Ref → UInt64) (fs : Bytes → Option Buckets)

/-- **the generated `OpenIndexFromBoltDatabase`** on a freshly opened read-only database over the committed content
    `c`, for handle `i`, with or without `WithPreloadedData()` -/
def genOpen (i : Nat) (c : Buckets) (preload : Bool) : Bolt × Heap × Option Go.T3.Index × Error :=
  Gen.openIndexFromBoltDatabase X (idle i 0 c []) ({} : Heap) (some i) (openOpts X preload)

/-- the generated open succeeds: no error and a non-nil `*Index` -/
def genOpens (i : Nat) (c : Buckets) (preload : Bool) : Bool :=
  !(isErr (genOpen X i c preload).2.2.2) && (genOpen X i c preload).2.2.1.isSome

/-- **`valid` instantiated: the generated open succeeds on the file's state** (an absent file is invalid) -/
def genValid (file : Bytes) : Bool :=
  match fs file with
  | none => false
  | some c => genOpens X 0 c false

/-- T5's `Drv.openIndex` takes a validity predicate on the FILE only and ignores the options. Instantiating it with the
    generated open therefore needs: on every file, the generated open fails or succeeds regardless of
    `WithPreloadedData()` (and of the handle id). False exactly for files with a valid header and an undecodable bitmap. -/
def OptionBlind : Prop :=
  ∀ f c, fs f = some c → ∀ i preload, genOpens X i c preload = genOpens X 0 c false

/-- `updog.OpenIndex` ran for handle `i`: what the extended world records -/
def GWorld.record (g : GWorld) (w' : Drv.World) (i : Nat) (cfg : FileConfig) (content : Buckets) : GWorld :=
  { w := w', cfg := upd g.cfg i cfg,
    opened := upd g.opened i ((genOpen X i content cfg.preload).2.2.1.map fun idx =>
      ⟨(genOpen X i content cfg.preload).1, (genOpen X i content cfg.preload).2.1, idx⟩),
    lru := upd g.lru i (Gen.newLRUCache (cfg.cacheSize.getD 0).toUInt64 []) }

/-- **`driver.Open` of a file DSN**: the generated `openFile` (both halves) with `valid` = the generated open; when a
    new index handle was opened, the generated open is run on the file and `NewLRUCache(size)` creates its cache -/
def gOpen (g : GWorld) (file : Bytes) (v : Url.Values) : GWorld × DRes :=
  match (openFileWhole (genValid X fs) g.w file v).1 with
  | .error _ => ({ g with w := (openFileWhole (genValid X fs) g.w file v).2 }, .failed)
  | .ok c =>
    if (openFileWhole (genValid X fs) g.w file v).2.nextIdx = g.w.nextIdx then
      ({ g with w := (openFileWhole (genValid X fs) g.w file v).2 }, .conn c)
    else
      match dsnConfig (dsnOptsOf v), fs file with
      | .ok cfg, some content =>
        (g.record X (openFileWhole (genValid X fs) g.w file v).2 g.w.nextIdx cfg content, .conn c)
      | _, _ => ({ g with w := (openFileWhole (genValid X fs) g.w file v).2 }, .conn c)

/-- the cache state after the `Execute` call `Gen.stmtQuery` makes (none if the arguments do not bind) -/
def lruAfter (o : Opened) (pq : PQuery) (values : List Bytes) (c : Gen.LRUCache) : Gen.LRUCache :=
  match bind pq values with
  | .ok q' => (genExecute H (genLruImpl sz) X o.bolt o.hp o.idx (Gen.ToQuery (Go.Parsed.Query.toWire q')) [] c).1
  | _ => c

/-- **a statement on the connection of a DSN**: `Prepare` = the generated `ParseQuery`, `Query` = the generated
    `stmtQuery` over the all-generated `Execute` on the index the generated open returned for the connection's handle,
    through `nullCache` or the handle's generated LRU -/
def gQuery (g : GWorld) (file : Bytes) (v : Url.Values) (text : Bytes) (values : List Bytes) : GWorld × DRes :=
  match keyOf file v with
  | none => (g, .panic)
  | some k =>
    match g.w.cache k with
    | none => (g, .panic)
    | some c =>
      match (g.w.conns c).idx with
      | none => (g, .panic)
      | some i =>
        match g.opened i with
        | none => (g, .panic)
        | some o =>
          match Gen.ParseQuery (3 * text.length + 5) text with
          | .error _ => (g, .rows .error)
          | .ok pq =>
            match (g.cfg i).cacheSize with
            | none =>
              (g, .rows ((toOutcome (Gen.stmtQuery (genLibExecute H nullCacheImpl X o.bolt o.hp o.idx ()) ⟨pq⟩ values)).map
                GenCompose.rowsView))
            | some _ =>
              ({ g with lru := upd g.lru i (lruAfter X H sz o pq values (g.lru i)) },
               .rows ((toOutcome (Gen.stmtQuery (genLibExecute H (genLruImpl sz) X o.bolt o.hp o.idx (g.lru i)) ⟨pq⟩
                 values)).map GenCompose.rowsView))

/-- **`Close` of one connection of a DSN**: the generated `fileConn.Close` on the cached connection -/
def gClose (g : GWorld) (file : Bytes) (v : Url.Values) : GWorld × DRes :=
  match keyOf file v with
  | none => (g, .panic)
  | some k =>
    match g.w.cache k with
    | none => (g, .panic)
    | some c =>
      ({ g with w := (Gen.connClose g.w c).2 },
       match (Gen.connClose g.w c).1 with
       | none => .closed
       | some _ => .failed)

def gstep (g : GWorld) : DOp → GWorld × DRes
  | .open file v => gOpen X fs g file v
  | .query file v text values => gQuery X H sz g file v text values
  | .close file v => gClose g file v

def grun (g : GWorld) : List DOp → GWorld × List DRes
  | [] => (g, [])
  | op :: ops => ((grun (gstep X H sz fs g op).1 ops).1, (gstep X H sz fs g op).2 :: (grun (gstep X H sz fs g op).1 ops).2)

/-- the driver before its first use (the per-handle tables are irrelevant: no handle exists) -/
def g0 : GWorld := ⟨w0, fun _ => ⟨false, none, []⟩, fun _ => none, fun _ => Gen.newLRUCache 0 []⟩

/-! ### the invariant -/

/-- the file holds the index the writer made of `rows` (fewer than 2^64), in bbolt's key order -/
def GoodFile (f : Bytes) (rows : List Row) : Prop :=
  ∃ c d next, fs f = some c ∧ bucketsGet c dataName = some d ∧ SortedData d ∧
    HoldsWriter X d (Writer.addRows H {} rows) next ∧ rows.length < 2 ^ 64

/-- what is known about handle `i` on a file holding `rows`: the recorded index is the one the generated open returns
    (its getter refines the model index), and — if the handle has a cache — the generated LRU is related to a model
    LRU that is sound for this file -/
structure HandleGood (U : List Expr) (g : GWorld) (i : Nat) (rows : List Row) : Prop where
  opened : ∃ bolt hp j vals d next,
    g.opened i = some ⟨bolt, hp, openedIndex j (Writer.addRows H {} rows).schema next vals⟩ ∧
    HoldsWriter X d (Writer.addRows H {} rows) next ∧
    GetColRefines (genGetCol X bolt hp vals) (fileIndex X d (Writer.addRows H {} rows).schema next)
  cache : ∀ n, (g.cfg i).cacheSize = some n →
    ∃ m, LruRel sz n.toUInt64 (g.lru i) m ∧
      Sound H (Writer.addRows H {} rows).toIndex U (C03.lruCache_contract fun b => (sz b).toNat) m

theorem HandleGood.congr {U : List Expr} {g g' : GWorld} {i : Nat} {rows : List Row}
    (h : HandleGood X H sz U g i rows) (h1 : g'.opened i = g.opened i) (h2 : g'.cfg i = g.cfg i) (h3 : g'.lru i = g.lru i) :
    HandleGood X H sz U g' i rows := by
  obtain ⟨ho, hc⟩ := h
  exact ⟨by rw [h1]; exact ho, by rw [h2, h3]; exact hc⟩

/-- every handle of a cached connection on a good file is good -/
def HandleSem (U : List Expr) (g : GWorld) : Prop :=
  ∀ k (c i : Nat), g.w.cache k = some c → (g.w.conns c).idx = some i →
    ∀ rows, GoodFile X H fs k.file rows → HandleGood X H sz U g i rows

/-- **the invariant of the composed driver** -/
structure GInv (U : List Expr) (g : GWorld) : Prop where
  conn : ConnInv g.w
  handle : HandleInv g.w
  /-- the handle of every cached connection has a recorded (non-nil) index -/
  live : ∀ k (c i : Nat), g.w.cache k = some c → (g.w.conns c).idx = some i → (g.opened i).isSome = true
  sem : HandleSem X H sz fs U g

theorem g0_inv (U : List Expr) : GInv X H sz fs U g0 :=
  ⟨w0_connInv, w0_handleInv, fun k c i h => (by cases h), fun k c i h => (by cases h)⟩

/-! ### `Open` -/

/-- only the driver's part of the world changed, and the cached connections and their handles are among the old ones -/
theorem GInv.of_w {U : List Expr} {g : GWorld} (h : GInv X H sz fs U g) (w' : Drv.World) (hc : ConnInv w')
    (hh : HandleInv w')
    (hsub : ∀ k (c i : Nat), w'.cache k = some c → (w'.conns c).idx = some i →
      g.w.cache k = some c ∧ (g.w.conns c).idx = some i) :
    GInv X H sz fs U { g with w := w' } :=
  ⟨hc, hh, fun k c i h1 h2 => h.live k c i (hsub k c i h1 h2).1 (hsub k c i h1 h2).2,
   fun k c i h1 h2 rows hg => (h.sem k c i (hsub k c i h1 h2).1 (hsub k c i h1 h2).2 rows hg).congr X H sz rfl rfl rfl⟩

theorem gOpen_hit (g : GWorld) (hinv : ConnInv g.w) (file : Bytes) (v : Url.Values) (cfg : FileConfig)
    (hd : dsnConfig (dsnOptsOf v) = .ok cfg) (c : Nat) (hc : g.w.cache ⟨file, cfg.keyOpts⟩ = some c) :
    gOpen X fs g file v = ({ g with w := bump g.w c ((g.w.conns c).refs + 1) }, .conn c) := by
  have hr : openFileWhole (genValid X fs) g.w file v = (.ok c, bump g.w c ((g.w.conns c).refs + 1)) :=
    (openFileWhole_ok _ _ _ _ cfg hd).trans (openFileLocked_hit _ _ hinv.idle hinv.clean _ _ _ c hc)
  unfold gOpen
  simp [hr, bump]

theorem gOpen_new (g : GWorld) (hinv : ConnInv g.w) (file : Bytes) (v : Url.Values) (cfg : FileConfig)
    (hd : dsnConfig (dsnOptsOf v) = .ok cfg) (hc : g.w.cache ⟨file, cfg.keyOpts⟩ = none) (content : Buckets)
    (hfs : fs file = some content) (hv : genValid X fs file = true) :
    gOpen X fs g file v =
      (g.record X (addEntry g.w ⟨file, cfg.keyOpts⟩ file) g.w.nextIdx cfg content, .conn g.w.nextConn) := by
  have hr : openFileWhole (genValid X fs) g.w file v = (.ok g.w.nextConn, addEntry g.w ⟨file, cfg.keyOpts⟩ file) :=
    (openFileWhole_ok _ _ _ _ cfg hd).trans (openFileLocked_new _ _ hinv.idle hinv.clean _ _ _ hc hv)
  unfold gOpen
  simp [hr, addEntry, hd, hfs]

theorem gOpen_fail (g : GWorld) (hinv : ConnInv g.w) (file : Bytes) (v : Url.Values) (cfg : FileConfig)
    (hd : dsnConfig (dsnOptsOf v) = .ok cfg) (hc : g.w.cache ⟨file, cfg.keyOpts⟩ = none)
    (hv : genValid X fs file = false) : gOpen X fs g file v = (g, .failed) := by
  obtain ⟨e, he⟩ := openFileLocked_fail (genValid X fs) g.w hinv.idle hinv.clean file ⟨file, cfg.keyOpts⟩ (optionsOf cfg) hc hv
  have hr : openFileWhole (genValid X fs) g.w file v = (.error e, g.w) := (openFileWhole_ok _ _ _ _ cfg hd).trans he
  unfold gOpen
  simp [hr]

theorem gOpen_bad (g : GWorld) (file : Bytes) (v : Url.Values) (hk : keyOf file v = none) :
    gOpen X fs g file v = (g, .failed) := by
  obtain ⟨e, hr⟩ := openFileWhole_bad (genValid X fs) g.w file v hk
  unfold gOpen
  simp [hr]

/-- the extended world after a new handle was recorded satisfies the invariant -/
theorem record_inv {U : List Expr} (hnil : X.roaringFromBuffer [] = none) (hblind : OptionBlind X fs) {g : GWorld}
    (hinv : GInv X H sz fs U g) (file : Bytes) (cfg : FileConfig) (hc : g.w.cache ⟨file, cfg.keyOpts⟩ = none)
    (content : Buckets) (hfs : fs file = some content) (hv : genValid X fs file = true)
    (hfit : ∀ n, cfg.cacheSize = some n → ∀ bm, n.toUInt64.toNat + (sz bm).toNat + ovh < 2 ^ 64) :
    GInv X H sz fs U (g.record X (addEntry g.w ⟨file, cfg.keyOpts⟩ file) g.w.nextIdx cfg content) := by
  have hci := addEntry_connInv hinv.conn ⟨file, cfg.keyOpts⟩ file
  have hhi := addEntry_handleInv hinv.conn hinv.handle ⟨file, cfg.keyOpts⟩ file hc rfl
  -- an entry of the new world is the new one (new handle) or an old one (old handle, below the counter)
  have split : ∀ k (c i : Nat), (addEntry g.w ⟨file, cfg.keyOpts⟩ file).cache k = some c →
      ((addEntry g.w ⟨file, cfg.keyOpts⟩ file).conns c).idx = some i →
      (k = ⟨file, cfg.keyOpts⟩ ∧ i = g.w.nextIdx) ∨
      (g.w.cache k = some c ∧ (g.w.conns c).idx = some i ∧ i ≠ g.w.nextIdx) := by
    intro k c i h1 h2
    by_cases hk : k = ⟨file, cfg.keyOpts⟩
    · left
      subst hk
      simp only [addEntry, if_true] at h1
      cases h1
      exact ⟨rfl, by simpa [addEntry] using h2.symm⟩
    · right
      have h1' : g.w.cache k = some c := by simpa [addEntry, hk] using h1
      have hne : c ≠ g.w.nextConn := Nat.ne_of_lt (hinv.conn.fresh k c h1')
      have h2' : (g.w.conns c).idx = some i := by simpa [addEntry, hne] using h2
      obtain ⟨j, e1, e2, _⟩ := hinv.handle.owns k c h1'
      rw [h2'] at e1; cases e1
      exact ⟨h1', h2', Nat.ne_of_lt e2⟩
  have hopens : genOpens X g.w.nextIdx content cfg.preload = true := by
    rw [hblind file content hfs]
    simpa [genValid, hfs] using hv
  refine ⟨hci, hhi, ?_, ?_⟩
  · intro k c i h1 h2
    rcases split k c i h1 h2 with ⟨_, rfl⟩ | ⟨h1', h2', hne⟩
    · simp only [GWorld.record, upd_same]
      simp only [genOpens, Bool.and_eq_true] at hopens
      cases ho : (genOpen X g.w.nextIdx content cfg.preload).2.2.1 with
      | none => rw [ho] at hopens; simp at hopens
      | some idx => rfl
    · simp only [GWorld.record, upd_other _ _ _ _ hne]
      exact hinv.live k c i h1' h2'
  · intro k c i h1 h2 rows hgood
    rcases split k c i h1 h2 with ⟨rfl, rfl⟩ | ⟨h1', h2', hne⟩
    · obtain ⟨c', d, next, hfs', hb, hs, hw, hlen⟩ := hgood
      rw [hfs] at hfs'; cases hfs'
      obtain ⟨n', hp', vals, hopen, hg⟩ := open_ok X g.w.nextIdx 0 content [] ({} : Heap) d _ next (hw.fileOK hb) hnil
        cfg.preload (fun _ => hs) (fun _ => hw.vDecodable hs)
      refine ⟨⟨_, _, g.w.nextIdx, vals, d, next, ?_, hw, hg⟩, ?_⟩
      · simp only [GWorld.record, upd_same, genOpen, hopen, Option.map_some]
      · intro n hn
        simp only [GWorld.record, upd_same] at hn ⊢
        have hnew := newLRUCache_rel sz n.toUInt64 [] (hfit n hn)
        simp only [List.map_nil] at hnew
        rw [hn, Option.getD_some]
        exact ⟨_, hnew.1, (C03.lru_empty _ _ hnew.2).sound H _ _ _⟩
    · exact (hinv.sem k c i h1' h2' rows hgood).congr X H sz (by simp only [GWorld.record, upd_other _ _ _ _ hne])
        (by simp only [GWorld.record, upd_other _ _ _ _ hne]) (by simp only [GWorld.record, upd_other _ _ _ _ hne])

/-- the validity predicate on keys -/
def validK : Drv.fileCacheKey → Bool := fun k => genValid X fs k.file

/-- **`Open`: one step of the composed driver is the model's `open` step**, the invariant is kept, a failed `Open`
    changes NOTHING (cache, connections, handles, per-handle state), and a successful one returns the connection the
    cache now holds for the DSN's key -/
theorem gOpen_spec {U : List Expr} (hnil : X.roaringFromBuffer [] = none) (hblind : OptionBlind X fs) (g : GWorld)
    (hinv : GInv X H sz fs U g) (file : Bytes) (v : Url.Values)
    (hfit : ∀ cfg n, dsnConfig (dsnOptsOf v) = .ok cfg → cfg.cacheSize = some n →
      ∀ bm, n.toUInt64.toNat + (sz bm).toNat + ovh < 2 ^ 64) :
    GInv X H sz fs U (gOpen X fs g file v).1 ∧
    refsOf (gOpen X fs g file v).1.w = (stepO (validK X fs) (refsOf g.w) ((keyOf file v).map .open)).1 ∧
    (gOpen X fs g file v).2.outcome = (stepO (validK X fs) (refsOf g.w) ((keyOf file v).map .open)).2 ∧
    ((gOpen X fs g file v).2 = .failed → (gOpen X fs g file v).1 = g) ∧
    ((gOpen X fs g file v).2 = .failed ∨
      ∃ k c, keyOf file v = some k ∧ (gOpen X fs g file v).2 = .conn c ∧ (gOpen X fs g file v).1.w.cache k = some c) := by
  cases hd : dsnConfig (dsnOptsOf v) with
  | ok cfg =>
    have hk : keyOf file v = some ⟨file, cfg.keyOpts⟩ := by simp [keyOf, hd]
    rw [hk]
    simp only [Option.map_some, stepO]
    cases hc : g.w.cache ⟨file, cfg.keyOpts⟩ with
    | some c =>
      have hp := hinv.conn.pos _ c hc
      have hr : refsOf g.w ⟨file, cfg.keyOpts⟩ > 0 := by simp only [refsOf, hc]; omega
      have hstep : stepG (validK X fs) (refsOf g.w) (.open ⟨file, cfg.keyOpts⟩) =
          (upd (refsOf g.w) ⟨file, cfg.keyOpts⟩ (refsOf g.w ⟨file, cfg.keyOpts⟩ + 1), .ok ()) := by
        simp only [stepG, hr, if_true]
      rw [gOpen_hit X fs g hinv.conn file v cfg hd c hc, hstep]
      refine ⟨?_, ?_, rfl, (fun h => by cases h), Or.inr ⟨_, c, rfl, rfl, hc⟩⟩
      · exact hinv.of_w X H sz fs _ (bump_connInv hinv.conn c _ (by omega)) (bump_handleInv hinv.handle c _)
          (fun k c' i h1 h2 => ⟨h1, by rw [bump_idx] at h2; exact h2⟩)
      · show refsOf (bump g.w c ((g.w.conns c).refs + 1)) = _
        rw [bump_refsOf hinv.conn _ c hc]
        congr 1
        simp only [refsOf, hc]
        omega
    | none =>
      have hr : ¬ refsOf g.w ⟨file, cfg.keyOpts⟩ > 0 := by simp [refsOf, hc]
      cases hv : genValid X fs file with
      | true =>
        have hv' : validK X fs ⟨file, cfg.keyOpts⟩ = true := hv
        have hstep : stepG (validK X fs) (refsOf g.w) (.open ⟨file, cfg.keyOpts⟩) =
            (upd (refsOf g.w) ⟨file, cfg.keyOpts⟩ 1, .ok ()) := by
          simp only [stepG, hr, if_false, hv', if_true]
        obtain ⟨content, hfs⟩ : ∃ content, fs file = some content := by
          unfold genValid at hv
          cases hf : fs file with
          | none => rw [hf] at hv; cases hv
          | some c => exact ⟨c, rfl⟩
        rw [gOpen_new X fs g hinv.conn file v cfg hd hc content hfs hv, hstep]
        refine ⟨record_inv X H sz fs hnil hblind hinv file cfg hc content hfs hv (fun n hn => hfit cfg n hd hn), ?_,
          rfl, (fun h => by cases h), Or.inr ⟨_, g.w.nextConn, rfl, rfl, ?_⟩⟩
        · exact addEntry_refsOf hinv.conn _ _
        · simp [GWorld.record, addEntry]
      | false =>
        have hv' : validK X fs ⟨file, cfg.keyOpts⟩ = false := hv
        have hstep : stepG (validK X fs) (refsOf g.w) (.open ⟨file, cfg.keyOpts⟩) = (refsOf g.w, .error) := by
          simp only [stepG, hr, if_false, hv', Bool.false_eq_true]
        rw [gOpen_fail X fs g hinv.conn file v cfg hd hc hv, hstep]
        exact ⟨hinv, rfl, rfl, fun _ => rfl, Or.inl rfl⟩
  | error =>
    have hk : keyOf file v = none := by simp [keyOf, hd]
    rw [hk, gOpen_bad X fs g file v hk]
    exact ⟨hinv, rfl, rfl, fun _ => rfl, Or.inl rfl⟩
  | panic =>
    have hk : keyOf file v = none := by simp [keyOf, hd]
    rw [hk, gOpen_bad X fs g file v hk]
    exact ⟨hinv, rfl, rfl, fun _ => rfl, Or.inl rfl⟩
  | hang =>
    have hk : keyOf file v = none := by simp [keyOf, hd]
    rw [hk, gOpen_bad X fs g file v hk]
    exact ⟨hinv, rfl, rfl, fun _ => rfl, Or.inl rfl⟩

/-! ### `Close` -/

theorem cached_of_held {w : Drv.World} {k : Drv.fileCacheKey} (h : refsOf w k > 0) : ∃ c, w.cache k = some c := by
  unfold refsOf at h
  cases hc : w.cache k with
  | none => rw [hc] at h; cases h
  | some c => exact ⟨c, rfl⟩

/-- **`Close`: one step of the composed driver is the model's `close` step**; the invariant is kept; and when the
    closed connection was the last one of its key, the cache entry is gone and the key's index handle — which was open
    on the key's file — is closed -/
theorem gClose_spec {U : List Expr} (g : GWorld) (hinv : GInv X H sz fs U g) (file : Bytes) (v : Url.Values)
    (k : Drv.fileCacheKey) (hk : keyOf file v = some k) (hheld : refsOf g.w k > 0) :
    GInv X H sz fs U (gClose g file v).1 ∧
    refsOf (gClose g file v).1.w = (stepG (validK X fs) (refsOf g.w) (.close k)).1 ∧
    (gClose g file v).2 = .closed ∧
    (refsOf g.w k = 1 → (gClose g file v).1.w.cache k = none ∧
      ∃ c i, g.w.cache k = some c ∧ (g.w.conns c).idx = some i ∧ g.w.openIdx i = some k.file ∧
        (gClose g file v).1.w.openIdx i = none ∧
        ∀ j, j ≠ i → (gClose g file v).1.w.openIdx j = g.w.openIdx j) ∧
    (refsOf g.w k ≠ 1 → (gClose g file v).1.w.openIdx = g.w.openIdx ∧ (gClose g file v).1.w.cache = g.w.cache) ∧
    (gClose g file v).1.w.nextIdx = g.w.nextIdx := by
  obtain ⟨c, hc⟩ := cached_of_held hheld
  have hp := hinv.conn.pos k c hc
  have hkey := hinv.conn.key k c hc
  have hrefs : refsOf g.w k = (g.w.conns c).refs.toNat := by simp only [refsOf, hc]
  simp only [stepG]
  by_cases h1 : (g.w.conns c).refs = 1
  · obtain ⟨i, hi, hlt, hoi⟩ := hinv.handle.owns k c hc
    have hr : Gen.connClose g.w c = (none, dropEntry g.w k c i) :=
      connClose_last g.w hinv.conn.idle hinv.conn.clean k c i hc hkey h1 hi
    have hg : gClose g file v = ({ g with w := dropEntry g.w k c i }, .closed) := by
      unfold gClose
      simp [hk, hc, hr]
    have hne : ∀ k' c', k' ≠ k → g.w.cache k' = some c' → c' ≠ c :=
      fun k' c' hk' h1' heq => hk' (hinv.conn.inj (heq ▸ h1') hc)
    rw [hg]
    refine ⟨?_, ?_, rfl, ?_, ?_, rfl⟩
    · refine hinv.of_w X H sz fs _ (dropEntry_connInv hinv.conn k c i hc) (dropEntry_handleInv hinv.conn hinv.handle k c i hc hi) ?_
      intro k' c' i' h1' h2'
      by_cases hk' : k' = k
      · simp [dropEntry, hk'] at h1'
      · have h1'' : g.w.cache k' = some c' := by simpa [dropEntry, hk'] using h1'
        exact ⟨h1'', by simpa [dropEntry, hne k' c' hk' h1''] using h2'⟩
    · show refsOf (dropEntry g.w k c i) = _
      rw [dropEntry_refsOf hinv.conn k c i hc, hrefs, h1]
      rfl
    · intro _
      exact ⟨by simp [dropEntry], c, i, hc, hi, hoi, by simp [dropEntry], fun j hj => by simp [dropEntry, hj]⟩
    · intro hne1
      rw [hrefs, h1] at hne1
      exact absurd rfl hne1
  · have h2 : 2 ≤ (g.w.conns c).refs := by omega
    have hr : Gen.connClose g.w c = (none, bump g.w c ((g.w.conns c).refs - 1)) :=
      connClose_notlast g.w hinv.conn.idle hinv.conn.clean c h2
    have hg : gClose g file v = ({ g with w := bump g.w c ((g.w.conns c).refs - 1) }, .closed) := by
      unfold gClose
      simp [hk, hc, hr]
    rw [hg]
    refine ⟨?_, ?_, rfl, ?_, fun _ => ⟨rfl, rfl⟩, rfl⟩
    · exact hinv.of_w X H sz fs _ (bump_connInv hinv.conn c _ (by omega)) (bump_handleInv hinv.handle c _)
        (fun k c' i h1 h2 => ⟨h1, by rw [bump_idx] at h2; exact h2⟩)
    · show refsOf (bump g.w c ((g.w.conns c).refs - 1)) = _
      rw [bump_refsOf hinv.conn _ c hc, hrefs]
      congr 1
      omega
    · intro h
      rw [hrefs] at h
      omega

/-! ### `Query` -/

/-- **a statement on an open connection**: the driver's world is untouched (only the handle's LRU moves), the
    invariant is kept, the call returns (rows or an error, never a nil dereference), and on a file that holds the
    written `rows` a statement that parses, binds and meets the collision hypotheses of C01 / C02 returns exactly the
    SQL rows of THAT file — through `nullCache` or the handle's generated LRU, whichever the DSN configured -/
theorem gQuery_spec {U : List Expr} (hU : SubClosed U)
    (hkeyU : ∀ f rows, GoodFile X H fs f rows → KeyOK H (Writer.addRows H {} rows).toIndex U)
    (g : GWorld) (hinv : GInv X H sz fs U g) (file : Bytes) (v : Url.Values) (text : Bytes) (values : List Bytes)
    (k : Drv.fileCacheKey) (hk : keyOf file v = some k) (hheld : refsOf g.w k > 0)
    (hinU : ∀ pq q', Gen.ParseQuery (3 * text.length + 5) text = .ok pq → bind pq values = .ok q' → toExpr q'.expr ∈ U) :
    GInv X H sz fs U (gQuery X H sz g file v text values).1 ∧
    (gQuery X H sz g file v text values).1.w = g.w ∧
    (∃ r, (gQuery X H sz g file v text values).2 = .rows r) ∧
    (∀ rows pq q', GoodFile X H fs file rows → Gen.ParseQuery (3 * text.length + 5) text = .ok pq →
      bind pq values = .ok q' → EndToEnd.QueryOK H rows (toQuery q') → DataNoCollision H rows →
      ∃ r, sqlRows rows q' = some r ∧ (gQuery X H sz g file v text values).2 = .rows (.ok r)) := by
  obtain ⟨c, hc⟩ := cached_of_held hheld
  obtain ⟨i, hi, hlt, hoi⟩ := hinv.handle.owns k c hc
  have hfile := keyOf_file hk
  obtain ⟨o, ho⟩ : ∃ o, g.opened i = some o := by
    have := hinv.live k c i hc hi
    cases h : g.opened i with
    | none => rw [h] at this; cases this
    | some o => exact ⟨o, rfl⟩
  cases hparse : Gen.ParseQuery (3 * text.length + 5) text with
  | error e =>
    have hg : gQuery X H sz g file v text values = (g, .rows .error) := by
      unfold gQuery
      simp [hk, hc, hi, ho, hparse]
    rw [hg]
    exact ⟨hinv, rfl, ⟨_, rfl⟩, fun rows pq q' _ h => by cases h⟩
  | ok pq =>
    cases hcs : (g.cfg i).cacheSize with
    | none =>
      have hg : gQuery X H sz g file v text values =
          (g, .rows ((toOutcome (Gen.stmtQuery (genLibExecute H nullCacheImpl X o.bolt o.hp o.idx ()) ⟨pq⟩ values)).map
            GenCompose.rowsView)) := by
        unfold gQuery
        simp [hk, hc, hi, ho, hparse, hcs]
      rw [hg]
      refine ⟨hinv, rfl, ⟨_, rfl⟩, ?_⟩
      intro rows pq' q' hgood hp' hb ok hD
      cases hp'
      have hgood' : GoodFile X H fs k.file rows := by rw [hfile]; exact hgood
      obtain ⟨⟨bolt, hp, j, vals, d, next, hop, hw, hgr⟩, _⟩ := hinv.sem k c i hc hi rows hgood'
      obtain ⟨_, _, _, _, _, _, _, hlen⟩ := hgood
      rw [ho] at hop
      cases hop
      obtain ⟨r, hr1, hr2⟩ := stmtQuery_sql H nullCacheImpl X rows bolt hp j d next vals hw hgr hlen () text _ (Nat.le_refl _)
        pq hparse values q' hb (evalC_null H _ _) (executeC_null H _ _) ok hD
      exact ⟨r, hr1, by rw [hr2]⟩
    | some n =>
      have hg : gQuery X H sz g file v text values =
          ({ g with lru := upd g.lru i (lruAfter X H sz o pq values (g.lru i)) },
           .rows ((toOutcome (Gen.stmtQuery (genLibExecute H (genLruImpl sz) X o.bolt o.hp o.idx (g.lru i)) ⟨pq⟩
             values)).map GenCompose.rowsView)) := by
        unfold gQuery
        simp [hk, hc, hi, ho, hparse, hcs]
      rw [hg]
      refine ⟨⟨hinv.conn, hinv.handle, hinv.live, ?_⟩, rfl, ⟨_, rfl⟩, ?_⟩
      · intro k' c' i' h1 h2 rows hgood
        have hold := hinv.sem k' c' i' h1 h2 rows hgood
        by_cases hii : i' = i
        · subst hii
          obtain ⟨⟨bolt, hp, j, vals, d, next, hop, hw, hgr⟩, hcache⟩ := hold
          refine ⟨⟨bolt, hp, j, vals, d, next, hop, hw, hgr⟩, ?_⟩
          intro n' hn'
          obtain ⟨m, hrel, hst⟩ := hcache n' hn'
          simp only [upd_same]
          rw [ho] at hop
          cases hop
          obtain ⟨_, _, _, _, _, _, _, hlen⟩ := hgood
          unfold lruAfter
          cases hb : bind pq values with
          | ok q' =>
            exact genLruExecute_state H X rows bolt hp j d next vals hw hgr hlen sz n'.toUInt64 hU
              (hkeyU k'.file rows ⟨_, _, _, ‹_›, ‹_›, ‹_›, ‹_›, hlen⟩) (g.lru i') m hrel hst _ _
              (libComplete_ToQuery_toWire q') (hinU pq q' hparse hb) []
          | error => exact ⟨m, hrel, hst⟩
          | panic => exact ⟨m, hrel, hst⟩
          | hang => exact ⟨m, hrel, hst⟩
        · exact hold.congr X H sz rfl rfl (upd_other _ _ _ _ hii)
      · intro rows pq' q' hgood hp' hb ok hD
        cases hp'
        have hgood' : GoodFile X H fs k.file rows := by rw [hfile]; exact hgood
        obtain ⟨⟨bolt, hp, j, vals, d, next, hop, hw, hgr⟩, hcache⟩ := hinv.sem k c i hc hi rows hgood'
        obtain ⟨m, hrel, hst⟩ := hcache n hcs
        have hkey := hkeyU k.file rows hgood'
        obtain ⟨_, _, _, _, _, _, _, hlen⟩ := hgood
        rw [ho] at hop
        cases hop
        obtain ⟨r, hr1, hr2⟩ := genLru_stmtQuery_sql H X rows bolt hp j d next vals hw hgr hlen sz n.toUInt64 hU hkey
          (g.lru i) m hrel hst text _ (Nat.le_refl _) pq hparse values q' hb (hinU pq q' hparse hb) ok hD
        exact ⟨r, hr1, by rw [hr2]⟩

/-! ### histories -/

/-- the handle discipline `database/sql` guarantees, stated on the reference counts (which are the numbers of
    connections the client holds): a connection is queried or closed only while the client holds one for that DSN.
    `Open` is always allowed — also of a missing or invalid file, also with unparsable options. -/
def DOp.allowed (refs : Drv.fileCacheKey → Nat) : DOp → Prop
  | .open _ _ => True
  | .query file v _ _ => ∃ k, keyOf file v = some k ∧ refs k > 0
  | .close file v => ∃ k, keyOf file v = some k ∧ refs k > 0

/-- a history respects the discipline; the counts evolve by the model's steps (a failed `Open` yields no connection) -/
def Disciplined (valid : Drv.fileCacheKey → Bool) : (Drv.fileCacheKey → Nat) → List DOp → Prop
  | _, [] => True
  | refs, op :: ops => op.allowed refs ∧ Disciplined valid (stepO valid refs op.abs).1 ops

/-- side conditions of the operations: the LRU size of a DSN leaves room for every bitmap in the 64-bit account; the
    bound expression of a statement lies in the universe `U` on which cache keys separate meanings -/
def DOp.ok (U : List Expr) : DOp → Prop
  | .open _ v => ∀ cfg n, dsnConfig (dsnOptsOf v) = .ok cfg → cfg.cacheSize = some n →
      ∀ bm, n.toUInt64.toNat + (sz bm).toNat + ovh < 2 ^ 64
  | .query _ _ text values => ∀ pq q', Gen.ParseQuery (3 * text.length + 5) text = .ok pq →
      bind pq values = .ok q' → toExpr q'.expr ∈ U
  | .close _ _ => True

/-- the standing hypotheses of the composed driver -/
structure Setting (U : List Expr) : Prop where
  hnil : X.roaringFromBuffer [] = none
  blind : OptionBlind X fs
  closed : SubClosed U
  keys : ∀ f rows, GoodFile X H fs f rows → KeyOK H (Writer.addRows H {} rows).toIndex U

/-- **one step of the composed driver = one step of the reference-count model**, for every operation -/
theorem gstep_spec {U : List Expr} (S : Setting X H fs U) (g : GWorld) (hinv : GInv X H sz fs U g) (op : DOp)
    (hall : op.allowed (refsOf g.w)) (hok : op.ok sz U) :
    GInv X H sz fs U (gstep X H sz fs g op).1 ∧
    refsOf (gstep X H sz fs g op).1.w = (stepO (validK X fs) (refsOf g.w) op.abs).1 ∧
    (gstep X H sz fs g op).2.outcome = (stepO (validK X fs) (refsOf g.w) op.abs).2 := by
  cases op with
  | «open» file v =>
    obtain ⟨h1, h2, h3, _⟩ := gOpen_spec X H sz fs S.hnil S.blind g hinv file v hok
    exact ⟨h1, h2, h3⟩
  | query file v text values =>
    obtain ⟨k, hk, hheld⟩ := hall
    obtain ⟨h1, h2, ⟨r, h3⟩, _⟩ := gQuery_spec X H sz fs S.closed S.keys g hinv file v text values k hk hheld hok
    refine ⟨h1, ?_, ?_⟩
    · show refsOf (gQuery X H sz g file v text values).1.w = _
      rw [h2]
      simp only [DOp.abs, hk, Option.map_some, stepO, stepG, hheld, if_true]
    · show (gQuery X H sz g file v text values).2.outcome = _
      rw [h3]
      simp only [DOp.abs, hk, Option.map_some, stepO, stepG, hheld, if_true, DRes.outcome]
  | close file v =>
    obtain ⟨k, hk, hheld⟩ := hall
    obtain ⟨h1, h2, h3, _⟩ := gClose_spec X H sz fs g hinv file v k hk hheld
    refine ⟨h1, ?_, ?_⟩
    · show refsOf (gClose g file v).1.w = _
      rw [h2]
      simp only [DOp.abs, hk, Option.map_some, stepO]
    · show (gClose g file v).2.outcome = _
      rw [h3]
      simp only [DOp.abs, hk, Option.map_some, stepO, stepG, DRes.outcome]

/-- **every history of the composed driver refines the model's run**: the invariant holds at the end, the reference
    counts are the model's, and so are the outcomes (ok / error; never panic or hang) -/
theorem grun_sim {U : List Expr} (S : Setting X H fs U) (ops : List DOp) (g : GWorld) (hinv : GInv X H sz fs U g)
    (hdisc : Disciplined (validK X fs) (refsOf g.w) ops) (hok : ∀ op ∈ ops, op.ok sz U) :
    GInv X H sz fs U (grun X H sz fs g ops).1 ∧
    refsOf (grun X H sz fs g ops).1.w = (runO (validK X fs) (refsOf g.w) (ops.map DOp.abs)).1 ∧
    (grun X H sz fs g ops).2.map DRes.outcome = (runO (validK X fs) (refsOf g.w) (ops.map DOp.abs)).2 := by
  induction ops generalizing g with
  | nil => exact ⟨hinv, rfl, rfl⟩
  | cons op ops ih =>
    obtain ⟨hall, hrest⟩ := hdisc
    obtain ⟨h1, h2, h3⟩ := gstep_spec X H sz fs S g hinv op hall (hok op List.mem_cons_self)
    rw [← h2] at hrest
    obtain ⟨i1, i2, i3⟩ := ih _ h1 hrest (fun o ho => hok o (List.mem_cons_of_mem _ ho))
    simp only [grun, List.map_cons, runO]
    rw [← h2, ← h3]
    exact ⟨i1, i2, by rw [i3]⟩

theorem grun_append (g : GWorld) (a b : List DOp) :
    grun X H sz fs g (a ++ b) =
      ((grun X H sz fs (grun X H sz fs g a).1 b).1, (grun X H sz fs g a).2 ++ (grun X H sz fs (grun X H sz fs g a).1 b).2) := by
  induction a generalizing g with
  | nil => rfl
  | cons op a ih => simp only [List.cons_append, grun, ih]

theorem grun_length (g : GWorld) (ops : List DOp) : (grun X H sz fs g ops).2.length = ops.length := by
  induction ops generalizing g with
  | nil => rfl
  | cons op ops ih => simp only [grun, List.length_cons, ih]

theorem disciplined_append (valid : Drv.fileCacheKey → Bool) (refs : Drv.fileCacheKey → Nat) (a b : List DOp) :
    Disciplined valid refs (a ++ b) ↔
      Disciplined valid refs a ∧ Disciplined valid (runO valid refs (a.map DOp.abs)).1 b := by
  induction a generalizing refs with
  | nil => simp [Disciplined, runO]
  | cons op a ih => simp only [List.cons_append, Disciplined, List.map_cons, runO, ih, and_assoc]

/-- the state before the operation at position `pre.length` of a disciplined history: the invariant holds, the
    operation is allowed there, and its result is the result of that single step -/
theorem grun_at {U : List Expr} (S : Setting X H fs U) (pre : List DOp) (op : DOp) (post : List DOp) (g : GWorld)
    (hinv : GInv X H sz fs U g) (hdisc : Disciplined (validK X fs) (refsOf g.w) (pre ++ op :: post))
    (hok : ∀ o ∈ pre ++ op :: post, o.ok sz U) :
    GInv X H sz fs U (grun X H sz fs g pre).1 ∧ op.allowed (refsOf (grun X H sz fs g pre).1.w) ∧
    (grun X H sz fs g (pre ++ op :: post)).2[pre.length]? = some (gstep X H sz fs (grun X H sz fs g pre).1 op).2 := by
  rw [disciplined_append] at hdisc
  obtain ⟨hd1, hd2⟩ := hdisc
  obtain ⟨h1, h2, _⟩ := grun_sim X H sz fs S pre g hinv hd1 (fun o ho => hok o (List.mem_append_left _ ho))
  rw [← h2] at hd2
  refine ⟨h1, hd2.1, ?_⟩
  rw [grun_append]
  simp only [grun]
  rw [List.getElem?_append_right (by rw [grun_length]; exact Nat.le_refl _), grun_length, Nat.sub_self]
  rfl

/-- **a failed `Open` is a no-op on the whole composed state**: the rest of the history runs as if it had not happened -/
theorem grun_failed_open (g : GWorld) (file : Bytes) (v : Url.Values) (ops : List DOp)
    (hfail : (gOpen X fs g file v).2 = .failed) (hsame : (gOpen X fs g file v).1 = g) :
    grun X H sz fs g (.open file v :: ops) = ((grun X H sz fs g ops).1, .failed :: (grun X H sz fs g ops).2) := by
  simp only [grun, gstep, hfail, hsame]

/-! ### no handle without a held connection: the file lock -/

/-- the handles open on file `f`, as flock holders of `Model/OpenLock.lean` (all shared: read-only opens) -/
def holders (w : Drv.World) (f : Bytes) : List Holder :=
  ((List.range w.nextIdx).filter fun i => w.openIdx i == some f).map fun i => ⟨i, 0, .shared⟩

theorem holders_eq_nil_iff {w : Drv.World} (hc : ConnInv w) (hh : HandleInv w) (f : Bytes) :
    holders w f = [] ↔ ∀ k : Drv.fileCacheKey, k.file = f → refsOf w k = 0 := by
  constructor
  · intro hnil k hkf
    unfold refsOf
    cases hck : w.cache k with
    | none => rfl
    | some c =>
      exfalso
      obtain ⟨i, _, hlt, hoi⟩ := hh.owns k c hck
      have : (⟨i, 0, .shared⟩ : Holder) ∈ holders w f := by
        unfold holders
        refine List.mem_map.2 ⟨i, List.mem_filter.2 ⟨List.mem_range.2 hlt, ?_⟩, rfl⟩
        rw [hoi, hkf]; simp
      rw [hnil] at this
      cases this
  · intro hall
    unfold holders
    rw [List.map_eq_nil_iff, List.filter_eq_nil_iff]
    intro i _ hi
    have hoi : w.openIdx i = some f := by simpa using hi
    obtain ⟨k, c, hck, _, hkf⟩ := hh.noleak i f hoi
    have := hall k hkf
    have hp := hc.pos k c hck
    simp only [refsOf, hck] at this
    omega

theorem holders_shared (w : Drv.World) (f : Bytes) : compatible .shared (holders w f) = true := by
  simp [compatible, holders]

/-- closing handle `i` is `release` of Model/OpenLock.lean on the holders of every file -/
theorem holders_release (w w' : Drv.World) (i : Nat) (hn : w'.nextIdx = w.nextIdx) (hi : w'.openIdx i = none)
    (ho : ∀ j, j ≠ i → w'.openIdx j = w.openIdx j) (f : Bytes) : holders w' f = release (holders w f) i := by
  unfold holders release
  rw [hn, List.filter_map, List.filter_filter]
  congr 1
  apply List.filter_congr
  intro j _
  by_cases hj : j = i
  · subst hj; simp [hi]
  · simp [ho j hj, hj]

/-- opening a new handle on `file` is `acquire` (a shared holder appended) on the holders of that file, and nothing on
    the holders of other files -/
theorem holders_addEntry (w : Drv.World) (hno : ∀ j, w.nextIdx ≤ j → w.openIdx j = none) (key : Drv.fileCacheKey)
    (file f : Bytes) :
    holders (addEntry w key file) f =
      if f = file then holders w f ++ [⟨w.nextIdx, 0, .shared⟩] else holders w f := by
  unfold holders
  have hold : ∀ j ∈ List.range w.nextIdx,
      ((addEntry w key file).openIdx j == some f) = (w.openIdx j == some f) := by
    intro j hj
    have : j ≠ w.nextIdx := Nat.ne_of_lt (List.mem_range.1 hj)
    simp [addEntry, this]
  show (((List.range (w.nextIdx + 1)).filter _).map _) = _
  rw [List.range_succ, List.filter_append, List.filter_congr hold, List.map_append]
  by_cases hf : f = file
  · subst hf; simp [addEntry]
  · have : (some file == some f) = false := by simpa using fun e : file = f => hf e.symm
    simp [addEntry, hf, this]

/-- a disciplined step never panics or hangs in the model -/
theorem stepO_ok_or_error (valid : Drv.fileCacheKey → Bool) (refs : Drv.fileCacheKey → Nat) (op : DOp)
    (hall : op.allowed refs) :
    (stepO valid refs op.abs).2 = .ok () ∨ (stepO valid refs op.abs).2 = .error := by
  cases op with
  | «open» file v =>
    simp only [DOp.abs]
    cases keyOf file v with
    | none => exact Or.inr rfl
    | some k =>
      simp only [Option.map_some, stepO, stepG]
      by_cases h1 : refs k > 0
      · simp [h1]
      · by_cases h2 : valid k = true <;> simp [h1, h2]
  | query file v text values =>
    obtain ⟨k, hk, hheld⟩ := hall
    simp [DOp.abs, hk, stepO, stepG, hheld]
  | close file v =>
    obtain ⟨k, hk, hheld⟩ := hall
    simp [DOp.abs, hk, stepO, stepG]

theorem runO_ok_or_error (valid : Drv.fileCacheKey → Bool) (ops : List DOp) (refs : Drv.fileCacheKey → Nat)
    (hdisc : Disciplined valid refs ops) :
    ∀ o ∈ (runO valid refs (ops.map DOp.abs)).2, o = .ok () ∨ o = .error := by
  induction ops generalizing refs with
  | nil => intro o ho; cases ho
  | cons op ops ih =>
    intro o ho
    simp only [List.map_cons, runO, List.mem_cons] at ho
    rcases ho with rfl | ho
    · exact stepO_ok_or_error valid refs op hdisc.1
    · exact ih _ hdisc.2 o ho

/-- **`Open` and the flock holders**: an `Open` that creates the entry of its key appends one shared holder (the new
    handle) to the holders of its file — `LockState.acquire` of Model/OpenLock.lean — and every other `Open` (shared
    connection, failure) leaves the holders of every file alone -/
theorem gOpen_holders {U : List Expr} (g : GWorld) (hinv : GInv X H sz fs U g) (file : Bytes) (v : Url.Values) (f : Bytes) :
    holders (gOpen X fs g file v).1.w f =
      match keyOf file v with
      | some k =>
        if refsOf g.w k = 0 ∧ genValid X fs file = true ∧ f = file then
          holders g.w f ++ [⟨g.w.nextIdx, 0, .shared⟩]
        else holders g.w f
      | none => holders g.w f := by
  cases hd : dsnConfig (dsnOptsOf v) with
  | ok cfg =>
    have hk : keyOf file v = some ⟨file, cfg.keyOpts⟩ := by simp [keyOf, hd]
    rw [hk]
    simp only
    cases hc : g.w.cache ⟨file, cfg.keyOpts⟩ with
    | some c =>
      have hp := hinv.conn.pos _ c hc
      have hr : ¬ refsOf g.w ⟨file, cfg.keyOpts⟩ = 0 := by simp only [refsOf, hc]; omega
      rw [gOpen_hit X fs g hinv.conn file v cfg hd c hc, if_neg (fun h => hr h.1)]
      rfl
    | none =>
      have hr : refsOf g.w ⟨file, cfg.keyOpts⟩ = 0 := by simp [refsOf, hc]
      cases hv : genValid X fs file with
      | true =>
        obtain ⟨content, hfs⟩ : ∃ content, fs file = some content := by
          unfold genValid at hv
          cases hf : fs file with
          | none => rw [hf] at hv; cases hv
          | some c => exact ⟨c, rfl⟩
        rw [gOpen_new X fs g hinv.conn file v cfg hd hc content hfs hv]
        have hno : ∀ j, g.w.nextIdx ≤ j → g.w.openIdx j = none := by
          intro j hj
          cases ho : g.w.openIdx j with
          | none => rfl
          | some f' => exact absurd (HandleInv.lt hinv.conn hinv.handle ho) (Nat.not_lt.2 hj)
        show holders (addEntry g.w ⟨file, cfg.keyOpts⟩ file) f = _
        rw [holders_addEntry g.w hno]
        by_cases hf : f = file
        · simp [hf, hr]
        · simp [hf]
      | false =>
        rw [gOpen_fail X fs g hinv.conn file v cfg hd hc hv]
        simp
  | error =>
    have hk : keyOf file v = none := by simp [keyOf, hd]
    rw [hk, gOpen_bad X fs g file v hk]
  | panic =>
    have hk : keyOf file v = none := by simp [keyOf, hd]
    rw [hk, gOpen_bad X fs g file v hk]
  | hang =>
    have hk : keyOf file v = none := by simp [keyOf, hd]
    rw [hk, gOpen_bad X fs g file v hk]

/-! ### files that are complete indexes or no indexes at all are option-blind -/

theorem genOpens_good (hnil : X.roaringFromBuffer [] = none) (f : Bytes) (rows : List Row) (c : Buckets)
    (hfs : fs f = some c) (hgood : GoodFile X H fs f rows) (i : Nat) (preload : Bool) : genOpens X i c preload = true := by
  obtain ⟨c', d, next, hfs', hb, hs, hw, hlen⟩ := hgood
  rw [hfs] at hfs'; cases hfs'
  obtain ⟨n', hp', vals, hopen, _⟩ := open_ok X i 0 c [] ({} : Heap) d _ next (hw.fileOK hb) hnil
    preload (fun _ => hs) (fun _ => hw.vDecodable hs)
  simp only [genOpens, genOpen, hopen]
  rfl

theorem genOpens_headerless (c : Buckets) (hbad : headerOK X c = false) (i : Nat) (preload : Bool) :
    genOpens X i c preload = false := by
  have := (C15.generated_validation_failure_closes X i 0 c [] ({} : Heap) (openOpts X preload) hbad).1
  simp only [genOpens, genOpen, this]
  rfl

/-- if every file is a complete index written by the writer or fails the header validation, the generated open is
    option-blind (and a complete index is valid) -/
theorem optionBlind_of_files (hnil : X.roaringFromBuffer [] = none)
    (hclass : ∀ f c, fs f = some c → (∃ rows, GoodFile X H fs f rows) ∨ headerOK X c = false) : OptionBlind X fs := by
  intro f c hfs i preload
  rcases hclass f c hfs with ⟨rows, hgood⟩ | hbad
  · rw [genOpens_good X H fs hnil f rows c hfs hgood, genOpens_good X H fs hnil f rows c hfs hgood]
  · rw [genOpens_headerless X c hbad, genOpens_headerless X c hbad]

theorem genValid_good (hnil : X.roaringFromBuffer [] = none) (f : Bytes) (rows : List Row)
    (hgood : GoodFile X H fs f rows) : genValid X fs f = true := by
  obtain ⟨c, d, next, hfs, hb, hs, hw, hlen⟩ := hgood
  unfold genValid
  rw [hfs]
  exact genOpens_good X H fs hnil f rows c hfs ⟨c, d, next, hfs, hb, hs, hw, hlen⟩ 0 false

/-- a file holds at most one index: two row lists it is a `GoodFile` for have the same model index -/
theorem goodFile_toIndex_eq (f : Bytes) (rows rows' : List Row) (h : GoodFile X H fs f rows)
    (h' : GoodFile X H fs f rows') : (Writer.addRows H {} rows).toIndex = (Writer.addRows H {} rows').toIndex := by
  obtain ⟨c, d, next, hfs, hb, _, hw, _⟩ := h
  obtain ⟨c', d', next', hfs', hb', _, hw', _⟩ := h'
  rw [hfs] at hfs'; cases hfs'
  rw [hb] at hb'; cases hb'
  obtain ⟨sb, hs1, hs2⟩ := hw.schema
  obtain ⟨sb', hs1', hs2'⟩ := hw'.schema
  rw [hs1] at hs1'; cases hs1'
  rw [hs2] at hs2'
  obtain ⟨cb, hc1, _, hc3⟩ := hw.counter
  obtain ⟨cb', hc1', _, hc3'⟩ := hw'.counter
  rw [hc1] at hc1'; cases hc1'
  have hsch : (Writer.addRows H {} rows).schema = (Writer.addRows H {} rows').schema := Option.some.inj hs2'
  rw [← hw.fileIndex_eq, ← hw'.fileIndex_eq, ← hc3, ← hc3', hsch]

/-! ### the literal `Drv.run` of Model/Driver.lean -/

/-- the model's key (two numbers) of a driver key, along an encoding of strings -/
def encK (enc : Bytes → Nat) (k : Drv.fileCacheKey) : DKey := ⟨enc k.file, enc k.opts⟩

theorem encK_inj (enc : Bytes → Nat) (hinj : Function.Injective enc) : Function.Injective (encK enc) := by
  intro a b h
  obtain ⟨af, ao⟩ := a
  obtain ⟨bf, bo⟩ := b
  simp only [encK, DKey.mk.injEq] at h
  rw [hinj h.1, hinj h.2]

/-- the history as the model's `DrvOp`s: operations whose DSN has no key are dropped (they do nothing) -/
def modelOps (enc : Bytes → Nat) (ops : List DOp) : List DrvOp :=
  (((ops.map DOp.abs).filterMap id).map (KOp.map (encK enc))).map KOp.toDrv

/-- **the composed driver refines `Drv.run`**: for every disciplined history from the unused driver, the model run of
    the corresponding `DrvOp`s (keys encoded as numbers by any injective `enc`, `valid` = the generated open succeeds)
    has the driver's reference counts and the outcomes of the keyed operations -/
theorem grun_refines_Drv_run {U : List Expr} (S : Setting X H fs U) (enc : Bytes → Nat) (hinj : Function.Injective enc)
    (valid' : Nat → Bool) (hv : ∀ f, valid' (enc f) = genValid X fs f) (ops : List DOp)
    (hdisc : Disciplined (validK X fs) (fun _ => 0) ops) (hok : ∀ op ∈ ops, op.ok sz U) :
    (∀ k, (Drv.run valid' Drv.empty (modelOps enc ops)).1.refs (encK enc k) = refsOf (grun X H sz fs g0 ops).1.w k) ∧
    (Drv.run valid' Drv.empty (modelOps enc ops)).2 =
      keyed (ops.map DOp.abs) ((grun X H sz fs g0 ops).2.map DRes.outcome) := by
  have hr0 : refsOf g0.w = fun _ => 0 := by funext k; rfl
  obtain ⟨_, h2, h3⟩ := grun_sim X H sz fs S ops g0 (g0_inv X H sz fs U) (by rw [hr0]; exact hdisc) hok
  rw [hr0] at h2 h3
  obtain ⟨f1, f2⟩ := runO_filterMap (validK X fs) (ops.map DOp.abs) (fun _ => 0)
  obtain ⟨r1, r2⟩ := runG_rekey (encK enc) (encK_inj enc hinj) (validK X fs) (fun k : DKey => valid' k.file)
    (fun k => hv k.file) ((ops.map DOp.abs).filterMap id) (fun _ => 0) Drv.empty.refs (fun _ => rfl)
  unfold modelOps
  rw [Drv_run_generic]
  refine ⟨?_, ?_⟩
  · intro k
    show (runG _ _ _).1 (encK enc k) = _
    rw [r1 k, ← f1, ← h2]
  · show (runG _ _ _).2 = _
    rw [r2, ← f2, ← h3]

end world

end Updog.GenConn
