import Updog.Proofs.Bits
import Updog.Spec.Sat
namespace Updog

/-! ### assoc-list lemmas -/

theorem ValMap.get_addBit (m : ValMap) (h h' : UInt64) (i : Nat) :
    ((m.addBit h i).get h').getD 0 = if h' = h then setBit ((m.get h).getD 0) i else (m.get h').getD 0 := by
  induction m with
  | nil =>
    by_cases hh : h' = h
    · subst hh; simp [ValMap.addBit, ValMap.get]
    · have : ¬ h = h' := fun e => hh e.symm
      simp [ValMap.addBit, ValMap.get, hh, this]
  | cons kb rest ih =>
    obtain ⟨k, b⟩ := kb
    by_cases hk : k = h
    · subst hk
      by_cases hh : h' = k
      · subst hh; simp [ValMap.addBit, ValMap.get]
      · have : ¬ k = h' := fun e => hh e.symm
        simp [ValMap.addBit, ValMap.get, hh, this]
    · by_cases hh : h' = h
      · subst hh
        simp [ValMap.addBit, ValMap.get, hk, ih]
      · by_cases hk' : k = h'
        · subst hk'; simp [ValMap.addBit, ValMap.get, hk]
        · simp [ValMap.addBit, ValMap.get, hk, hk', ih, hh]

theorem Schema.col_add (s : Schema) (k v : Bytes) (h : UInt64) (c : Bytes) :
    (s.add k v h).col c = if c = k then some (addVal ((s.col k).getD []) v h) else s.col c := by
  induction s with
  | nil =>
    by_cases hc : c = k
    · subst hc; simp [Schema.add, Schema.col, addVal]
    · have : ¬ k = c := fun e => hc e.symm
      simp [Schema.add, Schema.col, hc, this]
  | cons kv rest ih =>
    obtain ⟨k', vs⟩ := kv
    by_cases hk : k' = k
    · subst hk
      by_cases hc : c = k'
      · subst hc; simp [Schema.add, Schema.col]
      · have : ¬ k' = c := fun e => hc e.symm
        simp [Schema.add, Schema.col, hc, this]
    · by_cases hc : c = k
      · subst hc
        simp [Schema.add, Schema.col, hk, ih]
      · by_cases hk' : k' = c
        · subst hk'; simp [Schema.add, Schema.col, hk]
        · simp [Schema.add, Schema.col, hk, hk', ih, hc]

section
variable (H : Bytes → UInt64)

def hashOf (kv : Bytes × Bytes) : UInt64 := H (encodePair kv.1 kv.2)

/-- row `i` was added with some pair hashing to `h` -/
def rowHas (rows : List Row) (h : UInt64) (i : Nat) : Bool :=
  match rows[i]? with
  | none => false
  | some r => r.any fun kv => hashOf H kv == h

/-! ### bitmaps written by the writer -/

theorem addPair_fold_next (k : Nat) (r : Row) (w : Writer) : (r.foldl (Writer.addPair H k) w).next = w.next := by
  induction r generalizing w with
  | nil => rfl
  | cons kv r ih => simp [List.foldl, ih, Writer.addPair]

theorem addPair_fold_vals (k : Nat) (r : Row) (w : Writer) (h : UInt64) (j : Nat) :
    (((r.foldl (Writer.addPair H k) w).vals.get h).getD 0).testBit j
      = (((w.vals.get h).getD 0).testBit j || (decide (k = j) && r.any fun kv => hashOf H kv == h)) := by
  induction r generalizing w with
  | nil => simp
  | cons kv r ih =>
    rw [List.foldl, ih]
    simp only [Writer.addPair, ValMap.get_addBit, List.any_cons]
    have e : hashOf H kv = H (encodePair kv.1 kv.2) := rfl
    rw [e]
    generalize H (encodePair kv.1 kv.2) = x
    generalize (r.any fun kv => hashOf H kv == h) = R
    by_cases hh : h = x
    · subst hh
      simp only [if_true, testBit_setBit, beq_self_eq_true, Bool.true_or]
      cases ((w.vals.get h).getD 0).testBit j <;> cases decide (k = j) <;> simp
    · have : (x == h) = false := by simpa using fun e => hh e.symm
      simp [hh, this]

structure WInv (w : Writer) (rows : List Row) : Prop where
  next : w.next = rows.length
  vals : ∀ h j, ((w.vals.get h).getD 0).testBit j = rowHas H rows h j

theorem rowHas_append (rows : List Row) (r : Row) (h : UInt64) (j : Nat) :
    rowHas H (rows ++ [r]) h j = (rowHas H rows h j || (decide (rows.length = j) && r.any fun kv => hashOf H kv == h)) := by
  unfold rowHas
  by_cases hj : j < rows.length
  · have : ¬ rows.length = j := by omega
    simp [List.getElem?_append_left hj, this]
  · by_cases hj' : j = rows.length
    · subst hj'
      simp
    · have h1 : ¬ rows.length = j := fun e => hj' e.symm
      have h2 : (rows ++ [r])[j]? = none := by
        apply List.getElem?_eq_none; simp; omega
      have h3 : rows[j]? = none := by
        apply List.getElem?_eq_none; omega
      simp [h1, h2, h3]

theorem WInv.addRow {w : Writer} {rows : List Row} (hw : WInv H w rows) (r : Row) :
    WInv H (Writer.addRow H w r) (rows ++ [r]) := by
  constructor
  · simp [Writer.addRow, hw.next]
  · intro h j
    simp only [Writer.addRow]
    rw [addPair_fold_vals, hw.vals, rowHas_append, hw.next]

theorem WInv.addRows {w : Writer} {rows : List Row} (hw : WInv H w rows) (more : List Row) :
    WInv H (Writer.addRows H w more) (rows ++ more) := by
  induction more generalizing w rows with
  | nil => simpa [Writer.addRows] using hw
  | cons r more ih =>
    have := ih (hw.addRow H r)
    simpa [Writer.addRows, List.foldl, List.append_assoc] using this

theorem WInv.init : WInv H {} [] := by
  constructor
  · rfl
  · intro h j; simp [rowHas, ValMap.get]

theorem winv_addRows (rows : List Row) : WInv H (Writer.addRows H {} rows) rows := by
  simpa using (WInv.init H).addRows H rows

/-! ### ids returned by AddRow (C05) -/

/-- the ids `AddRow` returns, in call order -/
def Writer.addRowsIds (w : Writer) : List Row → List Nat
  | [] => []
  | r :: rs => w.next :: Writer.addRowsIds (Writer.addRow H w r) rs

theorem addRowsIds_eq (w : Writer) (rows : List Row) :
    Writer.addRowsIds H w rows = (List.range rows.length).map (w.next + ·) := by
  induction rows generalizing w with
  | nil => simp [Writer.addRowsIds]
  | cons r rs ih =>
    simp only [Writer.addRowsIds, ih, List.length_cons, List.range_succ_eq_map, List.map_cons, List.map_map]
    simp [Writer.addRow, Function.comp]
    intro a _; omega

/-! ### schema written by the writer -/

theorem addPair_fold_schema_col (k : Nat) (r : Row) (w : Writer) (c : Bytes) :
    ((r.foldl (Writer.addPair H k) w).schema.col c).isSome
      = ((w.schema.col c).isSome || r.any fun kv => kv.1 == c) := by
  induction r generalizing w with
  | nil => simp
  | cons kv r ih =>
    rw [List.foldl, ih]
    simp only [Writer.addPair, Schema.col_add, List.any_cons]
    generalize (r.any fun kv => kv.1 == c) = R
    by_cases hc : c = kv.1
    · subst hc; simp
    · have : (kv.1 == c) = false := by simpa using fun e => hc e.symm
      simp [hc, this]

theorem schema_col_isSome (rows : List Row) (w : Writer) (c : Bytes) :
    ((Writer.addRows H w rows).schema.col c).isSome = ((w.schema.col c).isSome || (columnsOf rows).contains c) := by
  induction rows generalizing w with
  | nil => simp [Writer.addRows, columnsOf]
  | cons r rows ih =>
    simp only [Writer.addRows, List.foldl] at ih ⊢
    rw [ih]
    simp only [Writer.addRow, addPair_fold_schema_col, columnsOf, List.flatMap_cons]
    rw [Bool.or_assoc]
    congr 1
    simp only [List.contains_eq_mem, List.mem_append, List.mem_map, List.mem_flatMap]
    rw [Bool.eq_iff_iff]
    simp only [Bool.or_eq_true, List.any_eq_true, beq_iff_eq, decide_eq_true_eq]

end
end Updog
