/-
`norm` preserves the meaning of an expression: for every argument list bound to the placeholders and
every row, the normalised tree is satisfied iff the original is (`sat` of Spec/Sat.lean through the
server's `toExpr` conversion); it also keeps the highest placeholder number.
-/
import Updog.Proofs.Norm
import Updog.Model.Rows
import Updog.Spec.Sat
namespace Updog

/-- does row `r` satisfy `e` once `args` are bound to its placeholders? -/
def sem (args : List Bytes) (r : Row) (e : PExpr) : Bool := sat r (toExpr (subst args e))

/-- `satAll` (`o = false`) / `satAny` (`o = true`) of a list of operands -/
def semCh (args : List Bytes) (r : Row) : Bool → List PExpr → Bool
  | false, es => satAll r (toExprs (substList args es))
  | true, es => satAny r (toExprs (substList args es))

def comb : Bool → Bool → Bool → Bool
  | false, a, b => a && b
  | true, a, b => a || b

section
variable (args : List Bytes) (r : Row)

theorem sem_mkOp (o : Bool) (es : List PExpr) : sem args r (mkOp o es) = semCh args r o es := by
  cases o <;> simp [sem, semCh, mkOp, subst, toExpr, sat]

theorem semCh_nil (o : Bool) : semCh args r o [] = !o := by
  cases o <;> simp [semCh, substList, toExprs, satAll, satAny]

theorem semCh_cons (o : Bool) (e : PExpr) (es : List PExpr) :
    semCh args r o (e :: es) = comb o (sem args r e) (semCh args r o es) := by
  cases o <;> simp [semCh, substList, toExprs, satAll, satAny, comb, sem]

theorem comb_unit (o a : Bool) : comb o a (!o) = a := by
  cases o <;> cases a <;> rfl

theorem comb_assoc (o a b c : Bool) : comb o (comb o a b) c = comb o a (comb o b c) := by
  cases o <;> cases a <;> cases b <;> cases c <;> rfl

theorem semCh_append (o : Bool) (xs ys : List PExpr) :
    semCh args r o (xs ++ ys) = comb o (semCh args r o xs) (semCh args r o ys) := by
  induction xs with
  | nil => cases o <;> simp [semCh_nil, comb]
  | cons x xs ih => rw [List.cons_append, semCh_cons, semCh_cons, ih, comb_assoc]

theorem semCh_single (o : Bool) (x : PExpr) : semCh args r o [x] = sem args r x := by
  rw [semCh_cons, semCh_nil, comb_unit]

theorem sem_mk1 (o : Bool) (xs : List PExpr) : sem args r (mk1 o xs) = semCh args r o xs := by
  match xs with
  | [] => rw [mk1, sem_mkOp]; intro x hx; cases hx
  | [x] => rw [semCh_single]; rfl
  | x :: y :: l => rw [mk1_cons_cons, sem_mkOp]

theorem semCh_spliceOp (o : Bool) (x : PExpr) : semCh args r o (spliceOp o x) = sem args r x := by
  by_cases hop : isOp o x = true
  · obtain ⟨xs, rfl⟩ := eq_mkOp_of_isOp hop
    rw [spliceOp_mkOp, sem_mkOp]
  · rw [spliceOp_of_not_op (by simpa using hop), semCh_single]

theorem sem_rpLeaf (c v : Bytes) (ph : Nat) : sem args r (rpLeaf c v ph) = sem args r (.eq c v ph) := by
  unfold rpLeaf
  split
  · rename_i h; simp [sem, subst, h]
  · rename_i h; simp [sem, subst, h]

/-- **`norm` preserves meaning** -/
theorem sem_norm : (∀ e, sem args r (norm e) = sem args r e) ∧
    (∀ es, ∀ o, semCh args r o (normCh o es) = semCh args r o es) := by
  have heq : ∀ c v ph, sem args r (norm (.eq c v ph)) = sem args r (.eq c v ph) :=
    fun c v ph => by rw [norm, sem_rpLeaf]
  have hnot : ∀ e, sem args r (norm e) = sem args r e →
      sem args r (norm (.not e)) = sem args r (.not e) := by
    intro e ih
    simp only [sem] at ih
    simp [norm, sem, subst, toExpr, sat, ih]
  have hop : ∀ o es, (∀ o, semCh args r o (normCh o es) = semCh args r o es) →
      sem args r (norm (mkOp o es)) = sem args r (mkOp o es) :=
    fun o es ih => by rw [norm_mkOp, sem_mk1, ih, sem_mkOp]
  have hnil : ∀ o, semCh args r o (normCh o []) = semCh args r o [] := fun o => by simp [normCh]
  have hcons : ∀ e es, sem args r (norm e) = sem args r e →
      (∀ o, semCh args r o (normCh o es) = semCh args r o es) →
      ∀ o, semCh args r o (normCh o (e :: es)) = semCh args r o (e :: es) :=
    fun e es ihe ihs o => by rw [normCh, semCh_append, semCh_spliceOp, ihe, ihs, semCh_cons]
  exact ⟨PExpr.indE heq hnot (hop false) (hop true) hnil hcons,
    PExpr.indL heq hnot (hop false) (hop true) hnil hcons⟩

/-- trees with the same normal form have the same meaning -/
theorem sem_eq_of_norm_eq {e₁ e₂ : PExpr} (h : norm e₁ = norm e₂) : sem args r e₁ = sem args r e₂ := by
  rw [← (sem_norm args r).1 e₁, h, (sem_norm args r).1 e₂]

end

/-! ### highest placeholder number -/

theorem maxPh_mkOp (o : Bool) (es : List PExpr) : maxPh (mkOp o es) = maxPhList es := by
  cases o <;> simp [mkOp, maxPh]

theorem maxPhList_append (xs ys : List PExpr) : maxPhList (xs ++ ys) = max (maxPhList xs) (maxPhList ys) := by
  induction xs with
  | nil => simp [maxPhList]
  | cons x xs ih => simp [maxPhList, ih, Nat.max_assoc]

theorem maxPh_mk1 (o : Bool) (xs : List PExpr) : maxPh (mk1 o xs) = maxPhList xs := by
  match xs with
  | [] => rw [mk1, maxPh_mkOp]; intro x hx; cases hx
  | [x] => simp [mk1, maxPhList]
  | x :: y :: l => rw [mk1_cons_cons, maxPh_mkOp]

theorem maxPhList_spliceOp (o : Bool) (x : PExpr) : maxPhList (spliceOp o x) = maxPh x := by
  by_cases hop : isOp o x = true
  · obtain ⟨xs, rfl⟩ := eq_mkOp_of_isOp hop
    rw [spliceOp_mkOp, maxPh_mkOp]
  · rw [spliceOp_of_not_op (by simpa using hop)]; simp [maxPhList]

theorem maxPh_norm : (∀ e, maxPh (norm e) = maxPh e) ∧ (∀ es, ∀ o, maxPhList (normCh o es) = maxPhList es) := by
  have heq : ∀ c v ph, maxPh (norm (.eq c v ph)) = maxPh (.eq c v ph) := by
    intro c v ph; simp only [norm, rpLeaf]; split
    · rfl
    · rename_i h; simp only [maxPh]; omega
  have hnot : ∀ e, maxPh (norm e) = maxPh e → maxPh (norm (.not e)) = maxPh (.not e) :=
    fun e ih => by simpa [norm, maxPh] using ih
  have hop : ∀ o es, (∀ o, maxPhList (normCh o es) = maxPhList es) →
      maxPh (norm (mkOp o es)) = maxPh (mkOp o es) :=
    fun o es ih => by rw [norm_mkOp, maxPh_mk1, ih, maxPh_mkOp]
  have hnil : ∀ o, maxPhList (normCh o []) = maxPhList [] := fun o => by simp [normCh]
  have hcons : ∀ e es, maxPh (norm e) = maxPh e → (∀ o, maxPhList (normCh o es) = maxPhList es) →
      ∀ o, maxPhList (normCh o (e :: es)) = maxPhList (e :: es) :=
    fun e es ihe ihs o => by rw [normCh, maxPhList_append, maxPhList_spliceOp, ihe, ihs, maxPhList]
  exact ⟨PExpr.indE heq hnot (hop false) (hop true) hnil hcons,
    PExpr.indL heq hnot (hop false) (hop true) hnil hcons⟩

theorem maxPh_eq_of_norm_eq {e₁ e₂ : PExpr} (h : norm e₁ = norm e₂) : maxPh e₁ = maxPh e₂ := by
  rw [← maxPh_norm.1 e₁, h, maxPh_norm.1 e₂]

end Updog
