/-
Lemmas about the primitives of `Updog/Basic/GoPreludeT1.lean`: the roaring operations on `Nat` bit sets are the
bit operations of the model (`Updog/Model/Index.lean`), and the lifted (pointer) versions on non-nil arguments.
-/
import Updog.Basic.GoPreludeT1
import Updog.Proofs.Bits
namespace Updog.Go

/-! ### bit-level characterisations (what the primitives mean) -/

theorem testBit_two_pow_sub_two_pow (lo hi i : Nat) :
    (2 ^ hi - 2 ^ lo).testBit i = (decide (lo ≤ i) && decide (i < hi)) := by
  by_cases h : lo ≤ hi
  · obtain ⟨d, rfl⟩ := Nat.exists_eq_add_of_le h
    have e : 2 ^ (lo + d) - 2 ^ lo = 2 ^ lo * (2 ^ d - 1) := by
      rw [Nat.pow_add, Nat.mul_sub_one]
    rw [e, Nat.testBit_two_pow_mul, Nat.testBit_two_pow_sub_one]
    by_cases h1 : lo ≤ i <;> simp [h1] <;> omega
  · have hle : 2 ^ hi ≤ 2 ^ lo := Nat.pow_le_pow_right (by omega) (by omega)
    rw [Nat.sub_eq_zero_of_le hle, Nat.zero_testBit]
    by_cases h1 : lo ≤ i <;> simp [h1] <;> omega

/-- `flipRange b lo hi` has exactly the bits in `[lo, hi)` negated -/
theorem testBit_flipRange (b lo hi i : Nat) :
    (flipRange b lo hi).testBit i = (b.testBit i ^^ (decide (lo ≤ i) && decide (i < hi))) := by
  rw [flipRange, Nat.testBit_xor, testBit_two_pow_sub_two_pow]

theorem testBit_fastAnd (bs : List Nat) (i : Nat) :
    (fastAnd bs).testBit i = (!bs.isEmpty && bs.all (·.testBit i)) := by
  induction bs with
  | nil => simp [fastAnd]
  | cons b r ih =>
    cases r with
    | nil => simp [fastAnd]
    | cons c r =>
      rw [fastAnd, Nat.testBit_and, ih]
      · simp
      · simp

theorem testBit_fastOr (bs : List Nat) (i : Nat) : (fastOr bs).testBit i = bs.any (·.testBit i) := by
  induction bs with
  | nil => simp [fastOr]
  | cons b r ih => rw [fastOr, Nat.testBit_or, ih]; simp

/-! ### equality with the model's bit operations -/

theorem flipRange_zero (b n : Nat) : flipRange b 0 n = Updog.flip n b := by
  simp [flipRange, Updog.flip]

theorem fastAnd_eq (bs : List Nat) : fastAnd bs = Updog.andAll bs := by
  apply Nat.eq_of_testBit_eq
  intro i
  rw [testBit_fastAnd, Updog.testBit_andAll]

theorem fastOr_eq (bs : List Nat) : fastOr bs = Updog.orAll bs := by
  apply Nat.eq_of_testBit_eq
  intro i
  rw [testBit_fastOr, Updog.testBit_orAll]

theorem cardinality_eq (b : Nat) : cardinality b = Updog.popcount b := by
  rw [Updog.popcount_eq_countBelow (b.log2 + 1) b Nat.lt_log2_self]
  rfl

theorem bmCardinality_eq (b : Nat) : bmCardinality b = Updog.popcount b := cardinality_eq b

/-! ### pointers -/

theorem derefAll_map_some (bs : List Nat) : derefAll (bs.map some) = some bs := by
  induction bs with
  | nil => rfl
  | cons b r ih => simp [derefAll, ih]

theorem bmFlip_some (b : Nat) (n : UInt32) :
    bmFlip (some b) (0 : UInt64) n.toUInt64 = some (Updog.flip n.toNat b) := by
  simp [bmFlip, flipRange_zero]

theorem bmFastAnd_map_some (bs : List Nat) : bmFastAnd (bs.map some) = some (Updog.andAll bs) := by
  simp [bmFastAnd, derefAll_map_some, fastAnd_eq]

theorem bmFastOr_map_some (bs : List Nat) : bmFastOr (bs.map some) = some (Updog.orAll bs) := by
  simp [bmFastOr, derefAll_map_some, fastOr_eq]

theorem cachePut_some {σ : Type} (idx : IndexEnv σ) (st : σ) (k : UInt64) (b : Nat) :
    cachePut idx st k (some b) = idx.cachePut st k b := rfl

example : flipRange 0b0101 0 3 = 0b0010 := by decide
example : flipRange 0b0101 1 3 = 0b0011 := by decide
example : fastAnd [0b0111, 0b0110, 0b1100] = 0b0100 := by decide
example : fastOr [0b0001, 0b0100] = 0b0101 := by decide
example : cardinality 0b101101 = 4 := by decide

end Updog.Go
