/-
cmd/updog/server.go `(*server).Query`, regenerated (`Gen.serverQuery`) = the hand-written batch loop `serverQuery`
of `Updog/Model/Server.lean`.
-/
import Updog.GeneratedFns
import Updog.Proofs.GoPreludeT5
import Updog.Props.Gen.Convert
import Updog.Props.Gen.Driver
import Updog.Model.Server

set_option linter.unusedSimpArgs false
namespace Updog.GeneratedEq
open Updog.Go

/-- the model's batch loop over an arbitrary per-query executor (`serverQuery H ix` is `batchLoop (serverExecute H ix)`) -/
def batchLoop (ex : WQuery → Outcome Result) : List WQuery → Nat → Outcome (List (Int × Result))
  | [], _ => .ok []
  | q :: rest, pos =>
    match ex q with
    | .ok r =>
      match batchLoop ex rest (pos + 1) with
      | .ok rs => .ok ((if q.id = 0 then (pos : Int) else q.id, r) :: rs)
      | o => o
    | .error => .error
    | .panic => .panic
    | .hang => .hang

theorem serverQuery_batchLoop (H : Bytes → UInt64) (ix : Index) (qs : List WQuery) (pos : Nat) :
    serverQuery H ix qs pos = batchLoop (serverExecute H ix) qs pos := by
  induction qs generalizing pos with
  | nil => simp [serverQuery, batchLoop]
  | cons q rest ih =>
    simp only [serverQuery, batchLoop, ih]
    cases serverExecute H ix q with
    | ok r => cases batchLoop (serverExecute H ix) rest (pos + 1) <;> rfl
    | _ => rfl

/-- what the response looks like in the model: (id, result) pairs ↦ protobuf results -/
def respOf (l : List (Int × Result)) : List PResult := l.map fun p => toProtobufResult p.2 p.1

/-- the loop body of the regenerated handler -/
def loopBody (exec : Lib.Query → Except Err5 Lib.Result) (resp : Pb.QueryResponse) (p : Int × WQuery) :
    Loop (Except Err5 Pb.QueryResponse) Pb.QueryResponse :=
  match exec (Gen.ToQuery p.2) with
  | .error err => .ret (.error err)
  | .ok result =>
    .go { resp with Results := resp.Results ++
      [Gen.ToProtobufResult result (if (Wire.Query.Id p.2 == 0) = true then toInt32 (p.1 + 1) else Wire.Query.Id p.2)] }

theorem serverQuery_unfold (exec : Lib.Query → Except Err5 Lib.Result) (req : Wire.QueryRequest) :
    Gen.serverQuery exec req =
      match forRange (enum req.Queries) ({ Results := [] } : Pb.QueryResponse) (loopBody exec) with
      | .ret r => r
      | .go resp => .ok resp := by
  simp only [Gen.serverQuery, loopBody]
  rfl

theorem loop_invariant (exec : Lib.Query → Except Err5 Lib.Result) (ex : WQuery → Outcome Result) (qs : List WQuery)
    (hex : ∀ q ∈ qs, (toOutcome (exec (Gen.ToQuery q))).map resultOfGo = ex q)
    (i : Nat) (hlen : i + qs.length < 2147483648) (resp : Pb.QueryResponse) :
    (toOutcome (match forRange (enumFrom (i : Int) qs) resp (loopBody exec) with
        | .ret r => r
        | .go resp => .ok resp)).map (fun resp => resp.Results.map presultOfGo)
      = (batchLoop ex qs (i + 1)).map (fun l => resp.Results.map presultOfGo ++ respOf l) := by
  induction qs generalizing i resp with
  | nil => simp [enumFrom, forRange_nil, toOutcome, batchLoop, Outcome.map, respOf]
  | cons q rest ih =>
    have hq := hex q (List.mem_cons_self ..)
    have hrest : ∀ q' ∈ rest, (toOutcome (exec (Gen.ToQuery q'))).map resultOfGo = ex q' :=
      fun q' h => hex q' (List.mem_cons_of_mem _ h)
    have hi : toInt32 ((i : Int) + 1) = (i : Int) + 1 := by
      simp only [List.length_cons] at hlen
      unfold toInt32; omega
    simp only [enumFrom, forRange_cons, batchLoop]
    cases he : exec (Gen.ToQuery q) with
    | error err =>
      rw [he] at hq
      simp only [toOutcome, Outcome.map] at hq
      simp [loopBody, he, ← hq, toOutcome, Outcome.map]
    | ok g =>
      rw [he] at hq
      simp only [toOutcome, Outcome.map] at hq
      have := ih hrest (i + 1) (by simp only [List.length_cons] at hlen; omega)
        { resp with Results := resp.Results ++
          [Gen.ToProtobufResult g (if (Wire.Query.Id q == 0) = true then toInt32 ((i : Int) + 1) else Wire.Query.Id q)] }
      simp only [loopBody, he, ← hq]
      rw [show ((i : Int) + 1) = ((i + 1 : Nat) : Int) by simp] at this ⊢
      rw [this]
      cases batchLoop ex rest (i + 1 + 1) with
      | ok rs =>
        simp only [Outcome.map, Outcome.ok.injEq, List.map_append, List.map_cons, List.map_nil, respOf,
          ToProtobufResult_eq, List.append_assoc, List.cons_append, List.nil_append]
        by_cases h0 : q.id = 0
        · rw [show ((i + 1 : Nat) : Int) = (i : Int) + 1 by simp] at *
          simp [Wire.Query.Id, h0, hi]
        · simp [Wire.Query.Id, h0]
      | error => simp [Outcome.map]
      | panic => simp [Outcome.map]
      | hang => simp [Outcome.map]

/-- regenerated `server.Query` = the model's `serverQuery`: for every executor `exec` that agrees with the model's
    per-query `serverExecute` (conversion + completeness check + library execution) on the members of the batch, and
    every batch of fewer than 2^31 queries: one result per query in request order, converted with
    `ToProtobufResult`, ids defaulting to the 1-based position; the first failing member fails the whole call -/
theorem serverQuery_eq (H : Bytes → UInt64) (ix : Index) (exec : Lib.Query → Except Err5 Lib.Result) (qs : List WQuery)
    (hlen : qs.length < 2147483648)
    (hex : ∀ q ∈ qs, (toOutcome (exec (Gen.ToQuery q))).map resultOfGo = serverExecute H ix q) :
    (toOutcome (Gen.serverQuery exec ⟨qs⟩)).map (fun resp => resp.Results.map presultOfGo)
      = (serverQuery H ix qs).map respOf := by
  rw [serverQuery_unfold, serverQuery_batchLoop]
  have := loop_invariant exec (serverExecute H ix) qs hex 0 (by omega) { Results := [] }
  simpa [enum] using this

/-- an executor built from the model's `execute` agrees with `serverExecute` whenever the library's results fit
    64-bit counters (so `serverQuery_eq` is not vacuous) -/
def modelExec (H : Bytes → UInt64) (ix : Index) (q : Lib.Query) : Except Err5 Lib.Result :=
  match libComplete q.Expr with
  | none => .error (.ext 1)
  | some e =>
    match execute H ix ⟨e, q.GroupBy⟩ with
    | none => .error (.ext 2)
    | some r => .ok (resultToGo r)

theorem modelExec_agrees (H : Bytes → UInt64) (ix : Index) (q : WQuery)
    (hfit : ∀ e r, execute H ix ⟨e, q.groupBy⟩ = some r → Result.fits r) :
    (toOutcome (modelExec H ix (Gen.ToQuery q))).map resultOfGo = serverExecute H ix q := by
  have h := ToQuery_complete q
  simp only [modelExec, h.1, h.2, serverExecute]
  cases hq : q.expr with
  | none => simp [toOutcome, Outcome.map]
  | some w =>
    simp only
    cases hw : w.complete with
    | none => simp [toOutcome, Outcome.map]
    | some e =>
      simp only
      cases hx : execute H ix ⟨e, q.groupBy⟩ with
      | none => simp [toOutcome, Outcome.map]
      | some r => simp [toOutcome, Outcome.map, resultOfGo_toGo r (hfit e r hx)]

/-! ### examples -/

example : (Gen.serverQuery (fun q => .ok ⟨q.GroupBy.length.toUInt64, []⟩)
    ⟨[⟨7, some (.eq [97] [49]), []⟩, ⟨0, some (.eq [97] [49]), [[98]]⟩]⟩) =
    .ok ⟨[⟨7, 0, []⟩, ⟨2, 1, []⟩]⟩ := by rfl
example : (toOutcome (Gen.serverQuery (fun q => if q.GroupBy.isEmpty then .ok ⟨0, []⟩ else .error (.ext 9))
    ⟨[⟨7, none, []⟩, ⟨0, none, [[98]]⟩, ⟨0, none, []⟩]⟩)).isOk = false := by rfl

end Updog.GeneratedEq
