/-
Equivalence of the REGENERATED `Flush` / constructor / `Close` functions of the two writers (`Updog/GeneratedFns.lean`:
`newIndexWriter`, `indexWriterFlush`, `newBigIndexWriter`, `bigIndexWriterClose`, `bigIndexWriterFlush`, translated from
writer.go / writer_big.go by extract/translate_t7.go on every run) with the hand-written models:
`Updog/Model/OpenFlags.lean` (`failIfExistsFlags`, `posixOpen`), `Updog/Model/OpenLock.lean` (`openCreate`),
`Updog/Model/BigWriter.lean` (`writeTxs`, `walk`, `BigWriter.flushTxs`, `BigWriter.image`) and
`Updog/Model/BigWriterTx.lean` (`commit`, `abandon`, `flushTx`).
-/
import Updog.Props.Gen.Writer
import Updog.Proofs.GenFlushData
import Updog.Proofs.GoPreludeT7
import Updog.Proofs.GenBigFlushT7
import Updog.Model.OpenLock
import Updog.Proofs.OpenLock
import Updog.Proofs.GenBigTx
import Updog.Proofs.C18Big
import Updog.Props.Gen.Open
import Updog.Props.Gen.OpenClose
import Updog.Proofs.GenReopen

set_option linter.unusedSimpArgs false
namespace Updog.GeneratedEq
open Updog.Go.T3 Updog.Go.T7

/-! ### NewIndexWriter -/

/-- **`NewIndexWriter(filename)`** = a writer with empty schema, no bitmaps, counter 0, a free mutex and that file name;
    it stands for the empty model `Writer` and satisfies the heap invariant of `AddRow` on any heap -/
theorem newIndexWriter_eq (H : Bytes → UInt64) (filename : Bytes) (hp : Heap) :
    Gen.newIndexWriter filename = some { filename := filename } ∧
    absWriter hp { filename := filename } = ({} : Writer) ∧ WriterWF H hp { filename := filename } :=
  ⟨rfl, rfl, ⟨⟨PtrsOK.nil _, by intro cv hcv; simp [schemaValue] at hcv⟩, PtrsOK.nil _⟩⟩

example : (Gen.newIndexWriter [47, 120]).map (fun w => (w.filename, w.nextRowID, w.values.length, w.mtx.held))
    = some ([47, 120], 0, 0, false) := by decide

/-! ### (*IndexWriter).optimize -/

theorem optimize_fold (idx : IndexWriter) (hp : Heap) (rng : List (UInt64 × Ptr)) :
    List.foldl (Gen.indexWriterOptimize_loop1 idx) (hp, ({} : WaitGroup)) rng = (hp, {}) := by
  induction rng with
  | nil => rfl
  | cons kv rest ih =>
    rw [List.foldl_cons]
    have : Gen.indexWriterOptimize_loop1 idx (hp, ({} : WaitGroup)) kv = (hp, {}) := by
      simp [Gen.indexWriterOptimize_loop1, bitmapRunOptimize, wgAdd, wgDone]
    rw [this, ih]

/-- **`(*IndexWriter).optimize` = the primitive `Go.T3.optimize`** that the generated `WriteToBoltDatabase` calls: for any
    enumeration of `idx.values`, every bitmap is run-optimised (which leaves the sets, hence the heap of the model, as
    they are) and nothing else is touched; every goroutine the loop starts has called `wg.Done()` when `wg.Wait()` is
    reached (the counter is back to 0 and was never negative). -/
theorem indexWriterOptimize_eq (rng : List (UInt64 × Ptr)) (hp : Heap) (idx : IndexWriter) :
    Gen.indexWriterOptimize rng hp idx = (optimize hp idx, { idx with mtx := mutexTouch idx.mtx }, ()) ∧
    (List.foldl (Gen.indexWriterOptimize_loop1 { idx with mtx := mutexTouch idx.mtx }) (hp, ({} : WaitGroup)) rng).2 = {} := by
  refine ⟨?_, ?_⟩
  · unfold Gen.indexWriterOptimize
    simp only [optimize_fold]
    rfl
  · rw [optimize_fold]

example : (Gen.indexWriterOptimize [(3, some 0), (4, some 1)] { bitmaps := [3, 1] } {}).1.bitmaps = [3, 1] := by decide

/-! ### (*IndexWriter).Flush -/

/-- **`Flush` on a path that exists — an index, an empty file, garbage, locked or not — fails before anything is
    written**: `bbolt.Open` is called with `openfile.OpenFile(openfile.Options{FailIfFileExists: true})`, whose flag word
    is `failIfExistsFlags (O_RDWR|O_CREATE)`, on which `posixOpen` reports `EEXIST`. The directory is unchanged (only a
    handle identity is used up), the returned handle is closed, nothing was committed, `WriteToBoltDatabase` did not run
    (heap and writer untouched, apart from the recorded read of `idx.filename`). -/
theorem indexWriterFlush_exists (X : Ext) (rng : List (UInt64 × Ptr)) (fs : Fs) (hp : Heap) (idx : IndexWriter)
    (n : Node) (hex : fs.get idx.filename = some n) :
    (posixOpen true (failIfExistsFlags boltWriteFlags)).1 = false ∧
    Gen.indexWriterFlush X rng fs hp idx
      = ({ fs with next := fs.next + 1 }, deadBolt fs.next, hp, { idx with mtx := mutexTouch idx.mtx }, errOpen) := by
  refine ⟨by decide, ?_⟩
  unfold Gen.indexWriterFlush
  simp only [boltOpen_writer, hex, errOpen, isErr_some, if_true]

/-- **`Flush` on an absent path = exclusive create, then the transaction list of `writeToBoltDatabase_eq`, then
    `db.Close()`**: for ANY enumeration `rng` of `idx.values`. The file is created (as a bolt file); the call returns
    nil; the transactions committed through the handle are, in order and `Put` by `Put`, the model's
    `writeTxs schema next perm 1000` (every batch of 1000 bitmaps before the header, `'S'` and `'I'` in the LAST one);
    afterwards the handle is closed (lock released), no transaction is open, heap unchanged, mutex released. -/
theorem indexWriterFlush_absent (X : Ext) (rng : List (UInt64 × Ptr)) (fs : Fs) (hp : Heap) (idx : IndexWriter)
    (hno : fs.get idx.filename = none) :
    let r := Gen.indexWriterFlush X rng fs hp idx
    r.2.2.2.2 = none ∧
    r.1 = ({ fs with next := fs.next + 1 } : Fs).set idx.filename { content := .bolt [] } ∧
    r.2.1.commits = (writeTxs (absWriter hp idx).schema (absWriter hp idx).next (absVals hp rng) 1000).map (renderTx X) ∧
    r.2.1.closed = true ∧ r.2.1.tx = none ∧ r.2.1.id = fs.next ∧
    bucketsGet r.2.1.committed dataName
      = some (fileData X [] (absVals hp rng) (schemaValue hp idx.schema) idx.nextRowID) ∧
    r.2.2.1 = hp ∧
    r.2.2.2.1 = { idx with mtx := mutexUnlock (mutexLock (mutexTouch (mutexTouch idx.mtx))) } := by
  intro r
  have hr : r = Gen.indexWriterFlush X rng fs hp idx := rfl
  unfold Gen.indexWriterFlush at hr
  simp only [boltOpen_writer, hno, isErr_none, Bool.false_eq_true, if_false] at hr
  have hb : (freshBolt fs.next []).closed = false ∧ (freshBolt fs.next []).tx = none ∧ (some fs.next : DBRef) = some (freshBolt fs.next []).id :=
    ⟨rfl, rfl, rfl⟩
  obtain ⟨w1, w2, w3, w4, w5, w6⟩ := writeToBoltDatabase_eq X rng (freshBolt fs.next []) hp
    { idx with mtx := mutexTouch (mutexTouch idx.mtx) } (some fs.next) hb.2.2 hb.1 hb.2.1
  have wd := writeToBoltDatabase_data X rng (freshBolt fs.next []) hp
    { idx with mtx := mutexTouch (mutexTouch idx.mtx) } (some fs.next) hb.2.2 hb.1 hb.2.1
  have wid : (Gen.writeToBoltDatabase X rng (freshBolt fs.next []) hp
      { idx with mtx := mutexTouch (mutexTouch idx.mtx) } (some fs.next)).1.id = fs.next :=
    (writeToBoltDatabase_spec X rng (freshBolt fs.next []) hp { idx with mtx := mutexTouch (mutexTouch idx.mtx) } (some fs.next)
      hb.2.2 hb.1 hb.2.1 _ rfl).2.2.2.2.1
  generalize Gen.writeToBoltDatabase X rng (freshBolt fs.next []) hp
      { idx with mtx := mutexTouch (mutexTouch idx.mtx) } (some fs.next) = wr at hr w1 w2 w3 w4 w5 w6 wd wid
  obtain ⟨wb, whp, widx, werr⟩ := wr
  simp only at hr w1 w2 w3 w4 w5 w6 wd wid
  subst w1 w5 w6
  rw [hr]
  obtain ⟨bid, bclosed, bcommitted, btx, bnext, bcommits⟩ := wb
  simp only at w2 w3 w4 wd wid
  subst wid
  simp only [dbClose_mk]
  refine ⟨?_, ?_, ?_, ?_, ?_, ?_, ?_, ?_, ?_⟩ <;> first | trivial | (rw [w2]; rfl) | (rw [wd]; rfl)

/-- **`Flush` against `openCreate` of the lock model**: the model's writer open (`O_EXCL`: error on any existing path before
    any flock, otherwise create and lock) and the generated `Flush` agree on whether the open step succeeds; and on
    every path the generated `Flush` ends with its own handle closed, i.e. `closeRW` has happened. -/
theorem openCreate_matches_generated_flush (X : Ext) (rng : List (UInt64 × Ptr)) (fs : Fs) (hp : Heap) (idx : IndexWriter)
    (st : LockState) (p : ProcId) (habs : st.fs = .absent ↔ fs.get idx.filename = none) (hnoh : st.holders = []) :
    let r := Gen.indexWriterFlush X rng fs hp idx
    ((openCreate st p).1 = .error ↔ r.2.2.2.2 = errOpen) ∧
    ((∃ h, (openCreate st p).1 = .ok h) ↔ r.2.2.2.2 = none) ∧
    r.2.1.closed = true := by
  intro r
  cases hg : fs.get idx.filename with
  | some n =>
    have hne : st.fs ≠ .absent := fun e => by rw [habs.mp e] at hg; cases hg
    have e1 : openCreate st p = (.error, st) := by unfold openCreate; simp [hne]
    have e2 := (indexWriterFlush_exists X rng fs hp idx n hg).2
    have : r = _ := e2
    rw [this, e1]
    simp [errOpen, deadBolt]
  | none =>
    have he : st.fs = .absent := habs.mpr hg
    have e1 : openCreate st p = openRW st p := by unfold openCreate; simp [he]
    obtain ⟨a1, _, _, a4, _⟩ := indexWriterFlush_absent X rng fs hp idx hg
    rw [e1, Updog.OpenLock.openRW_ok hnoh]
    refine ⟨?_, ?_, a4⟩
    · constructor
      · intro h; cases h
      · intro h; rw [show r.2.2.2.2 = none from a1] at h; cases h
    · exact ⟨fun _ => a1, fun _ => ⟨_, rfl⟩⟩

/-! ### written with the generated `Flush`, reopened with the generated `OpenIndex` -/

/-- the directory after the read-write handle `b` on `path` was closed: the file holds what was committed through it
    (while the handle is open `Fs` keeps the content from the time of the open; see Basic/GoPreludeT7.lean) -/
def fsAfterClose (fs : Fs) (path : Bytes) (b : Bolt) : Fs :=
  match fs.get path with
  | some n => fs.set path { n with content := .bolt b.committed }
  | none => fs

/-- **`Flush`, then `OpenIndex` on the same path — both regenerated, through the directory**: on an absent path, with a
    gob coder that round-trips, `Flush` creates the file, closes it, and `OpenIndex(filename)` then succeeds, holds the
    lock, and returns an index with the writer's schema and row counter. The directory still has exactly one more entry. -/
theorem flush_then_openIndex (X : Ext) (hgob : ∀ s, X.gobDecode (X.gobEncode s) = some s)
    (rng : List (UInt64 × Ptr)) (fs : Fs) (hp : Heap) (idx : IndexWriter) (hno : fs.get idx.filename = none)
    (hn : KeysNodup (absVals hp rng)) :
    let r := Gen.indexWriterFlush X rng fs hp idx
    let o := Gen.openIndex X (fsAfterClose r.1 idx.filename r.2.1) r.2.2.1 idx.filename []
    r.2.2.2.2 = none ∧ o.2.2.2.2 = none ∧ lockHeld o.2.1 = true ∧
    ∃ ix, o.2.2.2.1 = some ix ∧ ix.schema = some (schemaValue hp idx.schema) ∧ ix.nextRowID = idx.nextRowID ∧
      ix.db = some (fs.next + 1) := by
  intro r o
  obtain ⟨a1, a2, _, _, _, _, a7, a8, _⟩ := indexWriterFlush_absent X rng fs hp idx hno
  obtain ⟨_, _, s3, s4, _⟩ := fileData_spec X (absVals hp rng) hn (schemaValue hp idx.schema) idx.nextRowID
  have hfs : (fsAfterClose r.1 idx.filename r.2.1).get idx.filename = some { content := .bolt r.2.1.committed } := by
    unfold fsAfterClose
    rw [show r.1 = _ from a2, Fs.get_set_same]
    simp only [Fs.get_set_same]
  have hnext : (fsAfterClose r.1 idx.filename r.2.1).next = fs.next + 1 := by
    unfold fsAfterClose
    rw [show r.1 = _ from a2, Fs.get_set_same]
    rfl
  have ho : o = _ := openIndex_cases X (fsAfterClose r.1 idx.filename r.2.1) r.2.2.1 idx.filename []
  rw [hfs] at ho
  simp only [List.any_nil, Bool.false_eq_true, if_false, hnext] at ho
  have hres := openIndex_noPreload_result X (fs.next + 1) 0 r.2.1.committed [] r.2.2.1 _ _ _ _
    (show bucketsGet r.2.1.committed dataName = some _ from a7) s3 (hgob _) s4 (by rfl)
  rw [hres] at ho
  rw [ho]
  refine ⟨a1, rfl, rfl, _, rfl, rfl, ?_, rfl⟩
  exact beUint32_be32 idx.nextRowID

/-- the directory of Props/Gen/OpenClose.lean's examples: an existing index at `[105]`, nothing at `[110]` -/
def flushFs : Fs := { files := [([105], { content := .bolt [] })], next := 3 }

/-- a writer with two rows added by the generated `AddRow` -/
def flushWriter (name : Bytes) : Heap × IndexWriter :=
  let H : Bytes → UInt64 := fun b => (b.length : Nat).toUInt64
  let w1 := Gen.indexWriterAddRow H {} { filename := name } [([1], [2]), ([1, 5], [3])]
  let w2 := Gen.indexWriterAddRow H w1.1 w1.2.1 [([1], [2])]
  (w2.1, w2.2.1)

def flushDemo (name : Bytes) : Bool × Bool × List (List PutRec) × List Bytes × Option BucketData :=
  let w := flushWriter name
  let r := Gen.indexWriterFlush toyExt w.2.values flushFs w.1 w.2
  (isErr r.2.2.2.2, r.2.1.closed, r.2.1.commits, r.1.files.map (·.1), bucketsGet r.2.1.committed dataName)

-- the path exists: error, handle closed, nothing committed, directory as before
example : (flushDemo [105] == (true, true, [], [[105]], none)) = true := by
  simp only [flushDemo, Gen.indexWriterFlush, boltOpen_writer]; decide

-- the path is absent: created, one transaction with the header last, handle closed
example : (flushDemo [110] ==
    (false, true,
      [[([100, 97, 116, 97], [86, 0, 0, 0, 0, 0, 0, 0, 3], [0, 0, 0, 3]),
        ([100, 97, 116, 97], [86, 0, 0, 0, 0, 0, 0, 0, 4], [0, 0, 0, 1]),
        ([100, 97, 116, 97], [83], [2]),
        ([100, 97, 116, 97], [73], [0, 0, 0, 2])]],
      [[105], [110]],
      some [([73], [0, 0, 0, 2]), ([83], [2]), ([86, 0, 0, 0, 0, 0, 0, 0, 3], [0, 0, 0, 3]), ([86, 0, 0, 0, 0, 0, 0, 0, 4], [0, 0, 0, 1])])) = true := by
  simp only [flushDemo, Gen.indexWriterFlush, boltOpen_writer]; decide


/-! ### NewBigIndexWriter -/

/-- **`NewBigIndexWriter(db, tempDB)` establishes the temp transaction**: on an open temporary database without a
    transaction it returns a writer and nil; one transaction has been committed (the `Update` that creates bucket
    `temp`; an existing bucket keeps its keys); the writer's write transaction is open on the temporary database
    (`BigReady`: exactly what the generated `AddRow` and `Flush` need); schema empty, counter 0, mutex free, `db` stored
    untouched. -/
theorem newBigIndexWriter_eq (tb : Bolt) (db : DBRef) (hopen : tb.closed = false) (hnotx : tb.tx = none) :
    let r := Gen.newBigIndexWriter tb db (some tb.id)
    r.2.2 = none ∧
    ∃ idx, r.2.1 = some idx ∧ BigReady r.1 idx ((bucketsGet tb.committed tempName).getD []) ∧
      idx.db = db ∧ idx.tempDB = some tb.id ∧ idx.schema = {} ∧ idx.nextRowID = 0 ∧ idx.mtx = {} ∧
      r.1.commits = tb.commits ++ [[]] ∧
      bucketsGet r.1.committed tempName = some ((bucketsGet tb.committed tempName).getD []) := by
  obtain ⟨ti, tclosed, tc, ttx, tn, tcs⟩ := tb
  simp only at hopen hnotx
  subst hopen hnotx
  intro r
  have hr : r = _ := newBigIndexWriter_spec ti tn tc tcs db
  rw [hr]
  have hget : bucketsGet (if (bucketsGet tc tempName).isSome then tc else bucketsSet tc tempName []) tempName
      = some ((bucketsGet tc tempName).getD []) := by
    cases h : bucketsGet tc tempName with
    | none => simp [bucketsGet_set_same]
    | some d => simp [h]
  exact ⟨rfl, _, rfl, ⟨rfl, rfl, _, rfl, rfl, rfl, hget⟩, rfl, rfl, rfl, rfl, rfl, rfl, hget⟩

/-- on a fresh temporary database the new writer stands for the empty model writer `{}` (Model/BigWriter.lean) and for
    the empty transaction model `{}` (Model/BigWriterTx.lean: nothing committed, nothing pending, one bolt commit so far) -/
theorem newBigIndexWriter_fresh (H : Bytes → UInt64) (tb : Bolt) (db : DBRef) (hp : Heap) (hopen : tb.closed = false) (hnotx : tb.tx = none)
    (hfresh : bucketsGet tb.committed tempName = none) :
    ∃ idx, (Gen.newBigIndexWriter tb db (some tb.id)).2.1 = some idx ∧
      BigReady (Gen.newBigIndexWriter tb db (some tb.id)).1 idx [] ∧ SchemaWF H hp idx.schema ∧
      BigRel hp idx [] {} ∧ TxRel (Gen.newBigIndexWriter tb db (some tb.id)).1 hp idx [] (tb.commits.length + 1) {} ∧
      idx.nextRowID.toNat = ({} : BigWriter).next := by
  obtain ⟨_, idx, e, hr, _, _, hs, hn, _, hc, hg⟩ := newBigIndexWriter_eq tb db hopen hnotx
  rw [hfresh] at hr hg
  refine ⟨idx, e, hr, ?_, ?_, ⟨?_, ⟨[], hg, by simp⟩, ?_⟩, by rw [hn]; rfl⟩
  · rw [hs]; exact ⟨PtrsOK.nil _, by intro cv hcv; simp [schemaValue] at hcv⟩
  · rw [BigRel, hs]; exact ⟨rfl, by simp⟩
  · rw [BigRel, hs]; exact ⟨rfl, by simp [BigWriterTx.toBig, BigWriterTx.visible]⟩
  · rw [hc]; simp

/-! ### (*BigIndexWriter).Close -/

/-- **`Close` releases the temp transaction** (`BigWriterTx.abandon`): with the writer's transaction open, it returns nil,
    no transaction is open afterwards, the COMMITTED content and the commit log of the temporary database are exactly
    what they were (the pending `Put`s are gone), `tempTx` is nil and a free mutex is free again. -/
theorem bigIndexWriterClose_eq (tb : Bolt) (idx : BigIndexWriter) (d : BucketData) (hr : BigReady tb idx d) :
    let r := Gen.bigIndexWriterClose tb idx
    r.2.2 = none ∧ r.1.tx = none ∧ r.1.closed = false ∧ r.1.committed = tb.committed ∧ r.1.commits = tb.commits ∧
    r.2.1 = { idx with tempTx := none, mtx := mutexUnlock (mutexLock idx.mtx) } ∧
    (idx.mtx = {} → r.2.1.mtx = {}) := by
  obtain ⟨h1, h2, t, h3, h4, h5, h6⟩ := hr
  obtain ⟨ti, tclosed, tc0, ttx, tn, tcs⟩ := tb
  obtain ⟨tt, twr, tbs, tlog⟩ := t
  simp only at h1 h2 h3 h4 h5 h6
  subst h1 h3
  intro r
  have hr : r = _ := bigIndexWriterClose_spec ti tt tn tc0 tbs tcs tlog twr idx h4
  rw [hr]
  refine ⟨rfl, rfl, rfl, rfl, rfl, rfl, ?_⟩
  intro hm; simp only; rw [hm]; rfl

/-- **`Close` twice = `Close` once; `Close` after `Flush` is a no-op**: with `tempTx == nil` it returns nil and touches
    neither database -/
theorem bigIndexWriterClose_idempotent (tb : Bolt) (idx : BigIndexWriter) :
    let r := Gen.bigIndexWriterClose tb idx
    r.2.1.tempTx = none ∧
    Gen.bigIndexWriterClose r.1 r.2.1 = (r.1, { r.2.1 with mtx := mutexUnlock (mutexLock r.2.1.mtx) }, nilError) := by
  intro r
  have h : r.2.1.tempTx = none := by
    show (Gen.bigIndexWriterClose tb idx).2.1.tempTx = none
    unfold Gen.bigIndexWriterClose
    cases h : idx.tempTx <;> simp [h]
  exact ⟨h, bigIndexWriterClose_nil r.1 r.2.1 h⟩

/-! ### (*BigIndexWriter).Flush -/

/-- `renderTx` of the model's single `Flush` transaction, `Put` by `Put` -/
theorem renderTx_flushTxs (X : Ext) (w : BigWriter) :
    w.flushTxs.map (renderTx X) = [w.flushCore.1.map (valRec X) ++ [(dataName, [73], be32 w.next), (dataName, [83], X.gobEncode w.schema)]] := by
  simp [BigWriter.flushTxs, renderTx, renderPut, valRec, vKey, List.map_map, Function.comp_def]

/-- **`(*BigIndexWriter).Flush` = `BigWriter.flushTxs`** (Model/BigWriter.lean), for ANY temp-bucket content that satisfies the
    invariant of C18Big / GenBigT3: the bucket `d` the writer's transaction sees is in bbolt's key order and holds exactly
    the model's key set `w.temp` (`BigRel`), all of them 12-byte keys. With the output database open and idle:
    * the call returns nil;
    * the transactions committed on the output database are exactly the model's `w.flushTxs` rendered `Put` by `Put`:
      ONE transaction — a bitmap per value index in ascending order (`walk` of the sorted keys: a new bitmap whenever
      the 8-byte key prefix changes), then the counter `'I'`, then the schema `'S'` — so the header is in the last
      transaction;
    * bucket `data` of the committed file is `bigFileData` of the model's `flushCore`;
    * the temp transaction has been committed (the bucket `temp` COMMITTED in the temporary database now holds `d`: pending
      keys became committed, `BigWriterTx.commit`) and no transaction is open on either database; `tempTx` is nil. -/
theorem bigIndexWriterFlush_eq (X : Ext) (bolt tbolt : Bolt) (hp : Heap) (idx : BigIndexWriter) (d : BucketData) (w : BigWriter)
    (hr : BigReady tbolt idx d) (hs : SortedData d) (rel : BigRel hp idx d w) (hnd : w.temp.Nodup)
    (hl : ∀ k ∈ w.temp, k.length = 12) (hnext : idx.nextRowID.toNat = w.next)
    (ho : bolt.closed = false) (hnotx : bolt.tx = none) (hdb : idx.db = some bolt.id) :
    let r := Gen.bigIndexWriterFlush X bolt tbolt hp idx
    r.2.2.2.2 = none ∧
    r.1.commits = bolt.commits ++ w.flushTxs.map (renderTx X) ∧
    r.1.tx = none ∧ r.1.closed = false ∧
    bucketsGet r.1.committed dataName
      = some (bigFileData X ((bucketsGet bolt.committed dataName).getD []) w.flushCore.1 w.flushCore.2.1 idx.nextRowID) ∧
    r.2.1.tx = none ∧ r.2.1.closed = false ∧ bucketsGet r.2.1.committed tempName = some d ∧
    r.2.1.commits.length = tbolt.commits.length + 1 ∧
    r.2.2.2.1 = { idx with tempTx := none, mtx := mutexTouch idx.mtx } := by
  have hl' : ∀ k ∈ d.map (·.1), k.length = 12 := fun k hk => hl k ((rel.2 k).mp hk)
  have hkeys : sortKeys w.temp = d.map (·.1) := by
    rw [← sortKeys_sorted d hs]
    exact sortKeys_eq_of_mem_iff hnd (keys_nodup d hs) (fun k => (rel.2 k).symm)
  have hcore : w.flushCore.1 = walk (d.map (·.1)) := by simp [BigWriter.flushCore, hkeys]
  obtain ⟨r1, r2, r3, r4, _, r6, r7, r8, _, r10, r11, r12, _⟩ :=
    bigIndexWriterFlush_ready X bolt tbolt hp idx d hr ho hnotx hdb hl' hs
  refine ⟨r1, ?_, r3, r4, ?_, r7, r8, r10, r11, r12⟩
  · rw [r2, renderTx_flushTxs, hcore, ← hnext, ← rel.1]
  · rw [r6, hcore]; show _ = some (bigFileData X _ _ w.schema _); rw [← rel.1]

/-- **a temp key whose length is not 12** (`BigWriter.flush` = `.error`): `Flush` returns an error, and the output database
    is exactly as before — nothing committed, no transaction left open (the deferred rollbacks) -/
theorem bigIndexWriterFlush_badkey (X : Ext) (bolt tbolt : Bolt) (hp : Heap) (idx : BigIndexWriter) (d : BucketData) (w : BigWriter)
    (hr : BigReady tbolt idx d) (rel : BigRel hp idx d w) (hbad : w.flush = .error)
    (ho : bolt.closed = false) (hnotx : bolt.tx = none) (hdb : idx.db = some bolt.id) :
    let r := Gen.bigIndexWriterFlush X bolt tbolt hp idx
    isErr r.2.2.2.2 = true ∧ r.1.commits = bolt.commits ∧ r.1.committed = bolt.committed ∧ r.1.tx = none ∧ r.2.1.tx = none := by
  have hall : (d.map (·.1)).all (fun k => k.length == 12) = false := by
    unfold BigWriter.flush at hbad
    split at hbad
    · cases hbad
    · rename_i hno
      have hno' : w.temp.all (fun k => k.length == 12) = false := by simpa using hno
      rw [List.all_eq_false] at hno' ⊢
      obtain ⟨k, hk, hk'⟩ := hno'
      exact ⟨k, (rel.2 k).mpr hk, hk'⟩
  obtain ⟨b1, b2, b3, b4, _, b6, _⟩ := bigIndexWriterFlush_ready_badkey X bolt tbolt hp idx d hr ho hnotx hdb hall
  exact ⟨b1, b2, b3, b4, b6⟩

/-- **the result image of the generated `Flush` = `BigWriter.image`**: when the writer stands for the model writer after
    adding `rows` (`BigRel … (BigWriter.addRows H {} rows)`, as `NewBigIndexWriter` + the generated `AddRow`s establish it:
    `newBigIndexWriter_fresh`, `bigIndexWriterAddRow_eq`), an output file that had no bucket `data` holds exactly
    `BigWriter.image H rows`: `'S'` ↦ gob of its schema, `'I'` ↦ its counter (big-endian, 4 bytes), and under
    `'V' ‖ be64 h` the serialised bitmap the image has for `h` (absent if it has none). The bucket is in bbolt's key order. -/
theorem bigIndexWriterFlush_image (H : Bytes → UInt64) (X : Ext) (rows : List Row) (bolt tbolt : Bolt) (hp : Heap)
    (idx : BigIndexWriter) (d : BucketData)
    (hr : BigReady tbolt idx d) (hs : SortedData d) (rel : BigRel hp idx d (BigWriter.addRows H {} rows))
    (hlen : rows.length ≤ 2 ^ 32) (hnext : idx.nextRowID.toNat = (BigWriter.addRows H {} rows).next)
    (ho : bolt.closed = false) (hnotx : bolt.tx = none) (hdb : idx.db = some bolt.id)
    (hempty : bucketsGet bolt.committed dataName = none) :
    ∃ fd, bucketsGet (Gen.bigIndexWriterFlush X bolt tbolt hp idx).1.committed dataName = some fd ∧ SortedData fd ∧ WellKeyed fd ∧
      dataGet fd [83] = some (X.gobEncode (BigWriter.image H rows).2.1) ∧
      dataGet fd [73] = some (be32 (BigWriter.image H rows).2.2) ∧
      ∀ h, dataGet fd (86 :: be64 h.toNat) = ((BigWriter.image H rows).1.get h).map X.roaringToBytes := by
  have binv := binv_addRows H rows
  have wf := BInv.wf H binv hlen
  have hl : ∀ k ∈ (BigWriter.addRows H {} rows).temp, k.length = 12 := by
    intro k hk
    obtain ⟨a, i, _, _, e⟩ := wf k hk
    rw [e]; rfl
  have hnd : (BigWriter.addRows H {} rows).temp.Nodup := big_addRows_nodup H rows {} List.nodup_nil
  obtain ⟨_, _, _, _, f5, _⟩ := bigIndexWriterFlush_eq X bolt tbolt hp idx d _ hr hs rel hnd hl hnext ho hnotx hdb
  rw [hempty] at f5
  have hnil : (none : Option BucketData).getD [] = [] := rfl
  rw [hnil] at f5
  refine ⟨_, f5, ?_⟩
  have hn : KeysNodup (BigWriter.addRows H {} rows).flushCore.1 := walk_nodup _
  obtain ⟨s1, s2, s3, s4, s5⟩ := bigFileData_spec X _ hn (BigWriter.addRows H {} rows).flushCore.2.1 idx.nextRowID
  refine ⟨s1, s2, s3, ?_, s5⟩
  rw [s4, hnext]
  rfl

/-! ### a concrete run: NewBigIndexWriter, two AddRows, Flush, Close -/

/-- an open, empty temporary database (handle 7) and an open, empty output database (handle 9) -/
def bigDemo : Bolt × Bolt × BigIndexWriter × Error :=
  let H : Bytes → UInt64 := fun b => (b.length : Nat).toUInt64
  let n := Gen.newBigIndexWriter { id := 7 } (some 9) (some 7)
  let idx0 := n.2.1.getD {}
  let a1 := Gen.bigIndexWriterAddRow H n.1 {} idx0 [([1], [2]), ([1, 5], [3])]
  let a2 := Gen.bigIndexWriterAddRow H a1.1 a1.2.1 a1.2.2.1 [([1], [2])]
  let f := Gen.bigIndexWriterFlush toyExt { id := 9 } a2.1 a2.2.1 a2.2.2.1
  let c := Gen.bigIndexWriterClose f.2.1 f.2.2.2.1
  (f.1, c.1, c.2.1, f.2.2.2.2)

-- one transaction on the output database: value 3 (rows 0 and 1), value 4 (row 0), then 'I' = 2, then 'S'
example : (bigDemo.1.commits == [[([100, 97, 116, 97], [86, 0, 0, 0, 0, 0, 0, 0, 3], [0, 0, 0, 3]),
                                  ([100, 97, 116, 97], [86, 0, 0, 0, 0, 0, 0, 0, 4], [0, 0, 0, 1]),
                                  ([100, 97, 116, 97], [73], [0, 0, 0, 2]),
                                  ([100, 97, 116, 97], [83], [2])]]) = true := by decide
example : (bigDemo.1.tx.isNone, bigDemo.2.1.tx.isNone, bigDemo.2.2.1.tempTx, isErr bigDemo.2.2.2) = (true, true, none, false) := by decide
-- the same file as the in-memory writer produces for these rows (`demoFile` of Props/Gen/Open.lean)
example : (bigDemo.1.committed == demoFile) = true := by decide

end Updog.GeneratedEq
