/-
Equivalence of the REGENERATED in-memory writer (`Updog/GeneratedFns.lean`: `schemaAdd`, `getValueBitmap`,
`indexWriterAddRow`, `writeToBoltDatabase`, translated from writer.go / types.go by extract/translate_t3.go on every run)
with the hand-written model of `Updog/Model/Index.lean` / `Updog/Model/BigWriter.lean`.
The generated code works on a heap of `*roaring.Bitmap` / `*column` objects; `absWriter` reads the model state off it,
`WriterWF` is the heap invariant (pointers valid and unaliased, value indexes are hashes) every `AddRow` preserves.
-/
import Updog.Proofs.GenWriterT3
import Updog.Proofs.GenFlushT3
import Updog.Proofs.GenBigT3

namespace Updog.GeneratedEq
open Updog.Go.T3

section
variable (H : Bytes → UInt64)

/-- the generated `AddRow`: lock, read the counter, fold the loop body over the pairs, build the result, run the
    deferred increment and then the deferred unlock (`mutexTouch` records the field accesses against the mutex) -/
theorem indexWriterAddRow_unfold (hp : Heap) (idx : IndexWriter) (values : List (Bytes × Bytes)) :
    Gen.indexWriterAddRow H hp idx values =
      (let idx1 : IndexWriter := { idx with mtx := mutexTouch (mutexLock idx.mtx) }
       let st := values.foldl (Gen.indexWriterAddRow_loop1 H values idx1.nextRowID) (hp, idx1)
       let idx2 : IndexWriter := { st.2 with mtx := mutexTouch st.2.mtx, nextRowID := st.2.nextRowID + 1 }
       (st.1, { idx2 with mtx := mutexUnlock idx2.mtx }, idx1.nextRowID, nilError)) := by
  rfl

/-- **`(*IndexWriter).AddRow` = `Writer.addRow`.**  On a well-formed heap, with room for one more row id:
the state after the generated `AddRow` abstracts to `Writer.addRow` of the abstraction of the state before (for the row
as the list of pairs in the order `range` produced them), the returned id is the counter BEFORE the increment
(= `w.next` of the model) with a nil error, the heap invariant is kept, and a free mutex is free again afterwards with
no access to the writer's fields outside the critical section (`misuse = false`). -/
theorem indexWriterAddRow_eq (hp : Heap) (idx : IndexWriter) (values : List (Bytes × Bytes))
    (wf : WriterWF H hp idx) (hroom : idx.nextRowID.toNat + 1 < 2 ^ 32) :
    absWriter (Gen.indexWriterAddRow H hp idx values).1 (Gen.indexWriterAddRow H hp idx values).2.1
        = Writer.addRow H (absWriter hp idx) values ∧
    (Gen.indexWriterAddRow H hp idx values).2.2 = (idx.nextRowID, nilError) ∧
    (Gen.indexWriterAddRow H hp idx values).2.2.1.toNat = (absWriter hp idx).next ∧
    WriterWF H (Gen.indexWriterAddRow H hp idx values).1 (Gen.indexWriterAddRow H hp idx values).2.1 ∧
    (idx.mtx = {} → (Gen.indexWriterAddRow H hp idx values).2.1.mtx = {}) ∧
    (Gen.indexWriterAddRow H hp idx values).2.1.filename = idx.filename := by
  rw [indexWriterAddRow_unfold]
  dsimp only
  rw [mutexTouch_mutexLock]
  have wf1 : WriterWF H hp { idx with mtx := mutexLock idx.mtx } := ⟨wf.sch, wf.vals⟩
  obtain ⟨f1, f2, f3, f4, f5⟩ := addRowFold_spec H values idx.nextRowID values hp { idx with mtx := mutexLock idx.mtx } wf1
    (mutexLock_held _)
  generalize hst : List.foldl (Gen.indexWriterAddRow_loop1 H values idx.nextRowID) (hp, { idx with mtx := mutexLock idx.mtx }) values = st
    at f1 f2 f3 f4 f5
  have hnext : (st.2.nextRowID + 1).toNat = idx.nextRowID.toNat + 1 := by
    have e : st.2.nextRowID = idx.nextRowID := f3
    rw [e, UInt32.toNat_add]
    have : (1 : UInt32).toNat = 1 := rfl
    rw [this]
    exact Nat.mod_eq_of_lt hroom
  have hm : st.2.mtx = mutexLock idx.mtx := f4
  refine ⟨?_, rfl, rfl, ⟨f1.sch, f1.vals⟩, ?_, f5⟩
  · have e : absWriter hp { idx with mtx := mutexLock idx.mtx } = absWriter hp idx := rfl
    rw [e] at f2
    simp only [absWriter, Writer.addRow] at f2 ⊢
    rw [← f2]
    simp only [hnext]
  · intro h0
    simp only [hm, mutexTouch_mutexLock, h0]
    rfl

example : (Gen.indexWriterAddRow (fun b => (b.length : Nat).toUInt64) {} {} [([1], [2]), ([1, 5], [3]), ([1], [2])]).2.2
    = (0, none) := by decide

example :
    let r := Gen.indexWriterAddRow (fun b => (b.length : Nat).toUInt64) {} {} [([1], [2]), ([1, 5], [3])]
    (absWriter r.1 r.2.1).schema = [([1], [([2], 3)]), ([1, 5], [([3], 4)])] ∧
    (absWriter r.1 r.2.1).vals = [(3, 1), (4, 1)] ∧ (absWriter r.1 r.2.1).next = 1 := by decide

/-- **`(*schema).add` = `Schema.add`** (with the value index `H (encodePair k v)` = `getValueIndex(k, v)`): the schema gets
    column `k` / value `v` / that index, the returned index is that hash, the heap invariant is kept, no bitmap is touched. -/
theorem schemaAdd_eq (hp : Heap) (sch : SchemaObj) (k v : Bytes) (wf : SchemaWF H hp sch) :
    schemaValue (Gen.schemaAdd H hp sch k v).1 (Gen.schemaAdd H hp sch k v).2.1
        = Schema.add (schemaValue hp sch) k v (H (encodePair k v)) ∧
    (Gen.schemaAdd H hp sch k v).2.2 = H (encodePair k v) ∧
    SchemaWF H (Gen.schemaAdd H hp sch k v).1 (Gen.schemaAdd H hp sch k v).2.1 ∧
    (Gen.schemaAdd H hp sch k v).1.bitmaps = hp.bitmaps :=
  schemaAdd_spec H hp sch k v wf

/-- **`getValueBitmap(h).Add(x)` = `ValMap.addBit h x`**: the bitmap keyed by `h` (created empty if absent) gets bit `x`,
    all other bitmaps and (with the mutex held) all other fields of the writer are unchanged. -/
theorem getValueBitmap_add_eq (hp : Heap) (idx : IndexWriter) (h : UInt64) (x : UInt32)
    (wf : PtrsOK hp.bitmaps.length (idx.values.map (·.2))) :
    absVals (bitmapAdd (Gen.getValueBitmap hp idx h).1 (Gen.getValueBitmap hp idx h).2.2 x) (Gen.getValueBitmap hp idx h).2.1.values
        = (absVals hp idx.values).addBit h x.toNat ∧
    (idx.mtx.held = true →
      (Gen.getValueBitmap hp idx h).2.1 = { idx with values := (Gen.getValueBitmap hp idx h).2.1.values }) :=
  ⟨(valueBit_spec hp idx h x wf).1, (valueBit_spec hp idx h x wf).2.2.2⟩

/-- one iteration of the loop of `AddRow` = `Writer.addPair` at the row id -/
theorem indexWriterAddRow_loop1_eq (values : List (Bytes × Bytes)) (rowID : UInt32) (hp : Heap) (idx : IndexWriter)
    (kv : Bytes × Bytes) (wf : WriterWF H hp idx) (hh : idx.mtx.held = true) :
    absWriter (Gen.indexWriterAddRow_loop1 H values rowID (hp, idx) kv).1 (Gen.indexWriterAddRow_loop1 H values rowID (hp, idx) kv).2
      = Writer.addPair H rowID.toNat (absWriter hp idx) kv :=
  addRowStep_abs H values rowID hp idx kv wf hh

end

/-! ### WriteToBoltDatabase -/

/-- **`WriteToBoltDatabase` = `writeTxs`.**  On an open database without an open transaction, for ANY enumeration `rng` of
`idx.values` (Go's map order), the call returns nil, and the transactions it commits are, in order and `Put` by `Put`,
the model's `writeTxs schema next perm 1000` laid out as `renderPut`: bucket `data`; every bitmap under
`'V' ‖ big-endian 8-byte value index`, batches of 1000 per transaction; the gob schema under `'S'` and then the big-endian
4-byte row counter under `'I'`, both in the LAST transaction. No transaction stays open, the writer and the heap are
unchanged, the mutex is released. -/
theorem writeToBoltDatabase_eq (X : Ext) (rng : List (UInt64 × Ptr)) (bolt : Bolt) (hp : Heap) (idx : IndexWriter)
    (db : DBRef) (hdb : db = some bolt.id) (hopen : bolt.closed = false) (hnotx : bolt.tx = none) :
    (Gen.writeToBoltDatabase X rng bolt hp idx db).2.2.2 = none ∧
    (Gen.writeToBoltDatabase X rng bolt hp idx db).1.commits
      = bolt.commits ++ (writeTxs (absWriter hp idx).schema (absWriter hp idx).next (absVals hp rng) 1000).map (renderTx X) ∧
    (Gen.writeToBoltDatabase X rng bolt hp idx db).1.tx = none ∧
    (Gen.writeToBoltDatabase X rng bolt hp idx db).1.closed = false ∧
    (Gen.writeToBoltDatabase X rng bolt hp idx db).2.1 = hp ∧
    (Gen.writeToBoltDatabase X rng bolt hp idx db).2.2.1 = { idx with mtx := mutexUnlock (mutexLock idx.mtx) } := by
  obtain ⟨h1, h2, h3, h4, _, h6, h7⟩ := writeToBoltDatabase_spec X rng bolt hp idx db hdb hopen hnotx _ rfl
  exact ⟨h1, h2, h3, h4, h6, h7⟩

/-- when `rng` enumerates exactly `idx.values`, `perm` is a permutation of the model writer's value map -/
theorem absVals_perm (hp : Heap) (rng vals : List (UInt64 × Ptr)) (h : rng.Perm vals) : (absVals hp rng).Perm (absVals hp vals) :=
  h.map _

example :
    let w := Gen.indexWriterAddRow (fun b => (b.length : Nat).toUInt64) {} {} [([1], [2]), ([1, 5], [3])]
    (Gen.writeToBoltDatabase toyExt w.2.1.values {} w.1 w.2.1 (some 0)).1.commits
      = [[([100, 97, 116, 97], [86, 0, 0, 0, 0, 0, 0, 0, 3], [0, 0, 0, 1]),
          ([100, 97, 116, 97], [86, 0, 0, 0, 0, 0, 0, 0, 4], [0, 0, 0, 1]),
          ([100, 97, 116, 97], [83], [2]),
          ([100, 97, 116, 97], [73], [0, 0, 0, 1])]] := by decide

/-! ### BigIndexWriter.AddRow -/

/-- **`(*BigIndexWriter).AddRow` = `BigWriter.addRow`** (a simulation: the temp bucket is a key SET, the model keeps it as
a list). With the temporary database open and the writer's transaction writable on it: the call returns the counter
BEFORE the increment and nil; afterwards the schema is the model's, the temp bucket holds exactly the model's keys
`be64(getValueIndex(k, v)) ‖ be32(rowID)` (12 bytes), the counter is the model's, the database is again ready for the
next `AddRow` (also across the commit every 1000 rows), and the mutex is released. -/
theorem bigIndexWriterAddRow_eq (H : Bytes → UInt64) (bolt : Bolt) (hp : Heap) (idx : BigIndexWriter)
    (values : List (Bytes × Bytes)) (d : BucketData) (w : BigWriter)
    (hr : BigReady bolt idx d) (wf : SchemaWF H hp idx.schema) (rel : BigRel hp idx d w)
    (hnext : idx.nextRowID.toNat = w.next) (hroom : idx.nextRowID.toNat + 1 < 2 ^ 32) :
    (Gen.bigIndexWriterAddRow H bolt hp idx values).2.2.2 = (idx.nextRowID, nilError) ∧
    ∃ d', BigReady (Gen.bigIndexWriterAddRow H bolt hp idx values).1 (Gen.bigIndexWriterAddRow H bolt hp idx values).2.2.1 d' ∧
      SchemaWF H (Gen.bigIndexWriterAddRow H bolt hp idx values).2.1 (Gen.bigIndexWriterAddRow H bolt hp idx values).2.2.1.schema ∧
      BigRel (Gen.bigIndexWriterAddRow H bolt hp idx values).2.1 (Gen.bigIndexWriterAddRow H bolt hp idx values).2.2.1 d'
        (BigWriter.addRow H w values) ∧
      (Gen.bigIndexWriterAddRow H bolt hp idx values).2.2.1.nextRowID.toNat = (BigWriter.addRow H w values).next ∧
      (idx.mtx = {} → (Gen.bigIndexWriterAddRow H bolt hp idx values).2.2.1.mtx = {}) :=
  bigIndexWriterAddRow_spec H bolt hp idx values d w hr wf rel hnext hroom _ rfl

/-- a temp database with the bucket created and a writable transaction open, as `NewBigIndexWriter` leaves it -/
def demoTemp : Bolt :=
  { id := 7, committed := [([116, 101, 109, 112], [])], tx := some { id := 0, writable := true, buckets := [([116, 101, 109, 112], [])] }, nextTx := 1 }

example :
    let r := Gen.bigIndexWriterAddRow (fun b => (b.length : Nat).toUInt64) demoTemp {} { tempDB := some 7, tempTx := some 0 }
      [([1], [2]), ([1, 5], [3])]
    r.2.2.2 = (0, none) ∧ r.2.2.1.nextRowID = 1 ∧
    (bucketData r.1 (some (0, [116, 101, 109, 112]))).map (·.map (·.1))
      = some [[0, 0, 0, 0, 0, 0, 0, 3, 0, 0, 0, 0], [0, 0, 0, 0, 0, 0, 0, 4, 0, 0, 0, 0]] := by decide

end Updog.GeneratedEq
